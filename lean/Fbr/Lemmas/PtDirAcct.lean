/-
  Helper lemmas for C16: the server's `add_dirent` accounting as the callback of the record loop.
  (The first block restates the facts about `Srv.addDirent` that `Fbr.Lemmas.SrvReply` proves for
  the srv engine; they are re-proved here so that C16 does not depend on that file's build.)
-/
import Fbr.Lemmas.PtDir

namespace Fbr.Lemmas.PtDir
open Fbr.PtDir Fbr.Wire Fbr.Srv

theorem attrBytes_length' (a : Conv.Attr) : (attrBytes a).length = 88 := by simp [attrBytes, le64, le32]

theorem entryOutBytes_length' (o : Conv.EntryOut) : (entryOutBytes o).length = 128 := by
  simp [entryOutBytes, attrBytes_length', le64, le32]

theorem direntChunks_total' (d : DirEnt) (e : Option Conv.Entry) :
    ((direntChunks d e).foldl (· ++ ·) []).length = direntTotal d e := by
  unfold direntChunks direntTotal
  have hp := Nat.div_mul_le_self (DIRENT + d.name.length + 7) 8
  have hq : DIRENT + d.name.length ≤ (DIRENT + d.name.length + 7) / 8 * 8 := by unfold DIRENT; omega
  cases e with
  | none => simp [List.foldl, DIRENT, le64, le32, zeros]; omega
  | some en => simp [List.foldl, DIRENT, ENTRY_OUT, entryOutBytes_length', le64, le32, zeros]; omega

theorem pushChunk_ok' (cc written : Nat) (acc c : Bytes) (h : written + acc.length + c.length ≤ cc) :
    pushChunk cc written (acc, false) c = (acc ++ c, false) := by
  unfold pushChunk
  simp only [Bool.false_eq_true, if_false]
  by_cases hc : c.isEmpty
  · have : c = [] := List.isEmpty_iff.mp hc
    subst this; simp
  · have : ¬ written + acc.length + c.length > cc := by omega
    simp [hc, this]

theorem foldl_append_nil' (l : List Bytes) (x : Bytes) : l.foldl (· ++ ·) x = x ++ l.foldl (· ++ ·) [] := by
  induction l generalizing x with
  | nil => simp
  | cons y ys ih => simp only [List.foldl_cons, List.nil_append]; rw [ih (x ++ y), ih y]; simp

theorem foldl_pushChunk_ok' (cc written : Nat) (chunks : List Bytes) (acc : Bytes)
    (h : written + acc.length + (chunks.foldl (· ++ ·) []).length ≤ cc) :
    chunks.foldl (pushChunk cc written) (acc, false) = (acc ++ chunks.foldl (· ++ ·) [], false) := by
  induction chunks generalizing acc with
  | nil => simp
  | cons c cs ih =>
    simp only [List.foldl_cons, List.nil_append] at h ⊢
    rw [foldl_append_nil' cs c] at h ⊢
    simp only [List.length_append] at h
    rw [pushChunk_ok' cc written acc c (by omega)]
    rw [ih (acc ++ c) (by simp only [List.length_append]; omega)]
    simp

/-- bytes `add_dirent` accounts for a record: the padded dirent plus, for READDIRPLUS, the entry -/
def fuseLen (plus : Bool) (n : Nat) : Nat := (24 + n + 7) / 8 * 8 + (if plus then 128 else 0)

theorem fuseLen_pos (plus : Bool) (n : Nat) : 0 < fuseLen plus n := by unfold fuseLen; omega

theorem direntTotal_eq (d : DirEnt) (plus : Bool) :
    direntTotal d (if plus then some default else none) = fuseLen plus d.name.length := by
  unfold direntTotal fuseLen DIRENT ENTRY_OUT
  cases plus <;> simp

/-- with a cursor of `size` bytes `add_dirent` never fails: it skips the record or accounts it -/
theorem addDirent_result (size written : Nat) (d : DirEnt) (plus : Bool) :
    (addDirent size size written d (if plus then some default else none)).2 =
      if size - written < fuseLen plus d.name.length then .ok 0 else .ok (fuseLen plus d.name.length) := by
  unfold addDirent
  rw [direntTotal_eq]
  by_cases h : size - written < fuseLen plus d.name.length
  · simp [h]
  · simp only [h, if_false]
    have hlen := direntChunks_total' d (if plus then some default else none)
    rw [direntTotal_eq] at hlen
    have : writeChunks size written (direntChunks d (if plus then some default else none)) =
        ((direntChunks d (if plus then some default else none)).foldl (· ++ ·) [], false) := by
      unfold writeChunks
      have hp := fuseLen_pos plus d.name.length
      have := foldl_pushChunk_ok' size written (direntChunks d (if plus then some default else none)) []
        (by simp only [List.length_nil, Nat.add_zero]; omega)
      simpa using this
    rw [this]

/-! ### the record loop under that callback -/

def real (b : Dir) : Dir := b.filter (fun e => !isDot e)

/-- the `DirEntry` the loop hands to the callback for a record -/
def view (e : HEnt) : Offer := { ino := e.ino, off := e.cookie, type := e.type, name := trimName (nameField e) }

/-- the records the accounting accepts: the longest prefix whose `fuseLen`s fit in `size - written` -/
def accepted (size : Nat) (plus : Bool) : Dir → Nat → Dir
  | [], _ => []
  | e :: r, written =>
    if size - written < fuseLen plus (view e).name.length then []
    else e :: accepted size plus r (written + fuseLen plus (view e).name.length)

theorem srvCb_step (size : Nat) (plus : Bool) (a : Acc) (o : Offer) :
    srvCb size plus none a o =
      if size - a.written < fuseLen plus o.name.length then ({ a with offered := a.offered + 1 }, .ok 0)
      else ({ written := a.written + fuseLen plus o.name.length, out := a.out ++ [o], offered := a.offered + 1 },
            .ok (fuseLen plus o.name.length)) := by
  unfold srvCb
  simp only [reduceCtorEq, if_false]
  have h := addDirent_result size a.written { ino := o.ino, off := o.off, type := o.type, name := o.name } plus
  simp only at h
  rw [h]
  by_cases hlt : size - a.written < fuseLen plus o.name.length
  · simp [hlt]
  · simp only [hlt, if_false]
    have hp := fuseLen_pos plus o.name.length
    cases hf : fuseLen plus o.name.length with
    | zero => omega
    | succ n => rfl

/-- the record loop with the server's accounting delivers exactly the accepted prefix of the
    non-dot records, takes one reference per delivered record (plus only) and never fails -/
theorem entryLoop_srvCb (size : Nat) (plus : Bool) (b : Dir) (first : Bool) (a : Acc) (refs : List Nat) :
    let acc := accepted size plus (real b) a.written
    (entryLoop plus (srvCb size plus none) b first a refs).cb.out = a.out ++ acc.map view ∧
    (entryLoop plus (srvCb size plus none) b first a refs).ret = .ok () ∧
    (entryLoop plus (srvCb size plus none) b first a refs).refs =
      (if plus then (acc.map (·.ino)).reverse ++ refs else refs) := by
  induction b generalizing first a refs with
  | nil => simp [entryLoop, real, accepted]
  | cons e r ih =>
    unfold entryLoop
    by_cases hd : isDot e = true
    · simp only [hd, if_true]
      have : real (e :: r) = real r := by simp [real, hd]
      rw [this]
      exact ih false a refs
    · have hd' : isDot e = false := by simpa using hd
      simp only [hd', Bool.false_eq_true, if_false]
      have hreal : real (e :: r) = e :: real r := by simp [real, hd']
      rw [hreal]
      have hstep := srvCb_step size plus a (view e)
      simp only [view] at hstep ⊢
      rw [hstep]
      by_cases hlt : size - a.written < fuseLen plus (trimName (nameField e)).length
      · simp only [hlt, if_true, accepted, view]
        cases plus <;> simp
      · simp only [hlt, if_false]
        have hp := fuseLen_pos plus (trimName (nameField e)).length
        cases hf : fuseLen plus (trimName (nameField e)).length with
        | zero => omega
        | succ n =>
          simp only
          rw [← hf]
          have ih' := ih false { written := a.written + fuseLen plus (trimName (nameField e)).length,
                                 out := a.out ++ [{ ino := e.ino, off := e.cookie, type := e.type, name := trimName (nameField e) }],
                                 offered := a.offered + 1 }
                         (if plus then e.ino :: refs else refs)
          simp only at ih'
          obtain ⟨h1, h2, h3⟩ := ih'
          simp only [accepted, view, hlt, if_false]
          refine ⟨?_, h2, ?_⟩
          · rw [h1]; simp [view]
          · rw [h3]; cases plus <;> simp

end Fbr.Lemmas.PtDir
