/-
  do_mkdir / do_mknod / do_create / do_symlink keep the forest a valid cache of the disk.
-/
import Fbr.Ovl
import Fbr.Lemmas.OvlHoare
import Fbr.Lemmas.OvlSim
import Fbr.Lemmas.OvlSimLookup
import Fbr.Lemmas.OvlSimRO
import Fbr.Lemmas.OvlLocal
import Fbr.Lemmas.OvlMut
import Fbr.Lemmas.OvlMutA
import Fbr.Lemmas.OvlMutB
import Fbr.Lemmas.OvlMutP1
import Fbr.Lemmas.OvlMutP2
import Fbr.Lemmas.OvlMutP3
import Fbr.Lemmas.OvlEval
import Fbr.Lemmas.OvlCopyUp
import Fbr.Lemmas.OvlOps

namespace Fbr.Ovl

theorem Layer.set_set (L : Layer) (q : Path) (a b : Node) : (L.set q a).set q b = L.set q b := by
  funext p
  simp only [Layer.set]
  split <;> rfl

/-- the statements of `doCreateLike` after `copy_node_up(parent)` -/
def createTail (pp : Path) (n : Name) (isMkdir : Bool) (old : Option MNode) (meth : Method) (X : Node) : M Unit := do
  let pr ← getUpperReal pp
  whenM (oldInUpper old) (tryDeleteWhiteout pr n)
  let ri ← pr.mkNode meth n X
  installChild pp n isMkdir old pr ri

/-- the same with an arbitrary way of making the entry (`do_link`: `link` instead of `mknod`) -/
def createTailG (pp : Path) (n : Name) (isMkdir : Bool) (old : Option MNode) (mk : Real → M Real) : M Unit := do
  let pr ← getUpperReal pp
  whenM (oldInUpper old) (tryDeleteWhiteout pr n)
  let ri ← mk pr
  installChild pp n isMkdir old pr ri

/-- `mk pr` behaves like the `mknodat`-style creation of the entry `X` named `n` under `pr`, on
    every state whose upper layer satisfies `C` -/
structure MkLike (mk : Real → M Real) (n : Name) (X : Node) (C : Layer → Prop) : Prop where
  ok : ∀ (s : St) (r : Real) (L L' : Layer), r.inUpper = true → s.disk.layer r.layer = some L → C L →
    hMk L r.path n X = .ok L' →
    ∃ s', mk r s = .ok (childReal r n) s' ∧ s'.disk = s.disk.setLayer r.layer L' ∧ s'.mem = s.mem
  err : ∀ (s : St) (r : Real) (L : Layer) (e : Nat), r.inUpper = true → s.disk.layer r.layer = some L → C L →
    hMk L r.path n X = .error e →
    ∃ s', mk r s = .err e s' ∧ s'.disk = s.disk ∧ s'.mem = s.mem

theorem mkLike_mkNode (meth : Method) (n : Name) (X : Node) :
    MkLike (fun pr => pr.mkNode meth n X) n X (fun _ => True) :=
  ⟨fun _ _ _ _ hu hL _ hf => mkNode_ok' meth n X hu hL hf, fun _ _ _ _ hu hL _ hf => mkNode_err' meth n X hu hL hf⟩

/-- what the new entry must look like -/
structure NewEntry (isMkdir : Bool) (X : Node) : Prop where
  present : X.isAbsent = false
  notWh : X.isWhiteout = false
  dirCase : isMkdir = true → ∃ mode, X = .dir mode 0 0
  fileCase : isMkdir = false → X.isDir = false

theorem newEntry_notOpaque {b : Bool} {X : Node} (h : NewEntry b X) : X.isOpaqueDir = false := by
  cases b with
  | true => obtain ⟨mode, rfl⟩ := h.dirCase rfl; rfl
  | false =>
    have := h.fileCase rfl
    cases X <;> simp_all [Node.isDir, Node.isOpaqueDir]

/-- the first real inode of a node in the upper layer -/
theorem upper_head {s : St} (hc : Consistent s) {p : Path} {m : MNode} (hm : s.mem p = some m)
    (hmu : m.inUpper = true) :
    ∃ r, m.upperReal = some r ∧ r.layer = 0 ∧ r.path = p ∧ r.inUpper = true ∧
      r.whiteout = (s.disk.nodeAt 0 p).isWhiteout ∧ ∃ rest, m.reals = r :: rest := by
  obtain ⟨r, rest, hr, hru, hur⟩ := upperReal_of_inUpper hmu
  have hsh := reals_shape hc hm r (by simp [hr])
  have hl : r.layer = 0 := by
    have := hsh.2.1
    rw [hru] at this
    simpa using this.symm
  exact ⟨r, hur, hl, hsh.1, hru, by rw [hsh.2.2, hl], rest, hr⟩

/-- a name that is listed in an upper directory node: the upper directory really is one -/
theorem parent_isDir_of_kid {s : St} (hc : Consistent s) {pp : Path} {pm : MNode} (hpm : s.mem pp = some pm)
    (hpu : pm.inUpper = true) (hlo : pm.loaded = true) {n : Name} (hn : n ∈ pm.kids) :
    (s.disk.nodeAt 0 pp).isDir = true := by
  have hl := hc.toLocal
  have hne := (hl.kidsLoaded pp pm hpm hlo n).1 hn
  obtain ⟨r, _, hl0, hp0, _, hw0, rest, hr⟩ := upper_head hc hpm hpu
  cases hd : (s.disk.nodeAt 0 pp).isDir with
  | true => rfl
  | false =>
    exfalso
    apply hne
    have : (s.disk.statReal r).isDir = false := by simp [Disk.statReal, hl0, hp0, hd]
    simp [localExp, hr, takeDirs, this, newFromReals]

theorem takeDirs_prefix' (d : Disk) : ∀ l : List Real, takeDirs d l <+: l
  | [] => List.prefix_refl _
  | r :: rest => by
    unfold takeDirs
    split
    · exact List.nil_prefix
    · split
      · exact List.nil_prefix
      · split
        · exact ⟨rest, rfl⟩
        · exact (List.prefix_cons_inj r).2 (takeDirs_prefix' d rest)

/-- what LOOKUP answers for a node whose only real inode is an upper one -/
theorem specStat_upper_single {s : St} (hc : Consistent s) {q : Path} {m : MNode} {ri : Real}
    (hm : s.mem q = some m) (hr : m.reals = [ri]) (hw : ri.whiteout = false) (hl : ri.layer = 0)
    (hp : ri.path = q) : specStat s.disk q = some (s.disk.nodeAt 0 q) := by
  rw [specStat_of_mem hc hm, hr]
  simp [headStat, hw, Disk.statReal, hl, hp]

/-- ... and nothing is visible below it where the upper layer has nothing -/
theorem specStat_child_upper_single {s : St} (hc : Consistent s) {q : Path} {m : MNode} {ri : Real}
    (hm : s.mem q = some m) (hr : m.reals = [ri]) (hl : ri.layer = 0) (hp : ri.path = q) (c : Name)
    (habs : (s.disk.nodeAt 0 (c :: q)).isAbsent = true) : specStat s.disk (c :: q) = none := by
  rw [specStat_eq, ← localExp_eq_exp (hc.reals q m hm) c]
  have hlc : lookupChild s.disk ri c = none := by
    unfold lookupChild
    split
    · rfl
    · rw [hl, hp]
      cases hx : s.disk.nodeAt 0 (c :: q) <;> simp_all [Node.isAbsent]
  have htd : (takeDirs s.disk [ri]).filterMap (lookupChild s.disk · c) = [] := by
    have := takeDirs_sub s.disk [ri]
    cases ht : takeDirs s.disk [ri] with
    | nil => rfl
    | cons a t =>
      have ha : a = ri := by simpa using this a (by rw [ht]; simp)
      have htn : t = [] := by
        have hp := (takeDirs_prefix' s.disk [ri])
        rw [ht] at hp
        have := hp.length_le
        cases t with
        | nil => rfl
        | cons b t' => simp at this
      rw [htn, ha]
      simp [hlc]
  simp [localExp, hr, htd, newFromReals, headStat]

theorem createTailG_cons {s : St} (hc : Consistent s) (pp : Path) (n : Name) (isMkdir : Bool)
    (old : Option MNode) (mk : Real → M Real) (X : Node) (hX : NewEntry isMkdir X)
    {C : Layer → Prop} (hML : MkLike mk n X C)
    (hC : ∀ L, s.disk.upper = some L → C L ∧ C (L.set (n :: pp) .absent))
    {pm : MNode} (hpm : s.mem pp = some pm) (hpu : pm.inUpper = true) (hlo : pm.loaded = true)
    (hold : match old with
      | none => n ∉ pm.kids
      | some o => s.mem (n :: pp) = some o ∧ o.whiteout = true) :
    Outcome (createTailG pp n isMkdir old mk s)
      (fun _ s' => Consistent s' ∧
        (isMkdir = true → old.isSome = true → (s'.disk.nodeAt 0 (n :: pp)).isOpaqueDir = true) ∧
        (∃ X', specStat s'.disk (n :: pp) = some X' ∧ X'.view = X.view) ∧
        (isMkdir = true → ∀ c, specStat s'.disk (c :: n :: pp) = none) ∧
        (∀ q, q ≠ n :: pp → s'.disk.nodeAt 0 q = s.disk.nodeAt 0 q) ∧
        (∀ q, q ≠ pp → (n :: pp).isSuffixOf q = false → s'.mem q = s.mem q) ∧
        FrameX (n :: pp) s s')
      (fun s' => Consistent s' ∧ ViewX s s') := by
  have hl := hc.toLocal
  obtain ⟨pr, hpr, hprl, hprp, hpru, _, _, _⟩ := upper_head hc hpm hpu
  -- the upper layer exists
  obtain ⟨L, hup⟩ : ∃ L, s.disk.upper = some L := by
    cases h : s.disk.upper with
    | none =>
      have := no_upper_not_inUpper hc h hpm
      rw [this] at hpu; cases hpu
    | some L => exact ⟨L, rfl⟩
  have hu : s.disk.upper.isSome := by rw [hup]; rfl
  have hframeX : ∀ (X' : Node) (s' : St), s'.disk = s.disk.setUpper (n :: pp) X' → FrameX (n :: pp) s s' := by
    intro X' s' hd
    refine FrameX.of_upper hup (L' := L.set (n :: pp) X') (by rw [hd]; simp [Disk.setUpper, hup]) _ fun q hq => ?_
    have : q ≠ n :: pp := by intro h; rw [h, below_self] at hq; cases hq
    simp only [Layer.set, if_neg this]
  have hL0 : s.disk.layer pr.layer = some L := by rw [hprl]; exact hup
  have hri : childReal pr n = { layer := 0, inUpper := true, path := n :: pp, whiteout := false, opq := false } := by
    simp [childReal, hprl, hprp]
  obtain ⟨hCL, hCL'⟩ := hC L hup
  unfold createTailG
  rw [bind_ok (getUpperReal_ok hpm hpr)]
  -- common end of the successful paths: the upper layer now has `X'` at the path
  cases old with
  | none =>
    -- no node of that name
    simp only [oldInUpper, whenM_false]
    rw [bind_ok (pure_eval () s)]
    cases hmk : hMk L pr.path n X with
    | error e =>
      obtain ⟨s1, he, hd1, hm1⟩ := hML.err s pr L e hpru hL0 hCL hmk
      rw [bind_err he]
      exact ⟨hc.congr hd1 hm1, ViewX.of_disk hd1⟩
    | ok L' =>
      obtain ⟨s1, hok, hd1, hm1⟩ := hML.ok s pr L L' hpru hL0 hCL hmk
      rw [bind_ok hok]
      -- what success of mkdirat/mknodat/... tells about the upper layer
      rw [hprp] at hmk
      have hpar : (L pp).isDir = true ∧ (L (n :: pp)).isAbsent = true ∧ L' = L.set (n :: pp) X := by
        simp only [hMk, hParent] at hmk
        cases hx : L pp <;> simp [hx] at hmk
        by_cases ha : (L (n :: pp)).isAbsent = true
        · simp [ha] at hmk; exact ⟨rfl, ha, hmk.symm⟩
        · simp [ha] at hmk
      obtain ⟨hpd, hpa, hL'⟩ := hpar
      have hdir0 : (s.disk.nodeAt 0 pp).isDir = true := by simpa [Disk.nodeAt, Disk.layer, hup] using hpd
      have habs : (s.disk.nodeAt 0 (n :: pp)).isAbsent = true := by simpa [Disk.nodeAt, Disk.layer, hup] using hpa
      have hdisk1 : s1.disk = s.disk.setUpper (n :: pp) X := by
        rw [hd1, hprl, hL']; simp [Disk.setUpper, hup]
      -- install: a new node
      simp only [installChild]
      obtain ⟨s2, hins, hd2, hm2⟩ := insertChild_ok' (s := s1) n (newNode (childReal pr n)) (by rw [hm1]; exact hpm)
      rw [hins]
      have hnone : headStat s.disk (localExp s.disk pm n) = none := by
        cases hle : localExp s.disk pm n with
        | nil => rfl
        | cons r0 rest0 =>
          by_cases hw0 : r0.whiteout = true
          · simp [headStat, hw0]
          · simp only [Bool.not_eq_true] at hw0
            exact absurd ((hl.kidsLoaded pp pm hpm hlo n).2 (by rw [hle]; simp [needsNode, hw0])) hold
      have hloc := newEntry_localExp hc hu n pp X hpm hpu hdir0 hX.present
        (by
          cases isMkdir with
          | true => exact Or.inr (no_lower_dirs hc n pp hpm habs hnone)
          | false => left; rw [hX.fileCase rfl]; rfl)
      have hreal : realOf (s.disk.setUpper (n :: pp) X) (n :: pp) 0 = childReal pr n := by
        have : (s.disk.setUpper (n :: pp) X).nodeAt 0 (n :: pp) = X := by rw [nodeAt_setUpper _ _ _ hu]; simp
        simp [realOf, this, hX.notWh, newEntry_notOpaque hX, hri]
      have := consistent_insertChild hc hup n pp X (m' := newNode (childReal pr n)) hpm hlo ⟨rfl, rfl⟩
        (by rw [← hL']; exact (keepRoot_hMk pp n X L L' hmk))
        (by rw [hloc, hreal]; exact Or.inl rfl)
        (by simp [newNode, headWhiteout])
        (by rw [hloc]; simp) []
      have hcf := this.congr (by rw [hd2, hdisk1]) (by rw [hm2, hm1])
      have hmf : s2.mem (n :: pp) = some (newNode (childReal pr n)) := by
        rw [hm2, hm1, insertedMem_apply]; simp [cons_ne_self]
      have hnf : ∀ q, s2.disk.nodeAt 0 q = if q = n :: pp then X else s.disk.nodeAt 0 q := by
        intro q; rw [hd2, hdisk1, nodeAt_setUpper _ _ _ hu]; simp
      have hleafL : ∀ c, (s.disk.nodeAt 0 (c :: n :: pp)).isAbsent = true := by
        intro c
        have := leaf_of_nondir (hl.trees 0 L hup) (q := n :: pp)
          (by cases hx : L (n :: pp) <;> simp_all [Node.isAbsent, Node.isDir]) c
        simpa [Disk.nodeAt, Disk.layer, hup] using this
      refine ⟨hcf, fun _ h => (by cases h), ⟨X, ?_, rfl⟩, fun _ c => ?_, fun q hq => by rw [hnf, if_neg hq],
        fun q hq1 hq2 => ?_, hframeX X s2 (by rw [hd2, hdisk1])⟩
      · rw [specStat_upper_single (ri := childReal pr n) hcf hmf rfl (by simp [hri]) (by simp [hri]) (by simp [hri]), hnf]; simp
      · refine specStat_child_upper_single (ri := childReal pr n) hcf hmf rfl (by simp [hri]) (by simp [hri]) c ?_
        rw [hnf, if_neg (cons_ne_self c (n :: pp))]; exact hleafL c
      · have hq3 : q ≠ n :: pp := by intro h; rw [h, below_self] at hq2; cases hq2
        rw [hm2, hm1, insertedMem_apply, if_neg hq1, if_neg hq3, hq2]; rfl
  | some o =>
    obtain ⟨hom, how⟩ := hold
    obtain ⟨pm', hpm', hnk⟩ := hl.reach n pp o hom
    rw [hpm] at hpm'; cases hpm'
    have hdir0 := parent_isDir_of_kid hc hpm hpu hlo hnk
    have hpd : (L pp).isDir = true := by simpa [Disk.nodeAt, Disk.layer, hup] using hdir0
    -- the whiteout node's first real inode
    have howh : ∃ r rest, o.reals = r :: rest ∧ r.whiteout = true := by
      have := hc.wh _ o hom
      rw [how] at this
      cases hr : o.reals with
      | nil => rw [hr] at this; simp [headWhiteout] at this
      | cons r rest => rw [hr] at this; exact ⟨r, rest, rfl, by simpa [headWhiteout] using this.symm⟩
    obtain ⟨ro, resto, hro, hrow⟩ := howh
    -- after the (possible) deletion of the upper whiteout the upper layer has nothing at the path
    have step1 : ∃ s1 L1, (whenM (oldInUpper (some o)) (tryDeleteWhiteout pr n)) s = .ok () s1 ∧
        s1.disk = s.disk.setLayer 0 L1 ∧ s1.mem = s.mem ∧ (L1 (n :: pp)).isAbsent = true ∧
        (∀ X', L1.set (n :: pp) X' = L.set (n :: pp) X') ∧ (L1 pp).isDir = true ∧ C L1 := by
      by_cases hou : o.inUpper = true
      · obtain ⟨r0, _, hl0, hp0, _, hw0, rest0, hr0⟩ := upper_head hc hom hou
        rw [hro] at hr0
        have : ro = r0 := by injection hr0
        subst this
        have hLq : L (n :: pp) = .whiteout := by
          have : (s.disk.nodeAt 0 (n :: pp)).isWhiteout = true := by rw [← hw0]; exact hrow
          have : (L (n :: pp)).isWhiteout = true := by simpa [Disk.nodeAt, Disk.layer, hup] using this
          cases hx : L (n :: pp) <;> simp_all [Node.isWhiteout]
        have hdel : hDeleteWhiteout L pr.path n = .ok (L.set (n :: pp) .absent) := by
          simp [hDeleteWhiteout, hprp, hLq, hUnlink]
        obtain ⟨s1, h1, hd1, hm1⟩ := tryDeleteWhiteout_ok' n hL0 hdel
        refine ⟨s1, L.set (n :: pp) .absent, ?_, by rw [hd1, hprl], hm1, by simp [Layer.set, Node.isAbsent],
          fun X' => Layer.set_set _ _ _ _, ?_⟩
        · simp only [oldInUpper, hou, whenM_true]; exact h1
        · exact ⟨by simp only [Layer.set, if_neg (ne_cons_self n pp)]; exact hpd, hCL'⟩
      · simp only [Bool.not_eq_true] at hou
        obtain ⟨_, _, _, habs, _⟩ := lowerDir_facts hc n pp hpm hom hpu hou hro
        refine ⟨s, L, ?_, ?_, rfl, by simpa [Disk.nodeAt, Disk.layer, hup] using habs, fun _ => rfl, hpd, hCL⟩
        · simp only [oldInUpper, hou, whenM_false]; rfl
        · simp [Disk.setLayer, hup]
          cases hs : s.disk with
          | mk up lo => simp [hs] at hup ⊢; exact hup
    obtain ⟨s1, L1, hs1, hd1, hm1, hL1a, hL1set, hL1p, hCL1⟩ := step1
    rw [bind_ok hs1]
    -- mknod / mkdir / ... now succeeds
    have hmk : hMk L1 pr.path n X = .ok (L1.set (n :: pp) X) := by
      rw [hprp]
      cases hx : L1 pp <;> simp_all [hMk, hParent, Node.isDir]
    have hL01 : s1.disk.layer pr.layer = some L1 := by rw [hprl, hd1]; simp [Disk.layer, Disk.setLayer]
    obtain ⟨s2, hok, hd2, hm2⟩ := hML.ok s1 pr L1 _ hpru hL01 hCL1 hmk
    rw [bind_ok hok]
    have hdisk2 : s2.disk = s.disk.setUpper (n :: pp) X := by
      rw [hd2, hd1, hprl, hL1set X]; simp [Disk.setUpper, hup, Disk.setLayer]
    have hmem2 : s2.mem = s.mem := by rw [hm2, hm1]
    have hstepX : ∀ X', X'.isAbsent = false → HostStep L (L.set (n :: pp) X') := by
      intro X' _
      refine ⟨fun hd => by rw [set_root]; exact hd, fun ht m q hmq => ?_⟩
      -- replacing one entry of a directory by another entry; nothing lies below the old entry
      simp only [Layer.set] at hmq ⊢
      by_cases h1 : m :: q = n :: pp
      · have : q = pp := by injection h1
        subst this
        rw [if_neg (ne_cons_self n q)]; exact hpd
      · rw [if_neg h1] at hmq
        by_cases h2 : q = n :: pp
        · subst h2
          -- something below the whiteout / absent entry: impossible in a tree
          have := ht m (n :: pp) hmq
          exfalso
          have hnd : (L (n :: pp)).isDir = false := by
            by_cases hou : o.inUpper = true
            · obtain ⟨r0, _, hl0, hp0, _, hw0, rest0, hr0⟩ := upper_head hc hom hou
              rw [hro] at hr0
              have : ro = r0 := by injection hr0
              subst this
              have : (s.disk.nodeAt 0 (n :: pp)).isWhiteout = true := by rw [← hw0]; exact hrow
              have : (L (n :: pp)).isWhiteout = true := by simpa [Disk.nodeAt, Disk.layer, hup] using this
              cases hx : L (n :: pp) <;> simp_all [Node.isWhiteout, Node.isDir]
            · simp only [Bool.not_eq_true] at hou
              obtain ⟨_, _, _, habs, _⟩ := lowerDir_facts hc n pp hpm hom hpu hou hro
              have : (L (n :: pp)).isAbsent = true := by simpa [Disk.nodeAt, Disk.layer, hup] using habs
              cases hx : L (n :: pp) <;> simp_all [Node.isAbsent, Node.isDir]
          rw [hnd] at this; cases this
        · rw [if_neg h2]; exact ht m q hmq
    have hreal : ∀ X', X'.isWhiteout = false →
        realOf (s.disk.setUpper (n :: pp) X') (n :: pp) 0 =
          { layer := 0, inUpper := true, path := n :: pp, whiteout := false, opq := X'.isOpaqueDir } := by
      intro X' hw
      have : (s.disk.setUpper (n :: pp) X').nodeAt 0 (n :: pp) = X' := by rw [nodeAt_setUpper _ _ _ hu]; simp
      simp [realOf, this, hw]
    have ⟨hokids, honochild⟩ := nondir_no_kids hc hom hro (by
      have hsh := reals_shape hc hom ro (by simp [hro])
      have : (s.disk.nodeAt ro.layer (n :: pp)).isWhiteout = true := by rw [← hsh.2.2]; exact hrow
      simp only [Disk.statReal, hsh.1]
      cases hx : s.disk.nodeAt ro.layer (n :: pp) <;> simp_all [Node.isWhiteout, Node.isDir])
    have hleafL : ∀ c, (s.disk.nodeAt 0 (c :: n :: pp)).isAbsent = true := by
      intro c
      have hnd : (L (n :: pp)).isDir = false := by
        by_cases hou : o.inUpper = true
        · obtain ⟨r0, _, hl0, hp0, _, hw0, rest0, hr0⟩ := upper_head hc hom hou
          rw [hro] at hr0
          have : ro = r0 := by injection hr0
          subst this
          have : (s.disk.nodeAt 0 (n :: pp)).isWhiteout = true := by rw [← hw0]; exact hrow
          have : (L (n :: pp)).isWhiteout = true := by simpa [Disk.nodeAt, Disk.layer, hup] using this
          cases hx : L (n :: pp) <;> simp_all [Node.isWhiteout, Node.isDir]
        · simp only [Bool.not_eq_true] at hou
          obtain ⟨_, _, _, habs, _⟩ := lowerDir_facts hc n pp hpm hom hpu hou hro
          have : (L (n :: pp)).isAbsent = true := by simpa [Disk.nodeAt, Disk.layer, hup] using habs
          cases hx : L (n :: pp) <;> simp_all [Node.isAbsent, Node.isDir]
      have := leaf_of_nondir (hl.trees 0 L hup) hnd c
      simpa [Disk.nodeAt, Disk.layer, hup] using this
    simp only [installChild]
    cases isMkdir with
    | true =>
      obtain ⟨mode, hXd⟩ := hX.dirCase rfl
      simp only [if_true]
      -- set_opaque, then a fresh node
      have hcp : (childReal pr n).path = n :: pp := by simp [hri]
      have hso : hSetOpaque (L1.set (n :: pp) X) (n :: pp) = .ok ((L1.set (n :: pp) X).set (n :: pp) (.dir mode 1 0)) := by
        simp [hSetOpaque, Layer.set, hXd]
      have hL02 : s2.disk.layer pr.layer = some (L1.set (n :: pp) X) := by
        rw [hprl, hd2, hprl]; simp [Disk.layer, Disk.setLayer]
      rw [hcp]
      obtain ⟨s3, h3, hd3, hm3⟩ := layerCall_ok' (f := fun L => hSetOpaque L (n :: pp)) Method.setOpaque hL02 hso
      rw [bind_ok h3]
      obtain ⟨s4, hins, hd4, hm4⟩ := insertChild_ok' (s := s3) n (newNode (childReal pr n))
        (by rw [hm3, hmem2]; exact hpm)
      rw [hins]
      have hdisk4 : s4.disk = s.disk.setUpper (n :: pp) (.dir mode 1 0) := by
        rw [hd4, hd3, hd2, hd1, hprl, Layer.set_set, hL1set (.dir mode 1 0)]
        simp [Disk.setUpper, hup, Disk.setLayer]
      have hloc := newEntry_localExp hc hu n pp (.dir mode 1 0) hpm hpu hdir0 rfl (Or.inl rfl)
      have := consistent_insertChild hc hup n pp (.dir mode 1 0) (m' := newNode (childReal pr n)) hpm hlo ⟨rfl, rfl⟩
        (hstepX _ rfl)
        (by
          rw [hloc, hreal _ rfl]
          exact Or.inr ⟨_, rfl, rfl, by simp [newNode, hri, staleOf, Node.isOpaqueDir]⟩)
        (by simp [newNode, headWhiteout, hri])
        (by rw [hloc]; simp) []
      have hcf := this.congr hdisk4 (by rw [hm4, hm3, hmem2])
      have hmf : s4.mem (n :: pp) = some (newNode (childReal pr n)) := by
        rw [hm4, hm3, hmem2, insertedMem_apply]; simp [cons_ne_self]
      have hnf : ∀ q, s4.disk.nodeAt 0 q = if q = n :: pp then .dir mode 1 0 else s.disk.nodeAt 0 q := by
        intro q; rw [hdisk4, nodeAt_setUpper _ _ _ hu]; simp
      refine ⟨hcf, fun _ _ => ?_, ⟨.dir mode 1 0, ?_, by rw [hXd]; rfl⟩, fun _ c => ?_, fun q hq => by rw [hnf, if_neg hq],
        fun q hq1 hq2 => ?_, hframeX _ s4 hdisk4⟩
      · rw [hnf]; simp [Node.isOpaqueDir]
      · rw [specStat_upper_single (ri := childReal pr n) hcf hmf rfl (by simp [hri]) (by simp [hri]) (by simp [hri]), hnf]; simp
      · refine specStat_child_upper_single (ri := childReal pr n) hcf hmf rfl (by simp [hri]) (by simp [hri]) c ?_
        rw [hnf, if_neg (cons_ne_self c (n :: pp))]; exact hleafL c
      · have hq3 : q ≠ n :: pp := by intro h; rw [h, below_self] at hq2; cases hq2
        rw [hm4, hm3, hmem2, insertedMem_apply, if_neg hq1, if_neg hq3, hq2]; rfl
    | false =>
      simp only [Bool.false_eq_true, if_false]
      obtain ⟨s3, hadd, hd3, hm3⟩ := addUpperInode_ok' (s := s2) (childReal pr n) true (by rw [hmem2]; exact hom)
      rw [hadd]
      have hXnd := hX.fileCase rfl
      have hloc := newEntry_localExp hc hu n pp X hpm hpu hdir0 hX.present (Or.inl (by rw [hXnd]; rfl))
      have hloc2 : ∀ c, localExp (s.disk.setUpper (n :: pp) X) (addUpperNode o (childReal pr n) true) c = [] := by
        intro c
        have : ((s.disk.setUpper (n :: pp) X).statReal (childReal pr n)).isDir = false := by
          simp only [Disk.statReal, hri, nodeAt_setUpper _ _ _ hu]
          simp [hXnd]
        have htd : takeDirs (s.disk.setUpper (n :: pp) X) [childReal pr n] = [] := by
          simp [takeDirs, this]
        simp [localExp, addUpperNode, htd, newFromReals]
      have := consistent_setNode hc hup n pp X (m' := addUpperNode o (childReal pr n) true) hpm hom rfl rfl
        (hstepX X hX.present)
        (by
          rw [hloc, hreal X hX.notWh, newEntry_notOpaque hX]
          exact Or.inl (by simp [addUpperNode, hri]))
        (by intro c cm hcm; rw [honochild c] at hcm; cases hcm)
        (by
          intro _ c
          rw [hloc2]
          refine ⟨fun hcin => ?_, fun h => by simp [needsNode] at h⟩
          have : c ∈ o.kids := hcin
          rw [hokids] at this; cases this)
        (by simp [addUpperNode, headWhiteout, hri])
        (by rw [hloc]; simp) []
      have hcf := this.congr (by rw [hd3, hdisk2]) (by rw [hm3, hmem2])
      have hmf : s3.mem (n :: pp) = some (addUpperNode o (childReal pr n) true) := by
        rw [hm3, hmem2]; simp [Mem.set]
      have hnf : ∀ q, s3.disk.nodeAt 0 q = if q = n :: pp then X else s.disk.nodeAt 0 q := by
        intro q; rw [hd3, hdisk2, nodeAt_setUpper _ _ _ hu]; simp
      refine ⟨hcf, fun h => (by cases h), ⟨X, ?_, rfl⟩, fun h => (by cases h), fun q hq => by rw [hnf, if_neg hq],
        fun q hq1 hq2 => ?_, hframeX X s3 (by rw [hd3, hdisk2])⟩
      · rw [specStat_upper_single (ri := childReal pr n) hcf hmf (by simp [addUpperNode]) (by simp [hri]) (by simp [hri]) (by simp [hri]), hnf]
        simp
      · have hq3 : q ≠ n :: pp := by intro h; rw [h, below_self] at hq2; cases hq2
        rw [hm3, hmem2]; simp [Mem.set, hq3]

theorem createTail_cons {s : St} (hc : Consistent s) (pp : Path) (n : Name) (isMkdir : Bool)
    (old : Option MNode) (meth : Method) (X : Node) (hX : NewEntry isMkdir X)
    {pm : MNode} (hpm : s.mem pp = some pm) (hpu : pm.inUpper = true) (hlo : pm.loaded = true)
    (hold : match old with
      | none => n ∉ pm.kids
      | some o => s.mem (n :: pp) = some o ∧ o.whiteout = true) :
    Outcome (createTail pp n isMkdir old meth X s)
      (fun _ s' => Consistent s' ∧
        (isMkdir = true → old.isSome = true → (s'.disk.nodeAt 0 (n :: pp)).isOpaqueDir = true) ∧
        (∃ X', specStat s'.disk (n :: pp) = some X' ∧ X'.view = X.view) ∧
        (isMkdir = true → ∀ c, specStat s'.disk (c :: n :: pp) = none) ∧ FrameX (n :: pp) s s')
      (fun s' => Consistent s' ∧ ViewX s s') := by
  have := createTailG_cons hc pp n isMkdir old (fun pr => pr.mkNode meth n X) X hX (mkLike_mkNode meth n X)
    (fun _ _ => ⟨trivial, trivial⟩) hpm hpu hlo hold
  show Outcome (createTailG pp n isMkdir old (fun pr => pr.mkNode meth n X) s) _ _
  cases hres : createTailG pp n isMkdir old (fun pr => pr.mkNode meth n X) s with
  | ok u s' => rw [hres] at this; exact ⟨this.1, this.2.1, this.2.2.1, this.2.2.2.1, this.2.2.2.2.2.2⟩
  | err e s' => rw [hres] at this; exact this

/-- `copy_node_up` with everything it guarantees on success -/
theorem copyNodeUp_spec (p : Path) (s : St) (hc : Consistent s) :
    Outcome (copyNodeUp p s) (fun _ s' => CUD p s s') (fun s' => Consistent s' ∧ ViewX s s') := by
  unfold copyNodeUp
  cases hm : s.mem p with
  | none => rw [bind_err (getNode_err hm)]; exact ⟨hc, ViewX.refl s⟩
  | some m =>
    rw [bind_ok (getNode_ok hm)]
    by_cases hmu : m.inUpper = true
    · simp only [hmu, if_true]
      have hu : s.disk.upper.isSome := by
        cases h : s.disk.upper with
        | none => have := no_upper_not_inUpper hc h hm; rw [this] at hmu; cases hmu
        | some L => rfl
      exact ⟨hc, ⟨m, hm, hmu⟩, rfl, hu, fun _ _ => rfl, fun p' m0 h => ⟨m0, h, rfl, rfl⟩, StatKept.refl s,
        ImgKept.refl_anc hc hm hmu, fun _ => ViewX.refl s⟩
    · simp only [hmu, Bool.false_eq_true, if_false]
      simp only [Bool.not_eq_true] at hmu
      have hst := nodeStat_eq hc hm
      cases hr : m.reals with
      | nil => rw [hr] at hst; rw [bind_err hst]; exact ⟨hc, ViewX.refl s⟩
      | cons r rest =>
        rw [hr] at hst
        rw [bind_ok hst]
        cases hup : s.disk.upper with
        | none =>
          have := copyNodeUp_cons p s hc
          -- without an upper layer it fails; reuse the triple
          by_cases hd : (s.disk.statReal r).isDir = true
          · obtain ⟨e, he⟩ := createUpperDir_noUpper p s hc hup
            simp only [hd, if_true, he]
            exact ⟨hc, ViewX.refl s⟩
          · simp only [hd, Bool.false_eq_true, if_false]
            cases p with
            | nil => exact ⟨hc, ViewX.refl s⟩
            | cons n pp =>
              obtain ⟨pm, hpm, _⟩ := hc.reach n pp m hm
              have hpnu := no_upper_not_inUpper hc hup hpm
              obtain ⟨e, he⟩ := createUpperDir_noUpper pp s hc hup
              have : parentUpperReal pp s = .err e s := by
                unfold parentUpperReal
                rw [bind_ok (getNode_ok hpm), show (!pm.inUpper) = true by simp [hpnu], whenM_true, bind_err he]
              show Outcome (copyFileUp (s.disk.statReal r) pp n s) _ _
              unfold copyFileUp
              rw [bind_err this]
              exact ⟨hc, ViewX.refl s⟩
        | some L =>
          have hu : s.disk.upper.isSome := by rw [hup]; rfl
          by_cases hd : (s.disk.statReal r).isDir = true
          · simp only [hd, if_true]
            have := createUpperDir_spec p s hc hu
            cases hres : createUpperDir p s with
            | ok u s' => rw [hres] at this; exact this
            | err e s' => rw [hres] at this; exact ⟨this.cons, this.view⟩
          · simp only [hd, Bool.false_eq_true, if_false]
            cases p with
            | nil => exact ⟨hc, ViewX.refl s⟩
            | cons n pp =>
              simp only [Bool.not_eq_true] at hd
              have := copyFileUp_spec hc hu n pp hm hmu hr hd
              show Outcome (copyFileUp (s.disk.statReal r) pp n s) _ _
              cases hres : copyFileUp (s.disk.statReal r) pp n s with
              | ok u s' => rw [hres] at this; exact this
              | err e s' => rw [hres] at this; exact ⟨this.cons, this.view⟩

theorem lookupSelf_loaded {s : St} (hc : Consistent s) {p : Path} {m : MNode} (hm : s.mem p = some m)
    (hw : m.whiteout = false) (hlo : m.loaded = true) {r : Real} {rest : List Real} (hr : m.reals = r :: rest) :
    lookupSelf p s = .ok m s := by
  have hst := nodeStat_eq hc hm
  rw [hr] at hst
  unfold lookupSelf
  rw [bind_ok (getNode_ok hm)]
  simp only [hw, Bool.false_eq_true, if_false]
  rw [bind_ok hst]
  simp only [hlo, Bool.not_true, Bool.and_false, whenM_false]
  rw [bind_ok (pure_eval () s), getNode_ok hm]

/-- a loaded node without real inodes lists nothing -/
theorem no_reals_no_kids {s : St} (hc : Consistent s) {p : Path} {m : MNode} (hm : s.mem p = some m)
    (hlo : m.loaded = true) (hr : m.reals = []) : m.kids = [] := by
  have hl := hc.toLocal
  cases hk : m.kids with
  | nil => rfl
  | cons c ks =>
    have := (hl.kidsLoaded p m hm hlo c).1 (by rw [hk]; simp)
    exfalso; apply this
    simp [localExp, hr, takeDirs, newFromReals]

/-- `do_mkdir` / `do_mknod` / `do_create` / `do_symlink`: the cache stays valid, and a directory made
    where the forest had a (whiteout) node is opaque in the upper layer afterwards -/
theorem doCreateLike_spec (pp : Path) (n : Name) (isMkdir : Bool) (meth : Method) (X : Node)
    (hX : NewEntry isMkdir X) (s : St) (hc : Consistent s) {pm : MNode} (hpm : s.mem pp = some pm)
    (hlo : pm.loaded = true) :
    Outcome (doCreateLike pp n isMkdir (mkChildOf meth n X) s)
      (fun _ s' => Consistent s' ∧
        (isMkdir = true → (∃ o, s.mem (n :: pp) = some o) → (s'.disk.nodeAt 0 (n :: pp)).isOpaqueDir = true) ∧
        (∃ X', specStat s'.disk (n :: pp) = some X' ∧ X'.view = X.view) ∧
        (isMkdir = true → ∀ c, specStat s'.disk (c :: n :: pp) = none) ∧
        (DirNode pp s → FrameX (n :: pp) s s'))
      (fun s' => Consistent s' ∧ (DirNode pp s → ViewX s s')) := by
  have hl := hc.toLocal
  unfold doCreateLike
  rw [bind_ok (hasUpper_eval s)]
  cases hupb : s.disk.upper.isSome with
  | false => simp only [Bool.not_false, if_true]; exact ⟨hc, fun _ => ViewX.refl s⟩
  | true =>
    simp only [Bool.not_true, Bool.false_eq_true, if_false]
    rw [bind_ok (getNode_ok hpm)]
    by_cases hw : pm.whiteout = true
    · simp only [hw, if_true]; exact ⟨hc, fun _ => ViewX.refl s⟩
    · simp only [Bool.not_eq_true] at hw
      simp only [hw, Bool.false_eq_true, if_false]
      -- the old node of that name, if any
      have hold : ∃ old, catchEnoent (lookupNode pp n) s = .ok old s ∧
          (match old with
            | none => n ∉ pm.kids
            | some o => s.mem (n :: pp) = some o) := by
        cases hr : pm.reals with
        | nil =>
          have hst := nodeStat_eq hc hpm
          rw [hr] at hst
          have hls : lookupSelf pp s = .err ENOENT s := by
            unfold lookupSelf
            rw [bind_ok (getNode_ok hpm)]
            simp only [hw, Bool.false_eq_true, if_false]
            rw [bind_err hst]
          have : lookupNode pp n s = .err ENOENT s := by
            unfold lookupNode
            rw [bind_err hls]
          refine ⟨none, by simp [catchEnoent, this], ?_⟩
          rw [no_reals_no_kids hc hpm hlo hr]; simp
        | cons r rest =>
          have hls := lookupSelf_loaded hc hpm hw hlo hr
          by_cases hn : n ∈ pm.kids
          · obtain ⟨o, ho⟩ := hl.kidsMem pp pm n hpm hn
            have : lookupNode pp n s = .ok o s := by
              unfold lookupNode
              rw [bind_ok hls]
              simp [hn, getNode_ok ho]
            exact ⟨some o, by simp [catchEnoent, this], ho⟩
          · have : lookupNode pp n s = .err ENOENT s := by
              unfold lookupNode
              rw [bind_ok hls]
              simp [hn, fail]
            exact ⟨none, by simp [catchEnoent, this], hn⟩
      obtain ⟨old, hcatch, holdp⟩ := hold
      rw [bind_ok hcatch]
      -- EEXIST for a visible node
      have hcheck : (checkOld old s = .ok () s ∧ (∀ o, old = some o → o.whiteout = true)) ∨
          (∃ e, checkOld old s = .err e s) := by
        cases old with
        | none => exact Or.inl ⟨rfl, fun o h => by cases h⟩
        | some o =>
          by_cases how : o.whiteout = true
          · exact Or.inl ⟨by simp [checkOld, how, pure_eval], fun o' h => by cases h; exact how⟩
          · exact Or.inr ⟨EEXIST, by simp [checkOld, how, fail]⟩
      rcases hcheck with ⟨hck, howh⟩ | ⟨e, hck⟩
      · rw [bind_ok hck]
        have hcp := copyNodeUp_spec pp s hc
        cases hres : copyNodeUp pp s with
        | err e s' => rw [hres] at hcp; rw [bind_err hres]; exact ⟨hcp.1, fun _ => hcp.2⟩
        | ok u s2 =>
          rw [hres] at hcp
          rw [bind_ok hres]
          obtain ⟨pm2, hpm2, hpu2⟩ := hcp.up
          obtain ⟨pm2', hpm2', hlo2, hk2⟩ := hcp.keep pp pm hpm
          rw [hpm2] at hpm2'; cases hpm2'
          have hq2 : s2.mem (n :: pp) = s.mem (n :: pp) := hcp.frame _ (by simp [isSuffixOf_cons_self])
          show Outcome (createTail pp n isMkdir old meth X s2) _ _
          have hct := createTail_cons hcp.cons pp n isMkdir old meth X hX hpm2 hpu2 (by rw [hlo2]; exact hlo)
            (by
              cases old with
              | none => simpa [hk2] using holdp
              | some o => exact ⟨by rw [hq2]; exact holdp, howh o rfl⟩)
          cases hres2 : createTail pp n isMkdir old meth X s2 with
          | err e s3 => rw [hres2] at hct; exact ⟨hct.1, fun hdn => (hcp.view hdn).trans hct.2⟩
          | ok u2 s3 =>
            rw [hres2] at hct
            refine ⟨hct.1, fun hmk ⟨o, ho⟩ => hct.2.1 hmk ?_, hct.2.2.1, hct.2.2.2.1,
              fun hdn => FrameX.after (hcp.view hdn) hct.2.2.2.2⟩
            cases old with
            | some o' => rfl
            | none =>
              -- a node exists, so the parent lists the name
              obtain ⟨pm', hpm', hn'⟩ := hl.reach n pp o ho
              rw [hpm] at hpm'; cases hpm'
              exact absurd hn' holdp
      · rw [bind_err hck]; exact ⟨hc, fun _ => ViewX.refl s⟩

theorem doCreateLike_cons (pp : Path) (n : Name) (isMkdir : Bool) (meth : Method) (X : Node)
    (hX : NewEntry isMkdir X) :
    Triple (fun s => Consistent s ∧ ∃ pm, s.mem pp = some pm ∧ pm.loaded = true)
      (doCreateLike pp n isMkdir (mkChildOf meth n X)) (fun _ => Consistent) Consistent := by
  apply Triple.ofOutcome
  intro s ⟨hc, pm, hpm, hlo⟩
  have := doCreateLike_spec pp n isMkdir meth X hX s hc hpm hlo
  cases hres : doCreateLike pp n isMkdir (mkChildOf meth n X) s with
  | ok u s' => rw [hres] at this; exact this.1
  | err e s' => rw [hres] at this; exact this.1

/-! ### whole operations: create, mkdir, mknod, symlink -/

/-- the parent of the path resolves to a visible directory that is in the forest -/
def DirAt (pp : Path) (s : St) : Prop :=
  ∃ st, specStat s.disk pp = some st ∧ st.isDir = true ∧ ∃ m, s.mem pp = some m

theorem resolveParent_spec (p : List Name) :
    Triple Consistent (resolveParent p) (fun r s => Consistent s ∧ DirAt r.1 s) Consistent := by
  unfold resolveParent
  split
  · exact Triple.fail' fun _ h => h
  · rename_i pp' n _
    intro s hs
    have h := resolve_spec s.disk pp' s ⟨hs, rfl⟩
    unfold Triple at *
    refine ⟨fun a s' hf => ?_, fun e s' hf => ?_⟩
    · -- success
      cases hr : resolve pp' s with
      | err e s1 => rw [bind_err hr] at hf; cases hf
      | ok r s1 =>
        obtain ⟨ppath, pst⟩ := r
        obtain ⟨⟨hc1, hd1⟩, _, hsp, hmem⟩ := h.1 _ s1 hr
        rw [bind_ok hr] at hf
        by_cases hd : pst.isDir = true
        · simp only [hd, Bool.not_true, Bool.false_eq_true, if_false] at hf
          cases hf
          exact ⟨hc1, pst, by rw [hd1]; exact hsp, hd, hmem⟩
        · simp only [hd, Bool.not_false, if_true] at hf
          cases hf
    · cases hr : resolve pp' s with
      | err e1 s1 =>
        rw [bind_err hr] at hf; cases hf
        exact (h.2 _ _ hr).1.1
      | ok r s1 =>
        obtain ⟨ppath, pst⟩ := r
        rw [bind_ok hr] at hf
        have hc1 := (h.1 _ s1 hr).1.1
        by_cases hd : pst.isDir = true
        · simp only [hd, Bool.not_true, Bool.false_eq_true, if_false] at hf
          cases hf
        · simp only [hd, Bool.not_false, if_true] at hf
          cases hf; exact hc1

theorem lookupSelf_ready (pp : Path) :
    Triple (fun s => Consistent s ∧ DirAt pp s) (lookupSelf pp)
      (fun _ s => Consistent s ∧ ∃ pm, s.mem pp = some pm ∧ pm.loaded = true) Consistent := by
  intro s ⟨hc, st, hsp, hd, m, hm⟩
  have h := lookupSelf_spec s.disk pp s ⟨⟨hc, rfl⟩, m, hm⟩
  refine ⟨fun a s' hf => ?_, fun e s' hf => (h.2 e s' hf).1.1⟩
  obtain ⟨⟨hc', _⟩, hm', _, hload⟩ := h.1 a s' hf
  exact ⟨hc', a, hm', hload st hsp hd⟩

theorem doLookup_cons (pp : Path) (n : Name) : Triple Consistent (doLookup pp n) (fun _ => Consistent) Consistent :=
  doLookup_ro loadDirectory_cons pp n

theorem freshId_ready (pp : Path) :
    Triple (fun s => Consistent s ∧ ∃ pm, s.mem pp = some pm ∧ pm.loaded = true) freshId
      (fun _ s => Consistent s ∧ ∃ pm, s.mem pp = some pm ∧ pm.loaded = true) Consistent := by
  intro s hs
  refine ⟨fun a s' h => ?_, fun e s' h => ?_⟩ <;> cases h
  exact ⟨hs.1.congr rfl rfl, hs.2⟩

theorem createOp_cons (p : List Name) (isMkdir : Bool) (meth : Method) (X : Name → Node)
    (hX : ∀ n, NewEntry isMkdir (X n)) :
    Triple Consistent (do
      let (pp, n) ← resolveParent p
      let _ ← lookupSelf pp
      doCreateLike pp n isMkdir (mkChildOf meth n (X n))
      let _ ← doLookup pp n
      pure Reply.done) (fun _ => Consistent) Consistent := by
  refine Triple.bind (resolveParent_spec p) fun r => ?_
  obtain ⟨pp, n⟩ := r
  refine Triple.bind (lookupSelf_ready pp) fun _ => ?_
  refine Triple.bind (doCreateLike_cons pp n isMkdir meth (X n) (hX n)) fun _ => ?_
  refine Triple.bind (doLookup_cons pp n) fun _ => ?_
  exact Triple.pure' fun _ h => h

theorem runOp_mkdir_cons (p : List Name) (mode : Nat) :
    Triple Consistent (runOp (.mkdir p mode)) (fun _ => Consistent) Consistent := by
  unfold runOp
  exact createOp_cons p true .mkdir (fun _ => .dir mode 0 0)
    (fun _ => ⟨rfl, rfl, fun _ => ⟨mode, rfl⟩, fun h => (by cases h)⟩)

theorem runOp_symlink_cons (p : List Name) (t : Nat) :
    Triple Consistent (runOp (.symlink p t)) (fun _ => Consistent) Consistent := by
  unfold runOp
  exact createOp_cons p false .symlink (fun _ => .symlink t)
    (fun _ => ⟨rfl, rfl, fun h => (by cases h), fun _ => rfl⟩)

theorem runOp_create_cons (p : List Name) (mode : Nat) :
    Triple Consistent (runOp (.create p mode)) (fun _ => Consistent) Consistent := by
  unfold runOp
  refine Triple.bind (resolveParent_spec p) fun r => ?_
  obtain ⟨pp, n⟩ := r
  refine Triple.bind (lookupSelf_ready pp) fun _ => ?_
  refine Triple.bind (freshId_ready pp) fun id => ?_
  refine Triple.bind (doCreateLike_cons pp n false .create (.file id mode [] 0)
    ⟨rfl, rfl, fun h => (by cases h), fun _ => rfl⟩) fun _ => ?_
  refine Triple.bind (doLookup_cons pp n) fun _ => ?_
  exact Triple.pure' fun _ h => h

theorem runOp_mknod_cons (p : List Name) (mode : Nat) :
    Triple Consistent (runOp (.mknod p mode)) (fun _ => Consistent) Consistent := by
  unfold runOp
  refine Triple.bind (resolveParent_spec p) fun r => ?_
  obtain ⟨pp, n⟩ := r
  refine Triple.bind (lookupSelf_ready pp) fun _ => ?_
  refine Triple.bind (freshId_ready pp) fun id => ?_
  refine Triple.bind (doCreateLike_cons pp n false .mknod (.other id mode)
    ⟨rfl, rfl, fun h => (by cases h), fun _ => rfl⟩) fun _ => ?_
  refine Triple.bind (doLookup_cons pp n) fun _ => ?_
  exact Triple.pure' fun _ h => h

end Fbr.Ovl
