/-
  Lemmas about `allocLoop` (the loop of `Vfs::allocate_fs_idx`): specification for every
  position of `next_super` (wrap-around included) and fuel sufficiency.
-/
import Fbr.Vfs

namespace Fbr.Lemmas.VfsAlloc
open Fbr.Vfs

/-- after `k` iterations the loop stands at `(start + k) % 256` with `found = (0 < k)`; from there
    it returns a vacant non-zero index, or `none` and then every index it still had to visit was
    zero or occupied -/
theorem allocLoop_from (supers : Nat → Option Bk) (start : Nat) (hs : start < 256) :
    ∀ (m k fuel : Nat), k + m = 256 → m + 1 ≤ fuel →
      (allocLoop supers fuel start ((start + k) % 256) (decide (0 < k))).1 < 256 ∧
      (∀ i, (allocLoop supers fuel start ((start + k) % 256) (decide (0 < k))).2 = some i →
          i ≠ 0 ∧ i < 256 ∧ supers i = none) ∧
      ((allocLoop supers fuel start ((start + k) % 256) (decide (0 < k))).2 = none →
          ∀ j, k ≤ j → j < 256 → (start + j) % 256 = 0 ∨ (supers ((start + j) % 256)).isSome = true) := by
  intro m
  induction m with
  | zero =>
    intro k fuel hk hf
    obtain ⟨f, rfl⟩ : ∃ f, fuel = f + 1 := ⟨fuel - 1, by omega⟩
    have hk' : k = 256 := by omega
    subst hk'
    have h1 : (start + 256) % 256 = start := by omega
    simp only [allocLoop, h1]
    simp
    refine ⟨by omega, ?_⟩
    intro j h1 h2; omega
  | succ m ih =>
    intro k fuel hk hf
    obtain ⟨f, rfl⟩ : ∃ f, fuel = f + 1 := ⟨fuel - 1, by omega⟩
    have hk256 : k < 256 := by omega
    have hnext : ((start + k) % 256 + 1) % 256 = (start + (k + 1)) % 256 := by omega
    have hnot : ¬ ((start + k) % 256 = start ∧ decide (0 < k) = true) := by
      intro ⟨h1, h2⟩
      have : 0 < k := by simpa using h2
      omega
    have hfound : (decide (0 < k) || ((start + k) % 256 == start)) = decide (0 < k + 1) := by
      by_cases h0 : k = 0
      · subst h0; simp; omega
      · have : 0 < k := by omega
        simp [this]
    have ihk := ih (k + 1) f (by omega) (by omega)
    unfold allocLoop
    simp only [hnot, if_false, hnext, hfound]
    by_cases hz : (start + k) % 256 = 0
    · simp only [hz, if_true]
      obtain ⟨a, b, c⟩ := ihk
      refine ⟨a, b, ?_⟩
      intro hn j hj1 hj2
      by_cases hjk : j = k
      · subst hjk; exact Or.inl hz
      · exact c hn j (by omega) hj2
    · simp only [hz, if_false]
      by_cases ho : (supers ((start + k) % 256)).isSome = true
      · simp only [ho, if_true]
        obtain ⟨a, b, c⟩ := ihk
        refine ⟨a, b, ?_⟩
        intro hn j hj1 hj2
        by_cases hjk : j = k
        · subst hjk; exact Or.inr ho
        · exact c hn j (by omega) hj2
      · have ho' : (supers ((start + k) % 256)).isSome = false := by simpa using ho
        simp only [ho', Bool.false_eq_true, if_false]
        refine ⟨by omega, ?_, by simp⟩
        intro i hi
        simp at hi
        subst hi
        refine ⟨hz, by omega, ?_⟩
        cases h : supers ((start + k) % 256) with
        | none => rfl
        | some b => simp [h] at ho'

/-- fuel sufficiency: any two fuels that cover the remaining iterations give the same result, so
    the clause for exhausted fuel is never reached from `ALLOC_FUEL = 257` -/
theorem allocLoop_fuel (supers : Nat → Option Bk) (start : Nat) (hs : start < 256) :
    ∀ (m k fuel fuel' : Nat), k + m = 256 → m + 1 ≤ fuel → m + 1 ≤ fuel' →
      allocLoop supers fuel start ((start + k) % 256) (decide (0 < k))
        = allocLoop supers fuel' start ((start + k) % 256) (decide (0 < k)) := by
  intro m
  induction m with
  | zero =>
    intro k fuel fuel' hk hf hf'
    obtain ⟨f, rfl⟩ : ∃ f, fuel = f + 1 := ⟨fuel - 1, by omega⟩
    obtain ⟨f', rfl⟩ : ∃ f, fuel' = f + 1 := ⟨fuel' - 1, by omega⟩
    have hk' : k = 256 := by omega
    subst hk'
    have h1 : (start + 256) % 256 = start := by omega
    simp [allocLoop, h1]
  | succ m ih =>
    intro k fuel fuel' hk hf hf'
    obtain ⟨f, rfl⟩ : ∃ f, fuel = f + 1 := ⟨fuel - 1, by omega⟩
    obtain ⟨f', rfl⟩ : ∃ f, fuel' = f + 1 := ⟨fuel' - 1, by omega⟩
    have hnext : ((start + k) % 256 + 1) % 256 = (start + (k + 1)) % 256 := by omega
    have hfound : (decide (0 < k) || ((start + k) % 256 == start)) = decide (0 < k + 1) := by
      by_cases h0 : k = 0
      · subst h0; simp; omega
      · have : 0 < k := by omega
        simp [this]
    have ihk := ih (k + 1) f f' (by omega) (by omega) (by omega)
    unfold allocLoop
    simp only [hnext, hfound, ihk]

/-- specification of `allocate_fs_idx` for every state with `next_super < 256` -/
theorem allocate_spec (s : State) (hn : s.nextSuper < 256) :
    (s.allocateFsIdx).1.nextSuper < 256 ∧
    (s.allocateFsIdx).1.supers = s.supers ∧ (s.allocateFsIdx).1.mnts = s.mnts ∧
    (∀ i, (s.allocateFsIdx).2 = some i → i ≠ 0 ∧ i < 256 ∧ s.supers i = none) ∧
    ((s.allocateFsIdx).2 = none ↔ ∀ i, 0 < i → i < 256 → (s.supers i).isSome = true) := by
  have h := allocLoop_from s.supers s.nextSuper hn 256 0 ALLOC_FUEL (by omega) (by unfold ALLOC_FUEL; omega)
  simp only [Nat.add_zero, Nat.mod_eq_of_lt hn, Nat.lt_irrefl, decide_false] at h
  obtain ⟨h1, h2, h3⟩ := h
  unfold State.allocateFsIdx
  refine ⟨h1, rfl, rfl, h2, ?_, ?_⟩
  · intro hnone i hi0 hi256
    have := h3 hnone ((i + 256 - s.nextSuper) % 256) (by omega) (by omega)
    have hidx : (s.nextSuper + (i + 256 - s.nextSuper) % 256) % 256 = i := by omega
    rw [hidx] at this
    rcases this with h | h
    · omega
    · exact h
  · intro hall
    cases hr : (allocLoop s.supers ALLOC_FUEL s.nextSuper s.nextSuper false).2 with
    | none => rfl
    | some i =>
      obtain ⟨a, b, c⟩ := h2 i hr
      have := hall i (by omega) b
      simp [c] at this

/-- `allocate_fs_idx` touches nothing but `next_super` -/
theorem allocate_eq (s : State) : ∃ next r, s.allocateFsIdx = ({ s with nextSuper := next }, r) := by
  unfold State.allocateFsIdx
  exact ⟨_, _, rfl⟩

end Fbr.Lemmas.VfsAlloc
