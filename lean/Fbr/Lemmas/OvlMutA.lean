/-
  (α) One upper-layer entry `q = n :: pp` changes and only the contents of the node at `q` change
  (same kids, same loaded flag): what has to be re-checked locally.
-/
import Fbr.Ovl
import Fbr.Lemmas.OvlExp
import Fbr.Lemmas.OvlSim
import Fbr.Lemmas.OvlLocal
import Fbr.Lemmas.OvlMut

namespace Fbr.Ovl

theorem cons_ne_self {α : Type} (a : α) (l : List α) : a :: l ≠ l := fun h => ne_cons_self a l h.symm

/-- the real inodes of a node at `p` only read entries at `p` and at `n' :: p` -/
theorem agree_setUpper {s : St} (hc : Consistent s) (q : Path) (X : Node) (hu : s.disk.upper.isSome)
    {p : Path} {m : MNode} (hm : s.mem p = some m) (n' : Name) (h1 : p ≠ q) (h2 : n' :: p ≠ q) :
    AgreeFor s.disk (s.disk.setUpper q X) m.reals n' := by
  intro r hr
  have hp := (reals_shape hc hm r hr).1
  rw [hp]
  rw [nodeAt_setUpper_ne _ q X hu _ _ (fun h => h1 h.2), nodeAt_setUpper_ne _ q X hu _ _ (fun h => h2 h.2)]
  exact ⟨sameShape_refl _, sameShape_refl _⟩

/-- the same when the whole upper layer is replaced by one that differs only inside the subtree
    at `q` -/
theorem agree_outside {s : St} (hc : Consistent s) {L L' : Layer} (hup : s.disk.upper = some L) (q : Path)
    (hout : ∀ p, q.isSuffixOf p = false → L' p = L p)
    {p : Path} {m : MNode} (hm : s.mem p = some m) (n' : Name)
    (h1 : q.isSuffixOf p = false) (h2 : q.isSuffixOf (n' :: p) = false) :
    AgreeFor s.disk (s.disk.setLayer 0 L') m.reals n' := by
  intro r hr
  have hp := (reals_shape hc hm r hr).1
  rw [hp]
  have key : ∀ p0, q.isSuffixOf p0 = false → (s.disk.setLayer 0 L').nodeAt r.layer p0 = s.disk.nodeAt r.layer p0 := by
    intro p0 h0
    rw [nodeAt_setLayer0]
    split
    · rename_i hi
      rw [hi, hout p0 h0]
      simp [Disk.nodeAt, Disk.layer, hup]
    · rfl
  rw [key p h1, key (n' :: p) h2]
  exact ⟨sameShape_refl _, sameShape_refl _⟩

/-- (α) generic re-establishment of the invariant -/
theorem consistent_setNode {s : St} (hc : Consistent s) {L : Layer} (hup : s.disk.upper = some L)
    (n : Name) (pp : Path) (X : Node) {pm m m' : MNode}
    (hpm : s.mem pp = some pm) (hm : s.mem (n :: pp) = some m)
    (hkids : m'.kids = m.kids) (hloaded : m'.loaded = m.loaded)
    (hstep : HostStep L (L.set (n :: pp) X))
    (H1 : RealsLike m'.reals (localExp (s.disk.setUpper (n :: pp) X) pm n))
    (H2 : ∀ c cm, s.mem (c :: n :: pp) = some cm →
      RealsLike cm.reals (localExp (s.disk.setUpper (n :: pp) X) m' c))
    (H3 : m'.loaded = true → ∀ c,
      (c ∈ m'.kids → localExp (s.disk.setUpper (n :: pp) X) m' c ≠ []) ∧
      (needsNode (localExp (s.disk.setUpper (n :: pp) X) m' c) = true → c ∈ m'.kids))
    (H4 : m'.whiteout = headWhiteout m'.reals)
    (H5 : localExp (s.disk.setUpper (n :: pp) X) pm n ≠ [])
    (log' : List Call) :
    Consistent { s with disk := s.disk.setUpper (n :: pp) X, mem := s.mem.set (n :: pp) (some m'), log := log' } := by
  have hl := hc.toLocal
  have hu : s.disk.upper.isSome := by rw [hup]; rfl
  have hd' : s.disk.setUpper (n :: pp) X = s.disk.setLayer 0 (L.set (n :: pp) X) := by
    simp [Disk.setUpper, hup]
  have hroot0 : ∀ i, (s.disk.setUpper (n :: pp) X).nodeAt i [] = s.disk.nodeAt i [] := fun i =>
    nodeAt_setUpper_ne _ _ X hu i [] (fun h => by cases h.2)
  -- the forest after the change, pointwise
  have hmem : ∀ p, (s.mem.set (n :: pp) (some m')) p = if p = n :: pp then some m' else s.mem p := fun p => rfl
  apply LConsistent.toConsistent
  refine ⟨?_, ?_, ?_, ?_, ?_, ?_, ?_, ?_, ?_⟩
  · -- roots
    intro i hi
    show ((s.disk.setUpper (n :: pp) X).nodeAt i []).isDir = true
    rw [hroot0]
    exact hl.roots i (by rw [← indices_setUpper s.disk (n :: pp) X]; exact hi)
  · -- trees
    intro i Li hLi
    show TreeOK Li
    rw [hd'] at hLi
    cases i with
    | zero =>
      simp only [Disk.layer, Disk.setLayer, Option.some.injEq] at hLi
      subst hLi
      exact hstep.2 (hl.trees 0 L hup)
    | succ j => exact hl.trees (j + 1) Li (by simpa [Disk.layer, Disk.setLayer] using hLi)
  · -- root
    obtain ⟨m0, hm0, hr0⟩ := hl.root
    refine ⟨m0, ?_, ?_⟩
    · show (s.mem.set (n :: pp) (some m')) [] = some m0
      rw [hmem, if_neg (by simp)]; exact hm0
    · show RealsLike m0.reals ((s.disk.setUpper (n :: pp) X).indices.map (rootReal (s.disk.setUpper (n :: pp) X)))
      have : (s.disk.setUpper (n :: pp) X).indices.map (rootReal (s.disk.setUpper (n :: pp) X)) =
          s.disk.indices.map (rootReal s.disk) := by
        rw [indices_setUpper]
        apply List.map_congr_left
        intro i _
        simp [rootReal, hroot0]
      rw [this]; exact hr0
  · -- child
    intro p' pm' n' c hpm' hc'
    show RealsLike c.reals (localExp (s.disk.setUpper (n :: pp) X) pm' n')
    have hpm'' : (s.mem.set (n :: pp) (some m')) p' = some pm' := hpm'
    have hc'' : (s.mem.set (n :: pp) (some m')) (n' :: p') = some c := hc'
    rw [hmem] at hpm'' hc''
    by_cases hq1 : n' :: p' = n :: pp
    · -- the changed node as a child
      have hp' : p' = pp := by injection hq1
      have hn' : n' = n := by injection hq1
      subst hp' hn'
      rw [if_pos rfl] at hc''
      rw [if_neg (ne_cons_self n' p')] at hpm''
      cases hc''
      rw [hpm] at hpm''; cases hpm''
      exact H1
    · rw [if_neg hq1] at hc''
      by_cases hq2 : p' = n :: pp
      · -- children of the changed node
        subst hq2
        rw [if_pos rfl] at hpm''
        cases hpm''
        exact H2 n' c hc''
      · rw [if_neg hq2] at hpm''
        rw [localExp_agree s.disk _ pm' n' (agree_setUpper hc _ X hu hpm'' n' hq2 hq1)]
        exact hl.child p' pm' n' c hpm'' hc''
  · -- wh
    intro p m0 hm0
    have hm0' : (s.mem.set (n :: pp) (some m')) p = some m0 := hm0
    rw [hmem] at hm0'
    split at hm0'
    · cases hm0'; exact H4
    · exact hl.wh p m0 hm0'
  · -- kidsLoaded
    intro p m0 hm0 hlo n'
    show (n' ∈ m0.kids → localExp (s.disk.setUpper (n :: pp) X) m0 n' ≠ []) ∧
      (needsNode (localExp (s.disk.setUpper (n :: pp) X) m0 n') = true → n' ∈ m0.kids)
    have hm0' : (s.mem.set (n :: pp) (some m')) p = some m0 := hm0
    rw [hmem] at hm0'
    by_cases hq2 : p = n :: pp
    · rw [if_pos hq2] at hm0'
      cases hm0'
      exact H3 hlo n'
    · rw [if_neg hq2] at hm0'
      by_cases hq1 : n' :: p = n :: pp
      · have hp' : p = pp := by injection hq1
        have hn' : n' = n := by injection hq1
        subst hp' hn'
        rw [hpm] at hm0'; cases hm0'
        obtain ⟨pm2, hpm2, hn2⟩ := hl.reach n' p m hm
        rw [hpm] at hpm2; cases hpm2
        exact ⟨fun _ => H5, fun _ => hn2⟩
      · rw [localExp_agree s.disk _ m0 n' (agree_setUpper hc _ X hu hm0' n' hq2 hq1)]
        exact hl.kidsLoaded p m0 hm0' hlo n'
  · -- kidsMem
    intro p m0 n' hm0 hn'
    have hm0' : (s.mem.set (n :: pp) (some m')) p = some m0 := hm0
    rw [hmem] at hm0'
    show ∃ c, (s.mem.set (n :: pp) (some m')) (n' :: p) = some c
    rw [hmem]
    by_cases hq1 : n' :: p = n :: pp
    · rw [if_pos hq1]; exact ⟨m', rfl⟩
    · rw [if_neg hq1]
      split at hm0'
      · cases hm0'
        rename_i hq2; subst hq2
        exact hl.kidsMem _ m n' hm (by rw [← hkids]; exact hn')
      · exact hl.kidsMem p m0 n' hm0' hn'
  · -- unloaded
    intro p m0 hm0 hlo
    have hm0' : (s.mem.set (n :: pp) (some m')) p = some m0 := hm0
    rw [hmem] at hm0'
    split at hm0'
    · cases hm0'
      rw [hkids]
      exact hl.unloaded _ m hm (by rw [← hloaded]; exact hlo)
    · exact hl.unloaded p m0 hm0' hlo
  · -- reach
    intro n' p c hc'
    have hc'' : (s.mem.set (n :: pp) (some m')) (n' :: p) = some c := hc'
    rw [hmem] at hc''
    show ∃ pm', (s.mem.set (n :: pp) (some m')) p = some pm' ∧ n' ∈ pm'.kids
    rw [hmem]
    have hold : ∃ c0, s.mem (n' :: p) = some c0 := by
      split at hc''
      · rename_i hq; rw [hq]; exact ⟨m, hm⟩
      · exact ⟨c, hc''⟩
    obtain ⟨c0, hc0⟩ := hold
    obtain ⟨pm', hpm', hn'⟩ := hl.reach n' p c0 hc0
    by_cases hq2 : p = n :: pp
    · rw [if_pos hq2]
      subst hq2
      rw [hm] at hpm'; cases hpm'
      exact ⟨m', rfl, by rw [hkids]; exact hn'⟩
    · rw [if_neg hq2]; exact ⟨pm', hpm', hn'⟩

/-- every ancestor of a node of the forest is in the forest -/
theorem mem_suffix_closed {s : St} (hc : Consistent s) : ∀ (l : List Name) (q : Path) (m : MNode),
    s.mem (l ++ q) = some m → ∃ m', s.mem q = some m'
  | [], _, m, h => ⟨m, h⟩
  | c :: l, q, m, h => by
    obtain ⟨pm, hpm, _⟩ := hc.reach c (l ++ q) m h
    exact mem_suffix_closed hc l q pm hpm

/-- a node that is in the upper layer has its parent node in the upper layer -/
theorem parent_inUpper {s : St} (hc : Consistent s) {n : Name} {pp : Path} {m pm : MNode}
    (hm : s.mem (n :: pp) = some m) (hpm : s.mem pp = some pm) (hmu : m.inUpper = true) :
    pm.inUpper = true := by
  -- 0 is among the kept indices of the child, hence of the parent, hence the parent's first
  have h0 : 0 ∈ expIdx s.disk (n :: pp) := by
    rcases realsOK_forms hc.roots (hc.reals _ m hm) with h | ⟨i, hi, hi0, _⟩
    · cases he : expIdx s.disk (n :: pp) with
      | nil => rw [he] at h; simp [MNode.inUpper, h] at hmu
      | cons i0 t0 =>
        have : m.inUpper = (i0 == 0) := by simp [MNode.inUpper, h, he, realOf]
        rw [hmu] at this
        have hi0 : i0 = 0 := by simpa using this.symm
        simp [hi0]
    · rw [hi, hi0]; simp
  have hsub : (expIdx s.disk (n :: pp)).Sublist (expIdx s.disk pp) := by
    rw [expIdx]
    exact ((cutW_sublist s.disk _ _).trans List.filter_sublist).trans (dirsIdx_sublist s.disk pp _)
  have h0p : 0 ∈ expIdx s.disk pp := hsub.subset h0
  have hhead : ∃ t, expIdx s.disk pp = 0 :: t := by
    cases he : expIdx s.disk pp with
    | nil => rw [he] at h0p; cases h0p
    | cons i t =>
      rw [he] at h0p
      simp only [List.mem_cons] at h0p
      rcases h0p with h | h
      · exact ⟨t, by rw [← h]⟩
      · have := (List.pairwise_cons.1 (he ▸ expIdx_sorted s.disk pp)).1 0 h
        omega
  obtain ⟨t, ht⟩ := hhead
  rcases realsOK_forms hc.roots (hc.reals _ pm hpm) with h | ⟨i, _, hi0, h⟩
  · simp [MNode.inUpper, h, ht, realOf]
  · simp [MNode.inUpper, h, hi0, staleOf, realOf]

/-- every ancestor of a node that is in the upper layer is in the upper layer -/
theorem ancestors_inUpper {s : St} (hc : Consistent s) : ∀ (l : List Name) (q : Path) (m mq : MNode),
    s.mem (l ++ q) = some m → m.inUpper = true → s.mem q = some mq → mq.inUpper = true
  | [], q, m, mq, hm, hmu, hmq => by
    simp only [List.nil_append] at hm
    rw [hm] at hmq; cases hmq; exact hmu
  | c :: l, q, m, mq, hm, hmu, hmq => by
    obtain ⟨pm, hpm, _⟩ := hc.reach c (l ++ q) m hm
    exact ancestors_inUpper hc l q pm mq hpm (parent_inUpper hc hm hpm hmu) hmq

/-- in a tree every ancestor of an existing entry is a directory -/
theorem tree_ancestors_dir {L : Layer} (ht : TreeOK L) : ∀ (l : List Name) (q : Path),
    (L (l ++ q)).isAbsent = false → l ≠ [] → (L q).isDir = true
  | [], _, _, h => absurd rfl h
  | [c], q, ha, _ => ht c q ha
  | c :: c' :: l, q, ha, _ => by
    have h1 : (L (c' :: l ++ q)).isDir = true := ht c (c' :: l ++ q) ha
    have h2 : (L (c' :: l ++ q)).isAbsent = false := by
      cases hx : L (c' :: l ++ q) <;> simp_all [Node.isDir, Node.isAbsent]
    exact tree_ancestors_dir ht (c' :: l) q h2 (by simp)

end Fbr.Ovl
