/-
  Helper lemmas for C04: ONE HANDLE through ANY operation list.  For a reader handle `i` that is
  not itself split by the list: what it delivered, in operation order, is the prefix of what it
  held, as it was in memory at the start (`reader_handle_run`).  For a writer handle `i`: its
  addresses hold what was stored through it, in operation order, the rest of its space and
  everything outside the writers' space is untouched (`writer_handle_run`).  Operations on the
  other handles (reads, writes, splits of them) may be interleaved arbitrarily.
-/
import Fbr.Lemmas.XportCInv

namespace Fbr.Xport

theorem lt_length_of_getElem? {α : Type} {l : List α} {i : Nat} {b : α} (h : l[i]? = some b) : i < l.length := by
  obtain ⟨hl, _⟩ := List.getElem?_eq_some_iff.mp h
  exact hl

/-! ### readers -/

/-- reader handle `b` became `b'` delivering `D`, read through the fixed memory `m` -/
def RdH (D : Bytes) (b : IoBufs) (m : Mem) (b' : IoBufs) : Prop :=
  D.length ≤ total b.segs ∧ addrs b'.segs = (addrs b.segs).drop D.length ∧ b'.consumed = b.consumed + D.length
    ∧ D = ((addrs b.segs).take D.length).map m.byteAt

theorem RdH.refl (b : IoBufs) (m : Mem) : RdH [] b m b := ⟨Nat.zero_le _, by simp, rfl, by simp⟩

theorem RdH.trans {D1 D2 : Bytes} {b1 b2 b3 : IoBufs} {m : Mem} (h1 : RdH D1 b1 m b2) (h2 : RdH D2 b2 m b3) :
    RdH (D1 ++ D2) b1 m b3 := by
  obtain ⟨a1, a2, a3, a4⟩ := h1
  obtain ⟨c1, c2, c3, c4⟩ := h2
  have ht : total b2.segs = total b1.segs - D1.length := by
    have := congrArg List.length a2; simpa using this
  refine ⟨by rw [List.length_append]; omega, ?_, by rw [List.length_append]; omega, ?_⟩
  · rw [c2, a2, List.drop_drop, List.length_append]
  · rw [List.length_append, List.take_add, List.map_append, ← a2, ← a4, ← c4]

theorem RdC.toRdH {D : Bytes} {b b' : IoBufs} {w w' : World} {m : Mem} (h : RdC D b w b' w')
    (hag : ∀ a ∈ addrs b.segs, w.mem.byteAt a = m.byteAt a) : RdH D b m b' := by
  obtain ⟨hadv, _, hD⟩ := h
  refine ⟨hadv.1, hadv.2.2.2.2.2.2.1, hadv.2.2.2.2.2.2.2, ?_⟩
  refine hD.trans ?_
  apply List.map_congr_left
  intro a ha
  exact hag a (List.mem_of_mem_take ha)

theorem RdH.flat {D : Bytes} {b b' : IoBufs} {m : Mem} (h : RdH D b m b') (hin : InMem m (addrs b.segs)) :
    D ++ flat m b'.segs = flat m b.segs := by
  obtain ⟨_, a2, _, a4⟩ := h
  have hin' : InMem m (addrs b'.segs) := by rw [a2]; exact hin.drop _
  rw [flat_eq_map _ _ hin', flat_eq_map _ _ hin, a2]
  conv => lhs; lhs; rw [a4]
  rw [← List.map_append, List.take_append_drop]

theorem step_reader_handle {m0 : Mem} {s : St} (hc : CInv m0 s) (hr : RInv m0 s) (op : Op) (i : Nat) (b0 : IoBufs)
    (hg : s.readers[i]? = some b0) (hns : ∀ k, op ≠ .rs i k) :
    ∃ b1, (step s op).1.readers[i]? = some b1 ∧ RdH (delivered s i op) b0 m0 b1 := by
  have hil := lt_length_of_getElem? hg
  rcases step_view s op hc.ready with ⟨e, hd, _⟩ | ⟨h, b, b', w', hrh, _, hgh, e, hrc⟩ | ⟨h, k, b, a, o, eop, hgh, hs, e⟩
      | ⟨h, b, b', w', hwh, _, hgh, e, hw⟩ | ⟨h, k, b, a, o, eop, hgh, hs, e⟩
  · exact ⟨b0, by rw [e]; exact hg, by rw [hd i]; exact RdH.refl _ _⟩
  · rw [e, delivered_eq hrh hgh i]
    by_cases hi : i = h
    · subst hi
      rw [hg] at hgh; cases hgh
      refine ⟨b', by simp only; exact List.getElem?_set_self hil, ?_⟩
      simp only [if_true]
      apply hrc.toRdH
      intro a ha
      exact hr.agree a (mem_ahead.mpr ⟨b0, mem_of_getElem? hg, ha⟩)
    · refine ⟨b0, by simp only; rw [List.getElem?_set_ne (Ne.symm hi)]; exact hg, ?_⟩
      simp only [hi, if_false]; exact RdH.refl _ _
  · have hi : h ≠ i := by intro e'; subst e'; exact hns k eop
    rw [e, delivered_eq (by rw [eop]; rfl) hgh i]
    refine ⟨b0, ?_, ?_⟩
    · simp only
      rw [List.getElem?_append_left (by rw [List.length_set]; exact hil), List.getElem?_set_ne hi]; exact hg
    · rw [eop]; simp only [readerOut, ite_self]; exact RdH.refl _ _
  · exact ⟨b0, by rw [e]; exact hg, by rw [delivered_none (wh_rh hwh) i]; exact RdH.refl _ _⟩
  · exact ⟨b0, by rw [e]; exact hg, by rw [delivered_none (by rw [eop]; rfl) i]; exact RdH.refl _ _⟩

theorem reader_handle_run {m0 : Mem} (ops : List Op) {s : St} (hc : CInv m0 s) (hr : RInv m0 s) (i : Nat) (b0 : IoBufs)
    (hg : s.readers[i]? = some b0) (hns : ∀ k, Op.rs i k ∉ ops) :
    ∃ bf, (exec s ops).readers[i]? = some bf ∧ RdH (deliveredAll s i ops) b0 m0 bf := by
  induction ops generalizing s b0 with
  | nil => exact ⟨b0, hg, RdH.refl _ _⟩
  | cons op rest ih =>
    obtain ⟨b1, hg1, h1⟩ := step_reader_handle hc hr op i b0 hg
      (by intro k e; exact hns k (by rw [e]; exact List.mem_cons_self))
    obtain ⟨bf, hgf, h2⟩ := ih (step_cinv hc op) (step_rinv hc hr op) b1 hg1
      (by intro k hk; exact hns k (List.mem_cons_of_mem _ hk))
    exact ⟨bf, hgf, h1.trans h2⟩

/-! ### writers -/

/-- writer handle `b` became `b'` storing `D`: memory went from `m` to `m'` -/
def WrH (D : Bytes) (b : IoBufs) (m m' : Mem) (b' : IoBufs) : Prop :=
  D.length ≤ total b.segs ∧ addrs b'.segs = (addrs b.segs).drop D.length ∧ b'.consumed = b.consumed + D.length
    ∧ ((addrs b.segs).take D.length).map m'.byteAt = D
    ∧ ∀ a ∈ (addrs b.segs).drop D.length, m'.byteAt a = m.byteAt a

theorem WrH.same {b : IoBufs} {m m' : Mem} (h : ∀ a ∈ addrs b.segs, m'.byteAt a = m.byteAt a) : WrH [] b m m' b :=
  ⟨Nat.zero_le _, by simp, rfl, by simp, by simpa using h⟩

theorem WrH.trans {D1 D2 : Bytes} {b1 b2 b3 : IoBufs} {m m2 m3 : Mem} (h1 : WrH D1 b1 m m2 b2) (h2 : WrH D2 b2 m2 m3 b3)
    (hfr : ∀ a ∈ (addrs b1.segs).take D1.length, m3.byteAt a = m2.byteAt a) : WrH (D1 ++ D2) b1 m m3 b3 := by
  obtain ⟨a1, a2, a3, a4, a5⟩ := h1
  obtain ⟨c1, c2, c3, c4, c5⟩ := h2
  have ht : total b2.segs = total b1.segs - D1.length := by
    have := congrArg List.length a2; simpa using this
  refine ⟨by rw [List.length_append]; omega, ?_, by rw [List.length_append]; omega, ?_, ?_⟩
  · rw [c2, a2, List.drop_drop, List.length_append]
  · rw [List.length_append, List.take_add, List.map_append, ← a2, c4]
    congr 1
    exact (List.map_congr_left hfr).trans a4
  · intro a ha
    rw [List.length_append, ← List.drop_drop, ← a2] at ha
    rw [c5 a ha]
    apply a5
    rw [← a2]; exact List.mem_of_mem_drop ha

theorem WrH.flat {D : Bytes} {b b' : IoBufs} {m m' : Mem} (h : WrH D b m m' b') (hin : InMem m (addrs b.segs))
    (hlen : ∀ x, (m'.get x).length = (m.get x).length) :
    flat m' b.segs = D ++ (flat m b.segs).drop D.length := by
  obtain ⟨_, _, _, a4, a5⟩ := h
  have hin' : InMem m' (addrs b.segs) := by intro a ha; rw [hlen]; exact hin a ha
  rw [flat_eq_map _ _ hin', flat_eq_map _ _ hin, ← List.map_drop]
  conv => lhs; rw [← List.take_append_drop D.length (addrs b.segs)]
  rw [List.map_append, a4]
  congr 1
  exact List.map_congr_left a5

theorem WrC.toWrH {D : Bytes} {b b' : IoBufs} {w w' : World} (h : WrC D b w b' w') (hnd : (addrs b.segs).Nodup) :
    WrH D b w.mem w'.mem b' := by
  refine ⟨h.adv.1, h.addrs', h.adv.2.2.2.2.2.2.2, h.content hnd, ?_⟩
  intro a ha
  apply h.frame
  intro hm
  have hs : addrs b.segs = (addrs b.segs).take D.length ++ (addrs b.segs).drop D.length :=
    (List.take_append_drop _ _).symm
  rw [hs] at hnd
  exact (List.nodup_append.mp hnd).2.2 a hm a ha rfl

/-- distinct handles of a table whose addresses are pairwise distinct share no address -/
theorem ahead_disjoint_handles {l : List IoBufs} (hnd : (ahead l).Nodup) {i h : Nat} {b0 b : IoBufs}
    (hg : l[i]? = some b0) (hgh : l[h]? = some b) (hne : h ≠ i) : ∀ a ∈ addrs b0.segs, a ∉ addrs b.segs := by
  have hp := perm_ahead_set l h b ⟨[], 0⟩ (addrs b.segs) hgh (by simp [addrs])
  have hnd' := hp.nodup_iff.mpr hnd
  intro a ha hb
  have : a ∈ ahead (l.set h ⟨[], 0⟩) :=
    mem_ahead.mpr ⟨b0, mem_of_getElem? (by rw [List.getElem?_set_ne hne]; exact hg), ha⟩
  exact (List.nodup_append.mp hnd').2.2 a hb a this rfl

theorem nodup_of_mem_ahead {l : List IoBufs} (hnd : (ahead l).Nodup) {i : Nat} {b : IoBufs} (hg : l[i]? = some b) :
    (addrs b.segs).Nodup := by
  have hp := perm_ahead_set l i b ⟨[], 0⟩ (addrs b.segs) hg (by simp [addrs])
  exact (List.nodup_append.mp (hp.nodup_iff.mpr hnd)).1

theorem step_writer_handle {m0 : Mem} {s : St} (hc : CInv m0 s) (hnd : (ahead s.writers).Nodup) (op : Op) (i : Nat)
    (b0 : IoBufs) (hg : s.writers[i]? = some b0) (hns : ∀ k, op ≠ .ws i k) :
    ∃ b1, (step s op).1.writers[i]? = some b1
      ∧ WrH (placed s i op) b0 s.w.mem (step s op).1.w.mem b1
      ∧ (∀ a, a ∉ ahead s.writers → (step s op).1.w.mem.byteAt a = s.w.mem.byteAt a)
      ∧ (∀ a ∈ (addrs b0.segs).take (placed s i op).length, a ∉ ahead (step s op).1.writers)
      ∧ (∀ a ∈ ahead (step s op).1.writers, a ∈ ahead s.writers) := by
  have hil := lt_length_of_getElem? hg
  rcases step_view s op hc.ready with ⟨e, _, hd⟩ | ⟨h, b, b', w', hrh, _, hgh, e, hrc⟩ | ⟨h, k, b, a, o, eop, hgh, hs, e⟩
      | ⟨h, b, b', w', hwh, _, hgh, e, hw⟩ | ⟨h, k, b, a, o, eop, hgh, hs, e⟩
  · rw [e, hd i]
    exact ⟨b0, hg, WrH.same (fun _ _ => rfl), fun _ _ => rfl, by simp, fun _ h => h⟩
  · rw [e, placed_none (rh_wh hrh) i]
    simp only
    rw [hrc.2.1]
    exact ⟨b0, hg, WrH.same (fun _ _ => rfl), fun _ _ => rfl, by simp, fun _ h => h⟩
  · rw [e, placed_none (by rw [eop]; rfl) i]
    exact ⟨b0, hg, WrH.same (fun _ _ => rfl), fun _ _ => rfl, by simp, fun _ h => h⟩
  · rw [e, placed_eq hwh hgh i]
    simp only
    have hsub : ∀ a ∈ ahead (s.writers.set h b'), a ∈ ahead s.writers := by
      apply ahead_set_subset hgh
      intro a ha; rw [hw.addrs'] at ha; exact List.mem_of_mem_drop ha
    have hframe : ∀ a, a ∉ ahead s.writers → w'.mem.byteAt a = s.w.mem.byteAt a := by
      intro a ha
      apply hw.frame
      intro hm
      exact ha (mem_ahead.mpr ⟨b, mem_of_getElem? hgh, List.mem_of_mem_take hm⟩)
    by_cases hi : i = h
    · subst hi
      rw [hg] at hgh; cases hgh
      simp only [if_true]
      refine ⟨b', List.getElem?_set_self hil, hw.toWrH (nodup_of_mem_ahead hnd hg), hframe, ?_, hsub⟩
      have hp := perm_ahead_set s.writers i b0 b' ((addrs b0.segs).take (writerIn b0 s.w op).length) hg
        (by rw [hw.addrs', List.take_append_drop])
      have hnd' := hp.nodup_iff.mpr hnd
      intro a ha hb
      exact (List.nodup_append.mp hnd').2.2 a ha a hb rfl
    · simp only [hi, if_false]
      refine ⟨b0, by rw [List.getElem?_set_ne (Ne.symm hi)]; exact hg, ?_, hframe, by simp, hsub⟩
      apply WrH.same
      intro a ha
      apply hw.frame
      intro hm
      exact ahead_disjoint_handles hnd hg hgh (Ne.symm hi) a ha (List.mem_of_mem_take hm)
  · have hi : h ≠ i := by intro e'; subst e'; exact hns k eop
    rw [e, placed_eq (by rw [eop]; rfl) hgh i]
    obtain ⟨_, _, f3, f4, _⟩ := split_facts hs (hc.wov b (mem_of_getElem? hgh))
    refine ⟨b0, ?_, ?_, fun _ _ => rfl, ?_, ahead_split_subset hgh f3 f4⟩
    · simp only
      rw [List.getElem?_append_left (by rw [List.length_set]; exact hil), List.getElem?_set_ne hi]; exact hg
    · rw [eop]; simp only [writerIn, ite_self]; exact WrH.same (fun _ _ => rfl)
    · rw [eop]; simp [writerIn]

theorem writer_handle_run {m0 : Mem} (ops : List Op) {s : St} (hc : CInv m0 s) (hnd : (ahead s.writers).Nodup)
    (i : Nat) (b0 : IoBufs) (hg : s.writers[i]? = some b0) (hns : ∀ k, Op.ws i k ∉ ops) :
    ∃ bf, (exec s ops).writers[i]? = some bf
      ∧ WrH (placedAll s i ops) b0 s.w.mem (exec s ops).w.mem bf
      ∧ (∀ a, a ∉ ahead s.writers → (exec s ops).w.mem.byteAt a = s.w.mem.byteAt a) := by
  induction ops generalizing s b0 with
  | nil => exact ⟨b0, hg, WrH.same (fun _ _ => rfl), fun _ _ => rfl⟩
  | cons op rest ih =>
    obtain ⟨b1, hg1, h1, fr1, nin, sub⟩ := step_writer_handle hc hnd op i b0 hg
      (by intro k e; exact hns k (by rw [e]; exact List.mem_cons_self))
    obtain ⟨bf, hgf, h2, fr2⟩ := ih (step_cinv hc op) (step_wnd hc hnd op) b1 hg1
      (by intro k hk; exact hns k (List.mem_cons_of_mem _ hk))
    refine ⟨bf, hgf, h1.trans h2 (fun a ha => fr2 a (nin a ha)), ?_⟩
    intro a ha
    show (exec (step s op).1 rest).w.mem.byteAt a = s.w.mem.byteAt a
    rw [fr2 a (fun hm => ha (sub a hm)), fr1 a ha]

end Fbr.Xport
