/-
  Fbr.Lemmas.FileIo — the segment-by-segment vectored operations equal one operation on the
  concatenation.
-/
import Fbr.FileIo

namespace Fbr.FileIo

theorem preadAt_length_le (file : Bytes) (off n : Nat) : (preadAt file off n).length ≤ n := by
  unfold preadAt; simp [List.length_take]; omega

theorem preadAt_full (file : Bytes) (off n : Nat) (h : ¬ (preadAt file off n).length < n) :
    (preadAt file off n).length = n ∧ off + n ≤ file.length ∨ n = 0 := by
  unfold preadAt at *
  simp only [List.length_take, List.length_drop] at *
  omega

/-- `pread(off, a + b) = pread(off, a) ++ pread(off + a, b)` -/
theorem preadAt_add (file : Bytes) (off a b : Nat) :
    preadAt file off (a + b) = preadAt file off a ++ preadAt file (off + a) b := by
  unfold preadAt
  rw [List.take_add, List.drop_drop]

/-- what a short read leaves for later segments: nothing -/
theorem preadAt_short_rest (file : Bytes) (off a b : Nat) (h : (preadAt file off a).length < a) :
    preadAt file (off + a) b = [] := by
  unfold preadAt at *
  simp only [List.length_take, List.length_drop] at h
  have : file.length ≤ off + a := by omega
  simp [List.drop_eq_nil_of_le this]

/-- **vectored read = one read of the total size, cut at the buffer boundaries** -/
theorem readVec_flat (file : Bytes) (off : Nat) (caps : List Nat) :
    (readVec file off caps).1.flatten = preadAt file off caps.sum ∧
    (readVec file off caps).2 = (preadAt file off caps.sum).length := by
  induction caps generalizing off with
  | nil => simp [readVec, preadAt]
  | cons c rest ih =>
    unfold readVec
    simp only [List.sum_cons]
    rw [preadAt_add]
    by_cases hs : (preadAt file off c).length < c
    · simp only [hs, if_true]
      have hrest : preadAt file (off + c) rest.sum = [] := preadAt_short_rest file off c _ hs
      have hfl : (List.map (fun _ => ([] : Bytes)) rest).flatten = [] := by
        induction rest with
        | nil => rfl
        | cons _ _ ih' => simpa using ih'
      constructor
      · simp [hrest, hfl]
      · simp [hrest]
    · simp only [hs, if_false]
      have hlen : (preadAt file off c).length = c := by
        have := preadAt_length_le file off c; omega
      obtain ⟨h1, h2⟩ := ih (off + c)
      constructor
      · simp [h1]
      · simp [h2, hlen]

/-- every buffer receives at most its capacity, and buffers after a short one receive nothing -/
theorem readVec_each_le (file : Bytes) (off : Nat) (caps : List Nat) :
    (readVec file off caps).1.length = caps.length ∧
    ∀ i, ((readVec file off caps).1.getD i []).length ≤ caps.getD i 0 := by
  induction caps generalizing off with
  | nil => simp [readVec]
  | cons c rest ih =>
    unfold readVec
    by_cases hs : (preadAt file off c).length < c
    · simp only [hs, if_true]
      refine ⟨by simp, ?_⟩
      intro i
      cases i with
      | zero => simpa using preadAt_length_le file off c
      | succ j =>
        simp only [List.getD_cons_succ]
        have : ((List.map (fun _ => ([] : Bytes)) rest).getD j []) = [] := by
          simp only [List.getD, List.getElem?_map]
          cases rest[j]? <;> simp
        rw [this]; simp
    · simp only [hs, if_false]
      obtain ⟨h1, h2⟩ := ih (off + c)
      refine ⟨by simp [h1], ?_⟩
      intro i
      cases i with
      | zero => simpa using preadAt_length_le file off c
      | succ j => simpa using h2 j

theorem pwriteAt_nil (file : Bytes) (off : Nat) : pwriteAt file off [] = file := by simp [pwriteAt]

theorem pwriteAt_length (file : Bytes) (off : Nat) (d : Bytes) (hd : d ≠ []) :
    (pwriteAt file off d).length = max file.length (off + d.length) := by
  unfold pwriteAt
  simp only [hd, if_false, List.length_append, List.length_take, List.length_drop, List.length_replicate]
  omega

/-- the file after a write, position by position -/
theorem pwriteAt_getElem? (file : Bytes) (off : Nat) (d : Bytes) (hd : d ≠ []) (i : Nat) :
    (pwriteAt file off d)[i]? =
      if i < off then some (file.getD i 0)
      else if i < off + d.length then d[i - off]?
      else file[i]? := by
  unfold pwriteAt
  simp only [hd, if_false]
  have hfl : (file ++ List.replicate (off - file.length) 0).length = max file.length off := by
    simp only [List.length_append, List.length_replicate]; omega
  have htl : ((file ++ List.replicate (off - file.length) 0).take off).length = off := by
    rw [List.length_take, hfl]; omega
  by_cases h1 : i < off
  · simp only [h1, if_true]
    rw [List.append_assoc, List.getElem?_append_left (by rw [htl]; exact h1), List.getElem?_take_of_lt h1]
    by_cases h2 : i < file.length
    · rw [List.getElem?_append_left h2]
      simp [List.getD, List.getElem?_eq_getElem h2]
    · rw [List.getElem?_append_right (by omega), List.getElem?_replicate]
      have : i - file.length < off - file.length := by omega
      simp [this, List.getD, List.getElem?_eq_none (by omega : file.length ≤ i)]
  · simp only [h1, if_false]
    by_cases h2 : i < off + d.length
    · simp only [h2, if_true]
      rw [List.getElem?_append_left (by rw [List.length_append, htl]; exact h2),
          List.getElem?_append_right (by rw [htl]; omega), htl]
    · simp only [h2, if_false]
      rw [List.getElem?_append_right (by rw [List.length_append, htl]; omega), List.length_append, htl,
          List.getElem?_drop]
      have e : off + d.length + (i - (off + d.length)) = i := by omega
      rw [e]
      by_cases h3 : i < file.length
      · rw [List.getElem?_append_left h3]
      · rw [List.getElem?_append_right (by omega), List.getElem?_replicate]
        have : ¬ i - file.length < off - file.length := by omega
        simp [this, List.getElem?_eq_none (by omega : file.length ≤ i)]

/-- two adjacent writes are one write of the concatenation -/
theorem pwriteAt_append (file : Bytes) (off : Nat) (a b : Bytes) :
    pwriteAt (pwriteAt file off a) (off + a.length) b = pwriteAt file off (a ++ b) := by
  by_cases ha : a = []
  · subst ha; simp [pwriteAt_nil]
  by_cases hb : b = []
  · subst hb; simp [pwriteAt_nil]
  have hab : a ++ b ≠ [] := by simp [ha]
  have hal : 0 < a.length := List.length_pos_iff.mpr ha
  apply List.ext_getElem?
  intro i
  rw [pwriteAt_getElem? _ _ _ hb, pwriteAt_getElem? _ _ _ hab]
  simp only [List.length_append]
  by_cases h1 : i < off
  · have h1' : i < off + a.length := by omega
    simp only [h1, h1', if_true]
    congr 1
    simp only [List.getD]
    rw [pwriteAt_getElem? _ _ _ ha]
    simp [h1]
  · by_cases h2 : i < off + a.length
    · simp only [h1, h2, if_true, if_false]
      have : i < off + (a.length + b.length) := by omega
      simp only [this, if_true]
      rw [List.getElem?_append_left (by omega)]
      have hg := pwriteAt_getElem? file off a ha i
      simp only [h1, h2, if_true, if_false] at hg
      simp only [List.getD, hg]
      cases hh : a[i - off]? with
      | none => exact absurd (List.getElem?_eq_none_iff.mp hh) (by omega)
      | some v => rfl
    · simp only [h1, h2, if_false]
      by_cases h3 : i < off + a.length + b.length
      · have h3' : i < off + (a.length + b.length) := by omega
        simp only [h3, h3', if_true]
        rw [List.getElem?_append_right (by omega)]
        congr 1; omega
      · have h3' : ¬ i < off + (a.length + b.length) := by omega
        simp only [h3, h3', if_false]
        rw [pwriteAt_getElem? _ _ _ ha]
        simp [h1, h2]

/-- **vectored write = one write of the concatenation** -/
theorem writeVec_concat (file : Bytes) (off : Nat) (ds : List Bytes) :
    writeVec file off ds = (pwriteAt file off ds.flatten, ds.flatten.length) := by
  induction ds generalizing file off with
  | nil => simp [writeVec, pwriteAt_nil]
  | cons d rest ih =>
    unfold writeVec
    rw [ih]
    simp only [List.flatten_cons, List.length_append]
    rw [pwriteAt_append]

end Fbr.FileIo
