/-
  Lemmas about the association maps of `Fbr.PtRefs` (`mget` / `mput` / `mdel`).
-/
import Fbr.PtRefs

namespace Fbr.PtRefs
variable {κ α : Type} [DecidableEq κ]

@[simp] theorem mget_nil (k : κ) : mget ([] : List (κ × α)) k = none := rfl

theorem mget_cons (k' : κ) (v : α) (r : List (κ × α)) (k : κ) :
    mget ((k', v) :: r) k = if k' = k then some v else mget r k := rfl

@[simp] theorem mget_mdel_self (m : List (κ × α)) (k : κ) : mget (mdel m k) k = none := by
  induction m with
  | nil => rfl
  | cons p r ih =>
    obtain ⟨k', v⟩ := p
    by_cases h : k' = k
    · simp [mdel, List.filter, h] at ih ⊢; exact ih
    · simp [mdel, List.filter, h, mget_cons] at ih ⊢; exact ih

theorem mget_mdel_ne (m : List (κ × α)) {k k' : κ} (h : k ≠ k') :
    mget (mdel m k) k' = mget m k' := by
  induction m with
  | nil => rfl
  | cons p r ih =>
    obtain ⟨k2, v⟩ := p
    by_cases h2 : k2 = k
    · subst h2
      simp [mdel, List.filter, mget_cons, h] at ih ⊢; exact ih
    · simp [mdel, List.filter, h2, mget_cons] at ih ⊢
      rw [ih]

@[simp] theorem mget_mput_self (m : List (κ × α)) (k : κ) (v : α) : mget (mput m k v) k = some v := by
  simp [mput, mget_cons]

theorem mget_mput_ne (m : List (κ × α)) {k k' : κ} (v : α) (h : k ≠ k') :
    mget (mput m k v) k' = mget m k' := by
  simp [mput, mget_cons, h, mget_mdel_ne m h]

theorem mget_mput (m : List (κ × α)) (k k' : κ) (v : α) :
    mget (mput m k v) k' = if k = k' then some v else mget m k' := by
  by_cases h : k = k'
  · subst h; simp
  · simp [h, mget_mput_ne m v h]

theorem mget_mdel (m : List (κ × α)) (k k' : κ) :
    mget (mdel m k) k' = if k = k' then none else mget m k' := by
  by_cases h : k = k'
  · subst h; simp
  · simp [h, mget_mdel_ne m h]

end Fbr.PtRefs
