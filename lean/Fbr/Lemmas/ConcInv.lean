/-
  The invariant of the lookup/forget small-step system `Fbr.Conc`: definitions, the initial
  state, and the two generic ways a step changes a thread (move the program counter / return
  from the request).
-/
import Fbr.Conc

namespace Fbr.Conc

@[simp, grind =] theorem upd_apply {α : Type} (m : Nat → α) (k : Nat) (v : α) (x : Nat) :
    upd m k v x = if x = k then v else m x := rfl

/-- program counters inside `forget`'s critical section (the thread holds the write lock) -/
def holds : PC → Bool
  | .F1 _ _ | .F2 _ _ _ _ | .F3 _ _ _ => true
  | _ => false

/-- `liveCount` without the intermediate `probe` -/
theorem liveCount_eq (st : Store) (f : HostId) :
    liveCount st f = match st.byId f with
      | none => 0
      | some i => match st.data i with
        | none => 0
        | some o => st.cells o := by
  unfold liveCount probe
  cases st.byId f <;> simp
  rename_i i
  cases st.data i <;> simp

/-- the part of the invariant that speaks about the store and the ghost counters only -/
structure SInv (c : Cfg) (st : Store) (incs decs : HostId → Nat) : Prop where
  dataObj : ∀ i o, st.data i = some o →
    o < st.nobj ∧ st.objIno o = i ∧ st.byId (st.objHost o) = some i
  byIdInj : ∀ f g i, st.byId f = some i → st.byId g = some i → f = g
  fresh : c.keep = true → (∀ f i, st.byId f = some i → i < st.next)
    ∧ (∀ i o, st.data i = some o → i < st.next)
  packed : c.keep = false → ∀ f i, st.byId f = some i → i = c.pack f
  orphan : ∀ o, o < st.nobj → (∀ i, st.data i ≠ some o) → st.cells o = 0
  ghost : ∀ f, liveCount st f + decs f = incs f

/-- what the client knows about numbers stays true: in `keep` mode the id → number map never
    changes an entry, with `use_host_ino` the number is a function of the host id -/
def NumOk (c : Cfg) (st : Store) (f : HostId) (i : Ino) : Prop :=
  (c.keep = true → st.byId f = some i) ∧ (c.keep = false → i = c.pack f)

structure Inv (c : Cfg) (s : Sys) : Prop where
  sinv : SInv c s.store s.incs s.decs
  lockA : ∀ t, s.lock = .w t ↔ holds (s.threads t).pc = true
  pos : ∀ i o, s.store.data i = some o → s.store.cells o = 0 → ∃ t n, (s.threads t).pc = .F3 i n o
  pcL1 : ∀ t f o, (s.threads t).pc = .L1 f o → o < s.store.nobj ∧ s.store.objHost o = f
  pcL2 : ∀ t f o k, (s.threads t).pc = .L2 f o k → o < s.store.nobj ∧ s.store.objHost o = f ∧ 0 < k
  pcF2 : ∀ t i n o k, (s.threads t).pc = .F2 i n o k → s.store.data i = some o
  pcF3 : ∀ t i n o, (s.threads t).pc = .F3 i n o → s.store.data i = some o ∧ s.store.cells o = 0
  knownOk : ∀ f i, s.known f = some i → NumOk c s.store f i
  resOk : ∀ t f i, (f, i) ∈ (s.threads t).results → NumOk c s.store f i

/-- the invariant with thread `t` taken out: used while `t` is in the middle of a step.
    `hold` says whether `t` will hold the write lock afterwards, `P i o` excuses a zero count of
    entry `(i, o)` (it is the entry `t` is about to remove). -/
structure InvBut (c : Cfg) (s : Sys) (t : Tid) (hold : Bool) (P : Ino → ObjId → Prop)
    (incs' : HostId → Nat) : Prop where
  sinv : SInv c s.store incs' s.decs
  lockA : ∀ t', t' ≠ t → (s.lock = .w t' ↔ holds (s.threads t').pc = true)
  lockT : s.lock = .w t ↔ hold = true
  pos : ∀ i o, s.store.data i = some o → s.store.cells o = 0 →
    (∃ t' n, t' ≠ t ∧ (s.threads t').pc = .F3 i n o) ∨ P i o
  pcL1 : ∀ t' f o, t' ≠ t → (s.threads t').pc = .L1 f o → o < s.store.nobj ∧ s.store.objHost o = f
  pcL2 : ∀ t' f o k, t' ≠ t → (s.threads t').pc = .L2 f o k →
    o < s.store.nobj ∧ s.store.objHost o = f ∧ 0 < k
  pcF2 : ∀ t' i n o k, t' ≠ t → (s.threads t').pc = .F2 i n o k → s.store.data i = some o
  pcF3 : ∀ t' i n o, t' ≠ t → (s.threads t').pc = .F3 i n o →
    s.store.data i = some o ∧ s.store.cells o = 0
  knownOk : ∀ f i, s.known f = some i → NumOk c s.store f i
  resOk : ∀ t' f i, (f, i) ∈ (s.threads t').results → NumOk c s.store f i

theorem startPc_plain (op : Op) :
    holds (startPc op) = false ∧ (∀ f o, startPc op ≠ .L1 f o) ∧ (∀ f o k, startPc op ≠ .L2 f o k) := by
  cases op <;> simp [startPc, holds]

theorem advance_plain (th : Thread) :
    holds (advance th).pc = false ∧ (∀ f o, (advance th).pc ≠ .L1 f o)
    ∧ (∀ f o k, (advance th).pc ≠ .L2 f o k) ∧ (advance th).results = th.results := by
  unfold advance
  cases th.prog with
  | nil => simp [holds]
  | cons op r =>
    have := startPc_plain op
    simp [this]

theorem not_holds_F2 {pc : PC} (h : holds pc = false) : ∀ i n o k, pc ≠ .F2 i n o k := by
  intro i n o k e; subst e; simp [holds] at h

theorem not_holds_F3 {pc : PC} (h : holds pc = false) : ∀ i n o, pc ≠ .F3 i n o := by
  intro i n o e; subst e; simp [holds] at h

theorem inv_init (c : Cfg) (progs : Tid → List Op) : Inv c (Sys.init progs) := by
  have hp : ∀ t, holds ((Sys.init progs).threads t).pc = false
      ∧ (∀ f o, ((Sys.init progs).threads t).pc ≠ .L1 f o)
      ∧ (∀ f o k, ((Sys.init progs).threads t).pc ≠ .L2 f o k)
      ∧ ((Sys.init progs).threads t).results = [] := by
    intro t
    have := advance_plain { pc := .done, prog := progs t, results := [] }
    simpa [Sys.init] using this
  constructor
  · constructor
    · intro i o h; simp [Sys.init, Store.empty] at h
    · intro f g i h; simp [Sys.init, Store.empty] at h
    · intro _; constructor <;> intro _ _ h <;> simp [Sys.init, Store.empty] at h
    · intro _ f i h; simp [Sys.init, Store.empty] at h
    · intro o h; simp [Sys.init, Store.empty] at h
    · intro f; simp [liveCount_eq, Sys.init, Store.empty]
  · intro t
    have h1 := (hp t).1
    constructor
    · intro h; simp [Sys.init] at h
    · intro h; rw [h1] at h; cases h
  · intro i o h; simp [Sys.init, Store.empty] at h
  · intro t f o h; exact absurd h ((hp t).2.1 f o)
  · intro t f o k h; exact absurd h ((hp t).2.2.1 f o k)
  · intro t i n o k h; exact absurd h (not_holds_F2 (hp t).1 i n o k)
  · intro t i n o h; exact absurd h (not_holds_F3 (hp t).1 i n o)
  · intro f i h; simp [Sys.init] at h
  · intro t f i h; rw [(hp t).2.2.2] at h; simp at h

@[simp] theorem setPc_store (s : Sys) (t : Tid) (pc : PC) : (setPc s t pc).store = s.store := rfl
@[simp] theorem setPc_lock (s : Sys) (t : Tid) (pc : PC) : (setPc s t pc).lock = s.lock := rfl
@[simp] theorem setPc_known (s : Sys) (t : Tid) (pc : PC) : (setPc s t pc).known = s.known := rfl
@[simp] theorem setPc_incs (s : Sys) (t : Tid) (pc : PC) : (setPc s t pc).incs = s.incs := rfl
@[simp] theorem setPc_decs (s : Sys) (t : Tid) (pc : PC) : (setPc s t pc).decs = s.decs := rfl
theorem setPc_threads (s : Sys) (t : Tid) (pc : PC) (t' : Tid) :
    ((setPc s t pc).threads t') = if t' = t then { s.threads t with pc := pc } else s.threads t' := rfl

/-- a step that only moves the program counter of thread `t` -/
theorem inv_setPc {c : Cfg} {s : Sys} (h : Inv c s) (t : Tid) (pc' : PC)
    (hl : holds pc' = holds (s.threads t).pc)
    (hnot3 : ∀ i n o, (s.threads t).pc ≠ .F3 i n o)
    (h1 : ∀ f o, pc' = .L1 f o → o < s.store.nobj ∧ s.store.objHost o = f)
    (h2 : ∀ f o k, pc' = .L2 f o k → o < s.store.nobj ∧ s.store.objHost o = f ∧ 0 < k)
    (h3 : ∀ i n o k, pc' = .F2 i n o k → s.store.data i = some o)
    (h4 : ∀ i n o, pc' = .F3 i n o → s.store.data i = some o ∧ s.store.cells o = 0) :
    Inv c (setPc s t pc') := by
  constructor
  · exact h.sinv
  · intro t'
    simp only [setPc_lock, setPc_threads]
    split
    · rename_i e; subst e; simp only [hl]; exact h.lockA t'
    · exact h.lockA t'
  · intro i o hd hc
    obtain ⟨t0, n, ht0⟩ := h.pos i o hd hc
    refine ⟨t0, n, ?_⟩
    simp only [setPc_threads]
    split
    · rename_i e; subst e; exact absurd ht0 (hnot3 i n o)
    · exact ht0
  · intro t' f o
    simp only [setPc_threads]
    split
    · intro e; exact h1 f o e
    · exact h.pcL1 t' f o
  · intro t' f o k
    simp only [setPc_threads]
    split
    · intro e; exact h2 f o k e
    · exact h.pcL2 t' f o k
  · intro t' i n o k
    simp only [setPc_threads]
    split
    · intro e; exact h3 i n o k e
    · exact h.pcF2 t' i n o k
  · intro t' i n o
    simp only [setPc_threads]
    split
    · intro e; exact h4 i n o e
    · exact h.pcF3 t' i n o
  · exact h.knownOk
  · intro t' f i
    simp only [setPc_threads]
    split
    · rename_i e; subst e; exact h.resOk t' f i
    · exact h.resOk t' f i

/-- the request of thread `t` returns -/
theorem inv_finish {c : Cfg} {s : Sys} {t : Tid} (res : Option (HostId × Ino))
    (h : InvBut c s t false (fun _ _ => False) (bump s.incs res))
    (hres : ∀ f i, res = some (f, i) → NumOk c s.store f i) :
    Inv c (finish s t res) := by
  have hadv := advance_plain (pushRes (s.threads t) res)
  have hthr : ∀ t', (finish s t res).threads t' =
      if t' = t then advance (pushRes (s.threads t) res) else s.threads t' := by
    intro t'; simp [finish]
  have hstore : (finish s t res).store = s.store := rfl
  have hlock : (finish s t res).lock = s.lock := rfl
  constructor
  · exact h.sinv
  · intro t'
    rw [hthr, hlock]
    split
    · rename_i e; subst e
      rw [hadv.1]
      constructor
      · intro hh; have := h.lockT.mp hh; cases this
      · intro hh; cases hh
    · rename_i ne; exact h.lockA t' ne
  · intro i o hd hc
    rcases h.pos i o hd hc with ⟨t0, n, hne, ht0⟩ | hF
    · refine ⟨t0, n, ?_⟩
      rw [hthr]; simp [hne, ht0]
    · exact hF.elim
  · intro t' f o
    rw [hthr, hstore]
    split
    · intro e; exact absurd e (hadv.2.1 f o)
    · rename_i ne; exact h.pcL1 t' f o ne
  · intro t' f o k
    rw [hthr, hstore]
    split
    · intro e; exact absurd e (hadv.2.2.1 f o k)
    · rename_i ne; exact h.pcL2 t' f o k ne
  · intro t' i n o k
    rw [hthr, hstore]
    split
    · intro e; exact absurd e (not_holds_F2 hadv.1 i n o k)
    · rename_i ne; exact h.pcF2 t' i n o k ne
  · intro t' i n o
    rw [hthr, hstore]
    split
    · intro e; exact absurd e (not_holds_F3 hadv.1 i n o)
    · rename_i ne; exact h.pcF3 t' i n o ne
  · intro f i
    rw [hstore]
    cases res with
    | none => exact h.knownOk f i
    | some r =>
      obtain ⟨f0, i0⟩ := r
      simp only [finish, learn, upd_apply]
      split
      · rename_i e
        intro e2
        have e3 : i0 = i := Option.some.inj e2
        subst e3; subst e
        exact hres _ _ rfl
      · exact h.knownOk f i
  · intro t' f i
    rw [hthr, hstore]
    split
    · rw [hadv.2.2.2]
      cases res with
      | none => exact h.resOk t f i
      | some r =>
        simp only [pushRes, List.mem_cons]
        intro hm
        cases hm with
        | inl e => subst e; exact hres f i rfl
        | inr hm => exact h.resOk t f i hm
    · exact h.resOk t' f i

/-- thread `t` moves to `pc'` after the rest of the state changed -/
theorem inv_setPcBut {c : Cfg} {s : Sys} {t : Tid} {pc' : PC} {P : Ino → ObjId → Prop}
    (h : InvBut c s t (holds pc') P s.incs)
    (hP : ∀ i o, P i o → ∃ n, pc' = .F3 i n o)
    (h1 : ∀ f o, pc' = .L1 f o → o < s.store.nobj ∧ s.store.objHost o = f)
    (h2 : ∀ f o k, pc' = .L2 f o k → o < s.store.nobj ∧ s.store.objHost o = f ∧ 0 < k)
    (h3 : ∀ i n o k, pc' = .F2 i n o k → s.store.data i = some o)
    (h4 : ∀ i n o, pc' = .F3 i n o → s.store.data i = some o ∧ s.store.cells o = 0) :
    Inv c (setPc s t pc') := by
  constructor
  · exact h.sinv
  · intro t'
    simp only [setPc_lock, setPc_threads]
    split
    · rename_i e; subst e; exact h.lockT
    · rename_i ne; exact h.lockA t' ne
  · intro i o hd hc
    rcases h.pos i o hd hc with ⟨t0, n, hne, ht0⟩ | hp
    · refine ⟨t0, n, ?_⟩
      simp only [setPc_threads, hne, if_false]; exact ht0
    · obtain ⟨n, e⟩ := hP i o hp
      refine ⟨t, n, ?_⟩
      simp only [setPc_threads, if_true]; exact e
  · intro t' f o
    simp only [setPc_threads]
    split
    · intro e; exact h1 f o e
    · rename_i ne; exact h.pcL1 t' f o ne
  · intro t' f o k
    simp only [setPc_threads]
    split
    · intro e; exact h2 f o k e
    · rename_i ne; exact h.pcL2 t' f o k ne
  · intro t' i n o k
    simp only [setPc_threads]
    split
    · intro e; exact h3 i n o k e
    · rename_i ne; exact h.pcF2 t' i n o k ne
  · intro t' i n o
    simp only [setPc_threads]
    split
    · intro e; exact h4 i n o e
    · rename_i ne; exact h.pcF3 t' i n o ne
  · exact h.knownOk
  · intro t' f i
    simp only [setPc_threads]
    split
    · rename_i e; subst e; exact h.resOk t' f i
    · exact h.resOk t' f i

/-- forgetting about thread `t` -/
theorem but_of_inv {c : Cfg} {s : Sys} (h : Inv c s) (t : Tid) :
    InvBut c s t (holds (s.threads t).pc) (fun i o => ∃ n, (s.threads t).pc = .F3 i n o) s.incs := by
  constructor
  · exact h.sinv
  · intro t' _; exact h.lockA t'
  · exact h.lockA t
  · intro i o hd hc
    obtain ⟨t0, n, ht0⟩ := h.pos i o hd hc
    by_cases e : t0 = t
    · subst e; exact Or.inr ⟨n, ht0⟩
    · exact Or.inl ⟨t0, n, e, ht0⟩
  · intro t' f o _; exact h.pcL1 t' f o
  · intro t' f o k _; exact h.pcL2 t' f o k
  · intro t' i n o k _; exact h.pcF2 t' i n o k
  · intro t' i n o _; exact h.pcF3 t' i n o
  · exact h.knownOk
  · exact h.resOk

/-- nobody is inside the critical section while the lock is free -/
theorem no_holder_of_free {c : Cfg} {s : Sys} (h : Inv c s) (hf : s.lock = .free) (t : Tid) :
    holds (s.threads t).pc = false := by
  cases hh : holds (s.threads t).pc with
  | false => rfl
  | true => have := (h.lockA t).mpr hh; rw [hf] at this; cases this

/-- the holder of the lock is unique -/
theorem holder_unique {c : Cfg} {s : Sys} (h : Inv c s) {t t' : Tid}
    (ht : holds (s.threads t).pc = true) (ht' : holds (s.threads t').pc = true) : t' = t := by
  have a := (h.lockA t).mpr ht
  have b := (h.lockA t').mpr ht'
  rw [a] at b; cases b; rfl

end Fbr.Conc
