/-
  Helper lemmas for C04/C17: which addresses the raw copy loops and the scripted files touch
  (as flat address lists), and membership in the dirty page list.
-/
import Fbr.Lemmas.XportAddr

namespace Fbr.Xport

theorem wrAddrs_append (a b : List Access) : wrAddrs (a ++ b) = wrAddrs a ++ wrAddrs b := by
  induction a with
  | nil => rfl
  | cons x rest ih => simp [wrAddrs, ih]

theorem rdAddrs_append (a b : List Access) : rdAddrs (a ++ b) = rdAddrs a ++ rdAddrs b := by
  induction a with
  | nil => rfl
  | cons x rest ih => simp [rdAddrs, ih]

theorem take_min_segAddrs (s : Seg) (rem : Nat) :
    segAddrs { s with len := min rem s.len } = (segAddrs s).take rem := by
  rw [← segAddrs_take s (min rem s.len) (Nat.min_le_right _ _)]
  by_cases h : rem ≤ s.len
  · rw [Nat.min_eq_left h]
  · rw [Nat.min_eq_right (by omega), List.take_of_length_le (by simp), List.take_of_length_le (by simp; omega)]

theorem take_cons_addrs (s : Seg) (rest : List Seg) (rem : Nat) :
    (segAddrs s).take rem ++ (addrs rest).take (rem - min rem s.len) = (addrs (s :: rest)).take rem := by
  simp only [addrs, List.take_append, length_segAddrs]
  congr 2
  omega

/-- what one unchanged-but-for-the-log step preserves -/
structure SameBut (w w' : World) : Prop where
  p : w'.p = w.p
  dirty : w'.dirty = w.dirty
  fd : w'.fd = w.fd

theorem SameBut.refl (w : World) : SameBut w w := ⟨rfl, rfl, rfl⟩
theorem SameBut.trans {a b c : World} (h1 : SameBut a b) (h2 : SameBut b c) : SameBut a c :=
  ⟨h2.p.trans h1.p, h2.dirty.trans h1.dirty, h2.fd.trans h1.fd⟩

/-- `copyOut` reads exactly the first `rem` addresses of the buffers, in order, and nothing else -/
theorem copyOut_spec (w : World) (bufs : List Seg) (rem : Nat) :
    let r := copyOut w bufs rem
    SameBut w r.1 ∧ r.1.mem = w.mem
    ∧ wrAddrs r.1.log = wrAddrs w.log
    ∧ rdAddrs r.1.log = rdAddrs w.log ++ (addrs bufs).take rem
    ∧ r.2.2 = min rem (total bufs) := by
  induction bufs generalizing w rem with
  | nil => simp [copyOut, addrs, total, SameBut.refl]
  | cons s rest ih =>
    simp only [copyOut]
    have := ih { w with log := w.log ++ [{ region := s.region, off := s.off, len := min rem s.len, write := false }] }
      (rem - min rem s.len)
    simp only at this
    obtain ⟨h1, h2, h3, h4, h5⟩ := this
    refine ⟨⟨h1.p, h1.dirty, h1.fd⟩, h2, ?_, ?_, ?_⟩
    · rw [h3, wrAddrs_append]; simp [wrAddrs]
    · rw [h4, rdAddrs_append]
      simp only [rdAddrs, Access.seg, List.append_nil, Bool.false_eq_true, if_false, List.append_assoc]
      rw [take_min_segAddrs, take_cons_addrs]
    · rw [h5]; simp only [total]; omega

/-- `copyIn` writes exactly the first `data.length` addresses of the buffers, in order -/
theorem copyIn_spec (w : World) (bufs : List Seg) (data : Bytes) :
    let r := copyIn w bufs data
    SameBut w r.1
    ∧ rdAddrs r.1.log = rdAddrs w.log
    ∧ wrAddrs r.1.log = wrAddrs w.log ++ (addrs bufs).take data.length
    ∧ r.2 = min data.length (total bufs) := by
  induction bufs generalizing w data with
  | nil => simp [copyIn, addrs, total, SameBut.refl]
  | cons s rest ih =>
    simp only [copyIn]
    have := ih { w with mem := w.mem.write s.region s.off (data.take (min data.length s.len)),
                        log := w.log ++ [{ region := s.region, off := s.off, len := min data.length s.len, write := true }] }
      (data.drop (min data.length s.len))
    simp only at this
    obtain ⟨h1, h3, h4, h5⟩ := this
    refine ⟨⟨h1.p, h1.dirty, h1.fd⟩, ?_, ?_, ?_⟩
    · rw [h3, rdAddrs_append]; simp [rdAddrs]
    · rw [h4, wrAddrs_append]
      simp only [wrAddrs, Access.seg, List.append_nil, if_true, List.append_assoc, List.length_drop]
      rw [take_min_segAddrs, take_cons_addrs]
    · rw [h5]; simp only [total, List.length_drop]; omega

/-! ### dirty pages -/

theorem mem_pagesOf {p : Nat} (hp : 0 < p) {s : Seg} {x : Nat × Nat} :
    x ∈ pagesOf p s ↔ ∃ a ∈ segAddrs s, pageOf p a = x := by
  obtain ⟨r, pg⟩ := x
  unfold pagesOf
  by_cases h0 : s.len = 0
  · simp [h0, segAddrs]
  · simp only [h0, if_false, List.mem_map, List.mem_range'_1, Prod.mk.injEq]
    constructor
    · rintro ⟨q, ⟨hq1, hq2⟩, rfl, rfl⟩
      have hq3 : q ≤ (s.off + s.len - 1) / p := by
        have : s.off / p ≤ (s.off + s.len - 1) / p := Nat.div_le_div_right (by omega)
        omega
      by_cases hc : s.off ≤ q * p
      · refine ⟨(s.region, q * p), ?_, ?_⟩
        · rw [mem_segAddrs]
          have : q * p ≤ s.off + s.len - 1 := (Nat.le_div_iff_mul_le hp).mp hq3
          exact ⟨rfl, hc, by simp only; omega⟩
        · simp [pageOf, Nat.mul_div_cancel _ hp]
      · refine ⟨(s.region, s.off), ?_, ?_⟩
        · rw [mem_segAddrs]; exact ⟨rfl, Nat.le_refl _, by simp only; omega⟩
        · have : q ≤ s.off / p := (Nat.le_div_iff_mul_le hp).mpr (by omega)
          simp only [pageOf, Prod.mk.injEq, true_and]; omega
    · rintro ⟨a, ha, hpa⟩
      rw [mem_segAddrs] at ha
      obtain ⟨ha1, ha2, ha3⟩ := ha
      simp only [pageOf, Prod.mk.injEq] at hpa
      refine ⟨a.2 / p, ⟨Nat.div_le_div_right ha2, ?_⟩, by rw [← ha1]; exact hpa.1, hpa.2⟩
      have h1 : a.2 / p ≤ (s.off + s.len - 1) / p := Nat.div_le_div_right (by omega)
      have h2 : s.off / p ≤ (s.off + s.len - 1) / p := Nat.div_le_div_right (by omega)
      omega

theorem mem_addrs {segs : List Seg} {a : Addr} : a ∈ addrs segs ↔ ∃ s ∈ segs, a ∈ segAddrs s := by
  induction segs with
  | nil => simp [addrs]
  | cons s rest ih => simp [addrs, ih]

/-- the pages `mark_dirty` adds are exactly the pages of the addresses of the ranges it walks -/
theorem mem_foldl_markRange {p : Nat} (hp : 0 < p) (segs : List Seg) (d : Dirty) (x : Nat × Nat) :
    x ∈ segs.foldl (markRange p) d ↔ x ∈ d ∨ ∃ a ∈ addrs segs, pageOf p a = x := by
  induction segs generalizing d with
  | nil => simp [addrs]
  | cons s rest ih =>
    simp only [List.foldl, ih, markRange, List.mem_append, mem_pagesOf hp, addrs]
    constructor
    · rintro ((h | ⟨a, ha, e⟩) | ⟨a, ha, e⟩)
      · exact Or.inl h
      · exact Or.inr ⟨a, Or.inl ha, e⟩
      · exact Or.inr ⟨a, Or.inr ha, e⟩
    · rintro (h | ⟨a, ha | ha, e⟩)
      · exact Or.inl (Or.inl h)
      · exact Or.inl (Or.inr ⟨a, ha, e⟩)
      · exact Or.inr ⟨a, ha, e⟩

theorem mem_markDirty {w : World} (hp : 0 < w.p) (segs : List Seg) (n : Nat) (x : Nat × Nat) :
    x ∈ (markDirty w segs n).dirty ↔ x ∈ w.dirty ∨ ∃ a ∈ (addrs segs).take n, pageOf w.p a = x := by
  simp only [markDirty, mem_foldl_markRange hp, dirtyRanges_eq_allocate, addrs_allocate]

end Fbr.Xport
