/-
  Helper lemmas for C04: a run of `write` calls on one writer, pointwise in memory and as flat
  content; the frame property that makes split writers independent.
-/
import Fbr.Lemmas.XportWrite

namespace Fbr.Xport

/-- a run of `write` calls -/
def writeMany (b : IoBufs) (w : World) : List Bytes → IoBufs × World
  | [] => (b, w)
  | d :: rest => writeMany (VirtioW.write b w d).b (VirtioW.write b w d).w rest

/-- from pointwise facts to the flat equation -/
theorem map_byteAt_of_pointwise (m m' : Mem) (A : List Addr) (D : Bytes) (hnd : A.Nodup) (hL : D.length ≤ A.length)
    (hw : ∀ j (h1 : j < D.length) (h2 : j < A.length), m'.byteAt A[j] = D[j])
    (hf : ∀ a, a ∉ A.take D.length → m'.byteAt a = m.byteAt a) :
    A.map m'.byteAt = D ++ (A.map m.byteAt).drop D.length := by
  apply List.ext_getElem
  · simp; omega
  · intro j h1 h2
    simp only [List.length_map] at h1
    simp only [List.getElem_map]
    by_cases hj : j < D.length
    · rw [List.getElem_append_left hj]
      exact hw j hj h1
    · rw [List.getElem_append_right (by omega)]
      simp only [List.getElem_drop, List.getElem_map]
      rw [hf _ (nodup_not_mem_take _ hnd _ _ (by omega) h1)]
      congr 2; omega

theorem vwrite_cursor (b : IoBufs) (w : World) (data : Bytes) (hp : 0 < w.p)
    (hov : b.consumed + total b.segs < USIZE) (hfit : data.length ≤ total b.segs) :
    addrs (VirtioW.write b w data).b.segs = (addrs b.segs).drop data.length
      ∧ (VirtioW.write b w data).b.consumed = b.consumed + data.length := by
  obtain ⟨k, _, hadv, hok, _⟩ := vwrite_advBy b w data hp hov
  have hk : data.length = k := hok _ (vwrite_res_ok b w data hov hfit)
  obtain ⟨_, _, _, _, _, _, h7, h8⟩ := hadv
  rw [hk]; exact ⟨h7, h8⟩

/-- memory after a run of writes that fit -/
theorem writeMany_mem (b : IoBufs) (w : World) (datas : List Bytes) (hp : 0 < w.p)
    (hnd : (addrs b.segs).Nodup) (hin : InMem w.mem (addrs b.segs))
    (hov : b.consumed + total b.segs < USIZE) (hfit : datas.flatten.length ≤ total b.segs) :
    (∀ x, ((writeMany b w datas).2.mem.get x).length = (w.mem.get x).length)
    ∧ (∀ a, a ∉ (addrs b.segs).take datas.flatten.length → (writeMany b w datas).2.mem.byteAt a = w.mem.byteAt a)
    ∧ (∀ j (h1 : j < datas.flatten.length) (h2 : j < (addrs b.segs).length),
        (writeMany b w datas).2.mem.byteAt ((addrs b.segs)[j]) = datas.flatten[j])
    ∧ addrs (writeMany b w datas).1.segs = (addrs b.segs).drop datas.flatten.length
    ∧ (writeMany b w datas).1.consumed = b.consumed + datas.flatten.length
    ∧ (writeMany b w datas).2.p = w.p := by
  induction datas generalizing b w with
  | nil => simp [writeMany]
  | cons d rest ih =>
    simp only [List.flatten_cons, List.length_append] at hfit ⊢
    simp only [writeMany]
    have hfd : d.length ≤ total b.segs := by omega
    obtain ⟨m1, m2, m3⟩ := vwrite_mem b w d hnd hin
    have m3' := m3 (vwrite_res_ok b w d hov hfd)
    obtain ⟨c1, c2⟩ := vwrite_cursor b w d hp hov hfd
    have hadv := vwrite_adv b w d hp hov
    have hnd' : (addrs (VirtioW.write b w d).b.segs).Nodup := by
      rw [c1]; exact (List.drop_sublist _ _).nodup hnd
    have hin' : InMem (VirtioW.write b w d).w.mem (addrs (VirtioW.write b w d).b.segs) := by
      intro a ha; rw [m1]; rw [c1] at ha; exact hin a (List.mem_of_mem_drop ha)
    have htot : total (VirtioW.write b w d).b.segs = total b.segs - d.length := by
      have := congrArg List.length c1; simpa using this
    obtain ⟨i1, i2, i3, i4, i5, i6⟩ := ih (VirtioW.write b w d).b (VirtioW.write b w d).w
      (by rw [hadv.p]; exact hp) hnd' hin' (by rw [hadv.inv]; exact hov) (by rw [htot]; omega)
    have hsplit : (addrs b.segs).take (d.length + rest.flatten.length)
        = (addrs b.segs).take d.length ++ ((addrs b.segs).drop d.length).take rest.flatten.length := List.take_add
    refine ⟨fun x => by rw [i1, m1], ?_, ?_, ?_, by rw [i5, c2]; omega, by rw [i6, hadv.p]⟩
    · intro a ha
      rw [hsplit, List.mem_append, not_or] at ha
      rw [i2 a (by rw [c1]; exact ha.2), m2 a ha.1]
    · intro j h1 h2
      by_cases hj : j < d.length
      · rw [List.getElem_append_left hj]
        have hnot : (addrs b.segs)[j] ∉ (addrs (VirtioW.write b w d).b.segs).take rest.flatten.length := by
          rw [c1]
          intro hm
          have hmd : (addrs b.segs)[j] ∈ (addrs b.segs).drop d.length := List.mem_of_mem_take hm
          have hmt : (addrs b.segs)[j] ∈ (addrs b.segs).take d.length := by
            rw [List.mem_take_iff_getElem]; exact ⟨j, by omega, rfl⟩
          have hs : addrs b.segs = (addrs b.segs).take d.length ++ (addrs b.segs).drop d.length :=
            (List.take_append_drop _ _).symm
          rw [hs] at hnd
          exact (List.nodup_append.mp hnd).2.2 _ hmt _ hmd rfl
        rw [i2 _ hnot]
        exact m3' j hj h2
      · rw [List.getElem_append_right (by omega)]
        have h2' : j - d.length < (addrs (VirtioW.write b w d).b.segs).length := by
          rw [c1, List.length_drop]; omega
        have := i3 (j - d.length) (by omega) h2'
        simp only [c1, List.getElem_drop] at this
        rw [← this]
        congr 2; omega
    · rw [i4, c1, List.drop_drop]

/-- … as flat content of the writer's original buffers -/
theorem writeMany_flat (b : IoBufs) (w : World) (datas : List Bytes) (hp : 0 < w.p)
    (hnd : (addrs b.segs).Nodup) (hin : InMem w.mem (addrs b.segs))
    (hov : b.consumed + total b.segs < USIZE) (hfit : datas.flatten.length ≤ total b.segs) :
    flat (writeMany b w datas).2.mem b.segs = datas.flatten ++ (flat w.mem b.segs).drop datas.flatten.length := by
  obtain ⟨m1, m2, m3, _⟩ := writeMany_mem b w datas hp hnd hin hov hfit
  have hin' : InMem (writeMany b w datas).2.mem (addrs b.segs) := by
    intro a ha; rw [m1]; exact hin a ha
  rw [flat_eq_map _ _ hin', flat_eq_map _ _ hin]
  exact map_byteAt_of_pointwise _ _ _ _ hnd (by simpa using hfit) m3 m2

end Fbr.Xport
