/-
  C19: the extra invariants needed to re-attach backends after a restore (backends in the table
  did mount successfully, every mount point is a pseudo node and its recorded path resolves to it),
  their preservation, and the theorem that save + restore + re-attach gives the state back.
-/
import Fbr.Vfs
import Fbr.Persist
import Fbr.Lemmas.VfsAlloc
import Fbr.Lemmas.VfsInv
import Fbr.Lemmas.VfsMap
import Fbr.Lemmas.VfsPseudo
import Fbr.Lemmas.VfsPath
import Fbr.Lemmas.VfsPersist

namespace Fbr.Lemmas.VfsReattach
open Fbr.Vfs Fbr.Persist Fbr.Lemmas.VfsAlloc Fbr.Lemmas.VfsInv Fbr.Lemmas.VfsMap Fbr.Lemmas.VfsPseudo
open Fbr.Lemmas.VfsPath Fbr.Lemmas.VfsPersist

structure XInv (s : State) : Prop where
  /-- a backend in the table answered `mount()` successfully with an admissible largest inode -/
  bkOk : ∀ i b, s.supers i = some b → b.mountErr = none ∧ b.maxIno ≤ VFS_MAX_INO
  /-- every mount point is a node of the pseudo tree -/
  mntNode : ∀ p m, s.mnts p = some m → ∃ n ∈ s.pseudo.nodes, n.ino = p
  /-- the path recorded for a mount point resolves to it -/
  pathOk : ∀ p m, s.mnts p = some m → ∃ comps, components m.path = some comps ∧ s.pseudo.pathWalk 1 comps = some (some p)

theorem xinv_new (opts : Opts) (rm : Bool) : XInv (State.new opts rm) := by
  refine ⟨?_, ?_, ?_⟩ <;> intro a b h <;> simp [State.new] at h

/-- growing the pseudo tree keeps mount points and their paths -/
theorem xinv_grow {s : State} (hx : XInv s) (hwf : WF s.pseudo) {p' : Pseudo} (hwf' : WF p') (he : Ext s.pseudo p') :
    XInv { s with pseudo := p' } := by
  refine ⟨hx.bkOk, ?_, ?_⟩
  · intro p m hm
    obtain ⟨n, hn, hni⟩ := hx.mntNode p m hm
    obtain ⟨n', hn', a, _, _⟩ := he n hn
    exact ⟨n', hn', by rw [a, hni]⟩
  · intro p m hm
    obtain ⟨comps, hc, hw⟩ := hx.pathOk p m hm
    exact ⟨comps, hc, pathWalk_ext comps s.pseudo p' 1 p hwf hwf' he (root_mem hwf) hw⟩

theorem insertMountLocked_xinv {s s' : State} {b : Bk} {idx : Nat} {path : Name} {r : Except Nat Unit}
    (hx : XInv s) (hwf : WF s.pseudo) (hb : b.mountErr = none ∧ b.maxIno ≤ VFS_MAX_INO)
    (hi : s.insertMountLocked b idx path = some (s', r)) : XInv s' := by
  unfold State.insertMountLocked at hi
  split at hi
  · cases hi; exact hx
  · split at hi
    · cases hi
    · rename_i comps hcomps _ p' inode hw
      obtain ⟨hwf', hmem⟩ := mountWalk_result_wf hwf (root_mem hwf) hw
      have he := mountWalk_ext comps s.pseudo 1 p' inode hwf (root_mem hwf) hw
      have hg := xinv_grow hx hwf hwf' he
      simp only at hi
      split at hi
      · cases hi
      · cases hi; exact hg
      · cases hi
        refine ⟨?_, ?_, ?_⟩
        · intro i b' hb'
          simp only [upd] at hb'
          by_cases hi' : i = idx
          · simp only [hi', if_true, Option.some.injEq] at hb'
            rw [← hb']; exact hb
          · simp only [hi', if_false] at hb'
            cases ho : s.mnts inode with
            | none => simp only [ho] at hb'; exact hx.bkOk i b' hb'
            | some o =>
              simp only [ho, upd] at hb'
              split at hb'
              · cases hb'
              · exact hx.bkOk i b' hb'
        · intro p m hm
          simp only [upd] at hm
          split at hm
          · rename_i hp; subst hp; exact hmem
          · exact hg.mntNode p m hm
        · intro p m hm
          simp only [upd] at hm
          split at hm
          · rename_i hp
            subst hp
            cases hm
            exact ⟨comps, hcomps, mountWalk_resolves comps s.pseudo 1 p' p hwf (root_mem hwf) hw⟩
          · exact hg.pathOk p m hm

theorem mount_xinv {s : State} (hinv : Inv s) (hp : PInv s) (hx : XInv s) (b : Bk) (path : Name) (map : Option Map) :
    XInv (s.mount b path map).1 := by
  -- the backend passed the two checks whenever `insert_mount_locked` is reached
  by_cases hb : b.mountErr = none ∧ b.maxIno ≤ VFS_MAX_INO
  · rcases mount_cases s hinv.next b path map with ⟨h1, _⟩ | ⟨next, _, h1, _⟩ | ⟨next, idx, hn, hne, hlt, hvac, ⟨h1, _⟩ | ⟨s3, r, hins, h1, _⟩⟩
    · rw [h1]; exact hx
    · rw [h1]; exact ⟨hx.bkOk, hx.mntNode, hx.pathOk⟩
    · rw [h1]; exact ⟨hx.bkOk, hx.mntNode, hx.pathOk⟩
    · rw [h1]
      have hx2 : XInv { s with nextSuper := next, mountMaps := upd s.mountMaps idx map } := ⟨hx.bkOk, hx.mntNode, hx.pathOk⟩
      exact insertMountLocked_xinv hx2 hp.wf hb hins
  · have : (s.mount b path map).1 = s := by
      unfold State.mount
      cases hme : b.mountErr with
      | some e => rfl
      | none =>
        simp only
        have : b.maxIno > VFS_MAX_INO := by
          by_cases hle : b.maxIno ≤ VFS_MAX_INO
          · exact absurd ⟨hme, hle⟩ hb
          · omega
        rw [if_pos this]
    rw [this]; exact hx

theorem umount_xinv {s : State} (hp : PInv s) (hx : XInv s) (path : Name) : XInv (s.umount path).1 := by
  rcases umount_cases s path with h1 | ⟨inode, m0, pseudo, hm0, hev, h1⟩
  · rw [h1]; exact hx
  · rw [h1]
    have hev := hev hp.norm
    subst hev
    refine ⟨?_, ?_, ?_⟩
    · intro i b hb
      simp only [upd] at hb
      split at hb
      · cases hb
      · exact hx.bkOk i b hb
    · intro p m hm
      simp only [upd] at hm
      split at hm
      · cases hm
      · exact hx.mntNode p m hm
    · intro p m hm
      simp only [upd] at hm
      split at hm
      · cases hm
      · exact hx.pathOk p m hm

theorem init_xinv {s : State} (hx : XInv s) (opts : Nat) : XInv (s.init opts).1 := by
  unfold State.init
  split
  · exact hx
  · simp only
    split <;> exact ⟨hx.bkOk, hx.mntNode, hx.pathOk⟩

theorem destroy_xinv {s : State} (hx : XInv s) : XInv (s.destroy).1 := by
  unfold State.destroy
  split
  · exact ⟨hx.bkOk, hx.mntNode, hx.pathOk⟩
  · exact hx

/-! ### re-attaching the backends after a restore -/

/-- `t` is `s` with only the mount points below `k` (and their slots) attached -/
structure Agree (s t : State) (k : Nat) : Prop where
  pseudo : t.pseudo = s.pseudo
  maps : t.mountMaps = s.mountMaps
  gmap : t.globalMap = s.globalMap
  opts : t.opts = s.opts
  init : t.initialized = s.initialized
  rm : t.rmRoot = s.rmRoot
  next : t.nextSuper = s.nextSuper
  mnts : ∀ p, t.mnts p = if p < k then s.mnts p else none
  supers : ∀ i, (∃ p m, p < k ∧ s.mnts p = some m ∧ m.idx = i) → t.supers i = s.supers i
  supersNone : ∀ i, (¬ ∃ p m, p < k ∧ s.mnts p = some m ∧ m.idx = i) → t.supers i = none

def lm (s : State) (pino : Nat) : Option (Mnt × Bk) :=
  (s.mnts pino).bind fun m => (s.supers m.idx).map fun b => (m, b)

theorem liveMounts_eq (s : State) : liveMounts s = (List.range' 0 s.pseudo.nextInode).filterMap (lm s) := by
  unfold liveMounts lm
  rw [List.range_eq_range']

theorem convertEntry_of_mapInv {s t : State} (hm : MapInv s) (hmm : t.mountMaps = s.mountMaps) (hg : t.globalMap = s.globalMap)
    {p : Nat} {m : Mnt} {b : Bk} (hmp : s.mnts p = some m) (hb : s.supers m.idx = some b) :
    t.convertEntry m.idx b.rootIno b.rootEnt = some (.ok m.rootEntry) ∧ m.ino = b.rootIno ∧ s.mountMaps m.idx = m.map := by
  obtain ⟨a, b', hb', h1, h2, h3, h4⟩ := hm p m hmp
  rw [hb] at hb'
  cases hb'
  refine ⟨?_, h1, a⟩
  unfold State.convertEntry
  rw [h2]
  have : t.effectiveMap m.idx = s.effectiveMap m.idx := effectiveMap_congr hmm hg m.idx
  simp only [this, Bk.rootEnt, h4]
  congr 2
  cases hre : m.rootEntry with
  | mk inode stIno uid gid =>
    rw [hre] at h3
    simp only at h3
    simp [h3]

theorem restoreMount_agree {s t : State} {k : Nat} (hi : Inv s) (hm : MapInv s) (hx : XInv s) (ha : Agree s t k)
    {m : Mnt} {b : Bk} (hmk : s.mnts k = some m) (hb : s.supers m.idx = some b) :
    ∃ t1, t.restoreMount b m.idx m.path = (t1, .unit, [mountCall b]) ∧ Agree s t1 (k + 1) := by
  obtain ⟨hme, hmax⟩ := hx.bkOk _ _ hb
  obtain ⟨comps, hcomps, hwalk⟩ := hx.pathOk k m hmk
  have hmw : t.pseudo.mountWalk 1 comps = some (s.pseudo, k) := by
    rw [ha.pseudo]; exact mountWalk_of_pathWalk comps s.pseudo 1 k hwalk
  obtain ⟨hce, hino, hmap⟩ := convertEntry_of_mapInv (t := { t with pseudo := s.pseudo }) hm ha.maps ha.gmap hmk hb
  obtain ⟨b2, hb2, hbid⟩ := hi.slot k m hmk
  rw [hb] at hb2; cases hb2
  have htk : t.mnts k = none := by rw [ha.mnts k]; simp
  have hrec : ({ idx := m.idx, ino := b.rootIno, rootEntry := m.rootEntry, path := m.path, bk := b.id,
                 map := t.mountMaps m.idx } : Mnt) = m := by
    rw [ha.maps, hmap, ← hino, hbid]
  refine ⟨{ t with pseudo := s.pseudo, supers := upd t.supers m.idx (some b), mnts := upd t.mnts k (some m) }, ?_, ?_⟩
  · unfold State.restoreMount
    have hnot : ¬ b.maxIno > VFS_MAX_INO := by omega
    simp only [hme, hnot, if_false]
    unfold State.insertMountLocked
    simp only [hcomps, hmw, hce, htk, hrec]
  · refine ⟨rfl, ha.maps, ha.gmap, ha.opts, ha.init, ha.rm, ha.next, ?_, ?_, ?_⟩
    · intro p
      simp only [upd]
      by_cases hp : p = k
      · subst hp; simp [hmk]
      · simp only [hp, if_false]
        rw [ha.mnts p]
        by_cases hlt : p < k
        · have : p < k + 1 := by omega
          simp [hlt, this]
        · have : ¬ p < k + 1 := by omega
          simp [hlt, this]
    · intro i ⟨p, m', hp, hmp, hmi⟩
      simp only [upd]
      by_cases hii : i = m.idx
      · subst hii; simp [hb]
      · simp only [hii, if_false]
        apply ha.supers
        have hpk : p ≠ k := by
          intro h; subst h; rw [hmk] at hmp; cases hmp; exact hii hmi.symm
        exact ⟨p, m', by omega, hmp, hmi⟩
    · intro i hno
      simp only [upd]
      have hii : i ≠ m.idx := by
        intro h; exact hno ⟨k, m, by omega, hmk, h.symm⟩
      simp only [hii, if_false]
      apply ha.supersNone
      rintro ⟨p, m', hp, hmp, hmi⟩
      exact hno ⟨p, m', by omega, hmp, hmi⟩

theorem reattach_agree {s : State} (hi : Inv s) (hm : MapInv s) (hx : XInv s) :
    ∀ (len k : Nat) (t : State), Agree s t k →
      ∃ t' calls, reattach t ((List.range' k len).filterMap (lm s)) = (t', calls, none) ∧ Agree s t' (k + len) := by
  intro len
  induction len with
  | zero => intro k t ha; exact ⟨t, [], rfl, ha⟩
  | succ n ih =>
    intro k t ha
    rw [List.range'_succ, List.filterMap_cons]
    cases hmk : s.mnts k with
    | none =>
      have hl : lm s k = none := by simp [lm, hmk]
      simp only [hl]
      have ha' : Agree s t (k + 1) := by
        refine ⟨ha.pseudo, ha.maps, ha.gmap, ha.opts, ha.init, ha.rm, ha.next, ?_, ?_, ?_⟩
        · intro p
          rw [ha.mnts p]
          by_cases hp : p = k
          · subst hp; simp [hmk]
          · by_cases hlt : p < k
            · have : p < k + 1 := by omega
              simp [hlt, this]
            · have : ¬ p < k + 1 := by omega
              simp [hlt, this]
        · intro i ⟨p, m', hp, hmp, hmi⟩
          apply ha.supers
          have hpk : p ≠ k := by intro h; subst h; rw [hmk] at hmp; cases hmp
          exact ⟨p, m', by omega, hmp, hmi⟩
        · intro i hno
          apply ha.supersNone
          rintro ⟨p, m', hp, hmp, hmi⟩
          exact hno ⟨p, m', by omega, hmp, hmi⟩
      obtain ⟨t', calls, hr, hag⟩ := ih (k + 1) t ha'
      exact ⟨t', calls, hr, by rw [show k + (n + 1) = k + 1 + n by omega]; exact hag⟩
    | some m =>
      obtain ⟨b, hb, _⟩ := hi.slot k m hmk
      have hl : lm s k = some (m, b) := by simp [lm, hmk, hb]
      simp only [hl]
      obtain ⟨t1, hrm, ha1⟩ := restoreMount_agree hi hm hx ha hmk hb
      obtain ⟨t', calls, hr, hag⟩ := ih (k + 1) t1 ha1
      refine ⟨t', [mountCall b] ++ calls, ?_, by rw [show k + (n + 1) = k + 1 + n by omega]; exact hag⟩
      simp only [reattach, hrm, hr]

/-- with everything attached, the state is the original -/
theorem agree_all {s t : State} (hi : Inv s) (hx : XInv s) (hp : PInv s) (ha : Agree s t s.pseudo.nextInode) : t = s := by
  have hlt : ∀ p m, s.mnts p = some m → p < s.pseudo.nextInode := by
    intro p m hm
    obtain ⟨n, hn, hni⟩ := hx.mntNode p m hm
    rw [← hni]; exact hp.wf.bound n hn
  have hmnts : t.mnts = s.mnts := by
    funext p
    rw [ha.mnts p]
    by_cases h : p < s.pseudo.nextInode
    · simp [h]
    · simp only [h, if_false]
      cases hm : s.mnts p with
      | none => rfl
      | some m => exact absurd (hlt p m hm) h
  have hsup : t.supers = s.supers := by
    funext i
    cases hs : s.supers i with
    | none =>
      by_cases hex : ∃ p m, p < s.pseudo.nextInode ∧ s.mnts p = some m ∧ m.idx = i
      · rw [ha.supers i hex, hs]
      · exact ha.supersNone i hex
    | some b =>
      obtain ⟨p, m, hm, hmi⟩ := hi.occ i b hs
      rw [ha.supers i ⟨p, m, hlt p m hm, hm, hmi⟩, hs]
  cases t
  cases s
  simp only at hmnts hsup
  have h1 := ha.pseudo; have h2 := ha.maps; have h3 := ha.gmap; have h4 := ha.opts
  have h5 := ha.init; have h6 := ha.rm; have h7 := ha.next
  simp only at h1 h2 h3 h4 h5 h6 h7
  subst hmnts hsup h1 h2 h3 h4 h5 h6 h7
  rfl

/-- what `restore_from_bytes` produces from the snapshot of `s` -/
def restored0 (s : State) : State :=
  { supers := fun _ => none, mnts := fun _ => none, pseudo := s.pseudo, nextSuper := s.nextSuper,
    mountMaps := fun i => ((loadMaps (save s) false)[i]?).join, globalMap := s.globalMap, opts := s.opts,
    initialized := decide (s.opts.inOpts ≠ 0), rmRoot := s.rmRoot }

theorem restore_eq {s : State} (hp : PInv s) : restore s.globalMap s.rmRoot (save s) false = some (restored0 s) := by
  have hpseudo : restorePseudo (save s).nextInode (save s).inodes = some s.pseudo := restorePseudo_save hp.wf
  unfold restore
  rw [hpseudo]
  rfl

theorem restored0_agree {s : State} (hp : PInv s) (hinit : s.initialized = decide (s.opts.inOpts ≠ 0)) :
    Agree s (restored0 s) 0 := by
  refine ⟨rfl, loadMaps_save s hp.range, rfl, rfl, hinit.symm, rfl, rfl, ?_, ?_, ?_⟩
  · intro p; simp [restored0]
  · rintro i ⟨p, m, hp0, _⟩; omega
  · intro i _; rfl

/-- save, restore into a fresh instance built with the same global mapping, re-attach the
    backends at their recorded indices: the state is reproduced exactly -/
theorem saveRestore_identity {s : State} (hi : Inv s) (hm : MapInv s) (hp : PInv s) (hx : XInv s)
    (hinit : s.initialized = decide (s.opts.inOpts ≠ 0)) :
    (saveRestore s .same).1 = s ∧ (saveRestore s .same).2.1 = .unit := by
  obtain ⟨t', calls, hr, hag⟩ := reattach_agree hi hm hx s.pseudo.nextInode 0 _ (restored0_agree hp hinit)
  simp only [Nat.zero_add] at hag
  unfold saveRestore
  have hd : decide (RMode.same = RMode.v1) = false := by decide
  simp only [hd, Bool.false_eq_true, if_false, restore_eq hp, liveMounts_eq, hr]
  exact ⟨agree_all hi hx hp hag, trivial⟩

end Fbr.Lemmas.VfsReattach
