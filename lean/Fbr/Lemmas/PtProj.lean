/-
  Frame lemmas: the descriptor-ledger primitives of `Fbr.PtRefs` do not touch the tables.
-/
import Fbr.PtRefs

namespace Fbr.PtRefs

/-- the inode/handle tables of a state (everything but the ledger) -/
structure Tables where
  data : List (Ino × IData)
  byId : List (InodeId × Ino)
  byHandle : List (FhId × Ino)
  next : Nat
  devMap : List ((Nat × Nat) × Nat)
  nextUid : Nat
  nextVirt : Nat
  handles : List (Hnd × Ino)
  cookies : List Hnd
  nextHandle : Nat
  clobbered : Bool
  lookups : Nat

def St.tables (s : St) : Tables :=
  { data := s.data, byId := s.byId, byHandle := s.byHandle, next := s.next, devMap := s.devMap,
    nextUid := s.nextUid, nextVirt := s.nextVirt, handles := s.handles, cookies := s.cookies,
    nextHandle := s.nextHandle, clobbered := s.clobbered, lookups := s.lookups }

@[simp] theorem tables_freeFd (s : St) : (freeFd s).tables = s.tables := rfl

@[simp] theorem tables_allocFd (e : Env) (s : St) : (allocFd e s).1.tables = s.tables := by
  unfold allocFd; split <;> rfl

@[simp] theorem tables_openTemp (e : Env) (s : St) (b : Bool) : (openTemp e s b).1.tables = s.tables := by
  unfold openTemp; split <;> simp

@[simp] theorem tables_closeTemp (s : St) (b : Bool) : (closeTemp s b).tables = s.tables := by
  unfold closeTemp; split <;> simp

@[simp] theorem tables_getFile (e : Env) (s : St) (d : IData) (st : Bool) :
    (getFile e s d st).1.tables = s.tables := by
  unfold getFile
  split
  · split
    · rfl
    · have := tables_allocFd e s
      split <;> simp_all
  · rfl

@[simp] theorem tables_mountPut (s : St) : (mountPut s).tables = s.tables := by
  unfold mountPut; split <;> rfl

@[simp] theorem tables_mountGet (e : Env) (s : St) : (mountGet e s).1.tables = s.tables := by
  unfold mountGet
  split
  · rfl
  · have h1 := tables_allocFd e s
    split
    · simp_all
    · rename_i s1 hs1
      have h2 := tables_allocFd e s1
      rw [hs1] at h1
      split
      · rename_i s2 hs2; rw [hs2] at h2; simp_all
      · rename_i s2 hs2; rw [hs2] at h2; simp_all [St.tables, freeFd]

@[simp] theorem tables_dropIData (s : St) (d : IData) : (dropIData s d).tables = s.tables := by
  unfold dropIData; split <;> simp

@[simp] theorem tables_toOpenable (e : Env) (s : St) (fh : Option FhId) :
    (toOpenable e s fh).1.tables = s.tables := by
  unfold toOpenable; split <;> simp

@[simp] theorem tables_dropPending (s : St) (fh : Option FhId) : (dropPending s fh).tables = s.tables := by
  unfold dropPending; split <;> simp

@[simp] theorem tables_settlePath (s : St) (fh : Option FhId) : (settlePath s fh).tables = s.tables := by
  unfold settlePath; split <;> simp

theorem data_of_tables {s t : St} (h : s.tables = t.tables) : s.data = t.data := by
  have := congrArg Tables.data h; simpa [St.tables] using this

theorem clob_of_tables {s t : St} (h : s.tables = t.tables) : s.clobbered = t.clobbered := by
  have := congrArg Tables.clobbered h; simpa [St.tables] using this

theorem lookups_of_tables {s t : St} (h : s.tables = t.tables) : s.lookups = t.lookups := by
  have := congrArg Tables.lookups h; simpa [St.tables] using this

theorem byId_of_tables {s t : St} (h : s.tables = t.tables) : s.byId = t.byId := by
  have := congrArg Tables.byId h; simpa [St.tables] using this

theorem byHandle_of_tables {s t : St} (h : s.tables = t.tables) : s.byHandle = t.byHandle := by
  have := congrArg Tables.byHandle h; simpa [St.tables] using this

theorem next_of_tables {s t : St} (h : s.tables = t.tables) : s.next = t.next := by
  have := congrArg Tables.next h; simpa [St.tables] using this

theorem handles_of_tables {s t : St} (h : s.tables = t.tables) : s.handles = t.handles := by
  have := congrArg Tables.handles h; simpa [St.tables] using this

theorem cookies_of_tables {s t : St} (h : s.tables = t.tables) : s.cookies = t.cookies := by
  have := congrArg Tables.cookies h; simpa [St.tables] using this

theorem nextHandle_of_tables {s t : St} (h : s.tables = t.tables) : s.nextHandle = t.nextHandle := by
  have := congrArg Tables.nextHandle h; simpa [St.tables] using this

/-- the probes of the inode store only read the tables -/
theorem getAlt_of_tables {s t : St} (h : s.tables = t.tables) (id : InodeId) (fh : Option FhId) :
    getAlt s id fh = getAlt t id fh := by
  unfold getAlt getByHandle getById
  rw [data_of_tables h, byId_of_tables h, byHandle_of_tables h]

theorem getInodeLocked_of_tables {s t : St} (h : s.tables = t.tables) (id : InodeId) (fh : Option FhId) :
    getInodeLocked s id fh = getInodeLocked t id fh := by
  unfold getInodeLocked
  rw [byId_of_tables h, byHandle_of_tables h]

end Fbr.PtRefs
