/-
  Frame lemmas: the descriptor-ledger primitives of `Fbr.PtRefs` do not touch the tables.
-/
import Fbr.PtRefs

namespace Fbr.PtRefs

/-- the inode/handle tables of a state (everything but the ledger) -/
structure Tables where
  data : List (Ino × IData)
  byId : List (InodeId × Ino)
  byHandle : List (FhId × Ino)
  next : Nat
  devMap : List ((Nat × Nat) × Nat)
  nextUid : Nat
  nextVirt : Nat
  handles : List (Hnd × Ino)
  cookies : List Hnd
  nextHandle : Nat

def St.tables (s : St) : Tables :=
  { data := s.data, byId := s.byId, byHandle := s.byHandle, next := s.next, devMap := s.devMap,
    nextUid := s.nextUid, nextVirt := s.nextVirt, handles := s.handles, cookies := s.cookies,
    nextHandle := s.nextHandle }

@[simp] theorem tables_freeFd (s : St) : (freeFd s).tables = s.tables := rfl

@[simp] theorem tables_allocFd (e : Env) (s : St) : (allocFd e s).1.tables = s.tables := by
  unfold allocFd; split <;> rfl

@[simp] theorem tables_openTemp (e : Env) (s : St) (b : Bool) : (openTemp e s b).1.tables = s.tables := by
  unfold openTemp; split <;> simp

@[simp] theorem tables_closeTemp (s : St) (b : Bool) : (closeTemp s b).tables = s.tables := by
  unfold closeTemp; split <;> simp

@[simp] theorem tables_getFile (e : Env) (s : St) (d : IData) (st : Bool) :
    (getFile e s d st).1.tables = s.tables := by
  unfold getFile
  split
  · split
    · rfl
    · have := tables_allocFd e s
      split <;> simp_all
  · rfl

@[simp] theorem tables_mountPut (s : St) : (mountPut s).tables = s.tables := by
  unfold mountPut; split <;> rfl

@[simp] theorem tables_mountGet (e : Env) (s : St) : (mountGet e s).1.tables = s.tables := by
  unfold mountGet
  split
  · rfl
  · have h1 := tables_allocFd e s
    split
    · simp_all
    · rename_i s1 hs1
      have h2 := tables_allocFd e s1
      rw [hs1] at h1
      split
      · rename_i s2 hs2; rw [hs2] at h2; simp_all
      · rename_i s2 hs2; rw [hs2] at h2; simp_all [St.tables, freeFd]

@[simp] theorem tables_dropIData (s : St) (d : IData) : (dropIData s d).tables = s.tables := by
  unfold dropIData; split <;> simp

theorem data_of_tables {s t : St} (h : s.tables = t.tables) : s.data = t.data := by
  have := congrArg Tables.data h; simpa [St.tables] using this

end Fbr.PtRefs
