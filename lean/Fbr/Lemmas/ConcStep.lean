/-
  Every step of every thread of `Fbr.Conc` preserves the invariant.
-/
import Fbr.Lemmas.ConcInv
import Fbr.Lemmas.ConcStore

namespace Fbr.Conc

theorem numOk_of_data {c : Cfg} {st : Store} {incs decs : HostId → Nat} (h : SInv c st incs decs)
    {i : Ino} {o : ObjId} (hd : st.data i = some o) : NumOk c st (st.objHost o) (st.objIno o) := by
  obtain ⟨_, b, d⟩ := h.dataObj i o hd
  constructor
  · intro _; rw [b]; exact d
  · intro hk; rw [b]; exact h.packed hk _ _ d

/-- an object whose count is positive is in the store -/
theorem in_data_of_pos {c : Cfg} {st : Store} {incs decs : HostId → Nat} (h : SInv c st incs decs)
    {o : ObjId} (ho : o < st.nobj) (hp : 0 < st.cells o) : ∃ i, st.data i = some o := by
  apply Classical.byContradiction
  intro hn
  have : ∀ i, st.data i ≠ some o := fun i e => hn ⟨i, e⟩
  have := h.orphan o ho this
  omega

/-- `InvBut` when only the count of object `o` (which is not at zero afterwards … or was not
    before) and the ghosts change -/
theorem but_cells {c : Cfg} {s : Sys} {t : Tid} {hold : Bool} {P : Ino → ObjId → Prop}
    {incs0 : HostId → Nat}
    (h : InvBut c s t hold P incs0) (o : ObjId) (v : Nat) (incs' decs' : HostId → Nat)
    (hs : SInv c { s.store with cells := upd s.store.cells o v } incs' decs')
    (hpos : ∀ i, s.store.data i = some o → v = 0 → P i o)
    (hF3 : ∀ t' i n, t' ≠ t → (s.threads t').pc = .F3 i n o → v = 0) :
    InvBut c { s with store := { s.store with cells := upd s.store.cells o v }, decs := decs' }
      t hold P incs' := by
  constructor
  · exact hs
  · exact h.lockA
  · exact h.lockT
  · intro i o' hd hc
    by_cases e : o' = o
    · subst e
      have : v = 0 := by simpa using hc
      exact Or.inr (hpos i hd this)
    · have : s.store.cells o' = 0 := by simpa [e] using hc
      exact h.pos i o' hd this
  · exact h.pcL1
  · exact h.pcL2
  · exact h.pcF2
  · intro t' i n o' ne hp
    obtain ⟨a, b⟩ := h.pcF3 t' i n o' ne hp
    refine ⟨a, ?_⟩
    by_cases e : o' = o
    · subst e; simp [hF3 t' i n ne hp]
    · simp [e, b]
  · exact h.knownOk
  · exact h.resOk

theorem but_mono {c : Cfg} {s : Sys} {t : Tid} {hold : Bool} {P Q : Ino → ObjId → Prop}
    {incs' : HostId → Nat}
    (h : InvBut c s t hold P incs') (hPQ : ∀ i o, P i o → Q i o) : InvBut c s t hold Q incs' := by
  constructor
  · exact h.sinv
  · exact h.lockA
  · exact h.lockT
  · intro i o hd hc
    rcases h.pos i o hd hc with x | x
    · exact Or.inl x
    · exact Or.inr (hPQ i o x)
  · exact h.pcL1
  · exact h.pcL2
  · exact h.pcF2
  · exact h.pcF3
  · exact h.knownOk
  · exact h.resOk

/-- `InvBut` for a thread that is outside the critical section -/
theorem but_plain {c : Cfg} {s : Sys} (h : Inv c s) {t : Tid} (hh : holds (s.threads t).pc = false) :
    InvBut c s t false (fun _ _ => False) s.incs := by
  have := but_of_inv h t
  rw [hh] at this
  apply but_mono this
  intro i o ⟨n, e⟩
  rw [e] at hh; simp [holds] at hh

/-- a lookup commits an increment on an object of the store and returns its number -/
theorem step_inc {c : Cfg} {s : Sys} (h : Inv c s) {t : Tid} (hh : holds (s.threads t).pc = false)
    {i : Ino} {o : ObjId} (hd : s.store.data i = some o)
    (hno3 : ∀ t' i n, (s.threads t').pc ≠ .F3 i n o) :
    Inv c (finish { s with store := { s.store with cells := upd s.store.cells o (s.store.cells o + 1) } }
      t (some (s.store.objHost o, s.store.objIno o))) := by
  apply inv_finish
  · exact but_cells (but_plain h hh) o (s.store.cells o + 1) _ s.decs (sinv_inc h.sinv hd)
      (by intro _ _ hv; omega) (by intro t' i n _ hp; exact absurd hp (hno3 t' i n))
  · intro f j e
    cases e
    exact numOk_of_data h.sinv hd

/-- a lookup that missed inserts a new object under the write lock and returns its number -/
theorem step_insert {c : Cfg} (hinj : ∀ f g, c.pack f = c.pack g → f = g) {s : Sys} (h : Inv c s)
    {t : Tid} (hh : holds (s.threads t).pc = false) {f : HostId} (hp : probe s.store f = none) :
    Inv c (finish { s with store := (insertAt c s.store f).1 }
      t (some (f, (insertAt c s.store f).2))) := by
  obtain ⟨next0, ino, he, k1, k3, k4, k5, k6⟩ := insertAt_facts hinj h.sinv hp
  rw [he]
  have hb := but_plain h hh
  have hnum : ∀ g j, NumOk c s.store g j → NumOk c (ins s.store next0 ino f) g j := by
    intro g j ⟨a, b⟩
    exact ⟨fun hk => k6 hk g j (a hk), b⟩
  apply inv_finish
  · constructor
    · exact sinv_ins h.sinv hp k1 k3 k4 k5
    · exact hb.lockA
    · exact hb.lockT
    · intro j o' hj hc
      have hne : o' ≠ s.store.nobj := by
        intro e; subst e; simp [ins] at hc
      have hji : j ≠ ino := by
        intro e; subst e
        have : s.store.nobj = o' := by simpa [ins] using hj
        exact hne this.symm
      have hj' : s.store.data j = some o' := by simpa [ins, hji] using hj
      have hc' : s.store.cells o' = 0 := by simpa [ins, hne] using hc
      exact hb.pos j o' hj' hc'
    · intro t' g o ne hpc
      obtain ⟨a, b⟩ := hb.pcL1 t' g o ne hpc
      have hne : o ≠ s.store.nobj := Nat.ne_of_lt a
      exact ⟨by simp only [ins]; exact Nat.lt_succ_of_lt a, by simp [ins, hne, b]⟩
    · intro t' g o k ne hpc
      obtain ⟨a, b, d⟩ := hb.pcL2 t' g o k ne hpc
      have hne : o ≠ s.store.nobj := Nat.ne_of_lt a
      exact ⟨by simp only [ins]; exact Nat.lt_succ_of_lt a, by simp [ins, hne, b], d⟩
    · intro t' i n o k ne hpc
      have hd := hb.pcF2 t' i n o k ne hpc
      have hii : i ≠ ino := by intro e; subst e; rw [k1] at hd; cases hd
      simp [ins, hii, hd]
    · intro t' i n o ne hpc
      obtain ⟨hd, hz⟩ := hb.pcF3 t' i n o ne hpc
      have hii : i ≠ ino := by intro e; subst e; rw [k1] at hd; cases hd
      have hne : o ≠ s.store.nobj := Nat.ne_of_lt (h.sinv.dataObj i o hd).1
      exact ⟨by simp [ins, hii, hd], by simp [ins, hne, hz]⟩
    · intro g j hk; exact hnum g j (hb.knownOk g j hk)
    · intro t' g j hm; exact hnum g j (hb.resOk t' g j hm)
  · intro g j e
    cases e
    constructor
    · intro _; simp [ins]
    · exact k5

/-- `forget` takes the write lock -/
theorem step_lock {c : Cfg} {s : Sys} (h : Inv c s) {t : Tid} (hf : s.lock = .free) (ino : Ino) (n : Nat) :
    Inv c (setPc { s with lock := .w t } t (.F1 ino n)) := by
  have nh := no_holder_of_free h hf
  apply inv_setPcBut (P := fun _ _ => False)
  · constructor
    · exact h.sinv
    · intro t' ne
      constructor
      · intro e; cases e; exact absurd rfl ne
      · intro e; rw [nh t'] at e; cases e
    · simp [holds]
    · intro i o hd hc
      obtain ⟨t0, n0, e⟩ := h.pos i o hd hc
      have := nh t0; rw [e] at this; simp [holds] at this
    · intro t' f o _; exact h.pcL1 t' f o
    · intro t' f o k _; exact h.pcL2 t' f o k
    · intro t' i n o k _; exact h.pcF2 t' i n o k
    · intro t' i n o _; exact h.pcF3 t' i n o
    · exact h.knownOk
    · exact h.resOk
  · intro _ _ hF; exact hF.elim
  · intro f o e; cases e
  · intro f o k e; cases e
  · intro i n o k e; cases e
  · intro i n o e; cases e

/-- the lock holder `t` (not about to remove an entry) releases the lock -/
theorem but_unlock {c : Cfg} {s : Sys} (h : Inv c s) {t : Tid} (hh : holds (s.threads t).pc = true)
    (hn3 : ∀ i n o, (s.threads t).pc ≠ .F3 i n o) :
    InvBut c { s with lock := .free } t false (fun _ _ => False) s.incs := by
  constructor
  · exact h.sinv
  · intro t' ne
    constructor
    · intro e; cases e
    · intro e; exact absurd (holder_unique h hh e) ne
  · simp
  · intro i o hd hc
    obtain ⟨t0, n0, e⟩ := h.pos i o hd hc
    have : holds (s.threads t0).pc = true := by rw [e]; rfl
    have := holder_unique h hh this
    subst this
    exact absurd e (hn3 i n0 o)
  · intro t' f o _; exact h.pcL1 t' f o
  · intro t' f o k _; exact h.pcL2 t' f o k
  · intro t' i n o k _; exact h.pcF2 t' i n o k
  · intro t' i n o _; exact h.pcF3 t' i n o
  · exact h.knownOk
  · exact h.resOk

/-- `forget`'s compare-exchange succeeds (count stays positive): unlock and return -/
theorem step_dec_pos {c : Cfg} {s : Sys} (h : Inv c s) {t : Tid} {ino : Ino} {n : Nat} {o : ObjId}
    {curr : Nat} (hpc : (s.threads t).pc = .F2 ino n o curr) (hc : s.store.cells o = curr)
    (hnew : curr - n ≠ 0) :
    Inv c (finish { s with store := { s.store with cells := upd s.store.cells o (curr - n) },
                           decs := upd s.decs (s.store.objHost o)
                             (s.decs (s.store.objHost o) + (curr - (curr - n))),
                           lock := .free } t none) := by
  have hd := h.pcF2 t ino n o curr hpc
  have hh : holds (s.threads t).pc = true := by rw [hpc]; rfl
  have hb := but_unlock h hh (by intro i n' o' e; rw [hpc] at e; cases e)
  apply inv_finish
  · have hs := sinv_dec h.sinv hd (curr - n) (by omega)
    rw [hc] at hs
    apply but_cells hb o (curr - n) _ _ hs
    · intro _ _ hv; exact absurd hv hnew
    · intro t' i n' ne hp
      have : holds (s.threads t').pc = true := by rw [hp]; rfl
      exact absurd (holder_unique h hh this) ne
  · intro f j e; cases e

/-- `forget`'s compare-exchange brings the count to zero: the entry is about to be removed -/
theorem step_dec_zero {c : Cfg} {s : Sys} (h : Inv c s) {t : Tid} {ino : Ino} {n : Nat} {o : ObjId}
    {curr : Nat} (hpc : (s.threads t).pc = .F2 ino n o curr) (hc : s.store.cells o = curr)
    (hnew : curr - n = 0) :
    Inv c (setPc { s with store := { s.store with cells := upd s.store.cells o (curr - n) },
                          decs := upd s.decs (s.store.objHost o)
                            (s.decs (s.store.objHost o) + (curr - (curr - n))) } t (.F3 ino n o)) := by
  have hd := h.pcF2 t ino n o curr hpc
  have hh : holds (s.threads t).pc = true := by rw [hpc]; rfl
  have hb0 := but_of_inv h t
  rw [hh] at hb0
  have hb : InvBut c s t true (fun i o' => i = ino ∧ o' = o) s.incs := by
    apply but_mono hb0
    intro i o' ⟨n', e⟩; rw [hpc] at e; cases e
  have hs := sinv_dec h.sinv hd (curr - n) (by omega)
  rw [hc] at hs
  apply inv_setPcBut (P := fun i o' => i = ino ∧ o' = o)
  · apply but_cells hb o (curr - n) _ _ hs
    · intro i hi _
      have a := (h.sinv.dataObj i o hi).2.1
      have b := (h.sinv.dataObj ino o hd).2.1
      exact ⟨by rw [← a, b], rfl⟩
    · intro _ _ _ _ _; exact hnew
  · intro i o' ⟨a, b⟩; subst a; subst b; exact ⟨n, rfl⟩
  · intro f o' e; cases e
  · intro f o' k e; cases e
  · intro i n' o' k e; cases e
  · intro i n' o' e
    cases e
    exact ⟨hd, by simp [hnew]⟩

/-- `forget` removes the entry whose count reached zero, unlocks and returns -/
theorem step_remove {c : Cfg} {s : Sys} (h : Inv c s) {t : Tid} {ino : Ino} {n : Nat} {o : ObjId}
    (hpc : (s.threads t).pc = .F3 ino n o) :
    Inv c (finish { s with store := removeAt c s.store ino o, lock := .free } t none) := by
  obtain ⟨hd, hz⟩ := h.pcF3 t ino n o hpc
  have hh : holds (s.threads t).pc = true := by rw [hpc]; rfl
  have hnum : ∀ g j, NumOk c s.store g j → NumOk c (removeAt c s.store ino o) g j := by
    intro g j ⟨a, b⟩
    refine ⟨fun hk => ?_, b⟩
    have := a hk
    simp [removeAt, hk, this]
  have others : ∀ t', t' ≠ t → holds (s.threads t').pc = false := by
    intro t' ne
    cases e : holds (s.threads t').pc with
    | false => rfl
    | true => exact absurd (holder_unique h hh e) ne
  apply inv_finish
  · constructor
    · exact sinv_remove h.sinv hd hz
    · intro t' ne
      constructor
      · intro e; cases e
      · intro e; rw [others t' ne] at e; cases e
    · simp
    · intro i o' hi hc
      have hii : i ≠ ino := by intro e; subst e; simp [removeAt] at hi
      have hi' : s.store.data i = some o' := by simpa [removeAt, hii] using hi
      obtain ⟨t0, n0, e⟩ := h.pos i o' hi' hc
      have : holds (s.threads t0).pc = true := by rw [e]; rfl
      have := holder_unique h hh this
      subst this
      rw [hpc] at e; cases e; exact absurd rfl hii
    · intro t' f o' _ hp; exact h.pcL1 t' f o' hp
    · intro t' f o' k _ hp; exact h.pcL2 t' f o' k hp
    · intro t' i n' o' k ne hp
      have := others t' ne; rw [hp] at this; simp [holds] at this
    · intro t' i n' o' ne hp
      have := others t' ne; rw [hp] at this; simp [holds] at this
    · intro g j hk; exact hnum g j (h.knownOk g j hk)
    · intro t' g j hm; exact hnum g j (h.resOk t' g j hm)
  · intro f j e; cases e

/-- **every step preserves the invariant** -/
theorem step_inv {c : Cfg} (hinj : ∀ f g, c.pack f = c.pack g → f = g) {s : Sys} (h : Inv c s)
    (t : Tid) : Inv c (step c s t) := by
  unfold step
  by_cases hen : enabled s t = true
  case neg =>
    have : enabled s t = false := by simpa using hen
    simp [this]; exact h
  simp only [hen, Bool.not_true, Bool.false_eq_true, if_false]
  split
  · exact h
  · -- LS
    rename_i f hpc
    exact inv_setPc h t _ (by rw [hpc]; rfl) (by intro i n o e; rw [hpc] at e; cases e)
      (by intro _ _ e; cases e) (by intro _ _ _ e; cases e) (by intro _ _ _ _ e; cases e)
      (by intro _ _ _ e; cases e)
  · -- L0
    rename_i f hpc
    split
    · exact inv_setPc h t _ (by rw [hpc]; rfl) (by intro i n o e; rw [hpc] at e; cases e)
        (by intro _ _ e; cases e) (by intro _ _ _ e; cases e) (by intro _ _ _ _ e; cases e)
        (by intro _ _ _ e; cases e)
    · rename_i o hp
      obtain ⟨i, _, hd, hf⟩ := probe_some h.sinv hp
      exact inv_setPc h t _ (by rw [hpc]; rfl) (by intro i n o e; rw [hpc] at e; cases e)
        (by intro f' o' e; cases e; exact ⟨(h.sinv.dataObj i _ hd).1, hf⟩)
        (by intro _ _ _ e; cases e) (by intro _ _ _ _ e; cases e) (by intro _ _ _ e; cases e)
  · -- L1
    rename_i f o hpc
    obtain ⟨a, b⟩ := h.pcL1 t f o hpc
    split
    · exact inv_setPc h t _ (by rw [hpc]; rfl) (by intro i n o e; rw [hpc] at e; cases e)
        (by intro _ _ e; cases e) (by intro _ _ _ e; cases e) (by intro _ _ _ _ e; cases e)
        (by intro _ _ _ e; cases e)
    · rename_i hne
      exact inv_setPc h t _ (by rw [hpc]; rfl) (by intro i n o e; rw [hpc] at e; cases e)
        (by intro _ _ e; cases e)
        (by intro f' o' k e; cases e; exact ⟨a, b, Nat.pos_of_ne_zero hne⟩)
        (by intro _ _ _ _ e; cases e) (by intro _ _ _ e; cases e)
  · -- L2
    rename_i f o curr hpc
    obtain ⟨a, b, k⟩ := h.pcL2 t f o curr hpc
    split
    · rename_i hc
      obtain ⟨i, hd⟩ := in_data_of_pos h.sinv a (by omega)
      have hh : holds (s.threads t).pc = false := by rw [hpc]; rfl
      have := step_inc h hh hd (by
        intro t' i' n' e
        have := (h.pcF3 t' i' n' o e).2
        omega)
      subst b
      rw [hc] at this
      exact this
    · exact inv_setPc h t _ (by rw [hpc]; rfl) (by intro i n o e; rw [hpc] at e; cases e)
        (by intro _ _ e; cases e) (by intro _ _ _ e; cases e) (by intro _ _ _ _ e; cases e)
        (by intro _ _ _ e; cases e)
  · -- L3
    rename_i f hpc
    have hfree : s.lock = .free := by simpa [enabled, hpc] using hen
    have hh : holds (s.threads t).pc = false := by rw [hpc]; rfl
    split
    · rename_i o hp
      obtain ⟨i, _, hd, hf⟩ := probe_some h.sinv hp
      have := step_inc h hh hd (by
        intro t' i' n' e
        have := no_holder_of_free h hfree t'
        rw [e] at this; simp [holds] at this)
      subst hf
      exact this
    · rename_i hp
      have := step_insert hinj h hh hp
      unfold insertAt at this
      cases hA : allocate c s.store f with
      | mk st' ino =>
        simp only [hA] at this ⊢
        exact this
  · -- F0
    rename_i ino n hpc
    have hfree : s.lock = .free := by simpa [enabled, hpc] using hen
    exact step_lock h hfree ino n
  · -- F0f
    rename_i f n hpc
    have hfree : s.lock = .free := by simpa [enabled, hpc] using hen
    exact step_lock h hfree _ n
  · -- F1
    rename_i ino n hpc
    have hh : holds (s.threads t).pc = true := by rw [hpc]; rfl
    have hn3 : ∀ i n o, (s.threads t).pc ≠ .F3 i n o := by intro i n o e; rw [hpc] at e; cases e
    split
    · exact inv_finish none (but_unlock h hh hn3) (by intro f j e; cases e)
    · split
      · exact inv_finish none (but_unlock h hh hn3) (by intro f j e; cases e)
      · rename_i o hd
        exact inv_setPc h t _ (by rw [hpc]; rfl) hn3
          (by intro _ _ e; cases e) (by intro _ _ _ e; cases e)
          (by intro i n' o' k e; cases e; exact hd) (by intro _ _ _ e; cases e)
  · -- F2
    rename_i ino n o curr hpc
    split
    · rename_i hc
      split
      · rename_i hz; exact step_dec_zero h hpc hc hz
      · rename_i hz; exact step_dec_pos h hpc hc hz
    · exact inv_setPc h t _ (by rw [hpc]; rfl) (by intro i n o e; rw [hpc] at e; cases e)
        (by intro _ _ e; cases e) (by intro _ _ _ e; cases e)
        (by intro i n' o' k e; cases e; exact h.pcF2 t _ _ _ _ hpc) (by intro _ _ _ e; cases e)
  · -- F3
    rename_i ino n o hpc
    exact step_remove h hpc

/-- the invariant holds in every state reachable by any schedule from any programs -/
theorem run_inv {c : Cfg} (hinj : ∀ f g, c.pack f = c.pack g → f = g) {s : Sys} (h : Inv c s)
    (sched : List Tid) : Inv c (run c s sched) := by
  induction sched generalizing s with
  | nil => exact h
  | cons t r ih => exact ih (step_inv hinj h t)

/-- the states reachable by some schedule from some programs -/
def reach (c : Cfg) (progs : Tid → List Op) (sched : List Tid) : Sys := run c (Sys.init progs) sched

theorem reach_inv {c : Cfg} (hinj : ∀ f g, c.pack f = c.pack g → f = g) (progs : Tid → List Op)
    (sched : List Tid) : Inv c (reach c progs sched) :=
  run_inv hinj (inv_init c progs) sched

end Fbr.Conc
