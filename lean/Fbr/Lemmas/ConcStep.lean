/-
  Every step of every thread of `Fbr.Conc` preserves the invariant.
-/
import Fbr.Lemmas.ConcInv
import Fbr.Lemmas.ConcStore

namespace Fbr.Conc

theorem numOk_of_data {c : Cfg} {st : Store} {incs decs : HostId → Nat} (h : SInv c st incs decs)
    {i : Ino} {o : ObjId} (hd : st.data i = some o) : NumOk c st (st.objHost o) (st.objIno o) := by
  obtain ⟨_, b, d⟩ := h.dataObj i o hd
  constructor
  · intro _; rw [b]; exact d
  · intro hk; rw [b]; exact h.packed hk _ _ d

/-- an object whose count is positive is in the store -/
theorem in_data_of_pos {c : Cfg} {st : Store} {incs decs : HostId → Nat} (h : SInv c st incs decs)
    {o : ObjId} (ho : o < st.nobj) (hp : 0 < st.cells o) : ∃ i, st.data i = some o := by
  apply Classical.byContradiction
  intro hn
  have : ∀ i, st.data i ≠ some o := fun i e => hn ⟨i, e⟩
  have := h.orphan o ho this
  omega

/-- `InvBut` when only the count of object `o` (which is not at zero afterwards … or was not
    before) and the ghosts change -/
theorem but_cells {c : Cfg} {s : Sys} {t : Tid} {hold : Bool} {P : Ino → ObjId → Prop}
    (h : InvBut c s t hold P) (o : ObjId) (v : Nat) (incs' decs' : HostId → Nat)
    (hs : SInv c { s.store with cells := upd s.store.cells o v } incs' decs')
    (hpos : ∀ i, s.store.data i = some o → v = 0 → P i o)
    (hF3 : ∀ t' i n, t' ≠ t → (s.threads t').pc = .F3 i n o → v = 0) :
    InvBut c { s with store := { s.store with cells := upd s.store.cells o v }, incs := incs', decs := decs' }
      t hold P := by
  constructor
  · exact hs
  · exact h.lockA
  · exact h.lockT
  · intro i o' hd hc
    by_cases e : o' = o
    · subst e
      have : v = 0 := by simpa using hc
      exact Or.inr (hpos i hd this)
    · have : s.store.cells o' = 0 := by simpa [e] using hc
      exact h.pos i o' hd this
  · exact h.pcL1
  · exact h.pcL2
  · exact h.pcF2
  · intro t' i n o' ne hp
    obtain ⟨a, b⟩ := h.pcF3 t' i n o' ne hp
    refine ⟨a, ?_⟩
    by_cases e : o' = o
    · subst e; simp [hF3 t' i n ne hp]
    · simp [e, b]
  · exact h.knownOk
  · exact h.resOk

theorem but_mono {c : Cfg} {s : Sys} {t : Tid} {hold : Bool} {P Q : Ino → ObjId → Prop}
    (h : InvBut c s t hold P) (hPQ : ∀ i o, P i o → Q i o) : InvBut c s t hold Q := by
  constructor
  · exact h.sinv
  · exact h.lockA
  · exact h.lockT
  · intro i o hd hc
    rcases h.pos i o hd hc with x | x
    · exact Or.inl x
    · exact Or.inr (hPQ i o x)
  · exact h.pcL1
  · exact h.pcL2
  · exact h.pcF2
  · exact h.pcF3
  · exact h.knownOk
  · exact h.resOk

/-- `InvBut` for a thread that is outside the critical section -/
theorem but_plain {c : Cfg} {s : Sys} (h : Inv c s) {t : Tid} (hh : holds (s.threads t).pc = false) :
    InvBut c s t false (fun _ _ => False) := by
  have := but_of_inv h t
  rw [hh] at this
  apply but_mono this
  intro i o ⟨n, e⟩
  rw [e] at hh; simp [holds] at hh

/-- a lookup commits an increment on an object of the store and returns its number -/
theorem step_inc {c : Cfg} {s : Sys} (h : Inv c s) {t : Tid} (hh : holds (s.threads t).pc = false)
    {i : Ino} {o : ObjId} (hd : s.store.data i = some o)
    (hno3 : ∀ t' i n, (s.threads t').pc ≠ .F3 i n o) :
    Inv c (finish { s with store := { s.store with cells := upd s.store.cells o (s.store.cells o + 1) },
                           incs := upd s.incs (s.store.objHost o) (s.incs (s.store.objHost o) + 1) }
      t (some (s.store.objHost o, s.store.objIno o))) := by
  apply inv_finish
  · apply but_cells (but_plain h hh) o (s.store.cells o + 1) _ _ (sinv_inc h.sinv hd)
    · intro _ _ hv; omega
    · intro t' i n _ hp; exact absurd hp (hno3 t' i n)
  · intro f j e
    cases e
    exact numOk_of_data h.sinv hd

/-- a lookup that missed inserts a new object under the write lock and returns its number -/
theorem step_insert {c : Cfg} (hinj : ∀ f g, c.pack f = c.pack g → f = g) {s : Sys} (h : Inv c s)
    {t : Tid} (hh : holds (s.threads t).pc = false) {f : HostId} (hp : probe s.store f = none) :
    Inv c (finish { s with store := (insertAt c s.store f).1, incs := upd s.incs f (s.incs f + 1) }
      t (some (f, (insertAt c s.store f).2))) := by
  obtain ⟨next0, ino, he, k1, k3, k4, k5, k6⟩ := insertAt_facts hinj h.sinv hp
  rw [he]
  have hb := but_plain h hh
  have hnum : ∀ g j, NumOk c s.store g j → NumOk c (ins s.store next0 ino f) g j := by
    intro g j ⟨a, b⟩
    exact ⟨fun hk => k6 hk g j (a hk), b⟩
  apply inv_finish
  · constructor
    · exact sinv_ins h.sinv hp k1 k3 k4 k5
    · exact hb.lockA
    · exact hb.lockT
    · intro j o' hj hc
      have hne : o' ≠ s.store.nobj := by
        intro e; subst e; simp [ins] at hc
      have hji : j ≠ ino := by
        intro e; subst e
        have : s.store.nobj = o' := by simpa [ins] using hj
        exact hne this.symm
      have hj' : s.store.data j = some o' := by simpa [ins, hji] using hj
      have hc' : s.store.cells o' = 0 := by simpa [ins, hne] using hc
      exact hb.pos j o' hj' hc'
    · intro t' g o ne hpc
      obtain ⟨a, b⟩ := hb.pcL1 t' g o ne hpc
      have hne : o ≠ s.store.nobj := Nat.ne_of_lt a
      exact ⟨by simp only [ins]; exact Nat.lt_succ_of_lt a, by simp [ins, hne, b]⟩
    · intro t' g o k ne hpc
      obtain ⟨a, b, d⟩ := hb.pcL2 t' g o k ne hpc
      have hne : o ≠ s.store.nobj := Nat.ne_of_lt a
      exact ⟨by simp only [ins]; exact Nat.lt_succ_of_lt a, by simp [ins, hne, b], d⟩
    · intro t' i n o k ne hpc
      have hd := hb.pcF2 t' i n o k ne hpc
      have hii : i ≠ ino := by intro e; subst e; rw [k1] at hd; cases hd
      simp [ins, hii, hd]
    · intro t' i n o ne hpc
      obtain ⟨hd, hz⟩ := hb.pcF3 t' i n o ne hpc
      have hii : i ≠ ino := by intro e; subst e; rw [k1] at hd; cases hd
      have hne : o ≠ s.store.nobj := Nat.ne_of_lt (h.sinv.dataObj i o hd).1
      exact ⟨by simp [ins, hii, hd], by simp [ins, hne, hz]⟩
    · intro g j hk; exact hnum g j (hb.knownOk g j hk)
    · intro t' g j hm; exact hnum g j (hb.resOk t' g j hm)
  · intro g j e
    cases e
    constructor
    · intro _; simp [ins]
    · exact k5

end Fbr.Conc
