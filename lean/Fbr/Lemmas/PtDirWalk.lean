/-
  Helper lemmas for C16: from one served request to the complete sequential walk.
-/
import Fbr.Lemmas.PtDirInv

namespace Fbr.Lemmas.PtDir
open Fbr.PtDir Fbr.Wire

/-! ### "." and ".." -/

theorem zeros_succ (n : Nat) : zeros (n + 1) = 0 :: zeros n := by simp [zeros, List.replicate]

/-- a record is filtered as "." / ".." exactly when its (NUL-free) name is one of the two -/
theorem isDot_name (e : HEnt) (hn : ∀ b ∈ e.name, b ≠ 0) (hd : isDot e = true) :
    e.name = [46] ∨ e.name = [46, 46] := by
  unfold isDot isDotName nameField at hd
  rcases hname : e.name with _ | ⟨a, _ | ⟨b, _ | ⟨c, r⟩⟩⟩
  · -- empty name: the area is all zeros
    rw [hname] at hd
    have : reclen e - HDR - ([] : Bytes).length = 5 := by simp [reclen, HDR, hname]
    rw [this] at hd
    simp [DOT, DOTDOT, zeros, List.replicate, List.isPrefixOf] at hd
  · rw [hname] at hd
    have : reclen e - HDR - [a].length = 4 := by simp [reclen, HDR, hname]
    rw [this] at hd
    simp [DOT, DOTDOT, zeros, List.replicate, List.isPrefixOf] at hd
    left; rw [hd]
  · rw [hname] at hd
    have hb : b ≠ 0 := hn b (by rw [hname]; simp)
    have : reclen e - HDR - [a, b].length = 3 := by simp [reclen, HDR, hname]
    rw [this] at hd
    simp [DOT, DOTDOT, zeros, List.replicate, List.isPrefixOf] at hd
    rcases hd with ⟨_, h0⟩ | ⟨h1, h2⟩
    · exact absurd h0.symm hb
    · right; rw [← h1, ← h2]
  · rw [hname] at hd
    have hb : b ≠ 0 := hn b (by rw [hname]; simp)
    have hc : c ≠ 0 := hn c (by rw [hname]; simp)
    simp [DOT, DOTDOT, List.isPrefixOf] at hd
    rcases hd with ⟨_, h0⟩ | ⟨_, _, h0⟩
    · exact absurd h0.symm hb
    · exact absurd h0.symm hc

theorem reclen_dot (e : HEnt) (hn : ∀ b ∈ e.name, b ≠ 0) (hd : isDot e = true) : reclen e = 24 := by
  rcases isDot_name e hn hd with h | h <;> simp [reclen, HDR, h]

theorem takeWhile_append_zeros (n : Bytes) (k : Nat) (hn : ∀ b ∈ n, b ≠ 0) :
    (n ++ zeros k).takeWhile (· != 0) = n := by
  induction n with
  | nil =>
    cases k with
    | zero => simp [zeros]
    | succ k => simp [zeros_succ, List.takeWhile]
  | cons a r ih =>
    have ha : a ≠ 0 := hn a (by simp)
    simp only [List.cons_append, List.takeWhile]
    have : (a != 0) = true := by simpa using ha
    simp only [this]
    rw [ih (fun b hb => hn b (by simp [hb]))]

theorem view_name (e : HEnt) (hn : ∀ b ∈ e.name, b ≠ 0) : (view e).name = e.name := by
  simp only [view, trimName, nameField]
  exact takeWhile_append_zeros _ _ hn

/-! ### non-dot records and accepted prefixes -/

theorem real_append (a b : Dir) : real (a ++ b) = real a ++ real b := by simp [real]

theorem real_dots (a : Dir) (h : a.all isDot = true) : real a = [] := by
  simp only [real, List.filter_eq_nil_iff]
  intro x hx
  have := List.all_eq_true.mp h x hx
  simp [this]

theorem real_ne_nil (b : Dir) (h : onlyDotsL b = false) : real b ≠ [] := by
  intro hr
  simp only [real, List.filter_eq_nil_iff] at hr
  have : b.all isDot = true := by
    apply List.all_eq_true.mpr
    intro x hx
    have := hr x hx
    simpa using this
  simp [onlyDotsL, this] at h

theorem accepted_prefix (size : Nat) (plus : Bool) (l : Dir) (w : Nat) : accepted size plus l w <+: l := by
  induction l generalizing w with
  | nil => simp [accepted]
  | cons e r ih =>
    simp only [accepted]
    split
    · exact List.nil_prefix
    · exact List.cons_prefix_cons.mpr ⟨rfl, ih _⟩

theorem accepted_ne_nil (size : Nat) (plus : Bool) (e : HEnt) (r : Dir)
    (h : fuseLen plus (view e).name.length ≤ size) : accepted size plus (e :: r) 0 ≠ [] := by
  simp only [accepted]
  rw [if_neg (by omega)]
  simp

/-- bytes accounted for a delivered prefix never exceed `size` -/
theorem accepted_within (size : Nat) (plus : Bool) (l : Dir) (w : Nat) (hw : w ≤ size) :
    w + ((accepted size plus l w).map (fun e => fuseLen plus (view e).name.length)).sum ≤ size := by
  induction l generalizing w with
  | nil => simp [accepted]; exact hw
  | cons e r ih =>
    simp only [accepted]
    split
    · simp; exact hw
    · rename_i hfit
      have := ih (w + fuseLen plus (view e).name.length) (by omega)
      simp only [List.map_cons, List.sum_cons]
      omega

/-- the place in `l` of the last record of a non-empty prefix `p` of its non-dot records -/
theorem split_at_real_prefix (l p : Dir) (hp : p <+: real l) (hne : p ≠ []) :
    ∃ A B e, l = A ++ e :: B ∧ p.getLast? = some e ∧ real B = (real l).drop p.length := by
  induction l generalizing p with
  | nil =>
    simp only [real, List.filter_nil, List.prefix_nil] at hp
    exact absurd hp hne
  | cons x xs ih =>
    by_cases hd : isDot x = true
    · have hr : real (x :: xs) = real xs := by simp [real, hd]
      rw [hr] at hp
      obtain ⟨A, B, e, h1, h2, h3⟩ := ih p hp hne
      exact ⟨x :: A, B, e, by simp [h1], h2, by rw [hr]; exact h3⟩
    · have hd' : isDot x = false := by simpa using hd
      have hr : real (x :: xs) = x :: real xs := by simp [real, hd']
      rw [hr] at hp
      cases p with
      | nil => exact absurd rfl hne
      | cons y ys =>
        obtain ⟨hxy, hys⟩ := List.cons_prefix_cons.mp hp
        subst hxy
        cases ys with
        | nil => exact ⟨[], xs, y, rfl, rfl, by rw [hr]; simp⟩
        | cons z zs =>
          obtain ⟨A, B, e, h1, h2, h3⟩ := ih (z :: zs) hys (by simp)
          refine ⟨y :: A, B, e, by simp [h1], ?_, ?_⟩
          · simpa [List.getLast?_cons_cons] using h2
          · rw [hr]; simpa using h3

theorem pos_skip {d : Dir} {c : Nat} {A B : Dir} {e : HEnt} (hp : Pos d c (A ++ e :: B)) : Pos d e.cookie B := by
  rcases hp with ⟨_, hr⟩ | ⟨pre, x, hd, _⟩
  · exact Or.inr ⟨A, e, hr.symm, rfl⟩
  · exact Or.inr ⟨pre ++ x :: A, e, by rw [hd]; simp, rfl⟩

theorem pos_sub {d : Dir} {c : Nat} {rest : Dir} (hp : Pos d c rest) : ∀ e ∈ rest, e ∈ d := by
  rcases hp with ⟨_, hr⟩ | ⟨pre, x, hd, _⟩
  · rw [hr]; exact fun _ h => h
  · intro e he; rw [hd]; simp [he]

/-- "the buffer can hold the next entry" gives what the fetch loop needs -/
theorem fits_of_next {d : Dir} (wf : WF d) {c : Nat} {rest : Dir} (hp : Pos d c rest) (size : Nat) (plus : Bool)
    (h24 : 24 ≤ size) (hnext : ∀ e r, real rest = e :: r → fuseLen plus e.name.length ≤ size) :
    Fits size rest := by
  intro pre e r hsplit hpre
  have hin : e ∈ d := pos_sub hp e (by rw [hsplit]; simp)
  have hn := wf.nonul e hin
  by_cases hd : isDot e = true
  · rw [reclen_dot e hn hd]; exact h24
  · have hd' : isDot e = false := by simpa using hd
    have hreal : real rest = e :: real r := by
      rw [hsplit, real_append, real_dots pre hpre]
      simp [real, hd']
    have := hnext e (real r) hreal
    have hle : reclen e ≤ fuseLen plus e.name.length := by
      unfold reclen fuseLen HDR
      split <;> omega
    omega

end Fbr.Lemmas.PtDir
