/-
  Helper lemmas for C04: content of a buffered FuseDevWriter — `write` appends to the buffer,
  leaves everything else alone; split header/data writers committed together.
-/
import Fbr.Lemmas.XportFuse
import Fbr.Lemmas.XportBytes

namespace Fbr.Xport

/-- the window `[base, base+cap)` lies inside the region -/
def FuseW.inMem (f : FuseW) (m : Mem) : Prop := f.base + f.cap ≤ (m.get f.region).length

theorem readSeg_ext (m m' : Mem) (s : Seg) (hl : s.off + s.len ≤ (m.get s.region).length)
    (hl' : s.off + s.len ≤ (m'.get s.region).length)
    (h : ∀ j, j < s.len → m'.byteAt (s.region, s.off + j) = m.byteAt (s.region, s.off + j)) :
    readSeg m' s = readSeg m s := by
  have i1 : InMem m (segAddrs s) := by
    intro a ha; rw [mem_segAddrs] at ha; rw [ha.1]; omega
  have i2 : InMem m' (segAddrs s) := by
    intro a ha; rw [mem_segAddrs] at ha; rw [ha.1]; omega
  rw [readSeg_eq_map _ _ i1, readSeg_eq_map _ _ i2]
  apply List.map_congr_left
  intro a ha
  rw [mem_segAddrs] at ha
  have := h (a.2 - s.off) (by omega)
  rw [show s.off + (a.2 - s.off) = a.2 by omega] at this
  have ea : a = (s.region, a.2) := by rw [← ha.1]
  rw [ea]; exact this

theorem segAddrs_split (r off a b : Nat) :
    segAddrs ⟨r, off, a + b⟩ = segAddrs ⟨r, off, a⟩ ++ segAddrs ⟨r, off + a, b⟩ := by
  apply List.ext_getElem
  · simp
  · intro j h1 h2
    simp only [length_segAddrs] at h1
    by_cases hj : j < a
    · rw [List.getElem_append_left (by simpa using hj)]
      simp [segAddrs]
    · rw [List.getElem_append_right (by simpa using Nat.le_of_not_lt hj)]
      simp [segAddrs]; omega

theorem map_byteAt_written (m : Mem) (r off : Nat) (d : Bytes) (h : off + d.length ≤ (m.get r).length) :
    (segAddrs ⟨r, off, d.length⟩).map (m.write r off d).byteAt = d := by
  apply List.ext_getElem
  · simp
  · intro j h1 h2
    simp only [List.getElem_map]
    have : (segAddrs ⟨r, off, d.length⟩)[j]'(by simpa using h2) = (r, off + j) := by simp [segAddrs]
    rw [this, byteAt_write _ _ _ _ h]
    have hc : ((r, off + j) : Addr).1 = r ∧ off ≤ ((r, off + j) : Addr).2 ∧ ((r, off + j) : Addr).2 < off + d.length :=
      ⟨rfl, Nat.le_add_right _ _, Nat.add_lt_add_left h2 _⟩
    simp only [hc, and_self, if_true]
    rw [List.getD_eq_getElem?_getD, show off + j - off = j by omega, List.getElem?_eq_getElem h2]; rfl

/-- a buffered `write` that fits: succeeds, appends `data` to the buffer, sends nothing to the
    descriptor, and changes no byte outside `[base+len, base+len+data.len)` -/
theorem fwrite_buffered (f : FuseW) (w : World) (data : Bytes) (hb : f.buffered = true) (hok : f.ok)
    (hfit : data.length ≤ f.cap - f.len) (hin : f.inMem w.mem) :
    (FuseW.write f w data).res = .ok data.length
      ∧ (FuseW.write f w data).f = { f with len := f.len + data.length }
      ∧ (FuseW.write f w data).f.slice (FuseW.write f w data).w.mem = f.slice w.mem ++ data
      ∧ (FuseW.write f w data).w.fd = w.fd
      ∧ (∀ x, ((FuseW.write f w data).w.mem.get x).length = (w.mem.get x).length)
      ∧ (∀ a : Addr, ¬ (a.1 = f.region ∧ f.base + f.len ≤ a.2 ∧ a.2 < f.base + f.len + data.length) →
          (FuseW.write f w data).w.mem.byteAt a = w.mem.byteAt a) := by
  unfold FuseW.ok at hok
  unfold FuseW.inMem at hin
  have hc : f.checkAvail data.length = .ok () := by
    unfold FuseW.checkAvail FuseW.availableBytes
    have h1 : ¬ ¬ (f.buffered = true ∨ f.len = 0) := by simp [hb]
    have h2 : ¬ f.len > f.cap := by omega
    have h3 : ¬ data.length > f.cap - f.len := by omega
    simp only [h1, h2, h3, if_false]
  have he : ¬ (f.len + data.length > f.cap) := by omega
  have hw : f.base + f.len + data.length ≤ (w.mem.get f.region).length := by omega
  unfold FuseW.write
  simp only [hc, hb, if_true, FuseW.extend, he, if_false]
  refine ⟨rfl, rfl, ?_, rfl, fun x => length_get_write _ _ _ _ hw x, ?_⟩
  · -- content
    simp only [FuseW.slice]
    have hlen := length_get_write w.mem f.region (f.base + f.len) data hw f.region
    have i2 : InMem (w.mem.write f.region (f.base + f.len) data)
        (segAddrs { region := f.region, off := f.base, len := f.len + data.length }) := by
      intro a ha; rw [mem_segAddrs] at ha; rw [ha.1, hlen]; simp only at ha; omega
    rw [readSeg_eq_map _ _ i2, segAddrs_split, List.map_append, map_byteAt_written _ _ _ _ hw]
    congr 1
    symm
    apply readSeg_ext
    · simp only; omega
    · simp only; rw [hlen]; omega
    · intro j hj
      simp only at hj
      rw [byteAt_write _ _ _ _ hw]
      have : ¬ (((f.region, f.base + j) : Addr).1 = f.region ∧ f.base + f.len ≤ ((f.region, f.base + j) : Addr).2
          ∧ ((f.region, f.base + j) : Addr).2 < f.base + f.len + data.length) := by
        simp only; omega
      simp only [this, if_false]
  · intro a ha
    rw [byteAt_write _ _ _ _ hw]
    simp only [ha, if_false]

end Fbr.Xport
