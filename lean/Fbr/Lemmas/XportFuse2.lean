/-
  Helper lemmas for C04: content of a buffered FuseDevWriter — `write` appends to the buffer,
  leaves everything else alone; split header/data writers committed together.
-/
import Fbr.Lemmas.XportFuse
import Fbr.Lemmas.XportBytes

namespace Fbr.Xport

/-- the window `[base, base+cap)` lies inside the region -/
def FuseW.inMem (f : FuseW) (m : Mem) : Prop := f.base + f.cap ≤ (m.get f.region).length

theorem readSeg_ext (m m' : Mem) (s : Seg) (hl : s.off + s.len ≤ (m.get s.region).length)
    (hl' : s.off + s.len ≤ (m'.get s.region).length)
    (h : ∀ j, j < s.len → m'.byteAt (s.region, s.off + j) = m.byteAt (s.region, s.off + j)) :
    readSeg m' s = readSeg m s := by
  have i1 : InMem m (segAddrs s) := by
    intro a ha; rw [mem_segAddrs] at ha; rw [ha.1]; omega
  have i2 : InMem m' (segAddrs s) := by
    intro a ha; rw [mem_segAddrs] at ha; rw [ha.1]; omega
  rw [readSeg_eq_map _ _ i1, readSeg_eq_map _ _ i2]
  apply List.map_congr_left
  intro a ha
  rw [mem_segAddrs] at ha
  have := h (a.2 - s.off) (by omega)
  rw [show s.off + (a.2 - s.off) = a.2 by omega] at this
  have ea : a = (s.region, a.2) := by rw [← ha.1]
  rw [ea]; exact this

theorem segAddrs_split (r off a b : Nat) :
    segAddrs ⟨r, off, a + b⟩ = segAddrs ⟨r, off, a⟩ ++ segAddrs ⟨r, off + a, b⟩ := by
  apply List.ext_getElem
  · simp
  · intro j h1 h2
    simp only [length_segAddrs] at h1
    by_cases hj : j < a
    · rw [List.getElem_append_left (by simpa using hj)]
      simp [segAddrs]
    · rw [List.getElem_append_right (by simpa using Nat.le_of_not_lt hj)]
      simp [segAddrs]; omega

theorem map_byteAt_written (m : Mem) (r off : Nat) (d : Bytes) (h : off + d.length ≤ (m.get r).length) :
    (segAddrs ⟨r, off, d.length⟩).map (m.write r off d).byteAt = d := by
  apply List.ext_getElem
  · simp
  · intro j h1 h2
    simp only [List.getElem_map]
    have : (segAddrs ⟨r, off, d.length⟩)[j]'(by simpa using h2) = (r, off + j) := by simp [segAddrs]
    rw [this, byteAt_write _ _ _ _ h]
    have hc : ((r, off + j) : Addr).1 = r ∧ off ≤ ((r, off + j) : Addr).2 ∧ ((r, off + j) : Addr).2 < off + d.length :=
      ⟨rfl, Nat.le_add_right _ _, Nat.add_lt_add_left h2 _⟩
    simp only [hc, and_self, if_true]
    rw [List.getD_eq_getElem?_getD, show off + j - off = j by omega, List.getElem?_eq_getElem h2]; rfl

/-- a buffered `write` that fits: succeeds, appends `data` to the buffer, sends nothing to the
    descriptor, and changes no byte outside `[base+len, base+len+data.len)` -/
theorem fwrite_buffered (f : FuseW) (w : World) (data : Bytes) (hb : f.buffered = true) (hok : f.ok)
    (hfit : data.length ≤ f.cap - f.len) (hin : f.inMem w.mem) :
    (FuseW.write f w data).res = .ok data.length
      ∧ (FuseW.write f w data).f = { f with len := f.len + data.length }
      ∧ (FuseW.write f w data).f.slice (FuseW.write f w data).w.mem = f.slice w.mem ++ data
      ∧ (FuseW.write f w data).w.fd = w.fd
      ∧ (∀ x, ((FuseW.write f w data).w.mem.get x).length = (w.mem.get x).length)
      ∧ (∀ a : Addr, ¬ (a.1 = f.region ∧ f.base + f.len ≤ a.2 ∧ a.2 < f.base + f.len + data.length) →
          (FuseW.write f w data).w.mem.byteAt a = w.mem.byteAt a) := by
  unfold FuseW.ok at hok
  unfold FuseW.inMem at hin
  have hc : f.checkAvail data.length = .ok () := by
    unfold FuseW.checkAvail FuseW.availableBytes
    have h1 : ¬ ¬ (f.buffered = true ∨ f.len = 0) := by simp [hb]
    have h2 : ¬ f.len > f.cap := by omega
    have h3 : ¬ data.length > f.cap - f.len := by omega
    simp only [h1, h2, h3, if_false]
  have he : ¬ (f.len + data.length > f.cap) := by omega
  have hw : f.base + f.len + data.length ≤ (w.mem.get f.region).length := by omega
  unfold FuseW.write
  simp only [hc, hb, if_true, FuseW.extend, he, if_false]
  refine ⟨by trivial, by trivial, ?_, by trivial, fun x => length_get_write _ _ _ _ hw x, ?_⟩
  · -- content
    simp only [FuseW.slice]
    have hlen := length_get_write w.mem f.region (f.base + f.len) data hw f.region
    have i2 : InMem (w.mem.write f.region (f.base + f.len) data)
        (segAddrs { region := f.region, off := f.base, len := f.len + data.length }) := by
      intro a ha; rw [mem_segAddrs] at ha; rw [ha.1, hlen]; simp only at ha; omega
    rw [readSeg_eq_map _ _ i2, segAddrs_split, List.map_append, map_byteAt_written _ _ _ _ hw]
    congr 1
    have i3 : InMem (w.mem.write f.region (f.base + f.len) data)
        (segAddrs { region := f.region, off := f.base, len := f.len }) := by
      intro a ha; rw [mem_segAddrs] at ha; rw [ha.1, hlen]; simp only at ha; omega
    rw [← readSeg_eq_map _ _ i3]
    apply readSeg_ext
    · simp only; omega
    · simp only; rw [hlen]; omega
    · intro j hj
      simp only at hj
      rw [byteAt_write _ _ _ _ hw]
      have : ¬ (True ∧ f.base + f.len ≤ f.base + j ∧ f.base + j < f.base + f.len + data.length) := by omega
      simp only [this, if_false]
  · intro a ha
    rw [byteAt_write _ _ _ _ hw]
    simp only [ha, if_false]

theorem fsplit_region (f a o : FuseW) (k : Nat) (h : f.splitAt k = .ok (a, o)) :
    a.region = f.region ∧ o.region = f.region := by
  unfold FuseW.splitAt at h
  by_cases hk : f.cap < k
  · simp [hk] at h
  · simp only [hk, if_false] at h
    split at h <;> (simp only [Except.ok.injEq, Prod.mk.injEq] at h; obtain ⟨rfl, rfl⟩ := h; exact ⟨rfl, rfl⟩)

theorem slice_len_zero (f : FuseW) (m : Mem) (h : f.len = 0) : f.slice m = [] := by
  simp [FuseW.slice, readSeg, h]

/-- a fresh writer split at `k`; data written to the second part, then the header to the first;
    `commit` sends exactly one record `header ++ data` -/
theorem fuse_split_commit (f a o : FuseW) (w : World) (k : Nat) (hdr data : Bytes)
    (hnew : f.len = 0) (hin : f.inMem w.mem) (hs : f.splitAt k = .ok (a, o))
    (hh : hdr.length ≤ k) (hd : data.length ≤ f.cap - k) :
    (FuseW.write o w data).res = .ok data.length
    ∧ (FuseW.write a (FuseW.write o w data).w hdr).res = .ok hdr.length
    ∧ (FuseW.commit (FuseW.write a (FuseW.write o w data).w hdr).f (FuseW.write a (FuseW.write o w data).w hdr).w
          (some (FuseW.write o w data).f)).1 = .ok (hdr ++ data).length
    ∧ (FuseW.commit (FuseW.write a (FuseW.write o w data).w hdr).f (FuseW.write a (FuseW.write o w data).w hdr).w
          (some (FuseW.write o w data).f)).2.fd = (if (hdr ++ data).isEmpty then w.fd else w.fd ++ [hdr ++ data]) := by
  have hfok : f.ok := by unfold FuseW.ok; omega
  obtain ⟨aok, ook, hcap, hab, hob, hlen, habuf, hobuf, hk, hak⟩ := fsplit_ok f a o k hfok hs
  obtain ⟨har, hor⟩ := fsplit_region f a o k hs
  unfold FuseW.inMem at hin
  have hal : a.len = 0 := by omega
  have hol : o.len = 0 := by omega
  have hoin : o.inMem w.mem := by unfold FuseW.inMem; rw [hor, hob]; omega
  obtain ⟨r1, f1, s1, d1, l1, fr1⟩ := fwrite_buffered o w data hobuf ook (by omega) hoin
  have hain : a.inMem (FuseW.write o w data).w.mem := by unfold FuseW.inMem; rw [l1, har, hab]; omega
  obtain ⟨r2, f2, s2, d2, l2, fr2⟩ := fwrite_buffered a (FuseW.write o w data).w hdr habuf aok (by omega) hain
  have hb2 : (FuseW.write a (FuseW.write o w data).w hdr).f.buffered = true := by rw [f2]; exact habuf
  obtain ⟨r, hr, c1, c2, _⟩ := fcommit_spec (FuseW.write a (FuseW.write o w data).w hdr).f
    (FuseW.write a (FuseW.write o w data).w hdr).w (some (FuseW.write o w data).f) hb2
  simp only at hr
  -- the data part is untouched by the header write
  have hkeep : (FuseW.write o w data).f.slice (FuseW.write a (FuseW.write o w data).w hdr).w.mem
      = (FuseW.write o w data).f.slice (FuseW.write o w data).w.mem := by
    simp only [FuseW.slice]
    rw [f1]
    apply readSeg_ext
    · simp only; rw [l1, hor, hob]; omega
    · simp only; rw [l2, l1, hor, hob]; omega
    · intro j hj
      simp only at hj ⊢
      apply fr2
      simp only [har, hor, hab, hob, hal]
      omega
  rw [s2, slice_len_zero a _ hal, hkeep, s1, slice_len_zero o _ hol, List.nil_append, List.nil_append] at hr
  subst hr
  refine ⟨r1, r2, c1, ?_⟩
  rw [c2, d2, d1]

end Fbr.Xport
