/-
  Fbr.Lemmas.PtHostBits — bit-level facts about `clr` / `|||` on flag words (all naturals), and
  `Prog.runFn` over the request monad.
-/
import Fbr.Host
import Fbr.PtHost

namespace Fbr.PtHost
open Fbr.Host

theorem clr_testBit (x m i : Nat) : (clr x m).testBit i = (x.testBit i && !m.testBit i) := by
  unfold clr
  simp only [Nat.testBit_xor, Nat.testBit_and]
  cases x.testBit i <;> cases m.testBit i <;> rfl

theorem clr_pow_self (x k : Nat) : (clr x (2 ^ k)).testBit k = false := by
  rw [clr_testBit, Nat.testBit_two_pow_self]; simp

theorem clr_pow_other (x k i : Nat) (h : i ≠ k) : (clr x (2 ^ k)).testBit i = x.testBit i := by
  rw [clr_testBit, Nat.testBit_two_pow]
  have : ¬ k = i := fun e => h e.symm
  simp [this]

theorem or_pow_self (x k : Nat) : (x ||| 2 ^ k).testBit k = true := by
  simp [Nat.testBit_or, Nat.testBit_two_pow_self]

theorem or_pow_other (x k i : Nat) (h : i ≠ k) : (x ||| 2 ^ k).testBit i = x.testBit i := by
  have : ¬ k = i := fun e => h e.symm
  simp [Nat.testBit_or, Nat.testBit_two_pow, this]

theorem has_pow (x k : Nat) : has x (2 ^ k) = x.testBit k := by
  unfold has
  cases h : x.testBit k
  · have : x &&& 2 ^ k = 0 := by
      apply Nat.eq_of_testBit_eq
      intro i
      rw [Nat.testBit_and, Nat.testBit_two_pow, Nat.zero_testBit]
      by_cases e : k = i
      · subst e; simp [h]
      · simp [e]
    simp [this]
  · have : (x &&& 2 ^ k).testBit k = true := by simp [Nat.testBit_and, h, Nat.testBit_two_pow_self]
    have : x &&& 2 ^ k ≠ 0 := by intro h0; simp [h0] at this
    simpa using this

/-! ### `runFn` over the request monad -/

variable {α β : Type}

def callsOf (ans : HCall → HAns) (m : M α) (st : PtState) : List HCall := ((m st).runFn ans).2
def resOf (ans : HCall → HAns) (m : M α) (st : PtState) : Except Nat α × PtState := ((m st).runFn ans).1

theorem runFn_bind (ans : HCall → HAns) (p : Prog α) (f : α → Prog β) :
    (p.bind f).runFn ans = (((f (p.runFn ans).1).runFn ans).1, (p.runFn ans).2 ++ ((f (p.runFn ans).1).runFn ans).2) := by
  induction p with
  | pure a => simp [Prog.bind, Prog.runFn]
  | call c k ih => simp [Prog.bind, Prog.runFn, ih]

theorem callsOf_bind (ans : HCall → HAns) (m : M α) (f : α → M β) (st : PtState) :
    callsOf ans (m >>= f) st =
      callsOf ans m st ++ (match (resOf ans m st).1 with
        | .ok a => callsOf ans (f a) (resOf ans m st).2
        | .error _ => []) := by
  show ((M.bind' m f st).runFn ans).2 = _
  unfold M.bind'
  rw [runFn_bind]
  simp only [callsOf, resOf]
  cases h : ((m st).runFn ans).1.1 <;> simp [Prog.runFn]

theorem resOf_bind (ans : HCall → HAns) (m : M α) (f : α → M β) (st : PtState) :
    resOf ans (m >>= f) st =
      (match (resOf ans m st).1 with
        | .ok a => resOf ans (f a) (resOf ans m st).2
        | .error e => (.error e, (resOf ans m st).2)) := by
  show ((M.bind' m f st).runFn ans).1 = _
  unfold M.bind'
  rw [runFn_bind]
  simp only [resOf]
  cases h : ((m st).runFn ans).1.1 <;> simp [Prog.runFn]

end Fbr.PtHost
