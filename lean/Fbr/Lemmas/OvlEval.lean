/-
  Exact evaluation of the monadic primitives of Fbr.Ovl in known situations (used to compute the
  state a composite function ends in).
-/
import Fbr.Ovl

namespace Fbr.Ovl

theorem bind_ok {α β : Type} {f : M α} {g : α → M β} {s s1 : St} {a : α} (h : f s = .ok a s1) :
    (f >>= g) s = g a s1 := by
  show M.bind f g s = _
  unfold M.bind; rw [h]

theorem bind_err {α β : Type} {f : M α} {g : α → M β} {s s1 : St} {e : Nat} (h : f s = .err e s1) :
    (f >>= g) s = .err e s1 := by
  show M.bind f g s = _
  unfold M.bind; rw [h]

theorem pure_eval {α : Type} (a : α) (s : St) : (pure a : M α) s = .ok a s := rfl

theorem getNode_ok {s : St} {p : Path} {m : MNode} (h : s.mem p = some m) : getNode p s = .ok m s := by
  simp [getNode, h]

theorem getNode_err {s : St} {p : Path} (h : s.mem p = none) : getNode p s = .err ENOENT s := by
  simp [getNode, h]

theorem getSt_eval (s : St) : getSt s = .ok s s := rfl

theorem freshId_eval (s : St) : freshId s = .ok s.nextId { s with nextId := s.nextId + 1 } := rfl

theorem hasUpper_eval (s : St) : hasUpper s = .ok s.disk.upper.isSome s := rfl

theorem whenM_true {f : M Unit} : whenM true f = f := rfl
theorem whenM_false {f : M Unit} : whenM false f = pure () := rfl

theorem layerCall_ok {s : St} {i : Nat} {L L' : Layer} (m : Method) {f : Layer → Except Nat Layer}
    (hL : s.disk.layer i = some L) (hf : f L = .ok L') :
    layerCall i m f s = .ok () { s with disk := s.disk.setLayer i L', log := s.log ++ [⟨i, m⟩] } := by
  simp [layerCall, hL, hf]

theorem layerCall_err {s : St} {i : Nat} {L : Layer} (m : Method) {f : Layer → Except Nat Layer} {e : Nat}
    (hL : s.disk.layer i = some L) (hf : f L = .error e) :
    layerCall i m f s = .err e { s with log := s.log ++ [⟨i, m⟩] } := by
  simp [layerCall, hL, hf]

theorem mkNode_ok {s : St} {r : Real} {L L' : Layer} (meth : Method) (n : Name) (X : Node)
    (hu : r.inUpper = true) (hL : s.disk.layer r.layer = some L) (hf : hMk L r.path n X = .ok L') :
    r.mkNode meth n X s =
      .ok (childReal r n) { s with disk := s.disk.setLayer r.layer L', log := s.log ++ [⟨r.layer, meth⟩] } := by
  simp only [Real.mkNode, hu, Bool.not_true, Bool.false_eq_true, if_false]
  rw [bind_ok (layerCall_ok meth hL hf)]
  rfl

/-- the node after `add_upper_inode(ri, clear_lowers)` -/
def addUpperNode (m : MNode) (ri : Real) (b : Bool) : MNode :=
  { m with whiteout := ri.whiteout, reals := if b then [ri] else ri :: m.reals }

def St.setNode (s : St) (p : Path) (m : MNode) : St := { s with mem := s.mem.set p (some m) }

theorem addUpperInode_ok {s : St} {p : Path} {m : MNode} (ri : Real) (b : Bool) (h : s.mem p = some m) :
    addUpperInode p ri b s = .ok () (s.setNode p (addUpperNode m ri b)) := by
  unfold addUpperInode
  rw [bind_ok (getNode_ok h)]
  rfl

theorem getUpperReal_ok {s : St} {p : Path} {m : MNode} {r : Real} (h : s.mem p = some m)
    (hr : m.upperReal = some r) : getUpperReal p s = .ok r s := by
  unfold getUpperReal
  rw [bind_ok (getNode_ok h)]
  simp [hr, pure_eval]

theorem upperReal_of_inUpper {m : MNode} (h : m.inUpper = true) :
    ∃ r rest, m.reals = r :: rest ∧ r.inUpper = true ∧ m.upperReal = some r := by
  cases hr : m.reals with
  | nil => simp [MNode.inUpper, hr] at h
  | cons r rest =>
    have : r.inUpper = true := by simpa [MNode.inUpper, hr] using h
    exact ⟨r, rest, rfl, this, by simp [MNode.upperReal, hr, this]⟩

/-! ### the same, hiding the resulting state behind its disk and forest -/

theorem layerCall_ok' {s : St} {i : Nat} {L L' : Layer} (m : Method) {f : Layer → Except Nat Layer}
    (hL : s.disk.layer i = some L) (hf : f L = .ok L') :
    ∃ s', layerCall i m f s = .ok () s' ∧ s'.disk = s.disk.setLayer i L' ∧ s'.mem = s.mem :=
  ⟨_, layerCall_ok m hL hf, rfl, rfl⟩

theorem mkNode_ok' {s : St} {r : Real} {L L' : Layer} (meth : Method) (n : Name) (X : Node)
    (hu : r.inUpper = true) (hL : s.disk.layer r.layer = some L) (hf : hMk L r.path n X = .ok L') :
    ∃ s', r.mkNode meth n X s = .ok (childReal r n) s' ∧ s'.disk = s.disk.setLayer r.layer L' ∧ s'.mem = s.mem :=
  ⟨_, mkNode_ok meth n X hu hL hf, rfl, rfl⟩

theorem addUpperInode_ok' {s : St} {p : Path} {m : MNode} (ri : Real) (b : Bool) (h : s.mem p = some m) :
    ∃ s', addUpperInode p ri b s = .ok () s' ∧ s'.disk = s.disk ∧
      s'.mem = s.mem.set p (some (addUpperNode m ri b)) :=
  ⟨_, addUpperInode_ok ri b h, rfl, rfl⟩

theorem freshId_ok' (s : St) : ∃ s', freshId s = .ok s.nextId s' ∧ s'.disk = s.disk ∧ s'.mem = s.mem :=
  ⟨_, rfl, rfl, rfl⟩

theorem mkNode_err' {s : St} {r : Real} {L : Layer} (meth : Method) (n : Name) (X : Node) {e : Nat}
    (hu : r.inUpper = true) (hL : s.disk.layer r.layer = some L) (hf : hMk L r.path n X = .error e) :
    ∃ s', r.mkNode meth n X s = .err e s' ∧ s'.disk = s.disk ∧ s'.mem = s.mem := by
  refine ⟨{ s with log := s.log ++ [⟨r.layer, meth⟩] }, ?_, rfl, rfl⟩
  simp only [Real.mkNode, hu, Bool.not_true, Bool.false_eq_true, if_false]
  rw [bind_err (layerCall_err meth hL hf)]

theorem tryDeleteWhiteout_ok' {s : St} {pr : Real} {L L' : Layer} (n : Name)
    (hL : s.disk.layer pr.layer = some L) (hf : hDeleteWhiteout L pr.path n = .ok L') :
    ∃ s', tryDeleteWhiteout pr n s = .ok () s' ∧ s'.disk = s.disk.setLayer pr.layer L' ∧ s'.mem = s.mem := by
  obtain ⟨s', h1, h2, h3⟩ := layerCall_ok' (f := fun L => hDeleteWhiteout L pr.path n) Method.deleteWhiteout hL hf
  refine ⟨s', ?_, h2, h3⟩
  unfold tryDeleteWhiteout ignoreErr
  rw [h1]

/-- the forest after `insert_child(pp, n, m)` -/
def insertedMem (mem : Mem) (n : Name) (pp : Path) (pm m' : MNode) : Mem :=
  ((removeSubtree mem (n :: pp)).set (n :: pp) (some m')).set pp (some { pm with kids := addNames pm.kids [n] })

theorem insertChild_ok' {s : St} {pp : Path} {pm : MNode} (n : Name) (m : MNode) (h : s.mem pp = some pm) :
    ∃ s', insertChild pp n m s = .ok () s' ∧ s'.disk = s.disk ∧ s'.mem = insertedMem s.mem n pp pm m := by
  unfold insertChild
  rw [bind_ok (getNode_ok h)]
  exact ⟨_, rfl, rfl, rfl⟩

/-- the forest after `remove_child(pp, n)` -/
def removedMem (mem : Mem) (n : Name) (pp : Path) (pm : MNode) : Mem :=
  (removeSubtree mem (n :: pp)).set pp (some { pm with kids := pm.kids.filter (· != n) })

theorem removeChild_ok' {s : St} {pp : Path} {pm : MNode} (n : Name) (h : s.mem pp = some pm) :
    ∃ s', removeChild pp n s = .ok () s' ∧ s'.disk = s.disk ∧ s'.mem = removedMem s.mem n pp pm := by
  unfold removeChild
  rw [bind_ok (getNode_ok h)]
  exact ⟨_, rfl, rfl, rfl⟩

end Fbr.Ovl
