/-
  Fbr.Lemmas.HostRefOwner — the reference host FS satisfies the creation laws `OwnerLaws`
  (Fbr.Lemmas.PtHostOwner): only mkdirat / mknodat / symlinkat / openat(O_CREAT) bring an inode
  into existence, and a new inode carries the creating thread's effective uid and its effective
  gid — or the directory's group when the directory is set-gid.
-/
import Fbr.Lemmas.PtHostOwner
import Fbr.Lemmas.HostRefGood

namespace Fbr.Host.Ref

/-- no inode comes into existence -/
def NoNewN (s s' : State) : Prop := ∀ o, s.nodes o = none → s'.nodes o = none

theorem nn_refl (s : State) : NoNewN s s := fun _ h => h

theorem nn_setNode {s s1 : State} (h : NoNewN s s1) (x : Obj) (n' : Node) (hx : s1.nodes x ≠ none) :
    NoNewN s (setNode s1 x n') := by
  intro o ho
  simp only [setNode]
  split
  · rename_i e; subst e; exact absurd (h o ho) hx
  · exact h o ho

theorem nn_modNode {s s1 : State} (h : NoNewN s s1) (x : Obj) (f : Node → Node) : NoNewN s (modNode s1 x f) := by
  unfold modNode
  split
  · rename_i n hn; exact nn_setNode h x _ (by rw [hn]; simp)
  · exact h

theorem nn_newFd {s s1 : State} (h : NoNewN s s1) (o : Obj) (fl : Nat) : NoNewN s (newFd s1 o fl).2 := h

theorem nn_openObj {s s1 : State} (h : NoNewN s s1) (o : Obj) (fl : Nat) : NoNewN s (openObj s1 o fl).2 := by
  unfold openObj
  split
  · exact h
  · rename_i n hn
    split
    · exact h
    · split
      · exact nn_newFd (nn_setNode h o _ (by rw [hn]; simp)) o fl
      · exact nn_newFd h o fl

theorem nn_setTimes (s : State) (o : Obj) (a b c d : Nat) : NoNewN s (setTimes s o a b c d).2 := by
  unfold setTimes
  split
  · exact nn_refl s
  · rename_i n hn; exact nn_setNode (nn_refl s) o _ (by rw [hn]; simp)

theorem nn_chmodObj (s : State) (o : Obj) (m : Nat) : NoNewN s (chmodObj s o m).2 := by
  unfold chmodObj
  split
  · exact nn_refl s
  · rename_i n hn
    split
    · exact nn_refl s
    · exact nn_setNode (nn_refl s) o _ (by rw [hn]; simp)

theorem nn_renameApply (s : State) (a b : Obj) (x y : Name) (c : Obj) (cn : Node) (t : Option Obj) :
    NoNewN s (renameApply s a b x y c cn t) := by
  unfold renameApply
  have h1 : NoNewN s (match t with
      | some t => modNode s t (fun tn => { tn with nlink := if tn.kind == .dir then 0 else tn.nlink - 1 })
      | none => s) := by
    cases t
    · exact nn_refl s
    · exact nn_modNode (nn_refl s) _ _
  have h2 := nn_modNode h1 a (fun n => removeEntry n x)
  have h3 := nn_modNode h2 b (fun n => { removeEntry n y with entries := (y, c) :: (removeEntry n y).entries })
  dsimp only
  split
  · exact nn_modNode h3 _ _
  · exact h3

/-- a state whose inode map is that of `s` -/
theorem nn_of_nodes {s s' : State} (h : s'.nodes = s.nodes) : NoNewN s s' := fun o ho => by rw [h]; exact ho

macro "nn_leaf" : tactic =>
  `(tactic| first
    | exact nn_refl _
    | exact nn_newFd (nn_refl _) _ _
    | exact nn_openObj (nn_refl _) _ _
    | exact nn_setTimes _ _ _ _ _ _
    | exact nn_chmodObj _ _ _
    | exact nn_renameApply _ _ _ _ _ _ _ _
    | exact nn_of_nodes rfl
    | (refine nn_setNode (nn_refl _) _ _ ?_; simp [*]))

/-- **only creating calls create** -/
theorem stepCore_noNew (s : State) (c : HCall) (hc : c.creates = false) : NoNewN s (stepCore s c).2 := by
  cases c
  case openat d n fl m =>
    have h1 : has fl O_CREAT = false := hc
    simp only [stepCore, h1, Bool.false_and, Bool.false_eq_true, if_false]
    repeat' split
    all_goals nn_leaf
  case mkdirat => cases hc
  case mknodat => cases hc
  case symlinkat => cases hc
  case linkat f on nf n fl =>
    simp only [stepCore]
    split
    · rename_i o d ho hd
      split
      · nn_leaf
      rename_i nn hnn
      split
      · nn_leaf
      split
      · nn_leaf
      rename_i dn hchk
      have hdn := createCheck_node s d n dn hchk
      split
      · nn_leaf
      · refine nn_setNode (nn_setNode (nn_refl s) o _ (by rw [hnn]; simp)) d _ ?_
        simp only [setNode]; split <;> simp [hdn]
    · nn_leaf
  case unlinkat f n fl =>
    simp only [stepCore]
    split
    · nn_leaf
    rename_i d hd
    split
    · nn_leaf
    rename_i dn hdn
    repeat' split
    all_goals first
      | nn_leaf
      | (rename_i cn hcn _ _ _
         refine nn_setNode (nn_setNode (nn_refl s) _ _ (by rw [hcn]; simp)) d _ ?_
         simp only [setNode]; split <;> simp [hdn])
      | (rename_i cn hcn _ _
         refine nn_setNode (nn_setNode (nn_refl s) _ _ (by rw [hcn]; simp)) d _ ?_
         simp only [setNode]; split <;> simp [hdn])
  all_goals
    simp only [stepCore]
    repeat' split
    all_goals nn_leaf

/-- the inode `createIn` adds belongs to the creating thread (group: the set-gid directory's) -/
theorem createIn_new (s : State) (d : Obj) (dn : Node) (name : Name) (k : Kind) (perm rdev : Nat) (data : List UInt8)
    (hdn : s.nodes d = some dn) (o : Obj) (n : Node) (h0 : s.nodes o = none)
    (h1 : (createIn s d dn name k perm rdev data).1.nodes o = some n) :
    n.uid = s.creds.euid ∧ n.gid = (if has dn.perm S_ISGID then dn.gid else s.creds.egid) := by
  simp only [createIn, setNode] at h1
  split at h1
  · rename_i e; subst e; rw [hdn] at h0; cases h0
  · split at h1
    · cases h1; exact ⟨rfl, rfl⟩
    · rw [h0] at h1; cases h1

open Fbr.PtHost in
theorem gidOk_of_createIn (sent : Obj → Bool) (root : Obj) (s : State) (c : HCall) (dfd : Fd) (d : Obj) (dn : Node) (n : Node)
    (hc : c.dirFd = some dfd) (hd : fdObj s dfd = some d) (hdn : s.nodes d = some dn)
    (hg : n.gid = (if has dn.perm S_ISGID then dn.gid else s.creds.egid)) :
    GidOk (ops sent root) s c s.creds.egid n := by
  by_cases hs : has dn.perm S_ISGID = true
  · right
    rw [if_pos hs] at hg
    exact ⟨dfd, d, dn, hc, hd, hdn, hs, hg⟩
  · left
    rw [if_neg hs] at hg
    exact hg

open Fbr.PtHost in
/-- **a new inode belongs to the creating thread** -/
theorem stepCore_newOwner (sent : Obj → Bool) (root : Obj) (s : State) (c : HCall) (o : Obj) (n : Node)
    (h0 : s.nodes o = none) (h1 : (stepCore s c).2.nodes o = some n) :
    n.uid = s.creds.euid ∧ GidOk (ops sent root) s c s.creds.egid n := by
  cases hcr : c.creates with
  | false =>
    have := stepCore_noNew s c hcr o h0
    rw [this] at h1; cases h1
  | true =>
    cases c <;> first | (cases hcr; done) | skip
    case openat dfd name fl m =>
      simp only [stepCore] at h1
      split at h1
      · rw [h0] at h1; cases h1
      rename_i d hd
      split at h1
      · split at h1
        · rw [h0] at h1; cases h1
        · rename_i dn hchk
          have hdn := createCheck_node s d name dn hchk
          have h2 : (createIn s d dn name .reg (m &&& 4095) 0 []).1.nodes o = some n := h1
          have := createIn_new s d dn name .reg (m &&& 4095) 0 [] hdn o n h0 h2
          exact ⟨this.1, gidOk_of_createIn sent root s _ dfd d dn n rfl hd hdn this.2⟩
      · -- without O_EXCL the reference FS only opens what exists
        exfalso
        split at h1
        · rw [h0] at h1; cases h1
        · split at h1
          · rename_i o' _ _
            have : (newFd s o' fl).2.nodes o = none := h0
            rw [this] at h1; cases h1
          · rename_i o' _ _
            have := nn_openObj (nn_refl s) o' fl o h0
            rw [this] at h1; cases h1
    case mkdirat dfd name m =>
      simp only [stepCore] at h1
      split at h1
      · rw [h0] at h1; cases h1
      rename_i d hd
      split at h1
      · rw [h0] at h1; cases h1
      · rename_i dn hchk
        have hdn := createCheck_node s d name dn hchk
        have := createIn_new s d dn name .dir _ 0 [] hdn o n h0 h1
        exact ⟨this.1, gidOk_of_createIn sent root s _ dfd d dn n rfl hd hdn this.2⟩
    case mknodat dfd name m r =>
      simp only [stepCore] at h1
      split at h1
      · rw [h0] at h1; cases h1
      rename_i d hd
      split at h1
      · rw [h0] at h1; cases h1
      split at h1
      · rw [h0] at h1; cases h1
      split at h1
      · rw [h0] at h1; cases h1
      · rename_i dn hchk
        have hdn := createCheck_node s d name dn hchk
        have := createIn_new s d dn name _ _ _ [] hdn o n h0 h1
        exact ⟨this.1, gidOk_of_createIn sent root s _ dfd d dn n rfl hd hdn this.2⟩
    case symlinkat t dfd name =>
      simp only [stepCore] at h1
      split at h1
      · rw [h0] at h1; cases h1
      rename_i d hd
      split at h1
      · rw [h0] at h1; cases h1
      split at h1
      · rw [h0] at h1; cases h1
      · rename_i dn hchk
        have hdn := createCheck_node s d name dn hchk
        have := createIn_new s d dn name .lnk 511 0 t hdn o n h0 h1
        exact ⟨this.1, gidOk_of_createIn sent root s _ dfd d dn n rfl hd hdn this.2⟩

/-- the reference FS satisfies the creation laws -/
instance ownerLaws (sent : Obj → Bool) (root : Obj) : Fbr.PtHost.OwnerLaws (ops sent root) where
  new_only := by
    intro s c o hc h0
    show (step s c).2.nodes o = none
    rw [step_nodes]
    exact stepCore_noNew s c hc o h0
  new_owner := by
    intro s c o n h0 h1
    have h1' : (stepCore s c).2.nodes o = some n := by
      have : (step s c).2.nodes o = some n := h1
      rw [step_nodes] at this; exact this
    exact stepCore_newOwner sent root s c o n h0 h1'

end Fbr.Host.Ref
