/-
  What the creating operations leave at the target path (for `op_refines_plain_fs`): after a
  successful create / mkdir / mknod / symlink LOOKUP of the new name answers the new entry, and
  a new directory is empty whatever the lower layers have at that path.
-/
import Fbr.Ovl
import Fbr.Lemmas.OvlHoare
import Fbr.Lemmas.OvlSim
import Fbr.Lemmas.OvlSimLookup
import Fbr.Lemmas.OvlSimRO
import Fbr.Lemmas.OvlEval
import Fbr.Lemmas.OvlOps
import Fbr.Lemmas.OvlCreate
import Fbr.Lemmas.OvlRm

namespace Fbr.Ovl

/-- a function that keeps the cache valid and the disk unchanged keeps every fact about the disk -/
theorem Triple.keepDisk {α : Type} {f : M α} (h : ∀ d, Triple (CD d) f (fun _ => CD d) (CD d)) (F : Disk → Prop) :
    Triple (fun s => Consistent s ∧ F s.disk) f (fun _ s => Consistent s ∧ F s.disk) Consistent := by
  intro s ⟨hc, hF⟩
  have := h s.disk s ⟨hc, rfl⟩
  refine ⟨fun a s' hf => ?_, fun e s' hf => (this.2 e s' hf).1⟩
  obtain ⟨hc', hd'⟩ := this.1 a s' hf
  exact ⟨hc', by rw [hd']; exact hF⟩

/-- the same when the error outcome carries the fact too -/
theorem Triple.keepDisk' {α : Type} {f : M α} (h : ∀ d, Triple (CD d) f (fun _ => CD d) (CD d)) (F : Disk → Prop) :
    Triple (fun s => Consistent s ∧ F s.disk) f (fun _ s => Consistent s ∧ F s.disk)
      (fun s => Consistent s ∧ F s.disk) := by
  intro s ⟨hc, hF⟩
  have := h s.disk s ⟨hc, rfl⟩
  refine ⟨fun a s' hf => ?_, fun e s' hf => ?_⟩
  · obtain ⟨hc', hd'⟩ := this.1 a s' hf
    exact ⟨hc', by rw [hd']; exact hF⟩
  · obtain ⟨hc', hd'⟩ := this.2 e s' hf
    exact ⟨hc', by rw [hd']; exact hF⟩

/-- nothing is visible below a path at which nothing is visible -/
theorem merge_none_below (d : Disk) (hr : d.RootsOK) (p : Path) (h : specStat d p = none) (q : List Name) :
    merge d (q ++ p) = .none := by
  rw [merge_eq_specStat d hr, specStat_none_below d p h q]
  rfl

/-- what a creating operation leaves at the path `q` (leaf first) -/
def Created (isMkdir : Bool) (X : Node) (q : Path) (d : Disk) : Prop :=
  (∃ X', specStat d q = some X' ∧ X'.view = X.view) ∧ (isMkdir = true → ∀ c, specStat d (c :: q) = none)

theorem doCreateLike_eff (pp : Path) (n : Name) (isMkdir : Bool) (meth : Method) (X : Node)
    (hX : NewEntry isMkdir X) :
    Triple (fun s => Consistent s ∧ ∃ pm, s.mem pp = some pm ∧ pm.loaded = true)
      (doCreateLike pp n isMkdir (mkChildOf meth n X))
      (fun _ s => Consistent s ∧ Created isMkdir X (n :: pp) s.disk) Consistent := by
  apply Triple.ofOutcome
  intro s ⟨hc, pm, hpm, hlo⟩
  have := doCreateLike_spec pp n isMkdir meth X hX s hc hpm hlo
  cases hres : doCreateLike pp n isMkdir (mkChildOf meth n X) s with
  | ok u s' => rw [hres] at this; exact ⟨this.1, this.2.2.1, this.2.2.2.1⟩
  | err e s' => rw [hres] at this; exact this.1

/-- the frame of `doCreateLike`: whether it succeeds or fails, the union outside the subtree at the
    new name is what it was, up to xattrs (of parent directories that had to be copied up) -/
theorem doCreateLike_frame (d : Disk) (pp : Path) (n : Name) (isMkdir : Bool) (meth : Method) (X : Node)
    (hX : NewEntry isMkdir X) :
    Triple (fun s => (CD d s ∧ DirAt pp s) ∧ ∃ pm, s.mem pp = some pm ∧ pm.loaded = true)
      (doCreateLike pp n isMkdir (mkChildOf meth n X))
      (fun _ s => Consistent s ∧ FrameD d s.disk (n :: pp)) (fun s => Consistent s ∧ FrameD d s.disk (n :: pp)) := by
  apply Triple.ofOutcome
  intro s ⟨⟨⟨hc, hd⟩, st, hsp, hdir, _⟩, pm, hpm, hlo⟩
  have hdn : DirNode pp s := by
    intro m0 r0 rest0 hm0 hr0
    obtain ⟨_, r, rest, hr, hst⟩ := not_whiteout_of_spec hc hm0 hsp
    rw [hr0] at hr; cases hr
    rw [hst]; exact hdir
  have := doCreateLike_spec pp n isMkdir meth X hX s hc hpm hlo
  cases hres : doCreateLike pp n isMkdir (mkChildOf meth n X) s with
  | ok u s' =>
    rw [hres] at this
    exact ⟨this.1, fun q hq => by rw [← hd]; exact this.2.2.2.2 hdn q hq⟩
  | err e s' =>
    rw [hres] at this
    exact ⟨this.1, fun q _ => by rw [← hd]; exact this.2 hdn q⟩

theorem createOp_eff (p : List Name) (isMkdir : Bool) (meth : Method) (X : Node) (hX : NewEntry isMkdir X) :
    Triple Consistent (do
      let (pp, n) ← resolveParent p
      let _ ← lookupSelf pp
      doCreateLike pp n isMkdir (mkChildOf meth n X)
      let _ ← doLookup pp n
      pure Reply.done) (fun _ s => Consistent s ∧ Created isMkdir X p.reverse s.disk) Consistent := by
  refine Triple.bind (resolveParent_spec' p) fun r => Triple.pure_pre fun hpath => ?_
  obtain ⟨pp, n⟩ := r
  simp only at hpath
  refine Triple.bind (lookupSelf_ready pp) fun _ => ?_
  refine Triple.bind (doCreateLike_eff pp n isMkdir meth X hX) fun _ => ?_
  rw [← hpath]
  refine Triple.bind (Triple.keepDisk (fun d => doLookup_ro (loadDirectory_cd d) pp n) _) fun _ => ?_
  exact Triple.pure' fun _ h => h

theorem runOp_mkdir_eff (p : List Name) (mode : Nat) :
    Triple Consistent (runOp (.mkdir p mode))
      (fun _ s => Consistent s ∧ Created true (.dir mode 0 0) p.reverse s.disk) Consistent := by
  unfold runOp
  exact createOp_eff p true .mkdir (.dir mode 0 0) ⟨rfl, rfl, fun _ => ⟨mode, rfl⟩, fun h => (by cases h)⟩

theorem runOp_symlink_eff (p : List Name) (t : Nat) :
    Triple Consistent (runOp (.symlink p t))
      (fun _ s => Consistent s ∧ Created false (.symlink t) p.reverse s.disk) Consistent := by
  unfold runOp
  exact createOp_eff p false .symlink (.symlink t) ⟨rfl, rfl, fun h => (by cases h), fun _ => rfl⟩

/-- with a fresh inode id drawn in between -/
theorem createOpId_eff (p : List Name) (meth : Method) (X : Nat → Node) (hX : ∀ id, NewEntry false (X id))
    (v : VNode) (hv : ∀ id, (X id).view = v) :
    Triple Consistent (do
      let (pp, n) ← resolveParent p
      let _ ← lookupSelf pp
      let id ← freshId
      doCreateLike pp n false (mkChildOf meth n (X id))
      let _ ← doLookup pp n
      pure Reply.done)
      (fun _ s => Consistent s ∧ ∃ X', specStat s.disk p.reverse = some X' ∧ X'.view = v) Consistent := by
  refine Triple.bind (resolveParent_spec' p) fun r => Triple.pure_pre fun hpath => ?_
  obtain ⟨pp, n⟩ := r
  simp only at hpath
  refine Triple.bind (lookupSelf_ready pp) fun _ => ?_
  refine Triple.bind (freshId_ready pp) fun id => ?_
  refine Triple.bind (doCreateLike_eff pp n false meth (X id) (hX id)) fun _ => ?_
  rw [← hpath]
  refine Triple.bind (Triple.keepDisk (fun d => doLookup_ro (loadDirectory_cd d) pp n) _) fun _ => ?_
  refine Triple.pure' fun _ h => ⟨h.1, ?_⟩
  obtain ⟨X', h1, h2⟩ := h.2.1
  exact ⟨X', h1, by rw [h2, hv]⟩

theorem runOp_create_eff (p : List Name) (mode : Nat) :
    Triple Consistent (runOp (.create p mode))
      (fun _ s => Consistent s ∧ ∃ X', specStat s.disk p.reverse = some X' ∧ X'.view = .file mode [] 0)
      Consistent := by
  unfold runOp
  exact createOpId_eff p .create (fun id => .file id mode [] 0)
    (fun _ => ⟨rfl, rfl, fun h => (by cases h), fun _ => rfl⟩) _ (fun _ => rfl)

theorem runOp_mknod_eff (p : List Name) (mode : Nat) :
    Triple Consistent (runOp (.mknod p mode))
      (fun _ s => Consistent s ∧ ∃ X', specStat s.disk p.reverse = some X' ∧ X'.view = .other mode)
      Consistent := by
  unfold runOp
  exact createOpId_eff p .mknod (fun id => .other id mode)
    (fun _ => ⟨rfl, rfl, fun h => (by cases h), fun _ => rfl⟩) _ (fun _ => rfl)

/-! ### the frame of the creating operations -/

theorem Triple.and {α : Type} {P P' : St → Prop} {f : M α} {Q Q' : α → St → Prop} {E E' : St → Prop}
    (h1 : Triple P f Q E) (h2 : Triple P' f Q' E') :
    Triple (fun s => P s ∧ P' s) f (fun a s => Q a s ∧ Q' a s) (fun s => E s ∧ E' s) := by
  intro s ⟨hp, hp'⟩
  exact ⟨fun a s' h => ⟨(h1 s hp).1 a s' h, (h2 s hp').1 a s' h⟩,
    fun e s' h => ⟨(h1 s hp).2 e s' h, (h2 s hp').2 e s' h⟩⟩

theorem resolveParent_keeps (d : Disk) (p : List Name) :
    Triple (CD d) (resolveParent p) (fun _ => CD d) (CD d) := by
  unfold resolveParent
  split
  · exact Triple.fail' fun _ h => h
  · refine Triple.bind (resolve_ro (loadDirectory_cd d) _) fun r => ?_
    obtain ⟨ppath, pst⟩ := r
    exact Triple.ite' (fun _ => Triple.fail' fun _ h => h) (fun _ => Triple.pure' fun _ h => h)

/-- `resolveParent` over a fixed disk -/
theorem resolveParent_cd (d : Disk) (p : List Name) :
    Triple (CD d) (resolveParent p)
      (fun r s => r.2 :: r.1 = p.reverse ∧ (CD d s ∧ DirAt r.1 s)) (CD d) := by
  have := Triple.and (resolveParent_spec' p) (resolveParent_keeps d p)
  exact this.conseq (fun s h => ⟨h.1, h⟩) (fun r s h => ⟨h.1.1, h.2, h.1.2.2⟩) (fun s h => h.2)

/-- `lookup_node(pp, "")` of a visible directory over a fixed disk -/
theorem lookupSelf_cd_ready (d : Disk) (pp : Path) :
    Triple (fun s => CD d s ∧ DirAt pp s) (lookupSelf pp)
      (fun _ s => (CD d s ∧ DirAt pp s) ∧ ∃ pm, s.mem pp = some pm ∧ pm.loaded = true) (CD d) := by
  intro s ⟨⟨hc, hd⟩, st, hsp, hdir, m, hm⟩
  have h := lookupSelf_spec s.disk pp s ⟨⟨hc, rfl⟩, m, hm⟩
  refine ⟨fun a s' hf => ?_, fun e s' hf => ?_⟩
  · obtain ⟨⟨hc', hd'⟩, hm', _, hload⟩ := h.1 a s' hf
    exact ⟨⟨⟨hc', by rw [hd', hd]⟩, st, by rw [hd']; exact hsp, hdir, a, hm'⟩, a, hm', hload st hsp hdir⟩
  · obtain ⟨⟨hc', hd'⟩, _⟩ := h.2 e s' hf
    exact ⟨hc', by rw [hd', hd]⟩

theorem freshId_keeps {P : St → Prop} (hP : ∀ s, P s → P { s with nextId := s.nextId + 1 }) {E : St → Prop} :
    Triple P freshId (fun _ => P) E := by
  intro s hs
  refine ⟨fun a s' h => ?_, fun e s' h => ?_⟩ <;> cases h
  exact hP s hs

/-- Frame of create / mkdir / mknod / symlink: whether the operation succeeds or fails, the union
    at every path outside the subtree at the target is what it was, up to xattrs -/
theorem createOp_frame (d : Disk) (p : List Name) (isMkdir : Bool) (meth : Method) (X : Nat → Node)
    (hX : ∀ id, NewEntry isMkdir (X id)) (withId : Bool) :
    Triple (CD d) (do
      let (pp, n) ← resolveParent p
      let _ ← lookupSelf pp
      let id ← (if withId then freshId else pure 0)
      doCreateLike pp n isMkdir (mkChildOf meth n (X id))
      let _ ← doLookup pp n
      pure Reply.done)
      (fun _ s => Consistent s ∧ FrameD d s.disk p.reverse) (fun s => Consistent s ∧ FrameD d s.disk p.reverse) := by
  have hE : ∀ s, CD d s → Consistent s ∧ FrameD d s.disk p.reverse := fun s h => ⟨h.1, by rw [h.2]; exact FrameD.refl d _⟩
  refine Triple.bind ((resolveParent_cd d p).conseq (fun _ h => h) (fun _ _ h => h) hE) fun r => Triple.pure_pre fun hpath => ?_
  obtain ⟨pp, n⟩ := r
  simp only at hpath
  refine Triple.bind ((lookupSelf_cd_ready d pp).conseq (fun _ h => h) (fun _ _ h => h) hE) fun _ => ?_
  refine Triple.bind (Q := fun _ s => (CD d s ∧ DirAt pp s) ∧ ∃ pm, s.mem pp = some pm ∧ pm.loaded = true) ?_ fun id => ?_
  · cases withId with
    | true => exact freshId_keeps fun s h => ⟨⟨⟨h.1.1.1.congr rfl rfl, h.1.1.2⟩, h.1.2⟩, h.2⟩
    | false => exact Triple.pure' fun _ h => h
  rw [← hpath]
  refine Triple.bind (doCreateLike_frame d pp n isMkdir meth (X id) (hX id)) fun _ => ?_
  refine Triple.bind (Triple.keepDisk' (fun d' => doLookup_ro (loadDirectory_cd d') pp n)
    (fun d' => FrameD d d' (n :: pp))) fun _ => ?_
  exact Triple.pure' fun _ h => h

theorem runOp_mkdir_frame (d : Disk) (p : List Name) (mode : Nat) :
    Triple (CD d) (runOp (.mkdir p mode))
      (fun _ s => Consistent s ∧ FrameD d s.disk p.reverse) (fun s => Consistent s ∧ FrameD d s.disk p.reverse) := by
  unfold runOp
  exact createOp_frame d p true .mkdir (fun _ => .dir mode 0 0)
    (fun _ => ⟨rfl, rfl, fun _ => ⟨mode, rfl⟩, fun h => (by cases h)⟩) false

theorem runOp_symlink_frame (d : Disk) (p : List Name) (t : Nat) :
    Triple (CD d) (runOp (.symlink p t))
      (fun _ s => Consistent s ∧ FrameD d s.disk p.reverse) (fun s => Consistent s ∧ FrameD d s.disk p.reverse) := by
  unfold runOp
  exact createOp_frame d p false .symlink (fun _ => .symlink t)
    (fun _ => ⟨rfl, rfl, fun h => (by cases h), fun _ => rfl⟩) false

theorem runOp_create_frame (d : Disk) (p : List Name) (mode : Nat) :
    Triple (CD d) (runOp (.create p mode))
      (fun _ s => Consistent s ∧ FrameD d s.disk p.reverse) (fun s => Consistent s ∧ FrameD d s.disk p.reverse) := by
  unfold runOp
  exact createOp_frame d p false .create (fun id => .file id mode [] 0)
    (fun _ => ⟨rfl, rfl, fun h => (by cases h), fun _ => rfl⟩) true

theorem runOp_mknod_frame (d : Disk) (p : List Name) (mode : Nat) :
    Triple (CD d) (runOp (.mknod p mode))
      (fun _ s => Consistent s ∧ FrameD d s.disk p.reverse) (fun s => Consistent s ∧ FrameD d s.disk p.reverse) := by
  unfold runOp
  exact createOp_frame d p false .mknod (fun id => .other id mode)
    (fun _ => ⟨rfl, rfl, fun h => (by cases h), fun _ => rfl⟩) true

end Fbr.Ovl
