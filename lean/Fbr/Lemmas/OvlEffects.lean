/-
  What the creating operations leave at the target path (for `op_refines_plain_fs`): after a
  successful create / mkdir / mknod / symlink LOOKUP of the new name answers the new entry, and
  a new directory is empty whatever the lower layers have at that path.
-/
import Fbr.Ovl
import Fbr.Lemmas.OvlHoare
import Fbr.Lemmas.OvlSim
import Fbr.Lemmas.OvlSimLookup
import Fbr.Lemmas.OvlSimRO
import Fbr.Lemmas.OvlEval
import Fbr.Lemmas.OvlOps
import Fbr.Lemmas.OvlCreate
import Fbr.Lemmas.OvlRm

namespace Fbr.Ovl

/-- a function that keeps the cache valid and the disk unchanged keeps every fact about the disk -/
theorem Triple.keepDisk {α : Type} {f : M α} (h : ∀ d, Triple (CD d) f (fun _ => CD d) (CD d)) (F : Disk → Prop) :
    Triple (fun s => Consistent s ∧ F s.disk) f (fun _ s => Consistent s ∧ F s.disk) Consistent := by
  intro s ⟨hc, hF⟩
  have := h s.disk s ⟨hc, rfl⟩
  refine ⟨fun a s' hf => ?_, fun e s' hf => (this.2 e s' hf).1⟩
  obtain ⟨hc', hd'⟩ := this.1 a s' hf
  exact ⟨hc', by rw [hd']; exact hF⟩

/-- what a creating operation leaves at the path `q` (leaf first) -/
def Created (isMkdir : Bool) (X : Node) (q : Path) (d : Disk) : Prop :=
  (∃ X', specStat d q = some X' ∧ X'.view = X.view) ∧ (isMkdir = true → ∀ c, specStat d (c :: q) = none)

theorem doCreateLike_eff (pp : Path) (n : Name) (isMkdir : Bool) (meth : Method) (X : Node)
    (hX : NewEntry isMkdir X) :
    Triple (fun s => Consistent s ∧ ∃ pm, s.mem pp = some pm ∧ pm.loaded = true)
      (doCreateLike pp n isMkdir (mkChildOf meth n X))
      (fun _ s => Consistent s ∧ Created isMkdir X (n :: pp) s.disk) Consistent := by
  apply Triple.ofOutcome
  intro s ⟨hc, pm, hpm, hlo⟩
  have := doCreateLike_spec pp n isMkdir meth X hX s hc hpm hlo
  cases hres : doCreateLike pp n isMkdir (mkChildOf meth n X) s with
  | ok u s' => rw [hres] at this; exact ⟨this.1, this.2.2⟩
  | err e s' => rw [hres] at this; exact this

theorem createOp_eff (p : List Name) (isMkdir : Bool) (meth : Method) (X : Node) (hX : NewEntry isMkdir X) :
    Triple Consistent (do
      let (pp, n) ← resolveParent p
      let _ ← lookupSelf pp
      doCreateLike pp n isMkdir (mkChildOf meth n X)
      let _ ← doLookup pp n
      pure Reply.done) (fun _ s => Consistent s ∧ Created isMkdir X p.reverse s.disk) Consistent := by
  refine Triple.bind (resolveParent_spec' p) fun r => Triple.pure_pre fun hpath => ?_
  obtain ⟨pp, n⟩ := r
  simp only at hpath
  refine Triple.bind (lookupSelf_ready pp) fun _ => ?_
  refine Triple.bind (doCreateLike_eff pp n isMkdir meth X hX) fun _ => ?_
  rw [← hpath]
  refine Triple.bind (Triple.keepDisk (fun d => doLookup_ro (loadDirectory_cd d) pp n) _) fun _ => ?_
  exact Triple.pure' fun _ h => h

theorem runOp_mkdir_eff (p : List Name) (mode : Nat) :
    Triple Consistent (runOp (.mkdir p mode))
      (fun _ s => Consistent s ∧ Created true (.dir mode 0 0) p.reverse s.disk) Consistent := by
  unfold runOp
  exact createOp_eff p true .mkdir (.dir mode 0 0) ⟨rfl, rfl, fun _ => ⟨mode, rfl⟩, fun h => (by cases h)⟩

theorem runOp_symlink_eff (p : List Name) (t : Nat) :
    Triple Consistent (runOp (.symlink p t))
      (fun _ s => Consistent s ∧ Created false (.symlink t) p.reverse s.disk) Consistent := by
  unfold runOp
  exact createOp_eff p false .symlink (.symlink t) ⟨rfl, rfl, fun h => (by cases h), fun _ => rfl⟩

/-- with a fresh inode id drawn in between -/
theorem createOpId_eff (p : List Name) (meth : Method) (X : Nat → Node) (hX : ∀ id, NewEntry false (X id))
    (v : VNode) (hv : ∀ id, (X id).view = v) :
    Triple Consistent (do
      let (pp, n) ← resolveParent p
      let _ ← lookupSelf pp
      let id ← freshId
      doCreateLike pp n false (mkChildOf meth n (X id))
      let _ ← doLookup pp n
      pure Reply.done)
      (fun _ s => Consistent s ∧ ∃ X', specStat s.disk p.reverse = some X' ∧ X'.view = v) Consistent := by
  refine Triple.bind (resolveParent_spec' p) fun r => Triple.pure_pre fun hpath => ?_
  obtain ⟨pp, n⟩ := r
  simp only at hpath
  refine Triple.bind (lookupSelf_ready pp) fun _ => ?_
  refine Triple.bind (freshId_ready pp) fun id => ?_
  refine Triple.bind (doCreateLike_eff pp n false meth (X id) (hX id)) fun _ => ?_
  rw [← hpath]
  refine Triple.bind (Triple.keepDisk (fun d => doLookup_ro (loadDirectory_cd d) pp n) _) fun _ => ?_
  refine Triple.pure' fun _ h => ⟨h.1, ?_⟩
  obtain ⟨X', h1, h2⟩ := h.2.1
  exact ⟨X', h1, by rw [h2, hv]⟩

theorem runOp_create_eff (p : List Name) (mode : Nat) :
    Triple Consistent (runOp (.create p mode))
      (fun _ s => Consistent s ∧ ∃ X', specStat s.disk p.reverse = some X' ∧ X'.view = .file mode [] 0)
      Consistent := by
  unfold runOp
  exact createOpId_eff p .create (fun id => .file id mode [] 0)
    (fun _ => ⟨rfl, rfl, fun h => (by cases h), fun _ => rfl⟩) _ (fun _ => rfl)

theorem runOp_mknod_eff (p : List Name) (mode : Nat) :
    Triple Consistent (runOp (.mknod p mode))
      (fun _ s => Consistent s ∧ ∃ X', specStat s.disk p.reverse = some X' ∧ X'.view = .other mode)
      Consistent := by
  unfold runOp
  exact createOpId_eff p .mknod (fun id => .other id mode)
    (fun _ => ⟨rfl, rfl, fun h => (by cases h), fun _ => rfl⟩) _ (fun _ => rfl)

end Fbr.Ovl
