/-
  Helper lemmas for C04: the `Reader` of the /dev/fuse transport.  On a fusedev handle table (request
  buffer(s) of the readers outside the reply buffer of the FuseDevWriters) the content theorem for
  reader handles holds exactly as on a virtio-fs table: whatever the writers do in between.
-/
import Fbr.Lemmas.XportFuseThm

namespace Fbr.Xport

theorem step_readers_same (s : St) (op : Op) (hrh : op.rh = none) : (step s op).1.readers = s.readers := by
  cases op with
  | rd h n => cases hrh
  | ro h n => cases hrh
  | rt h c a sc => cases hrh
  | re h c sc => cases hrh
  | rs h k => cases hrh
  | wr h d => simp only [step]; split <;> rfl
  | wv h d => simp only [step]; split <;> rfl
  | wf h c a sc => simp only [step]; split <;> rfl
  | wa h c sc => simp only [step]; split <;> rfl
  | ws h k => simp only [step]; split <;> (try split) <;> rfl
  | wc h o => simp only [step]; split <;> rfl
  | fw h d => simp only [step]; split <;> rfl
  | fv h d => simp only [step]; split <;> rfl
  | ff h c a sc => simp only [step]; split <;> rfl
  | fa h c sc => simp only [step]; split <;> rfl
  | fs h k => simp only [step]; split <;> (try split) <;> rfl
  | fc h o => simp only [step]; split <;> rfl

/-- the reader operations of `step`, whatever else the table holds -/
theorem step_reader_view (s : St) (op : Op)
    (hrd : ∀ b ∈ s.readers, InMem s.w.mem (addrs b.segs) ∧ b.consumed + total b.segs < USIZE)
    (h : Nat) (hrh : op.rh = some h) :
    ((step s op).1 = s ∧ (∀ i, delivered s i op = []))
    ∨ (∃ b b' w', (∀ k, op ≠ .rs h k) ∧ s.readers[h]? = some b
        ∧ (step s op).1 = { s with w := w', readers := s.readers.set h b' }
        ∧ RdC (readerOut b s.w op) b s.w b' w')
    ∨ (∃ k b a o, op = .rs h k ∧ s.readers[h]? = some b ∧ b.splitAt k = .ok (a, o)
        ∧ (step s op).1 = { s with readers := s.readers.set h a ++ [o] }) := by
  cases op with
  | rd h' n =>
    cases hrh
    cases hg : s.readers[h]? with
    | none => exact Or.inl ⟨by simp only [step, hg], delivered_invalid rfl hg⟩
    | some b =>
      obtain ⟨hin, hov⟩ := hrd b (mem_of_getElem? hg)
      exact Or.inr (Or.inl ⟨b, _, _, (by intro k e; cases e), rfl, (by simp only [step, hg, setAt]),
        read_rdc b s.w n hin hov⟩)
  | ro h' n =>
    cases hrh
    cases hg : s.readers[h]? with
    | none => exact Or.inl ⟨by simp only [step, hg], delivered_invalid rfl hg⟩
    | some b =>
      obtain ⟨hin, hov⟩ := hrd b (mem_of_getElem? hg)
      exact Or.inr (Or.inl ⟨b, _, _, (by intro k e; cases e), rfl, (by simp only [step, hg, setAt]),
        readObj_rdc b s.w n hin hov⟩)
  | rt h' count at_ sc =>
    cases hrh
    cases hg : s.readers[h]? with
    | none => exact Or.inl ⟨by simp only [step, hg], delivered_invalid rfl hg⟩
    | some b =>
      obtain ⟨hin, hov⟩ := hrd b (mem_of_getElem? hg)
      refine Or.inr (Or.inl ⟨b, _, _, (by intro k e; cases e), rfl, (by simp only [step, hg, setAt]; rfl), ?_⟩)
      obtain ⟨D, e, hd⟩ := readTo_rdc b s.w sc count at_.isSome hin hov
      simp only [readerOut, e, List.drop_left]
      exact hd
  | re h' count sc =>
    cases hrh
    cases hg : s.readers[h]? with
    | none => exact Or.inl ⟨by simp only [step, hg], delivered_invalid rfl hg⟩
    | some b =>
      obtain ⟨hin, hov⟩ := hrd b (mem_of_getElem? hg)
      refine Or.inr (Or.inl ⟨b, _, _, (by intro k e; cases e), rfl, (by simp only [step, hg, setAt]; rfl), ?_⟩)
      obtain ⟨D, e, hd⟩ := readExactTo_rdc (count + sc.answers.length + 1) b s.w sc count hin hov
      simp only [readerOut, e, List.drop_left]
      exact hd
  | rs h' k =>
    cases hrh
    cases hg : s.readers[h]? with
    | none => exact Or.inl ⟨by simp only [step, hg], delivered_invalid rfl hg⟩
    | some b =>
      cases hs : b.splitAt k with
      | error e =>
        refine Or.inl ⟨by simp only [step, hg, hs], ?_⟩
        intro i; rw [delivered_eq (op := .rs h k) rfl hg]; simp [readerOut]
      | ok r =>
        obtain ⟨a, o⟩ := r
        exact Or.inr (Or.inr ⟨k, b, a, o, rfl, rfl, hs, by simp only [step, hg, hs, setAt]⟩)
  | wr h' d => cases hrh
  | wv h' d => cases hrh
  | wf h' c a sc => cases hrh
  | wa h' c sc => cases hrh
  | ws h' k => cases hrh
  | wc h' o => cases hrh
  | fw h' d => cases hrh
  | fv h' d => cases hrh
  | ff h' c a sc => cases hrh
  | fa h' c sc => cases hrh
  | fs h' k => cases hrh
  | fc h' o => cases hrh

/-- on a fusedev table no operation changes a byte outside the reply buffer -/
theorem fstep_frame {R base0 cap0 : Nat} {s : St} (h : FInv R base0 cap0 s) (op : Op) :
    ∀ a, a ∉ segAddrs ⟨R, base0, cap0⟩ → (step s op).1.w.mem.byteAt a = s.w.mem.byteAt a := by
  rcases fstep_view s op h.nowr h.all with ⟨_, _, ek, _⟩ | ⟨j, f, f', w', _, _, hg, e, hs, _⟩
      | ⟨j, k, f, a, o, _, _, _, e⟩ | ⟨j, o, f, _, _, e⟩
  · intro a _; rw [ek.1]
  · rw [e]
    intro a ha
    apply hs.frame
    intro hm
    apply ha
    obtain ⟨f1, f2, f3, f4⟩ := h.each f (mem_of_getElem? hg)
    have hfit := hs.fits
    rw [mem_segAddrs] at hm ⊢
    simp only at hm ⊢
    rw [f2] at hm
    omega
  · rw [e]; intro a _; rfl
  · rw [e]; intro a _; simp only; rw [(fcommit_world f s.w _).1]

/-- the invariant of the readers of a fusedev table, relative to the start memory `m0` -/
structure FRInv (R base0 cap0 : Nat) (m0 : Mem) (s : St) : Prop where
  f : FInv R base0 cap0 s
  rov : ∀ b ∈ s.readers, b.consumed + total b.segs < USIZE
  len : ∀ x, (s.w.mem.get x).length = (m0.get x).length
  rin : InMem m0 (ahead s.readers)
  out : ∀ a ∈ ahead s.readers, a ∉ segAddrs ⟨R, base0, cap0⟩
  agree : ∀ a ∈ ahead s.readers, s.w.mem.byteAt a = m0.byteAt a

theorem FRInv.rd {R base0 cap0 : Nat} {m0 : Mem} {s : St} (h : FRInv R base0 cap0 m0 s) :
    ∀ b ∈ s.readers, InMem s.w.mem (addrs b.segs) ∧ b.consumed + total b.segs < USIZE := by
  intro b hb
  refine ⟨?_, h.rov b hb⟩
  intro a ha; rw [h.len]; exact h.rin a (mem_ahead.mpr ⟨b, hb, ha⟩)

theorem step_frinv {R base0 cap0 : Nat} {m0 : Mem} {s : St} (h : FRInv R base0 cap0 m0 s) (op : Op) :
    FRInv R base0 cap0 m0 (step s op).1 := by
  have hf := step_finv h.f op
  cases hrh : op.rh with
  | none =>
    have hrs := step_readers_same s op hrh
    refine ⟨hf, by rw [hrs]; exact h.rov, fun x => by rw [step_flen h.f op]; exact h.len x,
      by rw [hrs]; exact h.rin, by rw [hrs]; exact h.out, ?_⟩
    rw [hrs]
    intro a ha
    rw [fstep_frame h.f op a (h.out a ha)]; exact h.agree a ha
  | some i =>
    rcases step_reader_view s op h.rd i hrh with ⟨e, _⟩ | ⟨b, b', w', _, hg, e, hrc⟩ | ⟨k, b, a, o, _, hg, hs, e⟩
    · rw [e]; exact h
    · rw [e] at hf ⊢
      have hsub : ∀ a ∈ ahead (s.readers.set i b'), a ∈ ahead s.readers := by
        apply ahead_set_subset hg
        intro a ha; rw [hrc.1.2.2.2.2.2.2.1] at ha; exact List.mem_of_mem_drop ha
      exact ⟨hf, forall_set h.rov (hrc.hov (h.rov b (mem_of_getElem? hg))),
        fun x => by simp only; rw [hrc.2.1]; exact h.len x,
        h.rin.mono hsub, fun a ha => h.out a (hsub a ha),
        fun a ha => by simp only; rw [hrc.2.1]; exact h.agree a (hsub a ha)⟩
    · rw [e] at hf ⊢
      obtain ⟨f1, f2, f3, f4, _⟩ := split_facts hs (h.rov b (mem_of_getElem? hg))
      have hsub := ahead_split_subset hg f3 f4
      refine ⟨hf, ?_, h.len, h.rin.mono hsub, fun a ha => h.out a (hsub a ha), fun a ha => h.agree a (hsub a ha)⟩
      intro y hy
      rcases List.mem_append.mp hy with hy | hy
      · exact forall_set h.rov f1 y hy
      · simp only [List.mem_singleton] at hy; rw [hy]; exact f2

theorem exec_frinv {R base0 cap0 : Nat} {m0 : Mem} (ops : List Op) {s : St} (h : FRInv R base0 cap0 m0 s) :
    FRInv R base0 cap0 m0 (exec s ops) := by
  induction ops generalizing s with
  | nil => exact h
  | cons op rest ih => exact ih (step_frinv h op)

theorem step_freader_handle {R base0 cap0 : Nat} {m0 : Mem} {s : St} (h : FRInv R base0 cap0 m0 s) (op : Op) (i : Nat)
    (b0 : IoBufs) (hg : s.readers[i]? = some b0) (hns : ∀ k, op ≠ .rs i k) :
    ∃ b1, (step s op).1.readers[i]? = some b1 ∧ RdH (delivered s i op) b0 m0 b1 := by
  have hil := lt_length_of_getElem? hg
  cases hrh : op.rh with
  | none =>
    exact ⟨b0, by rw [step_readers_same s op hrh]; exact hg, by rw [delivered_none hrh i]; exact RdH.refl _ _⟩
  | some j =>
    rcases step_reader_view s op h.rd j hrh with ⟨e, hd⟩ | ⟨b, b', w', _, hgj, e, hrc⟩ | ⟨k, b, a, o, eop, hgj, hs, e⟩
    · exact ⟨b0, by rw [e]; exact hg, by rw [hd i]; exact RdH.refl _ _⟩
    · rw [e, delivered_eq hrh hgj i]
      by_cases hi : i = j
      · subst hi
        rw [hg] at hgj; cases hgj
        refine ⟨b', by simp only; exact List.getElem?_set_self hil, ?_⟩
        simp only [if_true]
        apply hrc.toRdH
        intro a ha
        exact h.agree a (mem_ahead.mpr ⟨b0, mem_of_getElem? hg, ha⟩)
      · refine ⟨b0, by simp only; rw [List.getElem?_set_ne (Ne.symm hi)]; exact hg, ?_⟩
        simp only [hi, if_false]; exact RdH.refl _ _
    · have hi : j ≠ i := by intro e'; subst e'; exact hns k eop
      rw [e, delivered_eq hrh hgj i]
      refine ⟨b0, ?_, ?_⟩
      · simp only
        rw [List.getElem?_append_left (by rw [List.length_set]; exact hil), List.getElem?_set_ne hi]; exact hg
      · rw [eop]; simp only [readerOut, ite_self]; exact RdH.refl _ _

theorem freader_handle_run {R base0 cap0 : Nat} {m0 : Mem} (ops : List Op) {s : St} (h : FRInv R base0 cap0 m0 s) (i : Nat)
    (b0 : IoBufs) (hg : s.readers[i]? = some b0) (hns : ∀ k, Op.rs i k ∉ ops) :
    ∃ bf, (exec s ops).readers[i]? = some bf ∧ RdH (deliveredAll s i ops) b0 m0 bf := by
  induction ops generalizing s b0 with
  | nil => exact ⟨b0, hg, RdH.refl _ _⟩
  | cons op rest ih =>
    obtain ⟨b1, hg1, h1⟩ := step_freader_handle h op i b0 hg
      (by intro k e; exact hns k (by rw [e]; exact List.mem_cons_self))
    obtain ⟨bf, hgf, h2⟩ := ih (step_frinv h op) b1 hg1 (by intro k hk; exact hns k (List.mem_cons_of_mem _ hk))
    exact ⟨bf, hgf, h1.trans h2⟩

/-- the fusedev form of `reads_core` -/
theorem freads_core {st : St} {R base cap : Nat} (pre ops : List Op) (h : FStart st R base cap)
    (hov : ∀ b ∈ st.readers, b.consumed + total b.segs < USIZE)
    (hr : ∀ b ∈ st.readers, WF st.w.mem b.segs)
    (hout : ∀ b ∈ st.readers, ∀ a ∈ addrs b.segs, a ∉ segAddrs ⟨R, base, cap⟩)
    (i : Nat) (b0 : IoBufs) (hi : (exec st pre).readers[i]? = some b0) (hns : ∀ k, Op.rs i k ∉ ops) :
    ∃ bf, (exec (exec st pre) ops).readers[i]? = some bf
      ∧ deliveredAll (exec st pre) i ops ++ flat st.w.mem bf.segs = flat st.w.mem b0.segs
      ∧ bf.consumed = b0.consumed + (deliveredAll (exec st pre) i ops).length
      ∧ (∀ a ∈ addrs bf.segs, (exec (exec st pre) ops).w.mem.byteAt a = st.w.mem.byteAt a) := by
  have h0 : FRInv R base cap st.w.mem st := by
    refine ⟨fstart_finv h, hov, fun _ => rfl, ?_, ?_, fun _ _ => rfl⟩
    · intro a ha
      obtain ⟨b, hb, hab⟩ := mem_ahead.mp ha
      exact (hr b hb).inMem a hab
    · intro a ha
      obtain ⟨b, hb, hab⟩ := mem_ahead.mp ha
      exact hout b hb a hab
  have h1 := exec_frinv pre h0
  obtain ⟨bf, hgf, hrd⟩ := freader_handle_run ops h1 i b0 hi hns
  have hin : InMem st.w.mem (addrs b0.segs) :=
    fun a ha => h1.rin a (mem_ahead.mpr ⟨b0, mem_of_getElem? hi, ha⟩)
  refine ⟨bf, hgf, hrd.flat hin, hrd.2.2.1, ?_⟩
  intro a ha
  exact (exec_frinv ops h1).agree a (mem_ahead.mpr ⟨bf, mem_of_getElem? hgf, ha⟩)

end Fbr.Xport
