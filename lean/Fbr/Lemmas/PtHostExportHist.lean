/-
  Fbr.Lemmas.PtHostExportHist — the joint invariant `J` at import and along whole histories of the
  passthrough model on the reference host FS.
-/
import Fbr.Lemmas.PtHostExport
import Fbr.Lemmas.HostRefDemo

namespace Fbr.PtHost
open Fbr.Host

/-- `J` holds after `import()`: one entry, numbered 1, for the export root -/
theorem j_init (h : Ref.State) (g : Ref.Good h) (w : Ref.Wf h) (rootHandle : IHandle) (rootMode : Nat)
    (hd : Denotes h rootHandle h.exportRoot) : J (initState rootHandle h.exportRoot rootMode) h := by
  unfold initState
  refine ⟨g, w, ⟨_, List.mem_cons_self, rfl⟩, ?_, ?_, ?_, ?_, ?_, (by decide : 1 < 2)⟩
  · intro d hdm _
    simp only [PtState.insert, List.filter_nil, List.mem_singleton] at hdm
    rw [hdm]
  · intro d hdm _
    simp only [PtState.insert, List.filter_nil, List.mem_singleton] at hdm
    rw [hdm]
  · intro d hdm
    simp only [PtState.insert, List.filter_nil, List.mem_singleton] at hdm
    rw [hdm]; exact hd
  · simp [PtState.insert, List.lookup]
  · intro d hdm k _ hk
    simp only [PtState.insert, List.filter_nil, List.mem_singleton] at hdm
    rw [hdm] at hk
    simp only at hk
    simp [PtState.insert, hk, List.lookup]

/-- the sentinel set is a constant of every run -/
theorem run_sent {α : Type} (sent : Obj → Bool) (root : Obj) (p : Prog α) (s : Ref.State) :
    (fin (Ref.ops sent root) p s).sent = s.sent := by
  induction p generalizing s with
  | pure a => rfl
  | call c k ih =>
    show (fin (Ref.ops sent root) (k (Ref.step s c).1) (Ref.step s c).2).sent = s.sent
    rw [ih, Ref.step_sent]

/-- the export root is a constant of every run -/
theorem run_exportRoot {α : Type} (sent : Obj → Bool) (root : Obj) (p : Prog α) (s : Ref.State) :
    (fin (Ref.ops sent root) p s).exportRoot = s.exportRoot := by
  induction p generalizing s with
  | pure a => rfl
  | call c k ih =>
    show (fin (Ref.ops sent root) (k (Ref.step s c).1) (Ref.step s c).2).exportRoot = s.exportRoot
    rw [ih, Ref.step_exportRoot]

theorem runHistory_exportRoot (sent : Obj → Bool) (root : Obj) (cfg : Cfg) (rs : List Req) (pt : PtState) (h : Ref.State) :
    (runHistory (Ref.ops sent root) cfg pt h rs).2.exportRoot = h.exportRoot := by
  induction rs generalizing pt h with
  | nil => rfl
  | cons r rs ih => simp only [runHistory]; rw [ih, run_exportRoot]

/-- **one request**: from `J`, the run is confined, ends in `J`, and changes no sentinel object -/
theorem j_request (sent : Obj → Bool) (root : Obj) (cfg : Cfg) (r : Req) (hr : r.FrontChecked cfg) (pt : PtState)
    (h : Ref.State) (j : J pt h) :
    Ref.AllConfined sent root (step cfg pt r) h ∧
    J (val (Ref.ops sent root) (step cfg pt r) h).2 (fin (Ref.ops sent root) (step cfg pt r) h) ∧
    (∀ x, h.sent x = true → (fin (Ref.ops sent root) (step cfg pt r) h).nodes x = h.nodes x) := by
  have hs := (jsafe_handle cfg r hr).h pt h j
  have hrun := safe_run sent root (step cfg pt r) h hs
  exact ⟨hrun.1, hrun.2, (Ref.run_good sent root _ h j.good hrun.1).2⟩

/-- **every history** -/
theorem j_history (sent : Obj → Bool) (root : Obj) (cfg : Cfg) (rs : List Req) (hr : ∀ r ∈ rs, r.FrontChecked cfg)
    (pt : PtState) (h : Ref.State) (j : J pt h) :
    J (runHistory (Ref.ops sent root) cfg pt h rs).1 (runHistory (Ref.ops sent root) cfg pt h rs).2 ∧
    (runHistory (Ref.ops sent root) cfg pt h rs).2.sent = h.sent ∧
    (∀ x, h.sent x = true → (runHistory (Ref.ops sent root) cfg pt h rs).2.nodes x = h.nodes x) := by
  induction rs generalizing pt h with
  | nil => exact ⟨j, rfl, fun _ _ => rfl⟩
  | cons r rs ih =>
    have h1 := j_request sent root cfg r (hr r List.mem_cons_self) pt h j
    have hsent := run_sent sent root (step cfg pt r) h
    have h2 := ih (fun r' hr' => hr r' (List.mem_cons_of_mem _ hr')) _ _ h1.2.1
    simp only [runHistory]
    refine ⟨h2.1, by rw [h2.2.1, hsent], ?_⟩
    intro x hx
    rw [h2.2.2 x (by rw [hsent]; exact hx)]
    exact h1.2.2 x hx

/-- the demo host of the C06 non-vacuity examples is well-formed -/
theorem demo_wf : Ref.Wf Ref.demo := by
  refine ⟨?_, ?_, ?_⟩
  · intro f e he
    simp only [Ref.demo] at he ⊢
    split at he
    · rename_i hf; rw [hf]; decide
    · cases he
  · intro k o hk; simp [Ref.demo] at hk
  · intro k k' o hk; simp [Ref.demo] at hk

end Fbr.PtHost
