/-
  Fbr.Lemmas.SrvGood — the reply-stream invariant `Good` of `Srv.handle`, proved for every
  building block of the handlers and then for the dispatcher.
-/
import Fbr.Srv
import Fbr.Lemmas.Wire

namespace Fbr.Srv
open Fbr.Wire Fbr.Conv

/-- the `error` header field is zero or a negated errno in `[-4095, -1]` (as `i32` bits) -/
def ErrOk (v : Nat) : Prop := v = 0 ∨ (2 ^ 32 - 4095 ≤ v ∧ v < 2 ^ 32)

def msgLen (m : Bytes) : Nat := u32At m 0
def msgErr (m : Bytes) : Nat := u32At m 4
def msgUnique (m : Bytes) : Nat := u64At m 8

/-- one complete reply message -/
structure WfMsg (unique : Nat) (m : Bytes) : Prop where
  len16 : 16 ≤ m.length
  lenField : msgLen m = m.length
  uniq : msgUnique m = unique
  err : ErrOk (msgErr m)

/-- virtio-fs writable area: a complete message, possibly followed by bytes the client will not
    read because the header's length stops before them -/
structure WfArea (unique : Nat) (a : Bytes) : Prop where
  len16 : 16 ≤ msgLen a
  lenLe : msgLen a ≤ a.length
  uniq : msgUnique a = unique
  err : ErrOk (msgErr a)

/-- errors the file system returns are errnos in 1..4095 or non-OS kinds -/
def IoErr.Sane : IoErr → Prop
  | .os n => 1 ≤ n ∧ n ≤ 4095
  | .kind _ => True

def FsSane (fs : Call → Ans) : Prop := ∀ c e, fs c = .err e → e.Sane

theorem encodeKind_range (k : String) : 1 ≤ encodeKind k ∧ encodeKind k ≤ 4095 := by
  unfold encodeKind
  split <;> (try split) <;> (try split) <;> (try split) <;> (try split) <;> omega

theorem errField_ok (e : IoErr) (h : e.Sane) : ErrOk (errField e) := by
  right
  cases e with
  | os n =>
    simp only [IoErr.Sane] at h
    simp only [errField]
    have : n % 2 ^ 32 = n := Nat.mod_eq_of_lt (by omega)
    rw [this]
    have : (2 ^ 32 - n) % 2 ^ 32 = 2 ^ 32 - n := Nat.mod_eq_of_lt (by omega)
    rw [this]; omega
  | kind k =>
    simp only [errField]
    have := encodeKind_range k
    omega

theorem outHeader_length (l e u : Nat) : (outHeader l e u).length = 16 := by
  simp [outHeader]

theorem msgLen_header (l e u : Nat) (rest : Bytes) :
    msgLen (outHeader l e u ++ rest) = l % 2 ^ 32 := by
  unfold msgLen outHeader
  rw [List.append_assoc, List.append_assoc]
  exact u32At_le32 _ _

theorem msgErr_header (l e u : Nat) (rest : Bytes) :
    msgErr (outHeader l e u ++ rest) = e % 2 ^ 32 := by
  unfold msgErr outHeader
  rw [List.append_assoc, List.append_assoc]
  rw [u32At_skip _ _ 4 (by simp)]
  simp only [le32_length, Nat.sub_self]
  exact u32At_le32 _ _

theorem msgUnique_header (l e u : Nat) (rest : Bytes) :
    msgUnique (outHeader l e u ++ rest) = u % 2 ^ 64 := by
  unfold msgUnique outHeader
  rw [List.append_assoc, List.append_assoc]
  rw [u64At_skip _ _ 8 (by simp)]
  simp only [le32_length]
  rw [u64At_skip _ _ 4 (by simp)]
  simp only [le32_length, Nat.sub_self]
  exact u64At_le64 _ _

theorem errOk_lt (v : Nat) (h : ErrOk v) : v < 2 ^ 32 := by
  rcases h with h | h <;> omega

/-- a header followed by exactly the announced number of bytes is a complete message -/
theorem wfMsg_header (l e u : Nat) (rest : Bytes) (hl : l = 16 + rest.length) (hlt : l < 2 ^ 32)
    (hu : u < 2 ^ 64) (he : ErrOk e) : WfMsg u (outHeader l e u ++ rest) where
  len16 := by simp [outHeader_length]
  lenField := by
    rw [msgLen_header, Nat.mod_eq_of_lt hlt]; simp [outHeader_length, hl]
  uniq := by rw [msgUnique_header, Nat.mod_eq_of_lt hu]
  err := by rw [msgErr_header, Nat.mod_eq_of_lt (errOk_lt e he)]; exact he

theorem wfArea_of_wfMsg {u : Nat} {m : Bytes} (h : WfMsg u m) : WfArea u m where
  len16 := by rw [h.lenField]; exact h.len16
  lenLe := by rw [h.lenField]; exact Nat.le_refl _
  uniq := h.uniq
  err := h.err

/-- a 16-byte header followed by arbitrary junk is a well-formed area -/
theorem wfArea_header_junk (e u : Nat) (junk : Bytes) (hu : u < 2 ^ 64) (he : ErrOk e) :
    WfArea u (outHeader 16 e u ++ junk) where
  len16 := by rw [msgLen_header]; decide
  lenLe := by rw [msgLen_header]; simp [outHeader_length]
  uniq := by rw [msgUnique_header, Nat.mod_eq_of_lt hu]
  err := by rw [msgErr_header, Nat.mod_eq_of_lt (errOk_lt e he)]; exact he

/-- a reply reached the client: one fd write on /dev/fuse, a non-empty area on virtio-fs -/
def Replied (cfg : Cfg) (r : Res) : Prop :=
  if cfg.fusedev then r.out.sys.length = 1 else r.out.area ≠ []

/-- the reply-stream invariant -/
structure Good (cfg : Cfg) (unique : Nat) (r : Res) : Prop where
  noPanic : ∀ s, r.ret ≠ .panic s
  oneWrite : r.out.sys.length ≤ 1
  sepF : cfg.fusedev = true → r.out.area = []
  sepV : cfg.fusedev = false → r.out.sys = []
  sysWf : ∀ m ∈ r.out.sys, WfMsg unique m
  areaWf : r.out.area = [] ∨ WfArea unique r.out.area
  /-- a positive return value means a reply went out -/
  okReplied : ∀ n, r.ret = .ok n → 0 < n → Replied cfg r
  /-- nothing larger than the reply buffer is ever handed to the transport -/
  fitsSys : ∀ m ∈ r.out.sys, m.length ≤ cfg.cap
  fitsArea : r.out.area.length ≤ cfg.cap

theorem good_silent (cfg : Cfg) (u : Nat) (r : Res) (ho : r.out = {}) (hr : ∀ s, r.ret ≠ .panic s)
    (h0 : ∀ n, r.ret = .ok n → n = 0) : Good cfg u r where
  noPanic := hr
  oneWrite := by simp [ho]
  sepF := by simp [ho]
  sepV := by simp [ho]
  sysWf := by simp [ho]
  areaWf := by simp [ho]
  okReplied := by intro n h hp; have := h0 n h; omega
  fitsSys := by simp [ho]
  fitsArea := by simp [ho]

theorem good_bail (cfg : Cfg) (u : Nat) (calls : List Call) (al : List Nat) (e : SrvErr) :
    Good cfg u (bail cfg calls al e) :=
  good_silent cfg u _ rfl (by intro s; simp [bail]) (by intro n h; simp [bail] at h)

/-- one complete message `m` emitted on an unsplit writer -/
theorem good_emit (cfg : Cfg) (u : Nat) (r : Res) (m : Bytes) (hm : WfMsg u m) (hml : m.length ≤ cfg.cap)
    (ho : r.out = emit cfg m) (hr : ∀ s, r.ret ≠ .panic s) : Good cfg u r := by
  have hne : m ≠ [] := by intro h; have := hm.len16; simp [h] at this
  cases hf : cfg.fusedev
  · have : r.out = { area := m } := by rw [ho]; simp [emit, hf]
    exact { noPanic := hr, oneWrite := by simp [this], sepF := by simp [hf], sepV := by simp [this],
            sysWf := by simp [this], areaWf := by right; simp [this]; exact wfArea_of_wfMsg hm,
            okReplied := by intro n _ _; simp [Replied, hf, this, hne],
            fitsSys := by simp [this], fitsArea := by simp [this]; exact hml }
  · have : r.out = { sys := [m] } := by rw [ho]; simp [emit, hf]
    exact { noPanic := hr, oneWrite := by simp [this], sepF := by simp [this], sepV := by simp [hf],
            sysWf := by simp [this]; exact hm, areaWf := by left; simp [this],
            okReplied := by intro n _ _; simp [Replied, hf, this],
            fitsSys := by simp [this]; exact hml, fitsArea := by simp [this] }

theorem replyErr_cases (cfg : Cfg) (u : Nat) (e : IoErr) :
    (replyErr cfg u e = ({}, .err .encodeMessage) ∧ cfg.cap < 16) ∨
    (replyErr cfg u e = (emit cfg (outHeader 16 (errField e) u), .ok 16) ∧ 16 ≤ cfg.cap) := by
  unfold replyErr OUT_HDR
  by_cases h : 16 > cfg.cap
  · left; simp [h]
  · right; simp [h]; omega

theorem replyOk_cases (cfg : Cfg) (u : Nat) (body data : Bytes) :
    (replyOk cfg u body data = ({}, .err .encodeMessage) ∧ cfg.cap < 16 + body.length + data.length) ∨
    (replyOk cfg u body data =
        (emit cfg (outHeader (16 + body.length + data.length) 0 u ++ body ++ data),
         .ok (16 + body.length + data.length)) ∧ 16 + body.length + data.length ≤ cfg.cap) := by
  unfold replyOk OUT_HDR
  by_cases h : 16 + body.length + data.length > cfg.cap
  · left; simp [h]
  · right; simp [h]; omega

theorem wf_errHeader (u : Nat) (e : IoErr) (hu : u < 2 ^ 64) (he : e.Sane) :
    WfMsg u (outHeader 16 (errField e) u) := by
  have := wfMsg_header 16 (errField e) u [] (by simp) (by decide) hu (errField_ok e he)
  simpa using this

theorem wf_okMsg (cfg : Cfg) (u : Nat) (body data : Bytes) (hu : u < 2 ^ 64) (hcap : cfg.cap < 2 ^ 32)
    (hfit : 16 + body.length + data.length ≤ cfg.cap) :
    WfMsg u (outHeader (16 + body.length + data.length) 0 u ++ body ++ data) := by
  have := wfMsg_header (16 + body.length + data.length) 0 u (body ++ data)
    (by simp; omega) (by omega) hu (Or.inl rfl)
  simpa [List.append_assoc] using this

/-- any result whose output is that of `replyErr` and whose return value is `replyErr`'s or
    never a positive `ok` -/
theorem good_of_replyErr (cfg : Cfg) (u : Nat) (e : IoErr) (r : Res) (hu : u < 2 ^ 64) (he : e.Sane)
    (ho : r.out = (replyErr cfg u e).1) (hr : ∀ s, r.ret ≠ .panic s)
    (hret : r.ret = (replyErr cfg u e).2 ∨ ∀ n, r.ret ≠ .ok n) : Good cfg u r := by
  rcases replyErr_cases cfg u e with ⟨h, _⟩ | ⟨h, h16⟩
  · refine good_silent cfg u r (by rw [ho, h]) hr ?_
    intro n hn
    rcases hret with h' | h'
    · rw [h', h] at hn; cases hn
    · exact absurd hn (h' n)
  · exact good_emit cfg u r _ (wf_errHeader u e hu he) (by rw [outHeader_length]; exact h16) (by rw [ho, h]) hr

theorem good_of_replyOk (cfg : Cfg) (u : Nat) (body data : Bytes) (r : Res) (hu : u < 2 ^ 64)
    (hcap : cfg.cap < 2 ^ 32) (ho : r.out = (replyOk cfg u body data).1) (hr : ∀ s, r.ret ≠ .panic s)
    (hret : r.ret = (replyOk cfg u body data).2 ∨ ∀ n, r.ret = .ok n → n = 0) : Good cfg u r := by
  rcases replyOk_cases cfg u body data with ⟨h, _⟩ | ⟨h, hfit⟩
  · refine good_silent cfg u r (by rw [ho, h]) hr ?_
    intro n hn
    rcases hret with h' | h'
    · rw [h', h] at hn; cases hn
    · exact h' n hn
  · exact good_emit cfg u r _ (wf_okMsg cfg u body data hu hcap hfit)
      (by simp only [List.length_append, outHeader_length]; omega) (by rw [ho, h]) hr

theorem replyErr_ret_ne_panic (cfg : Cfg) (u : Nat) (e : IoErr) (s : String) :
    (replyErr cfg u e).2 ≠ .panic s := by
  rcases replyErr_cases cfg u e with ⟨h, _⟩ | ⟨h, _⟩ <;> rw [h] <;> simp

theorem replyOk_ret_ne_panic (cfg : Cfg) (u : Nat) (b d : Bytes) (s : String) :
    (replyOk cfg u b d).2 ≠ .panic s := by
  rcases replyOk_cases cfg u b d with ⟨h, _⟩ | ⟨h, _⟩ <;> rw [h] <;> simp

theorem good_errRes (cfg : Cfg) (u : Nat) (calls : List Call) (al : List Nat) (e : IoErr)
    (hu : u < 2 ^ 64) (he : e.Sane) : Good cfg u (errRes cfg u calls al e) :=
  good_of_replyErr cfg u e _ hu he rfl (by intro s; exact replyErr_ret_ne_panic _ _ _ _) (Or.inl rfl)

theorem good_okRes (cfg : Cfg) (u : Nat) (calls : List Call) (al : List Nat) (body data : Bytes) (mn : Nat)
    (hu : u < 2 ^ 64) (hcap : cfg.cap < 2 ^ 32) : Good cfg u (okRes cfg u calls al body data mn) :=
  good_of_replyOk cfg u body data _ hu hcap rfl (by intro s; exact replyOk_ret_ne_panic _ _ _ _ _) (Or.inl rfl)

theorem good_badName (cfg : Cfg) (u : Nat) (calls : List Call) (al : List Nat) (hu : u < 2 ^ 64) :
    Good cfg u (badName cfg u calls al) :=
  good_of_replyErr cfg u (.os EINVAL) _ hu (by simp [IoErr.Sane, EINVAL]) rfl (by intro s; simp [badName])
    (Or.inr (by intro n; simp [badName]))

theorem sane_os (n : Nat) (h1 : 1 ≤ n) (h2 : n ≤ 4095) : (IoErr.os n).Sane := ⟨h1, h2⟩

theorem good_finish (cfg : Cfg) (u : Nat) (calls : List Call) (al : List Nat) (a : Ans)
    (okb : Ans → Option (Bytes × Bytes)) (hu : u < 2 ^ 64) (hcap : cfg.cap < 2 ^ 32)
    (ha : ∀ e, a = .err e → e.Sane) : Good cfg u (finish cfg u calls al a okb) := by
  unfold finish
  split
  · next e => exact good_errRes cfg u _ _ e hu (ha e rfl)
  · split
    · exact good_okRes cfg u _ _ _ _ _ hu hcap
    · exact good_errRes cfg u _ _ _ hu (sane_os _ (by decide) (by decide))

theorem good_simple (cfg : Cfg) (fs : Call → Ans) (u : Nat) (calls0 : List Call) (c : Call)
    (al : List Nat) (okb : Ans → Option (Bytes × Bytes)) (hu : u < 2 ^ 64) (hcap : cfg.cap < 2 ^ 32)
    (hfs : FsSane fs) : Good cfg u (simple cfg fs u calls0 c al okb) :=
  good_finish cfg u _ al (fs c) okb hu hcap (fun e h => hfs c e h)

theorem good_withObj (cfg : Cfg) (u : Nat) (calls0 : List Call) (r : Bytes) (n : Nat) (k : Bytes → Res)
    (hk : ∀ b, Good cfg u (k b)) : Good cfg u (withObj cfg calls0 r n k) := by
  unfold withObj
  split
  · exact good_bail _ _ _ _ _
  · exact hk _

theorem good_named (cfg : Cfg) (u : Nat) (calls0 : List Call) (hdrLen : Nat) (r : Bytes) (sub : Nat)
    (k : Bytes → List Nat → Res) (hu : u < 2 ^ 64) (hk : ∀ nm al, Good cfg u (k nm al)) :
    Good cfg u (named cfg u calls0 hdrLen r sub k) := by
  unfold named
  split
  · exact good_bail _ _ _ _ _
  · split
    · exact good_badName _ _ _ _ hu
    · exact hk _ _

theorem good_splitErr (cfg : Cfg) (u : Nat) (calls : List Call) (e : IoErr) (junk : Bytes)
    (hu : u < 2 ^ 64) (he : e.Sane) (hj : 16 + junk.length ≤ cfg.cap) :
    Good cfg u (splitErr cfg u calls e junk) := by
  unfold splitErr OUT_HDR
  cases hf : cfg.fusedev
  · exact { noPanic := by intro s; simp, oneWrite := by simp [hf], sepF := by simp [hf], sepV := by simp [hf],
            sysWf := by simp [hf],
            areaWf := by right; simp [hf]; exact wfArea_header_junk _ u junk hu (errField_ok e he),
            okReplied := by
              intro n _ _
              have hl : (outHeader 16 (errField e) u ++ junk).length ≠ 0 := by simp [outHeader_length]
              simp only [Replied, hf, Bool.false_eq_true, if_false]
              intro hc; rw [hc] at hl; simp at hl,
            fitsSys := by simp [hf],
            fitsArea := by simp [hf, outHeader_length]; omega }
  · exact { noPanic := by intro s; simp, oneWrite := by simp [hf], sepF := by simp [hf], sepV := by simp [hf],
            sysWf := by simp [hf]; exact wf_errHeader u e hu he, areaWf := by left; simp [hf],
            okReplied := by intro n _ _; simp [Replied, hf],
            fitsSys := by simp [hf, outHeader_length]; omega, fitsArea := by simp [hf] }

theorem good_splitOk (cfg : Cfg) (u : Nat) (calls : List Call) (payload : Bytes)
    (hu : u < 2 ^ 64) (hcap : cfg.cap < 2 ^ 32) (hfit : 16 + payload.length ≤ cfg.cap) :
    Good cfg u (splitOk cfg u calls payload) := by
  unfold splitOk OUT_HDR
  have hlt : 16 + payload.length < 2 ^ 32 := by omega
  rw [Nat.mod_eq_of_lt hlt]
  exact good_emit cfg u _ _ (wfMsg_header _ 0 u payload rfl hlt hu (Or.inl rfl))
    (by simp only [List.length_append, outHeader_length]; omega) rfl (by intro s; simp)

theorem pushChunk_fits (cc written : Nat) (acc : Bytes × Bool) (c : Bytes)
    (h : written + acc.1.length ≤ cc) : written + (pushChunk cc written acc c).1.length ≤ cc := by
  unfold pushChunk
  split
  · exact h
  · split
    · exact h
    · split
      · exact h
      · simp only [List.length_append]; omega

theorem foldl_pushChunk_fits (cc written : Nat) (chunks : List Bytes) (acc : Bytes × Bool)
    (h : written + acc.1.length ≤ cc) :
    written + (chunks.foldl (pushChunk cc written) acc).1.length ≤ cc := by
  induction chunks generalizing acc with
  | nil => simpa using h
  | cons c cs ih => simp only [List.foldl_cons]; exact ih _ (pushChunk_fits cc written acc c h)

theorem writeChunks_fits (cc written : Nat) (chunks : List Bytes) (hw : written ≤ cc) :
    written + (writeChunks cc written chunks).1.length ≤ cc :=
  foldl_pushChunk_fits cc written chunks ([], false) (by simpa using hw)

/-- `add_dirent` never lets the cursor grow beyond its capacity, and its only error is the
    cursor's `InvalidData` -/
theorem addDirent_fits (size cc written : Nat) (d : DirEnt) (e : Option Entry) (hw : written ≤ cc) :
    written + (addDirent size cc written d e).1.length ≤ cc ∧
    (∀ er, (addDirent size cc written d e).2 = .error er → er = .kind "InvalidData") := by
  unfold addDirent
  split
  · simp; exact hw
  · have hf := writeChunks_fits cc written (direntChunks d e) hw
    split
    · next bs heq => rw [heq] at hf; exact ⟨hf, by intro er h; simp at h; exact h.symm⟩
    · next bs heq => rw [heq] at hf; exact ⟨hf, by intro er h; simp at h⟩

theorem dirLoop_fits (size cc : Nat) (plus prop : Bool) (ds : List (DirEnt × Entry)) (acc : Bytes)
    (h : acc.length ≤ cc) :
    (dirLoop size cc plus prop ds acc).1.length ≤ cc ∧
    (∀ er, (dirLoop size cc plus prop ds acc).2 = some er → er = .kind "InvalidData") := by
  induction ds generalizing acc with
  | nil => simp [dirLoop, h]
  | cons de rest ih =>
    obtain ⟨d, e⟩ := de
    unfold dirLoop
    have hf := addDirent_fits size cc acc.length d (if plus then some e else none) h
    generalize hq : addDirent size cc acc.length d (if plus then some e else none) = q at hf
    obtain ⟨bs, r⟩ := q
    simp only at hf ⊢
    match r with
    | .ok 0 => simp only [List.length_append]; exact ⟨hf.1, by simp⟩
    | .ok (n + 1) =>
      simp only
      exact ih (acc ++ bs) (by simp only [List.length_append]; exact hf.1)
    | .error er =>
      simp only [List.length_append]
      refine ⟨hf.1, ?_⟩
      intro er' h'
      split at h'
      · simp at h'; subst h'; exact hf.2 er rfl
      · simp at h'

theorem sane_invalidData : (IoErr.kind "InvalidData").Sane := trivial

theorem good_readReply (cfg : Cfg) (u : Nat) (calls : List Call) (a : Ans) (hu : u < 2 ^ 64)
    (hcap : cfg.cap < 2 ^ 32) (h16 : 16 ≤ cfg.cap) (ha : ∀ e, a = .err e → e.Sane) :
    Good cfg u (readReply cfg u calls a) := by
  unfold readReply
  split
  · next d =>
    split
    · exact good_splitErr _ _ _ _ _ hu sane_invalidData (by simp; omega)
    · next hd => exact good_splitOk _ _ _ _ hu hcap (by unfold OUT_HDR at hd; omega)
  · next e => exact good_splitErr _ _ _ _ _ hu (ha e rfl) (by simp; omega)
  · exact good_splitErr _ _ _ _ _ hu (sane_os _ (by decide) (by decide)) (by simp; omega)

theorem good_dirReply (cfg : Cfg) (u : Nat) (calls : List Call) (size : Nat) (plus : Bool) (a : Ans)
    (hu : u < 2 ^ 64) (hcap : cfg.cap < 2 ^ 32) (h16 : 16 ≤ cfg.cap) (ha : ∀ e, a = .err e → e.Sane) :
    Good cfg u (dirReply cfg u calls size plus a) := by
  unfold dirReply
  split
  · next ds prop =>
    have hf := dirLoop_fits size (cfg.cap - OUT_HDR) plus prop ds [] (by simp)
    split
    · next payload e heq =>
      rw [heq] at hf
      have := hf.2 e rfl
      subst this
      exact good_splitErr _ _ _ _ _ hu sane_invalidData (by have := hf.1; unfold OUT_HDR at this; simp at this; omega)
    · next payload heq =>
      rw [heq] at hf
      exact good_splitOk _ _ _ _ hu hcap (by have := hf.1; unfold OUT_HDR at this; simp at this; omega)
  · next e => exact good_splitErr _ _ _ _ _ hu (ha e rfl) (by simp; omega)
  · exact good_splitErr _ _ _ _ _ hu (sane_os _ (by decide) (by decide)) (by simp; omega)

/-- DESTROY: the reply of `okRes` with the return value overridden -/
theorem good_withRet (cfg : Cfg) (u : Nat) (r : Res) (h : Good cfg u r) :
    Good cfg u { r with ret := .ok 0 } :=
  { noPanic := by intro s; simp, oneWrite := h.oneWrite, sepF := h.sepF, sepV := h.sepV, sysWf := h.sysWf,
    areaWf := h.areaWf, okReplied := by intro n hn hp; simp at hn; omega,
    fitsSys := h.fitsSys, fitsArea := h.fitsArea }

theorem good_lookupReply (cfg : Cfg) (u : Nat) (calls : List Call) (al : List Nat) (a : Ans)
    (hu : u < 2 ^ 64) (hcap : cfg.cap < 2 ^ 32) (ha : ∀ e, a = .err e → e.Sane) :
    Good cfg u (lookupReply cfg u calls al a) := by
  unfold lookupReply
  split
  · split
    · exact good_errRes _ _ _ _ _ hu (sane_os _ (by decide) (by decide))
    · exact good_finish _ _ _ _ _ _ hu hcap (by intro e he; cases he)
  · exact good_finish _ _ _ _ _ _ hu hcap ha

theorem good_notifyReply (cfg : Cfg) (u : Nat) (calls : List Call) (a : Ans)
    (hu : u < 2 ^ 64) (ha : ∀ e, a = .err e → e.Sane) : Good cfg u (notifyReply cfg u calls a) := by
  unfold notifyReply
  split
  · next e => exact good_errRes _ _ _ _ _ hu (ha e rfl)
  · exact good_silent _ _ _ rfl (by intro s; simp) (by intro n h; simp at h; omega)

theorem good_initReply (cfg : Cfg) (u : Nat) (calls : List Call) (mn ra cap : Nat) (a : Ans)
    (hu : u < 2 ^ 64) (hcap : cfg.cap < 2 ^ 32) (ha : ∀ e, a = .err e → e.Sane) :
    Good cfg u (initReply cfg u calls mn ra cap a) := by
  unfold initReply
  split
  · exact good_okRes _ _ _ _ _ _ _ hu hcap
  · next e => exact good_errRes _ _ _ _ _ hu (ha e rfl)
  · exact good_errRes _ _ _ _ _ hu (sane_os _ (by decide) (by decide))

theorem good_initHandler (cfg : Cfg) (fs : Call → Ans) (u : Nat) (calls0 : List Call) (rest b : Bytes)
    (hu : u < 2 ^ 64) (hcap : cfg.cap < 2 ^ 32) (hfs : FsSane fs) :
    Good cfg u (initHandler cfg fs u calls0 rest b) := by
  unfold initHandler
  split
  · exact good_errRes _ _ _ _ _ hu (sane_os _ (by decide) (by decide))
  · split
    · exact good_okRes _ _ _ _ _ _ _ hu hcap
    · exact good_initReply _ _ _ _ _ _ _ hu hcap (fun e h => hfs _ e h)

macro "good_step" : tactic => `(tactic| first
  | exact good_bail _ _ _ _ _
  | (apply good_withObj; intro _)
  | (apply good_named _ _ _ _ _ _ _ ‹_›; intro _ _)
  | exact good_simple _ _ _ _ _ _ _ ‹_› ‹_› ‹_›
  | exact good_badName _ _ _ _ ‹_›
  | exact good_errRes _ _ _ _ _ ‹_› (sane_os _ (by decide) (by decide))
  | exact good_okRes _ _ _ _ _ _ _ ‹_› ‹_›
  | exact good_initHandler _ _ _ _ _ _ ‹_› ‹_› ‹_›
  | exact good_lookupReply _ _ _ _ _ ‹_› ‹_› (fun e h => ‹FsSane _› _ e h)
  | exact good_notifyReply _ _ _ _ ‹_› (fun e h => ‹FsSane _› _ e h)
  | exact good_readReply _ _ _ _ ‹_› ‹_› (by unfold OUT_HDR at *; omega) (fun e h => ‹FsSane _› _ e h)
  | exact good_dirReply _ _ _ _ _ _ ‹_› ‹_› (by unfold OUT_HDR at *; omega) (fun e h => ‹FsSane _› _ e h)
  | exact good_withRet _ _ _ (good_okRes _ _ _ _ _ _ _ ‹_› ‹_›)
  | split
  | dsimp only
  | exact good_silent _ _ _ rfl (by intro s; simp) (by intro n h; simp at h; omega))

/-- every handler keeps the reply-stream invariant -/
theorem good_handleBody (cfg : Cfg) (fs : Call → Ans) (ctx : Ctx) (calls0 : List Call)
    (hdrLen op u nodeid : Nat) (r : Bytes) (hu : u < 2 ^ 64) (hcap : cfg.cap < 2 ^ 32)
    (hfs : FsSane fs) : Good cfg u (handleBody cfg fs ctx calls0 hdrLen op u nodeid r) := by
  unfold handleBody
  split
  all_goals (repeat good_step)

end Fbr.Srv
