/-
  Fbr.Lemmas.PtHostDirect — "which calls of a request can change the host tree".
  `Permits P` = `P` holds of every call that cannot change any file-system object
  (`HCall.readOnly`: lookups with O_PATH, stat, readlink, read, non-truncating re-opens, fsync,
  credential switches, ...).  Every helper of the model only makes such calls; each request adds
  its one corresponding host call (`DirectCall`, one line per operation).
-/
import Fbr.Lemmas.PtHostCalls
import Fbr.Lemmas.PtHostBits
import Fbr.Lemmas.PtHostRun

namespace Fbr.PtHost
open Fbr.Host

variable {α β : Type}

structure Permits (P : HCall → Prop) : Prop where
  ro : ∀ c, c.readOnly = true → P c

theorem onlyM_mono {P Q : HCall → Prop} {m : M α} (h : OnlyM P m) (hpq : ∀ c, P c → Q c) : OnlyM Q m := by
  refine ⟨fun st => ?_⟩
  have := h.h st
  generalize m st = p at this
  induction p with
  | pure a => trivial
  | call c k ih => exact ⟨hpq _ this.1, fun a => ih a (this.2 a)⟩

attribute [local irreducible] unitCall getFile statOf fdOf statFd statInode openInode fileHandleFromFd
  openFileAndHandle doLookup validateName inodeData newHandle getData checkFdFlags createFileExcl doRelease
  doGetattr doUnlink dropGid dropUid scopedGid scopedUid setCreds dropCreds withCreds dropCapFsetid raiseCapFsetid
  withKillpriv setattrMode setattrOwner setattrSize setattrUtimens setattrData doOpen createOpenExisting createHandle
  lookup forget setattr readlink symlink mknod mkdir unlink rmdir rename link open_ opendir create read write flush
  fsync release releasedir fallocate lseek statfs setxattr getxattr listxattr removexattr

variable {P : HCall → Prop}

syntax "ro_leaf" : tactic
macro_rules | `(tactic| ro_leaf) => `(tactic| assumption)
macro_rules | `(tactic| ro_leaf) => `(tactic| exact onlyM_sys (Permits.ro ‹_› _ (by simp [HCall.readOnly, has]; try decide)))
macro_rules | `(tactic| ro_leaf) => `(tactic| exact onlyM_sys (Permits.ro ‹_› _ rfl))
macro_rules | `(tactic| ro_leaf) => `(tactic| exact onlyM_ofExcept _)
macro_rules | `(tactic| ro_leaf) => `(tactic| exact onlyM_ofOption _ _)
macro_rules | `(tactic| ro_leaf) => `(tactic| exact onlyM_modify _)
macro_rules | `(tactic| ro_leaf) => `(tactic| exact onlyM_set _)
macro_rules | `(tactic| ro_leaf) => `(tactic| exact onlyM_get)
macro_rules | `(tactic| ro_leaf) => `(tactic| exact onlyM_throw _)
macro_rules | `(tactic| ro_leaf) => `(tactic| exact onlyM_pure' _)
macro_rules | `(tactic| ro_leaf) => `(tactic| exact onlyM_pure _)

macro "ro" : tactic =>
  `(tactic| repeat (first | ro_leaf | refine onlyM_try ?_ | refine onlyM_bind ?_ ?_ | intro _ | split | dsimp only))

theorem ro_unitCall (hp : Permits P) (c : HCall) (hc : P c) : OnlyM P (unitCall c) := by
  unfold unitCall
  refine onlyM_bind (onlyM_sys hc) ?_
  ro
theorem ro_getFile (hp : Permits P) (d : InodeData) : OnlyM P (getFile d) := by
  unfold getFile; ro
macro_rules | `(tactic| ro_leaf) => `(tactic| exact ro_getFile ‹_› _)
theorem ro_statOf (a : HAns) : OnlyM P (statOf a) := by unfold statOf; ro
macro_rules | `(tactic| ro_leaf) => `(tactic| exact ro_statOf _)
theorem ro_fdOf (a : HAns) : OnlyM P (fdOf a) := by unfold fdOf; ro
macro_rules | `(tactic| ro_leaf) => `(tactic| exact ro_fdOf _)
theorem ro_statFd (hp : Permits P) (f : Fd) : OnlyM P (statFd f) := by unfold statFd; ro
macro_rules | `(tactic| ro_leaf) => `(tactic| exact ro_statFd ‹_› _)
theorem ro_statInode (hp : Permits P) (d : InodeData) : OnlyM P (statInode d) := by unfold statInode; ro
macro_rules | `(tactic| ro_leaf) => `(tactic| exact ro_statInode ‹_› _)

/-- an I/O open: read-only unless it carries O_TRUNC -/
def IsOpenCall : HCall → Prop
  | .reopen .. | .openByHandle .. => True
  | _ => False

/-- `open_inode` makes one re-open call -/
theorem ro_openInode (hp : Permits P) (hopen : ∀ c, IsOpenCall c → P c) (cfg : Cfg) (i f : Nat) : OnlyM P (openInode cfg i f) := by
  unfold openInode
  refine onlyM_bind onlyM_get (fun s => ?_)
  refine onlyM_bind (onlyM_ofOption _ _) (fun d => ?_)
  split
  · exact onlyM_throw _
  · dsimp only
    split
    · exact onlyM_bind (onlyM_sys (hopen _ trivial)) (fun a => ro_fdOf a)
    · exact onlyM_bind (onlyM_sys (hopen _ trivial)) (fun a => ro_fdOf a)

theorem ro_fileHandleFromFd (hp : Permits P) (f : Fd) : OnlyM P (fileHandleFromFd f) := by
  unfold fileHandleFromFd; ro
macro_rules | `(tactic| ro_leaf) => `(tactic| exact ro_fileHandleFromFd ‹_› _)
theorem ro_openFileAndHandle (hp : Permits P) (cfg : Cfg) (d : Fd) (n : Name) : OnlyM P (openFileAndHandle cfg d n) := by
  unfold openFileAndHandle
  have hro : (HCall.openat d n (O_NOFOLLOW ||| O_CLOEXEC ||| O_PATH) 0).readOnly = true := by
    simp only [HCall.readOnly]; decide
  refine onlyM_bind (onlyM_sys (hp.ro _ hro)) (fun a => ?_)
  ro
macro_rules | `(tactic| ro_leaf) => `(tactic| exact ro_openFileAndHandle ‹_› _ _ _)
theorem ro_doLookup (hp : Permits P) (cfg : Cfg) (p : Nat) (n : Name) : OnlyM P (doLookup cfg p n) := by
  unfold doLookup; ro
macro_rules | `(tactic| ro_leaf) => `(tactic| exact ro_doLookup ‹_› _ _ _)
theorem ro_validateName (cfg : Cfg) (n : Name) : OnlyM P (validateName cfg n) := by unfold validateName; ro
macro_rules | `(tactic| ro_leaf) => `(tactic| exact ro_validateName _ _)
theorem ro_inodeData (i : Nat) : OnlyM P (inodeData i) := by unfold inodeData; ro
macro_rules | `(tactic| ro_leaf) => `(tactic| exact ro_inodeData _)
theorem ro_newHandle (i : Nat) (f : Fd) (fl : Nat) : OnlyM P (newHandle i f fl) := by unfold newHandle; ro
macro_rules | `(tactic| ro_leaf) => `(tactic| exact ro_newHandle _ _ _)
theorem ro_checkFdFlags (hp : Permits P) (cfg : Cfg) (h : Nat) (hd : HandleData) (f : Nat) : OnlyM P (checkFdFlags cfg h hd f) := by
  unfold checkFdFlags
  have := ro_unitCall hp (.setfl hd.fd f) (hp.ro _ rfl)
  ro
macro_rules | `(tactic| ro_leaf) => `(tactic| exact ro_checkFdFlags ‹_› _ _ _ _)
theorem ro_doRelease (i h : Nat) : OnlyM P (doRelease i h) := by unfold doRelease; ro
macro_rules | `(tactic| ro_leaf) => `(tactic| exact ro_doRelease _ _)
theorem ro_doGetattr (hp : Permits P) (cfg : Cfg) (i : Nat) (h : Option Nat) : OnlyM P (doGetattr cfg i h) := by
  unfold doGetattr; ro
macro_rules | `(tactic| ro_leaf) => `(tactic| exact ro_doGetattr ‹_› _ _ _)

theorem ro_dropGid (hp : Permits P) (g : Bool) : OnlyM P (dropGid g) := by unfold dropGid; ro
macro_rules | `(tactic| ro_leaf) => `(tactic| exact ro_dropGid ‹_› _)
theorem ro_dropUid (hp : Permits P) (g : Bool) : OnlyM P (dropUid g) := by unfold dropUid; ro
macro_rules | `(tactic| ro_leaf) => `(tactic| exact ro_dropUid ‹_› _)
theorem ro_scopedGid (hp : Permits P) (g : Nat) : OnlyM P (scopedGid g) := by
  unfold scopedGid
  have := ro_unitCall hp (.setresgid g) (hp.ro _ rfl)
  ro
macro_rules | `(tactic| ro_leaf) => `(tactic| exact ro_scopedGid ‹_› _)
theorem ro_scopedUid (hp : Permits P) (g : Nat) : OnlyM P (scopedUid g) := by
  unfold scopedUid
  have := ro_unitCall hp (.setresuid g) (hp.ro _ rfl)
  ro
macro_rules | `(tactic| ro_leaf) => `(tactic| exact ro_scopedUid ‹_› _)
theorem ro_setCreds (hp : Permits P) (u g : Nat) : OnlyM P (setCreds u g) := by unfold setCreds; ro
macro_rules | `(tactic| ro_leaf) => `(tactic| exact ro_setCreds ‹_› _ _)
theorem ro_dropCreds (hp : Permits P) (g : CredGuards) : OnlyM P (dropCreds g) := by unfold dropCreds; ro
macro_rules | `(tactic| ro_leaf) => `(tactic| exact ro_dropCreds ‹_› _)
theorem ro_withCreds (hp : Permits P) (u g : Nat) {body : M α} (hb : OnlyM P body) : OnlyM P (withCreds u g body) := by
  unfold withCreds; ro
theorem ro_dropCap (hp : Permits P) : OnlyM P dropCapFsetid := by unfold dropCapFsetid; ro
macro_rules | `(tactic| ro_leaf) => `(tactic| exact ro_dropCap ‹_›)
theorem ro_raiseCap (hp : Permits P) : OnlyM P raiseCapFsetid := by unfold raiseCapFsetid; ro
macro_rules | `(tactic| ro_leaf) => `(tactic| exact ro_raiseCap ‹_›)
theorem ro_withKillpriv (hp : Permits P) (c : Bool) {body : M α} (hb : OnlyM P body) : OnlyM P (withKillpriv c body) := by
  unfold withKillpriv; ro

macro "ro'" : tactic =>
  `(tactic| repeat (first | ro_leaf | refine ro_withCreds ‹_› _ _ ?_ | refine ro_withKillpriv ‹_› _ ?_ | refine onlyM_try ?_ | refine onlyM_bind ?_ ?_ | intro _ | split | dsimp only))

/-! ### the one-line-per-operation specification -/

/-- the host call(s) a request corresponds to: the only calls of the request that may change the
    host tree.  Descriptors are existentially quantified (the parent's / inode's / handle's). -/
def DirectCall : Req → HCall → Prop
  | .mkdir _ _ n m u, c => ∃ d, c = .mkdirat d n (clr m u)
  | .mknod _ _ n m r u, c => ∃ d, c = .mknodat d n (clr m u) r
  | .symlink _ t _ n, c => ∃ d, c = .symlinkat t d n
  | .unlink _ n, c => ∃ d, c = .unlinkat d n 0
  | .rmdir _ n, c => ∃ d, c = .unlinkat d n AT_REMOVEDIR
  | .rename _ on _ nn f, c => ∃ a b, c = .renameat2 a on b nn f
  | .link _ _ nn, c => ∃ a b, c = .linkat a [] b nn AT_EMPTY_PATH
  | .create _ _ n _ m u _, c => (∃ d fl, c = .openat d n fl (clr m (u &&& 0o777))) ∨ IsOpenCall c
  | .open .., c | .opendir .., c => IsOpenCall c
  | .setattr _ _ v m u g sz a an mt mn, c =>
      (has v FATTR_MODE = true ∧ ∃ f, c = .fchmod f m ∨ c = .fchmodatProc f m 0) ∨
      (has v (FATTR_UID ||| FATTR_GID) = true ∧ ∃ f, c = .fchownat f []
          (if has v FATTR_UID then u else U32_MAX) (if has v FATTR_GID then g else U32_MAX) (AT_EMPTY_PATH ||| AT_SYMLINK_NOFOLLOW)) ∨
      (has v FATTR_SIZE = true ∧ ((∃ f, c = .ftruncate f sz) ∨ IsOpenCall c)) ∨
      (has v (FATTR_ATIME ||| FATTR_MTIME) = true ∧ ∃ f,
          c = .futimens f (setattrTimes v a an mt mn).1.1 (setattrTimes v a an mt mn).1.2 (setattrTimes v a an mt mn).2.1 (setattrTimes v a an mt mn).2.2 ∨
          c = .utimensatProc f (setattrTimes v a an mt mn).1.1 (setattrTimes v a an mt mn).1.2 (setattrTimes v a an mt mn).2.1 (setattrTimes v a an mt mn).2.2 0)
  | .write _ _ d off _ _, c => (∃ f, c = .pwritev f d off) ∨ IsOpenCall c
  | .read .., c | .fsync .., c | .fsyncdir .., c => IsOpenCall c
  | .fallocate _ _ m o l, c => (∃ f, c = .fallocate f m o l) ∨ IsOpenCall c
  | .setxattr _ n v fl, c => ∃ f, c = .setxattr f n v fl
  | .removexattr _ n, c => ∃ f, c = .removexattr f n
  | _, _ => False

/-- what a request may call: tree-neutral calls, and its direct call -/
def Allowed (r : Req) (c : HCall) : Prop := c.readOnly = true ∨ DirectCall r c

theorem permits_allowed (r : Req) : Permits (Allowed r) := ⟨fun _ h => Or.inl h⟩

end Fbr.PtHost

namespace Fbr.PtHost
open Fbr.Host

attribute [local irreducible] unitCall getFile statOf fdOf statFd statInode openInode fileHandleFromFd
  openFileAndHandle doLookup validateName inodeData newHandle getData checkFdFlags createFileExcl doRelease
  doGetattr doUnlink dropGid dropUid scopedGid scopedUid setCreds dropCreds withCreds dropCapFsetid raiseCapFsetid
  withKillpriv setattrMode setattrOwner setattrSize setattrUtimens setattrData doOpen createOpenExisting createHandle
  lookup forget setattr readlink symlink mknod mkdir unlink rmdir rename link open_ opendir create read write flush
  fsync release releasedir fallocate lseek statfs setxattr getxattr listxattr removexattr

variable {α : Type} {P : HCall → Prop}

theorem ro_getData (hp : Permits P) (hopen : ∀ c, IsOpenCall c → P c) (cfg : Cfg) (d : Bool) (h i f : Nat) :
    OnlyM P (getData cfg d h i f) := by
  unfold getData
  have := ro_openInode hp hopen cfg i f
  have := ro_openInode hp hopen cfg i (f ||| O_DIRECTORY)
  ro

theorem ro_doOpen (hp : Permits P) (hopen : ∀ c, IsOpenCall c → P c) (cfg : Cfg) (i f ff : Nat) : OnlyM P (doOpen cfg i f ff) := by
  unfold doOpen
  have := ro_openInode hp hopen cfg i f
  ro'

theorem ro_createOpenExisting (hp : Permits P) (hopen : ∀ c, IsOpenCall c → P c) (cfg : Cfg) (c : Ctx) (e : Entry) (f ff : Nat) :
    OnlyM P (createOpenExisting cfg c e f ff) := by
  unfold createOpenExisting
  have := ro_openInode hp hopen cfg e.inode f
  ro'

theorem ro_createHandle (cfg : Cfg) (i : Nat) (f : Fd) (fl : Nat) : OnlyM P (createHandle cfg i f fl) := by
  unfold createHandle; ro

/-- every request only makes tree-neutral calls and its own direct call(s) -/
theorem allowed_handle (cfg : Cfg) (r : Req) : OnlyM (Allowed r) (handle cfg r) := by
  have hp := permits_allowed r
  cases r with
  | lookup p n => simp only [handle]; unfold lookup; ro'
  | forget i c => simp only [handle]; unfold forget; ro'
  | getattr i h => simp only [handle]; ro'
  | setattr i h v m u g sz a an mt mn =>
    simp only [handle]
    unfold setattr
    refine onlyM_bind (ro_inodeData _) (fun d => ?_)
    refine onlyM_bind (ro_getFile hp _) (fun file => ?_)
    refine onlyM_bind (by unfold setattrData; ro') (fun data => ?_)
    refine onlyM_bind ?_ (fun _ => onlyM_bind ?_ (fun _ => onlyM_bind ?_ (fun _ => onlyM_bind ?_ (fun _ => ro_doGetattr hp _ _ _))))
    · unfold setattrMode
      split
      · rename_i hv
        split
        · exact ro_unitCall hp _ (Or.inr (Or.inl ⟨hv, _, Or.inl rfl⟩))
        · exact ro_unitCall hp _ (Or.inr (Or.inl ⟨hv, _, Or.inr rfl⟩))
      · exact onlyM_pure _
    · unfold setattrOwner
      split
      · rename_i hv
        exact ro_unitCall hp _ (Or.inr (Or.inr (Or.inl ⟨hv, _, rfl⟩)))
      · exact onlyM_pure _
    · unfold setattrSize
      split
      · rename_i hv
        have hopen : ∀ c, IsOpenCall c → Allowed (.setattr i h v m u g sz a an mt mn) c :=
          fun c hc => Or.inr (Or.inr (Or.inr (Or.inl ⟨hv, Or.inr hc⟩)))
        refine ro_withKillpriv hp _ ?_
        split
        · exact ro_unitCall hp _ (Or.inr (Or.inr (Or.inr (Or.inl ⟨hv, Or.inl ⟨_, rfl⟩⟩))))
        · refine onlyM_bind (ro_openInode hp hopen _ _ _) (fun f => ?_)
          exact ro_unitCall hp _ (Or.inr (Or.inr (Or.inr (Or.inl ⟨hv, Or.inl ⟨_, rfl⟩⟩))))
      · exact onlyM_pure _
    · unfold setattrUtimens
      split
      · rename_i hv
        dsimp only
        split
        · exact ro_unitCall hp _ (Or.inr (Or.inr (Or.inr (Or.inr ⟨hv, _, Or.inl rfl⟩))))
        · exact ro_unitCall hp _ (Or.inr (Or.inr (Or.inr (Or.inr ⟨hv, _, Or.inr rfl⟩))))
      · exact onlyM_pure _
  | readlink i => simp only [handle]; unfold readlink; ro'
  | symlink c t p n =>
    simp only [handle]; unfold symlink
    refine onlyM_bind (ro_validateName _ _) (fun _ => onlyM_bind (ro_inodeData _) (fun d => onlyM_bind (ro_getFile hp _) (fun f => ?_)))
    have := ro_unitCall hp (.symlinkat t f n) (Or.inr ⟨_, rfl⟩)
    ro'
  | mknod c p n m rd u =>
    simp only [handle]; unfold mknod
    refine onlyM_bind (ro_validateName _ _) (fun _ => onlyM_bind (ro_inodeData _) (fun d => onlyM_bind (ro_getFile hp _) (fun f => ?_)))
    have := ro_unitCall hp (.mknodat f n (clr m u) rd) (Or.inr ⟨_, rfl⟩)
    ro'
  | mkdir c p n m u =>
    simp only [handle]; unfold mkdir
    refine onlyM_bind (ro_validateName _ _) (fun _ => onlyM_bind (ro_inodeData _) (fun d => onlyM_bind (ro_getFile hp _) (fun f => ?_)))
    have := ro_unitCall hp (.mkdirat f n (clr m u)) (Or.inr ⟨_, rfl⟩)
    ro'
  | unlink p n =>
    simp only [handle]; unfold unlink doUnlink
    refine onlyM_bind (ro_validateName _ _) (fun _ => onlyM_bind (ro_inodeData _) (fun d => onlyM_bind (ro_getFile hp _) (fun f => ?_)))
    have := ro_unitCall hp (.unlinkat f n 0) (Or.inr ⟨_, rfl⟩)
    ro'
  | rmdir p n =>
    simp only [handle]; unfold rmdir doUnlink
    refine onlyM_bind (ro_validateName _ _) (fun _ => onlyM_bind (ro_inodeData _) (fun d => onlyM_bind (ro_getFile hp _) (fun f => ?_)))
    have := ro_unitCall hp (.unlinkat f n AT_REMOVEDIR) (Or.inr ⟨_, rfl⟩)
    ro'
  | rename od on nd nn fl =>
    simp only [handle]; unfold rename
    refine onlyM_bind (ro_validateName _ _) (fun _ => onlyM_bind (ro_validateName _ _) (fun _ => onlyM_bind (ro_inodeData _) (fun a =>
      onlyM_bind (ro_inodeData _) (fun b => onlyM_bind (ro_getFile hp _) (fun fa => onlyM_bind (ro_getFile hp _) (fun fb => ?_))))))
    have := ro_unitCall hp (.renameat2 fa on fb nn fl) (Or.inr ⟨_, _, rfl⟩)
    ro'
  | link i np nn =>
    simp only [handle]; unfold link
    refine onlyM_bind (ro_validateName _ _) (fun _ => onlyM_bind (ro_inodeData _) (fun a =>
      onlyM_bind (ro_inodeData _) (fun b => onlyM_bind (ro_getFile hp _) (fun fa => onlyM_bind (ro_getFile hp _) (fun fb => ?_)))))
    have := ro_unitCall hp (.linkat fa [] fb nn AT_EMPTY_PATH) (Or.inr ⟨_, _, rfl⟩)
    ro'
  | «open» i f ff =>
    simp only [handle]; unfold open_
    have := ro_doOpen hp (fun c hc => Or.inr hc) cfg i f ff
    ro'
  | opendir i f =>
    simp only [handle]; unfold opendir
    have := ro_doOpen hp (fun c hc => Or.inr hc) cfg i (f ||| O_DIRECTORY) 0
    ro'
  | create c p n f m u ff =>
    simp only [handle]; unfold create
    refine onlyM_bind (ro_validateName _ _) (fun _ => onlyM_bind (ro_inodeData _) (fun d => onlyM_bind (ro_getFile hp _) (fun df => ?_)))
    have hcr : OnlyM (Allowed (.create c p n f m u ff)) (createFileExcl df n (writebackOpenFlags cfg.writeback f) (clr m (u &&& 0o777))) := by
      unfold createFileExcl
      refine onlyM_bind (onlyM_sys (Or.inr (Or.inl ⟨_, _, rfl⟩))) ?_
      ro
    refine onlyM_bind (ro_withCreds hp _ _ hcr) (fun nf => onlyM_bind (ro_doLookup hp _ _ _) (fun e => ?_))
    have := ro_createOpenExisting hp (fun x hx => Or.inr (Or.inr hx)) cfg c e f ff
    have := @ro_createHandle (Allowed (.create c p n f m u ff)) cfg
    refine onlyM_bind ?_ (fun file => onlyM_bind (this _ _ _) (fun _ => onlyM_pure _))
    split
    · exact onlyM_pure _
    · assumption
  | read i h sz off f =>
    simp only [handle]; unfold read
    have := ro_getData hp (fun c hc => Or.inr hc) cfg false h i O_RDONLY
    ro'
  | write i h d off f ff =>
    simp only [handle]; unfold write
    have := ro_getData hp (fun c hc => Or.inr (Or.inr hc)) cfg false h i O_RDWR
    refine onlyM_bind this (fun hd => onlyM_bind (ro_checkFdFlags hp _ _ _ _) (fun _ => ?_))
    refine ro_withKillpriv hp _ ?_
    refine onlyM_bind (onlyM_sys (Or.inr (Or.inl ⟨_, rfl⟩))) ?_
    ro
  | flush i h => simp only [handle]; unfold flush; ro'
  | fsync i h ds =>
    simp only [handle]; unfold fsync
    have := ro_getData hp (fun c hc => Or.inr hc) cfg false h i O_RDONLY
    have h1 := fun f => ro_unitCall hp (.fsync f) (hp.ro _ rfl)
    have h2 := fun f => ro_unitCall hp (.fdatasync f) (hp.ro _ rfl)
    refine onlyM_bind this (fun hd => onlyM_bind ?_ (fun _ => onlyM_pure _))
    split
    · exact h2 _
    · exact h1 _
  | fsyncdir i h ds =>
    simp only [handle]; unfold fsync
    have := ro_getData hp (fun c hc => Or.inr hc) cfg true h i O_RDONLY
    have h1 := fun f => ro_unitCall hp (.fsync f) (hp.ro _ rfl)
    have h2 := fun f => ro_unitCall hp (.fdatasync f) (hp.ro _ rfl)
    refine onlyM_bind this (fun hd => onlyM_bind ?_ (fun _ => onlyM_pure _))
    split
    · exact h2 _
    · exact h1 _
  | release i h => simp only [handle]; unfold release; ro'
  | releasedir i h => simp only [handle]; unfold releasedir; ro'
  | fallocate i h m o l =>
    simp only [handle]; unfold fallocate
    have := ro_getData hp (fun c hc => Or.inr (Or.inr hc)) cfg false h i O_RDWR
    refine onlyM_bind this (fun hd => ?_)
    have := ro_unitCall hp (.fallocate hd.fd m o l) (Or.inr (Or.inl ⟨_, rfl⟩))
    ro'
  | lseek i h o w => simp only [handle]; unfold lseek; ro'
  | statfs i => simp only [handle]; unfold statfs; ro'
  | setxattr i n v f =>
    simp only [handle]; unfold setxattr
    split
    · exact onlyM_throw _
    · refine onlyM_bind (ro_inodeData _) (fun d => onlyM_bind (ro_getFile hp _) (fun fd => ?_))
      have := ro_unitCall hp (.setxattr fd n v f) (Or.inr ⟨_, rfl⟩)
      ro'
  | getxattr i n sz => simp only [handle]; unfold getxattr; ro'
  | listxattr i sz => simp only [handle]; unfold listxattr; ro'
  | removexattr i n =>
    simp only [handle]; unfold removexattr
    split
    · exact onlyM_throw _
    · refine onlyM_bind (ro_inodeData _) (fun d => onlyM_bind (ro_getFile hp _) (fun fd => ?_))
      have := ro_unitCall hp (.removexattr fd n) (Or.inr ⟨_, rfl⟩)
      ro'

end Fbr.PtHost

namespace Fbr.PtHost
open Fbr.Host

/-- a program that only makes tree-neutral calls leaves every host object as it is -/
theorem view_of_onlyReadOnly {σ α : Type} (H : HostOps σ) [L : HostLaws H] (p : Prog α)
    (h : p.OnlyCalls (fun c => c.readOnly = true)) (s : σ) (o : Obj) :
    H.view (fin H p s) o = H.view s o := by
  induction p generalizing s with
  | pure a => rfl
  | call c k ih =>
    rw [fin_call, ih _ (h.2 _), L.view_readOnly s c h.1]

/-- requests without a direct call -/
def Req.isReadOnly : Req → Bool
  | .lookup .. | .forget .. | .getattr .. | .readlink .. | .flush .. | .release .. | .releasedir .. | .lseek ..
  | .statfs .. | .getxattr .. | .listxattr .. => true
  | _ => false

theorem onlyCalls_mono {α : Type} {P Q : HCall → Prop} (p : Prog α) (h : p.OnlyCalls P) (hpq : ∀ c, P c → Q c) : p.OnlyCalls Q := by
  induction p with
  | pure a => trivial
  | call c k ih => exact ⟨hpq _ h.1, fun a => ih a (h.2 a)⟩

theorem readOnly_requests_calls (cfg : Cfg) (s : PtState) (r : Req) (hr : r.isReadOnly = true) :
    (step cfg s r).OnlyCalls (fun c => c.readOnly = true) := by
  refine onlyCalls_mono _ ((allowed_handle cfg r).h s) ?_
  intro c hc
  rcases hc with hc | hc
  · exact hc
  · cases r <;> simp [Req.isReadOnly] at hr <;> exact absurd hc (by simp [DirectCall])

end Fbr.PtHost
