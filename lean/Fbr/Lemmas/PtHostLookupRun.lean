/-
  Fbr.Lemmas.PtHostLookupRun — the host-call phase of `do_lookup` on the reference FS
  (`getFile`, `open_file_and_handle`), and `do_lookup` as a whole: confined calls, `J` kept.
-/
import Fbr.Lemmas.PtHostLookup

namespace Fbr.PtHost
open Fbr.Host

variable {β : Type}

theorem safe_sys_bind {Q : Except Nat β × PtState → Ref.State → Prop} (c : HCall) (k : HAns → M β) (pt : PtState)
    (h : Ref.State) (hc : Ref.ConfinedOpen h c) (ht : TruncOk c)
    (hk : Safe Q (k (Ref.step h c).1 pt) (Ref.step h c).2) : Safe Q ((M.sys c >>= k) pt) h :=
  And.intro hc (And.intro ht hk)

theorem safe_fdOf_bind {Q : Except Nat β × PtState → Ref.State → Prop} (a : HAns) (rest : Fd → M β) (pt : PtState)
    (h : Ref.State) (hk : ∀ f o, a = .fd f o → Safe Q (rest f pt) h) (he : ∀ e, Q (.error e, pt) h) :
    Safe Q ((fdOf a >>= rest) pt) h := by
  cases a <;> first | exact hk _ _ rfl | exact he _

theorem safe_statOf_bind {Q : Except Nat β × PtState → Ref.State → Prop} (a : HAns) (rest : Stat → M β) (pt : PtState)
    (h : Ref.State) (hk : ∀ st, a = .st st → Safe Q (rest st pt) h) (he : ∀ e, Q (.error e, pt) h) :
    Safe Q ((statOf a >>= rest) pt) h := by
  cases a <;> first | exact hk _ rfl | exact he _

theorem truncOk_other {c : HCall} (hc : ∀ d n fl m, c ≠ .openat d n fl m) : TruncOk c :=
  fun d n fl m e => absurd e (hc d n fl m)

theorem confined_other {c : HCall} (hc : ∀ d n fl m, c ≠ .openat d n fl m) (h : Ref.State) : Ref.ConfinedOpen h c := by
  cases c <;> first | trivial | exact absurd rfl (hc _ _ _ _)

/-- `InodeHandle::get_file`: the descriptor it yields denotes the entry's object -/
theorem safe_getFile_bind {Q : Except Nat β × PtState → Ref.State → Prop} (d : InodeData) (k : Fd → M β) (pt : PtState)
    (h : Ref.State) (j : J pt h) (hd : Denotes h d.handle d.id)
    (hk : ∀ f h', J pt h' → Ref.Ext h h' → Ref.fdObj h' f = some d.id → Safe Q (k f pt) h')
    (he : ∀ e h', J pt h' → Q (.error e, pt) h') : Safe Q ((getFile d >>= k) pt) h := by
  unfold getFile
  revert hd
  cases hdh : d.handle with
  | file f => intro hd; exact hk f h j (Ref.Ext.refl h) hd
  | handle k0 =>
    intro hd
    refine safe_bindM _ _ _ _ ?_
    have hno : ∀ dd n fl m, HCall.openByHandle k0 O_PATH d.mode ≠ .openat dd n fl m := by intro _ _ _ _ e; cases e
    refine safe_sys_bind _ _ pt h (confined_other hno h) (truncOk_other hno) ?_
    have hj := j.step (.openByHandle k0 O_PATH d.mode) (confined_other hno h)
    have hans := Ref.openByHandle_path_ans h k0 d.mode
    generalize (Ref.step h (.openByHandle k0 O_PATH d.mode)).1 = ans at hans ⊢
    cases ans with
    | fd f o =>
      have := hans f o rfl
      have ho : o = d.id := by
        have h1 : h.handles k0 = some d.id := hd
        rw [this.1] at h1; exact Option.some.inj h1
      exact hk f _ hj.1 hj.2 (by rw [← ho]; exact this.2)
    | err e => exact he e _ hj.1
    | _ => exact he EIO _ hj.1

/-- `FileHandle::from_fd` -/
theorem safe_fhf_bind {Q : Except Nat β × PtState → Ref.State → Prop} (f : Fd) (k : Option Nat → M β) (pt : PtState)
    (h : Ref.State) (j : J pt h)
    (hk : ∀ ho h', J pt h' → Ref.Ext h h' → (∀ kk, ho = some kk → ∃ o, Ref.fdObj h' f = some o ∧ h'.handles kk = some o) →
      Safe Q (k ho pt) h')
    (he : ∀ e h', J pt h' → Q (.error e, pt) h') : Safe Q ((fileHandleFromFd f >>= k) pt) h := by
  unfold fileHandleFromFd
  refine safe_bindM _ _ _ _ ?_
  have hno : ∀ sz dd n fl m, HCall.nameToHandle f AT_EMPTY_PATH sz ≠ .openat dd n fl m := by intro _ _ _ _ _ e; cases e
  refine safe_sys_bind _ _ pt h (confined_other (hno 0) h) (truncOk_other (hno 0)) ?_
  have hj := j.step (.nameToHandle f AT_EMPTY_PATH 0) (confined_other (hno 0) h)
  generalize (Ref.step h (.nameToHandle f AT_EMPTY_PATH 0)).1 = ans
  generalize (Ref.step h (.nameToHandle f AT_EMPTY_PATH 0)).2 = h1 at hj ⊢
  cases ans with
  | err e =>
    by_cases h75 : (e == EOVERFLOW) = true
    · simp only [h75, if_true]
      refine safe_sys_bind _ _ pt h1 (confined_other (hno 128) h1) (truncOk_other (hno 128)) ?_
      have hj2 := hj.1.step (.nameToHandle f AT_EMPTY_PATH 128) (confined_other (hno 128) h1)
      have hans := Ref.nameToHandle_ans h1 f AT_EMPTY_PATH 128
      generalize (Ref.step h1 (.nameToHandle f AT_EMPTY_PATH 128)).1 = ans2 at hans ⊢
      cases ans2 with
      | handle kk =>
        refine hk (some kk) _ hj2.1 (hj.2.trans hj2.2) ?_
        intro kk' e'
        cases e'
        obtain ⟨o, h1o, h2o⟩ := hans kk rfl
        exact ⟨o, hj2.2.fds f o h1o, h2o⟩
      | err e2 => exact he e2 _ hj2.1
      | _ => exact he EIO _ hj2.1
    · simp only [h75, if_false]
      by_cases h95 : (e == EOPNOTSUPP) = true
      · simp only [h95, if_true]
        exact hk none _ hj.1 hj.2 (by intro _ e'; cases e')
      · simp only [h95, if_false]
        exact he e _ hj.1
  | _ => exact he E_KIND_INVALID_DATA _ hj.1

/-- `open_file_and_handle`: the lookup `openat` is confined by hypothesis; the descriptor and the
    handle it returns denote the object `statx` reports -/
theorem safe_ofh_bind {Q : Except Nat β × PtState → Ref.State → Prop} (cfg : Cfg) (dfd : Fd) (name : Name)
    (k : Fd × Option Nat × Stat → M β) (pt : PtState) (h : Ref.State) (j : J pt h)
    (hconf : Ref.ConfinedOpen h (.openat dfd name (O_NOFOLLOW ||| O_CLOEXEC ||| O_PATH) 0))
    (hk : ∀ x h', J pt h' → Ref.Ext h h' → Ref.fdObj h' x.1 = some x.2.2.obj →
      (∀ kk, x.2.1 = some kk → h'.handles kk = some x.2.2.obj) → Safe Q (k x pt) h')
    (he : ∀ e h', J pt h' → Q (.error e, pt) h') : Safe Q ((openFileAndHandle cfg dfd name >>= k) pt) h := by
  unfold openFileAndHandle
  refine safe_bindM _ _ _ _ ?_
  have ht : TruncOk (.openat dfd name (O_NOFOLLOW ||| O_CLOEXEC ||| O_PATH) 0) := by
    intro d n fl m e; cases e; right; decide
  refine safe_sys_bind _ _ pt h hconf ht ?_
  have hj := j.step _ hconf
  have hans := Ref.openat_path_ans h dfd name
  generalize (Ref.step h (.openat dfd name (O_NOFOLLOW ||| O_CLOEXEC ||| O_PATH) 0)).1 = ans at hans ⊢
  generalize (Ref.step h (.openat dfd name (O_NOFOLLOW ||| O_CLOEXEC ||| O_PATH) 0)).2 = h1 at hj hans ⊢
  refine safe_fdOf_bind ans _ pt h1 ?_ (fun e => he e h1 hj.1)
  intro f o ea
  have hf1 : Ref.fdObj h1 f = some o := hans f o ea
  -- statx
  have hno : ∀ dd n fl m, HCall.statx f [] STATX_FLAGS STATX_MASK ≠ .openat dd n fl m := by intro _ _ _ _ e; cases e
  refine safe_sys_bind _ _ pt h1 (confined_other hno h1) (truncOk_other hno) ?_
  have hj2 := hj.1.step (.statx f [] STATX_FLAGS STATX_MASK) (confined_other hno h1)
  have hans2 := Ref.statx_ans h1 f STATX_FLAGS STATX_MASK
  generalize (Ref.step h1 (.statx f [] STATX_FLAGS STATX_MASK)).1 = ans2 at hans2 ⊢
  generalize (Ref.step h1 (.statx f [] STATX_FLAGS STATX_MASK)).2 = h2 at hj2 ⊢
  refine safe_statOf_bind ans2 _ pt h2 ?_ (fun e => he e h2 hj2.1)
  intro st est
  have hf2 : Ref.fdObj h2 f = some st.obj := hj2.2.fds f _ (hans2 st est)
  have hE2 : Ref.Ext h h2 := hj.2.trans hj2.2
  -- the file handle
  by_cases hfh : cfg.inodeFileHandles = true
  · simp only [hfh, if_true]
    refine safe_fhf_bind f _ pt h2 hj2.1 ?_ he
    intro ho h3 j3 e3 hho
    refine hk (f, ho, st) h3 j3 (hE2.trans e3) (e3.fds f _ hf2) ?_
    intro kk ekk
    obtain ⟨o', h1o, h2o⟩ := hho kk ekk
    have : Ref.fdObj h3 f = some st.obj := e3.fds f _ hf2
    rw [this] at h1o
    cases h1o
    exact h2o
  · simp only [hfh]
    exact hk (f, none, st) h2 hj2.1 hE2 hf2 (by intro _ e; cases e)

theorem dotdot_startsWith : startsWith (withNul Ref.dotdot) PARENT_DIR_CSTR = true := by decide

/-- **`do_lookup` on the reference FS**: for a name without '/', every call is confined in the state
    it is issued in and the joint invariant is kept — in particular the table never gets a second
    entry for the export root, and ".." is never sent on a descriptor of the export root. -/
theorem jsafe_doLookup (cfg : Cfg) (parent : Nat) (name : Name) (hn : name.contains Ref.SLASH = false) :
    JSafe (doLookup cfg parent name) := by
  rw [doLookup_eq]
  refine ⟨fun pt h j => ?_⟩
  show Safe _ ((M.ofOption EBADF (pt.get parent) >>= _) pt) h
  cases hg : pt.get parent with
  | none => exact j
  | some dir =>
    obtain ⟨hmem, hino⟩ := get_mem hg
    show Safe _ ((getFile dir >>= _) pt) h
    refine safe_getFile_bind dir _ pt h j (j.den dir hmem) ?_ (fun _ _ j' => j')
    intro dirFile h1 j1 _ hdf
    refine safe_ofh_bind cfg dirFile _ _ pt h1 j1 ?_ ?_ (fun _ _ j' => j')
    · refine Or.inr ⟨by decide, by decide, ?_, ?_⟩
      · split
        · decide
        · exact hn
      · intro ⟨e1, e2⟩
        rw [hdf] at e1
        have hroot : dir.inode = ROOT_ID := j1.uniq dir hmem (Option.some.inj e1)
        have hp : parent = ROOT_ID := by rw [← hino]; exact hroot
        subst hp
        by_cases hs : startsWith (withNul name) PARENT_DIR_CSTR = true
        · simp only [hs, beq_self_eq_true, Bool.and_self, if_true] at e2
          cases e2
        · simp only [hs, Bool.and_false, Bool.false_eq_true, if_false] at e2
          rw [e2] at hs
          exact hs dotdot_startsWith
    · intro x h2 j2 _ hfd hh
      obtain ⟨r, hr⟩ := lookupCommit_run cfg x.1 x.2.1 x.2.2 pt
      rw [hr]
      exact j_commit cfg j2 x.1 x.2.1 x.2.2 hfd hh

end Fbr.PtHost
