/-
  Helper lemmas for C04: the `Result` of the basic operations (how many bytes `read` returns, when
  `write` fails), and that a failing space check leaves everything untouched.
-/
import Fbr.Lemmas.XportOps2

namespace Fbr.Xport

theorem allocate_isEmpty_total (segs : List Seg) (n : Nat) (h : (allocate segs n).isEmpty = true) :
    min n (total segs) = 0 := by
  rw [← total_allocate]
  cases hl : allocate segs n with
  | nil => rfl
  | cons x r => rw [hl] at h; cases h

/-- `Reader::read(buf)` returns `min(buf.len, available)` -/
theorem read_res (b : IoBufs) (w : World) (n : Nat) (hov : b.consumed + total b.segs < USIZE) :
    (Reader.read b w n).res = .ok (min n (total b.segs)) := by
  unfold Reader.read consume
  by_cases he : (allocate b.segs n).isEmpty = true
  · simp only [he, if_true]; rw [allocate_isEmpty_total _ _ he]
  · simp only [he, Bool.false_eq_true, if_false]
    have hs := copyOut_spec w (allocate b.segs n) n
    rcases hc : copyOut w (allocate b.segs n) n with ⟨w1, bs, t⟩
    rw [hc] at hs
    simp only at hs ⊢
    have ht : t = min n (total b.segs) := by rw [hs.2.2.2.2, total_allocate]; omega
    subst ht
    have hnov : ¬ (b.consumed + min n (total b.segs) ≥ USIZE) := by omega
    simp only [IoBufs.markUsed, hnov, if_false]

theorem checkAvail_ok_iff (b : IoBufs) (l : Nat) (hov : b.consumed + total b.segs < USIZE) :
    VirtioW.checkAvail b l 0 0 = .ok () ↔ l ≤ total b.segs := by
  unfold VirtioW.checkAvail
  rw [available_eq_total]
  simp only [Nat.add_zero]
  by_cases h1 : l ≥ USIZE
  · simp [h1]
    omega
  · by_cases h2 : l > total b.segs
    · simp [h1, h2]
    · simp [h1, h2]; omega

theorem checkAvail_cases (b : IoBufs) (l : Nat) :
    VirtioW.checkAvail b l 0 0 = .ok () ∨ VirtioW.checkAvail b l 0 0 = .error .invalidData := by
  unfold VirtioW.checkAvail
  simp only [Nat.add_zero]
  by_cases h1 : l ≥ USIZE
  · simp [h1]
  · by_cases h2 : l > b.available
    · simp [h1, h2]
    · simp [h1, h2]

/-- `write(buf)` with enough space returns `buf.len` -/
theorem vwrite_res_ok (b : IoBufs) (w : World) (data : Bytes) (hov : b.consumed + total b.segs < USIZE)
    (hfit : data.length ≤ total b.segs) : (VirtioW.write b w data).res = .ok data.length := by
  unfold VirtioW.write
  rw [(checkAvail_ok_iff b data.length hov).mpr hfit]
  simp only
  unfold consume
  by_cases he : (allocate b.segs data.length).isEmpty = true
  · simp only [he, if_true]
    have := allocate_isEmpty_total _ _ he
    have : data.length = 0 := by omega
    rw [this]
  · simp only [he, Bool.false_eq_true, if_false]
    have hs := copyIn_spec w (allocate b.segs data.length) data
    rcases hc : copyIn w (allocate b.segs data.length) data with ⟨w1, t⟩
    rw [hc] at hs
    simp only at hs ⊢
    have ht : t = data.length := by rw [hs.2.2.2, total_allocate]; omega
    subst ht
    have hnov : ¬ (b.consumed + data.length ≥ USIZE) := by omega
    simp only [IoBufs.markUsed, hnov, if_false]

end Fbr.Xport
