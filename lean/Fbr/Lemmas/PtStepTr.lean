/-
  C08: `step e s op` moves the server state and the client ledger together (`Tr`), for every
  request kind.
-/
import Fbr.Lemmas.PtTrace

namespace Fbr.PtRefs

@[simp] theorem tables_openInode (e : Env) (s : St) (ino : Ino) (hr : Errno) :
    (openInode e s ino hr).1.tables = s.tables := by
  unfold openInode
  split
  · rfl
  · split
    · rfl
    · split
      · rfl
      · have := tables_allocFd e s
        split
        · rename_i heq; rw [heq] at this; exact this
        · rename_i heq; rw [heq] at this
          split
          · rw [tables_freeFd]; exact this
          · exact this

/-- no host answer of the request carries a file handle -/
def DEnt.NoFh : DEnt → Prop
  | .dot => True
  | .name a => a.NoFh

def Op.NoFh : Op → Prop
  | .lookup _ _ a => a.NoFh
  | .mkdir _ _ _ a => a.NoFh
  | .mknod _ _ _ a => a.NoFh
  | .link _ _ _ _ _ a => a.NoFh
  | .create _ _ _ _ a _ => a.NoFh
  | .readdirplus _ _ _ (.ok l) _ _ => ∀ d ∈ l, d.NoFh
  | .destroy root => root.NoFh
  | .init root => root.NoFh
  | _ => True

variable {nf : Bool}

theorem entryRes_fst (x : St × Except Errno Ino) : (entryRes x).1 = x.1 := by
  obtain ⟨s, r⟩ := x; cases r <;> rfl

/-- the ledger step of a request that answers with `entryRes` -/
theorem spec_entryRes (sp : Spec) (op : Op) (x : St × Except Errno Ino)
    (hop : (∃ p pst a, op = .lookup p pst a) ∨ (∃ p pst hr a, op = .mkdir p pst hr a)
      ∨ (∃ p pst hr a, op = .mknod p pst hr a) ∨ (∃ i ist p pst hr a, op = .link i ist p pst hr a)) :
    sp.step op (entryRes x).2 = sp.afterLookup x.2 := by
  obtain ⟨s, r⟩ := x
  rcases hop with ⟨p, pst, a, e⟩ | ⟨p, pst, hr, a, e⟩ | ⟨p, pst, hr, a, e⟩ | ⟨i, ist, p, pst, hr, a, e⟩ <;>
    subst e <;> cases r <;> rfl

theorem batchForget_tr (e : Env) (l : List (Ino × Nat)) (s : St) (sp : Spec) :
    Tr e nf false s sp (batchForget e s l) (sp.forgetAll l) := by
  induction l generalizing s sp with
  | nil => exact Tr.rfl' s sp
  | cons p r ih =>
    obtain ⟨i, n⟩ := p
    exact (Tr.forget i n).trans' (ih _ _)

theorem insertInode_allocSame (s : St) (ino : Ino) (d : IData) : AllocSame s (insertInode s ino d) := by
  unfold insertInode
  cases hmg : mget s.data ino with
  | none => exact ⟨rfl, rfl, rfl⟩
  | some old =>
    have ht := AllocSame.of_tables (tables_dropIData s old)
    exact ⟨ht.devMap, ht.nextUid, ht.nextVirt⟩

theorem importRoot_tr (e : Env) (s : St) (sp : Spec) (root : HAns) (hf : nf = true → root.NoFh) :
    Tr e nf true s sp (importRoot e s root).1 sp := by
  unfold importRoot
  have h1 := tables_allocFd e s
  split
  · rename_i heq; rw [heq] at h1; exact (Tr.of_tables h1).relax
  · rename_i s1 heq; rw [heq] at h1
    split
    · exact (Tr.of_tables (by rw [tables_freeFd]; exact h1)).relax
    · rename_i f
      have h2 := tables_toOpenable e s1 f.fh
      split
      · rename_i s2 er heq2; rw [heq2] at h2
        exact (Tr.of_tables (by rw [tables_freeFd, h2]; exact h1)).relax
      · rename_i s2 heq2; rw [heq2] at h2
        apply Tr.setRoot (d := { id := f.id, fh := f.fh, refs := 2, safe := f.safe })
        · rw [data_of_tables (tables_settlePath _ _), insertInode_data, data_of_tables h2, data_of_tables h1]
        · rfl
        · rw [clob_of_tables (tables_settlePath _ _), insertInode_clobbered, clob_of_tables h2,
            clob_of_tables h1]
          simp
        · rw [lookups_of_tables (tables_settlePath _ _),
            (insertInode_maps s2 ROOT_ID { id := f.id, fh := f.fh, refs := 2, safe := f.safe }).2.2.2,
            lookups_of_tables h2, lookups_of_tables h1]
        · rw [byId_of_tables (tables_settlePath _ _),
            (insertInode_maps s2 ROOT_ID { id := f.id, fh := f.fh, refs := 2, safe := f.safe }).1,
            byId_of_tables h2, byId_of_tables h1]
        · rw [byHandle_of_tables (tables_settlePath _ _),
            (insertInode_maps s2 ROOT_ID { id := f.id, fh := f.fh, refs := 2, safe := f.safe }).2.1,
            byHandle_of_tables h2, byHandle_of_tables h1]
          rfl
        · rw [next_of_tables (tables_settlePath _ _),
            (insertInode_maps s2 ROOT_ID { id := f.id, fh := f.fh, refs := 2, safe := f.safe }).2.2.1,
            next_of_tables h2, next_of_tables h1]
        · exact (((AllocSame.of_tables h1).trans (AllocSame.of_tables h2)).trans
            (insertInode_allocSame s2 ROOT_ID _)).trans (AllocSame.of_tables (tables_settlePath _ _))
        · exact hf

theorem dropAll_tables (l : List (Ino × IData)) (s : St) : (dropAll s l).tables = s.tables := by
  induction l generalizing s with
  | nil => rfl
  | cons p r ih => obtain ⟨i, d⟩ := p; simp only [dropAll]; rw [ih, tables_dropIData]

/-- a `do_lookup` bracketed by states that differ only in the ledger -/
theorem doLookup_tr (e : Env) (s : St) (sp : Spec) (p : Ino) (pst : Bool) (a : HAns) (hf : nf = true → a.NoFh) :
    Tr e nf false s sp (doLookup e s p pst a).1 (sp.afterLookup (doLookup e s p pst a).2) :=
  Tr.lookup (doLookup_eff e s p pst a) (doLookup_effU e s p pst a) hf

theorem opMknod_tr (e : Env) (s : St) (sp : Spec) (p : Ino) (pst : Bool) (hr : Errno) (a : HAns)
    (op : Op) (hop : op = .mkdir p pst hr a ∨ op = .mknod p pst hr a) (hf : nf = true → a.NoFh) :
    Tr e nf false s sp (opMknod e s p pst hr a).1 (sp.step op (opMknod e s p pst hr a).2) := by
  have herr : ∀ er, sp.step op (.err er) = sp := by
    intro er; rcases hop with x | x <;> subst x <;> rfl
  unfold opMknod
  split
  · rw [herr]; exact Tr.rfl' s sp
  · rename_i dir _
    have h1 := tables_getFile e s dir pst
    split
    · rename_i s1 er heq; rw [heq] at h1; rw [herr]; exact Tr.of_tables h1
    · rename_i s1 heq; rw [heq] at h1
      split
      · rw [herr]; exact Tr.of_tables (by rw [tables_closeTemp]; exact h1)
      · have hl := doLookup_tr (nf := nf) e s1 sp p pst a hf
        split
        rename_i s2 r heq2
        have hfst := entryRes_fst (doLookup e s1 p pst a)
        rw [heq2] at hfst
        have hsp := spec_entryRes sp op (doLookup e s1 p pst a)
          (by rcases hop with x | x
              · exact Or.inr (Or.inl ⟨p, pst, hr, a, x⟩)
              · exact Or.inr (Or.inr (Or.inl ⟨p, pst, hr, a, x⟩)))
        rw [heq2] at hsp
        simp only at hfst hsp
        rw [hsp]
        have t0 : Tr e nf false s sp s1 sp := Tr.of_tables h1
        have t2 : Tr e nf false (doLookup e s1 p pst a).1 (sp.afterLookup (doLookup e s1 p pst a).2)
            (closeTemp s2 dir.fh.isSome) (sp.afterLookup (doLookup e s1 p pst a).2) :=
          Tr.of_tables (by rw [tables_closeTemp, hfst])
        exact (t0.trans' hl).trans' t2

theorem opLink_tr (e : Env) (s : St) (sp : Spec) (ino : Ino) (ist : Bool) (p : Ino) (pst : Bool)
    (hr : Errno) (a : HAns) (hf : nf = true → a.NoFh) :
    Tr e nf false s sp (opLink e s ino ist p pst hr a).1
      (sp.step (.link ino ist p pst hr a) (opLink e s ino ist p pst hr a).2) := by
  have herr : ∀ er, sp.step (.link ino ist p pst hr a) (.err er) = sp := fun _ => rfl
  unfold opLink
  split
  · rw [herr]; exact Tr.rfl' s sp
  · rename_i d _
    split
    · rw [herr]; exact Tr.rfl' s sp
    · rename_i dir _
      have h1 := tables_getFile e s d ist
      split
      · rename_i s1 er heq; rw [heq] at h1; rw [herr]; exact Tr.of_tables h1
      · rename_i s1 heq; rw [heq] at h1
        have h2 := tables_getFile e s1 dir pst
        split
        · rename_i s2 er heq2; rw [heq2] at h2; rw [herr]
          exact Tr.of_tables (by rw [tables_closeTemp, h2]; exact h1)
        · rename_i s2 heq2; rw [heq2] at h2
          split
          · rw [herr]; exact Tr.of_tables (by rw [tables_closeTemp, tables_closeTemp, h2]; exact h1)
          · have hl := doLookup_tr (nf := nf) e s2 sp p pst a hf
            split
            rename_i s3 r heq3
            have hfst := entryRes_fst (doLookup e s2 p pst a)
            rw [heq3] at hfst
            have hsp := spec_entryRes sp (.link ino ist p pst hr a) (doLookup e s2 p pst a)
              (Or.inr (Or.inr (Or.inr ⟨ino, ist, p, pst, hr, a, rfl⟩)))
            rw [heq3] at hsp
            simp only at hfst hsp
            rw [hsp]
            have t0 : Tr e nf false s sp s2 sp := Tr.of_tables (by rw [h2]; exact h1)
            exact (t0.trans' hl).trans' (Tr.of_tables (by rw [tables_closeTemp, tables_closeTemp, hfst]))

theorem finishCreate_tr (e : Env) (s : St) (sp : Spec) (ino : Ino) (op : Op)
    (hop : ∃ p pst x cr a ohr, op = .create p pst x cr a ohr) :
    Tr e nf false s (sp.deliver ino) (finishCreate e s ino).1 (sp.step op (finishCreate e s ino).2) := by
  obtain ⟨p, pst, x, cr, a, ohr, e1⟩ := hop
  subst e1
  unfold finishCreate
  split
  · show Tr e nf false s (sp.deliver ino) _ ({ sp.deliver ino with hnds := mput sp.hnds s.nextHandle ino } : Spec)
    exact Tr.trans' (Tr.hnds _) (Tr.frame rfl rfl rfl rfl rfl rfl ⟨rfl, rfl, rfl⟩)
  · exact Tr.of_tables (tables_freeFd s)

theorem createTail_tr (e : Env) (s : St) (sp : Spec) (p : Ino) (pst : Bool) (haveNew : Bool) (a : HAns)
    (ohr : Errno) (op : Op) (hop : ∃ p pst x cr a ohr, op = .create p pst x cr a ohr) (hf : nf = true → a.NoFh) :
    Tr e nf false s sp (createTail e s p pst haveNew a ohr).1 (sp.step op (createTail e s p pst haveNew a ohr).2) := by
  have herr : ∀ er, sp.step op (.err er) = sp := by
    intro er; obtain ⟨p, pst, x, cr, a, ohr, e1⟩ := hop; subst e1; rfl
  unfold createTail
  have hl := doLookup_eff e s p pst a
  have hlu := doLookup_effU e s p pst a
  split
  · rename_i s1 er heq
    rw [heq] at hl hlu
    rw [herr]
    exact (Tr.lookup (sp := sp) hl hlu hf).trans' (Tr.of_tables (tables_closeTemp _ _))
  · rename_i s1 ino heq
    rw [heq] at hl hlu
    have t1 : Tr e nf false s sp s1 (sp.deliver ino) := Tr.lookup hl hlu hf
    split
    · exact t1.trans' (finishCreate_tr e s1 sp ino op hop)
    · split
      · rw [herr]; exact Tr.lookup_undo hl hlu hf
      · have h2 := tables_openInode e s1 ino ohr
        split
        · rename_i s2 er heq2; rw [heq2] at h2
          rw [herr]
          have t2 : Tr e nf false s1 (sp.deliver ino) s2 (sp.deliver ino) := Tr.of_tables h2
          have t3 := Tr.forget (e := e) (nf := nf) (s := s2) (sp := sp.deliver ino) ino 1
          rw [deliver_forget_cancel] at t3
          exact (t1.trans' t2).trans' t3
        · rename_i s2 heq2; rw [heq2] at h2
          have t2 : Tr e nf false s1 (sp.deliver ino) s2 (sp.deliver ino) := Tr.of_tables h2
          exact (t1.trans' t2).trans' (finishCreate_tr e s2 sp ino op hop)

theorem opCreate_tr (e : Env) (s : St) (sp : Spec) (p : Ino) (pst : Bool) (excl : Bool) (cr : CreateAns)
    (a : HAns) (ohr : Errno) (hf : nf = true → a.NoFh) :
    Tr e nf false s sp (opCreate e s p pst excl cr a ohr).1
      (sp.step (.create p pst excl cr a ohr) (opCreate e s p pst excl cr a ohr).2) := by
  have herr : ∀ er, sp.step (.create p pst excl cr a ohr) (.err er) = sp := fun _ => rfl
  have hop : ∃ p' pst' x cr' a' ohr', Op.create p pst excl cr a ohr = .create p' pst' x cr' a' ohr' :=
    ⟨p, pst, excl, cr, a, ohr, rfl⟩
  unfold opCreate
  split
  · rw [herr]; exact Tr.rfl' s sp
  · rename_i dir _
    have h1 := tables_getFile e s dir pst
    split
    · rename_i s1 er heq; rw [heq] at h1; rw [herr]; exact Tr.of_tables h1
    · rename_i s1 heq; rw [heq] at h1
      have h2 := tables_allocFd e s1
      split
      · rename_i s2 heq2; rw [heq2] at h2; rw [herr]
        exact Tr.of_tables (by rw [tables_closeTemp, h2]; exact h1)
      · rename_i s2 heq2; rw [heq2] at h2
        have t0 : Tr e nf false s sp s2 sp := Tr.of_tables (by rw [h2]; exact h1)
        split
        · rw [herr]; exact Tr.of_tables (by rw [tables_closeTemp, tables_freeFd, h2]; exact h1)
        · simp only
          split
          · rw [herr]; exact Tr.of_tables (by rw [tables_closeTemp, tables_freeFd, h2]; exact h1)
          · have ht := createTail_tr (nf := nf) e (freeFd s2) sp p pst false a ohr _ hop hf
            have t1 : Tr e nf false s sp (freeFd s2) sp := Tr.of_tables (by rw [tables_freeFd, h2]; exact h1)
            exact (t1.trans' ht).trans' (Tr.of_tables (tables_closeTemp _ _))
        · have ht := createTail_tr (nf := nf) e s2 sp p pst true a ohr _ hop hf
          split
          rename_i s3 r heq3
          rw [heq3] at ht
          exact (t0.trans' ht).trans' (Tr.of_tables (tables_closeTemp _ _))

theorem deliverAll_append (sp : Spec) (l1 l2 : List (Ino × Bool)) :
    sp.deliverAll (l1 ++ l2) = (sp.deliverAll l1).deliverAll l2 := by
  induction l1 generalizing sp with
  | nil => rfl
  | cons p r ih =>
    obtain ⟨i, b⟩ := p
    cases b <;> simp [Spec.deliverAll, ih]

theorem rdpLoop_tr (e : Env) (dir : Ino) (tl : Tail) (sp0 : Spec) :
    ∀ (ents : List DEnt), (nf = true → ∀ d ∈ ents, d.NoFh) →
      ∀ (s : St) (fit : Nat) (first : Bool) (acc : List (Ino × Bool)),
      Tr e nf false s (sp0.deliverAll acc.reverse) (rdpLoop e s dir fit tl ents first acc).1
        (sp0.deliverAll (rdpLoop e s dir fit tl ents first acc).2.1) := by
  intro ents
  induction ents with
  | nil => intro _ s fit first acc; exact Tr.rfl' _ _
  | cons d r ih0 =>
    intro hfs s fit first acc
    have ih := ih0 (fun h x hx => hfs h x (List.mem_cons_of_mem _ hx))
    cases d with
    | dot => simp only [rdpLoop]; exact ih s fit false acc
    | name a =>
      simp only [rdpLoop]
      have hf : nf = true → a.NoFh := fun h => hfs h (.name a) List.mem_cons_self
      have hl := doLookup_eff e s dir false a
      have hlu := doLookup_effU e s dir false a
      split
      · rename_i s1 er heq
        rw [heq] at hl hlu
        exact Tr.lookup (sp := sp0.deliverAll acc.reverse) hl hlu hf
      · rename_i s1 ino heq
        rw [heq] at hl hlu
        cases fit with
        | succ k =>
          simp only
          have t1 : Tr e nf false s (sp0.deliverAll acc.reverse) s1 ((sp0.deliverAll acc.reverse).deliver ino) :=
            Tr.lookup hl hlu hf
          have e1 : (sp0.deliverAll acc.reverse).deliver ino
              = sp0.deliverAll ((ino, true) :: acc).reverse := by
            rw [List.reverse_cons, deliverAll_append]; rfl
          rw [e1] at t1
          exact t1.trans' (ih s1 k false ((ino, true) :: acc))
        | zero =>
          simp only
          have t1 : Tr e nf false s (sp0.deliverAll acc.reverse) (forgetOne e s1 ino 1) (sp0.deliverAll acc.reverse) :=
            Tr.lookup_undo hl hlu hf
          have e1 : sp0.deliverAll ((ino, false) :: acc).reverse = sp0.deliverAll acc.reverse := by
            rw [List.reverse_cons, deliverAll_append]; rfl
          cases tl <;> simp only [e1] <;> exact t1

@[simp] theorem tables_getDirdata_data (e : Env) (s : St) (ino : Ino) (h : Hnd) (dhr : Errno) :
    (getDirdata e s ino h dhr).1.tables = s.tables := by
  unfold getDirdata
  split
  · split <;> rfl
  · have := tables_openInode e s ino dhr
    split
    · rename_i heq; rw [heq] at this; exact this
    · rename_i heq; rw [heq] at this; exact this

theorem consumeCookie_frame (e : Env) (s : St) (h : Hnd) :
    (consumeCookie e s h).data = s.data ∧ (consumeCookie e s h).clobbered = s.clobbered
    ∧ (consumeCookie e s h).lookups = s.lookups ∧ (consumeCookie e s h).byId = s.byId
    ∧ (consumeCookie e s h).byHandle = s.byHandle ∧ (consumeCookie e s h).next = s.next := by
  unfold consumeCookie; split <;> exact ⟨rfl, rfl, rfl, rfl, rfl, rfl⟩

theorem cacheCookie_frame (e : Env) (s : St) (h : Hnd) (l : List DEnt) :
    (cacheCookie e s h l).data = s.data ∧ (cacheCookie e s h l).clobbered = s.clobbered
    ∧ (cacheCookie e s h l).lookups = s.lookups ∧ (cacheCookie e s h l).byId = s.byId
    ∧ (cacheCookie e s h l).byHandle = s.byHandle ∧ (cacheCookie e s h l).next = s.next := by
  unfold cacheCookie; split <;> exact ⟨rfl, rfl, rfl, rfl, rfl, rfl⟩

theorem opReaddirplus_tr (e : Env) (s : St) (sp : Spec) (ino : Ino) (h : Hnd) (dhr : Errno)
    (lst : Except Errno (List DEnt)) (fit : Nat) (tl : Tail)
    (hf : nf = true → Op.NoFh (.readdirplus ino h dhr lst fit tl)) :
    Tr e nf false s sp (opReaddirplus e s ino h dhr lst fit tl).1
      (sp.step (.readdirplus ino h dhr lst fit tl) (opReaddirplus e s ino h dhr lst fit tl).2) := by
  unfold opReaddirplus
  have h1 := tables_getDirdata_data e s ino h dhr
  split
  · rename_i s1 er _ heq; rw [heq] at h1; exact Tr.of_tables h1
  · rename_i s1 tmp heq; rw [heq] at h1
    have hc := consumeCookie_frame e s1 h
    have t0 : Tr e nf false s sp (consumeCookie e s1 h) sp :=
      (Tr.of_tables h1).trans' (Tr.frame hc.1 hc.2.1 hc.2.2.1 hc.2.2.2.1 hc.2.2.2.2.1 hc.2.2.2.2.2
        (by unfold consumeCookie; split <;> exact ⟨rfl, rfl, rfl⟩))
    split
    · exact t0.trans' (Tr.of_tables (tables_closeTemp _ _))
    · rename_i l
      have hk := cacheCookie_frame e (consumeCookie e s1 h) h l
      have t1 : Tr e nf false s sp (cacheCookie e (consumeCookie e s1 h) h l) sp :=
        t0.trans' (Tr.frame hk.1 hk.2.1 hk.2.2.1 hk.2.2.2.1 hk.2.2.2.2.1 hk.2.2.2.2.2
          (by unfold cacheCookie; split <;> exact ⟨rfl, rfl, rfl⟩))
      have hr := rdpLoop_tr (nf := nf) e ino tl sp l hf (cacheCookie e (consumeCookie e s1 h) h l) fit true []
      split
      rename_i s2 acc er heq2
      rw [heq2] at hr
      exact (t1.trans' hr).trans' (Tr.of_tables (tables_closeTemp _ _))

/-- does the request (re-)import the root / clear the tables? -/
def Op.isDestroy : Op → Bool
  | .destroy _ => true
  | .init _ => true
  | _ => false

/-- **every request moves the server state and the client ledger together** -/
theorem step_tr (e : Env) (s : St) (sp : Spec) (op : Op) (hf : nf = true → op.NoFh) :
    Tr e nf op.isDestroy s sp (step e s op).1 (sp.step op (step e s op).2) := by
  cases op with
  | lookup p pst a =>
    simp only [step]
    rw [spec_entryRes sp _ _ (Or.inl ⟨p, pst, a, rfl⟩), entryRes_fst]
    exact doLookup_tr e s sp p pst a hf
  | forget i n => exact Tr.forget i n
  | batchForget l => exact batchForget_tr e l s sp
  | mkdir p pst hr a => exact opMknod_tr e s sp p pst hr a _ (Or.inl rfl) hf
  | mknod p pst hr a => exact opMknod_tr e s sp p pst hr a _ (Or.inr rfl) hf
  | link i ist p pst hr a => exact opLink_tr e s sp i ist p pst hr a hf
  | create p pst x cr a ohr => exact opCreate_tr e s sp p pst x cr a ohr hf
  | «open» i hr =>
    simp only [step, opOpen]
    split
    · exact Tr.rfl' s sp
    · unfold doOpen
      have h1 := tables_openInode e s i hr
      split
      · rename_i s1 er heq; rw [heq] at h1; exact Tr.of_tables h1
      · rename_i s1 heq; rw [heq] at h1
        exact ((Tr.of_tables h1).trans' (Tr.hnds _)).trans' (Tr.frame rfl rfl rfl rfl rfl rfl ⟨rfl, rfl, rfl⟩)
  | opendir i hr =>
    simp only [step, opOpendir]
    split
    · exact Tr.rfl' s sp
    · unfold doOpen
      have h1 := tables_openInode e s i hr
      split
      · rename_i s1 er heq; rw [heq] at h1; exact Tr.of_tables h1
      · rename_i s1 heq; rw [heq] at h1
        exact ((Tr.of_tables h1).trans' (Tr.hnds _)).trans' (Tr.frame rfl rfl rfl rfl rfl rfl ⟨rfl, rfl, rfl⟩)
  | release i h =>
    simp only [step, opRelease]
    split
    · exact Tr.rfl' s sp
    · unfold doRelease
      split
      · exact (Tr.hnds _).trans' (Tr.frame rfl rfl rfl rfl rfl rfl ⟨rfl, rfl, rfl⟩)
      · exact Tr.rfl' s sp
  | releasedir i h =>
    simp only [step, opReleasedir]
    split
    · exact Tr.rfl' s sp
    · unfold doRelease
      split
      · exact (Tr.hnds _).trans' (Tr.frame rfl rfl rfl rfl rfl rfl ⟨rfl, rfl, rfl⟩)
      · exact Tr.rfl' s sp
  | readdirplus i h dhr lst fit tl => exact opReaddirplus_tr e s sp i h dhr lst fit tl hf
  | getattr i h hr =>
    simp only [step, opGetattr]
    split
    · exact Tr.rfl' s sp
    · split
      · split <;> exact Tr.rfl' s sp
      · split
        · exact Tr.rfl' s sp
        · split
          · exact Tr.rfl' s sp
          · have h1 := tables_allocFd e s
            split
            · rename_i heq; rw [heq] at h1; exact Tr.of_tables h1
            · rename_i heq; rw [heq] at h1
              split <;> exact Tr.of_tables (by rw [tables_freeFd]; exact h1)
  | rename p1 st1 p2 st2 hr =>
    simp only [step, opRename]
    split
    · rename_i d1 d2 _ _
      have h1 := tables_getFile e s d1 st1
      split
      · rename_i heq; rw [heq] at h1; exact Tr.of_tables h1
      · rename_i s1 heq; rw [heq] at h1
        have h2 := tables_getFile e s1 d2 st2
        split
        · rename_i heq2; rw [heq2] at h2
          exact Tr.of_tables (by rw [tables_closeTemp, h2]; exact h1)
        · rename_i heq2; rw [heq2] at h2
          split <;> exact Tr.of_tables (by rw [tables_closeTemp, tables_closeTemp, h2]; exact h1)
    · exact Tr.rfl' s sp
  | unlink p pst hr =>
    simp only [step, opUnlink]
    split
    · exact Tr.rfl' s sp
    · rename_i d _
      have h1 := tables_getFile e s d pst
      split
      · rename_i heq; rw [heq] at h1; exact Tr.of_tables h1
      · rename_i heq; rw [heq] at h1
        split <;> exact Tr.of_tables (by rw [tables_closeTemp]; exact h1)
  | destroy root =>
    simp only [step, opDestroy]
    have hclear : Tr e nf true s sp (clearAll s) Spec.init := by
      have hsame : AllocSame s (clearAll s) := by
        unfold clearAll
        have h2 := AllocSame.of_tables (dropAll_tables s.data
          ({ ({ s with fds := s.fds - s.handles.length, handles := [], cookies := [] } : St) with
            data := [], byId := [], byHandle := [] } : St))
        exact ⟨h2.devMap, h2.nextUid, h2.nextVirt⟩
      unfold clearAll
      apply Tr.clear
      · rw [data_of_tables (dropAll_tables _ _)]
      · rw [clob_of_tables (dropAll_tables _ _)]
      · rw [lookups_of_tables (dropAll_tables _ _)]
      · rw [byId_of_tables (dropAll_tables _ _)]
      · rw [byHandle_of_tables (dropAll_tables _ _)]
      · rw [next_of_tables (dropAll_tables _ _)]
      · exact hsame
    have hi := importRoot_tr (nf := nf) e (clearAll s) Spec.init root hf
    exact Tr.trans hclear hi
  | init root =>
    simp only [step, opInit]
    have hi := importRoot_tr (nf := nf) e s sp root hf
    split
    · rename_i heq; rw [heq] at hi; exact hi
    · rename_i heq; rw [heq] at hi; exact hi

end Fbr.PtRefs
