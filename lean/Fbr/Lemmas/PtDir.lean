/-
  Helper lemmas for C16 (record level): positions in a host directory, `getdents`, the
  linear-scan fallback, the dot-only refetch loop, the record loop under the server's accounting.
-/
import Fbr.PtDir

namespace Fbr.Lemmas.PtDir
open Fbr.PtDir Fbr.Wire

/-- well-formed host directory: distinct non-zero cookies, names without NUL -/
structure WF (d : Dir) : Prop where
  nodup : (d.map (·.cookie)).Nodup
  nonzero : ∀ e ∈ d, e.cookie ≠ 0
  nonul : ∀ e ∈ d, ∀ b ∈ e.name, b ≠ 0

/-- `c` is a position of an fd on `d` and `rest` is what follows it: the start, or right after
    the record whose cookie is `c` -/
def Pos (d : Dir) (c : Nat) (rest : Dir) : Prop :=
  (c = 0 ∧ rest = d) ∨ (∃ pre e, d = pre ++ e :: rest ∧ e.cookie = c)

theorem skipL_append (pre : Dir) (e : HEnt) (rest : Dir) (c : Nat)
    (hpre : ∀ x ∈ pre, x.cookie ≠ c) (he : e.cookie = c) :
    skipToCookieL (pre ++ e :: rest) c = some rest := by
  induction pre with
  | nil => simp [skipToCookieL, he]
  | cons x xs ih =>
    have hx : x.cookie ≠ c := hpre x (by simp)
    simp only [List.cons_append, skipToCookieL, hx, if_false]
    exact ih (fun y hy => hpre y (by simp [hy]))

theorem skipL_none (b : Dir) (c : Nat) (h : ∀ x ∈ b, x.cookie ≠ c) : skipToCookieL b c = none := by
  induction b with
  | nil => rfl
  | cons x xs ih =>
    have hx : x.cookie ≠ c := h x (by simp)
    simp only [skipToCookieL, hx, if_false]
    exact ih (fun y hy => h y (by simp [hy]))

theorem skipL_none_mem (b : Dir) (c : Nat) (h : skipToCookieL b c = none) : ∀ x ∈ b, x.cookie ≠ c := by
  induction b with
  | nil => intro x hx; simp at hx
  | cons z zs ih =>
    simp only [skipToCookieL] at h
    split at h
    · cases h
    · rename_i hz
      intro x hx
      rcases List.mem_cons.mp hx with h1 | h1
      · subst h1; exact hz
      · exact ih h x h1

theorem skipL_some (b : Dir) (c : Nat) (r : Dir) (h : skipToCookieL b c = some r) :
    ∃ pre e, b = pre ++ e :: r ∧ e.cookie = c ∧ ∀ x ∈ pre, x.cookie ≠ c := by
  induction b with
  | nil => simp [skipToCookieL] at h
  | cons x xs ih =>
    simp only [skipToCookieL] at h
    split at h
    · rename_i hx
      cases h
      exact ⟨[], x, rfl, hx, by simp⟩
    · rename_i hx
      obtain ⟨pre, e, h1, h2, h3⟩ := ih h
      refine ⟨x :: pre, e, by simp [h1], h2, ?_⟩
      intro y hy
      rcases List.mem_cons.mp hy with h | h
      · subst h; exact hx
      · exact h3 y h

theorem nodup_pre {d pre : Dir} {e : HEnt} {rest : Dir} (hn : (d.map (·.cookie)).Nodup)
    (hd : d = pre ++ e :: rest) : ∀ x ∈ pre, x.cookie ≠ e.cookie := by
  subst hd
  intro x hx heq
  simp only [List.map_append, List.map_cons] at hn
  have := (List.nodup_append.mp hn).2.2 x.cookie (List.mem_map.mpr ⟨x, hx, rfl⟩) e.cookie (by simp)
  exact this heq

theorem after_of_pos {d : Dir} (wf : WF d) {c : Nat} {rest : Dir} (hp : Pos d c rest) : after d c = rest := by
  rcases hp with ⟨h0, hr⟩ | ⟨pre, e, hd, hc⟩
  · subst h0; subst hr; simp [after]
  · have hne : c ≠ 0 := by
      rw [← hc]; exact wf.nonzero e (by rw [hd]; simp)
    have hpre : ∀ x ∈ pre, x.cookie ≠ c := by rw [← hc]; exact nodup_pre wf.nodup hd
    simp only [after, hne, if_false]
    rw [hd, skipL_append pre e rest c hpre hc]
    rfl

theorem pos_advance {d : Dir} {c : Nat} {b t : Dir} (hp : Pos d c (b ++ t)) (hb : b ≠ []) :
    Pos d (b.getLast hb).cookie t := by
  have hsplit : b = b.dropLast ++ [b.getLast hb] := (List.dropLast_concat_getLast hb).symm
  rcases hp with ⟨_, hr⟩ | ⟨pre, e, hd, _⟩
  · right
    refine ⟨b.dropLast, b.getLast hb, ?_, rfl⟩
    rw [← hr]
    conv => lhs; rw [hsplit]
    simp
  · right
    refine ⟨pre ++ e :: b.dropLast, b.getLast hb, ?_, rfl⟩
    rw [hd]
    conv => lhs; rw [hsplit]
    simp

theorem fitPrefix_prefix (size : Nat) (l : Dir) : ∃ t, l = fitPrefix size l ++ t := by
  induction l generalizing size with
  | nil => exact ⟨[], rfl⟩
  | cons e r ih =>
    simp only [fitPrefix]
    split
    · obtain ⟨t, ht⟩ := ih (size - reclen e)
      exact ⟨t, by simp [← ht]⟩
    · exact ⟨e :: r, rfl⟩

theorem fitPrefix_ne_nil (size : Nat) (e : HEnt) (r : Dir) (h : reclen e ≤ size) : fitPrefix size (e :: r) ≠ [] := by
  simp [fitPrefix, h]

theorem lastCookieL_eq (b : Dir) (hb : b ≠ []) : lastCookieL b = some (b.getLast hb).cookie := by
  simp [lastCookieL, List.getLast?_eq_some_getLast hb]

/-- what `getdents` does at a position -/
theorem getdents_at {d : Dir} (wf : WF d) {c : Nat} {rest : Dir} (hp : Pos d c rest) (size : Nat) :
    (rest = [] → getdents d size c = .ok ([], c)) ∧
    (∀ e r, rest = e :: r → reclen e > size → getdents d size c = .error EINVAL) ∧
    (∀ e r, rest = e :: r → reclen e ≤ size →
      ∃ b t c', getdents d size c = .ok (b, c') ∧ b ≠ [] ∧ rest = b ++ t ∧ lastCookieL b = some c' ∧ Pos d c' t) := by
  have ha := after_of_pos wf hp
  refine ⟨?_, ?_, ?_⟩
  · intro hr; subst hr; simp [getdents, ha]
  · intro e r hr hgt; subst hr; simp [getdents, ha, hgt]
  · intro e r hr hle
    subst hr
    obtain ⟨t, ht⟩ := fitPrefix_prefix size (e :: r)
    have hne := fitPrefix_ne_nil size e r hle
    refine ⟨fitPrefix size (e :: r), t, ((fitPrefix size (e :: r)).getLast hne).cookie, ?_, hne, ht, lastCookieL_eq _ hne, ?_⟩
    · have : ¬ (reclen e > size) := by omega
      simp [getdents, ha, this, lastCookieL_eq _ hne]
    · rw [ht] at hp
      exact pos_advance hp hne

/-! ### descriptors (no `eofQuirk`) -/

theorem getdentsFd_noquirk (H : Host) (hq : H.eofQuirk = false) (size : Nat) (fd : Fd) :
    getdentsFd H size fd =
      match getdents H.dir size fd.pos with
      | .error e => (.error e, { fd with fresh := false, stale := false })
      | .ok (b, p) => (.ok b, { pos := p, fresh := false, stale := false }) := by
  unfold getdentsFd
  simp only [hq, Bool.false_and, Bool.false_eq_true, if_false]
  cases getdents H.dir size fd.pos <;> rfl

/-- one `getdents64` on a descriptor standing at a position whose next record fits -/
theorem gdFd {H : Host} (wf : WF H.dir) (hq : H.eofQuirk = false) {size : Nat} {fd : Fd} {t : Dir}
    (hp : Pos H.dir fd.pos t) (hfit : ∀ e r, t = e :: r → reclen e ≤ size) :
    ∃ b t' fd', getdentsFd H size fd = (.ok b, fd') ∧ t = b ++ t' ∧ Pos H.dir fd'.pos t' ∧
      (b = [] → t = []) ∧ (b ≠ [] → lastCookieL b = some fd'.pos) := by
  rw [getdentsFd_noquirk H hq]
  obtain ⟨h1, _, h3⟩ := getdents_at wf hp size
  cases t with
  | nil =>
    rw [h1 rfl]
    exact ⟨[], [], _, rfl, rfl, hp, fun _ => rfl, fun h => absurd rfl h⟩
  | cons e r =>
    obtain ⟨b, t', c', hg, hne, hsplit, hl, hp'⟩ := h3 e r rfl (hfit e r rfl)
    rw [hg]
    exact ⟨b, t', _, rfl, hsplit, hp', fun h => absurd h hne, fun _ => hl⟩

/-- every record of `rest` that is preceded only by "." / ".." records fits in `size` bytes:
    what the refetch loop needs so that no `getdents64` fails with `EINVAL` -/
def Fits (size : Nat) (rest : Dir) : Prop :=
  ∀ pre e r, rest = pre ++ e :: r → pre.all isDot = true → reclen e ≤ size

/-- state reached after the fetch phase: `rest0` (what follows the requested cookie) is
    `dots ++ b ++ t`, the skipped `dots` are all "." / "..", the fd stands right after `b` -/
structure Post (d : Dir) (rest0 : Dir) (b : Dir) (fd : Fd) : Prop where
  split : ∃ dots t, rest0 = dots ++ b ++ t ∧ dots.all isDot = true ∧ Pos d fd.pos t ∧ (b = [] → t = [])
  last : b ≠ [] → lastCookieL b = some fd.pos

theorem refetch_post {H : Host} (wf : WF H.dir) (hq : H.eofQuirk = false) (size : Nat) (rest0 : Dir)
    (hfits : Fits size rest0) :
    ∀ (fuel : Nat) (b : Dir) (fd : Fd) (dots t : Dir), rest0 = dots ++ b ++ t → dots.all isDot = true →
      Pos H.dir fd.pos t → (b = [] → t = []) → (b ≠ [] → lastCookieL b = some fd.pos) → t.length < fuel →
      ∃ b' fd', refetch H size fuel b fd = (.ok b', fd') ∧ Post H.dir rest0 b' fd' ∧
        (b' ≠ [] → onlyDotsL b' = false) := by
  intro fuel
  induction fuel with
  | zero => intro b fd dots t _ _ _ _ _ hlt; omega
  | succ fuel ih =>
    intro b fd dots t hsplit hdots hp hbt hlast hlt
    unfold refetch
    by_cases hcond : (!b.isEmpty && onlyDotsL b) = true
    · simp only [hcond, if_true]
      simp only [Bool.and_eq_true, Bool.not_eq_true', List.isEmpty_eq_false_iff] at hcond
      obtain ⟨hbne, hbdots⟩ := hcond
      have hfit : ∀ e r, t = e :: r → reclen e ≤ size := by
        intro e r ht
        apply hfits (dots ++ b) e r
        · rw [hsplit, ht]
        · simp [List.all_append, hdots]; exact (by simpa [onlyDotsL] using hbdots)
      obtain ⟨b2, t2, fd2, hg, ht, hp2, hb2, hl2⟩ := gdFd wf hq hp hfit
      rw [hg]
      simp only
      cases hb2e : b2 with
      | nil =>
        -- end of directory: the next round stops
        have ht0 : t = [] := hb2 hb2e
        subst hb2e
        have : refetch H size fuel [] fd2 = (.ok [], fd2) := by
          cases fuel <;> simp [refetch]
        rw [this]
        refine ⟨[], fd2, rfl, ⟨⟨dots ++ b, [], ?_, ?_, ?_, fun _ => rfl⟩, fun h => absurd rfl h⟩, fun h => absurd rfl h⟩
        · rw [hsplit, ht0]; simp
        · simp [List.all_append, hdots]; exact (by simpa [onlyDotsL] using hbdots)
        · rw [ht0] at ht
          have : t2 = [] := by simpa using ht.symm
          rw [this] at hp2; exact hp2
      | cons x xs =>
        have hne : b2 ≠ [] := by rw [hb2e]; simp
        rw [← hb2e]
        apply ih b2 fd2 (dots ++ b) t2
        · rw [hsplit, ht]; simp
        · simp [List.all_append, hdots]; exact (by simpa [onlyDotsL] using hbdots)
        · exact hp2
        · intro h; exact absurd h hne
        · exact hl2
        · have : t.length = b2.length + t2.length := by rw [ht]; simp
          have : b2.length ≥ 1 := by rw [hb2e]; simp
          omega
    · simp only [hcond, Bool.false_eq_true, if_false]
      refine ⟨b, fd, rfl, ⟨⟨dots, t, hsplit, hdots, hp, hbt⟩, hlast⟩, ?_⟩
      intro hne
      simp only [Bool.and_eq_true, Bool.not_eq_true', List.isEmpty_eq_false_iff, not_and] at hcond
      have := hcond hne
      simpa using this

/-! ### positioning: cached-cookie hit, `lseek64`, linear-scan fallback -/

theorem fetch_seek_post {H : Host} (wf : WF H.dir) (hq : H.eofQuirk = false) {size offset : Nat} {rest0 : Dir}
    (hp : Pos H.dir offset rest0) (hfits : Fits size rest0) (hit : Bool) (fd0 : Fd)
    (hpos : hit = true → fd0.pos = offset)
    (hseek : hit = false → offset ≤ I64_MAX ∧ H.seekErr offset = none) :
    ∃ b fd1, fetch H hit fd0 size offset = (.ok b, fd1) ∧ Post H.dir rest0 b fd1 := by
  have hfit : ∀ e r, rest0 = e :: r → reclen e ≤ size := fun e r h => hfits [] e r (by simp [h]) rfl
  unfold fetch
  cases hit with
  | true =>
    simp only [if_true]
    have hp' : Pos H.dir fd0.pos rest0 := by rw [hpos rfl]; exact hp
    obtain ⟨b, t', fd', hg, ht, hp2, hb, hl⟩ := gdFd wf hq hp' hfit
    refine ⟨b, fd', hg, ⟨⟨[], t', by simp [ht], rfl, hp2, ?_⟩, hl⟩⟩
    intro hbe
    have := hb hbe
    rw [this, hbe] at ht
    simpa using ht.symm
  | false =>
    obtain ⟨hle, hse⟩ := hseek rfl
    have : ¬ (offset > I64_MAX) := by omega
    simp only [Bool.false_eq_true, if_false, this, hse]
    have hp' : Pos H.dir ({ fd0 with pos := offset } : Fd).pos rest0 := hp
    obtain ⟨b, t', fd', hg, ht, hp2, hb, hl⟩ := gdFd wf hq hp' hfit
    refine ⟨b, fd', hg, ⟨⟨[], t', by simp [ht], rfl, hp2, ?_⟩, hl⟩⟩
    intro hbe
    have := hb hbe
    rw [this, hbe] at ht
    simpa using ht.symm

theorem decomp_unique {d a a' r r' : Dir} {e e' : HEnt} (hn : (d.map (·.cookie)).Nodup)
    (h1 : d = a ++ e :: r) (h2 : d = a' ++ e' :: r') (hc : e.cookie = e'.cookie) : r = r' := by
  have s1 := skipL_append a e r e.cookie (nodup_pre hn h1) rfl
  have s2 := skipL_append a' e' r' e.cookie (by rw [hc]; exact nodup_pre hn h2) hc.symm
  rw [← h1] at s1
  rw [← h2] at s2
  rw [s1] at s2
  exact Option.some.inj s2

theorem lastCookieL_append (a b : Dir) (hb : b ≠ []) : lastCookieL (a ++ b) = lastCookieL b := by
  obtain ⟨x, hx⟩ : ∃ x, b.getLast? = some x := ⟨_, List.getLast?_eq_some_getLast hb⟩
  simp [lastCookieL, hx]

/-- the scan once the target record has been consumed: the next batch is the reply -/
theorem scan_found {H : Host} (wf : WF H.dir) (hq : H.eofQuirk = false) {size offset : Nat} {rest0 : Dir}
    (hfit : ∀ e r, rest0 = e :: r → reclen e ≤ size) (fuel : Nat) (fd : Fd)
    (hp : Pos H.dir fd.pos rest0) :
    ∃ b fd', scan H size offset (fuel + 1) fd true = (.ok b, fd') ∧ Post H.dir rest0 b fd' := by
  obtain ⟨b, t', fd', hg, ht, hp2, hb, hl⟩ := gdFd wf hq hp hfit
  unfold scan
  rw [hg]
  simp only
  cases hbe : b with
  | nil =>
    simp only [List.isEmpty_nil, if_true]
    have h0 := hb hbe
    refine ⟨[], fd', rfl, ⟨⟨[], [], by simp [h0], rfl, ?_, fun _ => rfl⟩, fun h => absurd rfl h⟩⟩
    rw [h0, hbe] at ht
    have : t' = [] := by simpa using ht.symm
    rw [this] at hp2; exact hp2
  | cons x xs =>
    simp only [List.isEmpty_cons, Bool.false_eq_true, if_false, if_true]
    rw [← hbe]
    refine ⟨b, fd', rfl, ⟨⟨[], t', by simp [ht], rfl, hp2, fun h => absurd h (by rw [hbe]; simp)⟩, hl⟩⟩

theorem scan_post {H : Host} (wf : WF H.dir) (hq : H.eofQuirk = false) {size offset : Nat} {rest0 pre : Dir}
    {tgt : HEnt} (hpre : ∀ x ∈ pre ++ [tgt], reclen x ≤ size) (hfit0 : ∀ e r, rest0 = e :: r → reclen e ≤ size)
    (htgt : H.dir = pre ++ tgt :: rest0) (hc : tgt.cookie = offset) :
    ∀ (fuel : Nat) (fd : Fd) (consumed t : Dir), H.dir = consumed ++ t → Pos H.dir fd.pos t →
      (∀ x ∈ consumed, x.cookie ≠ offset) → t.length + 2 ≤ fuel →
      ∃ b fd', scan H size offset fuel fd false = (.ok b, fd') ∧ Post H.dir rest0 b fd' := by
  intro fuel
  induction fuel with
  | zero => intro fd consumed t _ _ _ h; omega
  | succ fuel ih =>
    intro fd consumed t hd hp hcons hfuel
    -- the target is still ahead
    have htin : tgt ∈ t := by
      have : tgt ∈ consumed ++ t := by rw [← hd, htgt]; simp
      rcases List.mem_append.mp this with h | h
      · exact absurd hc (hcons tgt h)
      · exact h
    -- so the next record is the target or one before it: it fits
    have hfit : ∀ e r, t = e :: r → reclen e ≤ size := by
      intro e r h
      rw [h] at htin
      rcases List.mem_cons.mp htin with h1 | h1
      · rw [← h1]; exact hpre tgt (by simp)
      · obtain ⟨r1, r2, hr⟩ := List.append_of_mem h1
        have hd2 : H.dir = (consumed ++ e :: r1) ++ tgt :: r2 := by rw [hd, h, hr]; simp
        have hr2 : r2 = rest0 := decomp_unique wf.nodup hd2 htgt rfl
        have hpe : consumed ++ e :: r1 = pre := by
          have h3 := hd2.symm.trans htgt
          rw [hr2] at h3
          exact List.append_cancel_right h3
        exact hpre e (by rw [← hpe]; simp)
    obtain ⟨b, t2, fd2, hg, ht, hp2, hb, hl⟩ := gdFd wf hq hp hfit
    -- …and the batch is not empty
    have hbne : b ≠ [] := by
      intro hbe
      rw [hb hbe] at htin
      simp at htin
    unfold scan
    rw [hg]
    simp only
    have hie : b.isEmpty = false := by simpa using hbne
    simp only [hie, Bool.false_eq_true, if_false]
    cases hs : skipToCookieL b offset with
    | none =>
      simp only
      apply ih fd2 (consumed ++ b) t2
      · rw [hd, ht]; simp
      · exact hp2
      · intro x hx
        rcases List.mem_append.mp hx with h | h
        · exact hcons x h
        · exact skipL_none_mem b offset hs x h
      · have : t.length = b.length + t2.length := by rw [ht]; simp
        have : b.length ≥ 1 := List.length_pos_iff.mpr hbne
        omega
    | some rest =>
      simp only
      obtain ⟨p, e', hbd, he', _⟩ := skipL_some b offset rest hs
      -- `rest ++ t2` is what follows the target
      have hr0 : rest ++ t2 = rest0 := by
        apply decomp_unique wf.nodup (e := e') (e' := tgt) (a := consumed ++ p) (a' := pre) _ htgt (by rw [he', hc])
        rw [hd, ht, hbd]; simp
      cases hre : rest with
      | nil =>
        simp only [List.isEmpty_nil, Bool.not_true, Bool.false_eq_true, if_false]
        rw [hre] at hr0
        simp only [List.nil_append] at hr0
        cases fuel with
        | zero => omega
        | succ f =>
          apply scan_found wf hq hfit0 f fd2 _
          rw [← hr0]; exact hp2
      | cons x xs =>
        simp only [List.isEmpty_cons, Bool.not_false, if_true]
        rw [← hre]
        have hrne : rest ≠ [] := by rw [hre]; simp
        refine ⟨rest, fd2, rfl, ⟨⟨[], t2, by simp [hr0], rfl, hp2, fun h => absurd h hrne⟩, ?_⟩⟩
        intro _
        have := hl hbne
        rw [hbd] at this
        have h2 : p ++ e' :: rest = (p ++ [e']) ++ rest := by simp
        rw [h2, lastCookieL_append _ _ hrne] at this
        exact this

end Fbr.Lemmas.PtDir
