/-
  C15: the handle table is exactly the set of handles the client holds (`Spec.hnds`).
-/
import Fbr.PtSpec
import Fbr.Lemmas.PtStepTr

namespace Fbr.PtRefs

theorem forgetOne_handles (e : Env) (s : St) (i : Ino) (n : Nat) :
    (forgetOne e s i n).handles = s.handles := by
  unfold forgetOne
  split
  · rfl
  · split
    · rfl
    · rename_i d _
      simp only
      split
      · unfold removeInode
        simp only
        rw [handles_of_tables (tables_dropIData _ d)]
        split <;> rfl
      · rfl

theorem batchForget_handles (e : Env) (l : List (Ino × Nat)) (s : St) :
    (batchForget e s l).handles = s.handles := by
  induction l generalizing s with
  | nil => rfl
  | cons p r ih => obtain ⟨i, n⟩ := p; simp only [batchForget]; rw [ih, forgetOne_handles]

theorem insertInode_handles (s : St) (ino : Ino) (d : IData) : (insertInode s ino d).handles = s.handles := by
  unfold insertInode
  split
  · rename_i old _; simp [handles_of_tables (tables_dropIData s old)]
  · rfl

theorem lookupInsert_handles (e : Env) (s : St) (f : HFile) : (lookupInsert e s f).1.handles = s.handles := by
  unfold lookupInsert
  have h1 := tables_toOpenable e s f.fh
  split
  · rename_i s1 er heq; rw [heq] at h1
    rw [handles_of_tables (tables_freeFd _)]; exact handles_of_tables h1
  · rename_i s1 heq; rw [heq] at h1
    have hfr := allocateInode_frame e s1 f.id f.fh
    split
    · rename_i s2 er heq2; rw [heq2] at hfr
      rw [handles_of_tables (tables_dropPending _ _), hfr.handles]; exact handles_of_tables h1
    · rename_i s2 ino heq2; rw [heq2] at hfr
      split
      · rw [handles_of_tables (tables_dropPending _ _), hfr.handles]; exact handles_of_tables h1
      · rw [handles_of_tables (tables_settlePath _ _)]
        show (insertInode s2 ino { id := f.id, fh := f.fh, refs := 1, safe := f.safe }).handles = _
        rw [insertInode_handles, hfr.handles]; exact handles_of_tables h1

theorem lookupCore_handles (e : Env) (s : St) (f : HFile) : (lookupCore e s f).1.handles = s.handles := by
  unfold lookupCore
  split
  · rfl
  · exact lookupInsert_handles e s f

theorem doLookup_handles (e : Env) (s : St) (p : Ino) (pst : Bool) (a : HAns) :
    (doLookup e s p pst a).1.handles = s.handles := by
  unfold doLookup
  split
  · rfl
  · rename_i dir _
    have h1 := tables_getFile e s dir pst
    split
    · rename_i heq; rw [heq] at h1; exact handles_of_tables h1
    · rename_i s1 heq; rw [heq] at h1
      have h2 := tables_allocFd e s1
      split
      · rename_i heq2; rw [heq2] at h2
        rw [handles_of_tables (tables_closeTemp _ _), handles_of_tables h2]; exact handles_of_tables h1
      · rename_i s2 heq2; rw [heq2] at h2
        split
        · rw [handles_of_tables (tables_closeTemp _ _), handles_of_tables (tables_freeFd _),
            handles_of_tables h2]; exact handles_of_tables h1
        · rename_i f
          simp only
          rw [handles_of_tables (tables_closeTemp _ _), lookupCore_handles, handles_of_tables h2]
          exact handles_of_tables h1

theorem deliver_hnds (sp : Spec) (i : Ino) : (sp.deliver i).hnds = sp.hnds := by
  unfold Spec.deliver; split <;> rfl

theorem forget_hnds (sp : Spec) (i : Ino) (n : Nat) : (sp.forget i n).hnds = sp.hnds := by
  unfold Spec.forget; split <;> rfl

theorem forgetAll_hnds (l : List (Ino × Nat)) (sp : Spec) : (sp.forgetAll l).hnds = sp.hnds := by
  induction l generalizing sp with
  | nil => rfl
  | cons p r ih => obtain ⟨i, n⟩ := p; simp only [Spec.forgetAll]; rw [ih, forget_hnds]

theorem deliverAll_hnds (l : List (Ino × Bool)) (sp : Spec) : (sp.deliverAll l).hnds = sp.hnds := by
  induction l generalizing sp with
  | nil => rfl
  | cons p r ih =>
    obtain ⟨i, b⟩ := p
    cases b <;> simp only [Spec.deliverAll] <;> rw [ih]
    exact deliver_hnds sp i

theorem afterLookup_hnds (sp : Spec) (r : Except Errno Ino) : (sp.afterLookup r).hnds = sp.hnds := by
  cases r <;> simp [Spec.afterLookup, deliver_hnds]

theorem rdpLoop_handles (e : Env) (dir : Ino) (tl : Tail) :
    ∀ (ents : List DEnt) (s : St) (fit : Nat) (first : Bool) (acc : List (Ino × Bool)),
      (rdpLoop e s dir fit tl ents first acc).1.handles = s.handles := by
  intro ents
  induction ents with
  | nil => intro s fit first acc; rfl
  | cons d r ih =>
    intro s fit first acc
    cases d with
    | dot => simp only [rdpLoop]; exact ih s fit false acc
    | name a =>
      simp only [rdpLoop]
      have h1 := doLookup_handles e s dir false a
      split
      · rename_i s1 er heq; rw [heq] at h1; exact h1
      · rename_i s1 ino heq
        rw [heq] at h1
        cases fit with
        | succ k => simp only; rw [ih s1 k false _]; exact h1
        | zero =>
          simp only
          cases tl <;> simp only [forgetOne_handles] <;> exact h1

theorem importRoot_handles (e : Env) (s : St) (root : HAns) : (importRoot e s root).1.handles = s.handles := by
  unfold importRoot
  have h1 := tables_allocFd e s
  split
  · rename_i heq; rw [heq] at h1; exact handles_of_tables h1
  · rename_i s1 heq; rw [heq] at h1
    split
    · rw [handles_of_tables (tables_freeFd _)]; exact handles_of_tables h1
    · rename_i f
      have h2 := tables_toOpenable e s1 f.fh
      split
      · rename_i s2 er heq2; rw [heq2] at h2
        rw [handles_of_tables (tables_freeFd _), handles_of_tables h2]; exact handles_of_tables h1
      · rename_i s2 heq2; rw [heq2] at h2
        rw [handles_of_tables (tables_settlePath _ _), insertInode_handles, handles_of_tables h2]
        exact handles_of_tables h1

theorem entryRes_hnds (sp : Spec) (op : Op) (x : St × Except Errno Ino)
    (hop : (∃ p pst a, op = .lookup p pst a) ∨ (∃ p pst hr a, op = .mkdir p pst hr a)
      ∨ (∃ p pst hr a, op = .mknod p pst hr a) ∨ (∃ i ist p pst hr a, op = .link i ist p pst hr a)) :
    (sp.step op (entryRes x).2).hnds = sp.hnds := by
  rw [spec_entryRes sp op x hop, afterLookup_hnds]

theorem opMknod_hnds (e : Env) (s : St) (sp : Spec) (p : Ino) (pst : Bool) (hr : Errno) (a : HAns)
    (op : Op) (hop : op = .mkdir p pst hr a ∨ op = .mknod p pst hr a) (h : s.handles = sp.hnds) :
    (opMknod e s p pst hr a).1.handles = (sp.step op (opMknod e s p pst hr a).2).hnds := by
  have herr : ∀ er, (sp.step op (.err er)).hnds = sp.hnds := by
    intro er; rcases hop with x | x <;> subst x <;> rfl
  unfold opMknod
  split
  · rw [herr]; exact h
  · rename_i dir _
    have h1 := tables_getFile e s dir pst
    split
    · rename_i heq; rw [heq] at h1; rw [herr, handles_of_tables h1]; exact h
    · rename_i s1 heq; rw [heq] at h1
      split
      · rw [herr, handles_of_tables (tables_closeTemp _ _), handles_of_tables h1]; exact h
      · split
        rename_i s2 r heq2
        have hfst := entryRes_fst (doLookup e s1 p pst a)
        have hsp := entryRes_hnds sp op (doLookup e s1 p pst a)
          (by rcases hop with x | x
              · exact Or.inr (Or.inl ⟨p, pst, hr, a, x⟩)
              · exact Or.inr (Or.inr (Or.inl ⟨p, pst, hr, a, x⟩)))
        rw [heq2] at hfst hsp
        simp only at hfst hsp
        rw [hsp, handles_of_tables (tables_closeTemp _ _), hfst, doLookup_handles, handles_of_tables h1]
        exact h

theorem opLink_hnds (e : Env) (s : St) (sp : Spec) (ino : Ino) (ist : Bool) (p : Ino) (pst : Bool)
    (hr : Errno) (a : HAns) (h : s.handles = sp.hnds) :
    (opLink e s ino ist p pst hr a).1.handles
      = (sp.step (.link ino ist p pst hr a) (opLink e s ino ist p pst hr a).2).hnds := by
  have herr : ∀ er, (sp.step (.link ino ist p pst hr a) (.err er)).hnds = sp.hnds := fun _ => rfl
  unfold opLink
  split
  · rw [herr]; exact h
  · rename_i d _
    split
    · rw [herr]; exact h
    · rename_i dir _
      have h1 := tables_getFile e s d ist
      split
      · rename_i heq; rw [heq] at h1; rw [herr, handles_of_tables h1]; exact h
      · rename_i s1 heq; rw [heq] at h1
        have h2 := tables_getFile e s1 dir pst
        split
        · rename_i heq2; rw [heq2] at h2
          rw [herr, handles_of_tables (tables_closeTemp _ _), handles_of_tables h2, handles_of_tables h1]
          exact h
        · rename_i s2 heq2; rw [heq2] at h2
          split
          · rw [herr, handles_of_tables (tables_closeTemp _ _), handles_of_tables (tables_closeTemp _ _),
              handles_of_tables h2, handles_of_tables h1]; exact h
          · split
            rename_i s3 r heq3
            have hfst := entryRes_fst (doLookup e s2 p pst a)
            have hsp := entryRes_hnds sp (.link ino ist p pst hr a) (doLookup e s2 p pst a)
              (Or.inr (Or.inr (Or.inr ⟨ino, ist, p, pst, hr, a, rfl⟩)))
            rw [heq3] at hfst hsp
            simp only at hfst hsp
            rw [hsp, handles_of_tables (tables_closeTemp _ _), handles_of_tables (tables_closeTemp _ _),
              hfst, doLookup_handles, handles_of_tables h2, handles_of_tables h1]
            exact h

theorem finishCreate_hnds (e : Env) (s : St) (sp : Spec) (ino : Ino) (op : Op)
    (hop : ∃ p pst x cr a ohr, op = .create p pst x cr a ohr) (h : s.handles = sp.hnds) :
    (finishCreate e s ino).1.handles = (sp.step op (finishCreate e s ino).2).hnds := by
  obtain ⟨p, pst, x, cr, a, ohr, e1⟩ := hop
  subst e1
  unfold finishCreate
  split
  · show mput s.handles s.nextHandle ino = mput sp.hnds s.nextHandle ino
    rw [h]
  · show s.handles = (sp.deliver ino).hnds
    rw [deliver_hnds]; exact h

theorem createTail_hnds (e : Env) (s : St) (sp : Spec) (p : Ino) (pst : Bool) (haveNew : Bool) (a : HAns)
    (ohr : Errno) (op : Op) (hop : ∃ p pst x cr a ohr, op = .create p pst x cr a ohr)
    (h : s.handles = sp.hnds) :
    (createTail e s p pst haveNew a ohr).1.handles
      = (sp.step op (createTail e s p pst haveNew a ohr).2).hnds := by
  have herr : ∀ er, (sp.step op (.err er)).hnds = sp.hnds := by
    intro er; obtain ⟨p, pst, x, cr, a, ohr, e1⟩ := hop; subst e1; rfl
  unfold createTail
  have hl := doLookup_handles e s p pst a
  split
  · rename_i s1 er heq; rw [heq] at hl
    rw [herr, handles_of_tables (tables_closeTemp _ _)]; exact hl.trans h
  · rename_i s1 ino heq; rw [heq] at hl
    have hs1 : s1.handles = sp.hnds := hl.trans h
    split
    · exact finishCreate_hnds e s1 sp ino op hop hs1
    · split
      · rw [herr, forgetOne_handles]; exact hs1
      · have h2 := tables_openInode e s1 ino ohr
        split
        · rename_i s2 er heq2; rw [heq2] at h2
          rw [herr, forgetOne_handles, handles_of_tables h2]; exact hs1
        · rename_i s2 heq2; rw [heq2] at h2
          exact finishCreate_hnds e s2 sp ino op hop (by rw [handles_of_tables h2]; exact hs1)

theorem opCreate_hnds (e : Env) (s : St) (sp : Spec) (p : Ino) (pst : Bool) (excl : Bool) (cr : CreateAns)
    (a : HAns) (ohr : Errno) (h : s.handles = sp.hnds) :
    (opCreate e s p pst excl cr a ohr).1.handles
      = (sp.step (.create p pst excl cr a ohr) (opCreate e s p pst excl cr a ohr).2).hnds := by
  have herr : ∀ er, (sp.step (.create p pst excl cr a ohr) (.err er)).hnds = sp.hnds := fun _ => rfl
  have hop : ∃ p' pst' x cr' a' ohr', Op.create p pst excl cr a ohr = .create p' pst' x cr' a' ohr' :=
    ⟨p, pst, excl, cr, a, ohr, rfl⟩
  unfold opCreate
  split
  · rw [herr]; exact h
  · rename_i dir _
    have h1 := tables_getFile e s dir pst
    split
    · rename_i heq; rw [heq] at h1; rw [herr, handles_of_tables h1]; exact h
    · rename_i s1 heq; rw [heq] at h1
      have h2 := tables_allocFd e s1
      split
      · rename_i heq2; rw [heq2] at h2
        rw [herr, handles_of_tables (tables_closeTemp _ _), handles_of_tables h2, handles_of_tables h1]
        exact h
      · rename_i s2 heq2; rw [heq2] at h2
        have hs2 : s2.handles = sp.hnds := by rw [handles_of_tables h2, handles_of_tables h1]; exact h
        split
        · rw [herr, handles_of_tables (tables_closeTemp _ _), handles_of_tables (tables_freeFd _)]
          exact hs2
        · simp only
          split
          · rw [herr, handles_of_tables (tables_closeTemp _ _), handles_of_tables (tables_freeFd _)]
            exact hs2
          · rw [handles_of_tables (tables_closeTemp _ _)]
            exact createTail_hnds e (freeFd s2) sp p pst false a ohr _ hop hs2
        · rw [handles_of_tables (tables_closeTemp _ _)]
          exact createTail_hnds e s2 sp p pst true a ohr _ hop hs2

theorem opReaddirplus_hnds (e : Env) (s : St) (sp : Spec) (ino : Ino) (hd : Hnd) (dhr : Errno)
    (lst : Except Errno (List DEnt)) (fit : Nat) (tl : Tail) (h : s.handles = sp.hnds) :
    (opReaddirplus e s ino hd dhr lst fit tl).1.handles
      = (sp.step (.readdirplus ino hd dhr lst fit tl) (opReaddirplus e s ino hd dhr lst fit tl).2).hnds := by
  unfold opReaddirplus
  have h1 := tables_getDirdata_data e s ino hd dhr
  have hcc : ∀ x : St, (consumeCookie e x hd).handles = x.handles := by
    intro x; unfold consumeCookie; split <;> rfl
  have hck : ∀ (x : St) l, (cacheCookie e x hd l).handles = x.handles := by
    intro x l; unfold cacheCookie; split <;> rfl
  split
  · rename_i s1 er _ heq; rw [heq] at h1
    show s1.handles = sp.hnds
    rw [handles_of_tables h1]; exact h
  · rename_i s1 tmp heq; rw [heq] at h1
    split
    · show (closeTemp (consumeCookie e s1 hd) tmp).handles = sp.hnds
      rw [handles_of_tables (tables_closeTemp _ _), hcc, handles_of_tables h1]; exact h
    · rename_i l
      have hr := rdpLoop_handles e ino tl l (cacheCookie e (consumeCookie e s1 hd) hd l) fit true []
      split
      rename_i s2 acc er heq2
      rw [heq2] at hr
      show (closeTemp s2 tmp).handles = (sp.deliverAll acc).hnds
      rw [deliverAll_hnds, handles_of_tables (tables_closeTemp _ _)]
      simp only at hr
      rw [hr, hck, hcc, handles_of_tables h1]; exact h

/-- getattr / rename / unlink only move descriptors around and answer `ok` or an error -/
theorem opGetattr_plain (e : Env) (s : St) (i : Ino) (hd : Option Hnd) (hr : Errno) :
    (opGetattr e s i hd hr).1.tables = s.tables
    ∧ ((opGetattr e s i hd hr).2 = .ok ∨ ∃ er, (opGetattr e s i hd hr).2 = .err er) := by
  unfold opGetattr
  split
  · exact ⟨rfl, Or.inr ⟨_, rfl⟩⟩
  · split
    · split
      · exact ⟨rfl, Or.inl rfl⟩
      · exact ⟨rfl, Or.inr ⟨_, rfl⟩⟩
    · split
      · exact ⟨rfl, Or.inl rfl⟩
      · split
        · exact ⟨rfl, Or.inr ⟨_, rfl⟩⟩
        · have h1 := tables_allocFd e s
          split
          · rename_i heq; rw [heq] at h1; exact ⟨h1, Or.inr ⟨_, rfl⟩⟩
          · rename_i heq; rw [heq] at h1
            refine ⟨by rw [tables_freeFd]; exact h1, ?_⟩
            split
            · exact Or.inr ⟨_, rfl⟩
            · exact Or.inl rfl

theorem opRename_plain (e : Env) (s : St) (p1 : Ino) (st1 : Bool) (p2 : Ino) (st2 : Bool) (hr : Errno) :
    (opRename e s p1 st1 p2 st2 hr).1.tables = s.tables
    ∧ ((opRename e s p1 st1 p2 st2 hr).2 = .ok ∨ ∃ er, (opRename e s p1 st1 p2 st2 hr).2 = .err er) := by
  unfold opRename
  split
  · rename_i d1 d2 _ _
    have h1 := tables_getFile e s d1 st1
    split
    · rename_i heq; rw [heq] at h1; exact ⟨h1, Or.inr ⟨_, rfl⟩⟩
    · rename_i s1 heq; rw [heq] at h1
      have h2 := tables_getFile e s1 d2 st2
      split
      · rename_i heq2; rw [heq2] at h2
        exact ⟨by rw [tables_closeTemp, h2]; exact h1, Or.inr ⟨_, rfl⟩⟩
      · rename_i heq2; rw [heq2] at h2
        refine ⟨by simp only [tables_closeTemp, h2]; exact h1, ?_⟩
        split
        · exact Or.inr ⟨_, rfl⟩
        · exact Or.inl rfl
  · exact ⟨rfl, Or.inr ⟨_, rfl⟩⟩

theorem opUnlink_plain (e : Env) (s : St) (p : Ino) (pst : Bool) (hr : Errno) :
    (opUnlink e s p pst hr).1.tables = s.tables
    ∧ ((opUnlink e s p pst hr).2 = .ok ∨ ∃ er, (opUnlink e s p pst hr).2 = .err er) := by
  unfold opUnlink
  split
  · exact ⟨rfl, Or.inr ⟨_, rfl⟩⟩
  · rename_i d _
    have h1 := tables_getFile e s d pst
    split
    · rename_i heq; rw [heq] at h1; exact ⟨h1, Or.inr ⟨_, rfl⟩⟩
    · rename_i heq; rw [heq] at h1
      refine ⟨by simp only [tables_closeTemp]; exact h1, ?_⟩
      split
      · exact Or.inr ⟨_, rfl⟩
      · exact Or.inl rfl

/-- **the handle table is the client's set of held handles**, request by request -/
theorem step_hnds (e : Env) (s : St) (sp : Spec) (op : Op) (h : s.handles = sp.hnds) :
    (step e s op).1.handles = (sp.step op (step e s op).2).hnds := by
  cases op with
  | lookup p pst a =>
    simp only [step]
    rw [entryRes_hnds sp _ _ (Or.inl ⟨p, pst, a, rfl⟩), entryRes_fst, doLookup_handles]; exact h
  | forget i n =>
    show (forgetOne e s i n).handles = (sp.forget i n).hnds
    rw [forgetOne_handles, forget_hnds]; exact h
  | batchForget l =>
    show (batchForget e s l).handles = (sp.forgetAll l).hnds
    rw [batchForget_handles, forgetAll_hnds]; exact h
  | mkdir p pst hr a => exact opMknod_hnds e s sp p pst hr a _ (Or.inl rfl) h
  | mknod p pst hr a => exact opMknod_hnds e s sp p pst hr a _ (Or.inr rfl) h
  | link i ist p pst hr a => exact opLink_hnds e s sp i ist p pst hr a h
  | create p pst x cr a ohr => exact opCreate_hnds e s sp p pst x cr a ohr h
  | «open» i hr =>
    simp only [step, opOpen]
    split
    · exact h
    · unfold doOpen
      have h1 := tables_openInode e s i hr
      split
      · rename_i s1 er heq; rw [heq] at h1
        show s1.handles = sp.hnds
        rw [handles_of_tables h1]; exact h
      · rename_i s1 heq; rw [heq] at h1
        show mput s1.handles s1.nextHandle i = mput sp.hnds s1.nextHandle i
        rw [handles_of_tables h1, h]
  | opendir i hr =>
    simp only [step, opOpendir]
    split
    · exact h
    · unfold doOpen
      have h1 := tables_openInode e s i hr
      split
      · rename_i s1 er heq; rw [heq] at h1
        show s1.handles = sp.hnds
        rw [handles_of_tables h1]; exact h
      · rename_i s1 heq; rw [heq] at h1
        show mput s1.handles s1.nextHandle i = mput sp.hnds s1.nextHandle i
        rw [handles_of_tables h1, h]
  | release i hd =>
    simp only [step, opRelease]
    split
    · exact h
    · unfold doRelease
      split
      · show mdel s.handles hd = mdel sp.hnds hd
        rw [h]
      · exact h
  | releasedir i hd =>
    simp only [step, opReleasedir]
    split
    · exact h
    · unfold doRelease
      split
      · show mdel s.handles hd = mdel sp.hnds hd
        rw [h]
      · exact h
  | readdirplus i hd dhr lst fit tl => exact opReaddirplus_hnds e s sp i hd dhr lst fit tl h
  | getattr i hd hr =>
    obtain ⟨ht, hres⟩ := opGetattr_plain e s i hd hr
    show (opGetattr e s i hd hr).1.handles = (sp.step (.getattr i hd hr) (opGetattr e s i hd hr).2).hnds
    rw [handles_of_tables ht]
    rcases hres with x | ⟨er, x⟩ <;> rw [x] <;> exact h
  | rename p1 st1 p2 st2 hr =>
    obtain ⟨ht, hres⟩ := opRename_plain e s p1 st1 p2 st2 hr
    show (opRename e s p1 st1 p2 st2 hr).1.handles
      = (sp.step (.rename p1 st1 p2 st2 hr) (opRename e s p1 st1 p2 st2 hr).2).hnds
    rw [handles_of_tables ht]
    rcases hres with x | ⟨er, x⟩ <;> rw [x] <;> exact h
  | unlink p pst hr =>
    obtain ⟨ht, hres⟩ := opUnlink_plain e s p pst hr
    show (opUnlink e s p pst hr).1.handles = (sp.step (.unlink p pst hr) (opUnlink e s p pst hr).2).hnds
    rw [handles_of_tables ht]
    rcases hres with x | ⟨er, x⟩ <;> rw [x] <;> exact h
  | destroy root =>
    simp only [step, opDestroy]
    show (importRoot e (clearAll s) root).1.handles = []
    rw [importRoot_handles]
    unfold clearAll
    rw [handles_of_tables (dropAll_tables _ _)]
  | init root =>
    simp only [step, opInit]
    have := importRoot_handles e s root
    split
    · rename_i heq; rw [heq] at this; exact this.trans h
    · rename_i heq; rw [heq] at this; exact this.trans h

theorem run_hnds (e : Env) (h : List (Option Nat × Op)) (s : St) (sp : Spec) (hh : s.handles = sp.hnds) :
    (run e s h).1.handles = (sp.run h (run e s h).2).hnds := by
  induction h generalizing s sp with
  | nil => exact hh
  | cons x r ih =>
    obtain ⟨hd, op⟩ := x
    simp only [run]
    apply ih
    unfold stepCap
    have := step_hnds e { s with cap := hd.map (s.fds + ·) } sp op hh
    split
    rename_i s1 r1 heq
    rw [heq] at this
    exact this

end Fbr.PtRefs
