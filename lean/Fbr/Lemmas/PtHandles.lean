/-
  C15: the handle table is exactly the set of handles the client holds (`Spec.hnds`).
-/
import Fbr.PtSpec
import Fbr.Lemmas.PtStepTr

namespace Fbr.PtRefs

theorem forgetOne_handles (e : Env) (s : St) (i : Ino) (n : Nat) :
    (forgetOne e s i n).handles = s.handles := by
  unfold forgetOne
  split
  · rfl
  · split
    · rfl
    · rename_i d _
      simp only
      split
      · unfold removeInode
        simp only
        rw [handles_of_tables (tables_dropIData _ d)]
        split <;> rfl
      · rfl

theorem batchForget_handles (e : Env) (l : List (Ino × Nat)) (s : St) :
    (batchForget e s l).handles = s.handles := by
  induction l generalizing s with
  | nil => rfl
  | cons p r ih => obtain ⟨i, n⟩ := p; simp only [batchForget]; rw [ih, forgetOne_handles]

theorem insertInode_handles (s : St) (ino : Ino) (d : IData) : (insertInode s ino d).handles = s.handles := by
  unfold insertInode
  split
  · rename_i old _; simp [handles_of_tables (tables_dropIData s old)]
  · rfl

theorem lookupInsert_handles (e : Env) (s : St) (f : HFile) : (lookupInsert e s f).1.handles = s.handles := by
  unfold lookupInsert
  have h1 := tables_toOpenable e s f.fh
  split
  · rename_i s1 er heq; rw [heq] at h1
    rw [handles_of_tables (tables_freeFd _)]; exact handles_of_tables h1
  · rename_i s1 heq; rw [heq] at h1
    have hfr := allocateInode_frame e s1 f.id f.fh
    split
    · rename_i s2 er heq2; rw [heq2] at hfr
      rw [handles_of_tables (tables_dropPending _ _), hfr.handles]; exact handles_of_tables h1
    · rename_i s2 ino heq2; rw [heq2] at hfr
      split
      · rw [handles_of_tables (tables_dropPending _ _), hfr.handles]; exact handles_of_tables h1
      · rw [handles_of_tables (tables_settlePath _ _)]
        show (insertInode s2 ino { id := f.id, fh := f.fh, refs := 1, safe := f.safe }).handles = _
        rw [insertInode_handles, hfr.handles]; exact handles_of_tables h1

theorem lookupCore_handles (e : Env) (s : St) (f : HFile) : (lookupCore e s f).1.handles = s.handles := by
  unfold lookupCore
  split
  · rfl
  · exact lookupInsert_handles e s f

theorem doLookup_handles (e : Env) (s : St) (p : Ino) (pst : Bool) (a : HAns) :
    (doLookup e s p pst a).1.handles = s.handles := by
  unfold doLookup
  split
  · rfl
  · rename_i dir _
    have h1 := tables_getFile e s dir pst
    split
    · rename_i heq; rw [heq] at h1; exact handles_of_tables h1
    · rename_i s1 heq; rw [heq] at h1
      have h2 := tables_allocFd e s1
      split
      · rename_i heq2; rw [heq2] at h2
        rw [handles_of_tables (tables_closeTemp _ _), handles_of_tables h2]; exact handles_of_tables h1
      · rename_i s2 heq2; rw [heq2] at h2
        split
        · rw [handles_of_tables (tables_closeTemp _ _), handles_of_tables (tables_freeFd _),
            handles_of_tables h2]; exact handles_of_tables h1
        · rename_i f
          simp only
          rw [handles_of_tables (tables_closeTemp _ _), lookupCore_handles, handles_of_tables h2]
          exact handles_of_tables h1

theorem deliver_hnds (sp : Spec) (i : Ino) : (sp.deliver i).hnds = sp.hnds := by
  unfold Spec.deliver; split <;> rfl

theorem forget_hnds (sp : Spec) (i : Ino) (n : Nat) : (sp.forget i n).hnds = sp.hnds := by
  unfold Spec.forget; split <;> rfl

theorem forgetAll_hnds (l : List (Ino × Nat)) (sp : Spec) : (sp.forgetAll l).hnds = sp.hnds := by
  induction l generalizing sp with
  | nil => rfl
  | cons p r ih => obtain ⟨i, n⟩ := p; simp only [Spec.forgetAll]; rw [ih, forget_hnds]

theorem deliverAll_hnds (l : List (Ino × Bool)) (sp : Spec) : (sp.deliverAll l).hnds = sp.hnds := by
  induction l generalizing sp with
  | nil => rfl
  | cons p r ih =>
    obtain ⟨i, b⟩ := p
    cases b <;> simp only [Spec.deliverAll] <;> rw [ih]
    exact deliver_hnds sp i

theorem afterLookup_hnds (sp : Spec) (r : Except Errno Ino) : (sp.afterLookup r).hnds = sp.hnds := by
  cases r <;> simp [Spec.afterLookup, deliver_hnds]

theorem rdpLoop_handles (e : Env) (dir : Ino) (tl : Tail) :
    ∀ (ents : List DEnt) (s : St) (fit : Nat) (first : Bool) (acc : List (Ino × Bool)),
      (rdpLoop e s dir fit tl ents first acc).1.handles = s.handles := by
  intro ents
  induction ents with
  | nil => intro s fit first acc; rfl
  | cons d r ih =>
    intro s fit first acc
    cases d with
    | dot => simp only [rdpLoop]; exact ih s fit false acc
    | name a =>
      simp only [rdpLoop]
      have h1 := doLookup_handles e s dir false a
      split
      · rename_i s1 er heq; rw [heq] at h1; exact h1
      · rename_i s1 ino heq
        rw [heq] at h1
        cases fit with
        | succ k => simp only; rw [ih s1 k false _]; exact h1
        | zero =>
          simp only
          cases tl <;> simp only [forgetOne_handles] <;> exact h1

theorem importRoot_handles (e : Env) (s : St) (root : HAns) : (importRoot e s root).1.handles = s.handles := by
  unfold importRoot
  have h1 := tables_allocFd e s
  split
  · rename_i heq; rw [heq] at h1; exact handles_of_tables h1
  · rename_i s1 heq; rw [heq] at h1
    split
    · rw [handles_of_tables (tables_freeFd _)]; exact handles_of_tables h1
    · rename_i f
      have h2 := tables_toOpenable e s1 f.fh
      split
      · rename_i s2 er heq2; rw [heq2] at h2
        rw [handles_of_tables (tables_freeFd _), handles_of_tables h2]; exact handles_of_tables h1
      · rename_i s2 heq2; rw [heq2] at h2
        rw [handles_of_tables (tables_settlePath _ _), insertInode_handles, handles_of_tables h2]
        exact handles_of_tables h1

end Fbr.PtRefs
