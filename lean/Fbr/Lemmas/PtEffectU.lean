/-
  C08, `use_host_ino = true`: what `do_lookup` does to the unique-inode allocator (`dev_mntid_map`,
  `next_unique_id`, `next_virtual_inode`) and how the number of a new entry is formed — the
  packing / devMap facts that `LkEff` does not record.
-/
import Fbr.Lemmas.PtEffect
import Fbr.Lemmas.Pack

namespace Fbr.PtRefs

/-- the unique-inode allocator is untouched -/
structure AllocSame (s s' : St) : Prop where
  devMap : s'.devMap = s.devMap
  nextUid : s'.nextUid = s.nextUid
  nextVirt : s'.nextVirt = s.nextVirt

theorem AllocSame.refl (s : St) : AllocSame s s := ⟨rfl, rfl, rfl⟩

theorem AllocSame.of_tables {s s' : St} (h : s'.tables = s.tables) : AllocSame s s' := by
  have h1 := congrArg Tables.devMap h
  have h2 := congrArg Tables.nextUid h
  have h3 := congrArg Tables.nextVirt h
  exact ⟨by simpa [St.tables] using h1, by simpa [St.tables] using h2, by simpa [St.tables] using h3⟩

theorem AllocSame.trans {a b c : St} (h1 : AllocSame a b) (h2 : AllocSame b c) : AllocSame a c :=
  ⟨by rw [h2.devMap, h1.devMap], by rw [h2.nextUid, h1.nextUid], by rw [h2.nextVirt, h1.nextVirt]⟩

/-- invariant of the allocator: small ids 1 … 254 handed out in order, one per (dev, mnt) pair;
    the virtual counter has not passed `MAX_HOST_INO + 1` -/
structure DInv (s : St) : Prop where
  uidPos : 1 ≤ s.nextUid
  uidLe : s.nextUid ≤ 255
  rng : ∀ k u, mget s.devMap k = some u → 1 ≤ u ∧ u < s.nextUid
  inj : ∀ k k' u, mget s.devMap k = some u → mget s.devMap k' = some u → k = k'
  virt : s.nextVirt ≤ MAX_HOST_INO + 1

/-- the allocator only grows -/
structure AllocExt (s s' : St) : Prop where
  inv : DInv s → DInv s'
  ext : ∀ k u, mget s.devMap k = some u → mget s'.devMap k = some u
  virt : s.nextVirt ≤ s'.nextVirt

theorem AllocSame.ext {s s' : St} (h : AllocSame s s') : AllocExt s s' := by
  refine ⟨fun d => ⟨by rw [h.nextUid]; exact d.uidPos, by rw [h.nextUid]; exact d.uidLe, ?_, ?_, by rw [h.nextVirt]; exact d.virt⟩,
    fun k u x => by rw [h.devMap]; exact x, by rw [h.nextVirt]; exact Nat.le_refl _⟩
  · intro k u x; rw [h.devMap] at x; rw [h.nextUid]; exact d.rng k u x
  · intro k k' u x y; rw [h.devMap] at x y; exact d.inj k k' u x y

theorem AllocExt.refl (s : St) : AllocExt s s := (AllocSame.refl s).ext

theorem AllocExt.trans {a b c : St} (h1 : AllocExt a b) (h2 : AllocExt b c) : AllocExt a c :=
  ⟨fun d => h2.inv (h1.inv d), fun k u x => h2.ext k u (h1.ext k u x), Nat.le_trans h1.virt h2.virt⟩

theorem AllocExt.of_tables {s s' : St} (h : s'.tables = s.tables) : AllocExt s s' := (AllocSame.of_tables h).ext

/-- `dev_mntid_map`: look up or hand out the next small id -/
theorem devUid_ext (s : St) (id : InodeId) :
    AllocExt s (devUid s id).1 ∧ (devUid s id).1.nextVirt = s.nextVirt ∧
    ∀ u, (devUid s id).2 = some u → mget (devUid s id).1.devMap (id.dev, id.mnt) = some u := by
  unfold devUid
  cases hm : mget s.devMap (id.dev, id.mnt) with
  | some u => exact ⟨AllocExt.refl s, rfl, fun u' hu => by cases hu; exact hm⟩
  | none =>
    simp only
    split
    · exact ⟨AllocExt.refl s, rfl, fun u' hu => by cases hu⟩
    · rename_i hne
      refine ⟨⟨fun d => ?_, ?_, Nat.le_refl _⟩, rfl, fun u' hu => by cases hu; simp⟩
      · refine ⟨Nat.le_succ_of_le d.uidPos, ?_, ?_, ?_, d.virt⟩
        · have := d.uidLe; show s.nextUid + 1 ≤ 255; omega
        · intro k u hk
          simp only [mget_mput] at hk
          split at hk
          · cases hk; exact ⟨d.uidPos, Nat.lt_succ_self _⟩
          · have := d.rng k u hk; exact ⟨this.1, Nat.lt_succ_of_lt this.2⟩
        · intro k k' u hk hk'
          simp only [mget_mput] at hk hk'
          split at hk <;> split at hk'
          · rename_i e1 e2; rw [← e1, ← e2]
          · cases hk; have := (d.rng k' _ hk').2; exact absurd this (Nat.lt_irrefl _)
          · cases hk'; have := (d.rng k _ hk).2; exact absurd this (Nat.lt_irrefl _)
          · exact d.inj k k' u hk hk'
      · intro k u hk
        show mget (mput s.devMap (id.dev, id.mnt) s.nextUid) k = some u
        rw [mget_mput]
        split
        · rename_i e1; rw [← e1, hm] at hk; cases hk
        · exact hk

/-- a number freshly formed by `get_unique_inode`: `(uid << 47) | st_ino`, or — host inode number
    above `MAX_HOST_INO` — `(uid << 47) | next_virtual_inode | (1 << 55)` -/
def UFresh (s s' : St) (id : InodeId) (ino : Ino) : Prop :=
  (id.ino ≤ MAX_HOST_INO ∧ ∃ u, mget s'.devMap (id.dev, id.mnt) = some u ∧ ino = packIno u id.ino)
  ∨ (id.ino > MAX_HOST_INO ∧ ∃ u, mget s'.devMap (id.dev, id.mnt) = some u
      ∧ ino = packIno u (s.nextVirt ||| VIRTUAL_INODE_FLAG) ∧ s.nextVirt ≤ MAX_HOST_INO ∧ s'.nextVirt = s.nextVirt + 1)

/-- how a number handed out by `allocate_inode` under `use_host_ino` is formed: the remembered one
    (only for host inode numbers above `MAX_HOST_INO`), or a fresh one -/
def UForm (s s' : St) (id : InodeId) (fh : Option FhId) (ino : Ino) : Prop :=
  (id.ino > MAX_HOST_INO ∧ getInodeLocked s id fh = some ino) ∨ UFresh s s' id ino

theorem getUniqueInode_ext (s : St) (id : InodeId) :
    AllocExt s (getUniqueInode s id).1 ∧
    ∀ ino, (getUniqueInode s id).2 = .ok ino → UFresh s (getUniqueInode s id).1 id ino := by
  unfold getUniqueInode
  have hd := devUid_ext s id
  split
  · rename_i s1 heq; rw [heq] at hd
    exact ⟨hd.1, fun ino h => by cases h⟩
  · rename_i s1 uid heq; rw [heq] at hd
    obtain ⟨h1, h2, h3⟩ := hd
    simp only at h2 h3
    split
    · rename_i hle
      refine ⟨h1, fun ino h => ?_⟩
      cases h
      exact Or.inl ⟨hle, uid, h3 uid rfl, rfl⟩
    · rename_i hgt
      split
      · exact ⟨h1, fun ino h => by cases h⟩
      · rename_i hv
        have hv' : s1.nextVirt ≤ MAX_HOST_INO := Nat.le_of_not_lt hv
        refine ⟨⟨fun d => ?_, h1.ext, ?_⟩, fun ino h => ?_⟩
        · have d1 := h1.inv d
          exact ⟨d1.uidPos, d1.uidLe, d1.rng, d1.inj, by show s1.nextVirt + 1 ≤ MAX_HOST_INO + 1; omega⟩
        · show s.nextVirt ≤ s1.nextVirt + 1
          rw [h2]; exact Nat.le_succ _
        · cases h
          refine Or.inr ⟨Nat.lt_of_not_le hgt, uid, h3 uid rfl, by rw [h2], by rw [← h2]; exact hv', ?_⟩
          show s1.nextVirt + 1 = s.nextVirt + 1
          rw [h2]

theorem allocateInode_ext (e : Env) (s : St) (id : InodeId) (fh : Option FhId) :
    AllocExt s (allocateInode e s id fh).1 ∧
    (e.useHostIno = true → ∀ ino, (allocateInode e s id fh).2 = .ok ino → UForm s (allocateInode e s id fh).1 id fh ino) := by
  have hu := getUniqueInode_ext s id
  unfold allocateInode
  cases hk : e.useHostIno with
  | false =>
    simp only [Bool.not_false, if_true]
    refine ⟨?_, fun h => by cases h⟩
    split
    · exact AllocExt.refl s
    · exact (AllocSame.ext ⟨rfl, rfl, rfl⟩)
  | true =>
    simp only [Bool.not_true, Bool.false_eq_true, if_false]
    split
    · rename_i hgt
      cases hl : getInodeLocked s id fh with
      | some i =>
        simp only
        exact ⟨AllocExt.refl s, fun _ ino h => by cases h; exact Or.inl ⟨hgt, hl⟩⟩
      | none =>
        simp only
        exact ⟨hu.1, fun _ ino h => Or.inr (hu.2 ino h)⟩
    · exact ⟨hu.1, fun _ ino h => Or.inr (hu.2 ino h)⟩

/-- how a `do_lookup` that was handed the host answer `a` changes the inode store and the
    allocator (the three cases of `LkEff`, with the file and the allocator made explicit) -/
def LkU (e : Env) (s s' : St) (a : HAns) (r : Except Errno Ino) : Prop :=
  (∃ er, r = .error er ∧ s'.data = s.data ∧ s'.clobbered = s.clobbered ∧ s'.byId = s.byId
      ∧ s'.byHandle = s.byHandle ∧ AllocExt s s')
  ∨ (∃ ino d, r = .ok ino ∧ mget s.data ino = some d
      ∧ s'.data = mput s.data ino { d with refs := satAdd d.refs 1 } ∧ s'.clobbered = s.clobbered
      ∧ s'.byId = s.byId ∧ s'.byHandle = s.byHandle ∧ AllocSame s s')
  ∨ (∃ f ino, a = .ok f ∧ r = .ok ino ∧ getAlt s f.id f.fh = none
      ∧ s'.data = mput s.data ino { id := f.id, fh := f.fh, refs := 1, safe := f.safe }
      ∧ s'.clobbered = (s.clobbered || (decide (ino ≠ ROOT_ID) && (mget s.data ino).isSome))
      ∧ s'.byId = mput s.byId f.id ino
      ∧ s'.byHandle = (match f.fh with
          | some h => mput s.byHandle h ino
          | none => s.byHandle)
      ∧ AllocExt s s'
      ∧ (e.useHostIno = true → UForm s s' f.id f.fh ino))

theorem UForm.frame {s0 s s' s2 : St} {id : InodeId} {fh : Option FhId} {ino : Ino} (h : UForm s s' id fh ino)
    (h0 : s.tables = s0.tables) (h2 : s2.tables = s'.tables) : UForm s0 s2 id fh ino := by
  have a0 := AllocSame.of_tables h0
  have a2 := AllocSame.of_tables h2
  rcases h with ⟨hgt, hl⟩ | ⟨hle, u, hu, hi⟩ | ⟨hgt, u, hu, hi, hv, hn⟩
  · exact Or.inl ⟨hgt, by rw [← getInodeLocked_of_tables h0]; exact hl⟩
  · exact Or.inr (Or.inl ⟨hle, u, by rw [a2.devMap]; exact hu, hi⟩)
  · exact Or.inr (Or.inr ⟨hgt, u, by rw [a2.devMap]; exact hu, by rw [← a0.nextVirt]; exact hi,
      by rw [← a0.nextVirt]; exact hv, by rw [a2.nextVirt, hn, a0.nextVirt]⟩)

theorem LkU.frame {e : Env} {s0 s s' s2 : St} {a : HAns} {r : Except Errno Ino} (h : LkU e s s' a r)
    (h0 : s.tables = s0.tables) (h2 : s2.tables = s'.tables) : LkU e s0 s2 a r := by
  have d0 := data_of_tables h0; have c0 := clob_of_tables h0
  have d2 := data_of_tables h2; have c2 := clob_of_tables h2
  have b0 := byId_of_tables h0; have b2 := byId_of_tables h2
  have y0 := byHandle_of_tables h0; have y2 := byHandle_of_tables h2
  have a0 : AllocSame s s0 := AllocSame.of_tables h0.symm
  have a2 : AllocSame s' s2 := AllocSame.of_tables h2
  have a0' : AllocSame s0 s := AllocSame.of_tables h0
  rcases h with ⟨er, p, q, c, x, y, z⟩ | ⟨ino, d, p, q, c, dd, x, y, z⟩ | ⟨f, ino, p, q, g, c, dd, x, y, z, w⟩
  · exact Or.inl ⟨er, p, by rw [d2, q, d0], by rw [c2, c, c0], by rw [b2, x, b0], by rw [y2, y, y0],
      (a0'.ext.trans z).trans a2.ext⟩
  · exact Or.inr (Or.inl ⟨ino, d, p, by rw [← d0]; exact q, by rw [d2, c, d0], by rw [c2, dd, c0],
      by rw [b2, x, b0], by rw [y2, y, y0], (a0'.trans z).trans a2⟩)
  · exact Or.inr (Or.inr ⟨f, ino, p, q, by rw [← getAlt_of_tables h0]; exact g, by rw [d2, c, d0],
      by rw [c2, dd, c0, d0], by rw [b2, x, b0], by rw [y2, y, y0], (a0'.ext.trans z).trans a2.ext,
      fun hk => (w hk).frame h0 h2⟩)

theorem LkU.error_refl (e : Env) (s : St) (a : HAns) (er : Errno) : LkU e s s a (.error er) :=
  Or.inl ⟨er, rfl, rfl, rfl, rfl, rfl, AllocExt.refl s⟩

theorem LkU.of_tables {e : Env} {s s' : St} (a : HAns) (er : Errno) (h : s'.tables = s.tables) :
    LkU e s s' a (.error er) :=
  Or.inl ⟨er, rfl, data_of_tables h, clob_of_tables h, byId_of_tables h, byHandle_of_tables h, AllocExt.of_tables h⟩

theorem lookupInsert_effU (e : Env) (s : St) (f : HFile) (hg : getAlt s f.id f.fh = none) :
    LkU e s (lookupInsert e s f).1 (.ok f) (lookupInsert e s f).2 := by
  unfold lookupInsert
  have h1 := tables_toOpenable e s f.fh
  split
  · rename_i s1 er heq
    rw [heq] at h1
    exact LkU.of_tables _ er (by rw [tables_freeFd]; exact h1)
  · rename_i s1 heq
    rw [heq] at h1
    have hfr := allocateInode_frame e s1 f.id f.fh
    have hex := allocateInode_ext e s1 f.id f.fh
    have hd1 := data_of_tables h1
    have hc1 := clob_of_tables h1
    have a1 : AllocSame s s1 := AllocSame.of_tables h1
    have herr : ∀ (s2 : St) (er : Errno), AllocFrame s1 s2 → AllocExt s1 s2 →
        LkU e s (dropPending s2 f.fh) (.ok f) (.error er) := by
      intro s2 er hf hx
      exact Or.inl ⟨er, rfl, by rw [data_of_tables (tables_dropPending _ _), hf.data, hd1],
        by rw [clob_of_tables (tables_dropPending _ _), hf.clobbered, hc1],
        by rw [byId_of_tables (tables_dropPending _ _), hf.byId, byId_of_tables h1],
        by rw [byHandle_of_tables (tables_dropPending _ _), hf.byHandle, byHandle_of_tables h1],
        (a1.ext.trans hx).trans (AllocExt.of_tables (tables_dropPending _ _))⟩
    split
    · rename_i s2 er heq2
      rw [heq2] at hfr hex
      exact herr s2 er hfr hex.1
    · rename_i s2 ino heq2
      rw [heq2] at hfr hex
      split
      · exact herr s2 EOTHER hfr hex.1
      · have hm := insertInode_maps s2 ino { id := f.id, fh := f.fh, refs := 1, safe := f.safe }
        have hins : AllocSame s2 (insertInode s2 ino { id := f.id, fh := f.fh, refs := 1, safe := f.safe }) := by
          unfold insertInode
          cases hmg : mget s2.data ino with
          | none => exact ⟨rfl, rfl, rfl⟩
          | some old =>
            have ht := AllocSame.of_tables (tables_dropIData s2 old)
            exact ⟨ht.devMap, ht.nextUid, ht.nextVirt⟩
        have hfin : AllocSame s2 (settlePath { insertInode s2 ino { id := f.id, fh := f.fh, refs := 1, safe := f.safe }
            with lookups := s2.lookups + 1 } f.fh) := by
          have hmid : AllocSame (insertInode s2 ino { id := f.id, fh := f.fh, refs := 1, safe := f.safe })
              { insertInode s2 ino { id := f.id, fh := f.fh, refs := 1, safe := f.safe } with lookups := s2.lookups + 1 } :=
            ⟨rfl, rfl, rfl⟩
          exact (hins.trans hmid).trans (AllocSame.of_tables (tables_settlePath _ _))
        refine Or.inr (Or.inr ⟨f, ino, rfl, rfl, hg, ?_, ?_, ?_, ?_, (a1.ext.trans hex.1).trans hfin.ext, ?_⟩)
        · rw [data_of_tables (tables_settlePath _ _)]
          show (insertInode s2 ino { id := f.id, fh := f.fh, refs := 1, safe := f.safe }).data = _
          rw [insertInode_data, hfr.data, hd1]
        · rw [clob_of_tables (tables_settlePath _ _)]
          show (insertInode s2 ino { id := f.id, fh := f.fh, refs := 1, safe := f.safe }).clobbered = _
          rw [insertInode_clobbered, hfr.data, hfr.clobbered, hd1, hc1]
        · rw [byId_of_tables (tables_settlePath _ _)]
          show (insertInode s2 ino { id := f.id, fh := f.fh, refs := 1, safe := f.safe }).byId = _
          rw [hm.1, hfr.byId, byId_of_tables h1]
        · rw [byHandle_of_tables (tables_settlePath _ _)]
          show (insertInode s2 ino { id := f.id, fh := f.fh, refs := 1, safe := f.safe }).byHandle = _
          rw [hm.2.1, hfr.byHandle, byHandle_of_tables h1]
          rfl
        · intro hk
          have := hex.2 hk ino rfl
          -- transport from (s1, s2) to (s, final)
          rcases this with ⟨hgt, hl⟩ | ⟨hle, u, hu, hi⟩ | ⟨hgt, u, hu, hi, hv, hn⟩
          · exact Or.inl ⟨hgt, by rw [← getInodeLocked_of_tables h1]; exact hl⟩
          · exact Or.inr (Or.inl ⟨hle, u, by rw [hfin.devMap]; exact hu, hi⟩)
          · exact Or.inr (Or.inr ⟨hgt, u, by rw [hfin.devMap]; exact hu, by rw [← a1.nextVirt]; exact hi,
              by rw [← a1.nextVirt]; exact hv, by rw [hfin.nextVirt, hn, a1.nextVirt]⟩)

theorem lookupCore_effU (e : Env) (s : St) (f : HFile) :
    LkU e s (lookupCore e s f).1 (.ok f) (lookupCore e s f).2 := by
  unfold lookupCore
  split
  · rename_i ino d hg
    refine Or.inr (Or.inl ⟨ino, d, rfl, getAlt_data hg, ?_, ?_, ?_, ?_, ?_⟩)
    · simp [data_of_tables (tables_freeFd _), setRefs]
    · simp [clob_of_tables (tables_freeFd _), setRefs]
    · simp [byId_of_tables (tables_freeFd _), setRefs]
    · simp [byHandle_of_tables (tables_freeFd _), setRefs]
    · exact ⟨rfl, rfl, rfl⟩
  · rename_i hg
    exact lookupInsert_effU e s f hg

theorem doLookup_effU (e : Env) (s : St) (p : Ino) (pst : Bool) (a : HAns) :
    LkU e s (doLookup e s p pst a).1 a (doLookup e s p pst a).2 := by
  unfold doLookup
  split
  · exact LkU.error_refl e s a _
  · rename_i dir _
    have h1 := tables_getFile e s dir pst
    split
    · rename_i s1 er heq
      rw [heq] at h1
      exact LkU.of_tables a er h1
    · rename_i s1 heq
      rw [heq] at h1
      have h2 := tables_allocFd e s1
      split
      · rename_i s2 heq2
        rw [heq2] at h2
        exact LkU.of_tables a _ (by rw [tables_closeTemp, h2, h1])
      · rename_i s2 heq2
        rw [heq2] at h2
        split
        · exact LkU.of_tables _ _ (by rw [tables_closeTemp, tables_freeFd, h2, h1])
        · rename_i f
          have := lookupCore_effU e s2 f
          split
          rename_i s3 r heq3
          rw [heq3] at this
          exact this.frame (by rw [h2, h1]) (tables_closeTemp _ _)

/-- the host answer carries no file handle (`inode_file_handles` off: `name_to_handle_at` is never called) -/
def HAns.NoFh : HAns → Prop
  | .ok f => f.fh = none
  | .err _ => True

end Fbr.PtRefs
