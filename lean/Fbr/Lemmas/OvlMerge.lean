/-
  Helper lemmas about the SPEC `merge` / `stackIdx` / `cutIdx` of Fbr.Ovl.
-/
import Fbr.Ovl

namespace Fbr.Ovl

/-- the layers that can contribute the name `n` in directory `pp`: they take part in the merged
    directory `pp` (as a directory) and have an entry `n` -/
def cands (d : Disk) (pp : Path) (n : Name) : List Nat :=
  (stackIdx d pp).filter fun i => (d.nodeAt i pp).isDir && !(d.nodeAt i (n :: pp)).isAbsent

theorem stackIdx_cons (d : Disk) (pp : Path) (n : Name) :
    stackIdx d (n :: pp) = cutIdx d (n :: pp) (cands d pp n) := rfl

theorem cutIdx_nil (d : Disk) (p : Path) : cutIdx d p [] = [] := rfl

theorem cutIdx_cons (d : Disk) (p : Path) (i : Nat) (rest : List Nat) :
    cutIdx d p (i :: rest) =
      match d.nodeAt i p with
      | .whiteout => []
      | .absent => []
      | .dir _ o _ => if o != 0 then [i] else i :: cutIdx.cutDirsIdx d p rest
      | _ => [i] := by
  rw [cutIdx]
  generalize d.nodeAt i p = nd
  cases nd <;> rfl

theorem cutIdx_whiteout {d : Disk} {p : Path} {i : Nat} {rest : List Nat}
    (h : d.nodeAt i p = .whiteout) : cutIdx d p (i :: rest) = [] := by
  rw [cutIdx_cons, h]

theorem cutIdx_absent {d : Disk} {p : Path} {i : Nat} {rest : List Nat}
    (h : d.nodeAt i p = .absent) : cutIdx d p (i :: rest) = [] := by
  rw [cutIdx_cons, h]

theorem cutIdx_dir {d : Disk} {p : Path} {i : Nat} {rest : List Nat} {m o x : Nat}
    (h : d.nodeAt i p = .dir m o x) :
    cutIdx d p (i :: rest) = if o != 0 then [i] else i :: cutIdx.cutDirsIdx d p rest := by
  rw [cutIdx_cons, h]

theorem cutIdx_nondir {d : Disk} {p : Path} {i : Nat} {rest : List Nat}
    (hd : (d.nodeAt i p).isDir = false) (hw : (d.nodeAt i p).isWhiteout = false)
    (ha : (d.nodeAt i p).isAbsent = false) : cutIdx d p (i :: rest) = [i] := by
  rw [cutIdx_cons]
  cases h : d.nodeAt i p <;> simp_all [Node.isDir, Node.isWhiteout, Node.isAbsent]

theorem cutDirsIdx_nil (d : Disk) (p : Path) : cutIdx.cutDirsIdx d p [] = [] := rfl

theorem cutDirsIdx_cons (d : Disk) (p : Path) (j : Nat) (rest : List Nat) :
    cutIdx.cutDirsIdx d p (j :: rest) =
      match d.nodeAt j p with
      | .dir _ o _ => if o != 0 then [j] else j :: cutIdx.cutDirsIdx d p rest
      | _ => [] := by
  rw [cutIdx.cutDirsIdx]
  generalize d.nodeAt j p = nd
  cases nd <;> rfl

theorem cutDirsIdx_nondir {d : Disk} {p : Path} {j : Nat} {rest : List Nat}
    (hd : (d.nodeAt j p).isDir = false) : cutIdx.cutDirsIdx d p (j :: rest) = [] := by
  rw [cutDirsIdx_cons]
  cases h : d.nodeAt j p <;> simp_all [Node.isDir]

theorem cutDirsIdx_dir {d : Disk} {p : Path} {j : Nat} {rest : List Nat} {m o x : Nat}
    (h : d.nodeAt j p = .dir m o x) :
    cutIdx.cutDirsIdx d p (j :: rest) = if o != 0 then [j] else j :: cutIdx.cutDirsIdx d p rest := by
  rw [cutDirsIdx_cons, h]

/-- the stack is empty exactly when the topmost candidate is a whiteout (or there is none) -/
theorem cutIdx_eq_nil_iff {d : Disk} {p : Path} {i : Nat} {rest : List Nat}
    (ha : (d.nodeAt i p).isAbsent = false) :
    cutIdx d p (i :: rest) = [] ↔ d.nodeAt i p = .whiteout := by
  rw [cutIdx_cons]
  cases h : d.nodeAt i p <;> simp_all [Node.isAbsent]
  split <;> simp

/-- a non-empty stack starts with the topmost candidate -/
theorem cutIdx_head {d : Disk} {p : Path} {i : Nat} {rest : List Nat} :
    cutIdx d p (i :: rest) = [] ∨ ∃ tl, cutIdx d p (i :: rest) = i :: tl := by
  rw [cutIdx_cons]
  cases h : d.nodeAt i p <;> simp
  split <;> simp

theorem merge_def (d : Disk) (p : Path) :
    merge d p = match stackIdx d p with | [] => .none | i :: _ => (d.nodeAt i p).view := rfl

theorem merge_of_stack_nil {d : Disk} {p : Path} (h : stackIdx d p = []) : merge d p = .none := by
  rw [merge_def, h]

theorem merge_of_stack_cons {d : Disk} {p : Path} {i : Nat} {tl : List Nat}
    (h : stackIdx d p = i :: tl) : merge d p = (d.nodeAt i p).view := by
  rw [merge_def, h]

/-- everything below an invisible path is invisible -/
theorem stack_below_nil (d : Disk) (p : Path) (h : stackIdx d p = []) :
    ∀ q : Path, stackIdx d (q ++ p) = [] := by
  intro q
  induction q with
  | nil => simpa using h
  | cons m q ih =>
    show stackIdx d (m :: (q ++ p)) = []
    rw [stackIdx_cons, cands, ih]
    rfl

end Fbr.Ovl
