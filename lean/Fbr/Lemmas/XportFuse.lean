/-
  Helper lemmas for C04: FuseDevWriter (a Vec of length `len`, capacity `cap` over borrowed
  memory) and the descriptor-chain constructors.
-/
import Fbr.Lemmas.XportMem
import Fbr.Lemmas.XportOps

namespace Fbr.Xport

/-- `len ≤ cap`: the Vec never claims more than the borrowed window -/
def FuseW.ok (f : FuseW) : Prop := f.len ≤ f.cap

theorem length_foldl_append (bufs : List Bytes) (acc : Bytes) :
    (bufs.foldl (· ++ ·) acc).length = bufs.foldl (fun a x => a + x.length) acc.length := by
  induction bufs generalizing acc with
  | nil => rfl
  | cons d rest ih => simp [List.foldl, ih]

theorem foldl_add_ge (bufs : List Bytes) (n : Nat) : n ≤ bufs.foldl (fun a x => a + x.length) n := by
  induction bufs generalizing n with
  | nil => exact Nat.le_refl _
  | cons d rest ih => simp only [List.foldl]; exact Nat.le_trans (Nat.le_add_right _ _) (ih _)

theorem foldl_add_shift (bufs : List Bytes) (n k : Nat) :
    bufs.foldl (fun a x => a + x.length) (n + k) = bufs.foldl (fun a x => a + x.length) n + k := by
  induction bufs generalizing n with
  | nil => rfl
  | cons d rest ih => simp only [List.foldl]; rw [show n + k + d.length = n + d.length + k by omega, ih]

theorem checkAvail_ok {f : FuseW} {sz : Nat} (h : f.checkAvail sz = .ok ()) :
    (f.buffered = true ∨ f.len = 0) ∧ f.len ≤ f.cap ∧ sz ≤ f.cap - f.len := by
  unfold FuseW.checkAvail FuseW.availableBytes at h
  by_cases h1 : f.buffered = true ∨ f.len = 0
  · by_cases h2 : f.len > f.cap
    · simp [h1, h2] at h
    · by_cases h3 : sz > f.cap - f.len
      · simp [h1, h2, h3] at h
      · exact ⟨h1, by omega, by omega⟩
  · simp [h1] at h

/-- the `assert!(buffered || buf.is_empty())` fires exactly for a further write on an unbuffered
    writer that has already written -/
theorem checkAvail_panics_iff (f : FuseW) (sz : Nat) (hok : f.ok) :
    (∃ s, f.checkAvail sz = .error (.panic s)) ↔ (f.buffered = false ∧ f.len ≠ 0) := by
  unfold FuseW.checkAvail FuseW.availableBytes FuseW.ok at *
  by_cases h1 : f.buffered = true ∨ f.len = 0
  · have h2 : ¬ f.len > f.cap := by omega
    by_cases h3 : sz > f.cap - f.len
    · simp [h1, h2, h3]; rcases h1 with h | h <;> simp [h]
    · simp [h1, h2, h3]; rcases h1 with h | h <;> simp [h]
  · simp only [h1, not_false_eq_true, if_true]
    constructor
    · intro _; cases hb : f.buffered <;> simp_all
    · intro _; exact ⟨_, rfl⟩

theorem extend_ok {f : FuseW} {w : World} {data : Bytes} (h : f.len + data.length ≤ f.cap) :
    ∃ f1 w1, f.extend w data = .ok (f1, w1) ∧ f1.len = f.len + data.length ∧ f1.cap = f.cap ∧ f1.base = f.base
      ∧ f1.region = f.region ∧ f1.buffered = f.buffered := by
  unfold FuseW.extend
  have : ¬ (f.len + data.length > f.cap) := by omega
  simp only [this, if_false]
  exact ⟨_, _, rfl, rfl, rfl, rfl, rfl, rfl⟩

theorem extendAll_ok (f : FuseW) (w : World) (bufs : List Bytes) (count : Nat)
    (h : bufs.foldl (fun a x => a + x.length) f.len ≤ f.cap) :
    ∃ f1 w1 c, FuseW.extendAll f w bufs count = .ok (f1, w1, c)
      ∧ f1.len = bufs.foldl (fun a x => a + x.length) f.len ∧ f1.cap = f.cap := by
  induction bufs generalizing f w count with
  | nil => exact ⟨f, w, count, rfl, rfl, rfl⟩
  | cons d rest ih =>
    simp only [List.foldl] at h ⊢
    unfold FuseW.extendAll
    by_cases hd : d.isEmpty = true
    · rw [if_pos hd]
      have hl : d.length = 0 := by simpa using hd
      rw [hl, Nat.add_zero] at h ⊢
      exact ih f w count h
    · rw [if_neg hd]
      have hle : f.len + d.length ≤ f.cap := Nat.le_trans (foldl_add_ge rest _) h
      obtain ⟨f1, w1, e, l1, c1, _⟩ := extend_ok (w := w) hle
      rw [e]
      simp only
      obtain ⟨f2, w2, c, e2, l2, c2⟩ := ih f1 w1 (count + d.length) (by rw [l1, c1]; exact h)
      exact ⟨f2, w2, c, e2, by rw [l2, l1], by rw [c2, c1]⟩

theorem checkAvail_not_realloc (f : FuseW) (sz : Nat) :
    f.checkAvail sz ≠ .error (.panic "realloc of borrowed buffer") := by
  unfold FuseW.checkAvail
  intro h
  split at h
  · injection h with h; injection h with h; exact absurd h (by decide)
  · split at h
    · injection h with h; injection h with h; exact absurd h (by decide)
    · split at h
      · injection h with h; cases h
      · cases h

/-- no operation reallocates the borrowed buffer or breaks `len ≤ cap` -/
theorem fwrite_ok (f : FuseW) (w : World) (data : Bytes) (hok : f.ok) :
    (FuseW.write f w data).f.ok ∧ (FuseW.write f w data).f.cap = f.cap
      ∧ (FuseW.write f w data).res ≠ .error (.panic "realloc of borrowed buffer") := by
  unfold FuseW.write
  cases hc : f.checkAvail data.length with
  | error e =>
    refine ⟨hok, rfl, ?_⟩
    simp only
    intro h; injection h with h; subst h
    exact checkAvail_not_realloc f data.length hc
  | ok u =>
    obtain ⟨_, h2, h3⟩ := checkAvail_ok hc
    simp only
    cases hb : f.buffered with
    | true =>
      simp only [if_true]
      obtain ⟨f1, w1, e, l1, c1, _⟩ := extend_ok (f := f) (w := w) (data := data) (by omega)
      rw [e]
      simp only
      refine ⟨?_, c1, by simp⟩
      unfold FuseW.ok; omega
    | false =>
      simp only [Bool.false_eq_true, if_false]
      refine ⟨?_, ?_, by simp⟩
      · unfold FuseW.ok; simp only; omega
      · simp only

theorem fsplit_ok (f a o : FuseW) (k : Nat) (hok : f.ok) (h : f.splitAt k = .ok (a, o)) :
    a.ok ∧ o.ok ∧ a.cap + o.cap = f.cap ∧ a.base = f.base ∧ o.base = f.base + a.cap
      ∧ a.len + o.len = f.len ∧ a.buffered = true ∧ o.buffered = true ∧ k ≤ f.cap ∧ a.cap = k := by
  unfold FuseW.splitAt at h
  unfold FuseW.ok at *
  by_cases hk : f.cap < k
  · simp [hk] at h
  · simp only [hk, if_false] at h
    by_cases hl : f.len > k
    · simp only [hl, if_true, Except.ok.injEq, Prod.mk.injEq] at h
      obtain ⟨rfl, rfl⟩ := h
      exact ⟨by simp only; omega, by simp only; omega, by simp only; omega, rfl, rfl, by simp only; omega, rfl, rfl, by omega, rfl⟩
    · simp only [hl, if_false, Except.ok.injEq, Prod.mk.injEq] at h
      obtain ⟨rfl, rfl⟩ := h
      exact ⟨by simp only; omega, by simp only; omega, by simp only; omega, rfl, rfl, by simp only; omega, rfl, rfl, by omega, rfl⟩

theorem fsplit_error_iff (f : FuseW) (k : Nat) : (∃ e, f.splitAt k = .error e) ↔ f.cap < k := by
  unfold FuseW.splitAt
  by_cases hk : f.cap < k
  · simp [hk]
  · simp only [hk, if_false, iff_false]
    rintro ⟨e, he⟩
    split at he <;> cases he

/-- `commit(other)`: at most one record, the concatenation `self.buf ++ other.buf` -/
theorem fcommit_spec (f : FuseW) (w : World) (other : Option FuseW) (hb : f.buffered = true) :
    ∃ r : Bytes, r = f.slice w.mem ++ (match other with | some g => g.slice w.mem | none => [])
      ∧ (FuseW.commit f w other).1 = .ok r.length
      ∧ (FuseW.commit f w other).2.fd = (if r.isEmpty then w.fd else w.fd ++ [r])
      ∧ (FuseW.commit f w other).2.mem = w.mem := by
  unfold FuseW.commit
  simp only [hb, not_true_eq_false, if_false]
  cases other with
  | none =>
    simp only
    generalize f.slice w.mem = s
    refine ⟨s ++ [], rfl, ?_⟩
    cases s <;> simp [World.fdWrite, World.fdWritev]
  | some g =>
    simp only
    generalize f.slice w.mem = s
    generalize g.slice w.mem = o
    refine ⟨s ++ o, rfl, ?_⟩
    cases s <;> cases o <;> simp [World.fdWrite, World.fdWritev] <;> omega

end Fbr.Xport
