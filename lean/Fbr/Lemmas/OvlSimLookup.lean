/-
  (B, read-only part) Under `Consistent`, lookups answer what the disk dictates (`specStat`),
  loading keeps the cache valid, and the live view is the SPEC `merge` of the disk.
-/
import Fbr.Ovl
import Fbr.Lemmas.OvlExp
import Fbr.Lemmas.OvlHoare
import Fbr.Lemmas.OvlSim

namespace Fbr.Ovl

/-- consistent, over the disk `d` -/
def CD (d : Disk) (s : St) : Prop := Consistent s ∧ s.disk = d

/-- what LOOKUP answers from a list of real inodes: the first one's attributes, nothing for a
    whiteout -/
def headStat (d : Disk) : List Real → Option Node
  | [] => none
  | r :: _ => if r.whiteout then none else some (d.statReal r)

theorem specStat_eq (d : Disk) (p : Path) : specStat d p = headStat d (expReals d p) := by
  unfold specStat
  cases expReals d p <;> rfl

theorem realsOK_head {d : Disk} {p : Path} {rs : List Real} (h : RealsOK d p rs) :
    headStat d rs = specStat d p := by
  rw [specStat_eq]
  rcases h with h | ⟨e, he, _, h⟩
  · rw [h]
  · rw [h, he]; rfl

theorem realsOK_nonempty {d : Disk} {p : Path} {rs : List Real} (h : RealsOK d p rs) :
    rs = [] ↔ expReals d p = [] := by
  rcases h with h | ⟨e, he, _, h⟩
  · rw [h]
  · rw [h, he]; simp

/-- the first real inode of a consistent node exists on disk -/
theorem head_present {s : St} (hc : Consistent s) {p : Path} {m : MNode} (hm : s.mem p = some m)
    {r : Real} {rest : List Real} (hr : m.reals = r :: rest) : (s.disk.statReal r).isAbsent = false := by
  have hok := hc.reals p m hm
  have hex := expReals_eq s.disk hc.roots p
  -- the head of the expected list
  have key : ∀ e erest, expReals s.disk p = e :: erest → (s.disk.statReal e).isAbsent = false := by
    intro e erest he
    rw [hex] at he
    cases hi : expIdx s.disk p with
    | nil => rw [hi] at he; cases he
    | cons i irest =>
      rw [hi] at he
      simp only [List.map_cons, List.cons.injEq] at he
      rw [← he.1, statReal_realOf]
      cases p with
      | nil =>
        have : i ∈ s.disk.indices := by
          have : expIdx s.disk [] = s.disk.indices := rfl
          rw [← this, hi]; simp
        have hd := hc.roots i this
        cases hn : s.disk.nodeAt i [] <;> simp_all [Node.isDir, Node.isAbsent]
      | cons n pp => exact expIdx_present s.disk n pp i (by rw [hi]; simp)
  rcases hok with h | ⟨e, he, _, h⟩
  · rw [hr] at h
    exact key r rest h.symm
  · rw [hr] at h
    simp only [List.cons.injEq] at h
    rw [h.1]
    exact key e [] he

theorem nodeStat_eq {s : St} (hc : Consistent s) {p : Path} {m : MNode} (hm : s.mem p = some m) :
    nodeStat m s = match m.reals with
      | [] => .err ENOENT s
      | r :: _ => .ok (s.disk.statReal r) s := by
  unfold nodeStat
  cases hr : m.reals with
  | nil => simp [statReals]
  | cons r rest =>
    have := head_present hc hm hr
    simp [statReals, this]

/-- what LOOKUP may answer about a consistent node -/
theorem specStat_of_mem {s : St} (hc : Consistent s) {p : Path} {m : MNode} (hm : s.mem p = some m) :
    specStat s.disk p = headStat s.disk m.reals := (realsOK_head (hc.reals p m hm)).symm

theorem headStat_cons {d : Disk} {r : Real} {rest : List Real} :
    headStat d (r :: rest) = if r.whiteout then none else some (d.statReal r) := rfl

/-! ### load_directory -/

theorem loadDirectory_ok {s : St} (hc : Consistent s) {p : Path} {m : MNode} (hm : s.mem p = some m)
    {r : Real} {rest : List Real} (hr : m.reals = r :: rest) (hd : (s.disk.statReal r).isDir = true) :
    ∃ s', loadDirectory p s = .ok () s' ∧ Consistent s' ∧ s'.disk = s.disk ∧
      ∃ m', s'.mem p = some m' ∧ m'.loaded = true ∧ m'.reals = m.reals ∧ m'.whiteout = m.whiteout := by
  by_cases hl : m.loaded = true
  · refine ⟨s, ?_, hc, rfl, m, hm, hl, rfl, rfl⟩
    simp [loadDirectory, bind, M.bind, getNode, hm, hl, pure, M.pure]
  · simp only [Bool.not_eq_true] at hl
    have hst := nodeStat_eq hc hm
    rw [hr] at hst
    refine ⟨{ s with mem := loadedMem s.disk s.mem p m }, ?_, ?_, rfl, ?_⟩
    · simp [loadDirectory, bind, M.bind, getNode, hm, hl, hst, hd, getSt, modifySt, setNode, loadedMem, pure, M.pure]
    · exact loaded_consistent s _ hc p m hm hl rfl rfl
    · exact ⟨{ m with loaded := true, kids := addNames m.kids ((scanKids s.disk m).map (·.1)) },
        by simp [loadedMem, Mem.set], rfl, rfl, rfl⟩

/-- `lookup_node(p, "")` on a node that is in the forest -/
theorem lookupSelf_spec (d : Disk) (p : Path) :
    Triple (fun s => CD d s ∧ ∃ m, s.mem p = some m) (lookupSelf p)
      (fun m s => CD d s ∧ s.mem p = some m ∧ m.whiteout = false ∧
        (∀ st, specStat d p = some st → st.isDir = true → m.loaded = true))
      (fun s => CD d s ∧ specStat d p = none) := by
  intro s hs
  obtain ⟨⟨hc, rfl⟩, m, hm⟩ := hs
  unfold lookupSelf
  have hsp := specStat_of_mem hc hm
  by_cases hw : m.whiteout = true
  · refine ⟨fun a s' h => ?_, fun e s' h => ?_⟩ <;> simp [bind, M.bind, getNode, hm, hw, fail] at h
    obtain ⟨_, rfl⟩ := h
    refine ⟨⟨hc, rfl⟩, ?_⟩
    rw [hsp]
    have := hc.wh p m hm
    rw [hw] at this
    cases hr : m.reals with
    | nil => rfl
    | cons r rest => rw [hr] at this; simp [headStat, headWhiteout] at this ⊢; simp [this]
  · simp only [Bool.not_eq_true] at hw
    have hst := nodeStat_eq hc hm
    cases hr : m.reals with
    | nil =>
      rw [hr] at hst hsp
      refine ⟨fun a s' h => ?_, fun e s' h => ?_⟩ <;>
        simp [bind, M.bind, getNode, hm, hw, hst] at h
      obtain ⟨_, rfl⟩ := h; exact ⟨⟨hc, rfl⟩, hsp⟩
    | cons r rest =>
      have hwr : r.whiteout = false := by
        have := hc.wh p m hm
        rw [hr, hw] at this
        exact this.symm
      rw [hr] at hst hsp
      simp only [headStat_cons, hwr, Bool.false_eq_true, if_false] at hsp
      by_cases hdl : ((s.disk.statReal r).isDir && !m.loaded) = true
      · have hd : (s.disk.statReal r).isDir = true := by
          simp only [Bool.and_eq_true] at hdl; exact hdl.1
        obtain ⟨s', hld, hc', hd', m', hm', hl', _, hw'⟩ := loadDirectory_ok hc hm hr hd
        refine ⟨fun a s'' h => ?_, fun e s'' h => ?_⟩ <;>
          simp [bind, M.bind, getNode, hm, hw, hst, whenM, hdl, hld, hm'] at h
        obtain ⟨rfl, rfl⟩ := h
        exact ⟨⟨hc', hd'⟩, hm', by rw [hw', hw], fun _ _ _ => hl'⟩
      · simp only [Bool.not_eq_true] at hdl
        refine ⟨fun a s'' h => ?_, fun e s'' h => ?_⟩ <;>
          simp [bind, M.bind, getNode, hm, hw, hst, whenM, hdl, pure, M.pure] at h
        obtain ⟨rfl, rfl⟩ := h
        refine ⟨⟨hc, rfl⟩, hm, hw, fun st hst' hdir => ?_⟩
        rw [hsp] at hst'
        cases hst'
        simpa [hdir] using hdl

/-- a node that answers LOOKUP is not a whiteout -/
theorem not_whiteout_of_spec {s : St} (hc : Consistent s) {p : Path} {m : MNode} (hm : s.mem p = some m)
    {st : Node} (h : specStat s.disk p = some st) :
    m.whiteout = false ∧ ∃ r rest, m.reals = r :: rest ∧ s.disk.statReal r = st := by
  rw [specStat_of_mem hc hm] at h
  have hw := hc.wh p m hm
  cases hr : m.reals with
  | nil => rw [hr] at h; cases h
  | cons r rest =>
    rw [hr, headStat_cons] at h
    rw [hr] at hw
    by_cases hwr : r.whiteout = true
    · simp [hwr] at h
    · simp only [Bool.not_eq_true] at hwr
      simp only [hwr, Bool.false_eq_true, if_false, Option.some.injEq] at h
      exact ⟨by rw [hw]; exact hwr, r, rest, rfl, h⟩

/-- `lookup_node(pp, n)` below a visible directory -/
theorem lookupNode_spec (d : Disk) (pp : Path) (n : Name) :
    Triple (fun s => CD d s ∧ (∃ m, s.mem pp = some m) ∧ ∃ st, specStat d pp = some st ∧ st.isDir = true)
      (lookupNode pp n)
      (fun c s => CD d s ∧ s.mem (n :: pp) = some c)
      (fun s => CD d s ∧ specStat d (n :: pp) = none) := by
  unfold lookupNode
  refine Triple.pre (P := fun s => (∃ st, specStat d pp = some st ∧ st.isDir = true) ∧ (CD d s ∧ ∃ m, s.mem pp = some m))
    (Triple.pure_pre fun hdir => ?_) (fun s h => ⟨h.2.2, h.1, h.2.1⟩)
  obtain ⟨st, hst, hd⟩ := hdir
  refine Triple.bind ((lookupSelf_spec d pp).conseq (fun _ h => h) (fun _ _ h => h) (fun s h => ?_)) fun pm => ?_
  · rw [hst] at h; exact absurd h.2 (by simp)
  · intro s hs
    obtain ⟨⟨hc, rfl⟩, hpm, _, hload⟩ := hs
    have hl := hload st hst hd
    have hk := hc.kidsLoaded pp pm hpm hl n
    by_cases hn : n ∈ pm.kids
    · obtain ⟨c, hcm⟩ := hc.kidsMem pp pm n hpm hn
      refine ⟨fun a s' h => ?_, fun e s' h => ?_⟩ <;> simp [hn, getNode, hcm] at h
      obtain ⟨rfl, rfl⟩ := h
      exact ⟨⟨hc, rfl⟩, hcm⟩
    · refine ⟨fun a s' h => ?_, fun e s' h => ?_⟩ <;> simp [hn, fail] at h
      obtain ⟨_, rfl⟩ := h
      refine ⟨⟨hc, rfl⟩, ?_⟩
      refine Classical.byContradiction fun hne => hn (hk.2 ?_)
      rw [specStat_eq] at hne
      cases he : expReals s.disk (n :: pp) with
      | nil => rw [he] at hne; exact absurd rfl hne
      | cons r rest =>
        rw [he] at hne
        simp only [headStat] at hne
        by_cases hw : r.whiteout = true
        · simp [hw] at hne
        · simp only [Bool.not_eq_true] at hw
          simp [needsNode, hw]

/-- `do_lookup(pp, n)` below a visible directory answers exactly what the disk dictates -/
theorem doLookup_spec (d : Disk) (pp : Path) (n : Name) :
    Triple (fun s => CD d s ∧ (∃ m, s.mem pp = some m) ∧ ∃ st, specStat d pp = some st ∧ st.isDir = true)
      (doLookup pp n)
      (fun st s => CD d s ∧ specStat d (n :: pp) = some st ∧ ∃ c, s.mem (n :: pp) = some c)
      (fun s => CD d s ∧ specStat d (n :: pp) = none) := by
  unfold doLookup
  refine Triple.bind (lookupNode_spec d pp n) fun c => ?_
  intro s hs
  obtain ⟨⟨hc, rfl⟩, hcm⟩ := hs
  have hsp := specStat_of_mem hc hcm
  have hwh := hc.wh _ c hcm
  have hst := nodeStat_eq hc hcm
  by_cases hw : c.whiteout = true
  · refine ⟨fun a s' h => ?_, fun e s' h => ?_⟩ <;> simp [hw, fail] at h
    obtain ⟨_, rfl⟩ := h
    refine ⟨⟨hc, rfl⟩, ?_⟩
    rw [hsp]
    cases hr : c.reals with
    | nil => rfl
    | cons r rest => rw [hr, hw] at hwh; simp [headStat, headWhiteout] at hwh ⊢; simp [hwh]
  · simp only [Bool.not_eq_true] at hw
    cases hr : c.reals with
    | nil =>
      rw [hr] at hst hsp
      refine ⟨fun a s' h => ?_, fun e s' h => ?_⟩ <;> simp [hw, bind, M.bind, hst] at h
      obtain ⟨_, rfl⟩ := h; exact ⟨⟨hc, rfl⟩, hsp⟩
    | cons r rest =>
      have hwr : r.whiteout = false := by rw [hr, hw] at hwh; exact hwh.symm
      rw [hr] at hst hsp
      simp only [headStat_cons, hwr, Bool.false_eq_true, if_false] at hsp
      by_cases hdl : ((s.disk.statReal r).isDir && !c.loaded) = true
      · have hd : (s.disk.statReal r).isDir = true := by
          simp only [Bool.and_eq_true] at hdl; exact hdl.1
        obtain ⟨s', hld, hc', hd', m', hm', _, _, _⟩ := loadDirectory_ok hc hcm hr hd
        refine ⟨fun a s'' h => ?_, fun e s'' h => ?_⟩ <;>
          simp [hw, bind, M.bind, hst, whenM, hdl, hld, pure, M.pure] at h
        obtain ⟨rfl, rfl⟩ := h
        exact ⟨⟨hc', hd'⟩, hsp, m', hm'⟩
      · simp only [Bool.not_eq_true] at hdl
        refine ⟨fun a s'' h => ?_, fun e s'' h => ?_⟩ <;>
          simp [hw, bind, M.bind, hst, whenM, hdl, pure, M.pure] at h
        obtain ⟨rfl, rfl⟩ := h
        exact ⟨⟨hc, rfl⟩, hsp, c, hcm⟩

theorem specStat_none_below (d : Disk) (p : Path) (h : specStat d p = none) :
    ∀ l : List Name, specStat d (l ++ p) = none
  | [] => h
  | n :: rest => by
    have ih := specStat_none_below d p h rest
    exact specStat_below d n (rest ++ p) (fun st hst => by rw [ih] at hst; cases hst)

/-- walking a path component by component -/
theorem resolveFrom_spec (d : Disk) : ∀ (l : List Name) (cur : Path) (st : Node),
    Triple (fun s => CD d s ∧ (∃ m, s.mem cur = some m) ∧ specStat d cur = some st)
      (resolveFrom cur st l)
      (fun r s => CD d s ∧ r.1 = l.reverse ++ cur ∧ specStat d r.1 = some r.2 ∧ ∃ m, s.mem r.1 = some m)
      (fun s => CD d s ∧ specStat d (l.reverse ++ cur) = none)
  | [], cur, st => by
    unfold resolveFrom
    exact Triple.pure' fun s h => ⟨h.1, rfl, h.2.2, h.2.1⟩
  | n :: rest, cur, st => by
    unfold resolveFrom
    have hlist : (n :: rest).reverse ++ cur = rest.reverse ++ (n :: cur) := by simp
    by_cases hd : st.isDir = true
    · simp only [hd, Bool.not_true, Bool.false_eq_true, if_false]
      refine Triple.bind ((doLookup_spec d cur n).conseq (fun s h => ⟨h.1, h.2.1, st, h.2.2, hd⟩)
        (fun _ _ h => h) (fun s h => ?_)) fun st' => ?_
      · refine ⟨h.1, ?_⟩
        rw [hlist]
        exact specStat_none_below d (n :: cur) h.2 rest.reverse
      · rw [hlist]
        exact (resolveFrom_spec d rest (n :: cur) st').pre fun s h => ⟨h.1, h.2.2, h.2.1⟩
    · simp only [Bool.not_eq_true] at hd
      simp only [hd, Bool.not_false, if_true]
      refine Triple.fail' fun s h => ⟨h.1, ?_⟩
      rw [hlist]
      refine specStat_none_below d (n :: cur) ?_ rest.reverse
      exact specStat_below d n cur (fun st' hst' => by rw [h.2.2] at hst'; cases hst'; exact hd)

theorem rootStat_spec (d : Disk) :
    Triple (CD d) rootStat (fun st s => CD d s ∧ (∃ m, s.mem [] = some m) ∧ specStat d [] = some st)
      (fun s => CD d s ∧ specStat d [] = none) := by
  unfold rootStat
  refine Triple.bind ((lookupSelf_spec d []).pre fun s h => ⟨h, h.1.root⟩) fun m => ?_
  intro s hs
  obtain ⟨⟨hc, rfl⟩, hm, hw, _⟩ := hs
  have hst := nodeStat_eq hc hm
  have hsp := specStat_of_mem hc hm
  have hwh := hc.wh _ m hm
  cases hr : m.reals with
  | nil =>
    rw [hr] at hst hsp
    refine ⟨fun a s' h => ?_, fun e s' h => ?_⟩ <;> rw [hst] at h <;> cases h
    exact ⟨⟨hc, rfl⟩, hsp⟩
  | cons r rest =>
    have hwr : r.whiteout = false := by rw [hr, hw] at hwh; exact hwh.symm
    rw [hr] at hst hsp
    simp only [headStat_cons, hwr, Bool.false_eq_true, if_false] at hsp
    refine ⟨fun a s' h => ?_, fun e s' h => ?_⟩ <;> rw [hst] at h <;> cases h
    exact ⟨⟨hc, rfl⟩, ⟨m, hm⟩, hsp⟩

theorem resolve_spec (d : Disk) (p : List Name) :
    Triple (CD d) (resolve p)
      (fun r s => CD d s ∧ r.1 = p.reverse ∧ specStat d r.1 = some r.2 ∧ ∃ m, s.mem r.1 = some m)
      (fun s => CD d s ∧ specStat d p.reverse = none) := by
  unfold resolve
  refine Triple.bind ((rootStat_spec d).conseq (fun _ h => h) (fun _ _ h => h) (fun s h => ?_)) fun st => ?_
  · refine ⟨h.1, ?_⟩
    have := specStat_none_below d [] h.2 p.reverse
    simpa using this
  · exact (resolveFrom_spec d p [] st).conseq (fun _ h => h) (fun r s h => ⟨h.1, by simpa using h.2.1, h.2.2⟩)
      (fun s h => ⟨h.1, by simpa using h.2⟩)

/-- the node a client sees at a path it has looked up -/
theorem viewOf_spec (d : Disk) (p : Path) (st : Node) :
    Triple (fun s => CD d s ∧ specStat d p = some st ∧ ∃ m, s.mem p = some m) (viewOf p)
      (fun v s => CD d s ∧ v = st.view) (fun _ => False) := by
  intro s hs
  obtain ⟨⟨hc, rfl⟩, hsp, m, hm⟩ := hs
  obtain ⟨_, r, rest, hr, hst⟩ := not_whiteout_of_spec hc hm hsp
  refine ⟨fun a s' h => ?_, fun e s' h => ?_⟩ <;>
    simp [viewOf, firstReal, bind, M.bind, getNode, hm, hr, pure, M.pure, getSt] at h
  obtain ⟨rfl, rfl⟩ := h
  exact ⟨⟨hc, rfl⟩, by rw [hst]⟩

/-- (B) With a consistent forest the live view at every path is the SPEC `merge` of the disk. -/
theorem consistent_view_is_merge (s : St) (hc : Consistent s) (p : List Name) :
    liveView s p = merge s.disk p.reverse := by
  rw [merge_eq_specStat s.disk hc.roots]
  unfold liveView
  have h1 := resolve_spec s.disk p s ⟨hc, rfl⟩
  show (match M.bind (resolve p) (fun x => match x with | (path, _) => viewOf path) s with
    | .ok v _ => v | .err _ _ => .none) = _
  unfold M.bind
  cases hr : resolve p s with
  | err e s' =>
    have := (h1.2 e s' hr).2
    simp [this, viewOfStat]
  | ok r s' =>
    obtain ⟨path, st⟩ := r
    obtain ⟨hcd, hpath, hsp, hmem⟩ := h1.1 _ s' hr
    simp only at hpath hsp hmem ⊢
    have h2 := viewOf_spec s.disk path st s' ⟨hcd, hsp, hmem⟩
    cases hv : viewOf path s' with
    | err e s'' => exact (h2.2 e s'' hv).elim
    | ok v s'' =>
      have := (h2.1 v s'' hv).2
      rw [← hpath, hsp, this]; rfl

end Fbr.Ovl
