/-
  Fbr.Lemmas.SrvReply — what the kernel reads back from the reply encodings, and the structure
  of directory payloads.
-/
import Fbr.Srv
import Fbr.Lemmas.SrvDecode
import Fbr.Lemmas.SrvGood

namespace Fbr.Srv
open Fbr.Wire Fbr.Conv

/-- like `wire_norm`, for values that are truncated to the field width -/
macro "wire_mod" : tactic => `(tactic|
  simp (disch := omega) only [List.append_assoc, u32At_take, u64At_take, u32At_skip32, u32At_skip64,
    u64At_skip32, u64At_skip64, Nat.sub_self, Nat.reduceSub, u32At_le32, u64At_le64])

/-- the kernel's reading of `struct fuse_attr` (88 bytes) placed at the start of `b` -/
structure AttrRead (b : Bytes) (a : Attr) : Prop where
  ino : u64At b 0 = a.ino % 2 ^ 64
  size : u64At b 8 = a.size % 2 ^ 64
  blocks : u64At b 16 = a.blocks % 2 ^ 64
  atime : u64At b 24 = a.atime % 2 ^ 64
  mtime : u64At b 32 = a.mtime % 2 ^ 64
  ctime : u64At b 40 = a.ctime % 2 ^ 64
  atimensec : u32At b 48 = a.atimensec % 2 ^ 32
  mtimensec : u32At b 52 = a.mtimensec % 2 ^ 32
  ctimensec : u32At b 56 = a.ctimensec % 2 ^ 32
  mode : u32At b 60 = a.mode % 2 ^ 32
  nlink : u32At b 64 = a.nlink % 2 ^ 32
  uid : u32At b 68 = a.uid % 2 ^ 32
  gid : u32At b 72 = a.gid % 2 ^ 32
  rdev : u32At b 76 = a.rdev % 2 ^ 32
  blksize : u32At b 80 = a.blksize % 2 ^ 32
  flags : u32At b 84 = a.flags % 2 ^ 32

theorem attrBytes_read (a : Attr) (rest : Bytes) : AttrRead (attrBytes a ++ rest) a := by
  constructor <;> (unfold attrBytes; wire_mod)

@[simp] theorem attrBytes_length (a : Attr) : (attrBytes a).length = 88 := by simp [attrBytes]

@[simp] theorem entryOutBytes_length (o : EntryOut) : (entryOutBytes o).length = 128 := by
  simp [entryOutBytes]

/-- the kernel's reading of `struct fuse_entry_out` (128 bytes) -/
structure EntryRead (b : Bytes) (o : EntryOut) : Prop where
  nodeid : u64At b 0 = o.nodeid % 2 ^ 64
  generation : u64At b 8 = o.generation % 2 ^ 64
  entryValid : u64At b 16 = o.entryValid % 2 ^ 64
  attrValid : u64At b 24 = o.attrValid % 2 ^ 64
  entryValidNsec : u32At b 32 = o.entryValidNsec % 2 ^ 32
  attrValidNsec : u32At b 36 = o.attrValidNsec % 2 ^ 32
  attr : AttrRead (b.drop 40) o.attr

theorem entryOutBytes_read (o : EntryOut) (rest : Bytes) : EntryRead (entryOutBytes o ++ rest) o := by
  constructor
  · unfold entryOutBytes; wire_mod
  · unfold entryOutBytes; wire_mod
  · unfold entryOutBytes; wire_mod
  · unfold entryOutBytes; wire_mod
  · unfold entryOutBytes; wire_mod
  · unfold entryOutBytes; wire_mod
  · have hsplit : entryOutBytes o ++ rest =
        (le64 o.nodeid ++ le64 o.generation ++ le64 o.entryValid ++ le64 o.attrValid ++
          le32 o.entryValidNsec ++ le32 o.attrValidNsec) ++ (attrBytes o.attr ++ rest) := by
      simp [entryOutBytes, List.append_assoc]
    have hlen : (le64 o.nodeid ++ le64 o.generation ++ le64 o.entryValid ++ le64 o.attrValid ++
          le32 o.entryValidNsec ++ le32 o.attrValidNsec).length = 40 := by simp
    rw [hsplit, ← hlen, List.drop_left]
    exact attrBytes_read _ _

/-! ### directory payloads -/

/-- the complete record `add_dirent` writes for one entry -/
def recordBytes (plus : Bool) (de : DirEnt × Entry) : Bytes :=
  (direntChunks de.1 (if plus then some de.2 else none)).foldl (· ++ ·) []

theorem direntChunks_total (d : DirEnt) (e : Option Entry) :
    ((direntChunks d e).foldl (· ++ ·) []).length = direntTotal d e := by
  unfold direntChunks direntTotal
  have hp := Nat.div_mul_le_self (DIRENT + d.name.length + 7) 8
  have hq : DIRENT + d.name.length ≤ (DIRENT + d.name.length + 7) / 8 * 8 := by unfold DIRENT; omega
  cases e with
  | none => simp [List.foldl, DIRENT]; omega
  | some en => simp [List.foldl, DIRENT, ENTRY_OUT]; omega

theorem direntTotal_pos (d : DirEnt) (e : Option Entry) : 0 < direntTotal d e := by
  unfold direntTotal DIRENT ENTRY_OUT
  dsimp only
  split <;> omega

/-- every record is a whole number of 8-byte words -/
theorem direntTotal_aligned (d : DirEnt) (e : Option Entry) : direntTotal d e % 8 = 0 := by
  unfold direntTotal ENTRY_OUT
  dsimp only
  split <;> omega

theorem pushChunk_ok (cc written : Nat) (acc c : Bytes) (h : written + acc.length + c.length ≤ cc) :
    pushChunk cc written (acc, false) c = (acc ++ c, false) := by
  unfold pushChunk
  simp only [Bool.false_eq_true, if_false]
  by_cases hc : c.isEmpty
  · have : c = [] := List.isEmpty_iff.mp hc
    subst this; simp
  · have : ¬ written + acc.length + c.length > cc := by omega
    simp [hc, this]

theorem foldl_append_nil (l : List Bytes) (x : Bytes) : l.foldl (· ++ ·) x = x ++ l.foldl (· ++ ·) [] := by
  induction l generalizing x with
  | nil => simp
  | cons y ys ih => simp only [List.foldl_cons, List.nil_append]; rw [ih (x ++ y), ih y]; simp

/-- when the whole record fits the cursor, `writeChunks` writes exactly the record -/
theorem foldl_pushChunk_ok (cc written : Nat) (chunks : List Bytes) (acc : Bytes)
    (h : written + acc.length + (chunks.foldl (· ++ ·) []).length ≤ cc) :
    chunks.foldl (pushChunk cc written) (acc, false) = (acc ++ chunks.foldl (· ++ ·) [], false) := by
  induction chunks generalizing acc with
  | nil => simp
  | cons c cs ih =>
    simp only [List.foldl_cons, List.nil_append] at h ⊢
    rw [foldl_append_nil cs c] at h ⊢
    simp only [List.length_append] at h
    rw [pushChunk_ok cc written acc c (by omega)]
    rw [ih (acc ++ c) (by simp only [List.length_append]; omega)]
    simp

theorem writeChunks_ok (cc written : Nat) (chunks : List Bytes)
    (h : written + (chunks.foldl (· ++ ·) []).length ≤ cc) :
    writeChunks cc written chunks = (chunks.foldl (· ++ ·) [], false) := by
  unfold writeChunks
  have := foldl_pushChunk_ok cc written chunks [] (by simpa using h)
  simpa using this

/-- with a cursor at least as large as the client's `size`, `add_dirent` either skips the entry
    (does not fit `size`) or appends exactly its complete record; it never fails -/
theorem addDirent_whole (size cc written : Nat) (d : DirEnt) (e : Option Entry) (hcc : size ≤ cc) :
    addDirent size cc written d e = ([], .ok 0) ∧ size - written < direntTotal d e ∨
    addDirent size cc written d e = ((direntChunks d e).foldl (· ++ ·) [], .ok (direntTotal d e)) ∧
      written + direntTotal d e ≤ size := by
  unfold addDirent
  have hpos : 0 < direntTotal d e := direntTotal_pos d e
  by_cases h : size - written < direntTotal d e
  · left; simp [h]
  · right
    have hfit : written + direntTotal d e ≤ size := by omega
    simp only [h, if_false]
    rw [writeChunks_ok cc written _ (by rw [direntChunks_total]; omega)]
    exact ⟨rfl, hfit⟩

/-- **Directory replies hold only whole records of a prefix of the entries, within `size`.** -/
theorem dirLoop_prefix (size cc : Nat) (plus prop : Bool) (ds : List (DirEnt × Entry)) (acc : Bytes)
    (hcc : size ≤ cc) (hacc : acc.length ≤ size) :
    ∃ k, k ≤ ds.length ∧
      dirLoop size cc plus prop ds acc = (acc ++ (ds.take k).flatMap (recordBytes plus), none) ∧
      (acc ++ (ds.take k).flatMap (recordBytes plus)).length ≤ size := by
  induction ds generalizing acc with
  | nil => exact ⟨0, by simp, by simp [dirLoop], by simpa using hacc⟩
  | cons de rest ih =>
    obtain ⟨d, e⟩ := de
    rcases addDirent_whole size cc acc.length d (if plus then some e else none) hcc with ⟨h, _⟩ | ⟨h, hfit⟩
    · refine ⟨0, by simp, ?_, by simpa using hacc⟩
      unfold dirLoop
      rw [h]
      simp
    · have htot := direntChunks_total d (if plus then some e else none)
      have hrec : recordBytes plus (d, e) = (direntChunks d (if plus then some e else none)).foldl (· ++ ·) [] := rfl
      have hpos : 0 < direntTotal d (if plus then some e else none) := direntTotal_pos _ _
      obtain ⟨k, hk, heq, hlen⟩ := ih (acc ++ recordBytes plus (d, e))
        (by rw [List.length_append, hrec, htot]; exact hfit)
      refine ⟨k + 1, by simp; omega, ?_, ?_⟩
      · unfold dirLoop
        rw [h]
        obtain ⟨n, hn⟩ : ∃ n, direntTotal d (if plus then some e else none) = n + 1 := ⟨_, (Nat.succ_pred_eq_of_pos hpos).symm⟩
        rw [hn]
        simp only
        rw [← hrec, heq]
        simp [List.take_succ_cons, List.flatMap_cons, List.append_assoc]
      · simpa [List.take_succ_cons, List.flatMap_cons, List.append_assoc] using hlen

theorem recordBytes_aligned (plus : Bool) (de : DirEnt × Entry) : (recordBytes plus de).length % 8 = 0 := by
  unfold recordBytes
  rw [direntChunks_total]
  exact direntTotal_aligned _ _

end Fbr.Srv
