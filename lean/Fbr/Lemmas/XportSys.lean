/-
  Helper lemmas for C04/C17: the invariant of the handle table under any operation of the
  virtio-fs transport (readers + writers over one descriptor chain, no fusedev writer).
-/
import Fbr.Lemmas.XportOps2
import Fbr.XportSys

namespace Fbr.Xport

/-- world part of the invariant: every raw access stays inside the chain (`R0` = addresses of the
    readable descriptors, `W0` = of the writable ones) and the dirty log is exactly the set of
    pages of written addresses -/
structure WInv (R0 W0 : List Addr) (w : World) : Prop where
  p : 0 < w.p
  rd_in : ∀ a ∈ rdAddrs w.log, a ∈ R0
  wr_in : ∀ a ∈ wrAddrs w.log, a ∈ W0
  dirty_sup : ∀ a ∈ wrAddrs w.log, pageOf w.p a ∈ w.dirty
  dirty_sub : ∀ x ∈ w.dirty, ∃ a ∈ wrAddrs w.log, pageOf w.p a = x

/-- handle part: the cursor only covers addresses of its chain half and cannot overflow -/
def HIn (A0 : List Addr) (b : IoBufs) : Prop :=
  (∀ a ∈ addrs b.segs, a ∈ A0) ∧ b.consumed + total b.segs < USIZE

/-- `available + consumed` of a handle -/
def IoBufs.size (b : IoBufs) : Nat := b.available + b.consumed

def sizes (l : List IoBufs) : Nat := (l.map IoBufs.size).sum

theorem WInv.adv_read {R0 W0 : List Addr} {w w' : World} {b b' : IoBufs}
    (hw : WInv R0 W0 w) (hb : HIn R0 b) (h : Adv false false b w b' w') :
    WInv R0 W0 w' ∧ HIn R0 b' ∧ b'.size = b.size := by
  have hinv := h.inv
  obtain ⟨n, h1, h2, h3, h4, h5, h6, h7, h8⟩ := h
  simp only [sel, Bool.false_eq_true, if_false, Bool.not_false, if_true] at h4 h5
  have hd : ∀ x, x ∈ w'.dirty ↔ x ∈ w.dirty := by intro x; rw [h6]; simp
  refine ⟨⟨by rw [h2]; exact hw.p, ?_, by rw [h5]; exact hw.wr_in, ?_, ?_⟩, ⟨?_, by rw [hinv]; exact hb.2⟩, ?_⟩
  · intro a ha
    rw [h4, List.mem_append] at ha
    cases ha with
    | inl ha => exact hw.rd_in a ha
    | inr ha => exact hb.1 a (List.mem_of_mem_take ha)
  · intro a ha; rw [h5] at ha; rw [hd, h2]; exact hw.dirty_sup a ha
  · intro x hx; rw [hd] at hx; rw [h5, h2]; exact hw.dirty_sub x hx
  · intro a ha; rw [h7] at ha; exact hb.1 a (List.mem_of_mem_drop ha)
  · simp only [IoBufs.size, available_eq_total]; omega

theorem WInv.adv_write {R0 W0 : List Addr} {w w' : World} {b b' : IoBufs}
    (hw : WInv R0 W0 w) (hb : HIn W0 b) (h : Adv true true b w b' w') :
    WInv R0 W0 w' ∧ HIn W0 b' ∧ b'.size = b.size := by
  have hinv := h.inv
  obtain ⟨n, h1, h2, h3, h4, h5, h6, h7, h8⟩ := h
  simp only [sel, Bool.false_eq_true, if_false, Bool.not_true, if_true] at h4 h5
  refine ⟨⟨by rw [h2]; exact hw.p, by rw [h5]; exact hw.rd_in, ?_, ?_, ?_⟩, ⟨?_, by rw [hinv]; exact hb.2⟩, ?_⟩
  · intro a ha
    rw [h4, List.mem_append] at ha
    cases ha with
    | inl ha => exact hw.wr_in a ha
    | inr ha => exact hb.1 a (List.mem_of_mem_take ha)
  · intro a ha
    rw [h4, List.mem_append] at ha
    rw [h6, h2]
    cases ha with
    | inl ha => exact Or.inl (hw.dirty_sup a ha)
    | inr ha => exact Or.inr ⟨rfl, a, ha, rfl⟩
  · intro x hx
    rw [h6] at hx
    rw [h4, h2]
    cases hx with
    | inl hx =>
      obtain ⟨a, ha, e⟩ := hw.dirty_sub x hx
      exact ⟨a, List.mem_append_left _ ha, e⟩
    | inr hx =>
      obtain ⟨_, a, ha, e⟩ := hx
      exact ⟨a, List.mem_append_right _ ha, e⟩
  · intro a ha; rw [h7] at ha; exact hb.1 a (List.mem_of_mem_drop ha)
  · simp only [IoBufs.size, available_eq_total]; omega

/-- what a successful `split_at` returns, on the flat list -/
theorem splitAt_ok {b a o : IoBufs} {k : Nat} (h : b.splitAt k = .ok (a, o)) :
    k ≤ total b.segs ∧ addrs a.segs = (addrs b.segs).take k ∧ addrs o.segs = (addrs b.segs).drop k
      ∧ a.consumed = b.consumed ∧ o.consumed = 0 := by
  unfold IoBufs.splitAt at h
  by_cases hk : k ≤ total b.segs
  · obtain ⟨a', o', e, ha, ho⟩ := (splitSegs_spec b.segs k).1 hk
    rw [e] at h
    simp only [Except.ok.injEq, Prod.mk.injEq] at h
    obtain ⟨rfl, rfl⟩ := h
    exact ⟨hk, ha, ho, rfl, rfl⟩
  · rw [(splitSegs_spec b.segs k).2 (by omega)] at h
    cases h

/-- `split_at` partitions a handle: both halves stay inside, sizes add up -/
theorem splitAt_spec {A0 : List Addr} {b a o : IoBufs} {k : Nat} (hb : HIn A0 b)
    (h : b.splitAt k = .ok (a, o)) :
    HIn A0 a ∧ HIn A0 o ∧ a.size + o.size = b.size
      ∧ addrs a.segs = (addrs b.segs).take k ∧ addrs o.segs = (addrs b.segs).drop k
      ∧ a.consumed = b.consumed ∧ o.consumed = 0 ∧ k ≤ total b.segs := by
  unfold IoBufs.splitAt at h
  by_cases hk : k ≤ total b.segs
  · obtain ⟨a', o', e, ha, ho⟩ := (splitSegs_spec b.segs k).1 hk
    rw [e] at h
    simp only [Except.ok.injEq, Prod.mk.injEq] at h
    obtain ⟨rfl, rfl⟩ := h
    have la : total a' = k := by
      have := congrArg List.length ha; simp at this; omega
    have lo : total o' = total b.segs - k := by
      have := congrArg List.length ho; simpa using this
    refine ⟨⟨?_, ?_⟩, ⟨?_, ?_⟩, ?_, ha, ho, rfl, rfl, hk⟩
    · intro x hx; simp only at hx; rw [ha] at hx; exact hb.1 x (List.mem_of_mem_take hx)
    · have := hb.2; simp only; omega
    · intro x hx; simp only at hx; rw [ho] at hx; exact hb.1 x (List.mem_of_mem_drop hx)
    · have := hb.2; simp only; omega
    · simp only [IoBufs.size, available_eq_total]; omega
  · rw [(splitSegs_spec b.segs k).2 (by omega)] at h
    cases h

theorem splitAt_error_iff (b : IoBufs) (k : Nat) :
    (∃ e, b.splitAt k = .error e) ↔ total b.segs < k := by
  unfold IoBufs.splitAt
  by_cases hk : k ≤ total b.segs
  · obtain ⟨a', o', e, _, _⟩ := (splitSegs_spec b.segs k).1 hk
    rw [e]; simp; omega
  · rw [(splitSegs_spec b.segs k).2 (by omega)]; simp; omega

/-! ### lists of handles -/

theorem forall_set {α : Type} {P : α → Prop} {l : List α} {i : Nat} {x : α}
    (hl : ∀ y ∈ l, P y) (hx : P x) : ∀ y ∈ l.set i x, P y := by
  intro y hy
  rcases List.mem_or_eq_of_mem_set hy with h | h
  · exact hl y h
  · rw [h]; exact hx

theorem sum_map_set {α : Type} (f : α → Nat) (l : List α) (i : Nat) (b x : α) (h : l[i]? = some b) :
    ((l.set i x).map f).sum + f b = (l.map f).sum + f x := by
  induction l generalizing i with
  | nil => simp at h
  | cons y rest ih =>
    cases i with
    | zero => simp at h; subst h; simp; omega
    | succ i =>
      simp only [List.getElem?_cons_succ] at h
      have := ih i h
      simp only [List.set, List.map_cons, List.sum_cons]
      omega

theorem sizes_set (l : List IoBufs) (i : Nat) (b x : IoBufs) (h : l[i]? = some b) (hx : x.size = b.size) :
    sizes (l.set i x) = sizes l := by
  have := sum_map_set IoBufs.size l i b x h
  unfold sizes; omega

theorem sizes_append (l : List IoBufs) (x : IoBufs) : sizes (l ++ [x]) = sizes l + x.size := by
  simp [sizes]

theorem mem_of_getElem? {α : Type} {l : List α} {i : Nat} {b : α} (h : l[i]? = some b) : b ∈ l :=
  List.mem_of_getElem? h

/-! ### the invariant of the handle table -/

structure Inv (R0 W0 : List Addr) (nr nw : Nat) (st : St) : Prop where
  w : WInv R0 W0 st.w
  readers : ∀ b ∈ st.readers, HIn R0 b
  writers : ∀ b ∈ st.writers, HIn W0 b
  rsum : sizes st.readers = nr
  wsum : sizes st.writers = nw
  nofuse : st.fws = []

theorem step_inv {R0 W0 : List Addr} {nr nw : Nat} {st : St} (h : Inv R0 W0 nr nw st) (op : Op) :
    Inv R0 W0 nr nw (step st op).1 := by
  have hnf := h.nofuse
  cases op with
  | rd i n =>
    simp only [step]
    cases hg : st.readers[i]? with
    | none => exact h
    | some b =>
      simp only [setAt]
      have hb := h.readers b (mem_of_getElem? hg)
      obtain ⟨h1, h2, h3⟩ := h.w.adv_read hb (read_adv b st.w n hb.2)
      exact ⟨h1, forall_set h.readers h2, h.writers, by rw [sizes_set _ _ _ _ hg h3]; exact h.rsum, h.wsum, hnf⟩
  | ro i n =>
    simp only [step]
    cases hg : st.readers[i]? with
    | none => exact h
    | some b =>
      simp only [setAt]
      have hb := h.readers b (mem_of_getElem? hg)
      obtain ⟨h1, h2, h3⟩ := h.w.adv_read hb (readObj_adv b st.w n hb.2)
      exact ⟨h1, forall_set h.readers h2, h.writers, by rw [sizes_set _ _ _ _ hg h3]; exact h.rsum, h.wsum, hnf⟩
  | rt i count at_ sc =>
    simp only [step]
    cases hg : st.readers[i]? with
    | none => exact h
    | some b =>
      simp only [setAt]
      have hb := h.readers b (mem_of_getElem? hg)
      obtain ⟨h1, h2, h3⟩ := h.w.adv_read hb (readTo_adv b st.w sc count at_.isSome hb.2)
      exact ⟨h1, forall_set h.readers h2, h.writers, by rw [sizes_set _ _ _ _ hg h3]; exact h.rsum, h.wsum, hnf⟩
  | re i count sc =>
    simp only [step]
    cases hg : st.readers[i]? with
    | none => exact h
    | some b =>
      simp only [setAt]
      have hb := h.readers b (mem_of_getElem? hg)
      obtain ⟨h1, h2, h3⟩ := h.w.adv_read hb (readExactTo_adv _ b st.w sc count hb.2)
      exact ⟨h1, forall_set h.readers h2, h.writers, by rw [sizes_set _ _ _ _ hg h3]; exact h.rsum, h.wsum, hnf⟩
  | rs i k =>
    simp only [step]
    cases hg : st.readers[i]? with
    | none => exact h
    | some b =>
      simp only
      cases hs : b.splitAt k with
      | error e => exact h
      | ok r =>
        obtain ⟨a, o⟩ := r
        simp only [setAt]
        have hb := h.readers b (mem_of_getElem? hg)
        obtain ⟨h1, h2, h3, _⟩ := splitAt_spec hb hs
        refine ⟨h.w, ?_, h.writers, ?_, h.wsum, hnf⟩
        · intro y hy
          rw [List.mem_append] at hy
          cases hy with
          | inl hy => exact forall_set h.readers h1 y hy
          | inr hy => simp at hy; rw [hy]; exact h2
        · rw [sizes_append]
          have := sum_map_set IoBufs.size st.readers i b a hg
          have := h.rsum
          unfold sizes at *; omega
  | wr i data =>
    simp only [step]
    cases hg : st.writers[i]? with
    | none => exact h
    | some b =>
      simp only [setAt]
      have hb := h.writers b (mem_of_getElem? hg)
      obtain ⟨h1, h2, h3⟩ := h.w.adv_write hb (vwrite_adv b st.w data h.w.p hb.2)
      exact ⟨h1, h.readers, forall_set h.writers h2, h.rsum, by rw [sizes_set _ _ _ _ hg h3]; exact h.wsum, hnf⟩
  | wv i datas =>
    simp only [step]
    cases hg : st.writers[i]? with
    | none => exact h
    | some b =>
      simp only [setAt]
      have hb := h.writers b (mem_of_getElem? hg)
      obtain ⟨h1, h2, h3⟩ := h.w.adv_write hb (writeVectored_adv b st.w datas h.w.p hb.2)
      exact ⟨h1, h.readers, forall_set h.writers h2, h.rsum, by rw [sizes_set _ _ _ _ hg h3]; exact h.wsum, hnf⟩
  | wf i count at_ sc =>
    simp only [step]
    cases hg : st.writers[i]? with
    | none => exact h
    | some b =>
      simp only [setAt]
      have hb := h.writers b (mem_of_getElem? hg)
      obtain ⟨h1, h2, h3⟩ := h.w.adv_write hb (writeFrom_adv b st.w sc count at_ h.w.p hb.2)
      exact ⟨h1, h.readers, forall_set h.writers h2, h.rsum, by rw [sizes_set _ _ _ _ hg h3]; exact h.wsum, hnf⟩
  | wa i count sc =>
    simp only [step]
    cases hg : st.writers[i]? with
    | none => exact h
    | some b =>
      simp only [setAt]
      have hb := h.writers b (mem_of_getElem? hg)
      obtain ⟨h1, h2, h3⟩ := h.w.adv_write hb (writeAllFrom_adv b st.w sc count h.w.p hb.2)
      exact ⟨h1, h.readers, forall_set h.writers h2, h.rsum, by rw [sizes_set _ _ _ _ hg h3]; exact h.wsum, hnf⟩
  | ws i k =>
    simp only [step]
    cases hg : st.writers[i]? with
    | none => exact h
    | some b =>
      simp only
      cases hs : b.splitAt k with
      | error e => exact h
      | ok r =>
        obtain ⟨a, o⟩ := r
        simp only [setAt]
        have hb := h.writers b (mem_of_getElem? hg)
        obtain ⟨h1, h2, h3, _⟩ := splitAt_spec hb hs
        refine ⟨h.w, h.readers, ?_, h.rsum, ?_, hnf⟩
        · intro y hy
          rw [List.mem_append] at hy
          cases hy with
          | inl hy => exact forall_set h.writers h1 y hy
          | inr hy => simp at hy; rw [hy]; exact h2
        · rw [sizes_append]
          have := sum_map_set IoBufs.size st.writers i b a hg
          have := h.wsum
          unfold sizes at *; omega
  | wc i o =>
    simp only [step]
    cases hg : st.writers[i]? with
    | none => exact h
    | some b => exact h
  | fw i data => simp only [step, hnf, List.getElem?_nil]; exact h
  | fv i datas => simp only [step, hnf, List.getElem?_nil]; exact h
  | ff i count at_ sc => simp only [step, hnf, List.getElem?_nil]; exact h
  | fa i count sc => simp only [step, hnf, List.getElem?_nil]; exact h
  | fs i k => simp only [step, hnf, List.getElem?_nil]; exact h
  | fc i o => simp only [step, hnf, List.getElem?_nil]; exact h

theorem exec_inv {R0 W0 : List Addr} {nr nw : Nat} (ops : List Op) {st : St} (h : Inv R0 W0 nr nw st) :
    Inv R0 W0 nr nw (exec st ops) := by
  induction ops generalizing st with
  | nil => exact h
  | cons op rest ih => exact ih (step_inv h op)

end Fbr.Xport
