/-
  What the attribute-changing operations (chmod, truncate, open for writing, write, setxattr,
  removexattr) leave at the target path: the node is copied up if need be (type, mode, content,
  target preserved; `user.x` dropped — known finding) and then changed as the host call changes
  an ordinary file.  For `op_refines_plain_fs` and for `copy_up_preserves` end to end.
-/
import Fbr.Ovl
import Fbr.Lemmas.OvlHoare
import Fbr.Lemmas.OvlSim
import Fbr.Lemmas.OvlSimLookup
import Fbr.Lemmas.OvlSimRO
import Fbr.Lemmas.OvlLocal
import Fbr.Lemmas.OvlMut
import Fbr.Lemmas.OvlEval
import Fbr.Lemmas.OvlCopyUp
import Fbr.Lemmas.OvlOps
import Fbr.Lemmas.OvlCreate
import Fbr.Lemmas.OvlEffects

namespace Fbr.Ovl

/-! ### what a host call does to the entry it is applied to -/

/-- `f` (a host call on the entry `p`) changes that entry by `g` -/
def PointEffect (f : Layer → Except Nat Layer) (p : Path) (g : Node → Node) : Prop :=
  ∀ L L', f L = .ok L' → L' p = g (L p)

def chmodN (mode : Nat) : Node → Node
  | .file i _ c x => .file i mode c x
  | .dir _ o x => .dir mode o x
  | .other i _ => .other i mode
  | n => n

def truncN (k : Nat) : Node → Node
  | .file i m c x => .file i m (resize c k) x
  | n => n

def openN (trunc : Bool) : Node → Node
  | .file i m c x => .file i m (if trunc then [] else c) x
  | n => n

def writeN (off : Nat) (data : List Nat) : Node → Node
  | .file i m c x => .file i m (pwrite c off data) x
  | n => n

def setxN (v : Nat) : Node → Node
  | .file i m c _ => .file i m c v
  | .dir m o _ => .dir m o v
  | n => n

theorem updFile_self (L : Layer) (p : Path) (i m : Nat) (c : List Nat) (x : Nat) (h : L p = .file i m c x)
    (f : Node → Node) : (L.updFile i f) p = f (.file i m c x) := by
  simp [Layer.updFile, h]

theorem updFile_self_other (L : Layer) (p : Path) (i m : Nat) (h : L p = .other i m)
    (f : Node → Node) : (L.updFile i f) p = f (.other i m) := by
  simp [Layer.updFile, h]

theorem pointEffect_hChmod (p : Path) (mode : Nat) : PointEffect (fun L => hChmod L p mode) p (chmodN mode) := by
  intro L L' h
  simp only [hChmod] at h
  split at h
  · cases h
  · rename_i id m c x hx
    cases h
    rw [updFile_self L p id m c x hx, hx]; rfl
  · rename_i m o x hx
    cases h
    simp [Layer.set, hx, chmodN]
  · rename_i id m hx
    cases h
    rw [updFile_self_other L p id m hx, hx]; rfl
  · cases h
  · rename_i hx
    cases h
    rw [hx]; rfl

theorem pointEffect_hTruncate (p : Path) (k : Nat) : PointEffect (fun L => hTruncate L p k) p (truncN k) := by
  intro L L' h
  simp only [hTruncate] at h
  split at h
  · cases h
  · rename_i id m c x hx
    cases h
    rw [updFile_self L p id m c x hx, hx]; rfl
  · cases h
  · cases h

theorem pointEffect_hOpen (p : Path) (t : Bool) : PointEffect (hOpen · p t) p (openN t) := by
  intro L L' h
  simp only [hOpen] at h
  split at h
  · cases h
  · rename_i id m c x hx
    split at h
    · rename_i ht
      cases h
      rw [updFile_self L p id m c x hx, hx]; simp [openN, ht]
    · rename_i ht
      cases h
      rw [hx]; simp [openN, ht]
  · rename_i m o x hx
    cases h
    rw [hx]; rfl
  · cases h
  · cases h

theorem pointEffect_hWrite (p : Path) (off : Nat) (data : List Nat) :
    PointEffect (hWrite · p off data) p (writeN off data) := by
  intro L L' h
  simp only [hWrite] at h
  split at h
  · rename_i id m c x hx
    cases h
    rw [updFile_self L p id m c x hx, hx]; rfl
  · cases h

theorem pointEffect_hSetX (p : Path) (v : Nat) : PointEffect (fun L => hSetX L p v) p (setxN v) := by
  intro L L' h
  simp only [hSetX] at h
  split at h
  · cases h
  · rename_i id m c x hx
    cases h
    rw [updFile_self L p id m c x hx, hx]; rfl
  · rename_i m o x hx
    cases h
    simp [Layer.set, hx, setxN]
  · cases h

theorem pointEffect_hRmX (p : Path) : PointEffect (fun L => hRmX L p) p (setxN 0) := by
  intro L L' h
  simp only [hRmX] at h
  split at h
  · cases h
  · split at h
    · cases h
    · exact pointEffect_hSetX p 0 L L' h

/-! ### a node that is in the upper layer, with its upper entry -/

/-- the cache is valid, the node at `p` is in the upper layer and its upper entry is `N` -/
def UpNode (p : Path) (N : Node) (s : St) : Prop :=
  Consistent s ∧ UpAt p s ∧ s.disk.nodeAt 0 p = N

theorem specStat_of_upNode {p : Path} {N : Node} {s : St} (h : UpNode p N s) (hw : N.isWhiteout = false) :
    specStat s.disk p = some N := by
  obtain ⟨hc, ⟨m, hm, hmu⟩, hN⟩ := h
  obtain ⟨r, _, hl, hp, _, hwr, rest, hr⟩ := upper_head hc hm hmu
  rw [specStat_of_mem hc hm, hr]
  rw [hN, hw] at hwr
  simp [headStat, hwr, Disk.statReal, hl, hp, hN]

/-- one attribute-changing call on layer 0 -/
theorem upperCall_eff (p : Path) (N : Node) (meth : Method) (f : Layer → Except Nat Layer)
    (hs : KeepShape f) (hk : KeepRoot f) (g : Node → Node) (hg : PointEffect f p g) :
    Triple (UpNode p N) (layerCall 0 meth f) (fun _ s => UpNode p (g N) s) Consistent := by
  apply Triple.ofOutcome
  intro s ⟨hc, ⟨m, hm, hmu⟩, hN⟩
  cases hup : s.disk.upper with
  | none =>
    have : layerCall 0 meth f s = .err ENOENT { s with log := s.log ++ [⟨0, meth⟩] } := by
      simp [layerCall, Disk.layer, hup]
    rw [this]; exact hc.congr rfl rfl
  | some L =>
    cases hf : f L with
    | error e =>
      rw [layerCall_err meth (show s.disk.layer 0 = some L from hup) hf]
      exact hc.congr rfl rfl
    | ok L' =>
      rw [layerCall_ok meth (show s.disk.layer 0 = some L from hup) hf]
      refine ⟨consistent_sameShape hc hup (hs L L' hf) (hk L L' hf) _, ⟨m, hm, hmu⟩, ?_⟩
      show (s.disk.setLayer 0 L').nodeAt 0 p = g N
      rw [nodeAt_setLayer0, if_pos rfl, hg L L' hf, ← hN]
      simp [Disk.nodeAt, Disk.layer, hup]

/-- the first real inode of a node in the upper layer -/
theorem firstReal_upNode (p : Path) (N : Node) :
    Triple (UpNode p N) (firstReal p) (fun r s => (r.layer = 0 ∧ r.path = p) ∧ UpNode p N s) Consistent := by
  apply Triple.ofOutcome
  intro s ⟨hc, ⟨m, hm, hmu⟩, hN⟩
  obtain ⟨r, _, hl, hp, _, _, rest, hr⟩ := upper_head hc hm hmu
  unfold firstReal
  rw [bind_ok (getNode_ok hm)]
  simp only [hr]
  exact ⟨⟨hl, hp⟩, hc, ⟨m, hm, hmu⟩, hN⟩

/-- what the first real inode of a visible node shows is not a whiteout and not nothing -/
theorem visible_stat {s : St} (hc : Consistent s) {p : Path} {m : MNode} (hm : s.mem p = some m)
    (hw : m.whiteout = false) {r : Real} {rest : List Real} (hr : m.reals = r :: rest) :
    (s.disk.statReal r).isWhiteout = false ∧ (s.disk.statReal r).isAbsent = false := by
  refine ⟨?_, head_present hc hm hr⟩
  have hwh := hc.wh p m hm
  have hsh := reals_shape hc hm r (by simp [hr])
  rw [hw, hr] at hwh
  simp only [headWhiteout] at hwh
  have : s.disk.statReal r = s.disk.nodeAt r.layer p := by simp [Disk.statReal, hsh.1]
  rw [this, ← hsh.2.2]; exact hwh.symm

theorem not_whiteout_of_view {N st : Node} (h : N.view.dropX = st.view.dropX) (hw : st.isWhiteout = false)
    (ha : st.isAbsent = false) : N.isWhiteout = false := by
  cases N <;> cases st <;> simp_all [Node.view, VNode.dropX, Node.isWhiteout, Node.isAbsent]

/-- the visible node `st` at `p` is brought into the upper layer (if it is not there yet): the upper
    entry shows the same type, mode, content, target; only the xattr may be gone -/
def Copied (p : Path) (st : Node) (s : St) : Prop :=
  ∃ N, UpNode p N s ∧ N.view.dropX = st.view.dropX ∧ N.isWhiteout = false

/-- `copy_node_up` of a visible node, with what the upper entry shows afterwards -/
theorem copyNodeUp_eff (p : Path) (m : MNode) (st : Node) :
    Triple (fun s => Consistent s ∧ s.mem p = some m ∧ m.whiteout = false ∧
        ∃ r rest, m.reals = r :: rest ∧ s.disk.statReal r = st)
      (copyNodeUp p) (fun _ s => Copied p st s) Consistent := by
  apply Triple.ofOutcome
  intro s ⟨hc, hm, hw, r, rest, hr, hst⟩
  have hvis := visible_stat hc hm hw hr
  rw [hst] at hvis
  have := copyNodeUp_spec p s hc
  cases hres : copyNodeUp p s with
  | err e s' => rw [hres] at this; exact this.1
  | ok u s' =>
    rw [hres] at this
    have himg := this.img m r rest hm hr hw
    rw [hst] at himg
    exact ⟨_, ⟨this.cons, this.up, rfl⟩, himg, not_whiteout_of_view himg hvis.1 hvis.2⟩

/-- every ancestor of a visible path is visible -/
theorem visible_ancestors (d : Disk) : ∀ (l : List Name) (q : Path), specStat d (l ++ q) ≠ none → specStat d q ≠ none
  | [], _, h => h
  | c :: l, q, h => by
    apply visible_ancestors d l q
    intro hn
    apply h
    exact specStat_below d c (l ++ q) (fun st hst => by rw [hn] at hst; cases hst)

/-- `copy_up_preserves`, end to end: after a successful `copy_node_up(p)` of a visible node, the
    union shows at `p` AND AT EVERY ANCESTOR of `p` what it showed before — type, permission bits,
    content, link target — up to the `user.x` xattr (which is not copied: known finding); the node
    is backed by the upper layer, the cache is valid and the lower layers are untouched. -/
theorem copyNodeUp_view {s s' : St} (hc : Consistent s) {p : Path} (hvis : specStat s.disk p ≠ none)
    (hmem : ∃ m, s.mem p = some m) (h : copyNodeUp p s = .ok () s') :
    Consistent s' ∧ UpAt p s' ∧ s'.disk.lowers = s.disk.lowers ∧
      ∀ q, q.isSuffixOf p = true → (merge s'.disk q).dropX = (merge s.disk q).dropX := by
  have hcud := copyNodeUp_spec p s hc
  rw [h] at hcud
  refine ⟨hcud.cons, hcud.up, hcud.lowers, fun q hq => ?_⟩
  obtain ⟨m, hm⟩ := hmem
  obtain ⟨t, ht⟩ := List.isSuffixOf_iff_suffix.1 hq
  -- the node at `q` before
  obtain ⟨mq, hmq⟩ := mem_suffix_closed hc t q m (by rw [ht]; exact hm)
  have hvq : specStat s.disk q ≠ none := visible_ancestors s.disk t q (by rw [ht]; exact hvis)
  cases hsq : specStat s.disk q with
  | none => exact absurd hsq hvq
  | some stq =>
    obtain ⟨hwq, r, rest, hr, hstq⟩ := not_whiteout_of_spec hc hmq hsq
    have himg := hcud.anc q hq mq r rest hmq hr hwq
    rw [hstq] at himg
    have hvisq := visible_stat hc hmq hwq hr
    rw [hstq] at hvisq
    -- the node at `q` afterwards: in the upper layer
    obtain ⟨m', hm', hmu'⟩ := hcud.up
    obtain ⟨mq', hmq', _, _⟩ := hcud.keep q mq hmq
    have hmqu' := ancestors_inUpper hcud.cons t q m' mq' (by rw [ht]; exact hm') hmu' hmq'
    have hup : UpNode q (s'.disk.nodeAt 0 q) s' := ⟨hcud.cons, ⟨mq', hmq', hmqu'⟩, rfl⟩
    rw [merge_eq_specStat s'.disk hcud.cons.roots, merge_eq_specStat s.disk hc.roots, hsq,
      specStat_of_upNode hup (not_whiteout_of_view himg hvisq.1 hvisq.2)]
    exact himg

/-- `if !node.in_upper_layer() { copy_node_up }` -/
theorem ensureUp_eff (p : Path) (m : MNode) (st : Node) :
    Triple (fun s => Consistent s ∧ s.mem p = some m ∧ m.whiteout = false ∧
        ∃ r rest, m.reals = r :: rest ∧ s.disk.statReal r = st)
      (whenM (!m.inUpper) (copyNodeUp p)) (fun _ s => Copied p st s) Consistent := by
  refine Triple.whenM' (fun _ => copyNodeUp_eff p m st) fun hmu s ⟨hc, hm, hw, r, rest, hr, hst⟩ => ?_
  have hmu' : m.inUpper = true := by simpa using hmu
  have hvis := visible_stat hc hm hw hr
  rw [hst] at hvis
  have himg := ImgKept.refl hc hm hmu' m r rest hm hr hw
  rw [hst] at himg
  exact ⟨_, ⟨hc, ⟨m, hm, hmu'⟩, rfl⟩, himg, not_whiteout_of_view himg hvis.1 hvis.2⟩

/-- `lookup_node(p, "")` of a visible node, with what it shows -/
theorem lookupSelf_vis (p : Path) (st : Node) :
    Triple (fun s => Consistent s ∧ specStat s.disk p = some st ∧ ∃ m, s.mem p = some m) (lookupSelf p)
      (fun m s => Consistent s ∧ s.mem p = some m ∧ m.whiteout = false ∧
        ∃ r rest, m.reals = r :: rest ∧ s.disk.statReal r = st) Consistent := by
  intro s ⟨hc, hsp, m0, hm0⟩
  have h := lookupSelf_spec s.disk p s ⟨⟨hc, rfl⟩, m0, hm0⟩
  refine ⟨fun a s' hf => ?_, fun e s' hf => (h.2 e s' hf).1.1⟩
  obtain ⟨⟨hc', hd'⟩, hm', hw', _⟩ := h.1 a s' hf
  obtain ⟨_, r, rest, hr, hst⟩ := not_whiteout_of_spec hc' hm' (by rw [hd']; exact hsp)
  exact ⟨hc', hm', hw', r, rest, hr, hst⟩

/-- the result of an attribute change at `p`: the old node `st`, copied up, changed by `g` -/
def Changed (p : Path) (st : Node) (g : Node → Node) (s : St) : Prop :=
  Consistent s ∧ ∃ N, N.view.dropX = st.view.dropX ∧ specStat s.disk p = some (g N)

theorem changed_of_upNode {p : Path} {st N : Node} {g : Node → Node} {s : St}
    (h : UpNode p (g N) s) (hv : N.view.dropX = st.view.dropX) (hw : (g N).isWhiteout = false) :
    Changed p st g s :=
  ⟨h.1, N, hv, specStat_of_upNode h hw⟩

theorem doSetattr_eff (p : Path) (st : Node) (f : Path → Layer → Except Nat Layer)
    (hs : ∀ rp, KeepShape (f rp)) (hk : ∀ rp, KeepRoot (f rp)) (g : Node → Node)
    (hg : PointEffect (f p) p g) (hgw : ∀ N, N.isWhiteout = false → (g N).isWhiteout = false) :
    Triple (fun s => Consistent s ∧ specStat s.disk p = some st ∧ ∃ m, s.mem p = some m)
      (doSetattr p f) (fun _ s => Changed p st g s) Consistent := by
  unfold doSetattr
  refine Triple.bind (Q := fun _ s => Consistent s ∧ specStat s.disk p = some st ∧ ∃ m, s.mem p = some m) ?_ fun up => ?_
  · intro s hs'
    refine ⟨fun a s' h => ?_, fun e s' h => ?_⟩ <;> cases h
    exact hs'
  refine Triple.ite' (fun _ => Triple.fail' fun _ h => h.1) fun _ => ?_
  refine Triple.bind (lookupSelf_vis p st) fun m => ?_
  refine Triple.bind (ensureUp_eff p m st) fun _ => ?_
  intro s ⟨N, hN, hv, hw⟩
  have h1 := firstReal_upNode p N s hN
  unfold Triple at *
  refine ⟨fun a s' hf => ?_, fun e s' hf => ?_⟩
  · cases hr : firstReal p s with
    | err e s1 => rw [bind_err hr] at hf; cases hf
    | ok r s1 =>
      obtain ⟨⟨hl, hp⟩, hN1⟩ := h1.1 r s1 hr
      rw [bind_ok hr, hl, hp] at hf
      have h2 := upperCall_eff p N .setattr (f p) (hs p) (hk p) g hg s1 hN1
      exact changed_of_upNode (h2.1 a s' hf) hv (hgw N hw)
  · cases hr : firstReal p s with
    | err e1 s1 => rw [bind_err hr] at hf; cases hf; exact h1.2 _ _ hr
    | ok r s1 =>
      obtain ⟨⟨hl, hp⟩, hN1⟩ := h1.1 r s1 hr
      rw [bind_ok hr, hl, hp] at hf
      exact (upperCall_eff p N .setattr (f p) (hs p) (hk p) g hg s1 hN1).2 e s' hf

theorem doXattr_eff (p : Path) (st : Node) (meth : Method) (f : Path → Layer → Except Nat Layer)
    (hs : ∀ rp, KeepShape (f rp)) (hk : ∀ rp, KeepRoot (f rp)) (g : Node → Node)
    (hg : PointEffect (f p) p g) (hgw : ∀ N, N.isWhiteout = false → (g N).isWhiteout = false) :
    Triple (fun s => Consistent s ∧ specStat s.disk p = some st ∧ ∃ m, s.mem p = some m)
      (doXattr p meth f) (fun _ s => Changed p st g s) Consistent := by
  unfold doXattr
  refine Triple.bind (lookupSelf_vis p st) fun m => ?_
  refine Triple.ite' (fun _ => Triple.fail' fun _ h => h.1) fun _ => ?_
  refine Triple.bind (ensureUp_eff p m st) fun _ => ?_
  intro s ⟨N, hN, hv, hw⟩
  have h1 := firstReal_upNode p N s hN
  unfold Triple at *
  refine ⟨fun a s' hf => ?_, fun e s' hf => ?_⟩
  · cases hr : firstReal p s with
    | err e s1 => rw [bind_err hr] at hf; cases hf
    | ok r s1 =>
      obtain ⟨⟨hl, hp⟩, hN1⟩ := h1.1 r s1 hr
      rw [bind_ok hr, hl, hp] at hf
      have h2 := upperCall_eff p N meth (f p) (hs p) (hk p) g hg s1 hN1
      exact changed_of_upNode (h2.1 a s' hf) hv (hgw N hw)
  · cases hr : firstReal p s with
    | err e1 s1 => rw [bind_err hr] at hf; cases hf; exact h1.2 _ _ hr
    | ok r s1 =>
      obtain ⟨⟨hl, hp⟩, hN1⟩ := h1.1 r s1 hr
      rw [bind_ok hr, hl, hp] at hf
      exact (upperCall_eff p N meth (f p) (hs p) (hk p) g hg s1 hN1).2 e s' hf

/-- open for writing: copy up, then open(flags) -/
theorem doOpenW_eff (p : Path) (st : Node) (trunc : Bool) :
    Triple (fun s => Consistent s ∧ specStat s.disk p = some st ∧ ∃ m, s.mem p = some m)
      (doOpen p true trunc)
      (fun r s => (r.layer = 0 ∧ r.path = p) ∧ ∃ N, UpNode p (openN trunc N) s ∧ N.view.dropX = st.view.dropX ∧
        N.isWhiteout = false) Consistent := by
  unfold doOpen
  refine Triple.bind (lookupSelf_vis p st) fun m => ?_
  refine Triple.ite' (fun _ => Triple.fail' fun _ h => h.1) fun _ => ?_
  simp only [whenM_true]
  refine Triple.bind (copyNodeUp_eff p m st) fun _ => ?_
  intro s ⟨N, hN, hv, hw⟩
  have h1 := firstReal_upNode p N s hN
  unfold Triple at *
  refine ⟨fun a s' hf => ?_, fun e s' hf => ?_⟩
  · cases hr : firstReal p s with
    | err e s1 => rw [bind_err hr] at hf; cases hf
    | ok r s1 =>
      obtain ⟨⟨hl, hp⟩, hN1⟩ := h1.1 r s1 hr
      rw [bind_ok hr, hl, hp] at hf
      have h2 := upperCall_eff p N .openW (hOpen · p trunc) (keepShape_hOpen _ _) (keepRoot_hOpen _ _)
        (openN trunc) (pointEffect_hOpen p trunc) s1 hN1
      cases hc2 : layerCall 0 Method.openW (fun x => hOpen x p trunc) s1 with
      | err e s2 => rw [bind_err hc2] at hf; cases hf
      | ok u s2 =>
        rw [bind_ok hc2] at hf
        cases hf
        exact ⟨⟨hl, hp⟩, N, h2.1 u _ hc2, hv, hw⟩
  · cases hr : firstReal p s with
    | err e1 s1 => rw [bind_err hr] at hf; cases hf; exact h1.2 _ _ hr
    | ok r s1 =>
      obtain ⟨⟨hl, hp⟩, hN1⟩ := h1.1 r s1 hr
      rw [bind_ok hr, hl, hp] at hf
      have h2 := upperCall_eff p N .openW (hOpen · p trunc) (keepShape_hOpen _ _) (keepRoot_hOpen _ _)
        (openN trunc) (pointEffect_hOpen p trunc) s1 hN1
      cases hc2 : layerCall 0 Method.openW (fun x => hOpen x p trunc) s1 with
      | err e2 s2 => rw [bind_err hc2] at hf; cases hf; exact h2.2 _ _ hc2
      | ok u s2 => rw [bind_ok hc2] at hf; cases hf

/-- the node after OPEN(trunc) + WRITE(append?, off, data) -/
def writeAllN (trunc append : Bool) (off : Nat) (data : List Nat) : Node → Node
  | .file i m c x =>
    .file i m (pwrite (if trunc then [] else c) (if append then (if trunc then [] else c).length else off) data) x
  | n => n

theorem doWrite_eff (p : Path) (st : Node) (trunc append : Bool) (off : Nat) (data : List Nat) :
    Triple (fun s => Consistent s ∧ specStat s.disk p = some st ∧ ∃ m, s.mem p = some m)
      (doWrite p trunc append off data) (fun _ s => Changed p st (writeAllN trunc append off data) s) Consistent := by
  unfold doWrite
  refine Triple.bind (doOpenW_eff p st trunc) fun r => ?_
  intro s ⟨⟨hl, hp⟩, N, hN, hv, hw⟩
  rw [bind_ok (getSt_eval s), hl, hp]
  have hoff : appendOff s.disk r append off =
      if append then (match openN trunc N with | .file _ _ c _ => c.length | _ => 0) else off := by
    simp only [appendOff, Disk.statReal, hl, hp, hN.2.2]
    rfl
  have h2 := upperCall_eff p (openN trunc N) .write (hWrite · p (appendOff s.disk r append off) data)
    (keepShape_hWrite _ _ _) (keepRoot_hWrite _ _ _) (writeN (appendOff s.disk r append off) data)
    (pointEffect_hWrite p _ data) s hN
  have heq : writeN (appendOff s.disk r append off) data (openN trunc N) = writeAllN trunc append off data N := by
    rw [hoff]
    cases N <;> simp [openN, writeN, writeAllN]
  have hwn : (writeAllN trunc append off data N).isWhiteout = false := by
    cases N <;> simp_all [writeAllN, Node.isWhiteout]
  refine ⟨fun a s' hf => ?_, fun e s' hf => h2.2 e s' hf⟩
  have := h2.1 a s' hf
  rw [heq] at this
  exact changed_of_upNode this hv hwn

end Fbr.Ovl
