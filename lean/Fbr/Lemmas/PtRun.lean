/-
  C08: lifting `step_tr` to whole histories (with per-request descriptor caps).
-/
import Fbr.Lemmas.PtStepTr

namespace Fbr.PtRefs

theorem stepCap_tr {nf : Bool} (e : Env) (s : St) (sp : Spec) (hd : Option Nat) (op : Op) (hf : nf = true → op.NoFh) :
    Tr e nf op.isDestroy s sp (stepCap e s hd op).1 (sp.step op (stepCap e s hd op).2) := by
  unfold stepCap
  have t0 : Tr e nf false s sp { s with cap := hd.map (s.fds + ·) } sp := Tr.frame rfl rfl rfl rfl rfl rfl ⟨rfl, rfl, rfl⟩
  have h := step_tr (nf := nf) e { s with cap := hd.map (s.fds + ·) } sp op hf
  split
  rename_i s1 r heq
  rw [heq] at h
  have h2 : Tr e nf (op.isDestroy || false) s sp _ _ :=
    Tr.trans (Tr.trans t0 h) (Tr.frame (s' := { s1 with cap := none }) rfl rfl rfl rfl rfl rfl ⟨rfl, rfl, rfl⟩)
  simpa using h2

/-- does the history contain a `destroy`? -/
def hasDestroy : List (Option Nat × Op) → Bool
  | [] => false
  | (_, op) :: r => op.isDestroy || hasDestroy r

/-- no host answer of the history carries a file handle (`inode_file_handles` off) -/
def NoHandles (h : List (Option Nat × Op)) : Prop := ∀ x ∈ h, x.2.NoFh

theorem run_trN {nf : Bool} (e : Env) (h : List (Option Nat × Op)) (hf : nf = true → NoHandles h) (s : St) (sp : Spec) :
    Tr e nf (hasDestroy h) s sp (run e s h).1 (sp.run h (run e s h).2) := by
  induction h generalizing s sp with
  | nil => exact Tr.rfl' s sp
  | cons x r ih =>
    obtain ⟨hd, op⟩ := x
    simp only [run, hasDestroy]
    exact Tr.trans (stepCap_tr e s sp hd op (fun hn => hf hn (hd, op) List.mem_cons_self))
      (ih (fun hn y hy => hf hn y (List.mem_cons_of_mem _ hy)) _ _)

theorem run_tr (e : Env) (h : List (Option Nat × Op)) (s : St) (sp : Spec) :
    Tr e false (hasDestroy h) s sp (run e s h).1 (sp.run h (run e s h).2) :=
  run_trN e h (fun x => by cases x) s sp

theorem good_fresh : Good St.fresh Spec.init :=
  ⟨by intro i _; simp [St.fresh, Spec.init], by intro i d h; simp [St.fresh] at h⟩

/-- the refinement for every history, under the two conditions on the final ghosts -/
theorem run_good (e : Env) (h : List (Option Nat × Op)) (ok : OK (run e St.fresh h).1) :
    Good (run e St.fresh h).1 (Spec.init.run h (run e St.fresh h).2) :=
  (run_tr e h St.fresh Spec.init).good good_fresh ok

end Fbr.PtRefs
