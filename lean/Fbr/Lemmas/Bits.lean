/-
  Fbr.Lemmas.Bits — single-bit tests on option words (`Nat.testBit`), used by the INIT theorems.
-/
import Fbr.InitFs

namespace Fbr.InitFs

theorem and_pow (s k : Nat) : s &&& 2 ^ k = if s.testBit k then 2 ^ k else 0 := by
  apply Nat.eq_of_testBit_eq
  intro i
  rw [Nat.testBit_and, Nat.testBit_two_pow]
  by_cases h : k = i
  · subst h
    cases hs : s.testBit k <;> simp [Nat.testBit_two_pow_self]
  · cases hs : s.testBit k <;> simp [h, Nat.testBit_two_pow_of_ne h]

/-- `has s (2^k)` is bit `k` of `s` -/
theorem has_pow (s k : Nat) : has s (2 ^ k) = s.testBit k := by
  unfold has
  rw [and_pow]
  cases s.testBit k <;> simp

/-- removing bit `k` from a 64-bit word leaves every other bit below 64 alone -/
theorem without_bit (s k j : Nat) (hk : k < 64) :
    (without s (2 ^ k)).testBit j = (s.testBit j && (decide (j < 64) && !decide (k = j))) := by
  unfold without ALL64
  rw [Nat.testBit_and]
  congr 1
  have h : 2 ^ 64 - 1 - 2 ^ k = 2 ^ 64 - (2 ^ k + 1) := by omega
  rw [h, Nat.testBit_two_pow_sub_succ (Nat.pow_lt_pow_right (by decide) hk), Nat.testBit_two_pow]

theorem ZMO_pow : ZERO_MESSAGE_OPEN = 2 ^ 17 := by decide
theorem ZMOD_pow : ZERO_MESSAGE_OPENDIR = 2 ^ 24 := by decide
theorem WB_pow : WRITEBACK_CACHE = 2 ^ 16 := by decide
theorem KP2_pow : HANDLE_KILLPRIV_V2 = 2 ^ 28 := by decide
theorem AOT_pow : ATOMIC_O_TRUNC = 2 ^ 3 := by decide
theorem DAX_pow : PERFILE_DAX = 2 ^ 33 := by decide
theorem RDP_pow : DO_READDIRPLUS = 2 ^ 13 := by decide
theorem RDPA_pow : READDIRPLUS_AUTO = 2 ^ 14 := by decide

/-- the five feature bits of the passthrough option word are exactly its five decisions -/
theorem ptOpts_bits (wb no nod kp dax : Bool) :
    (ptOpts wb no nod kp dax).testBit 16 = wb ∧ (ptOpts wb no nod kp dax).testBit 17 = no ∧
    (ptOpts wb no nod kp dax).testBit 24 = nod ∧ (ptOpts wb no nod kp dax).testBit 28 = kp ∧
    (ptOpts wb no nod kp dax).testBit 33 = dax ∧
    ((ptOpts wb no nod kp dax).testBit 3 = false) := by
  cases wb <;> cases no <;> cases nod <;> cases kp <;> cases dax <;> decide

end Fbr.InitFs
