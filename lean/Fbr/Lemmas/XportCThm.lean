/-
  Helper lemmas for C04: the content theorems in the form used by `Fbr.Thm.C04` — from the start
  state of a request, after ANY operation list `pre`, for ANY further operation list `ops`.
-/
import Fbr.Lemmas.XportCRun

namespace Fbr.Xport

theorem exec_append (s : St) (a b : List Op) : exec s (a ++ b) = exec (exec s a) b := by
  induction a generalizing s with
  | nil => rfl
  | cons op rest ih => exact ih _

theorem start_rinv {st : St} (hdisj : ∀ a ∈ readable st, a ∉ writable st) : RInv st.w.mem st :=
  ⟨hdisj, fun _ _ => rfl⟩

theorem flat_of_addrs_append (m : Mem) (b a o : List Seg) (h : addrs b = addrs a ++ addrs o) (hin : InMem m (addrs b)) :
    flat m b = flat m a ++ flat m o := by
  have ha : InMem m (addrs a) := fun x hx => hin x (by rw [h]; exact List.mem_append_left _ hx)
  have ho : InMem m (addrs o) := fun x hx => hin x (by rw [h]; exact List.mem_append_right _ hx)
  rw [flat_eq_map _ _ hin, flat_eq_map _ _ ha, flat_eq_map _ _ ho, h, List.map_append]

theorem reads_core {st : St} (pre ops : List Op) (h : Start st)
    (hdisj : ∀ a ∈ readable st, a ∉ writable st)
    (hr : ∀ b ∈ st.readers, WF st.w.mem b.segs) (hw : ∀ b ∈ st.writers, WF st.w.mem b.segs)
    (i : Nat) (b0 : IoBufs) (hi : (exec st pre).readers[i]? = some b0) (hns : ∀ k, Op.rs i k ∉ ops) :
    ∃ bf, (exec (exec st pre) ops).readers[i]? = some bf
      ∧ deliveredAll (exec st pre) i ops ++ flat st.w.mem bf.segs = flat st.w.mem b0.segs
      ∧ bf.consumed = b0.consumed + (deliveredAll (exec st pre) i ops).length
      ∧ (∀ a ∈ addrs bf.segs, (exec (exec st pre) ops).w.mem.byteAt a = st.w.mem.byteAt a) := by
  have hc := exec_cinv pre (start_cinv h hr hw)
  have hri := exec_rinv pre (start_cinv h hr hw) (start_rinv hdisj)
  obtain ⟨bf, hgf, hrd⟩ := reader_handle_run ops hc hri i b0 hi hns
  have hin : InMem st.w.mem (addrs b0.segs) :=
    fun a ha => hc.rin a (mem_ahead.mpr ⟨b0, mem_of_getElem? hi, ha⟩)
  refine ⟨bf, hgf, hrd.flat hin, hrd.2.2.1, ?_⟩
  intro a ha
  exact (exec_rinv ops hc hri).agree a (mem_ahead.mpr ⟨bf, mem_of_getElem? hgf, ha⟩)

theorem writes_core {st : St} (pre ops : List Op) (h : Start st) (hnd : (writable st).Nodup)
    (hr : ∀ b ∈ st.readers, WF st.w.mem b.segs) (hw : ∀ b ∈ st.writers, WF st.w.mem b.segs)
    (i : Nat) (b0 : IoBufs) (hi : (exec st pre).writers[i]? = some b0) (hns : ∀ k, Op.ws i k ∉ ops) :
    ∃ bf, (exec (exec st pre) ops).writers[i]? = some bf
      ∧ flat (exec (exec st pre) ops).w.mem b0.segs
          = placedAll (exec st pre) i ops
            ++ (flat (exec st pre).w.mem b0.segs).drop (placedAll (exec st pre) i ops).length
      ∧ bf.consumed = b0.consumed + (placedAll (exec st pre) i ops).length
      ∧ addrs bf.segs = (addrs b0.segs).drop (placedAll (exec st pre) i ops).length
      ∧ (∀ a, a ∉ ahead (exec st pre).writers →
          (exec (exec st pre) ops).w.mem.byteAt a = (exec st pre).w.mem.byteAt a) := by
  have hc := exec_cinv pre (start_cinv h hr hw)
  have hn := exec_wnd pre (start_cinv h hr hw) hnd
  obtain ⟨bf, hgf, hwr, hfr⟩ := writer_handle_run ops hc hn i b0 hi hns
  have hin : InMem (exec st pre).w.mem (addrs b0.segs) := by
    intro a ha; rw [hc.len]; exact hc.win a (mem_ahead.mpr ⟨b0, mem_of_getElem? hi, ha⟩)
  have hlen : ∀ x, ((exec (exec st pre) ops).w.mem.get x).length = ((exec st pre).w.mem.get x).length := by
    intro x; rw [(exec_cinv ops hc).len, hc.len]
  exact ⟨bf, hgf, hwr.flat hin hlen, hwr.2.2.1, hwr.2.1, hfr⟩

/-- a writer split at `k` into a header half (handle `i`) and a data half (the new handle), then
    ANY operation list that does not split the two halves again -/
theorem split_core {st : St} (pre ops : List Op) (h : Start st) (hnd : (writable st).Nodup)
    (hr : ∀ b ∈ st.readers, WF st.w.mem b.segs) (hw : ∀ b ∈ st.writers, WF st.w.mem b.segs)
    (i k : Nat) (b a o : IoBufs) (hi : (exec st pre).writers[i]? = some b) (hs : b.splitAt k = .ok (a, o))
    (hns : ∀ k', Op.ws i k' ∉ ops ∧ Op.ws (exec st pre).writers.length k' ∉ ops) :
    flat (exec (exec st (pre ++ [.ws i k])) ops).w.mem b.segs
      = (placedAll (exec st (pre ++ [.ws i k])) i ops
          ++ (flat (exec st pre).w.mem a.segs).drop (placedAll (exec st (pre ++ [.ws i k])) i ops).length)
        ++ (placedAll (exec st (pre ++ [.ws i k])) (exec st pre).writers.length ops
          ++ (flat (exec st pre).w.mem o.segs).drop
              (placedAll (exec st (pre ++ [.ws i k])) (exec st pre).writers.length ops).length) := by
  have hil := lt_length_of_getElem? hi
  have hc := exec_cinv pre (start_cinv h hr hw)
  have e1 : exec st (pre ++ [.ws i k]) = { (exec st pre) with writers := (exec st pre).writers.set i a ++ [o] } := by
    rw [exec_append]
    show (step (exec st pre) (.ws i k)).1 = _
    simp only [step, hi, hs, setAt]
  have hga : (exec st (pre ++ [.ws i k])).writers[i]? = some a := by
    rw [e1]; simp only
    rw [List.getElem?_append_left (by rw [List.length_set]; exact hil)]
    exact List.getElem?_set_self hil
  have hgo : (exec st (pre ++ [.ws i k])).writers[(exec st pre).writers.length]? = some o := by
    rw [e1]; simp only
    rw [List.getElem?_append_right (by rw [List.length_set]; exact Nat.le_refl _)]
    simp
  have hw1 : (exec st (pre ++ [.ws i k])).w = (exec st pre).w := by rw [e1]
  obtain ⟨_, _, fa, _, _, _⟩ := writes_core (pre ++ [.ws i k]) ops h hnd hr hw i a hga (fun k' => (hns k').1)
  obtain ⟨_, _, fo, _, _, _⟩ := writes_core (pre ++ [.ws i k]) ops h hnd hr hw _ o hgo (fun k' => (hns k').2)
  rw [hw1] at fa fo
  obtain ⟨_, _, _, _, f5⟩ := split_facts hs (hc.wov b (mem_of_getElem? hi))
  have hcf := exec_cinv ops (exec_cinv (pre ++ [.ws i k]) (start_cinv h hr hw))
  have hinb : InMem (exec (exec st (pre ++ [.ws i k])) ops).w.mem (addrs b.segs) := by
    intro x hx; rw [hcf.len]; exact hc.win x (mem_ahead.mpr ⟨b, mem_of_getElem? hi, hx⟩)
  rw [flat_of_addrs_append _ _ _ _ f5 hinb, fa, fo]

/-! ### the bytes `delivered` speaks about are the bytes a caller observes -/

theorem obs_bytes_delivered (s : St) (h : Nat) (b : IoBufs) (hg : s.readers[h]? = some b) :
    (∀ n, (step s (.rd h n)).2.bytes = delivered s h (.rd h n))
    ∧ (∀ n, (Reader.readObj b s.w n).res = .ok () → (step s (.ro h n)).2.bytes = delivered s h (.ro h n))
    ∧ (∀ count at_ sc, sc.got = [] → (step s (.rt h count at_ sc)).2.bytes = delivered s h (.rt h count at_ sc))
    ∧ (∀ count sc, sc.got = [] → (step s (.re h count sc)).2.bytes = delivered s h (.re h count sc)) := by
  refine ⟨?_, ?_, ?_, ?_⟩
  · intro n
    rw [delivered_eq (op := .rd h n) rfl hg]; simp [step, hg, obsOf, readerOut]
  · intro n hok
    rw [delivered_eq (op := .ro h n) rfl hg]; simp [step, hg, obsOf, readerOut, hok]
  · intro count at_ sc hsc
    rw [delivered_eq (op := .rt h count at_ sc) rfl hg]; simp [step, hg, obsOf, readerOut, hsc]
  · intro count sc hsc
    rw [delivered_eq (op := .re h count sc) rfl hg]; simp [step, hg, obsOf, readerOut, hsc]

/-! ### memory changes only where the log says something was written -/

theorem step_frame_log {m0 : Mem} {s : St} (hc : CInv m0 s)
    (hf : ∀ a, a ∉ wrAddrs s.w.log → s.w.mem.byteAt a = m0.byteAt a) (op : Op) :
    ∀ a, a ∉ wrAddrs (step s op).1.w.log → (step s op).1.w.mem.byteAt a = m0.byteAt a := by
  rcases step_view s op hc.ready with ⟨e, _, _⟩ | ⟨i, b, b', w', _, _, hg, e, hr⟩ | ⟨i, k, b, a, o, _, hg, hs, e⟩
      | ⟨i, b, b', w', _, _, hg, e, hw⟩ | ⟨i, k, b, a, o, _, hg, hs, e⟩
  · rw [e]; exact hf
  · rw [e]
    intro a ha
    simp only at ha ⊢
    have h5 := hr.1.2.2.2.2.1
    simp only [sel, Bool.not_false, if_true] at h5
    rw [h5] at ha
    rw [hr.2.1]; exact hf a ha
  · rw [e]; exact hf
  · rw [e]
    intro a ha
    simp only at ha ⊢
    have h4 := hw.adv.2.2.2.1
    simp only [sel, if_true] at h4
    rw [h4, List.mem_append, not_or] at ha
    rw [hw.frame a ha.2]; exact hf a ha.1
  · rw [e]; exact hf

theorem exec_frame_log {m0 : Mem} (ops : List Op) {s : St} (hc : CInv m0 s)
    (hf : ∀ a, a ∉ wrAddrs s.w.log → s.w.mem.byteAt a = m0.byteAt a) :
    ∀ a, a ∉ wrAddrs (exec s ops).w.log → (exec s ops).w.mem.byteAt a = m0.byteAt a := by
  induction ops generalizing s with
  | nil => exact hf
  | cons op rest ih => exact ih (step_cinv hc op) (step_frame_log hc hf op)

/-! ### what a writer operation stores is what it reports -/

theorem writerIn_reported (b : IoBufs) (w : World) (hp : 0 < w.p) (hin : InMem w.mem (addrs b.segs))
    (hov : b.consumed + total b.segs < USIZE) (h : Nat) :
    (∀ data n, (VirtioW.write b w data).res = .ok n → n = data.length ∧ writerIn b w (.wr h data) = data)
    ∧ (∀ data e, (VirtioW.write b w data).res = .error e → writerIn b w (.wr h data) = [])
    ∧ (∀ datas n, (VirtioW.writeVectored b w datas).res = .ok n → writerIn b w (.wv h datas) = datas.flatten.take n)
    ∧ (∀ count at_ sc n, (VirtioW.writeFrom b w sc count at_).res = .ok n →
        n ≤ count ∧ writerIn b w (.wf h count at_ sc) = patBytes sc.seed (at_.getD sc.pos) n)
    ∧ (∀ count at_ sc e, (VirtioW.writeFrom b w sc count at_).res = .error e → writerIn b w (.wf h count at_ sc) = [])
    ∧ (∀ count sc, (VirtioW.writeAllFrom b w sc count).res = .ok () →
        writerIn b w (.wa h count sc) = patBytes sc.seed sc.pos count) := by
  refine ⟨?_, ?_, ?_, ?_, ?_, ?_⟩
  · intro data n hn
    obtain ⟨e1, e2⟩ := (vwrite_delta b w data hp hov).1 n hn
    simp only [writerIn]
    rw [e1, e2, List.take_length]
    exact ⟨rfl, rfl⟩
  · intro data e he
    simp only [writerIn]
    rw [(vwrite_delta b w data hp hov).2 e he, List.take_zero]
  · intro datas n hn
    simp only [writerIn]
    rw [writeVectored_count b w datas hp hin hov n hn]
  · intro count at_ sc n hn
    obtain ⟨_, _, _, dok, dle, _⟩ := writeFrom_wrc b w sc count at_ hp hin hov
    simp only [writerIn]
    have := dok n hn
    rw [this] at dle ⊢
    exact ⟨dle, rfl⟩
  · intro count at_ sc e he
    obtain ⟨_, _, _, _, _, derr⟩ := writeFrom_wrc b w sc count at_ hp hin hov
    simp only [writerIn]
    rw [derr e he]; rfl
  · intro count sc hok
    simp only [writerIn]
    rw [writeAllFrom_count b w sc count hp hin hov hok]

end Fbr.Xport
