/-
  How the four store transitions of `Fbr.Conc` (increment, decrement, remove, insert) act on the
  store part of the invariant.
-/
import Fbr.Lemmas.ConcInv

namespace Fbr.Conc

theorem probe_some {c : Cfg} {st : Store} {incs decs : HostId → Nat} (h : SInv c st incs decs)
    {f : HostId} {o : ObjId} (hp : probe st f = some o) :
    ∃ i, st.byId f = some i ∧ st.data i = some o ∧ st.objHost o = f := by
  unfold probe at hp
  cases hb : st.byId f with
  | none => simp [hb] at hp
  | some i =>
    simp [hb] at hp
    refine ⟨i, rfl, hp, ?_⟩
    have := (h.dataObj i o hp).2.2
    exact h.byIdInj _ _ i this hb

theorem probe_of_data {c : Cfg} {st : Store} {incs decs : HostId → Nat} (h : SInv c st incs decs)
    {i : Ino} {o : ObjId} (hd : st.data i = some o) : probe st (st.objHost o) = some o := by
  have := (h.dataObj i o hd).2.2
  simp [probe, this, hd]

/-- `liveCount` of a file whose entry is `(i, o)` -/
theorem liveCount_of_data {c : Cfg} {st : Store} {incs decs : HostId → Nat} (h : SInv c st incs decs)
    {i : Ino} {o : ObjId} (hd : st.data i = some o) : liveCount st (st.objHost o) = st.cells o := by
  simp [liveCount, probe_of_data h hd]

/-- a committed increment on an object that is in the store -/
theorem sinv_inc {c : Cfg} {st : Store} {incs decs : HostId → Nat} (h : SInv c st incs decs)
    {i : Ino} {o : ObjId} (hd : st.data i = some o) :
    SInv c { st with cells := upd st.cells o (st.cells o + 1) }
      (upd incs (st.objHost o) (incs (st.objHost o) + 1)) decs := by
  constructor
  · exact h.dataObj
  · exact h.byIdInj
  · exact h.fresh
  · exact h.packed
  · intro o' ho' hn
    have : o' ≠ o := by intro e; subst e; exact hn i hd
    simp only [upd_apply, this, if_false]
    exact h.orphan o' ho' hn
  · intro f
    have hg := h.ghost f
    by_cases hf : f = st.objHost o
    · subst hf
      have h1 := liveCount_of_data h hd
      have h2 : liveCount { st with cells := upd st.cells o (st.cells o + 1) } (st.objHost o)
          = st.cells o + 1 := by
        have := probe_of_data h hd
        simp [liveCount, probe] at this ⊢
        split at this <;> simp_all
      rw [h2]; simp only [upd_apply, if_true]; omega
    · have h2 : liveCount { st with cells := upd st.cells o (st.cells o + 1) } f = liveCount st f := by
        unfold liveCount
        have hpe : probe { st with cells := upd st.cells o (st.cells o + 1) } f = probe st f := rfl
        rw [hpe]
        cases hp : probe st f with
        | none => rfl
        | some o' =>
          obtain ⟨_, _, _, hh⟩ := probe_some h hp
          have : o' ≠ o := by intro e; subst e; exact hf hh.symm
          simp [this]
      rw [h2]; simp only [upd_apply, hf, if_false]; exact hg

/-- a committed decrement (forget's CAS) on the object stored under `i` -/
theorem sinv_dec {c : Cfg} {st : Store} {incs decs : HostId → Nat} (h : SInv c st incs decs)
    {i : Ino} {o : ObjId} (hd : st.data i = some o) (new : Nat) (hle : new ≤ st.cells o) :
    SInv c { st with cells := upd st.cells o new } incs
      (upd decs (st.objHost o) (decs (st.objHost o) + (st.cells o - new))) := by
  constructor
  · exact h.dataObj
  · exact h.byIdInj
  · exact h.fresh
  · exact h.packed
  · intro o' ho' hn
    have : o' ≠ o := by intro e; subst e; exact hn i hd
    simp only [upd_apply, this, if_false]
    exact h.orphan o' ho' hn
  · intro f
    have hg := h.ghost f
    by_cases hf : f = st.objHost o
    · subst hf
      have h1 := liveCount_of_data h hd
      have h2 : liveCount { st with cells := upd st.cells o new } (st.objHost o) = new := by
        have := probe_of_data h hd
        simp [liveCount, probe] at this ⊢
        split at this <;> simp_all
      rw [h2]; simp only [upd_apply, if_true]; omega
    · have h2 : liveCount { st with cells := upd st.cells o new } f = liveCount st f := by
        unfold liveCount
        have hpe : probe { st with cells := upd st.cells o new } f = probe st f := rfl
        rw [hpe]
        cases hp : probe st f with
        | none => rfl
        | some o' =>
          obtain ⟨_, _, _, hh⟩ := probe_some h hp
          have : o' ≠ o := by intro e; subst e; exact hf hh.symm
          simp [this]
      rw [h2]; simp only [upd_apply, hf, if_false]; exact hg

/-- the store after `InodeStore::remove(i, keep)` -/
def removeAt (c : Cfg) (st : Store) (i : Ino) (o : ObjId) : Store :=
  { st with data := upd st.data i none,
            byId := if c.keep then st.byId else upd st.byId (st.objHost o) none }

theorem removeAt_byId_sub (c : Cfg) (st : Store) (i : Ino) (o : ObjId) (f : HostId) (j : Ino)
    (h : (removeAt c st i o).byId f = some j) : st.byId f = some j := by
  unfold removeAt at h
  cases hk : c.keep <;> simp [hk] at h
  · exact h.2
  · exact h

/-- removal of an entry whose count is zero -/
theorem sinv_remove {c : Cfg} {st : Store} {incs decs : HostId → Nat} (h : SInv c st incs decs)
    {i : Ino} {o : ObjId} (hd : st.data i = some o) (hz : st.cells o = 0) :
    SInv c (removeAt c st i o) incs decs := by
  have hbo := (h.dataObj i o hd).2.2
  constructor
  · intro j o' hj
    have hji : j ≠ i := by intro e; subst e; simp [removeAt] at hj
    have hj' : st.data j = some o' := by simpa [removeAt, hji] using hj
    obtain ⟨a, b, d⟩ := h.dataObj j o' hj'
    refine ⟨a, b, ?_⟩
    cases hk : c.keep
    · have hne : st.objHost o' ≠ st.objHost o := by
        intro e; rw [e, hbo] at d; exact hji (Option.some.inj d).symm
      simp [removeAt, hk, hne, d]
    · simp [removeAt, hk, d]
  · intro f g j hf hg
    exact h.byIdInj f g j (removeAt_byId_sub c st i o f j hf) (removeAt_byId_sub c st i o g j hg)
  · intro hk
    obtain ⟨a, b⟩ := h.fresh hk
    constructor
    · intro f j hf; exact a f j (removeAt_byId_sub c st i o f j hf)
    · intro j o' hj
      have hji : j ≠ i := by intro e; subst e; simp [removeAt] at hj
      exact b j o' (by simpa [removeAt, hji] using hj)
  · intro hk f j hf; exact h.packed hk f j (removeAt_byId_sub c st i o f j hf)
  · intro o' ho' hn
    by_cases e : o' = o
    · subst e; exact hz
    · apply h.orphan o' ho'
      intro j hj
      have hji : j ≠ i := by intro e2; subst e2; rw [hd] at hj; exact e (Option.some.inj hj).symm
      exact hn j (by simpa [removeAt, hji] using hj)
  · intro f
    have hg := h.ghost f
    have hl : liveCount (removeAt c st i o) f = liveCount st f := by
      by_cases hf : f = st.objHost o
      · subst hf
        have h1 := liveCount_of_data h hd
        rw [h1, hz]
        rw [liveCount_eq]
        cases hk : c.keep
        · simp [removeAt, hk]
        · simp [removeAt, hk, hbo]
      · rw [liveCount_eq, liveCount_eq]
        have hb : (removeAt c st i o).byId f = st.byId f := by
          cases hk : c.keep <;> simp [removeAt, hk, hf]
        rw [hb]
        cases hbf : st.byId f with
        | none => rfl
        | some j =>
          have hji : j ≠ i := by
            intro e; subst e; exact hf (h.byIdInj _ _ j hbf hbo)
          simp [removeAt, hji]
    rw [hl]; exact hg

/-- a store with a new object for file `f` stored under `ino` -/
def ins (st : Store) (next0 : Nat) (ino : Ino) (f : HostId) : Store :=
  { st with next := next0, data := upd st.data ino (some st.nobj), byId := upd st.byId f (some ino),
            cells := upd st.cells st.nobj 1, objIno := upd st.objIno st.nobj ino,
            objHost := upd st.objHost st.nobj f, nobj := st.nobj + 1 }

theorem no_live_host {c : Cfg} {st : Store} {incs decs : HostId → Nat} (h : SInv c st incs decs)
    {f : HostId} (hp : probe st f = none) : ∀ j o', st.data j = some o' → st.objHost o' ≠ f := by
  intro j o' hj e
  have := probe_of_data h hj
  rw [e, hp] at this; cases this

theorem sinv_ins {c : Cfg} {st : Store} {incs decs : HostId → Nat} (h : SInv c st incs decs)
    {f : HostId} {ino : Ino} {next0 : Nat} (hp : probe st f = none)
    (k1 : st.data ino = none) (k3 : ∀ g, g ≠ f → st.byId g ≠ some ino)
    (k4 : c.keep = true → ino < next0 ∧ st.next ≤ next0) (k5 : c.keep = false → ino = c.pack f) :
    SInv c (ins st next0 ino f) (upd incs f (incs f + 1)) decs := by
  have k2 := no_live_host h hp
  constructor
  · intro j o' hj
    by_cases hji : j = ino
    · subst hji
      have : o' = st.nobj := by simpa [ins] using hj.symm
      subst this
      simp [ins]
    · have hj' : st.data j = some o' := by simpa [ins, hji] using hj
      obtain ⟨a, b, d⟩ := h.dataObj j o' hj'
      have hne : o' ≠ st.nobj := Nat.ne_of_lt a
      have hf : st.objHost o' ≠ f := k2 j o' hj'
      refine ⟨by simp only [ins]; exact Nat.lt_succ_of_lt a, by simp [ins, hne, b], by simp [ins, hne, hf, d]⟩
  · intro g1 g2 j h1 h2
    simp only [ins, upd_apply] at h1 h2
    by_cases e1 : g1 = f <;> by_cases e2 : g2 = f
    · rw [e1, e2]
    · simp only [e1, if_true, e2, if_false] at h1 h2
      have := Option.some.inj h1; subst this
      exact absurd h2 (k3 g2 e2)
    · simp only [e1, if_false, e2, if_true] at h1 h2
      have := Option.some.inj h2; subst this
      exact absurd h1 (k3 g1 e1)
    · simp only [e1, e2, if_false] at h1 h2
      exact h.byIdInj g1 g2 j h1 h2
  · intro hk
    obtain ⟨a, b⟩ := h.fresh hk
    obtain ⟨c1, c2⟩ := k4 hk
    constructor
    · intro g j hg
      simp only [ins, upd_apply] at hg ⊢
      split at hg
      · have := Option.some.inj hg; subst this; exact c1
      · exact Nat.lt_of_lt_of_le (a g j hg) c2
    · intro j o' hj
      simp only [ins, upd_apply] at hj ⊢
      split at hj
      · rename_i e; subst e; exact c1
      · exact Nat.lt_of_lt_of_le (b j o' hj) c2
  · intro hk g j hg
    simp only [ins, upd_apply] at hg
    split at hg
    · rename_i e; subst e
      have := Option.some.inj hg; subst this; exact k5 hk
    · exact h.packed hk g j hg
  · intro o' ho' hn
    by_cases e : o' = st.nobj
    · subst e
      exact absurd (by simp [ins]) (hn ino)
    · have ho : o' < st.nobj := by
        have : o' < st.nobj + 1 := by simpa [ins] using ho'
        exact Nat.lt_of_le_of_ne (Nat.le_of_lt_succ this) e
      have : st.cells o' = 0 := by
        apply h.orphan o' ho
        intro j hj
        have hji : j ≠ ino := by intro e2; subst e2; rw [k1] at hj; cases hj
        exact hn j (by simp [ins, hji, hj])
      simp [ins, e, this]
  · intro g
    have hg := h.ghost g
    by_cases e : g = f
    · subst e
      have h0 : liveCount st g = 0 := by simp [liveCount, hp]
      have h1 : liveCount (ins st next0 ino g) g = 1 := by
        rw [liveCount_eq]; simp [ins]
      rw [h1]; simp only [upd_apply, if_true]; omega
    · have h1 : liveCount (ins st next0 ino f) g = liveCount st g := by
        rw [liveCount_eq, liveCount_eq]
        have hb : (ins st next0 ino f).byId g = st.byId g := by simp [ins, e]
        rw [hb]
        cases hbg : st.byId g with
        | none => rfl
        | some j =>
          have hji : j ≠ ino := by intro e2; subst e2; exact k3 g e hbg
          have hd : (ins st next0 ino f).data j = st.data j := by simp [ins, hji]
          simp only [hd]
          cases hdj : st.data j with
          | none => rfl
          | some o' =>
            have hne : o' ≠ st.nobj := Nat.ne_of_lt (h.dataObj j o' hdj).1
            simp [ins, hne]
      rw [h1]; simp only [upd_apply, e, if_false]; exact hg

/-- the store after `allocate_inode` + `insert_locked` of a new `InodeData` for file `f` -/
def insertAt (c : Cfg) (st : Store) (f : HostId) : Store × Ino :=
  match allocate c st f with
  | (st, ino) =>
    ({ st with data := upd st.data ino (some st.nobj), byId := upd st.byId f (some ino),
               cells := upd st.cells st.nobj 1, objIno := upd st.objIno st.nobj ino,
               objHost := upd st.objHost st.nobj f, nobj := st.nobj + 1 }, ino)

/-- `allocate_inode` never hands out a number that is in use, a number another file maps to, or
    (without `use_host_ino`) a number at or above the next fresh one -/
theorem insertAt_facts {c : Cfg} (hinj : ∀ f g, c.pack f = c.pack g → f = g)
    {st : Store} {incs decs : HostId → Nat} (h : SInv c st incs decs) {f : HostId}
    (hp : probe st f = none) :
    ∃ next0 ino, insertAt c st f = (ins st next0 ino f, ino) ∧ st.data ino = none
      ∧ (∀ g, g ≠ f → st.byId g ≠ some ino)
      ∧ (c.keep = true → ino < next0 ∧ st.next ≤ next0) ∧ (c.keep = false → ino = c.pack f)
      ∧ (c.keep = true → ∀ g j, st.byId g = some j → (ins st next0 ino f).byId g = some j) := by
  cases hk : c.keep
  · -- use_host_ino: the number is `pack f`
    refine ⟨st.next, c.pack f, by simp [insertAt, allocate, hk, ins], ?_, ?_, by simp, by simp, by simp⟩
    · cases hd : st.data (c.pack f) with
      | none => rfl
      | some o' =>
        have hb := (h.dataObj _ _ hd).2.2
        have := h.packed hk _ _ hb
        have e := hinj _ _ this
        exact absurd e.symm (no_live_host h hp _ _ hd)
    · intro g hg hbg
      have := h.packed hk g _ hbg
      exact hg (hinj _ _ this).symm
  · cases hb : st.byId f with
    | some i0 =>
      refine ⟨st.next, i0, by simp [insertAt, allocate, hk, hb, ins], ?_, ?_, ?_, by simp, ?_⟩
      · simpa [probe, hb] using hp
      · intro g hg hbg; exact hg (h.byIdInj g f i0 hbg hb)
      · intro _; exact ⟨(h.fresh hk).1 f i0 hb, Nat.le_refl _⟩
      · intro _ g j hg
        simp only [ins, upd_apply]
        split
        · rename_i e; subst e; rw [hb] at hg; exact hg
        · exact hg
    | none =>
      refine ⟨st.next + 1, st.next, by simp [insertAt, allocate, hk, hb, ins], ?_, ?_, ?_, by simp, ?_⟩
      · cases hd : st.data st.next with
        | none => rfl
        | some o' => exact absurd ((h.fresh hk).2 _ _ hd) (Nat.lt_irrefl _)
      · intro g _ hbg; exact absurd ((h.fresh hk).1 _ _ hbg) (Nat.lt_irrefl _)
      · intro _; exact ⟨Nat.lt_succ_self _, Nat.le_succ _⟩
      · intro _ g j hg
        simp only [ins, upd_apply]
        split
        · rename_i e; subst e; rw [hb] at hg; cases hg
        · exact hg

end Fbr.Conc
