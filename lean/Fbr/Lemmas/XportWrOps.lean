/-
  Helper lemmas for C04: CONTENT of writer operations.  `WrC D b w b' w'`: the cursor advanced by
  `D.length`; region sizes are kept; no byte outside the addresses passed changed; and — when the
  cursor's addresses are pairwise distinct — those addresses hold `D` afterwards.  Proved for
  `write`, `write_vectored`, `write_from(_at)` and `write_all_from` with any scripted source.
-/
import Fbr.Lemmas.XportWrC

namespace Fbr.Xport

/-- a fact `P aux n` about the auxiliary value of `consume` and the number of bytes consumed -/
theorem consume_aux {β : Type} (P : β → Nat → Prop) (b : IoBufs) (w : World) (md : Bool) (count : Nat) (aux0 : β)
    (f : World → List Seg → Except IoErr Nat × World × β)
    (hov : b.consumed + total b.segs < USIZE) (h0 : P aux0 0)
    (hok : ∀ n, (f w (allocate b.segs count)).1 = .ok n →
        n ≤ total (allocate b.segs count) ∧ P (f w (allocate b.segs count)).2.2 n)
    (herr : ∀ e, (f w (allocate b.segs count)).1 = .error e → P (f w (allocate b.segs count)).2.2 0) :
    P (consume b w md count aux0 f).aux ((consume b w md count aux0 f).b.consumed - b.consumed) := by
  unfold consume
  by_cases he : (allocate b.segs count).isEmpty = true
  · simp only [he, if_true, Nat.sub_self]; exact h0
  · simp only [he, Bool.false_eq_true, if_false]
    generalize f w (allocate b.segs count) = r at hok herr
    obtain ⟨res, w1, a⟩ := r
    simp only at hok herr
    cases res with
    | error e => simp only [Nat.sub_self]; exact herr e rfl
    | ok n =>
      obtain ⟨hn, hp⟩ := hok n rfl
      rw [total_allocate] at hn
      have hnov : ¬ (b.consumed + n ≥ USIZE) := by omega
      simp only [IoBufs.markUsed, hnov, if_false]
      rw [show b.consumed + n - b.consumed = n by omega]
      exact hp

/-- what `consume` does with a writing closure's content contract -/
theorem consume_wr {β : Type} (S : Nat → Bytes) (hS : S 0 = []) (b : IoBufs) (w : World) (md : Bool) (count : Nat)
    (aux0 : β) (f : World → List Seg → Except IoErr Nat × World × β)
    (hov : b.consumed + total b.segs < USIZE)
    (hf : FWr S w (allocate b.segs count) (f w (allocate b.segs count))) :
    (∀ x, ((consume b w md count aux0 f).w.mem.get x).length = (w.mem.get x).length)
    ∧ (∀ a, a ∉ (addrs b.segs).take ((consume b w md count aux0 f).b.consumed - b.consumed) →
        (consume b w md count aux0 f).w.mem.byteAt a = w.mem.byteAt a)
    ∧ ((addrs b.segs).Nodup →
        ((addrs b.segs).take ((consume b w md count aux0 f).b.consumed - b.consumed)).map
            (consume b w md count aux0 f).w.mem.byteAt
          = S ((consume b w md count aux0 f).b.consumed - b.consumed)) := by
  unfold consume
  by_cases he : (allocate b.segs count).isEmpty = true
  · simp only [he, if_true, Nat.sub_self]
    refine ⟨?_, ?_, ?_⟩
    · intros; first | rfl | trivial
    · intros; first | rfl | trivial
    · intro _; simp [hS]
  · simp only [he, Bool.false_eq_true, if_false]
    generalize f w (allocate b.segs count) = r at hf
    obtain ⟨res, w1, a⟩ := r
    obtain ⟨hl, hok, herr⟩ := hf
    simp only at hl hok herr
    cases res with
    | error e =>
      simp only [Nat.sub_self]
      have hm := herr e rfl
      exact ⟨hl, fun _ _ => by rw [hm], fun _ => by simp [hS]⟩
    | ok n =>
      obtain ⟨hn, hfr, hc⟩ := hok n rfl
      rw [total_allocate] at hn
      have hnov : ¬ (b.consumed + n ≥ USIZE) := by omega
      simp only [IoBufs.markUsed, hnov, if_false]
      rw [show b.consumed + n - b.consumed = n by omega]
      have htk : ((addrs b.segs).take count).take n = (addrs b.segs).take n := by
        rw [List.take_take]; congr 1; omega
      rw [addrs_allocate, htk] at hfr hc
      have hmem : (if md = true then markDirty w1 b.segs n else w1).mem = w1.mem := by cases md <;> rfl
      rw [hmem]
      exact ⟨hl, hfr, fun hnd => hc ((List.take_sublist _ _).nodup hnd)⟩

/-! ### content-level advance of a writer -/

structure WrC (D : Bytes) (b : IoBufs) (w : World) (b' : IoBufs) (w' : World) : Prop where
  adv : AdvBy D.length true true b w b' w'
  len : ∀ x, (w'.mem.get x).length = (w.mem.get x).length
  frame : ∀ a, a ∉ (addrs b.segs).take D.length → w'.mem.byteAt a = w.mem.byteAt a
  content : (addrs b.segs).Nodup → ((addrs b.segs).take D.length).map w'.mem.byteAt = D

theorem WrC.refl (b : IoBufs) (w : World) : WrC [] b w b w :=
  ⟨AdvBy.refl _ _ _ _, fun _ => rfl, fun _ _ => rfl, fun _ => by simp⟩

theorem WrC.toAdv {D : Bytes} {b b' : IoBufs} {w w' : World} (h : WrC D b w b' w') : Adv true true b w b' w' :=
  ⟨_, h.adv⟩

theorem WrC.delta {D : Bytes} {b b' : IoBufs} {w w' : World} (h : WrC D b w b' w') :
    b'.consumed - b.consumed = D.length := by
  have := h.adv.2.2.2.2.2.2.2; omega

theorem WrC.addrs' {D : Bytes} {b b' : IoBufs} {w w' : World} (h : WrC D b w b' w') :
    addrs b'.segs = (addrs b.segs).drop D.length := h.adv.2.2.2.2.2.2.1

theorem WrC.inMem {D : Bytes} {b b' : IoBufs} {w w' : World} (h : WrC D b w b' w')
    (hin : InMem w.mem (addrs b.segs)) : InMem w'.mem (addrs b'.segs) := by
  intro a ha
  rw [h.addrs'] at ha
  rw [h.len]; exact hin a (List.mem_of_mem_drop ha)

theorem WrC.hov {D : Bytes} {b b' : IoBufs} {w w' : World} (h : WrC D b w b' w')
    (hov : b.consumed + total b.segs < USIZE) : b'.consumed + total b'.segs < USIZE := by
  rw [h.adv.inv]; exact hov

theorem WrC.p {D : Bytes} {b b' : IoBufs} {w w' : World} (h : WrC D b w b' w') : w'.p = w.p := h.adv.2.1

theorem disjoint_take_drop {α : Type} {A : List α} (hnd : A.Nodup) (n k : Nat) :
    ∀ a ∈ A.take n, a ∉ (A.drop n).take k := by
  intro a ha hb
  have hs : A = A.take n ++ A.drop n := (List.take_append_drop _ _).symm
  rw [hs] at hnd
  exact (List.nodup_append.mp hnd).2.2 a ha a (List.mem_of_mem_take hb) rfl

theorem WrC.trans {D1 D2 : Bytes} {b1 b2 b3 : IoBufs} {w1 w2 w3 : World}
    (h1 : WrC D1 b1 w1 b2 w2) (h2 : WrC D2 b2 w2 b3 w3) : WrC (D1 ++ D2) b1 w1 b3 w3 := by
  have h7 := h1.addrs'
  have htk : (addrs b1.segs).take (D1.length + D2.length)
      = (addrs b1.segs).take D1.length ++ (addrs b2.segs).take D2.length := by
    rw [h7, List.take_add]
  refine ⟨by rw [List.length_append]; exact h1.adv.trans h2.adv, fun x => by rw [h2.len, h1.len], ?_, ?_⟩
  · intro a ha
    rw [List.length_append, htk, List.mem_append, not_or] at ha
    rw [h2.frame a ha.2, h1.frame a ha.1]
  · intro hnd
    rw [List.length_append, htk, List.map_append]
    have hnd2 : (addrs b2.segs).Nodup := by rw [h7]; exact (List.drop_sublist _ _).nodup hnd
    rw [h2.content hnd2]
    congr 1
    refine Eq.trans ?_ (h1.content hnd)
    apply List.map_congr_left
    intro a ha
    apply h2.frame
    rw [h7]
    exact disjoint_take_drop hnd _ _ a ha

/-- from an address-level advance + the content facts in "difference of counters" form -/
theorem wrc_of {n : Nat} {D : Bytes} {b b' : IoBufs} {w w' : World}
    (hadv : AdvBy n true true b w b' w') (hD : D.length = n)
    (hl : ∀ x, (w'.mem.get x).length = (w.mem.get x).length)
    (hf : ∀ a, a ∉ (addrs b.segs).take (b'.consumed - b.consumed) → w'.mem.byteAt a = w.mem.byteAt a)
    (hc : (addrs b.segs).Nodup → ((addrs b.segs).take (b'.consumed - b.consumed)).map w'.mem.byteAt = D) :
    WrC D b w b' w' := by
  have h8 := hadv.2.2.2.2.2.2.2
  have hn : b'.consumed - b.consumed = n := by omega
  rw [hn] at hf hc
  exact ⟨by rw [hD]; exact hadv, hl, by rw [hD]; exact hf, by rw [hD]; exact hc⟩

/-- a statement with *some* prefix length is the statement with the cursor advance -/
theorem WrC.take_delta {l : Bytes} {n : Nat} {b b' : IoBufs} {w w' : World} (h : WrC (l.take n) b w b' w') :
    WrC (l.take (b'.consumed - b.consumed)) b w b' w' := by
  have hd := h.delta
  have : l.take (b'.consumed - b.consumed) = l.take n := by
    rw [hd, List.length_take]
    by_cases hn : n ≤ l.length
    · rw [Nat.min_eq_left hn]
    · rw [Nat.min_eq_right (by omega), List.take_of_length_le (Nat.le_refl _), List.take_of_length_le (by omega)]
  rw [this]; exact h

/-! ### VirtioFsWriter operations -/

theorem vwrite_wrc (b : IoBufs) (w : World) (data : Bytes) (hp : 0 < w.p)
    (hin : InMem w.mem (addrs b.segs)) (hov : b.consumed + total b.segs < USIZE) :
    WrC (data.take ((VirtioW.write b w data).b.consumed - b.consumed)) b w
      (VirtioW.write b w data).b (VirtioW.write b w data).w := by
  unfold VirtioW.write
  cases VirtioW.checkAvail b data.length 0 0 with
  | error e => simp only [Nat.sub_self, List.take_zero]; exact WrC.refl _ _
  | ok u =>
    cases u
    simp only
    obtain ⟨k, hk, hadv, _, _⟩ := consume_adv b w true true data.length ()
      (fun w bufs => ((.ok (copyIn w bufs data).2 : Except IoErr Nat), (copyIn w bufs data).1, ()))
      (fun _ => hp) (fun _ => rfl) hov (fok_copyIn w _ data)
    obtain ⟨c1, c2, c3⟩ := consume_wr (fun n => data.take n) rfl b w true data.length ()
      (fun w bufs => ((.ok (copyIn w bufs data).2 : Except IoErr Nat), (copyIn w bufs data).1, ())) hov
      (copyIn_fwr w _ data (by rw [addrs_allocate]; exact hin.take _) ())
    have h8 := hadv.2.2.2.2.2.2.2
    exact wrc_of hadv (by rw [List.length_take]; omega) c1 c2 c3

theorem vwrite_ok_len (b : IoBufs) (w : World) (data : Bytes) (hov : b.consumed + total b.segs < USIZE) (k : Nat)
    (h : (VirtioW.write b w data).res = .ok k) : k = data.length := by
  have hfit : data.length ≤ total b.segs := by
    rw [← checkAvail_ok_iff b data.length hov]
    rcases checkAvail_cases b data.length with hc | hc
    · exact hc
    · unfold VirtioW.write at h; rw [hc] at h; cases h
  have := vwrite_res_ok b w data hov hfit
  rw [this] at h; cases h; rfl

/-- the count a `write` reports is the advance of its cursor (and the whole buffer) -/
theorem vwrite_delta (b : IoBufs) (w : World) (data : Bytes) (hp : 0 < w.p) (hov : b.consumed + total b.segs < USIZE) :
    (∀ k, (VirtioW.write b w data).res = .ok k → (VirtioW.write b w data).b.consumed - b.consumed = k ∧ k = data.length)
    ∧ (∀ e, (VirtioW.write b w data).res = .error e → (VirtioW.write b w data).b.consumed - b.consumed = 0) := by
  obtain ⟨n, _, hadv, hok, herr⟩ := vwrite_advBy b w data hp hov
  have h8 := hadv.2.2.2.2.2.2.2
  refine ⟨?_, ?_⟩
  · intro k hk
    have := hok k hk
    exact ⟨by omega, vwrite_ok_len b w data hov k hk⟩
  · intro e he
    have := herr e he
    omega

theorem isEmpty_eq_nil {d : Bytes} (h : d.isEmpty = true) : d = [] := by
  cases d with
  | nil => rfl
  | cons _ _ => cases h

theorem writeEach_wrc (b : IoBufs) (w : World) (bufs : List Bytes) (count : Nat) (hp : 0 < w.p)
    (hin : InMem w.mem (addrs b.segs)) (hov : b.consumed + total b.segs < USIZE) :
    ∃ n, WrC (bufs.flatten.take n) b w (VirtioW.writeEach b w bufs count).b (VirtioW.writeEach b w bufs count).w := by
  induction bufs generalizing b w count with
  | nil => exact ⟨0, by simpa [VirtioW.writeEach] using WrC.refl b w⟩
  | cons d rest ih =>
    unfold VirtioW.writeEach
    by_cases hd : d.isEmpty = true
    · rw [if_pos hd]
      obtain ⟨n, h⟩ := ih b w count hp hin hov
      exact ⟨n, by rw [isEmpty_eq_nil hd]; simpa using h⟩
    · rw [if_neg hd]
      simp only
      have h1 := vwrite_wrc b w d hp hin hov
      obtain ⟨dok, derr⟩ := vwrite_delta b w d hp hov
      split
      · rename_i e he
        rw [derr e he] at h1
        exact ⟨0, by simpa using h1⟩
      · rename_i k hk
        obtain ⟨e1, e2⟩ := dok k hk
        rw [e1, e2, List.take_length] at h1
        obtain ⟨n, h2⟩ := ih (VirtioW.write b w d).b (VirtioW.write b w d).w (count + k)
          (by rw [h1.p]; exact hp) (h1.inMem hin) (h1.hov hov)
        refine ⟨d.length + n, ?_⟩
        have := h1.trans h2
        rw [List.flatten_cons, List.take_length_add_append]
        exact this

theorem writeVectored_wrc (b : IoBufs) (w : World) (bufs : List Bytes) (hp : 0 < w.p)
    (hin : InMem w.mem (addrs b.segs)) (hov : b.consumed + total b.segs < USIZE) :
    WrC (bufs.flatten.take ((VirtioW.writeVectored b w bufs).b.consumed - b.consumed)) b w
      (VirtioW.writeVectored b w bufs).b (VirtioW.writeVectored b w bufs).w := by
  have key : ∃ n, WrC (bufs.flatten.take n) b w (VirtioW.writeVectored b w bufs).b (VirtioW.writeVectored b w bufs).w := by
    unfold VirtioW.writeVectored
    split
    · exact ⟨0, by simpa using WrC.refl b w⟩
    · exact writeEach_wrc b w bufs 0 hp hin hov
  obtain ⟨n, h⟩ := key
  exact h.take_delta

/-- where the cursor of a source stands after delivering `n` bytes -/
def srcPos (at_ : Option Nat) (pos n : Nat) : Nat :=
  match at_ with
  | some _ => pos
  | none => pos + n

theorem writeFrom_wrc (b : IoBufs) (w : World) (src : Script) (count : Nat) (at_ : Option Nat) (hp : 0 < w.p)
    (hin : InMem w.mem (addrs b.segs)) (hov : b.consumed + total b.segs < USIZE) :
    WrC (patBytes src.seed (at_.getD src.pos) ((VirtioW.writeFrom b w src count at_).b.consumed - b.consumed)) b w
        (VirtioW.writeFrom b w src count at_).b (VirtioW.writeFrom b w src count at_).w
    ∧ (VirtioW.writeFrom b w src count at_).aux.seed = src.seed
    ∧ (VirtioW.writeFrom b w src count at_).aux.pos
        = (match at_ with
           | some _ => src.pos
           | none => src.pos + ((VirtioW.writeFrom b w src count at_).b.consumed - b.consumed))
    ∧ (∀ k, (VirtioW.writeFrom b w src count at_).res = .ok k →
        (VirtioW.writeFrom b w src count at_).b.consumed - b.consumed = k)
    ∧ (VirtioW.writeFrom b w src count at_).b.consumed - b.consumed ≤ count
    ∧ (∀ e, (VirtioW.writeFrom b w src count at_).res = .error e →
        (VirtioW.writeFrom b w src count at_).b.consumed - b.consumed = 0) := by
  unfold VirtioW.writeFrom
  cases VirtioW.checkAvail b count 0 0 with
  | error e =>
    simp only [Nat.sub_self, patBytes_zero, Nat.add_zero]
    refine ⟨WrC.refl _ _, trivial, ?_, ?_, Nat.zero_le _, fun _ _ => trivial⟩
    · cases at_ <;> rfl
    · intro k hk; cases hk
  | ok u =>
    cases u
    simp only
    have hin' : InMem w.mem (addrs (allocate b.segs count)) := by rw [addrs_allocate]; exact hin.take _
    obtain ⟨k, hk, hadv, hok, herr⟩ := consume_adv b w true true count src (fun w bufs => src.readVectored w bufs at_)
      (fun _ => hp) (fun _ => rfl) hov (readVectored_fok src w _ at_)
    have hfw := readVectored_fwr src w (allocate b.segs count) at_ hin'
    obtain ⟨c1, c2, c3⟩ := consume_wr (fun n => patBytes src.seed (at_.getD src.pos) n) rfl b w true count src
      (fun w bufs => src.readVectored w bufs at_) hov hfw
    obtain ⟨p1, p2, p3⟩ := readVectored_pos src w (allocate b.segs count) at_
    have haux := consume_aux
      (fun (s : Script) n => s.seed = src.seed ∧ s.pos = srcPos at_ src.pos n)
      b w true count src (fun w bufs => src.readVectored w bufs at_) hov
      ⟨rfl, by cases at_ <;> rfl⟩
      (fun n hn => ⟨(hfw.2.1 n hn).1, p1, p2 n hn⟩)
      (fun e he => ⟨p1, by rw [p3 e he]; cases at_ <;> rfl⟩)
    have h8 := hadv.2.2.2.2.2.2.2
    refine ⟨wrc_of hadv (by simp; omega) c1 c2 c3, haux.1, haux.2, ?_, by omega, ?_⟩
    · intro j hj
      have := hok j hj
      omega
    · intro e he
      have := herr e he
      omega

theorem writeAllLoop_wrc (fuel : Nat) (b : IoBufs) (w : World) (src : Script) (count : Nat) (hp : 0 < w.p)
    (hin : InMem w.mem (addrs b.segs)) (hov : b.consumed + total b.segs < USIZE) :
    ∃ n, WrC (patBytes src.seed src.pos n) b w (VirtioW.writeAllLoop fuel b w src count).b
      (VirtioW.writeAllLoop fuel b w src count).w := by
  induction fuel generalizing b w src count with
  | zero => exact ⟨0, WrC.refl b w⟩
  | succ fuel ih =>
    unfold VirtioW.writeAllLoop
    by_cases h0 : count = 0
    · simp only [h0, if_true]; exact ⟨0, WrC.refl b w⟩
    · simp only [h0, if_false]
      obtain ⟨h1, hs, hpos, _, _, _⟩ := writeFrom_wrc b w src count none hp hin hov
      simp only [Option.getD_none] at h1 hpos
      have next : ∀ c, ∃ n, WrC (patBytes src.seed src.pos n) b w
          (VirtioW.writeAllLoop fuel (VirtioW.writeFrom b w src count none).b (VirtioW.writeFrom b w src count none).w
            (VirtioW.writeFrom b w src count none).aux c).b
          (VirtioW.writeAllLoop fuel (VirtioW.writeFrom b w src count none).b (VirtioW.writeFrom b w src count none).w
            (VirtioW.writeFrom b w src count none).aux c).w := by
        intro c
        obtain ⟨n, h2⟩ := ih (VirtioW.writeFrom b w src count none).b (VirtioW.writeFrom b w src count none).w
          (VirtioW.writeFrom b w src count none).aux c (by rw [h1.p]; exact hp) (h1.inMem hin) (h1.hov hov)
        rw [hs, hpos] at h2
        exact ⟨_, by rw [patBytes_add]; exact h1.trans h2⟩
      split
      · exact ⟨_, h1⟩
      · exact next _
      · exact next _
      · exact ⟨_, h1⟩

theorem writeAllFrom_wrc (b : IoBufs) (w : World) (src : Script) (count : Nat) (hp : 0 < w.p)
    (hin : InMem w.mem (addrs b.segs)) (hov : b.consumed + total b.segs < USIZE) :
    WrC (patBytes src.seed src.pos ((VirtioW.writeAllFrom b w src count).b.consumed - b.consumed)) b w
      (VirtioW.writeAllFrom b w src count).b (VirtioW.writeAllFrom b w src count).w := by
  have key : ∃ n, WrC (patBytes src.seed src.pos n) b w (VirtioW.writeAllFrom b w src count).b
      (VirtioW.writeAllFrom b w src count).w := by
    unfold VirtioW.writeAllFrom
    split
    · exact ⟨0, WrC.refl b w⟩
    · exact writeAllLoop_wrc _ b w src count hp hin hov
  obtain ⟨n, h⟩ := key
  have := h.delta
  rw [this, length_patBytes]; exact h

/-! ### the counts the operations report -/

theorem writeEach_count (b : IoBufs) (w : World) (bufs : List Bytes) (count : Nat) (hp : 0 < w.p)
    (hin : InMem w.mem (addrs b.segs)) (hov : b.consumed + total b.segs < USIZE) :
    ∀ c, (VirtioW.writeEach b w bufs count).res = .ok c →
      c = count + ((VirtioW.writeEach b w bufs count).b.consumed - b.consumed) := by
  induction bufs generalizing b w count with
  | nil => intro c hc; simp only [VirtioW.writeEach, Except.ok.injEq] at hc ⊢; omega
  | cons d rest ih =>
    unfold VirtioW.writeEach
    by_cases hd : d.isEmpty = true
    · rw [if_pos hd]; exact ih b w count hp hin hov
    · rw [if_neg hd]
      simp only
      have h1 := vwrite_wrc b w d hp hin hov
      obtain ⟨dok, _⟩ := vwrite_delta b w d hp hov
      split
      · intro c hc; cases hc
      · rename_i k hk
        obtain ⟨e1, _⟩ := dok k hk
        intro c hc
        have := ih (VirtioW.write b w d).b (VirtioW.write b w d).w (count + k)
          (by rw [h1.p]; exact hp) (h1.inMem hin) (h1.hov hov) c hc
        obtain ⟨n, h2⟩ := writeEach_wrc (VirtioW.write b w d).b (VirtioW.write b w d).w rest (count + k)
          (by rw [h1.p]; exact hp) (h1.inMem hin) (h1.hov hov)
        have m1 := h1.adv.2.2.2.2.2.2.2
        have m2 := h2.adv.2.2.2.2.2.2.2
        omega

/-- a successful `write_vectored` reports the advance of its cursor -/
theorem writeVectored_count (b : IoBufs) (w : World) (bufs : List Bytes) (hp : 0 < w.p)
    (hin : InMem w.mem (addrs b.segs)) (hov : b.consumed + total b.segs < USIZE) :
    ∀ c, (VirtioW.writeVectored b w bufs).res = .ok c → (VirtioW.writeVectored b w bufs).b.consumed - b.consumed = c := by
  unfold VirtioW.writeVectored
  split
  · intro c hc; cases hc
  · intro c hc
    have := writeEach_count b w bufs 0 hp hin hov c hc
    omega

/-- a successful `write_all_from(count)` has advanced its cursor by `count` -/
theorem writeAllLoop_count (fuel : Nat) (b : IoBufs) (w : World) (src : Script) (count : Nat) (hp : 0 < w.p)
    (hin : InMem w.mem (addrs b.segs)) (hov : b.consumed + total b.segs < USIZE) :
    (VirtioW.writeAllLoop fuel b w src count).res = .ok () →
      (VirtioW.writeAllLoop fuel b w src count).b.consumed - b.consumed = count := by
  induction fuel generalizing b w src count with
  | zero => intro h; cases h
  | succ fuel ih =>
    unfold VirtioW.writeAllLoop
    by_cases h0 : count = 0
    · simp only [h0, if_true, Nat.sub_self]; intro _; trivial
    · simp only [h0, if_false]
      obtain ⟨h1, _, _, dok, dle, derr⟩ := writeFrom_wrc b w src count none hp hin hov
      have m1 := h1.adv.2.2.2.2.2.2.2
      have hnext : ∀ c, ∃ n, (VirtioW.writeAllLoop fuel (VirtioW.writeFrom b w src count none).b
          (VirtioW.writeFrom b w src count none).w (VirtioW.writeFrom b w src count none).aux c).b.consumed
            = (VirtioW.writeFrom b w src count none).b.consumed + n := by
        intro c
        obtain ⟨n, h2⟩ := writeAllLoop_wrc fuel (VirtioW.writeFrom b w src count none).b
          (VirtioW.writeFrom b w src count none).w (VirtioW.writeFrom b w src count none).aux c
          (by rw [h1.p]; exact hp) (h1.inMem hin) (h1.hov hov)
        exact ⟨_, h2.adv.2.2.2.2.2.2.2⟩
      split
      · intro h; cases h
      · rename_i n _ hn
        intro hok
        have i1 := ih (VirtioW.writeFrom b w src count none).b (VirtioW.writeFrom b w src count none).w
          (VirtioW.writeFrom b w src count none).aux (count - n) (by rw [h1.p]; exact hp) (h1.inMem hin) (h1.hov hov) hok
        have := dok n hn
        obtain ⟨x, hx⟩ := hnext (count - n)
        omega
      · rename_i hn
        intro hok
        have i1 := ih (VirtioW.writeFrom b w src count none).b (VirtioW.writeFrom b w src count none).w
          (VirtioW.writeFrom b w src count none).aux count (by rw [h1.p]; exact hp) (h1.inMem hin) (h1.hov hov) hok
        have := derr _ hn
        obtain ⟨x, hx⟩ := hnext count
        omega
      · intro h; cases h

theorem writeAllFrom_count (b : IoBufs) (w : World) (src : Script) (count : Nat) (hp : 0 < w.p)
    (hin : InMem w.mem (addrs b.segs)) (hov : b.consumed + total b.segs < USIZE) :
    (VirtioW.writeAllFrom b w src count).res = .ok () →
      (VirtioW.writeAllFrom b w src count).b.consumed - b.consumed = count := by
  unfold VirtioW.writeAllFrom
  split
  · intro h; cases h
  · exact writeAllLoop_count _ b w src count hp hin hov

end Fbr.Xport
