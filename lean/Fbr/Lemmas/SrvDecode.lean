/-
  Fbr.Lemmas.SrvDecode — the client's encoding of a request header and the lemmas that carry a
  well-formed request through `Srv.handle` down to the per-opcode handler.
-/
import Fbr.Srv
import Fbr.Lemmas.Wire

namespace Fbr.Srv
open Fbr.Wire

/-- `struct fuse_in_header` as the client fills it in -/
structure Hdr where
  len : Nat
  op : Nat
  unique : Nat
  nodeid : Nat
  uid : Nat
  gid : Nat
  pid : Nat
  pad : Nat
  deriving Repr, DecidableEq, Inhabited

/-- every field fits its wire width -/
structure Hdr.WF (h : Hdr) : Prop where
  len : h.len < 2 ^ 32
  op : h.op < 2 ^ 32
  unique : h.unique < 2 ^ 64
  nodeid : h.nodeid < 2 ^ 64
  uid : h.uid < 2 ^ 32
  gid : h.gid < 2 ^ 32
  pid : h.pid < 2 ^ 32
  pad : h.pad < 2 ^ 32

/-- the kernel's layout: len, opcode, unique, nodeid, uid, gid, pid, padding -/
def encHdr (h : Hdr) : Bytes :=
  le32 h.len ++ le32 h.op ++ le64 h.unique ++ le64 h.nodeid ++ le32 h.uid ++ le32 h.gid ++
  le32 h.pid ++ le32 h.pad

@[simp] theorem encHdr_length (h : Hdr) : (encHdr h).length = 40 := by simp [encHdr]

/-- skipping over leading fields (offsets are literals, discharged by `omega`) -/
theorem u32At_skip32 (v : Nat) (rest : Bytes) (off : Nat) (h : 4 ≤ off) :
    u32At (le32 v ++ rest) off = u32At rest (off - 4) := by
  rw [u32At_skip _ _ _ (by simpa using h)]; simp
theorem u32At_skip64 (v : Nat) (rest : Bytes) (off : Nat) (h : 8 ≤ off) :
    u32At (le64 v ++ rest) off = u32At rest (off - 8) := by
  rw [u32At_skip _ _ _ (by simpa using h)]; simp
theorem u64At_skip32 (v : Nat) (rest : Bytes) (off : Nat) (h : 4 ≤ off) :
    u64At (le32 v ++ rest) off = u64At rest (off - 4) := by
  rw [u64At_skip _ _ _ (by simpa using h)]; simp
theorem u64At_skip64 (v : Nat) (rest : Bytes) (off : Nat) (h : 8 ≤ off) :
    u64At (le64 v ++ rest) off = u64At rest (off - 8) := by
  rw [u64At_skip _ _ _ (by simpa using h)]; simp

theorem u32At_le32_lt (v : Nat) (rest : Bytes) (h : v < 2 ^ 32) : u32At (le32 v ++ rest) 0 = v := by
  rw [u32At_le32, Nat.mod_eq_of_lt h]
theorem u64At_le64_lt (v : Nat) (rest : Bytes) (h : v < 2 ^ 64) : u64At (le64 v ++ rest) 0 = v := by
  rw [u64At_le64, Nat.mod_eq_of_lt h]

/-- normalise reads of fields out of a concatenation of `le32`/`le64` encodings -/
macro "wire_norm" : tactic => `(tactic|
  simp (disch := omega) only [List.append_assoc, u32At_take, u64At_take, u32At_skip32, u32At_skip64,
    u64At_skip32, u64At_skip64, Nat.sub_self, Nat.reduceSub, u32At_le32_lt, u64At_le64_lt])

theorem hdr_fields (h : Hdr) (hw : h.WF) (body : Bytes) :
    hdrLenOf (encHdr h ++ body) = h.len ∧ opOf (encHdr h ++ body) = h.op ∧
    uniqueOf (encHdr h ++ body) = h.unique ∧ nodeidOf (encHdr h ++ body) = h.nodeid ∧
    ctxOfHeader (encHdr h ++ body) = { uid := h.uid, gid := h.gid, pid := h.pid } := by
  obtain ⟨h1, h2, h3, h4, h5, h6, h7, h8⟩ := hw
  unfold hdrLenOf opOf uniqueOf nodeidOf ctxOfHeader encHdr
  refine ⟨?_, ?_, ?_, ?_, ?_⟩
  · wire_norm
  · wire_norm
  · wire_norm
  · wire_norm
  · have a : u32At (le32 h.len ++ le32 h.op ++ le64 h.unique ++ le64 h.nodeid ++ le32 h.uid ++ le32 h.gid ++
        le32 h.pid ++ le32 h.pad ++ body) 24 = h.uid := by wire_norm
    have b : u32At (le32 h.len ++ le32 h.op ++ le64 h.unique ++ le64 h.nodeid ++ le32 h.uid ++ le32 h.gid ++
        le32 h.pid ++ le32 h.pad ++ body) 28 = h.gid := by wire_norm
    have c : u32At (le32 h.len ++ le32 h.op ++ le64 h.unique ++ le64 h.nodeid ++ le32 h.uid ++ le32 h.gid ++
        le32 h.pid ++ le32 h.pad ++ body) 32 = h.pid := by wire_norm
    simp only [List.append_assoc] at a b c ⊢
    rw [a, b, c]

/-- the context the file system sees for header `h` when the remap call answers `a` -/
def ctxFor (h : Hdr) (a : Ans) : Ctx :=
  match a with
  | .remapSet u g => { uid := u, gid := g, pid := h.pid }
  | _ => { uid := h.uid, gid := h.gid, pid := h.pid }

/-- the per-request remap call for header `h` -/
def remapOf (h : Hdr) : Call :=
  { method := "id_remap", ctx := { uid := h.uid, gid := h.gid, pid := h.pid }, args := [.n h.nodeid] }

/-- A request with a well-formed header of admissible length, whose id-remap succeeds, reaches
    the per-opcode handler with exactly the header's values. -/
theorem handle_reaches_handler (cfg : Cfg) (fs : Call → Ans) (h : Hdr) (hw : h.WF) (body : Bytes)
    (hlen : h.len ≤ MAX_BUFFER_SIZE + BUFFER_HEADER_SIZE)
    (hrm : ∀ e, fs (remapOf h) ≠ .err e) :
    handle cfg fs (encHdr h ++ body) =
      handleBody cfg fs (ctxFor h (fs (remapOf h))) [remapOf h] h.len h.op h.unique h.nodeid body := by
  obtain ⟨f1, f2, f3, f4, f5⟩ := hdr_fields h hw body
  have hrc : remapCall (encHdr h ++ body) = remapOf h := by
    unfold remapCall remapOf; rw [f4, f5]
  unfold handle
  have hl : ¬ (encHdr h ++ body).length < IN_HDR := by simp [IN_HDR]
  rw [if_neg hl, hrc]
  have hdrop : (encHdr h ++ body).drop IN_HDR = body := by
    unfold IN_HDR
    rw [List.drop_append_of_le_length (by simp)]
    simp
  split
  · next e heq => exact absurd heq (hrm e)
  · next a hne =>
    have hnot : ¬ h.len > MAX_BUFFER_SIZE + BUFFER_HEADER_SIZE := Nat.not_lt.mpr hlen
    have hctx : ∀ a, ctxAfterRemap (encHdr h ++ body) a = ctxFor h a := by
      intro a
      cases a <;> simp [ctxAfterRemap, ctxFor, f5]
    simp only [afterRemap, f1, f2, f3, f4, hrc, hdrop, hctx, if_neg hnot]

theorem finish_calls (cfg : Cfg) (u : Nat) (calls : List Call) (al : List Nat) (a : Ans)
    (okb : Ans → Option (Bytes × Bytes)) : (finish cfg u calls al a okb).calls = calls := by
  unfold finish
  split
  · rfl
  · split <;> rfl

@[simp] theorem simple_calls (cfg : Cfg) (fs : Call → Ans) (u : Nat) (calls0 : List Call) (c : Call)
    (al : List Nat) (okb : Ans → Option (Bytes × Bytes)) :
    (simple cfg fs u calls0 c al okb).calls = calls0 ++ [c] := finish_calls _ _ _ _ _ _

theorem withObj_ok (cfg : Cfg) (calls0 : List Call) (r : Bytes) (n : Nat) (k : Bytes → Res)
    (h : n ≤ r.length) : withObj cfg calls0 r n k = k (r.take n) := by
  unfold withObj; rw [if_neg (by omega)]

end Fbr.Srv

namespace Fbr.Srv
open Fbr.Wire

/-- a name without NUL bytes followed by its terminator decodes to itself, whatever follows -/
theorem cstr_name (name trail : Bytes) (h : ∀ b ∈ name, b ≠ 0) : cstr (name ++ 0 :: trail) = some name := by
  unfold cstr
  have hc : (name ++ 0 :: trail).contains 0 = true := by simp
  rw [if_pos hc]
  congr 1
  induction name with
  | nil => simp
  | cons x xs ih =>
    have hx : x ≠ 0 := h x (by simp)
    have hxs : ∀ b ∈ xs, b ≠ 0 := fun b hb => h b (by simp [hb])
    simp only [List.cons_append, List.takeWhile_cons]
    have : (x != 0) = true := by simpa using hx
    simp only [this, if_true]
    rw [ih hxs (by simp)]

theorem getBody_ok (hdrLen sub k : Nat) (r : Bytes) (hl : hdrLen = IN_HDR + sub + k) (hr : k ≤ r.length) :
    getBody hdrLen sub r = .ok (r.take k, k) := by
  unfold getBody
  rw [if_neg (by omega)]
  have : hdrLen - IN_HDR - sub = k := by omega
  simp only [this]
  rw [if_neg (by omega)]

/-- the handler's view of `obj ++ name ++ NUL` when the header length is exact -/
theorem named_ok (cfg : Cfg) (u : Nat) (calls0 : List Call) (hdrLen : Nat) (obj name : Bytes) (sub : Nat)
    (k : Bytes → List Nat → Res) (hobj : obj.length = sub)
    (hl : hdrLen = IN_HDR + sub + (name.length + 1)) (hn : ∀ b ∈ name, b ≠ 0) :
    named cfg u calls0 hdrLen (obj ++ (name ++ [0])) sub k = k name [name.length + 1] := by
  unfold named
  have hd : (obj ++ (name ++ [0])).drop sub = name ++ [0] := by rw [← hobj]; simp
  rw [hd, getBody_ok hdrLen sub (name.length + 1) _ hl (by simp)]
  simp only
  have ht : (name ++ [0]).take (name.length + 1) = name ++ [0] := by
    rw [List.take_of_length_le (by simp)]
  rw [ht, cstr_name name [] hn]

/-- two NUL-terminated names one after the other -/
theorem twoCstrs_ok (n1 n2 : Bytes) (h1 : ∀ b ∈ n1, b ≠ 0) (h2 : ∀ b ∈ n2, b ≠ 0) :
    twoCstrs (n1 ++ 0 :: (n2 ++ [0])) = .ok (n1, n2) := by
  unfold twoCstrs
  have hc : (n1 ++ 0 :: (n2 ++ [0])).contains 0 = true := by simp
  rw [if_pos hc]
  have htw : (n1 ++ 0 :: (n2 ++ [0])).takeWhile (· != 0) = n1 := by
    have := cstr_name n1 (n2 ++ [0]) h1
    unfold cstr at this
    rw [if_pos hc] at this
    exact Option.some.inj this
  simp only [htw]
  have hlen : n1.length + 1 < (n1 ++ 0 :: (n2 ++ [0])).length := by simp
  rw [if_pos hlen]
  have hd : (n1 ++ 0 :: (n2 ++ [0])).drop (n1.length + 1) = n2 ++ [0] := by
    rw [show n1 ++ 0 :: (n2 ++ [0]) = (n1 ++ [0]) ++ (n2 ++ [0]) by simp]
    rw [show n1.length + 1 = (n1 ++ [0]).length by simp, List.drop_left]
  rw [hd, cstr_name n2 [] h2]

@[simp] theorem lookupReply_calls (cfg : Cfg) (u : Nat) (calls : List Call) (al : List Nat) (a : Ans) :
    (lookupReply cfg u calls al a).calls = calls := by
  unfold lookupReply
  split
  · split
    · rfl
    · exact finish_calls _ _ _ _ _ _
  · exact finish_calls _ _ _ _ _ _

@[simp] theorem readReply_calls (cfg : Cfg) (u : Nat) (calls : List Call) (a : Ans) :
    (readReply cfg u calls a).calls = calls := by
  unfold readReply
  split
  · split <;> rfl
  · rfl
  · rfl

@[simp] theorem dirReply_calls (cfg : Cfg) (u : Nat) (calls : List Call) (size : Nat) (plus : Bool) (a : Ans) :
    (dirReply cfg u calls size plus a).calls = calls := by
  unfold dirReply
  split
  · split <;> rfl
  · rfl
  · rfl

@[simp] theorem initReply_calls (cfg : Cfg) (u : Nat) (calls : List Call) (mn ra cap : Nat) (a : Ans) :
    (initReply cfg u calls mn ra cap a).calls = calls := by
  unfold initReply
  split <;> rfl

@[simp] theorem notifyReply_calls (cfg : Cfg) (u : Nat) (calls : List Call) (a : Ans) :
    (notifyReply cfg u calls a).calls = calls := by
  unfold notifyReply
  split <;> rfl

end Fbr.Srv

namespace Fbr.Srv
open Fbr.Wire

/-- common hypotheses of a well-formed request -/
structure Req (fs : Call → Ans) (h : Hdr) : Prop where
  wf : h.WF
  len : h.len ≤ MAX_BUFFER_SIZE + BUFFER_HEADER_SIZE
  remapOk : ∀ e, fs (remapOf h) ≠ .err e

/-- the call the handlers make with the (possibly remapped) caller ids -/
def call (fs : Call → Ans) (h : Hdr) (m : String) (args : List Arg) : Call :=
  { method := m, ctx := ctxFor h (fs (remapOf h)), args := args }

end Fbr.Srv
