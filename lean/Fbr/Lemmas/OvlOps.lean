/-
  Operations that copy a node up and then change attributes (open for writing, write, chmod,
  truncate, setxattr, removexattr) keep the forest a valid cache of the disk.
-/
import Fbr.Ovl
import Fbr.Lemmas.OvlHoare
import Fbr.Lemmas.OvlSim
import Fbr.Lemmas.OvlSimLookup
import Fbr.Lemmas.OvlSimRO
import Fbr.Lemmas.OvlLocal
import Fbr.Lemmas.OvlMut
import Fbr.Lemmas.OvlEval
import Fbr.Lemmas.OvlCopyUp

namespace Fbr.Ovl

theorem Triple.ofOutcome {α : Type} {P : St → Prop} {f : M α} {Q : α → St → Prop} {E : St → Prop}
    (h : ∀ s, P s → Outcome (f s) Q E) : Triple P f Q E := by
  intro s hs
  have := h s hs
  refine ⟨fun a s' hf => ?_, fun e s' hf => ?_⟩ <;> rw [hf] at this <;> exact this

/-- loading keeps the forest consistent (over whatever the disk is) -/
theorem loadDirectory_cons (p : Path) : Triple Consistent (loadDirectory p) (fun _ => Consistent) Consistent := by
  intro s hs
  have := loadDirectory_cd s.disk p s ⟨hs, rfl⟩
  exact ⟨fun a s' h => (this.1 a s' h).1, fun e s' h => (this.2 e s' h).1⟩

/-! ### without an upper layer nothing can be copied up (and nothing changes) -/

theorem no_upper_not_inUpper {s : St} (hc : Consistent s) (hup : s.disk.upper = none) {p : Path} {m : MNode}
    (hm : s.mem p = some m) : m.inUpper = false := by
  cases hr : m.reals with
  | nil => simp [MNode.inUpper, hr]
  | cons r rest =>
    have hsh := reals_shape hc hm r (by simp [hr])
    have hl : r.layer ≠ 0 := by
      -- the layer index is one of the disk's indices
      rcases realsOK_forms hc.roots (hc.reals p m hm) with h | ⟨i, hi, hi0, _⟩
      · rw [hr] at h
        cases he : expIdx s.disk p with
        | nil => rw [he] at h; cases h
        | cons j t =>
          rw [he] at h
          simp only [List.map_cons, List.cons.injEq] at h
          have hj : j ∈ s.disk.indices := (expIdx_sublist s.disk p).subset (by rw [he]; simp)
          rw [h.1]
          simp only [realOf]
          intro h0
          rw [h0] at hj
          simp [Disk.indices, hup] at hj
      · exfalso
        have hj : i ∈ s.disk.indices := (expIdx_sublist s.disk p).subset (by rw [hi]; simp)
        rw [hi0] at hj
        simp [Disk.indices, hup] at hj
    simp only [MNode.inUpper, hr, hsh.2.1]
    simpa using hl

theorem createUpperDir_noUpper : ∀ (p : Path) (s : St), Consistent s → s.disk.upper = none →
    ∃ e, createUpperDir p s = .err e s
  | [], s, hc, hup => by
    obtain ⟨m, hm⟩ := hc.root
    have hst := nodeStat_eq hc hm
    have hnu := no_upper_not_inUpper hc hup hm
    unfold createUpperDir
    rw [bind_ok (getNode_ok hm)]
    cases hr : m.reals with
    | nil => rw [hr] at hst; rw [bind_err hst]; exact ⟨_, rfl⟩
    | cons r rest =>
      rw [hr] at hst
      rw [bind_ok hst]
      by_cases hd : (s.disk.statReal r).isDir = true <;> simp [hd, hnu, fail]
  | n :: pp, s, hc, hup => by
    rw [createUpperDir_tail]
    cases hm : s.mem (n :: pp) with
    | none => rw [bind_err (getNode_err hm)]; exact ⟨_, rfl⟩
    | some m =>
      have hst := nodeStat_eq hc hm
      have hnu := no_upper_not_inUpper hc hup hm
      rw [bind_ok (getNode_ok hm)]
      cases hr : m.reals with
      | nil => rw [hr] at hst; rw [bind_err hst]; exact ⟨_, rfl⟩
      | cons r rest =>
        rw [hr] at hst
        rw [bind_ok hst]
        by_cases hd : (s.disk.statReal r).isDir = true
        · obtain ⟨pm, hpm, _⟩ := hc.reach n pp m hm
          have hpnu := no_upper_not_inUpper hc hup hpm
          obtain ⟨e, he⟩ := createUpperDir_noUpper pp s hc hup
          simp only [hd, Bool.not_true, Bool.false_eq_true, if_false, hnu]
          rw [bind_ok (getNode_ok hpm), show (!pm.inUpper) = true by simp [hpnu], whenM_true, bind_err he]
          exact ⟨_, rfl⟩
        · simp [hd, fail]

/-- `copy_node_up` keeps the forest consistent; when it succeeds the node is in the upper layer -/
theorem copyNodeUp_cons (p : Path) :
    Triple Consistent (copyNodeUp p) (fun _ s => Consistent s ∧ UpAt p s) Consistent := by
  apply Triple.ofOutcome
  intro s hc
  unfold copyNodeUp
  cases hm : s.mem p with
  | none => rw [bind_err (getNode_err hm)]; exact hc
  | some m =>
    rw [bind_ok (getNode_ok hm)]
    by_cases hmu : m.inUpper = true
    · simp only [hmu, if_true]
      exact ⟨hc, m, hm, hmu⟩
    · simp only [hmu, Bool.false_eq_true, if_false]
      simp only [Bool.not_eq_true] at hmu
      have hst := nodeStat_eq hc hm
      cases hr : m.reals with
      | nil => rw [hr] at hst; rw [bind_err hst]; exact hc
      | cons r rest =>
        rw [hr] at hst
        rw [bind_ok hst]
        cases hup : s.disk.upper with
        | none =>
          -- nothing can be created: every path ends in "no parent?" at the root
          by_cases hd : (s.disk.statReal r).isDir = true
          · obtain ⟨e, he⟩ := createUpperDir_noUpper p s hc hup
            simp only [hd, if_true, he]
            exact hc
          · simp only [hd, Bool.false_eq_true, if_false]
            cases p with
            | nil => exact hc
            | cons n pp =>
              obtain ⟨pm, hpm, _⟩ := hc.reach n pp m hm
              have hpnu := no_upper_not_inUpper hc hup hpm
              obtain ⟨e, he⟩ := createUpperDir_noUpper pp s hc hup
              have : parentUpperReal pp s = .err e s := by
                unfold parentUpperReal
                rw [bind_ok (getNode_ok hpm), show (!pm.inUpper) = true by simp [hpnu], whenM_true, bind_err he]
              show Outcome (copyFileUp (s.disk.statReal r) pp n s) _ _
              unfold copyFileUp
              rw [bind_err this]
              exact hc
        | some L =>
          have hu : s.disk.upper.isSome := by rw [hup]; rfl
          by_cases hd : (s.disk.statReal r).isDir = true
          · simp only [hd, if_true]
            have := createUpperDir_spec p s hc hu
            cases hres : createUpperDir p s with
            | ok u s' => rw [hres] at this; exact ⟨this.cons, this.up⟩
            | err e s' => rw [hres] at this; exact this.cons
          · simp only [hd, Bool.false_eq_true, if_false]
            cases p with
            | nil => exact hc
            | cons n pp =>
              simp only [Bool.not_eq_true] at hd
              have := copyFileUp_spec hc hu n pp hm hmu hr hd
              show Outcome (copyFileUp (s.disk.statReal r) pp n s) _ _
              cases hres : copyFileUp (s.disk.statReal r) pp n s with
              | ok u s' => rw [hres] at this; exact ⟨this.cons, this.up⟩
              | err e s' => rw [hres] at this; exact this.cons

/-! ### attribute changes through the first real inode -/

/-- a mutating call on layer 0 that only changes attributes -/
theorem layerCall0_shape (meth : Method) (f : Layer → Except Nat Layer) (hs : KeepShape f) (hk : KeepRoot f) :
    Triple Consistent (layerCall 0 meth f) (fun _ => Consistent) Consistent := by
  apply Triple.ofOutcome
  intro s hc
  cases hup : s.disk.upper with
  | none =>
    have : layerCall 0 meth f s = .err ENOENT { s with log := s.log ++ [⟨0, meth⟩] } := by
      simp [layerCall, Disk.layer, hup]
    rw [this]; exact hc.congr rfl rfl
  | some L =>
    cases hf : f L with
    | error e =>
      rw [layerCall_err meth (show s.disk.layer 0 = some L from hup) hf]
      exact hc.congr rfl rfl
    | ok L' =>
      rw [layerCall_ok meth (show s.disk.layer 0 = some L from hup) hf]
      exact consistent_sameShape hc hup (hs L L' hf) (hk L L' hf) _

/-- the first real inode of a node that is in the upper layer is the upper one, at the node's path -/
theorem firstReal_cons_up (p : Path) :
    Triple (fun s => Consistent s ∧ UpAt p s) (firstReal p)
      (fun r s => Consistent s ∧ r.layer = 0 ∧ r.path = p) Consistent := by
  apply Triple.ofOutcome
  intro s ⟨hc, m, hm, hmu⟩
  unfold firstReal
  rw [bind_ok (getNode_ok hm)]
  obtain ⟨r, rest, hr, hru, _⟩ := upperReal_of_inUpper hmu
  simp only [hr]
  have hsh := reals_shape hc hm r (by simp [hr])
  refine ⟨hc, ?_, hsh.1⟩
  have := hsh.2.1
  rw [hru] at this
  simpa using this.symm

/-- `if !node.in_upper_layer() { copy_node_up }` -/
theorem ensureUp_cons (p : Path) (m : MNode) :
    Triple (fun s => Consistent s ∧ s.mem p = some m) (whenM (!m.inUpper) (copyNodeUp p))
      (fun _ s => Consistent s ∧ UpAt p s) Consistent := by
  refine Triple.whenM' (fun _ => (copyNodeUp_cons p).pre fun _ h => h.1) fun hc s hs => ?_
  exact ⟨hs.1, m, hs.2, by simpa using hc⟩

theorem lookupSelf_cons (p : Path) :
    Triple Consistent (lookupSelf p) (fun m s => Consistent s ∧ s.mem p = some m) Consistent := by
  intro s hs
  cases hm : s.mem p with
  | none =>
    refine ⟨fun a s' h => ?_, fun e s' h => ?_⟩ <;> simp [lookupSelf, bind_err (getNode_err hm)] at h
    obtain ⟨_, rfl⟩ := h; exact hs
  | some m =>
    have := lookupSelf_spec s.disk p s ⟨⟨hs, rfl⟩, m, hm⟩
    exact ⟨fun a s' h => ⟨(this.1 a s' h).1.1, (this.1 a s' h).2.1⟩, fun e s' h => (this.2 e s' h).1.1⟩

theorem doXattr_cons (p : Path) (meth : Method) (f : Path → Layer → Except Nat Layer)
    (hs : ∀ rp, KeepShape (f rp)) (hk : ∀ rp, KeepRoot (f rp)) :
    Triple Consistent (doXattr p meth f) (fun _ => Consistent) Consistent := by
  unfold doXattr
  refine Triple.bind (lookupSelf_cons p) fun m => ?_
  refine Triple.ite' (fun _ => Triple.fail' fun _ h => h.1) fun _ => ?_
  refine Triple.bind (ensureUp_cons p m) fun _ => ?_
  refine Triple.bind (firstReal_cons_up p) fun r => ?_
  intro s hs'
  obtain ⟨hc, hl, _⟩ := hs'
  rw [hl]
  exact layerCall0_shape meth _ (hs _) (hk _) s hc

theorem hasUpper_cons : Triple Consistent hasUpper (fun _ => Consistent) Consistent := by
  intro s hs
  refine ⟨fun a s' h => ?_, fun e s' h => ?_⟩ <;> cases h
  exact hs

theorem doSetattr_cons (p : Path) (f : Path → Layer → Except Nat Layer)
    (hs : ∀ rp, KeepShape (f rp)) (hk : ∀ rp, KeepRoot (f rp)) :
    Triple Consistent (doSetattr p f) (fun _ => Consistent) Consistent := by
  unfold doSetattr
  refine Triple.bind hasUpper_cons fun up => ?_
  refine Triple.ite' (fun _ => Triple.fail' fun _ h => h) fun _ => ?_
  refine Triple.bind (lookupSelf_cons p) fun m => ?_
  refine Triple.bind (ensureUp_cons p m) fun _ => ?_
  refine Triple.bind (firstReal_cons_up p) fun r => ?_
  intro s hs'
  obtain ⟨hc, hl, _⟩ := hs'
  rw [hl]
  exact layerCall0_shape _ _ (hs _) (hk _) s hc

theorem firstReal_cons (p : Path) : Triple Consistent (firstReal p) (fun _ => Consistent) Consistent :=
  firstReal_ro loadDirectory_cons p

theorem doOpen_cons (p : Path) (write trunc : Bool) :
    Triple Consistent (doOpen p write trunc)
      (fun r s => Consistent s ∧ (write = true → r.layer = 0 ∧ r.path = p)) Consistent := by
  unfold doOpen
  refine Triple.bind (lookupSelf_cons p) fun m => ?_
  refine Triple.ite' (fun _ => Triple.fail' fun _ h => h.1) fun _ => ?_
  cases write with
  | false =>
    simp only [whenM_false]
    refine Triple.bind (Q := fun _ => Consistent) (Triple.pure' fun _ h => h.1) fun _ => ?_
    refine Triple.bind (firstReal_cons p) fun r => ?_
    refine Triple.bind (Q := fun _ => Consistent) (Triple.pure' fun _ h => h) fun _ => ?_
    exact Triple.pure' fun _ h => ⟨h, fun h => by cases h⟩
  | true =>
    simp only [whenM_true]
    refine Triple.bind ((copyNodeUp_cons p).pre fun _ h => h.1) fun _ => ?_
    refine Triple.bind (firstReal_cons_up p) fun r => ?_
    refine Triple.bind (Q := fun _ s => Consistent s ∧ r.layer = 0 ∧ r.path = p) ?_ fun _ => ?_
    · intro s hs'
      obtain ⟨hc, hl, hp⟩ := hs'
      rw [hl]
      have := layerCall0_shape .openW (hOpen · r.path trunc) (keepShape_hOpen _ _) (keepRoot_hOpen _ _) s hc
      exact ⟨fun a s' h => ⟨this.1 a s' h, rfl, hp⟩, fun e s' h => this.2 e s' h⟩
    · exact Triple.pure' fun _ h => ⟨h.1, fun _ => h.2⟩

theorem doWrite_cons (p : Path) (trunc append : Bool) (off : Nat) (data : List Nat) :
    Triple Consistent (doWrite p trunc append off data) (fun _ => Consistent) Consistent := by
  unfold doWrite
  refine Triple.bind (doOpen_cons p true trunc) fun r => ?_
  refine Triple.bind (Q := fun _ s => Consistent s ∧ r.layer = 0) (Triple.getSt' fun _ h => ⟨h.1, (h.2 rfl).1⟩) fun s0 => ?_
  intro s hs'
  obtain ⟨hc, hl⟩ := hs'
  rw [hl]
  exact layerCall0_shape _ _ (keepShape_hWrite _ _ _) (keepRoot_hWrite _ _ _) s hc


theorem resolve_cons (p : List Name) : Triple Consistent (resolve p) (fun _ => Consistent) Consistent :=
  resolve_ro loadDirectory_cons p

end Fbr.Ovl
