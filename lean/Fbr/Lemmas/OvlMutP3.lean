/-
  (P3) a new upper entry at a path where nothing is visible (no node, or a whiteout node):
  what scanning the parent gives for the name afterwards.
-/
import Fbr.Ovl
import Fbr.Lemmas.OvlExp
import Fbr.Lemmas.OvlSim
import Fbr.Lemmas.OvlLocal
import Fbr.Lemmas.OvlMut
import Fbr.Lemmas.OvlMutA
import Fbr.Lemmas.OvlMutP1
import Fbr.Lemmas.OvlMutP2

namespace Fbr.Ovl

/-- scanning only looks at the stale flag of a single real inode through `takeDirs`, which does
    not care -/
theorem localExp_stale (d : Disk) (m : MNode) (e : Real) (n : Name) (h : m.reals = [staleOf e]) :
    localExp d m n = localExp d { m with reals := [e] } n := by
  unfold localExp
  rw [h, takeDirs_single_stale]

/-- `localExp` in index form, for exact and for stale parents -/
theorem localExp_forms (d : Disk) (p : Path) (l : List Nat) (pm : MNode)
    (h : pm.reals = l.map (realOf d p) ∨ (l = [0] ∧ pm.reals = [staleOf (realOf d p 0)])) (n : Name) :
    localExp d pm n =
      (cutW d (n :: p) ((dirsIdx d p l).filter fun i => !(d.nodeAt i (n :: p)).isAbsent)).map (realOf d (n :: p)) := by
  rcases h with h | ⟨hl, h⟩
  · exact localExp_realOf d p l pm h n
  · rw [localExp_stale d pm _ n h, hl]
    exact localExp_realOf d p [0] _ rfl n

/-- an upper parent: its forms w.r.t. the changed disk -/
theorem parent_forms {s : St} (hc : Consistent s) (hu : s.disk.upper.isSome) (n : Name) (pp : Path) (X : Node)
    {pm : MNode} (hpm : s.mem pp = some pm) (hpu : pm.inUpper = true) :
    ∃ t0, expIdx s.disk pp = 0 :: t0 ∧
      (pm.reals = (expIdx s.disk pp).map (realOf (s.disk.setUpper (n :: pp) X) pp) ∨
        (expIdx s.disk pp = [0] ∧ pm.reals = [staleOf (realOf (s.disk.setUpper (n :: pp) X) pp 0)])) := by
  have hne : ∀ i, realOf (s.disk.setUpper (n :: pp) X) pp i = realOf s.disk pp i := fun i =>
    realOf_setUpper_ne _ _ X hu i pp (fun h => ne_cons_self n pp h.2)
  rcases realsOK_forms hc.roots (hc.reals _ pm hpm) with h | ⟨i, hi, hi0, h⟩
  · cases he : expIdx s.disk pp with
    | nil => rw [he] at h; simp [MNode.inUpper, h] at hpu
    | cons i0 t0 =>
      have : pm.inUpper = (i0 == 0) := by simp [MNode.inUpper, h, he, realOf]
      rw [hpu] at this
      have hi0 : i0 = 0 := by simpa using this.symm
      refine ⟨t0, by rw [hi0], Or.inl ?_⟩
      rw [h, he]
      apply List.map_congr_left
      intro i _
      exact (hne i).symm
  · refine ⟨[], by rw [hi, hi0], Or.inr ⟨by rw [hi, hi0], ?_⟩⟩
    rw [h, hi0, hne]

/-- (P3) after the upper layer got the entry `X` at `n :: pp`, scanning the parent for `n` gives
    exactly that entry — provided `X` is not a plain directory under which lower directories
    would merge. -/
theorem newEntry_localExp {s : St} (hc : Consistent s) (hu : s.disk.upper.isSome) (n : Name) (pp : Path)
    (X : Node) {pm : MNode} (hpm : s.mem pp = some pm) (hpu : pm.inUpper = true)
    (hdir0 : (s.disk.nodeAt 0 pp).isDir = true) (hXa : X.isAbsent = false)
    (hcut : (X.isDir && !X.isOpaqueDir) = false ∨
      ∀ tl, dirsIdx s.disk pp (expIdx s.disk pp) = 0 :: tl →
        dirsIdx s.disk (n :: pp) (tl.filter fun i => !(s.disk.nodeAt i (n :: pp)).isAbsent) = []) :
    localExp (s.disk.setUpper (n :: pp) X) pm n = [realOf (s.disk.setUpper (n :: pp) X) (n :: pp) 0] := by
  obtain ⟨t0, ht0, hforms⟩ := parent_forms hc hu n pp X hpm hpu
  generalize hd' : s.disk.setUpper (n :: pp) X = d' at hforms ⊢
  have hnode : ∀ i p, d'.nodeAt i p = if i = 0 ∧ p = n :: pp then X else s.disk.nodeAt i p := by
    intro i p; rw [← hd']; exact nodeAt_setUpper _ _ _ hu i p
  have hq0 : d'.nodeAt 0 (n :: pp) = X := by rw [hnode]; simp
  rw [localExp_forms d' pp (expIdx s.disk pp) pm hforms n]
  -- participating directories of the parent: unchanged, upper first
  have hD : dirsIdx d' pp (expIdx s.disk pp) = dirsIdx s.disk pp (expIdx s.disk pp) :=
    dirsIdx_congr s.disk d' pp _ (fun i _ => by rw [hnode, if_neg (fun h => ne_cons_self n pp h.2)])
  obtain ⟨tl, htl⟩ : ∃ tl, dirsIdx s.disk pp (expIdx s.disk pp) = 0 :: tl := by
    rw [ht0, dirsIdx, if_pos hdir0]
    split
    · exact ⟨[], rfl⟩
    · exact ⟨_, rfl⟩
  have htl_pos : ∀ i ∈ tl, i ≠ 0 := by
    have hsub : (0 :: tl).Sublist (0 :: t0) := by rw [← htl, ← ht0]; exact dirsIdx_sublist _ _ _
    have hs2 : (0 :: tl).Pairwise (· < ·) := (ht0 ▸ expIdx_sorted s.disk pp).sublist hsub
    intro i hi
    have := (List.pairwise_cons.1 hs2).1 i hi
    omega
  rw [hD, htl, List.filter_cons]
  have : (!(d'.nodeAt 0 (n :: pp)).isAbsent) = true := by rw [hq0, hXa]; rfl
  rw [if_pos this]
  have e2 : (tl.filter fun i => !(d'.nodeAt i (n :: pp)).isAbsent) =
      tl.filter fun i => !(s.disk.nodeAt i (n :: pp)).isAbsent := by
    apply List.filter_congr
    intro i hi
    rw [hnode, if_neg (fun h => htl_pos i hi h.1)]
  rw [e2, cutW, hq0]
  rcases hcut with hcut | hcut
  · rw [hcut]; rfl
  · cases hx : (X.isDir && !X.isOpaqueDir) with
    | false => rfl
    | true =>
      simp only [if_true]
      have hz := hcut tl htl
      have : dirsIdx d' (n :: pp) (tl.filter fun i => !(s.disk.nodeAt i (n :: pp)).isAbsent) = [] := by
        rw [dirsIdx_congr s.disk d' (n :: pp) _ (fun i hi => by
          rw [hnode, if_neg (fun h => htl_pos i (List.mem_filter.1 hi).1 h.1)])]
        exact hz
      rw [this]; rfl

/-- when nothing answers LOOKUP at `n :: pp` and the upper layer has no entry there, no lower
    directory would merge under a new upper directory -/
theorem no_lower_dirs {s : St} (hc : Consistent s) (n : Name) (pp : Path) {pm : MNode}
    (hpm : s.mem pp = some pm) (habs : (s.disk.nodeAt 0 (n :: pp)).isAbsent = true)
    (hnone : headStat s.disk (localExp s.disk pm n) = none) :
    ∀ tl, dirsIdx s.disk pp (expIdx s.disk pp) = 0 :: tl →
      dirsIdx s.disk (n :: pp) (tl.filter fun i => !(s.disk.nodeAt i (n :: pp)).isAbsent) = [] := by
  intro tl htl
  rw [localExp_eq_exp (hc.reals pp pm hpm), expReals_eq s.disk hc.roots] at hnone
  have hexp : expIdx s.disk (n :: pp) = cutW s.disk (n :: pp)
      ((dirsIdx s.disk pp (expIdx s.disk pp)).filter fun i => !(s.disk.nodeAt i (n :: pp)).isAbsent) := rfl
  rw [htl, List.filter_cons] at hexp
  simp only [habs, Bool.not_true, Bool.false_eq_true, if_false] at hexp
  cases hc2 : tl.filter fun i => !(s.disk.nodeAt i (n :: pp)).isAbsent with
  | nil => rfl
  | cons j c' =>
    rw [hc2] at hexp
    -- the head of the kept stack is `j`, a whiteout (nothing answers LOOKUP)
    have hj : (s.disk.nodeAt j (n :: pp)).isDir = false := by
      cases hd : (s.disk.nodeAt j (n :: pp)).isDir with
      | false => rfl
      | true =>
        exfalso
        rw [cutW_of_dir hd, dirsIdx, if_pos hd] at hexp
        have hw := isWhiteout_not_dir hd
        split at hexp <;>
          (rw [hexp] at hnone; simp [headStat, realOf, hw] at hnone)
    exact dirsIdx_of_nondir hj

end Fbr.Ovl
