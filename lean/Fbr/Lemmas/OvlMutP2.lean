/-
  (P2) copy-up of a non-directory that exists only in lower layers: the new upper entry replaces
  the node's real inodes.
-/
import Fbr.Ovl
import Fbr.Lemmas.OvlExp
import Fbr.Lemmas.OvlSim
import Fbr.Lemmas.OvlLocal
import Fbr.Lemmas.OvlMut
import Fbr.Lemmas.OvlMutA
import Fbr.Lemmas.OvlMutP1

namespace Fbr.Ovl

theorem cutW_of_nondir {d : Disk} {p : Path} {i : Nat} {rest : List Nat} (h : (d.nodeAt i p).isDir = false) :
    cutW d p (i :: rest) = [i] := by
  rw [cutW]; simp [h]

/-- a node whose first real inode is not a directory has no children in the forest -/
theorem nondir_no_kids {s : St} (hc : Consistent s) {p : Path} {m : MNode} (hm : s.mem p = some m)
    {r : Real} {rest : List Real} (hr : m.reals = r :: rest) (hnd : (s.disk.statReal r).isDir = false) :
    m.kids = [] ∧ ∀ c, s.mem (c :: p) = none := by
  have hl := hc.toLocal
  have hloc : ∀ c, localExp s.disk m c = [] := by
    intro c
    simp [localExp, hr, takeDirs, hnd, newFromReals]
  have hk : m.kids = [] := by
    cases hlo : m.loaded with
    | false => exact hl.unloaded p m hm hlo
    | true =>
      cases hks : m.kids with
      | nil => rfl
      | cons c ks =>
        exact absurd (hloc c) ((hl.kidsLoaded p m hm hlo c).1 (by rw [hks]; simp))
  refine ⟨hk, fun c => ?_⟩
  cases hx : s.mem (c :: p) with
  | none => rfl
  | some cm =>
    obtain ⟨pm, hpm, hn⟩ := hl.reach c p cm hx
    rw [hm] at hpm; cases hpm
    rw [hk] at hn; cases hn

/-- (P2) the state after creating the upper copy `X` and `add_upper_inode(ri, true)` -/
theorem upperFile_consistent {s : St} (hc : Consistent s) {L : Layer} (hup : s.disk.upper = some L)
    (n : Name) (pp : Path) {pm m : MNode}
    (hpm : s.mem pp = some pm) (hm : s.mem (n :: pp) = some m)
    (hpu : pm.inUpper = true) (hmu : m.inUpper = false)
    {r : Real} {rest : List Real} (hr : m.reals = r :: rest) (hnd : (s.disk.statReal r).isDir = false)
    (X : Node) (hXd : X.isDir = false) (hXw : X.isWhiteout = false) (hXa : X.isAbsent = false)
    (log' : List Call) :
    Consistent { s with
      disk := s.disk.setUpper (n :: pp) X,
      mem := s.mem.set (n :: pp)
        (some { m with whiteout := false, reals := [realOf (s.disk.setUpper (n :: pp) X) (n :: pp) 0] }),
      log := log' } := by
  obtain ⟨⟨t0, ht0, hpex⟩, ⟨j, t, hej, hj0, hrj, hmex⟩, hdir0, habs, ⟨tl, htl⟩⟩ :=
    lowerDir_facts hc n pp hpm hm hpu hmu hr
  have hu : s.disk.upper.isSome := by rw [hup]; rfl
  have hl := hc.toLocal
  generalize hd' : s.disk.setUpper (n :: pp) X = d'
  have hnode : ∀ i p, d'.nodeAt i p = if i = 0 ∧ p = n :: pp then X else s.disk.nodeAt i p := by
    intro i p; rw [← hd']; exact nodeAt_setUpper _ _ _ hu i p
  have hq0 : d'.nodeAt 0 (n :: pp) = X := by rw [hnode]; simp
  have hpm' : pm.reals = (expIdx s.disk pp).map (realOf d' pp) := by
    rw [hpex, ← hd', map_realOf_setUpper _ _ _ hu _ _ (Or.inl (ne_cons_self n pp))]
  have hloc1 : localExp d' pm n = [realOf d' (n :: pp) 0] := by
    rw [localExp_realOf d' pp _ pm hpm' n]
    have e1 : dirsIdx d' pp (expIdx s.disk pp) = 0 :: tl := by
      rw [dirsIdx_congr s.disk d' pp _ (fun i _ => by rw [hnode, if_neg (fun h => ne_cons_self n pp h.2)]), htl]
    rw [e1, List.filter_cons]
    have : (!(d'.nodeAt 0 (n :: pp)).isAbsent) = true := by rw [hq0, hXa]; rfl
    rw [if_pos this, cutW_of_nondir (by rw [hq0]; exact hXd)]
    rfl
  have ⟨hk, hnochild⟩ := nondir_no_kids hc hm hr hnd
  have hloc2 : ∀ c, localExp d' { m with whiteout := false, reals := [realOf d' (n :: pp) 0] } c = [] := by
    intro c
    have : (d'.statReal (realOf d' (n :: pp) 0)).isDir = false := by
      rw [statReal_realOf, hq0]; exact hXd
    simp [localExp, takeDirs, this, newFromReals]
  have hstep : HostStep L (L.set (n :: pp) X) := by
    apply hostStep_mk
    · simpa [Disk.nodeAt, Disk.layer, hup] using hdir0
    · simpa [Disk.nodeAt, Disk.layer, hup] using habs
  have := consistent_setNode hc hup n pp X (m' := { m with whiteout := false, reals := [realOf d' (n :: pp) 0] })
    hpm hm rfl rfl hstep
    (by rw [hd', hloc1]; exact Or.inl rfl)
    (by intro c cm hcm; rw [hnochild c] at hcm; cases hcm)
    (by
      intro _ c
      rw [hd', hloc2]
      refine ⟨fun hcin => ?_, fun h => by simp [needsNode] at h⟩
      have : c ∈ m.kids := hcin
      rw [hk] at this; cases this)
    (by simp [headWhiteout, realOf, hq0, hXw])
    (by rw [hd', hloc1]; simp)
    log'
  rw [hd'] at this
  exact this

end Fbr.Ovl
