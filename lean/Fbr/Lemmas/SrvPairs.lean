/-
  Fbr.Lemmas.SrvPairs — decoding of the 16-byte (u64, u64) item arrays of BATCH_FORGET and
  REMOVEMAPPING, for item lists of any length.
-/
import Fbr.Lemmas.Wire
import Fbr.Lemmas.SrvDecode

namespace Fbr.Srv
open Fbr.Wire

/-- the client's encoding of an item array -/
def encPairs (items : List (Nat × Nat)) : Bytes := items.flatMap fun p => le64 p.1 ++ le64 p.2

@[simp] theorem encPairs_length (items : List (Nat × Nat)) : (encPairs items).length = 16 * items.length := by
  induction items with
  | nil => simp [encPairs]
  | cons p ps ih =>
    simp only [encPairs, List.flatMap_cons, List.length_append, le64_length, List.length_cons] at ih ⊢
    omega

theorem encPairs_cons (p : Nat × Nat) (ps : List (Nat × Nat)) :
    encPairs (p :: ps) = le64 p.1 ++ (le64 p.2 ++ encPairs ps) := by
  simp [encPairs, List.append_assoc]

/-- **every item of the array is decoded, in order, with both values exact** -/
theorem pairs_decode (items : List (Nat × Nat)) (hb : ∀ p ∈ items, p.1 < 2 ^ 64 ∧ p.2 < 2 ^ 64) (trail : Bytes) :
    (List.range items.length).map (fun i =>
      (u64At (encPairs items ++ trail) (16 * i), u64At (encPairs items ++ trail) (16 * i + 8))) = items := by
  induction items with
  | nil => simp
  | cons p ps ih =>
    obtain ⟨a, b⟩ := p
    have hab := hb (a, b) List.mem_cons_self
    have ih' := ih (fun q hq => hb q (List.mem_cons_of_mem _ hq))
    rw [List.length_cons, List.range_succ_eq_map, List.map_cons, List.map_map]
    rw [encPairs_cons]
    simp only [List.append_assoc]
    congr 1
    · have e1 : u64At (le64 a ++ (le64 b ++ (encPairs ps ++ trail))) (16 * 0) = a := by
        rw [Nat.mul_zero, u64At_le64]; exact Nat.mod_eq_of_lt hab.1
      have e2 : u64At (le64 a ++ (le64 b ++ (encPairs ps ++ trail))) (16 * 0 + 8) = b := by
        rw [u64At_skip _ _ _ (by simp), le64_length]
        simp only [Nat.mul_zero, Nat.zero_add, Nat.sub_self]
        rw [u64At_le64]; exact Nat.mod_eq_of_lt hab.2
      rw [e1, e2]

end Fbr.Srv
