/-
  Helper lemmas for C04/C17: every Reader / VirtioFsWriter operation of the model advances its
  cursor (`AdvBy`), with the count it reports.
-/
import Fbr.Lemmas.XportAdv

namespace Fbr.Xport

theorem take_min_total (segs : List Seg) (n : Nat) :
    (addrs segs).take (min n (total segs)) = (addrs segs).take n := by
  by_cases h : n ≤ total segs
  · rw [Nat.min_eq_left h]
  · rw [Nat.min_eq_right (by omega), List.take_of_length_le (by simp), List.take_of_length_le (by simp; omega)]

theorem AdvBy.inv {n : Nat} {wr md : Bool} {b b' : IoBufs} {w w' : World}
    (h : AdvBy n wr md b w b' w') : b'.consumed + total b'.segs = b.consumed + total b.segs := by
  have := h.total_eq
  obtain ⟨a1, _, _, _, _, _, _, a8⟩ := h
  omega

/-! ### contracts of the closures -/

theorem fok_copyOut (w : World) (bufs : List Seg) (n : Nat) :
    FOk false w bufs (match copyOut w bufs n with | (w1, bs, t) => ((.ok t : Except IoErr Nat), w1, bs)) := by
  have h := copyOut_spec w bufs n
  rcases hc : copyOut w bufs n with ⟨w1, bs, t⟩
  rw [hc] at h
  simp only at h ⊢
  obtain ⟨hs, _, hw, hr, ht⟩ := h
  refine ⟨min n (total bufs), Nat.min_le_right _ _, hs.p, hs.fd, hs.dirty, ?_, ?_, ?_, ?_⟩
  · simp only [sel, Bool.false_eq_true, if_false]; rw [hr, take_min_total]
  · simpa [sel] using hw
  · intro k hk; cases hk; exact ht
  · intro e he; cases he

theorem fok_copyIn (w : World) (bufs : List Seg) (data : Bytes) :
    FOk true w bufs (match copyIn w bufs data with | (w1, t) => ((.ok t : Except IoErr Nat), w1, ())) := by
  have h := copyIn_spec w bufs data
  rcases hc : copyIn w bufs data with ⟨w1, t⟩
  rw [hc] at h
  simp only at h ⊢
  obtain ⟨hs, hr, hw, ht⟩ := h
  refine ⟨min data.length (total bufs), Nat.min_le_right _ _, hs.p, hs.fd, hs.dirty, ?_, ?_, ?_, ?_⟩
  · simp only [sel, if_true]; rw [hw, take_min_total]
  · simpa [sel] using hr
  · intro k hk; cases hk; exact ht
  · intro e he; cases he

theorem fok_error {β : Type} (wr : Bool) (w : World) (bufs : List Seg) (e : IoErr) (a : β) :
    FOk wr w bufs ((.error e : Except IoErr Nat), w, a) :=
  ⟨0, Nat.zero_le _, rfl, rfl, rfl, by simp, rfl, (by intro k h; cases h), (by intro _ _; rfl)⟩

theorem fok_zero {β : Type} (wr : Bool) (w : World) (bufs : List Seg) (a : β) :
    FOk wr w bufs ((.ok 0 : Except IoErr Nat), w, a) :=
  ⟨0, Nat.zero_le _, rfl, rfl, rfl, by simp, rfl, (by intro k h; cases h; rfl), (by intro _ _; rfl)⟩

/-- a contract on a sub-list of the offered buffers that denotes the same leading addresses -/
theorem FOk.mono {β : Type} {wr : Bool} {w : World} {sub bufs : List Seg} {r : Except IoErr Nat × World × β}
    (h : FOk wr w sub r) (ht : total sub ≤ total bufs)
    (hpre : ∀ n, n ≤ total sub → (addrs sub).take n = (addrs bufs).take n) : FOk wr w bufs r := by
  obtain ⟨n, hn, h1, h2, h3, h4, h5, h6, h7⟩ := h
  exact ⟨n, by omega, h1, h2, h3, by rw [h4, hpre n hn], h5, h6, h7⟩

theorem sinkCall_fok (s : Script) (w : World) (bufs : List Seg) : FOk false w bufs (s.sinkCall w bufs) := by
  unfold Script.sinkCall
  rcases s.pop with ⟨a, s1⟩
  simp only
  match a with
  | some .err => exact fok_error _ _ _ _ _
  | some .intr => exact fok_error _ _ _ _ _
  | some (.n k) =>
    simp only
    have h := fok_copyOut w bufs (min k (total bufs))
    rcases hc : copyOut w bufs (min k (total bufs)) with ⟨w1, bs, t⟩
    rw [hc] at h
    obtain ⟨n, h0, h1, h2, h3, h4, h5, h6, h7⟩ := h
    exact ⟨n, h0, h1, h2, h3, h4, h5, h6, h7⟩
  | none =>
    simp only
    have h := fok_copyOut w bufs (total bufs)
    rcases hc : copyOut w bufs (total bufs) with ⟨w1, bs, t⟩
    rw [hc] at h
    obtain ⟨n, h0, h1, h2, h3, h4, h5, h6, h7⟩ := h
    exact ⟨n, h0, h1, h2, h3, h4, h5, h6, h7⟩

theorem sourceCall_fok (s : Script) (w : World) (bufs : List Seg) (at_ : Option Nat) :
    FOk true w bufs (s.sourceCall w bufs at_) := by
  unfold Script.sourceCall
  rcases s.pop with ⟨a, s1⟩
  simp only
  match a with
  | some .err => exact fok_error _ _ _ _ _
  | some .intr => exact fok_error _ _ _ _ _
  | some (.n k) =>
    simp only
    generalize hd : patBytes _ _ _ = data
    have h := fok_copyIn w bufs data
    rcases hc : copyIn w bufs data with ⟨w1, t⟩
    rw [hc] at h
    obtain ⟨n, h0, h1, h2, h3, h4, h5, h6, h7⟩ := h
    exact ⟨n, h0, h1, h2, h3, h4, h5, h6, h7⟩
  | none =>
    simp only
    generalize hd : patBytes _ _ _ = data
    have h := fok_copyIn w bufs data
    rcases hc : copyIn w bufs data with ⟨w1, t⟩
    rw [hc] at h
    obtain ⟨n, h0, h1, h2, h3, h4, h5, h6, h7⟩ := h
    exact ⟨n, h0, h1, h2, h3, h4, h5, h6, h7⟩

/-- the first non-empty buffer carries the leading addresses of the whole list -/
theorem find_nonempty_prefix (bufs : List Seg) (b : Seg) (h : bufs.find? (fun b => b.len ≠ 0) = some b) :
    total [b] ≤ total bufs ∧ ∀ n, n ≤ total [b] → (addrs [b]).take n = (addrs bufs).take n := by
  induction bufs with
  | nil => simp at h
  | cons s rest ih =>
    rw [List.find?_cons] at h
    by_cases hs : s.len = 0
    · simp only [hs, ne_eq, not_true_eq_false, decide_false] at h
      obtain ⟨h1, h2⟩ := ih h
      simp only [total, addrs, segAddrs_zero s hs, List.nil_append] at h1 h2 ⊢
      exact ⟨by omega, h2⟩
    · simp only [hs, ne_eq, not_false_eq_true, decide_true] at h
      cases h
      simp only [total, addrs, List.append_nil, Nat.add_zero]
      refine ⟨by omega, ?_⟩
      intro n hn
      rw [List.take_append_of_le_length (by simpa using hn)]

theorem head_prefix (b : Seg) (rest : List Seg) :
    total [b] ≤ total (b :: rest) ∧ ∀ n, n ≤ total [b] → (addrs [b]).take n = (addrs (b :: rest)).take n := by
  simp only [total, addrs, List.append_nil, Nat.add_zero]
  refine ⟨by omega, ?_⟩
  intro n hn
  rw [List.take_append_of_le_length (by simpa using hn)]

theorem writeVectored_fok (s : Script) (w : World) (bufs : List Seg) (at_ : Bool) :
    FOk false w bufs (s.writeVectored w bufs at_) := by
  unfold Script.writeVectored
  cases s.kind with
  | full => exact sinkCall_fok s w bufs
  | dflt =>
    simp only
    cases at_ with
    | true =>
      simp only [if_true]
      cases bufs with
      | nil => exact fok_zero _ _ _ _
      | cons b rest => exact (sinkCall_fok s w [b]).mono (head_prefix b rest).1 (head_prefix b rest).2
    | false =>
      simp only [Bool.false_eq_true, if_false]
      cases hf : bufs.find? (fun b => b.len ≠ 0) with
      | none => exact fok_zero _ _ _ _
      | some b => exact (sinkCall_fok s w [b]).mono (find_nonempty_prefix bufs b hf).1 (find_nonempty_prefix bufs b hf).2

theorem readVectored_fok (s : Script) (w : World) (bufs : List Seg) (at_ : Option Nat) :
    FOk true w bufs (s.readVectored w bufs at_) := by
  unfold Script.readVectored
  cases s.kind with
  | full => exact sourceCall_fok s w bufs at_
  | dflt =>
    simp only
    cases at_ with
    | some o =>
      simp only
      cases bufs with
      | nil => exact fok_zero _ _ _ _
      | cons b rest => exact (sourceCall_fok s w [b] (some o)).mono (head_prefix b rest).1 (head_prefix b rest).2
    | none =>
      simp only
      cases hf : bufs.find? (fun b => b.len ≠ 0) with
      | none => exact fok_zero _ _ _ _
      | some b => exact (sourceCall_fok s w [b] none).mono (find_nonempty_prefix bufs b hf).1 (find_nonempty_prefix bufs b hf).2

end Fbr.Xport
