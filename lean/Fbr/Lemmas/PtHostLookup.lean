/-
  Fbr.Lemmas.PtHostLookup — `do_lookup` on the reference host: all its calls are confined and it
  keeps the joint invariant `J`.  The one `openat` of a lookup carries `O_NOFOLLOW|O_PATH`, its name
  has no '/', and it is never ".." on a descriptor of the export root: ".." on inode 1 is rewritten
  to ".", and no other table entry denotes the export root (`J.uniq`).
-/
import Fbr.Lemmas.PtHostTable

namespace Fbr.PtHost
open Fbr.Host

/-- the table update at the end of `do_lookup` (no host call) -/
def lookupCommit (cfg : Cfg) (pathFd : Fd) (hOpt : Option Nat) (st : Stat) : M Entry := do
  let id := st.obj
  let s ← M.get
  let inode ← (match s.getAlt id hOpt with
    | some d => do
      M.set (s.setRefcount d.inode (d.refcount + 1))
      pure d.inode
    | none => do
      let handle := match hOpt with | some h => IHandle.handle h | none => IHandle.file pathFd
      let (inode, s') := allocateInode cfg s id hOpt
      if inode > VFS_MAX_INO then M.throw 10005 else
      M.set (s'.insert { inode := inode, handle := handle, id := id, refcount := 1, mode := st.mode })
      pure inode : M Nat)
  let (et, at_) := if isDir st.mode then (cfg.dirEntryTimeout, cfg.dirAttrTimeout) else (cfg.entryTimeout, cfg.attrTimeout)
  pure { inode := inode, attr := st, attrFlags := 0, entryTimeout := et, attrTimeout := at_ }

/-- `do_lookup` = the host calls, then the table update -/
theorem doLookup_eq (cfg : Cfg) (parent : Nat) (name : Name) : doLookup cfg parent name = (do
    let s ← M.get
    let dir ← M.ofOption EBADF (s.get parent)
    let dirFile ← getFile dir
    let x ← openFileAndHandle cfg dirFile
      (if parent == ROOT_ID && startsWith (withNul name) PARENT_DIR_CSTR then [DOT] else name)
    lookupCommit cfg x.1 x.2.1 x.2.2) := rfl

/-- the `InodeHandle` of a new entry -/
def entryHandle (pathFd : Fd) : Option Nat → IHandle
  | some h => .handle h
  | none => .file pathFd

/-- the new table entry -/
def newEntry (ino : Nat) (pathFd : Fd) (hOpt : Option Nat) (st : Stat) : InodeData :=
  { inode := ino, handle := entryHandle pathFd hOpt, id := st.obj, refcount := 1, mode := st.mode }

/-- the tables after the update -/
def commitState (cfg : Cfg) (pt : PtState) (pathFd : Fd) (hOpt : Option Nat) (st : Stat) : PtState :=
  match pt.getAlt st.obj hOpt with
  | some d => pt.setRefcount d.inode (d.refcount + 1)
  | none =>
    if (allocateInode cfg pt st.obj hOpt).1 > VFS_MAX_INO then pt else
    (allocateInode cfg pt st.obj hOpt).2.insert
      { inode := (allocateInode cfg pt st.obj hOpt).1,
        handle := entryHandle pathFd hOpt,
        id := st.obj, refcount := 1, mode := st.mode }

theorem lookupCommit_run (cfg : Cfg) (pathFd : Fd) (hOpt : Option Nat) (st : Stat) (pt : PtState) :
    ∃ r, lookupCommit cfg pathFd hOpt st pt = .pure (r, commitState cfg pt pathFd hOpt st) := by
  unfold lookupCommit commitState
  simp only [bind_def, M.bind', M.get, Prog.bind, pure_def]
  cases hg : pt.getAlt st.obj hOpt with
  | some d => exact ⟨_, rfl⟩
  | none =>
    simp only []
    by_cases hv : (allocateInode cfg pt st.obj hOpt).1 > VFS_MAX_INO
    · simp only [hv, if_true]; exact ⟨_, rfl⟩
    · simp only [hv, if_false]; exact ⟨_, rfl⟩

/-- **a lookup that reaches the export root finds the root entry**: by id, or — with file handles —
    by the root's handle (one handle id per inode in the host) -/
theorem getAlt_root {pt : PtState} {h : Ref.State} (j : J pt h) (hOpt : Option Nat)
    (hh : ∀ k, hOpt = some k → h.handles k = some h.exportRoot) : pt.getAlt h.exportRoot hOpt ≠ none := by
  obtain ⟨dR, hdR⟩ := j.getRoot
  obtain ⟨hmem, hino⟩ := get_mem hdR
  unfold PtState.getAlt
  cases hOpt with
  | none =>
    simp only [Option.bind, PtState.inodeById, j.byId, hdR, Option.isNone_none, Bool.true_or, if_true]
    intro e; cases e
  | some k =>
    have hk := hh k rfl
    simp only [Option.bind, PtState.inodeByHandle, PtState.inodeById, j.byId, hdR]
    cases hb : pt.byHandle.lookup k with
    | some i =>
      simp only []
      cases hgi : pt.get i with
      | some d => simp only []; intro e; cases e
      | none =>
        simp only [Option.isNone_some, Bool.false_or]
        cases hdh : dR.handle with
        | file f => simp only [if_true]; intro e; cases e
        | handle k0 =>
          exfalso
          have hden := j.den dR hmem
          rw [hdh, j.rootId dR hmem hino] at hden
          have e0 : k0 = k := j.wf.hInj k0 k _ hden hk
          have := j.byH dR hmem k0 hino hdh
          rw [e0, hb] at this
          cases this
          rw [hdR] at hgi; cases hgi
    | none =>
      simp only [Option.isNone_some, Bool.false_or]
      cases hdh : dR.handle with
      | file f => simp only [if_true]; intro e; cases e
      | handle k0 =>
        exfalso
        have hden := j.den dR hmem
        rw [hdh, j.rootId dR hmem hino] at hden
        have e0 : k0 = k := j.wf.hInj k0 k _ hden hk
        have := j.byH dR hmem k0 hino hdh
        rw [e0, hb] at this
        cases this

/-- a lookup that found nothing does not allocate number 1 -/
theorem allocate_ne_root {pt : PtState} {h : Ref.State} (j : J pt h) (cfg : Cfg) (id : Obj) (hOpt : Option Nat)
    (hg : pt.getAlt id hOpt = none) : (allocateInode cfg pt id hOpt).1 ≠ ROOT_ID := by
  obtain ⟨dR, hdR⟩ := j.getRoot
  unfold allocateInode
  by_cases hu : (!cfg.useHostIno) = true
  · rw [if_pos hu]
    cases hl : pt.getInodeLocked id hOpt with
    | none => simp only []; exact Nat.ne_of_gt j.next
    | some i =>
      simp only []
      intro e
      rw [e] at hl
      unfold PtState.getAlt at hg
      cases hOpt with
      | none =>
        simp only [PtState.getInodeLocked] at hl
        simp only [Option.bind, hl, hdR, Option.isNone_none, Bool.true_or, if_true] at hg
        cases hg
      | some k =>
        simp only [PtState.getInodeLocked] at hl
        simp only [Option.bind, hl, hdR] at hg
        cases hg
  · rw [if_neg hu]
    exact Nat.ne_of_gt (Nat.lt_of_lt_of_le (by decide : 1 < 2 ^ 47) (Nat.le_add_right _ _))

theorem mem_insert {pt : PtState} {d x : InodeData} (h : x ∈ (pt.insert d).inodes) : x = d ∨ x ∈ pt.inodes := by
  simp only [PtState.insert, List.mem_cons, List.mem_filter] at h
  rcases h with h | h
  · exact Or.inl h
  · exact Or.inr h.1

/-- **the table update of `do_lookup` keeps the invariant** -/
theorem j_commit (cfg : Cfg) {pt : PtState} {h : Ref.State} (j : J pt h) (pathFd : Fd) (hOpt : Option Nat) (st : Stat)
    (hfd : Ref.fdObj h pathFd = some st.obj) (hh : ∀ k, hOpt = some k → h.handles k = some st.obj) :
    J (commitState cfg pt pathFd hOpt st) h := by
  unfold commitState
  cases hg : pt.getAlt st.obj hOpt with
  | some d => exact j_setRefcount j _ _
  | none =>
    simp only []
    split
    · exact j
    · have hne : st.obj ≠ h.exportRoot := by
        intro e
        rw [e] at hg hh
        exact getAlt_root j hOpt hh hg
      have hi : (allocateInode cfg pt st.obj hOpt).1 ≠ ROOT_ID := allocate_ne_root j cfg _ _ hg
      -- the allocation only moves the counter
      have ha : (allocateInode cfg pt st.obj hOpt).2.inodes = pt.inodes ∧ (allocateInode cfg pt st.obj hOpt).2.byId = pt.byId ∧
          (allocateInode cfg pt st.obj hOpt).2.byHandle = pt.byHandle ∧ pt.nextInode ≤ (allocateInode cfg pt st.obj hOpt).2.nextInode := by
        unfold allocateInode
        split
        · split
          · exact ⟨rfl, rfl, rfl, Nat.le_refl _⟩
          · exact ⟨rfl, rfl, rfl, Nat.le_succ _⟩
        · exact ⟨rfl, rfl, rfl, Nat.le_refl _⟩
      generalize (allocateInode cfg pt st.obj hOpt).1 = ino at hi ⊢
      generalize (allocateInode cfg pt st.obj hOpt).2 = pa at ha ⊢
      obtain ⟨a1, a2, a3, a4⟩ := ha
      show J (pa.insert (newEntry ino pathFd hOpt st)) h
      have hold : ∀ x, x ∈ (pa.insert (newEntry ino pathFd hOpt st)).inodes →
          (x.inode = ino ∧ x.id = st.obj ∧ x.handle = entryHandle pathFd hOpt) ∨ x ∈ pt.inodes := by
        intro x hx
        rcases mem_insert hx with e | e
        · left; rw [e]; exact ⟨rfl, rfl, rfl⟩
        · right; rw [a1] at e; exact e
      refine ⟨j.good, j.wf, ?_, ?_, ?_, ?_, ?_, ?_, ?_⟩
      · obtain ⟨r, hr, hri⟩ := j.rootEx
        refine ⟨r, ?_, hri⟩
        simp only [PtState.insert, List.mem_cons, List.mem_filter, a1]
        right
        refine ⟨hr, ?_⟩
        rw [hri]; simpa using (fun e => hi e.symm)
      · intro x hx h1
        rcases hold x hx with ⟨e, _, _⟩ | e
        · exact absurd (e ▸ h1) hi
        · exact j.rootId x e h1
      · intro x hx h1
        rcases hold x hx with ⟨_, e, _⟩ | e
        · exact absurd (e ▸ h1) hne
        · exact j.uniq x e h1
      · intro x hx
        rcases hold x hx with ⟨_, e2, e3⟩ | e
        · rw [e2, e3]
          cases hOpt with
          | none => exact hfd
          | some k => exact hh k rfl
        · exact j.den x e
      · show ((st.obj, ino) :: pa.byId.filter (·.1 != st.obj)).lookup h.exportRoot = some ROOT_ID
        rw [lookup_cons_other _ _ _ _ (fun e => hne e.symm), lookup_filter_other _ _ _ (fun e => hne e.symm), a2]
        exact j.byId
      · intro x hx k0 h1 hk0
        rcases hold x hx with ⟨e, _, _⟩ | e
        · exact absurd (e ▸ h1) hi
        · have hb := j.byH x e k0 h1 hk0
          cases hOpt with
          | none => show pa.byHandle.lookup k0 = some ROOT_ID; rw [a3]; exact hb
          | some k =>
            have hkk : k ≠ k0 := j.handle_ne x e k0 h1 hk0 k st.obj (hh k rfl) hne
            show ((k, ino) :: pa.byHandle.filter (·.1 != k)).lookup k0 = some ROOT_ID
            rw [lookup_cons_other _ _ _ _ (fun e => hkk e.symm), lookup_filter_other _ _ _ (fun e => hkk e.symm), a3]
            exact hb
      · exact Nat.lt_of_lt_of_le j.next a4

end Fbr.PtHost
