/-
  Fbr.Lemmas.HostRefGood — `Good` (every descriptor / handle denotes an export object, the export
  is closed under entries and "..") is preserved by every call of the reference FS whose
  descriptor-producing lookups are confined: `O_NOFOLLOW|O_PATH`, a single component, not ".." on
  the export root.
-/
import Fbr.Lemmas.HostRefTree

namespace Fbr.Host.Ref

theorem lookup_filter_ne {α : Type} (l : List (Name × α)) (nm k : Name) (c : α)
    (h : (l.filter (·.1 != nm)).lookup k = some c) : k ≠ nm := by
  induction l with
  | nil => simp at h
  | cons p t ih =>
    obtain ⟨a, b⟩ := p
    by_cases hp : a = nm
    · have hf : ((a, b) :: t).filter (·.1 != nm) = t.filter (·.1 != nm) := by
        have : (a != nm) = false := by simpa using hp
        simp [List.filter, this]
      rw [hf] at h; exact ih h
    · have hf : ((a, b) :: t).filter (·.1 != nm) = (a, b) :: t.filter (·.1 != nm) := by
        have : (a != nm) = true := by simpa using hp
        simp [List.filter, this]
      rw [hf] at h
      by_cases hk : k = a
      · subst hk; exact hp
      · have : (k == a) = false := by simpa using hk
        simp only [List.lookup, this] at h
        exact ih h

theorem lookup_filter {α : Type} (l : List (Name × α)) (nm k : Name) (c : α)
    (h : (l.filter (·.1 != nm)).lookup k = some c) : l.lookup k = some c := by
  induction l with
  | nil => simp at h
  | cons p t ih =>
    obtain ⟨a, b⟩ := p
    by_cases hp : a = nm
    · have hf : ((a, b) :: t).filter (·.1 != nm) = t.filter (·.1 != nm) := by
        have : (a != nm) = false := by simpa using hp
        simp [List.filter, this]
      rw [hf] at h
      have hk : k ≠ a := by rw [hp]; exact lookup_filter_ne t nm k c h
      have : (k == a) = false := by simpa using hk
      simp only [List.lookup, this]
      exact ih h
    · have hf : ((a, b) :: t).filter (·.1 != nm) = (a, b) :: t.filter (·.1 != nm) := by
        have : (a != nm) = true := by simpa using hp
        simp [List.filter, this]
      rw [hf] at h
      by_cases hk : k = a
      · subst hk; simp only [List.lookup, beq_self_eq_true] at h ⊢; exact h
      · have : (k == a) = false := by simpa using hk
        simp only [List.lookup, this] at h ⊢
        exact ih h

theorem lookup_cons_cases {α : Type} (l : List (Name × α)) (nm k : Name) (o c : α)
    (h : ((nm, o) :: l).lookup k = some c) : c = o ∨ l.lookup k = some c := by
  simp only [List.lookup] at h
  split at h
  · left; cases h; rfl
  · right; exact h

/-- the confinement condition on the one kind of call that can produce a descriptor for an
    arbitrary path -/
def ConfinedOpen (s : State) : HCall → Prop
  | .openat dfd name fl _ =>
      (has fl O_CREAT && has fl O_EXCL) = true ∨
      (has fl O_NOFOLLOW = true ∧ has fl O_PATH = true ∧ name.contains SLASH = false ∧
        ¬ (fdObj s dfd = some s.exportRoot ∧ name = dotdot))
  | _ => True

theorem good_newFd (s : State) (g : Good s) (o : Obj) (fl : Nat) (ho : s.sent o = false) : Good (newFd s o fl).2 := by
  refine { g with fds := ?_ }
  intro f e he
  simp only [newFd] at he
  split at he
  · cases he; exact ho
  · exact g.fds f e he

theorem lt_next_of_node (s : State) (g : Good s) (o : Obj) (n : Node) (hn : s.nodes o = some n) : o < s.next := by
  rcases Nat.lt_or_ge o s.next with h | h
  · exact h
  · have h2 := (g.fresh o h).2
    rw [hn] at h2
    cases h2

/-- replacing the inode of an export object by one whose entries are export objects and whose ".."
    is an export object keeps `Good` -/
theorem good_setNode (s : State) (g : Good s) (o : Obj) (n' : Node) (ho : s.sent o = false) (hlt : o < s.next)
    (hent : ∀ nm c, n'.entries.lookup nm = some c → s.sent c = false)
    (hpar : n'.kind = .dir → o ≠ s.exportRoot → s.sent n'.parent = false) : Good (setNode s o n') := by
  constructor
  · intro d nd nm c hnd hd hl
    simp only [setNode] at hnd
    split at hnd
    · cases hnd; exact hent nm c hl
    · exact g.children d nd nm c hnd hd hl
  · intro d nd hnd hd hdir hne
    simp only [setNode] at hnd
    split at hnd
    · rename_i hdo; cases hnd; subst hdo; exact hpar hdir hne
    · exact g.parent d nd hnd hd hdir hne
  · exact g.rootBelow
  · exact g.hostRootOut
  · intro x hx
    refine ⟨(g.fresh x hx).1, ?_⟩
    simp only [setNode]
    split
    · rename_i hxo; subst hxo; exact absurd hlt (Nat.not_lt.mpr hx)
    · exact (g.fresh x hx).2
  · exact g.fds
  · exact g.handles

theorem good_modNode (s : State) (g : Good s) (o : Obj) (f : Node → Node) (ho : s.sent o = false)
    (hent : ∀ n, s.nodes o = some n → ∀ nm c, (f n).entries.lookup nm = some c → s.sent c = false)
    (hpar : ∀ n, s.nodes o = some n → (f n).kind = .dir → o ≠ s.exportRoot → s.sent (f n).parent = false) :
    Good (modNode s o f) := by
  unfold modNode
  split
  · rename_i n hn
    exact good_setNode s g o (f n) ho (lt_next_of_node s g o n hn) (hent n hn) (hpar n hn)
  · exact g

/-- an attribute-only update -/
theorem good_setAttr (s : State) (g : Good s) (o : Obj) (n n' : Node) (hn : s.nodes o = some n) (ho : s.sent o = false)
    (he : n'.entries = n.entries) (hp : n'.parent = n.parent) (hk : n'.kind = n.kind) : Good (setNode s o n') := by
  refine good_setNode s g o n' ho (lt_next_of_node s g o n hn) ?_ ?_
  · intro nm c hl; rw [he] at hl; exact g.children o n nm c hn ho hl
  · intro hdir hne; rw [hp]; rw [hk] at hdir; exact g.parent o n hn ho hdir hne

theorem good_createIn (s : State) (g : Good s) (d : Obj) (dn : Node) (name : Name) (k : Kind) (perm rdev : Nat) (data : List UInt8)
    (hdn : s.nodes d = some dn) (hd : s.sent d = false) :
    Good (createIn s d dn name k perm rdev data).1 ∧ s.sent (createIn s d dn name k perm rdev data).2 = false := by
  have hfresh := g.fresh s.next (Nat.le_refl _)
  have hdlt := lt_next_of_node s g d dn hdn
  refine ⟨?_, hfresh.1⟩
  simp only [createIn]
  -- the state with the counter advanced
  have g0 : Good { s with next := s.next + 1 } :=
    { g with fresh := fun x hx => g.fresh x (Nat.le_of_succ_le hx) }
  have g1 := good_setNode { s with next := s.next + 1 } g0 s.next
    { kind := k, perm := if (k == Kind.dir && has dn.perm S_ISGID) = true then perm ||| S_ISGID else perm, uid := s.creds.euid,
      gid := if has dn.perm S_ISGID = true then dn.gid else s.creds.egid, data := data, parent := d,
      nlink := if (k == Kind.dir) = true then 2 else 1, rdev := rdev } hfresh.1 (Nat.lt_succ_self _)
    (by intro nm c hl; simp at hl) (by intro _ _; exact hd)
  refine good_setNode _ g1 d _ hd (Nat.lt_succ_of_lt hdlt) ?_ ?_
  · intro nm c hl
    rcases lookup_cons_cases _ _ _ _ _ hl with h | h
    · rw [h]; exact hfresh.1
    · exact g.children d dn nm c hdn hd h
  · intro hdir hne
    exact g.parent d dn hdn hd hdir hne

end Fbr.Host.Ref
