/-
  Fbr.Lemmas.HostRefGood — `Good` (every descriptor / handle denotes an export object, the export
  is closed under entries and "..") is preserved by every call of the reference FS whose
  descriptor-producing lookups are confined: `O_NOFOLLOW|O_PATH`, a single component, not ".." on
  the export root.
-/
import Fbr.Lemmas.HostRefTree

namespace Fbr.Host.Ref

theorem lookup_filter_ne {α : Type} (l : List (Name × α)) (nm k : Name) (c : α)
    (h : (l.filter (·.1 != nm)).lookup k = some c) : k ≠ nm := by
  induction l with
  | nil => simp at h
  | cons p t ih =>
    obtain ⟨a, b⟩ := p
    by_cases hp : a = nm
    · have hf : ((a, b) :: t).filter (·.1 != nm) = t.filter (·.1 != nm) := by
        have : (a != nm) = false := by simpa using hp
        simp [List.filter, this]
      rw [hf] at h; exact ih h
    · have hf : ((a, b) :: t).filter (·.1 != nm) = (a, b) :: t.filter (·.1 != nm) := by
        have : (a != nm) = true := by simpa using hp
        simp [List.filter, this]
      rw [hf] at h
      by_cases hk : k = a
      · subst hk; exact hp
      · have : (k == a) = false := by simpa using hk
        simp only [List.lookup, this] at h
        exact ih h

theorem lookup_filter {α : Type} (l : List (Name × α)) (nm k : Name) (c : α)
    (h : (l.filter (·.1 != nm)).lookup k = some c) : l.lookup k = some c := by
  induction l with
  | nil => simp at h
  | cons p t ih =>
    obtain ⟨a, b⟩ := p
    by_cases hp : a = nm
    · have hf : ((a, b) :: t).filter (·.1 != nm) = t.filter (·.1 != nm) := by
        have : (a != nm) = false := by simpa using hp
        simp [List.filter, this]
      rw [hf] at h
      have hk : k ≠ a := by rw [hp]; exact lookup_filter_ne t nm k c h
      have : (k == a) = false := by simpa using hk
      simp only [List.lookup, this]
      exact ih h
    · have hf : ((a, b) :: t).filter (·.1 != nm) = (a, b) :: t.filter (·.1 != nm) := by
        have : (a != nm) = true := by simpa using hp
        simp [List.filter, this]
      rw [hf] at h
      by_cases hk : k = a
      · subst hk; simp only [List.lookup, beq_self_eq_true] at h ⊢; exact h
      · have : (k == a) = false := by simpa using hk
        simp only [List.lookup, this] at h ⊢
        exact ih h

theorem lookup_cons_cases {α : Type} (l : List (Name × α)) (nm k : Name) (o c : α)
    (h : ((nm, o) :: l).lookup k = some c) : c = o ∨ l.lookup k = some c := by
  simp only [List.lookup] at h
  split at h
  · left; cases h; rfl
  · right; exact h

/-- the confinement condition on the one kind of call that can produce a descriptor for an
    arbitrary path -/
def ConfinedOpen (s : State) : HCall → Prop
  | .openat dfd name fl _ =>
      (has fl O_CREAT && has fl O_EXCL) = true ∨
      (has fl O_NOFOLLOW = true ∧ has fl O_PATH = true ∧ name.contains SLASH = false ∧
        ¬ (fdObj s dfd = some s.exportRoot ∧ name = dotdot))
  | _ => True

theorem good_newFd (s : State) (g : Good s) (o : Obj) (fl : Nat) (ho : s.sent o = false) : Good (newFd s o fl).2 := by
  refine { g with fds := ?_ }
  intro f e he
  simp only [newFd] at he
  split at he
  · cases he; exact ho
  · exact g.fds f e he

theorem lt_next_of_node (s : State) (g : Good s) (o : Obj) (n : Node) (hn : s.nodes o = some n) : o < s.next := by
  rcases Nat.lt_or_ge o s.next with h | h
  · exact h
  · have h2 := (g.fresh o h).2
    rw [hn] at h2
    cases h2

/-- replacing the inode of an export object by one whose entries are export objects and whose ".."
    is an export object keeps `Good` -/
theorem good_setNode (s : State) (g : Good s) (o : Obj) (n' : Node) (ho : s.sent o = false) (hlt : o < s.next)
    (hent : ∀ nm c, n'.entries.lookup nm = some c → s.sent c = false)
    (hpar : n'.kind = .dir → o ≠ s.exportRoot → s.sent n'.parent = false) : Good (setNode s o n') := by
  constructor
  · intro d nd nm c hnd hd hl
    simp only [setNode] at hnd
    split at hnd
    · cases hnd; exact hent nm c hl
    · exact g.children d nd nm c hnd hd hl
  · intro d nd hnd hd hdir hne
    simp only [setNode] at hnd
    split at hnd
    · rename_i hdo; cases hnd; subst hdo; exact hpar hdir hne
    · exact g.parent d nd hnd hd hdir hne
  · exact g.rootBelow
  · exact g.hostRootOut
  · intro x hx
    refine ⟨(g.fresh x hx).1, ?_⟩
    simp only [setNode]
    split
    · rename_i hxo; subst hxo; exact absurd hlt (Nat.not_lt.mpr hx)
    · exact (g.fresh x hx).2
  · exact g.fds
  · exact g.handles

theorem good_modNode (s : State) (g : Good s) (o : Obj) (f : Node → Node) (ho : s.sent o = false)
    (hent : ∀ n, s.nodes o = some n → ∀ nm c, (f n).entries.lookup nm = some c → s.sent c = false)
    (hpar : ∀ n, s.nodes o = some n → (f n).kind = .dir → o ≠ s.exportRoot → s.sent (f n).parent = false) :
    Good (modNode s o f) := by
  unfold modNode
  split
  · rename_i n hn
    exact good_setNode s g o (f n) ho (lt_next_of_node s g o n hn) (hent n hn) (hpar n hn)
  · exact g

/-- an attribute-only update -/
theorem good_setAttr (s : State) (g : Good s) (o : Obj) (n n' : Node) (hn : s.nodes o = some n) (ho : s.sent o = false)
    (he : n'.entries = n.entries) (hp : n'.parent = n.parent) (hk : n'.kind = n.kind) : Good (setNode s o n') := by
  refine good_setNode s g o n' ho (lt_next_of_node s g o n hn) ?_ ?_
  · intro nm c hl; rw [he] at hl; exact g.children o n nm c hn ho hl
  · intro hdir hne; rw [hp]; rw [hk] at hdir; exact g.parent o n hn ho hdir hne

theorem good_createIn (s : State) (g : Good s) (d : Obj) (dn : Node) (name : Name) (k : Kind) (perm rdev : Nat) (data : List UInt8)
    (hdn : s.nodes d = some dn) (hd : s.sent d = false) :
    Good (createIn s d dn name k perm rdev data).1 ∧ s.sent (createIn s d dn name k perm rdev data).2 = false := by
  have hfresh := g.fresh s.next (Nat.le_refl _)
  have hdlt := lt_next_of_node s g d dn hdn
  refine ⟨?_, hfresh.1⟩
  simp only [createIn]
  -- the state with the counter advanced
  have g0 : Good { s with next := s.next + 1 } :=
    { g with fresh := fun x hx => g.fresh x (Nat.le_of_succ_le hx) }
  have g1 := good_setNode { s with next := s.next + 1 } g0 s.next
    { kind := k, perm := if (k == Kind.dir && has dn.perm S_ISGID) = true then perm ||| S_ISGID else perm, uid := s.creds.euid,
      gid := if has dn.perm S_ISGID = true then dn.gid else s.creds.egid, data := data, parent := d,
      nlink := if (k == Kind.dir) = true then 2 else 1, rdev := rdev } hfresh.1 (Nat.lt_succ_self _)
    (by intro nm c hl; simp at hl) (by intro _ _; exact hd)
  refine good_setNode _ g1 d _ hd (Nat.lt_succ_of_lt hdlt) ?_ ?_
  · intro nm c hl
    rcases lookup_cons_cases _ _ _ _ _ hl with h | h
    · rw [h]; exact hfresh.1
    · exact g.children d dn nm c hdn hd h
  · intro hdir hne
    exact g.parent d dn hdn hd hdir hne

end Fbr.Host.Ref

namespace Fbr.Host.Ref

theorem good_openObj (s : State) (g : Good s) (o : Obj) (fl : Nat) (ho : s.sent o = false) : Good (openObj s o fl).2 := by
  unfold openObj
  split
  · exact g
  · rename_i n hn
    split
    · exact g
    · split
      · exact good_newFd _ (good_setAttr s g o n { n with data := [], mtime := none } hn ho rfl rfl rfl) o fl ho
      · exact good_newFd s g o fl ho

theorem good_setTimes (s : State) (g : Good s) (o : Obj) (a b c d : Nat) (ho : s.sent o = false) : Good (setTimes s o a b c d).2 := by
  unfold setTimes
  split
  · exact g
  · rename_i n hn; exact good_setAttr s g o n _ hn ho rfl rfl rfl

theorem good_chmodObj (s : State) (g : Good s) (o : Obj) (m : Nat) (ho : s.sent o = false) : Good (chmodObj s o m).2 := by
  unfold chmodObj
  split
  · exact g
  · rename_i n hn
    split
    · exact g
    · exact good_setAttr s g o n _ hn ho rfl rfl rfl

/-- a state that differs only in descriptor positions / flags, handles or credentials -/
theorem good_of_fds (s s' : State) (g : Good s) (hn : s'.nodes = s.nodes) (hx : s'.next = s.next) (hs : s'.sent = s.sent)
    (he : s'.exportRoot = s.exportRoot) (hh : s'.hostRoot = s.hostRoot)
    (hf : ∀ f e, s'.fds f = some e → s.sent e.obj = false) (hha : ∀ h o, s'.handles h = some o → s.sent o = false) : Good s' := by
  constructor
  · intro d n nm c hd hsd hl; rw [hn] at hd; rw [hs] at hsd ⊢; exact g.children d n nm c hd hsd hl
  · intro d n hd hsd hk hne; rw [hn] at hd; rw [hs] at hsd ⊢; rw [he] at hne; exact g.parent d n hd hsd hk hne
  · rw [he, hh]; exact g.rootBelow
  · rw [hs, hh]; exact g.hostRootOut
  · intro o ho; rw [hx] at ho; rw [hs, hn]; exact g.fresh o ho
  · intro f e h; rw [hs]; exact hf f e h
  · intro h o hh'; rw [hs]; exact hha h o hh'

theorem modNode_sent (s : State) (o : Obj) (f : Node → Node) : (modNode s o f).sent = s.sent := by
  unfold modNode; split <;> rfl
theorem modNode_exportRoot (s : State) (o : Obj) (f : Node → Node) : (modNode s o f).exportRoot = s.exportRoot := by
  unfold modNode; split <;> rfl

/-- the effect of a successful rename keeps `Good` -/
theorem good_renameApply (s : State) (g : Good s) (od nd : Obj) (on nn : Name) (c : Obj) (cn : Node) (tgt : Option Obj)
    (hod : s.sent od = false) (hnd : s.sent nd = false) (hc : s.sent c = false)
    (ht : ∀ t, tgt = some t → s.sent t = false) : Good (renameApply s od nd on nn c cn tgt) := by
  -- step 1: the replaced target loses a link
  have h1 : ∃ s1, renameApply s od nd on nn c cn tgt =
      (let s2 := modNode s1 od (fun n => removeEntry n on)
       let s3 := modNode s2 nd (fun n => { removeEntry n nn with entries := (nn, c) :: (removeEntry n nn).entries })
       if cn.kind == .dir then modNode s3 c (fun n => { n with parent := nd }) else s3) ∧
      Good s1 ∧ s1.sent = s.sent := by
    cases tgt with
    | none => exact ⟨s, rfl, g, rfl⟩
    | some t =>
      have htin := ht t rfl
      refine ⟨modNode s t (fun tn => { tn with nlink := if tn.kind == .dir then 0 else tn.nlink - 1 }), rfl, ?_, modNode_sent _ _ _⟩
      refine good_modNode s g t _ htin ?_ ?_
      · intro n hn nm c' hl; exact g.children t n nm c' hn htin hl
      · intro n hn hdir hne; exact g.parent t n hn htin hdir hne
  obtain ⟨s1, hs1, g1, e1⟩ := h1
  rw [hs1]
  dsimp only
  -- step 2: the entry leaves the old directory
  have hod1 : s1.sent od = false := by rw [e1]; exact hod
  have g2 : Good (modNode s1 od (fun n => removeEntry n on)) := by
    refine good_modNode s1 g1 od _ hod1 ?_ ?_
    · intro n hn nm c' hl; exact g1.children od n nm c' hn hod1 (lookup_filter n.entries on nm c' hl)
    · intro n hn hdir hne; exact g1.parent od n hn hod1 hdir hne
  have e2 : (modNode s1 od (fun n => removeEntry n on)).sent = s.sent := by rw [modNode_sent, e1]
  -- step 3: it enters the new directory (replacing an entry of that name)
  have hnd2 : (modNode s1 od (fun n => removeEntry n on)).sent nd = false := by rw [e2]; exact hnd
  have g3 : Good (modNode (modNode s1 od (fun n => removeEntry n on)) nd
      (fun n => { removeEntry n nn with entries := (nn, c) :: (removeEntry n nn).entries })) := by
    refine good_modNode _ g2 nd _ hnd2 ?_ ?_
    · intro n hn nm c' hl
      rcases lookup_cons_cases _ _ _ _ _ hl with h | h
      · rw [h, e2]; exact hc
      · exact g2.children nd n nm c' hn hnd2 (lookup_filter n.entries nn nm c' h)
    · intro n hn hdir hne; exact g2.parent nd n hn hnd2 hdir hne
  -- step 4: a moved directory gets its new parent
  split
  · refine good_modNode _ g3 c _ ?_ ?_ ?_
    · rw [modNode_sent, e2]; exact hc
    · intro n hn nm c' hl
      exact g3.children c n nm c' hn (by rw [modNode_sent, e2]; exact hc) hl
    · intro n hn _ _
      show (modNode _ nd _).sent nd = false
      rw [modNode_sent, e2]; exact hnd
  · exact g3

theorem createCheck_node (s : State) (d : Obj) (name : Name) (dn : Node) (h : createCheck s d name = .ok dn) :
    s.nodes d = some dn := by
  unfold createCheck at h
  split at h
  · cases h
  · rename_i n hn
    repeat' split at h
    all_goals (cases h)
    exact hn

/-- **`Good` is preserved** by every call whose path-opening lookups are confined. -/
theorem good_step (s : State) (g : Good s) (c : HCall) (hc : ConfinedOpen s c) : Good (stepCore s c).2 := by
  cases c
  case openat dfd name fl m =>
    simp only [stepCore]
    split
    · exact g
    rename_i d hd
    have hdin := fdObj_inside s g dfd d hd
    split
    · split
      · exact g
      · rename_i dn hchk
        have hdn : s.nodes d = some dn := createCheck_node s d _ dn hchk
        have gc := good_createIn s g d dn name .reg (m &&& 4095) 0 [] hdn hdin
        exact good_newFd _ gc.1 _ fl gc.2
    · rename_i hce
      rcases hc with h | ⟨hnf, hpath, hslash, hroot⟩
      · exact absurd h hce
      · -- a confined lookup
        simp only [hnf, Bool.not_true]
        split
        · exact g
        · rename_i o ho
          have hl : lookup1 s d name = .ok o := by
            unfold resolve at ho
            split at ho
            · cases ho
            · simp only [hslash, Bool.not_false, if_true] at ho
              exact walk_single_nofollow s d name o ho
          have hoin : s.sent o = false :=
            lookup1_inside s g d name o hdin (fun ⟨h1, h2⟩ => hroot ⟨by rw [hd, h1], h2⟩) hl
          simp only [hpath, if_true]
          exact good_newFd s g o fl hoin
  case reopen f fl md =>
    simp only [stepCore]
    split
    · exact g
    · rename_i e he
      split
      · exact good_newFd s g e.obj fl (g.fds f e he)
      · exact good_openObj s g e.obj fl (g.fds f e he)
  case openByHandle h fl md =>
    simp only [stepCore]
    split
    · exact g
    split
    · exact g
    rename_i o ho
    split
    · exact g
    split
    · exact g
    split
    · exact good_newFd s g o fl (g.handles h o ho)
    · exact good_openObj s g o fl (g.handles h o ho)
  case nameToHandle f fl sz =>
    simp only [stepCore]
    split
    · exact g
    rename_i o ho
    split
    · exact g
    split
    · exact g
    · refine good_of_fds s _ g rfl rfl rfl rfl rfl g.fds ?_
      intro h o' hh
      simp only at hh
      split at hh
      · cases hh; exact fdObj_inside s g f o ho
      · exact g.handles h o' hh
  case statx f n a b => simp only [stepCore]; repeat' split
                        all_goals exact g
  case fstatat f n a => simp only [stepCore]; repeat' split
                        all_goals exact g
  case mkdirat f n m =>
    simp only [stepCore]
    split
    · exact g
    rename_i d hd
    split
    · exact g
    · rename_i dn hchk
      have hdn : s.nodes d = some dn := createCheck_node s d _ dn hchk
      exact (good_createIn s g d dn n .dir _ 0 [] hdn (fdObj_inside s g f d hd)).1
  case mknodat f n m r =>
    simp only [stepCore]
    split
    · exact g
    rename_i d hd
    split
    · exact g
    split
    · exact g
    split
    · exact g
    · rename_i dn hchk
      have hdn : s.nodes d = some dn := createCheck_node s d _ dn hchk
      exact (good_createIn s g d dn n _ _ _ [] hdn (fdObj_inside s g f d hd)).1
  case symlinkat t f n =>
    simp only [stepCore]
    split
    · exact g
    rename_i d hd
    split
    · exact g
    split
    · exact g
    · rename_i dn hchk
      have hdn : s.nodes d = some dn := createCheck_node s d _ dn hchk
      exact (good_createIn s g d dn n .lnk 511 0 t hdn (fdObj_inside s g f d hd)).1
  case linkat f on nf n fl =>
    simp only [stepCore]
    split
    · rename_i o d ho hd
      have hoin := fdObj_inside s g f o ho
      have hdin := fdObj_inside s g nf d hd
      split
      · exact g
      rename_i nn hnn
      split
      · exact g
      split
      · exact g
      rename_i dn hchk
      have hdn : s.nodes d = some dn := createCheck_node s d _ dn hchk
      split
      · exact g
      · have g1 := good_setAttr s g o nn { nn with nlink := nn.nlink + 1 } hnn hoin rfl rfl rfl
        refine good_setNode _ g1 d _ hdin (lt_next_of_node s g d dn hdn) ?_ ?_
        · intro nm c hl
          rcases lookup_cons_cases _ _ _ _ _ hl with h | h
          · rw [h]; exact hoin
          · exact g.children d dn nm c hdn hdin h
        · intro hdir hne; exact g.parent d dn hdn hdin hdir hne
    · exact g
  case unlinkat f n fl =>
    simp only [stepCore]
    split
    · exact g
    rename_i d hd
    have hdin := fdObj_inside s g f d hd
    split
    · exact g
    rename_i dn hdn
    split
    · exact g
    split
    · exact g
    split
    · exact g
    split
    · exact g
    split
    · exact g
    split
    · exact g
    split
    · exact g
    rename_i c hcl
    have hcin := g.children d dn n c hdn hdin hcl
    split
    · exact g
    rename_i cn hcn
    have hent : ∀ nm c', (removeEntry dn n).entries.lookup nm = some c' → s.sent c' = false := by
      intro nm c' hl
      exact g.children d dn nm c' hdn hdin (lookup_filter dn.entries n nm c' hl)
    split
    · split
      · exact g
      split
      · exact g
      · have g1 := good_setAttr s g c cn { cn with nlink := 0 } hcn hcin rfl rfl rfl
        refine good_setNode _ g1 d _ hdin (lt_next_of_node s g d dn hdn) hent ?_
        intro hdir hne; exact g.parent d dn hdn hdin hdir hne
    · split
      · exact g
      · have g1 := good_setAttr s g c cn { cn with nlink := cn.nlink - 1 } hcn hcin rfl rfl rfl
        refine good_setNode _ g1 d _ hdin (lt_next_of_node s g d dn hdn) hent ?_
        intro hdir hne; exact g.parent d dn hdn hdin hdir hne
  case renameat2 of on nf nn fl =>
    simp only [stepCore]
    split
    · rename_i od nd hod hnd
      have hodin := fdObj_inside s g of od hod
      have hndin := fdObj_inside s g nf nd hnd
      split
      · rename_i odn ndn hodn hndn
        split
        · exact g
        · exact g
        · rename_i c cn hchk
          have hcl := renameCheck_source s nd odn ndn on nn fl c cn hchk
          have hcin := g.children od odn on c hodn hodin hcl
          refine good_renameApply s g od nd on nn c cn _ hodin hndin hcin ?_
          intro t ht
          exact g.children nd ndn nn t hndn hndin ht
      · exact g
    · exact g
  case readlinkat f n b => simp only [stepCore]; repeat' split
                           all_goals exact g
  case fchmod f m =>
    simp only [stepCore]
    split
    · exact g
    rename_i e he
    split
    · exact g
    · exact good_chmodObj s g e.obj m (g.fds f e he)
  case fchmodatProc f m fl =>
    simp only [stepCore]
    split
    · exact g
    · rename_i o ho; exact good_chmodObj s g o m (fdObj_inside s g f o ho)
  case fchownat f n u gg fl =>
    simp only [stepCore]
    split
    · exact g
    rename_i o ho
    split
    · exact g
    · rename_i nd hnd
      refine good_setAttr s g o nd _ hnd (fdObj_inside s g f o ho) ?_ ?_ ?_ <;> (split <;> rfl)
  case ftruncate f sz =>
    simp only [stepCore]
    split
    · exact g
    rename_i e he
    split
    · exact g
    split
    · exact g
    rename_i nd hnd
    split
    · exact g
    · exact good_setAttr s g e.obj nd _ hnd (g.fds f e he) rfl rfl rfl
  case futimens f a b c d =>
    simp only [stepCore]
    split
    · exact g
    rename_i e he
    split
    · exact g
    · exact good_setTimes s g e.obj a b c d (g.fds f e he)
  case utimensatProc f a b c d fl =>
    simp only [stepCore]
    split
    · exact g
    · rename_i o ho; exact good_setTimes s g o a b c d (fdObj_inside s g f o ho)
  case fallocate f m o l =>
    simp only [stepCore]
    split
    · exact g
    rename_i e he
    split
    · exact g
    rename_i nd hnd
    repeat' split
    all_goals first | exact g | exact good_setAttr s g e.obj nd _ hnd (g.fds f e he) rfl rfl rfl
  case lseek f o w =>
    simp only [stepCore]
    split
    · exact g
    rename_i e he
    split
    · exact g
    split
    · exact g
    · refine good_of_fds s _ g rfl rfl rfl rfl rfl ?_ g.handles
      intro f' e' h'
      simp only at h'
      split at h'
      · cases h'; exact g.fds f e he
      · exact g.fds f' e' h'
  case preadv f l o => simp only [stepCore]; repeat' split
                       all_goals exact g
  case pwritev f d o =>
    simp only [stepCore]
    split
    · exact g
    rename_i e he
    split
    · exact g
    rename_i nd hnd
    repeat' split
    all_goals first | exact g | exact good_setAttr s g e.obj nd _ hnd (g.fds f e he) rfl rfl rfl
  case fstatvfs f => simp only [stepCore]; repeat' split
                     all_goals exact g
  case setxattr f n v fl =>
    simp only [stepCore]
    split
    · exact g
    rename_i o ho
    split
    · exact g
    rename_i nd hnd
    repeat' split
    all_goals first | exact g | exact good_setAttr s g o nd _ hnd (fdObj_inside s g f o ho) rfl rfl rfl
  case getxattr f n sz => simp only [stepCore]; repeat' split
                          all_goals exact g
  case listxattr f sz => simp only [stepCore]; repeat' split
                         all_goals exact g
  case removexattr f n =>
    simp only [stepCore]
    split
    · exact g
    rename_i o ho
    split
    · exact g
    rename_i nd hnd
    repeat' split
    all_goals first | exact g | exact good_setAttr s g o nd _ hnd (fdObj_inside s g f o ho) rfl rfl rfl
  case fsync f => simp only [stepCore]; repeat' split
                  all_goals exact g
  case fdatasync f => simp only [stepCore]; repeat' split
                      all_goals exact g
  case setfl f fl =>
    simp only [stepCore]
    split
    · exact g
    · rename_i e he
      refine good_of_fds s _ g rfl rfl rfl rfl rfl ?_ g.handles
      intro f' e' h'
      simp only at h'
      split at h'
      · cases h'; exact g.fds f e he
      · exact g.fds f' e' h'
  case setresgid gg =>
    simp only [stepCore]; split
    · exact good_of_fds s _ g rfl rfl rfl rfl rfl g.fds g.handles
    · exact g
  case setresuid u =>
    simp only [stepCore]; split
    · exact good_of_fds s _ g rfl rfl rfl rfl rfl g.fds g.handles
    · exact g
  case capget => exact g
  case capset b =>
    simp only [stepCore]; split
    · exact g
    · exact good_of_fds s _ g rfl rfl rfl rfl rfl g.fds g.handles

end Fbr.Host.Ref

namespace Fbr.Host.Ref

theorem good_creds (s : State) (g : Good s) (c : Creds) : Good { s with creds := c } :=
  good_of_fds s _ g rfl rfl rfl rfl rfl g.fds g.handles

theorem good_step' (s : State) (g : Good s) (c : HCall) (hc : ConfinedOpen s c) : Good (step s c).2 := by
  unfold step
  split
  · exact good_step s g c hc
  · exact good_creds _ (good_step s g c hc) _

theorem step_nodes' (s : State) (c : HCall) : (step s c).2.nodes = (stepCore s c).2.nodes := by
  unfold step; split <;> rfl

/-- the sentinel set is a constant of the host: `Good` before and after a step speak of the same set -/
theorem stepCore_sent (s : State) (c : HCall) : (stepCore s c).2.sent = s.sent := by
  have hm : ∀ (st : State) (o : Obj) (f : Node → Node), (modNode st o f).sent = st.sent := modNode_sent
  have hopen : ∀ (st : State) (o : Obj) (fl : Nat), (openObj st o fl).2.sent = st.sent := by
    intro st o fl; unfold openObj; repeat' split
    all_goals rfl
  have htimes : ∀ (st : State) (o : Obj) (a b c d : Nat), (setTimes st o a b c d).2.sent = st.sent := by
    intro st o a b c d; unfold setTimes; split <;> rfl
  have hchmod : ∀ (st : State) (o : Obj) (m : Nat), (chmodObj st o m).2.sent = st.sent := by
    intro st o m; unfold chmodObj; repeat' split
    all_goals rfl
  have hren : ∀ (st : State) (a b : Obj) (x y : Name) (c : Obj) (cn : Node) (t : Option Obj),
      (renameApply st a b x y c cn t).sent = st.sent := by
    intro st a b x y c cn t
    unfold renameApply
    cases t <;> dsimp only <;> split <;> simp [hm]
  cases c <;> simp only [stepCore]
  all_goals (repeat' split)
  all_goals first | rfl | exact hopen _ _ _ | exact htimes _ _ _ _ _ _ | exact hchmod _ _ _ | exact hren _ _ _ _ _ _ _ _

theorem step_sent (s : State) (c : HCall) : (step s c).2.sent = s.sent := by
  unfold step; split
  · exact stepCore_sent s c
  · exact stepCore_sent s c

variable {α : Type}

/-- every call of the run is confined in the state in which it is issued -/
def AllConfined (sent : Obj → Bool) (root : Obj) : Prog α → State → Prop
  | .pure _, _ => True
  | .call c k, s => ConfinedOpen s c ∧ (∀ d n fl m, c = .openat d n fl m → (has fl O_CREAT && has fl O_EXCL) = true ∨ has fl O_TRUNC = false) ∧
      AllConfined sent root (k (step s c).1) (step s c).2

/-- **Runs stay inside.**  A program whose calls are confined, run on the reference FS from a `Good`
    state, ends in a `Good` state and has not changed any sentinel object. -/
theorem run_good (sent : Obj → Bool) (root : Obj) (p : Prog α) (s : State) (g : Good s)
    (h : AllConfined sent root p s) :
    Good ((p.run (ops sent root) s).2.1) ∧ ∀ x, s.sent x = true → (p.run (ops sent root) s).2.1.nodes x = s.nodes x := by
  induction p generalizing s with
  | pure a => exact ⟨g, fun _ _ => rfl⟩
  | call c k ih =>
    obtain ⟨hc, ht, hrest⟩ := h
    have g' := good_step' s g c hc
    have := ih _ _ g' hrest
    refine ⟨this.1, ?_⟩
    intro x hx
    have hx' : (step s c).2.sent x = true := by rw [step_sent]; exact hx
    have e1 := this.2 x hx'
    show ((k (step s c).1).run (ops sent root) (step s c).2).2.1.nodes x = s.nodes x
    rw [e1, step_nodes', sentinel_untouched s g c ht x hx]

end Fbr.Host.Ref
