/-
  C15: when the client holds nothing, the tables are those of a freshly started server.
-/
import Fbr.Lemmas.PtLedgerStep
import Fbr.Lemmas.PtHandles
import Fbr.Lemmas.PtFresh

namespace Fbr.PtRefs

theorem mget_some_of_mem_keys {κ α : Type} [DecidableEq κ] {m : List (κ × α)} {k : κ}
    (h : k ∈ m.map (·.1)) : ∃ v, mget m k = some v := by
  induction m with
  | nil => simp at h
  | cons p r ih =>
    obtain ⟨k', v'⟩ := p
    by_cases e : k' = k
    · exact ⟨v', by simp [mget_cons, e]⟩
    · simp only [List.map_cons, List.mem_cons] at h
      rcases h with x | x
      · exact absurd x.symm e
      · obtain ⟨v, hv⟩ := ih x
        exact ⟨v, by simp [mget_cons, e, hv]⟩

/-- a map with distinct keys, all equal to `k0`, has at most that one entry -/
theorem single_entry {α : Type} {m : List (Nat × α)} (nd : KeysNodup m) (k0 : Nat)
    (h : ∀ k v, mget m k = some v → k = k0) : m = [] ∨ ∃ v, m = [(k0, v)] := by
  cases m with
  | nil => exact Or.inl rfl
  | cons p r =>
    obtain ⟨k, v⟩ := p
    have hk : k = k0 := h k v (by simp [mget_cons])
    subst hk
    cases r with
    | nil => exact Or.inr ⟨v, rfl⟩
    | cons q r' =>
      obtain ⟨k2, v2⟩ := q
      exfalso
      unfold KeysNodup at nd
      simp only [List.map_cons, List.nodup_cons, List.mem_cons, not_or] at nd
      obtain ⟨w, hw⟩ := mget_some_of_mem_keys (m := (k, v) :: (k2, v2) :: r') (k := k2) (by simp)
      have := h k2 w hw
      exact nd.1.1 this.symm

end Fbr.PtRefs
