/-
  Helper lemmas for C04: the content-level invariants of the handle table under ANY operation:
  `CInv` (sizes of the regions never change, every cursor stays inside memory and cannot overflow),
  `RInv` (what readers still hold has not been written), `(ahead writers).Nodup` (what writers still
  hold is pairwise distinct).
-/
import Fbr.Lemmas.XportCSys
import Fbr.Lemmas.XportOnce
import Fbr.Lemmas.XportStart

namespace Fbr.Xport

theorem mem_ahead {l : List IoBufs} {a : Addr} : a ∈ ahead l ↔ ∃ b ∈ l, a ∈ addrs b.segs := List.mem_flatMap

theorem ahead_set_subset {l : List IoBufs} {i : Nat} {b b' : IoBufs} (hg : l[i]? = some b)
    (hsub : ∀ a ∈ addrs b'.segs, a ∈ addrs b.segs) : ∀ a ∈ ahead (l.set i b'), a ∈ ahead l := by
  intro a ha
  obtain ⟨x, hx, hax⟩ := mem_ahead.mp ha
  rcases List.mem_or_eq_of_mem_set hx with h | h
  · exact mem_ahead.mpr ⟨x, h, hax⟩
  · subst h; exact mem_ahead.mpr ⟨b, mem_of_getElem? hg, hsub a hax⟩

theorem ahead_split_subset {l : List IoBufs} {i : Nat} {b a o : IoBufs} (hg : l[i]? = some b)
    (ha : ∀ x ∈ addrs a.segs, x ∈ addrs b.segs) (ho : ∀ x ∈ addrs o.segs, x ∈ addrs b.segs) :
    ∀ x ∈ ahead (l.set i a ++ [o]), x ∈ ahead l := by
  intro x hx
  obtain ⟨y, hy, hxy⟩ := mem_ahead.mp hx
  rcases List.mem_append.mp hy with h | h
  · exact ahead_set_subset hg ha x (mem_ahead.mpr ⟨y, h, hxy⟩)
  · simp only [List.mem_singleton] at h
    subst h; exact mem_ahead.mpr ⟨b, mem_of_getElem? hg, ho x hxy⟩

theorem split_facts {b a o : IoBufs} {k : Nat} (hs : b.splitAt k = .ok (a, o)) (hov : b.consumed + total b.segs < USIZE) :
    a.consumed + total a.segs < USIZE ∧ o.consumed + total o.segs < USIZE
    ∧ (∀ x ∈ addrs a.segs, x ∈ addrs b.segs) ∧ (∀ x ∈ addrs o.segs, x ∈ addrs b.segs)
    ∧ addrs b.segs = addrs a.segs ++ addrs o.segs := by
  obtain ⟨hk, ha, ho, ca, co⟩ := splitAt_ok hs
  have la : total a.segs = k := by
    have := congrArg List.length ha; simp at this; omega
  have lo : total o.segs = total b.segs - k := by
    have := congrArg List.length ho; simpa using this
  refine ⟨by omega, by omega, ?_, ?_, by rw [ha, ho, List.take_append_drop]⟩
  · intro x hx; rw [ha] at hx; exact List.mem_of_mem_take hx
  · intro x hx; rw [ho] at hx; exact List.mem_of_mem_drop hx

/-! ### `CInv` -/

/-- content invariant relative to the memory `m0` the request started with -/
structure CInv (m0 : Mem) (s : St) : Prop where
  p : 0 < s.w.p
  nofuse : s.fws = []
  rov : ∀ b ∈ s.readers, b.consumed + total b.segs < USIZE
  wov : ∀ b ∈ s.writers, b.consumed + total b.segs < USIZE
  len : ∀ x, (s.w.mem.get x).length = (m0.get x).length
  rin : InMem m0 (ahead s.readers)
  win : InMem m0 (ahead s.writers)

theorem CInv.ready {m0 : Mem} {s : St} (h : CInv m0 s) : Ready s := by
  refine ⟨h.p, h.nofuse, ?_, ?_⟩
  · intro b hb
    refine ⟨?_, h.rov b hb⟩
    intro a ha; rw [h.len]; exact h.rin a (mem_ahead.mpr ⟨b, hb, ha⟩)
  · intro b hb
    refine ⟨?_, h.wov b hb⟩
    intro a ha; rw [h.len]; exact h.win a (mem_ahead.mpr ⟨b, hb, ha⟩)

theorem InMem.mono {m : Mem} {A B : List Addr} (h : InMem m B) (hs : ∀ a ∈ A, a ∈ B) : InMem m A :=
  fun a ha => h a (hs a ha)

theorem step_cinv {m0 : Mem} {s : St} (h : CInv m0 s) (op : Op) : CInv m0 (step s op).1 := by
  rcases step_view s op h.ready with ⟨e, _, _⟩ | ⟨i, b, b', w', _, _, hg, e, hc⟩ | ⟨i, k, b, a, o, _, hg, hs, e⟩
      | ⟨i, b, b', w', _, _, hg, e, hc⟩ | ⟨i, k, b, a, o, _, hg, hs, e⟩
  · rw [e]; exact h
  · rw [e]
    have hsub : ∀ a ∈ addrs b'.segs, a ∈ addrs b.segs := by
      intro a ha; rw [hc.1.2.2.2.2.2.2.1] at ha; exact List.mem_of_mem_drop ha
    exact ⟨by simp only; rw [hc.1.2.1]; exact h.p, h.nofuse,
      forall_set h.rov (hc.hov (h.rov b (mem_of_getElem? hg))), h.wov,
      fun x => by simp only; rw [hc.2.1]; exact h.len x,
      h.rin.mono (ahead_set_subset hg hsub), h.win⟩
  · rw [e]
    obtain ⟨f1, f2, f3, f4, _⟩ := split_facts hs (h.rov b (mem_of_getElem? hg))
    refine ⟨h.p, h.nofuse, ?_, h.wov, h.len, h.rin.mono (ahead_split_subset hg f3 f4), h.win⟩
    intro y hy
    rcases List.mem_append.mp hy with hy | hy
    · exact forall_set h.rov f1 y hy
    · simp only [List.mem_singleton] at hy; rw [hy]; exact f2
  · rw [e]
    have hsub : ∀ a ∈ addrs b'.segs, a ∈ addrs b.segs := by
      intro a ha; rw [hc.addrs'] at ha; exact List.mem_of_mem_drop ha
    exact ⟨by simp only; rw [hc.p]; exact h.p, h.nofuse, h.rov,
      forall_set h.wov (hc.hov (h.wov b (mem_of_getElem? hg))),
      fun x => by simp only; rw [hc.len]; exact h.len x,
      h.rin, h.win.mono (ahead_set_subset hg hsub)⟩
  · rw [e]
    obtain ⟨f1, f2, f3, f4, _⟩ := split_facts hs (h.wov b (mem_of_getElem? hg))
    refine ⟨h.p, h.nofuse, h.rov, ?_, h.len, h.rin, h.win.mono (ahead_split_subset hg f3 f4)⟩
    intro y hy
    rcases List.mem_append.mp hy with hy | hy
    · exact forall_set h.wov f1 y hy
    · simp only [List.mem_singleton] at hy; rw [hy]; exact f2

theorem exec_cinv {m0 : Mem} (ops : List Op) {s : St} (h : CInv m0 s) : CInv m0 (exec s ops) := by
  induction ops generalizing s with
  | nil => exact h
  | cons op rest ih => exact ih (step_cinv h op)

/-! ### `RInv`: what readers still hold is as it was -/

structure RInv (m0 : Mem) (s : St) : Prop where
  disj : ∀ a ∈ ahead s.readers, a ∉ ahead s.writers
  agree : ∀ a ∈ ahead s.readers, s.w.mem.byteAt a = m0.byteAt a

theorem step_rinv {m0 : Mem} {s : St} (hc : CInv m0 s) (h : RInv m0 s) (op : Op) : RInv m0 (step s op).1 := by
  rcases step_view s op hc.ready with ⟨e, _, _⟩ | ⟨i, b, b', w', _, _, hg, e, hr⟩ | ⟨i, k, b, a, o, _, hg, hs, e⟩
      | ⟨i, b, b', w', _, _, hg, e, hw⟩ | ⟨i, k, b, a, o, _, hg, hs, e⟩
  · rw [e]; exact h
  · rw [e]
    have hsub : ∀ a ∈ ahead (s.readers.set i b'), a ∈ ahead s.readers := by
      apply ahead_set_subset hg
      intro a ha; rw [hr.1.2.2.2.2.2.2.1] at ha; exact List.mem_of_mem_drop ha
    exact ⟨fun a ha => h.disj a (hsub a ha), fun a ha => by simp only; rw [hr.2.1]; exact h.agree a (hsub a ha)⟩
  · rw [e]
    obtain ⟨_, _, f3, f4, _⟩ := split_facts hs (hc.rov b (mem_of_getElem? hg))
    have hsub := ahead_split_subset hg f3 f4
    exact ⟨fun a ha => h.disj a (hsub a ha), fun a ha => h.agree a (hsub a ha)⟩
  · rw [e]
    have hsub : ∀ a ∈ ahead (s.writers.set i b'), a ∈ ahead s.writers := by
      apply ahead_set_subset hg
      intro a ha; rw [hw.addrs'] at ha; exact List.mem_of_mem_drop ha
    refine ⟨fun a ha hb => h.disj a ha (hsub a hb), ?_⟩
    intro a ha
    simp only
    rw [hw.frame a, h.agree a ha]
    intro hm
    exact h.disj a ha (mem_ahead.mpr ⟨b, mem_of_getElem? hg, List.mem_of_mem_take hm⟩)
  · rw [e]
    obtain ⟨_, _, f3, f4, _⟩ := split_facts hs (hc.wov b (mem_of_getElem? hg))
    have hsub := ahead_split_subset hg f3 f4
    exact ⟨fun a ha hb => h.disj a ha (hsub a hb), h.agree⟩

theorem exec_rinv {m0 : Mem} (ops : List Op) {s : St} (hc : CInv m0 s) (h : RInv m0 s) : RInv m0 (exec s ops) := by
  induction ops generalizing s with
  | nil => exact h
  | cons op rest ih => exact ih (step_cinv hc op) (step_rinv hc h op)

/-! ### what writers still hold is pairwise distinct -/

theorem step_wnd {m0 : Mem} {s : St} (hc : CInv m0 s) (h : (ahead s.writers).Nodup) (op : Op) :
    (ahead (step s op).1.writers).Nodup := by
  rcases step_view s op hc.ready with ⟨e, _, _⟩ | ⟨i, b, b', w', _, _, hg, e, hr⟩ | ⟨i, k, b, a, o, _, hg, hs, e⟩
      | ⟨i, b, b', w', _, _, hg, e, hw⟩ | ⟨i, k, b, a, o, _, hg, hs, e⟩
  · rw [e]; exact h
  · rw [e]; exact h
  · rw [e]; exact h
  · rw [e]
    have hp := perm_ahead_set s.writers i b b' ((addrs b.segs).take (writerIn b s.w op).length) hg
      (by rw [hw.addrs', List.take_append_drop])
    exact (List.nodup_append.mp (hp.nodup_iff.mpr h)).2.1
  · rw [e]
    obtain ⟨_, _, _, _, f5⟩ := split_facts hs (hc.wov b (mem_of_getElem? hg))
    exact (perm_split s.writers i b a o hg f5).nodup_iff.mpr h

theorem exec_wnd {m0 : Mem} (ops : List Op) {s : St} (hc : CInv m0 s) (h : (ahead s.writers).Nodup) :
    (ahead (exec s ops).writers).Nodup := by
  induction ops generalizing s with
  | nil => exact h
  | cons op rest ih => exact ih (step_cinv hc op) (step_wnd hc h op)

/-- the start state of a virtio-fs request satisfies the content invariant -/
theorem start_cinv {st : St} (h : Start st)
    (hr : ∀ b ∈ st.readers, WF st.w.mem b.segs) (hw : ∀ b ∈ st.writers, WF st.w.mem b.segs) :
    CInv st.w.mem st := by
  obtain ⟨_, _, hf, hp, hro, hwo⟩ := h
  refine ⟨hp, hf, hro, hwo, fun _ => rfl, ?_, ?_⟩
  · intro a ha
    obtain ⟨b, hb, hab⟩ := mem_ahead.mp ha
    exact (hr b hb).inMem a hab
  · intro a ha
    obtain ⟨b, hb, hab⟩ := mem_ahead.mp ha
    exact (hw b hb).inMem a hab

end Fbr.Xport
