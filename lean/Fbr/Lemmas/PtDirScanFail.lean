/-
  Helper lemmas for C16: the guard of the linear-scan fallback is necessary.  If the cached cookie
  does not hit, `lseek64` cannot take the cookie, and some record up to and including the one the
  client resumes after does not fit the request's buffer, the scan's `getdents64` on that record
  fails and the request is answered `EINVAL`.
-/
import Fbr.Lemmas.PtDirStep

namespace Fbr.Lemmas.PtDir
open Fbr.PtDir Fbr.Wire

/-- a batch never reaches a record that does not fit -/
theorem fitPrefix_stops (A : Dir) (x : HEnt) (B : Dir) (size : Nat) : ∀ s, s ≤ size → reclen x > size →
    ∃ A2, A = fitPrefix s (A ++ x :: B) ++ A2 := by
  induction A with
  | nil =>
    intro s hs hx
    refine ⟨[], ?_⟩
    have : ¬ reclen x ≤ s := by omega
    simp [fitPrefix, this]
  | cons a A ih =>
    intro s hs hx
    simp only [List.cons_append, fitPrefix]
    split
    · obtain ⟨A2, h⟩ := ih (s - reclen a) (by omega) hx
      exact ⟨A2, by simp [← h]⟩
    · exact ⟨a :: A, rfl⟩

/-- the scan fails on the first record that does not fit, if it comes before the target is consumed -/
theorem scan_fails {H : Host} (wf : WF H.dir) (hq : H.eofQuirk = false) {size offset : Nat} (x : HEnt) (B : Dir)
    (hx : reclen x > size) :
    ∀ (n : Nat) (A : Dir), A.length = n → ∀ (fuel : Nat) (fd : Fd), Pos H.dir fd.pos (A ++ x :: B) →
      (∀ a ∈ A, reclen a ≤ size ∧ a.cookie ≠ offset) → A.length + 1 ≤ fuel →
      ∃ fd', scan H size offset fuel fd false = (.error EINVAL, fd') := by
  intro n
  induction n using Nat.strongRecOn with
  | _ n ih =>
    intro A hn fuel fd hp hA hfuel
    cases fuel with
    | zero => omega
    | succ fuel =>
      unfold scan
      rw [getdentsFd_noquirk H hq]
      obtain ⟨_, h2, h3⟩ := getdents_at wf hp size
      cases A with
      | nil =>
        rw [h2 x B rfl hx]
        exact ⟨_, rfl⟩
      | cons a A' =>
        have ha := (hA a (by simp)).1
        obtain ⟨b, t', c', hg, hbne, hsplit, _, hp'⟩ := h3 a (A' ++ x :: B) rfl ha
        -- the batch is the longest fitting prefix: it stays inside `a :: A'`
        have hb : b = fitPrefix size ((a :: A') ++ x :: B) := by
          have ha' := after_of_pos wf hp
          have hng : ¬ (reclen a > size) := by omega
          have : getdents H.dir size fd.pos = .ok (fitPrefix size ((a :: A') ++ x :: B),
              (lastCookieL (fitPrefix size ((a :: A') ++ x :: B))).getD fd.pos) := by
            simp only [getdents, ha', List.cons_append, hng, if_false]
          rw [this] at hg
          cases hg; rfl
        obtain ⟨A2, hA2⟩ := fitPrefix_stops (a :: A') x B size size (Nat.le_refl _) hx
        rw [← hb] at hA2
        have ht' : t' = A2 ++ x :: B := by
          have h1 : b ++ t' = b ++ (A2 ++ x :: B) := by
            rw [← hsplit, ← List.append_assoc, ← hA2]
          exact List.append_cancel_left h1
        rw [hg]
        simp only
        have hie : b.isEmpty = false := by simpa using hbne
        simp only [hie, Bool.false_eq_true, if_false]
        have hbsub : ∀ y ∈ b, y ∈ a :: A' := fun y hy => by rw [hA2]; exact List.mem_append_left _ hy
        have hskip : skipToCookieL b offset = none := skipL_none b offset (fun y hy => (hA y (hbsub y hy)).2)
        rw [hskip]
        simp only
        have hlen : (a :: A').length = b.length + A2.length := by rw [hA2]; simp
        have hbl : 1 ≤ b.length := List.length_pos_iff.mpr hbne
        refine ih A2.length (by omega) A2 rfl fuel _ (by rw [← ht']; exact hp') ?_ (by simp only [List.length_cons] at hlen hfuel; omega)
        intro y hy
        exact hA y (by rw [hA2]; exact List.mem_append_right _ hy)

/-- the first record of a list that does not fit -/
theorem first_unfit (l : Dir) (size : Nat) (h : ∃ x ∈ l, reclen x > size) :
    ∃ A x B, l = A ++ x :: B ∧ (∀ a ∈ A, reclen a ≤ size) ∧ reclen x > size := by
  induction l with
  | nil => obtain ⟨x, hx, _⟩ := h; simp at hx
  | cons a l ih =>
    by_cases ha : reclen a > size
    · exact ⟨[], a, l, rfl, by simp, ha⟩
    · obtain ⟨x, hx, hgt⟩ := h
      rcases List.mem_cons.mp hx with h1 | h1
      · subst h1; exact absurd hgt ha
      · obtain ⟨A, y, B, h2, h3, h4⟩ := ih ⟨x, h1, hgt⟩
        refine ⟨a :: A, y, B, by simp [h2], ?_, h4⟩
        intro z hz
        rcases List.mem_cons.mp hz with h5 | h5
        · subst h5; omega
        · exact h3 z h5

/-- **the fallback's guard is necessary**: positioning by linear scan fails with `EINVAL` when a
    record up to and including the target does not fit `size` -/
theorem fetch_scan_fails {H : Host} (wf : WF H.dir) (hq : H.eofQuirk = false) {size c : Nat} {pre rest0 : Dir} {tgt : HEnt}
    (hd : H.dir = pre ++ tgt :: rest0) (hc : tgt.cookie = c)
    (hbad : c > I64_MAX ∨ H.seekErr c = some EINVAL) (hun : ∃ x ∈ pre ++ [tgt], reclen x > size) (fd0 : Fd) :
    ∃ fd', fetch H false fd0 size c = (.error EINVAL, fd') := by
  have hscan : fetch H false fd0 size c = scan H size c (H.dir.length + 2) { fd0 with pos := 0 } false := by
    unfold fetch
    simp only [Bool.false_eq_true, if_false]
    rcases hbad with hgt | herr
    · simp [hgt]
    · by_cases hgt : c > I64_MAX
      · simp [hgt]
      · simp [hgt, herr]
  rw [hscan]
  obtain ⟨A, x, B, hsplit, hfitA, hx⟩ := first_unfit (pre ++ [tgt]) size hun
  -- `A` lies inside `pre`: its cookies are not the target's
  have hdir : H.dir = A ++ x :: (B ++ rest0) := by
    rw [hd]
    have : pre ++ tgt :: rest0 = (pre ++ [tgt]) ++ rest0 := by simp
    rw [this, hsplit]; simp
  have hAc : ∀ a ∈ A, a.cookie ≠ c := by
    intro a ha
    -- `a` comes strictly before `x`, and `x` is at or before the target
    cases B with
    | nil =>
      -- x is the target itself
      have h1 : A ++ [x] = pre ++ [tgt] := hsplit.symm
      have hA : A = pre := List.append_inj_left' h1 rfl
      rw [← hc]
      exact nodup_pre wf.nodup hd a (by rw [← hA]; exact ha)
    | cons b0 B' =>
      -- x is inside `pre`
      have hlast : (A ++ x :: b0 :: B') = pre ++ [tgt] := hsplit.symm
      have hne : (b0 :: B') ≠ [] := by simp
      have h2 : A ++ x :: (b0 :: B').dropLast = pre := by
        have h3 : A ++ x :: b0 :: B' = (A ++ x :: (b0 :: B').dropLast) ++ [(b0 :: B').getLast hne] := by
          have := List.dropLast_concat_getLast hne
          conv => lhs; rw [← this]
          simp
        rw [h3] at hlast
        exact List.append_inj_left' hlast rfl
      rw [← hc]
      exact nodup_pre wf.nodup hd a (by rw [← h2]; exact List.mem_append_left _ ha)
  apply scan_fails wf hq x (B ++ rest0) hx A.length A rfl (H.dir.length + 2) { fd0 with pos := 0 }
  · left; exact ⟨rfl, hdir.symm⟩
  · intro a ha; exact ⟨hfitA a ha, hAc a ha⟩
  · rw [hdir]; simp; omega

/-- …hence the request is answered `EINVAL` -/
theorem readReq_scan_fails {H : Host} (wf : WF H.dir) (hq : H.eofQuirk = false) (st : St) (plus : Bool) (h size c : Nat)
    {pre rest0 : Dir} {tgt : HEnt} (hd : H.dir = pre ++ tgt :: rest0) (hc : tgt.cookie = c)
    (hsz : size ≠ 0) (hh : st.noOpendir = true ∨ ∃ fd, st.fds h = some fd) (hmiss : hitOf st h c = false)
    (hbad : c > I64_MAX ∨ H.seekErr c = some EINVAL) (hun : ∃ x ∈ pre ++ [tgt], reclen x > size) :
    (readReq H st plus h size c none).2 = .error EINVAL := by
  unfold readReq doReaddir
  simp only [hsz, if_false]
  unfold hitOf at hmiss
  cases hno : st.noOpendir with
  | true =>
    simp only [if_true, Bool.not_true, Bool.false_and]
    obtain ⟨fd', hf⟩ := fetch_scan_fails wf hq hd hc hbad hun {}
    rw [hf]
  | false =>
    rcases hh with hh | ⟨fd0, hfd⟩
    · rw [hno] at hh; cases hh
    rw [hno] at hmiss
    simp only [Bool.not_false, Bool.true_and] at hmiss
    simp only [Bool.false_eq_true, if_false, hfd, Bool.not_false, Bool.true_and, hmiss]
    obtain ⟨fd', hf⟩ := fetch_scan_fails wf hq hd hc hbad hun fd0
    rw [hf]

end Fbr.Lemmas.PtDir
