/-
  Helper definitions/lemmas for C04: the handle table of the /dev/fuse transport — FuseDevWriters
  created by `new` and `split_at` (plus readers; no virtio-fs writer) — under ANY operation list.
  `fstep_view` sorts the operations into four shapes; `FInv` is the invariant: every writer keeps
  `len ≤ cap` inside its window, the windows of all writers partition the original buffer, every
  write access lies in it.
-/
import Fbr.Lemmas.XportFuseC2
import Fbr.Lemmas.XportKeep
import Fbr.Lemmas.XportOnce

namespace Fbr.Xport

/-- the fusedev handle an operation acts on -/
def Op.fh : Op → Option Nat
  | .fw h _ => some h
  | .fv h _ => some h
  | .ff h _ _ _ => some h
  | .fa h _ _ => some h
  | .fs h _ => some h
  | .fc h _ => some h
  | _ => none

/-- the bytes a FuseDevWriter operation appends: the first `n` bytes of its source, `n` the growth
    of `len` (the count it reports: `fwrite_fwc`, `fwriteVectored_fwc`, `fwriteFrom_fws`) -/
def fwriterIn (f : FuseW) (w : World) : Op → Bytes
  | .fw _ data => data.take ((FuseW.write f w data).f.len - f.len)
  | .fv _ datas => datas.flatten.take ((FuseW.writeVectored f w datas).f.len - f.len)
  | .ff _ count at_ sc => patBytes sc.seed (at_.getD sc.pos) ((FuseW.writeFrom f w sc count at_).f.len - f.len)
  | .fa _ count sc => patBytes sc.seed sc.pos ((FuseW.writeAllFrom f w sc count).f.len - f.len)
  | _ => []

def fplaced (s : St) (i : Nat) (op : Op) : Bytes :=
  if op.fh = some i then (match s.fws[i]? with | some f => fwriterIn f s.w op | none => []) else []

/-- everything appended through fusedev handle `i` by an operation list, in operation order -/
def fplacedAll (s : St) (i : Nat) : List Op → Bytes
  | [] => []
  | op :: rest => fplaced s i op ++ fplacedAll (step s op).1 i rest

theorem fplaced_eq {s : St} {op : Op} {h : Nat} {f : FuseW} (hfh : op.fh = some h) (hg : s.fws[h]? = some f)
    (i : Nat) : fplaced s i op = if i = h then fwriterIn f s.w op else [] := by
  unfold fplaced
  rw [hfh]
  by_cases hi : i = h
  · subst hi; simp [hg]
  · have : ¬ (some h = some i) := by intro e; cases e; exact hi rfl
    simp [hi, this]

theorem fplaced_none {s : St} {op : Op} (hfh : op.fh = none) (i : Nat) : fplaced s i op = [] := by
  unfold fplaced; rw [hfh]; simp

theorem fplaced_invalid {s : St} {op : Op} {h : Nat} (hfh : op.fh = some h) (hg : s.fws[h]? = none)
    (i : Nat) : fplaced s i op = [] := by
  unfold fplaced
  rw [hfh]
  by_cases hi : h = i
  · subst hi; simp [hg]
  · have : ¬ (some h = some i) := by intro e; cases e; exact hi rfl
    simp [this]

theorem fdWrite_keep (w : World) (r : Bytes) : (w.fdWrite r).mem = w.mem ∧ (w.fdWrite r).log = w.log := ⟨rfl, rfl⟩

theorem fdWritev_keep (w : World) (r : Bytes) : (w.fdWritev r).mem = w.mem ∧ (w.fdWritev r).log = w.log := by
  unfold World.fdWritev; split <;> exact ⟨rfl, rfl⟩

/-- `commit` only appends to the descriptor -/
theorem fcommit_world (f : FuseW) (w : World) (other : Option FuseW) :
    (FuseW.commit f w other).2.mem = w.mem ∧ (FuseW.commit f w other).2.log = w.log := by
  unfold FuseW.commit
  by_cases hb : f.buffered = true
  · simp only [hb, not_true_eq_false, if_false]
    split
    · exact ⟨rfl, rfl⟩
    · exact fdWrite_keep _ _
    · exact fdWrite_keep _ _
    · exact fdWritev_keep _ _
  · simp only [hb]
    exact ⟨rfl, rfl⟩

/-- **one step on a fusedev table, sorted by shape**: the writers are not touched and the world
    keeps memory, descriptor and write log (reader operations, unknown handles, refused splits,
    virtio-fs writer operations on a table without such writers) / a write-like operation on
    writer `h` / a split / a commit -/
theorem fstep_view (s : St) (op : Op) (hnw : s.writers = []) (hall : ∀ f ∈ s.fws, f.ok ∧ f.inMem s.w.mem) :
    ((step s op).1.fws = s.fws ∧ (step s op).1.writers = [] ∧ KeepW s.w (step s op).1.w ∧ (∀ i, fplaced s i op = []))
    ∨ (∃ h f f' w', op.fh = some h ∧ (∀ k, op ≠ .fs h k) ∧ s.fws[h]? = some f
        ∧ (step s op).1 = { s with w := w', fws := s.fws.set h f' }
        ∧ FwS (f'.len - f.len) f s.w f' w'
        ∧ (f.buffered = true → FwC (fwriterIn f s.w op) f s.w f' w'))
    ∨ (∃ h k f a o, op = .fs h k ∧ s.fws[h]? = some f ∧ f.splitAt k = .ok (a, o)
        ∧ (step s op).1 = { s with fws := s.fws.set h a ++ [o] })
    ∨ (∃ h o f, op = .fc h o ∧ s.fws[h]? = some f
        ∧ (step s op).1 = { s with w := (FuseW.commit f s.w (o.bind fun i => s.fws[i]?)).2 }) := by
  cases op with
  | rd h n =>
    refine Or.inl ?_
    simp only [step]
    cases hg : s.readers[h]? with
    | none => exact ⟨rfl, hnw, KeepW.refl _, fplaced_none rfl⟩
    | some b => exact ⟨rfl, hnw, read_keep b s.w n, fplaced_none rfl⟩
  | ro h n =>
    refine Or.inl ?_
    simp only [step]
    cases hg : s.readers[h]? with
    | none => exact ⟨rfl, hnw, KeepW.refl _, fplaced_none rfl⟩
    | some b => exact ⟨rfl, hnw, readObj_keep b s.w n, fplaced_none rfl⟩
  | rt h count at_ sc =>
    refine Or.inl ?_
    simp only [step]
    cases hg : s.readers[h]? with
    | none => exact ⟨rfl, hnw, KeepW.refl _, fplaced_none rfl⟩
    | some b => exact ⟨rfl, hnw, readTo_keep b s.w sc count _, fplaced_none rfl⟩
  | re h count sc =>
    refine Or.inl ?_
    simp only [step]
    cases hg : s.readers[h]? with
    | none => exact ⟨rfl, hnw, KeepW.refl _, fplaced_none rfl⟩
    | some b => exact ⟨rfl, hnw, readExactTo_keep _ b s.w sc count, fplaced_none rfl⟩
  | rs h k =>
    refine Or.inl ?_
    simp only [step]
    cases hg : s.readers[h]? with
    | none => exact ⟨rfl, hnw, KeepW.refl _, fplaced_none rfl⟩
    | some b =>
      simp only
      cases hs : b.splitAt k with
      | error e => exact ⟨rfl, hnw, KeepW.refl _, fplaced_none rfl⟩
      | ok r => exact ⟨rfl, hnw, KeepW.refl _, fplaced_none rfl⟩
  | wr h data =>
    have e : (step s (.wr h data)).1 = s := by simp only [step, hnw, List.getElem?_nil]
    exact Or.inl (by rw [e]; exact ⟨rfl, hnw, KeepW.refl _, fplaced_none rfl⟩)
  | wv h datas =>
    have e : (step s (.wv h datas)).1 = s := by simp only [step, hnw, List.getElem?_nil]
    exact Or.inl (by rw [e]; exact ⟨rfl, hnw, KeepW.refl _, fplaced_none rfl⟩)
  | wf h count at_ sc =>
    have e : (step s (.wf h count at_ sc)).1 = s := by simp only [step, hnw, List.getElem?_nil]
    exact Or.inl (by rw [e]; exact ⟨rfl, hnw, KeepW.refl _, fplaced_none rfl⟩)
  | wa h count sc =>
    have e : (step s (.wa h count sc)).1 = s := by simp only [step, hnw, List.getElem?_nil]
    exact Or.inl (by rw [e]; exact ⟨rfl, hnw, KeepW.refl _, fplaced_none rfl⟩)
  | ws h k =>
    have e : (step s (.ws h k)).1 = s := by simp only [step, hnw, List.getElem?_nil]
    exact Or.inl (by rw [e]; exact ⟨rfl, hnw, KeepW.refl _, fplaced_none rfl⟩)
  | wc h o =>
    have e : (step s (.wc h o)).1 = s := by simp only [step, hnw, List.getElem?_nil]
    exact Or.inl (by rw [e]; exact ⟨rfl, hnw, KeepW.refl _, fplaced_none rfl⟩)
  | fw h data =>
    cases hg : s.fws[h]? with
    | none =>
      have e : (step s (.fw h data)).1 = s := by simp only [step, hg]
      exact Or.inl (by rw [e]; exact ⟨rfl, hnw, KeepW.refl _, fplaced_invalid rfl hg⟩)
    | some f =>
      obtain ⟨hok, hin⟩ := hall f (mem_of_getElem? hg)
      refine Or.inr (Or.inl ⟨h, f, _, _, rfl, (by intro k e; cases e), hg, (by simp only [step, hg, setAt]),
        fwrite_fws f s.w data hok hin, fun hb => (fwrite_fwc f s.w data hb hok hin).1⟩)
  | fv h datas =>
    cases hg : s.fws[h]? with
    | none =>
      have e : (step s (.fv h datas)).1 = s := by simp only [step, hg]
      exact Or.inl (by rw [e]; exact ⟨rfl, hnw, KeepW.refl _, fplaced_invalid rfl hg⟩)
    | some f =>
      obtain ⟨hok, hin⟩ := hall f (mem_of_getElem? hg)
      refine Or.inr (Or.inl ⟨h, f, _, _, rfl, (by intro k e; cases e), hg, (by simp only [step, hg, setAt]),
        fwriteVectored_fws f s.w datas hok hin, fun hb => (fwriteVectored_fwc f s.w datas hb hok hin).1⟩)
  | ff h count at_ sc =>
    cases hg : s.fws[h]? with
    | none =>
      have e : (step s (.ff h count at_ sc)).1 = s := by simp only [step, hg]
      exact Or.inl (by rw [e]; exact ⟨rfl, hnw, KeepW.refl _, fplaced_invalid rfl hg⟩)
    | some f =>
      obtain ⟨hok, hin⟩ := hall f (mem_of_getElem? hg)
      refine Or.inr (Or.inl ⟨h, f, _, _, rfl, (by intro k e; cases e), hg, (by simp only [step, hg, setAt]),
        (fwriteFrom_fws f s.w sc count at_ hok hin).1, fun hb => fwriteFrom_fwc f s.w sc count at_ hb hok hin⟩)
  | fa h count sc =>
    cases hg : s.fws[h]? with
    | none =>
      have e : (step s (.fa h count sc)).1 = s := by simp only [step, hg]
      exact Or.inl (by rw [e]; exact ⟨rfl, hnw, KeepW.refl _, fplaced_invalid rfl hg⟩)
    | some f =>
      obtain ⟨hok, hin⟩ := hall f (mem_of_getElem? hg)
      refine Or.inr (Or.inl ⟨h, f, _, _, rfl, (by intro k e; cases e), hg, (by simp only [step, hg, setAt]),
        (fwriteAllFrom_fws f s.w sc count hok hin).1, fun hb => fwriteAllFrom_fwc f s.w sc count hb hok hin⟩)
  | fs h k =>
    cases hg : s.fws[h]? with
    | none =>
      have e : (step s (.fs h k)).1 = s := by simp only [step, hg]
      exact Or.inl (by rw [e]; exact ⟨rfl, hnw, KeepW.refl _, fplaced_invalid rfl hg⟩)
    | some f =>
      cases hs : f.splitAt k with
      | error e =>
        have e' : (step s (.fs h k)).1 = s := by simp only [step, hg, hs]
        have hz : ∀ i, fplaced s i (.fs h k) = [] := by
          intro i; rw [fplaced_eq (op := .fs h k) rfl hg]; simp [fwriterIn]
        exact Or.inl (by rw [e']; exact ⟨rfl, hnw, KeepW.refl _, hz⟩)
      | ok r =>
        obtain ⟨a, o⟩ := r
        exact Or.inr (Or.inr (Or.inl ⟨h, k, f, a, o, rfl, hg, hs, by simp only [step, hg, hs, setAt]⟩))
  | fc h o =>
    cases hg : s.fws[h]? with
    | none =>
      have e : (step s (.fc h o)).1 = s := by simp only [step, hg]
      exact Or.inl (by rw [e]; exact ⟨rfl, hnw, KeepW.refl _, fplaced_invalid rfl hg⟩)
    | some f => exact Or.inr (Or.inr (Or.inr ⟨h, o, f, rfl, hg, by simp only [step, hg]⟩))

end Fbr.Xport
