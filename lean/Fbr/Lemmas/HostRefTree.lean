/-
  Fbr.Lemmas.HostRefTree — the export is closed in the reference FS: from a state in which every
  descriptor denotes an object of the export (`Good`), single-component `O_NOFOLLOW` lookups stay
  inside, and no call changes an object of the sentinel tree.
-/
import Fbr.HostRef
import Fbr.Lemmas.HostRef

namespace Fbr.Host.Ref

/-- closure of the export side (`sent o = false`) of the reference FS -/
structure Good (s : State) : Prop where
  /-- entries of an export directory are export objects -/
  children : ∀ d n nm c, s.nodes d = some n → s.sent d = false → n.entries.lookup nm = some c → s.sent c = false
  /-- ".." of an export directory other than the export root is an export object -/
  parent : ∀ d n, s.nodes d = some n → s.sent d = false → n.kind = .dir → d ≠ s.exportRoot → s.sent n.parent = false
  /-- the export root is not the host root (the export lies inside a larger tree) -/
  rootBelow : s.exportRoot ≠ s.hostRoot
  /-- the host root is outside -/
  hostRootOut : s.sent s.hostRoot = true
  /-- inode numbers not yet used are not sentinel objects -/
  fresh : ∀ o, s.next ≤ o → s.sent o = false ∧ s.nodes o = none
  /-- every open descriptor denotes an export object -/
  fds : ∀ f e, s.fds f = some e → s.sent e.obj = false
  /-- every file handle denotes an export object -/
  handles : ∀ h o, s.handles h = some o → s.sent o = false

theorem lookup1_inside (s : State) (g : Good s) (d : Obj) (name : Name) (o : Obj)
    (hd : s.sent d = false) (hroot : ¬ (d = s.exportRoot ∧ name = dotdot)) (h : lookup1 s d name = .ok o) :
    s.sent o = false := by
  unfold lookup1 at h
  split at h
  · cases h
  · rename_i n hn
    split at h
    · cases h
    · rename_i hk
      have hdir : n.kind = .dir := by simpa using hk
      split at h
      · cases h
      · split at h
        · cases h; exact hd
        · rename_i hdd
          split at h
          · rename_i hdd2
            have hnm : name = dotdot := by simpa using hdd2
            cases h
            split
            · exact hd
            · exact g.parent d n hn hd hdir (fun e => hroot ⟨e, hnm⟩)
          · split at h
            · cases h
            · split at h
              · rename_i c hc
                cases h
                exact g.children d n name _ hn hd hc
              · cases h

/-- one component, no following: `walk` is `lookup1` -/
theorem walk_single_nofollow (s : State) (d : Obj) (name : Name) (o : Obj)
    (h : walk 40 s d [name] false = .ok o) : lookup1 s d name = .ok o := by
  simp only [walk] at h
  split at h
  · cases h
  · rename_i o' ho'
    split at h
    · cases h
    · simp [walk] at h
      rw [← h]; exact ho'

end Fbr.Host.Ref

namespace Fbr.Host.Ref

theorem sent_ne (s : State) {x y : Obj} (hx : s.sent x = true) (hy : s.sent y = false) : x ≠ y := by
  intro h; subst h; rw [hx] at hy; cases hy

theorem createIn_frame (s : State) (g : Good s) (d : Obj) (dn : Node) (name : Name) (k : Kind) (perm rdev : Nat) (data : List UInt8)
    (hd : s.sent d = false) (x : Obj) (hx : s.sent x = true) :
    (createIn s d dn name k perm rdev data).1.nodes x = s.nodes x := by
  have h1 : x ≠ d := sent_ne s hx hd
  have h2 : x ≠ s.next := sent_ne s hx (g.fresh s.next (Nat.le_refl _)).1
  simp [createIn, setNode, h1, h2]

theorem fdObj_inside (s : State) (g : Good s) (f : Fd) (d : Obj) (h : fdObj s f = some d) : s.sent d = false := by
  unfold fdObj at h
  cases he : s.fds f with
  | none => simp [he] at h
  | some e => simp [he] at h; rw [← h]; exact g.fds f e he

theorem openObj_frame (s : State) (o : Obj) (fl : Nat) (ho : s.sent o = false) (x : Obj) (hx : s.sent x = true) :
    (openObj s o fl).2.nodes x = s.nodes x := by
  have h1 : x ≠ o := sent_ne s hx ho
  unfold openObj
  split
  · rfl
  · split
    · rfl
    · split
      · simp [newFd, setNode, h1]
      · rfl

theorem openObj_notrunc (s : State) (o : Obj) (fl : Nat) (h : has fl O_TRUNC = false) : (openObj s o fl).2.nodes = s.nodes := by
  unfold openObj
  split
  · rfl
  · split
    · rfl
    · simp only [h, Bool.false_and, Bool.false_eq_true, if_false]; rfl

theorem setTimes_frame (s : State) (o : Obj) (a b c d : Nat) (ho : s.sent o = false) (x : Obj) (hx : s.sent x = true) :
    (setTimes s o a b c d).2.nodes x = s.nodes x := by
  have h1 : x ≠ o := sent_ne s hx ho
  unfold setTimes
  split <;> first | rfl | simp [setNode, h1]

theorem chmodObj_frame (s : State) (o : Obj) (m : Nat) (ho : s.sent o = false) (x : Obj) (hx : s.sent x = true) :
    (chmodObj s o m).2.nodes x = s.nodes x := by
  have h1 : x ≠ o := sent_ne s hx ho
  unfold chmodObj
  repeat' split
  all_goals first | rfl | simp [setNode, h1]

theorem modNode_frame (s : State) (o : Obj) (f : Node → Node) (x : Obj) (h1 : x ≠ o) : (modNode s o f).nodes x = s.nodes x := by
  unfold modNode
  split <;> first | rfl | simp [setNode, h1]

/-- a successful rename check found its source among the entries of the old directory -/
theorem renameCheck_source (s : State) (nd : Obj) (odn ndn : Node) (on nn : Name) (fl : Nat) (c : Obj) (cn : Node)
    (h : renameCheck s nd odn ndn on nn fl = .ok (some (c, cn))) : odn.entries.lookup on = some c := by
  unfold renameCheck at h
  split at h
  · cases h
  split at h
  · cases h
  split at h
  · cases h
  split at h
  · cases h
  rename_i c' hc'
  split at h
  · cases h
  rename_i cn' hcn'
  dsimp only at h
  split at h
  · cases h
  split at h
  · cases h
  split at h
  · cases h
  split at h
  · cases h
  split at h
  · cases h
  split at h
  · split at h
    · cases h
    split at h
    · cases h
    split at h
    · cases h
    · cases h; exact hc'
  · cases h; exact hc'

/-- **The sentinel tree is never touched.**  From a `Good` state (all descriptors and handles denote
    export objects), no call of the reference FS changes an object of the sentinel tree — provided an
    `openat` that is not an exclusive creation does not truncate (the passthrough only issues
    `O_PATH` lookups and `O_CREAT|O_EXCL` creations through `openat`). -/
theorem sentinel_untouched (s : State) (g : Good s) (c : HCall)
    (hc : ∀ d n fl m, c = .openat d n fl m → (has fl O_CREAT && has fl O_EXCL) = true ∨ has fl O_TRUNC = false)
    (x : Obj) (hx : s.sent x = true) : (stepCore s c).2.nodes x = s.nodes x := by
  cases c
  case openat dfd name fl m =>
    simp only [stepCore]
    split
    · rfl
    · rename_i d hd
      have hdin := fdObj_inside s g dfd d hd
      split
      · split
        · rfl
        · show (newFd _ _ _).2.nodes x = _
          simp only [newFd]
          exact createIn_frame s g d _ name _ _ _ _ hdin x hx
      · rename_i hce
        have ht : has fl O_TRUNC = false := by
          rcases hc _ _ _ _ rfl with h | h
          · exact absurd h hce
          · exact h
        split
        · rfl
        · split
          · rfl
          · -- a non-truncating open changes no inode, whatever it resolved to
            rw [openObj_notrunc _ _ _ ht]
  case reopen f fl md =>
    simp only [stepCore]
    split
    · rfl
    · rename_i e he
      split
      · rfl
      · exact openObj_frame s e.obj fl (g.fds f e he) x hx
  case openByHandle h fl md =>
    simp only [stepCore]
    split
    · rfl
    · split
      · rfl
      · rename_i o ho
        split
        · rfl
        · split
          · rfl
          · split
            · rfl
            · exact openObj_frame s o fl (g.handles h o ho) x hx
  case nameToHandle f fl sz => exact congrFun (stepCore_readOnly s _ rfl) x
  case statx f n a b => exact congrFun (stepCore_readOnly s _ rfl) x
  case fstatat f n a => exact congrFun (stepCore_readOnly s _ rfl) x
  case mkdirat f n m =>
    simp only [stepCore]
    split
    · rfl
    · rename_i d hd
      split
      · rfl
      · exact createIn_frame s g d _ n _ _ _ _ (fdObj_inside s g f d hd) x hx
  case mknodat f n m r =>
    simp only [stepCore]
    split
    · rfl
    · rename_i d hd
      repeat' split
      all_goals first | rfl | exact createIn_frame s g d _ n _ _ _ _ (fdObj_inside s g f d hd) x hx
  case symlinkat t f n =>
    simp only [stepCore]
    split
    · rfl
    · rename_i d hd
      repeat' split
      all_goals first | rfl | exact createIn_frame s g d _ n _ _ _ _ (fdObj_inside s g f d hd) x hx
  case linkat f on nf n fl =>
    simp only [stepCore]
    split
    · rename_i o d ho hd
      have h1 : x ≠ o := sent_ne s hx (fdObj_inside s g f o ho)
      have h2 : x ≠ d := sent_ne s hx (fdObj_inside s g nf d hd)
      repeat' split
      all_goals first | rfl | simp [setNode, h1, h2]
    · rfl
  case unlinkat f n fl =>
    simp only [stepCore]
    split
    · rfl
    rename_i d hd
    have hdin := fdObj_inside s g f d hd
    have h1 : x ≠ d := sent_ne s hx hdin
    split
    · rfl
    rename_i dn hdn
    split
    · rfl
    split
    · rfl
    split
    · rfl
    split
    · rfl
    split
    · rfl
    split
    · rfl
    split
    · rfl
    rename_i c hcl
    have h2 : x ≠ c := sent_ne s hx (g.children d dn n c hdn hdin hcl)
    split
    · rfl
    repeat' split
    all_goals first | rfl | simp only [setNode, if_neg h1, if_neg h2]
  case renameat2 of on nf nn fl =>
    simp only [stepCore]
    split
    · rename_i od nd hod hnd
      have hodin := fdObj_inside s g of od hod
      have hndin := fdObj_inside s g nf nd hnd
      have h1 : x ≠ od := sent_ne s hx hodin
      have h2 : x ≠ nd := sent_ne s hx hndin
      split
      · rename_i odn ndn hodn hndn
        split
        · rfl
        · rfl
        · rename_i c cn hchk
          have hcl : odn.entries.lookup on = some c := renameCheck_source s nd odn ndn on nn fl c cn hchk
          have h3 : x ≠ c := sent_ne s hx (g.children od odn on c hodn hodin hcl)
          unfold renameApply
          cases htgt : List.lookup nn ndn.entries with
          | none =>
            simp only []
            split <;> simp only [modNode_frame _ _ _ x h1, modNode_frame _ _ _ x h2, modNode_frame _ _ _ x h3]
          | some t =>
            have h4 : x ≠ t := sent_ne s hx (g.children nd ndn nn t hndn hndin htgt)
            simp only []
            split <;> simp only [modNode_frame _ _ _ x h1, modNode_frame _ _ _ x h2, modNode_frame _ _ _ x h3, modNode_frame _ _ _ x h4]
      · rfl
    · rfl
  case readlinkat f n b => exact congrFun (stepCore_readOnly s _ rfl) x
  case fchmod f m =>
    simp only [stepCore]
    repeat' split
    all_goals first | rfl | skip
    rename_i e he _
    exact chmodObj_frame s e.obj m (g.fds f e he) x hx
  case fchmodatProc f m fl =>
    simp only [stepCore]
    split
    · rfl
    · rename_i o ho
      exact chmodObj_frame s o m (fdObj_inside s g f o ho) x hx
  case fchownat f n u gg fl =>
    simp only [stepCore]
    split
    · rfl
    · rename_i o ho
      have h1 : x ≠ o := sent_ne s hx (fdObj_inside s g f o ho)
      repeat' split
      all_goals first | rfl | simp [setNode, h1]
  case ftruncate f sz =>
    simp only [stepCore]
    split
    · rfl
    · rename_i e he
      have h1 : x ≠ e.obj := sent_ne s hx (g.fds f e he)
      repeat' split
      all_goals first | rfl | simp [setNode, h1]
  case futimens f a b c d =>
    simp only [stepCore]
    repeat' split
    all_goals first | rfl | skip
    rename_i e he _
    exact setTimes_frame s e.obj a b c d (g.fds f e he) x hx
  case utimensatProc f a b c d fl =>
    simp only [stepCore]
    split
    · rfl
    · rename_i o ho
      exact setTimes_frame s o a b c d (fdObj_inside s g f o ho) x hx
  case fallocate f m o l =>
    simp only [stepCore]
    split
    · rfl
    · rename_i e he
      have h1 : x ≠ e.obj := sent_ne s hx (g.fds f e he)
      repeat' split
      all_goals first | rfl | simp [setNode, h1]
  case lseek f o w => exact congrFun (stepCore_readOnly s _ rfl) x
  case preadv f l o => exact congrFun (stepCore_readOnly s _ rfl) x
  case pwritev f d o =>
    simp only [stepCore]
    split
    · rfl
    · rename_i e he
      have h1 : x ≠ e.obj := sent_ne s hx (g.fds f e he)
      repeat' split
      all_goals first | rfl | simp [setNode, h1]
  case fstatvfs f => exact congrFun (stepCore_readOnly s _ rfl) x
  case setxattr f n v fl =>
    simp only [stepCore]
    split
    · rfl
    · rename_i o ho
      have h1 : x ≠ o := sent_ne s hx (fdObj_inside s g f o ho)
      repeat' split
      all_goals first | rfl | simp [setNode, h1]
  case getxattr f n sz => exact congrFun (stepCore_readOnly s _ rfl) x
  case listxattr f sz => exact congrFun (stepCore_readOnly s _ rfl) x
  case removexattr f n =>
    simp only [stepCore]
    split
    · rfl
    · rename_i o ho
      have h1 : x ≠ o := sent_ne s hx (fdObj_inside s g f o ho)
      repeat' split
      all_goals first | rfl | simp [setNode, h1]
  case fsync f => exact congrFun (stepCore_readOnly s _ rfl) x
  case fdatasync f => exact congrFun (stepCore_readOnly s _ rfl) x
  case setfl f fl => exact congrFun (stepCore_readOnly s _ rfl) x
  case setresgid gg => exact congrFun (stepCore_readOnly s _ rfl) x
  case setresuid u => exact congrFun (stepCore_readOnly s _ rfl) x
  case capget => rfl
  case capset b => exact congrFun (stepCore_readOnly s _ rfl) x

end Fbr.Host.Ref
