/-
  Helper lemmas for C04: the fusedev theorems in the form used by `Fbr.Thm.C04`: start state of a
  /dev/fuse reply, invariant after any operation list, split header/data + commit = one record,
  and "no operation ever reallocates".
-/
import Fbr.Lemmas.XportFuseRun

namespace Fbr.Xport

/-- a /dev/fuse reply before the server touched it: one fresh `FuseDevWriter::new` over the
    buffer `[base, base+cap)` of region `R` (inside memory), no virtio-fs writer, nothing logged;
    any readers -/
def FStart (st : St) (R base cap : Nat) : Prop :=
  st.writers = [] ∧ st.fws = [FuseW.new R base cap] ∧ base + cap ≤ (st.w.mem.get R).length ∧ st.w.log = []

theorem fstart_finv {st : St} {R base cap : Nat} (h : FStart st R base cap) : FInv R base cap st := by
  obtain ⟨h1, h2, h3, h4⟩ := h
  refine ⟨h1, h3, ?_, ?_, by rw [h4]; intro a ha; cases ha⟩
  · intro f hf
    rw [h2] at hf
    simp only [List.mem_singleton] at hf
    subst hf
    exact ⟨Nat.zero_le _, rfl, Nat.le_refl _, Nat.le_refl _⟩
  · rw [h2]
    simp [fahead, ahead, FuseW.asBufs, FuseW.new, addrs]

theorem length_fahead (l : List FuseW) : (fahead l).length = (l.map FuseW.cap).sum := by
  induction l with
  | nil => rfl
  | cons f rest ih =>
    simp only [fahead, ahead, List.map_cons, List.flatMap_cons, List.length_append, List.sum_cons] at ih ⊢
    rw [ih]; simp [FuseW.asBufs, addrs]

/-- fresh writer, `split_at(k)`, then ANY operation list without further splits and commits, then
    `commit(second half)` on the first half -/
theorem fuse_split_commit_run {st : St} {R base cap : Nat} (h : FStart st R base cap) (k : Nat) (hk : k ≤ cap)
    (ops : List Op) (hns : ∀ i k', Op.fs i k' ∉ ops) (hnc : ∀ i o, Op.fc i o ∉ ops) :
    (exec (step st (.fs 0 k)).1 ops).w.fd = st.w.fd
    ∧ (step (exec (step st (.fs 0 k)).1 ops) (.fc 0 (some 1))).2.res
        = .ok (fplacedAll (step st (.fs 0 k)).1 0 ops ++ fplacedAll (step st (.fs 0 k)).1 1 ops).length
    ∧ (step (exec (step st (.fs 0 k)).1 ops) (.fc 0 (some 1))).1.w.fd
        = (if (fplacedAll (step st (.fs 0 k)).1 0 ops ++ fplacedAll (step st (.fs 0 k)).1 1 ops).isEmpty then st.w.fd
           else st.w.fd ++ [fplacedAll (step st (.fs 0 k)).1 0 ops ++ fplacedAll (step st (.fs 0 k)).1 1 ops]) := by
  have hf0 := fstart_finv h
  obtain ⟨h1, h2, h3, h4⟩ := h
  have hsp : (FuseW.new R base cap).splitAt k
      = .ok (⟨R, base, 0, k, true⟩, ⟨R, base + k, 0, cap - k, true⟩) := by
    unfold FuseW.splitAt FuseW.new
    have : ¬ (cap < k) := by omega
    simp [this]
  have e1 : (step st (.fs 0 k)).1 = { st with fws := [⟨R, base, 0, k, true⟩, ⟨R, base + k, 0, cap - k, true⟩] } := by
    simp only [step, h2, List.getElem?_cons_zero, hsp, setAt, List.set_cons_zero, List.cons_append, List.nil_append]
  have hf1 : FInv R base cap (step st (.fs 0 k)).1 := step_finv hf0 _
  have hb1 : AllBuf (step st (.fs 0 k)).1 := by
    rw [e1]; intro f hf
    simp only [List.mem_cons, List.mem_nil_iff, or_false] at hf
    rcases hf with rfl | rfl <;> rfl
  have hg0 : (step st (.fs 0 k)).1.fws[0]? = some ⟨R, base, 0, k, true⟩ := by rw [e1]; rfl
  have hg1 : (step st (.fs 0 k)).1.fws[1]? = some ⟨R, base + k, 0, cap - k, true⟩ := by rw [e1]; rfl
  have hw1 : (step st (.fs 0 k)).1.w = st.w := by rw [e1]
  obtain ⟨hbf, hfd⟩ := exec_allbuf ops hf1 hb1 hnc
  obtain ⟨ff0, hgf0, hbf0, _, s0⟩ := fuse_slice_run ops hf1 0 _ hg0 rfl (fun k' => hns 0 k')
  obtain ⟨ff1, hgf1, _, _, s1⟩ := fuse_slice_run ops hf1 1 _ hg1 rfl (fun k' => hns 1 k')
  rw [slice_len_zero ⟨R, base, 0, k, true⟩ _ rfl, List.nil_append] at s0
  rw [slice_len_zero ⟨R, base + k, 0, cap - k, true⟩ _ rfl, List.nil_append] at s1
  obtain ⟨r, hr, c1, c2, _⟩ := fcommit_spec ff0 (exec (step st (.fs 0 k)).1 ops).w (some ff1) hbf0
  simp only at hr
  rw [s0, s1] at hr
  subst hr
  rw [hfd, hw1] at c2 ⊢
  clear e1 hf1 hb1 hg0 hg1 hw1 hbf hfd s0 s1
  generalize (step st (.fs 0 k)).1 = s1 at *
  generalize exec s1 ops = sf at *
  refine ⟨rfl, ?_, ?_⟩
  · simp only [step, hgf0, Option.bind_some, hgf1]
    exact c1
  · simp only [step, hgf0, Option.bind_some, hgf1]
    exact c2

/-! ### no operation reallocates the borrowed buffer, `capacity - len` never underflows -/

/-- not one of the two outcomes that would mean the Vec left (or overran) the borrowed buffer -/
def Benign (e : IoErr) : Prop :=
  e ≠ .panic "realloc of borrowed buffer" ∧ e ≠ .panic "capacity - len underflow"

theorem fcheckAvail_benign {f : FuseW} {sz : Nat} (hok : f.ok) {e : IoErr} (h : f.checkAvail sz = .error e) : Benign e := by
  unfold FuseW.ok at hok
  unfold FuseW.checkAvail at h
  split at h
  · cases h; exact ⟨by decide, by decide⟩
  · have : ¬ f.len > f.cap := by omega
    simp only [this, if_false] at h
    split at h
    · cases h; exact ⟨by decide, by decide⟩
    · cases h

theorem readVectored_err (s : Script) (w : World) (bufs : List Seg) (at_ : Option Nat) {e : IoErr}
    (h : (s.readVectored w bufs at_).1 = .error e) : e = .other ∨ e = .interrupted := by
  have key : ∀ bufs', (s.sourceCall w bufs' at_).1 = .error e → e = .other ∨ e = .interrupted := by
    intro bufs'
    unfold Script.sourceCall Script.pop
    cases s.answers with
    | nil => intro h; cases h
    | cons a rest =>
      cases a with
      | err => intro h; cases h; exact Or.inl rfl
      | intr => intro h; cases h; exact Or.inr rfl
      | n k => intro h; cases h
  unfold Script.readVectored at h
  cases hk : s.kind with
  | full => rw [hk] at h; exact key _ h
  | dflt =>
    rw [hk] at h
    simp only at h
    cases at_ with
    | some o =>
      simp only at h
      cases bufs with
      | nil => cases h
      | cons b rest => exact key _ h
    | none =>
      simp only at h
      cases hf : bufs.find? (fun b => b.len ≠ 0) with
      | none => rw [hf] at h; cases h
      | some b => rw [hf] at h; exact key _ h

theorem benign_of_src {e : IoErr} (h : e = .other ∨ e = .interrupted) : Benign e := by
  rcases h with rfl | rfl <;> exact ⟨by decide, by decide⟩

theorem fwrite_benign (f : FuseW) (w : World) (data : Bytes) (hok : f.ok) {e : IoErr}
    (h : (FuseW.write f w data).res = .error e) : Benign e := by
  unfold FuseW.write at h
  cases hc : f.checkAvail data.length with
  | error e' => rw [hc] at h; cases h; exact fcheckAvail_benign hok hc
  | ok u =>
    rw [hc] at h
    have hfit := fcheckAvail_ok_any hc
    simp only at h
    split at h
    · obtain ⟨f1, w1, e1, _⟩ := extend_ok (f := f) (w := w) (data := data) hfit
      rw [e1] at h; cases h
    · cases h

theorem fwriteVectored_benign (f : FuseW) (w : World) (bufs : List Bytes) (hok : f.ok) {e : IoErr}
    (h : (FuseW.writeVectored f w bufs).res = .error e) : Benign e := by
  unfold FuseW.writeVectored at h
  cases hc : f.checkAvail (bufs.foldl (fun acc x => acc + x.length) 0) with
  | error e' => rw [hc] at h; cases h; exact fcheckAvail_benign hok hc
  | ok u =>
    rw [hc] at h
    have hfit := fcheckAvail_ok_any hc
    simp only at h
    split at h
    · obtain ⟨f1, w1, c, e1, _⟩ := extendAll_ok f w bufs 0 (by rw [foldl_len_eq_flatten] at hfit ⊢; omega)
      rw [e1] at h; cases h
    · split at h <;> cases h

theorem fwriteFrom_benign (f : FuseW) (w : World) (src : Script) (count : Nat) (at_ : Option Nat) (hok : f.ok) {e : IoErr}
    (h : (FuseW.writeFrom f w src count at_).res = .error e) : Benign e := by
  unfold FuseW.writeFrom at h
  cases hc : f.checkAvail count with
  | error e' => rw [hc] at h; cases h; exact fcheckAvail_benign hok hc
  | ok u =>
    rw [hc] at h
    simp only at h
    rcases hr : src.readVectored w [⟨f.region, f.base + f.len, count⟩] at_ with ⟨res, w1, s1⟩
    rw [hr] at h
    cases res with
    | error e' =>
      simp only at h; cases h
      exact benign_of_src (readVectored_err src w _ at_ (by rw [hr]))
    | ok cnt =>
      simp only at h
      split at h <;> cases h

theorem fwriteAllLoop_benign (fuel : Nat) (f : FuseW) (w : World) (src : Script) (count : Nat) (hok : f.ok)
    (hin : f.inMem w.mem) {e : IoErr} (h : (FuseW.writeAllLoop fuel f w src count).res = .error e) : Benign e := by
  induction fuel generalizing f w src count with
  | zero => simp only [FuseW.writeAllLoop] at h; cases h; exact ⟨by decide, by decide⟩
  | succ fuel ih =>
    unfold FuseW.writeAllLoop at h
    by_cases h0 : count = 0
    · simp only [h0, if_true] at h; cases h
    · simp only [h0, if_false] at h
      have hs := (fwriteFrom_fws f w src count none hok hin).1
      split at h
      · cases h; exact ⟨by decide, by decide⟩
      · exact ih _ _ _ _ hs.ok (hs.inMem hin) h
      · exact ih _ _ _ _ hs.ok (hs.inMem hin) h
      · rename_i e' _ hr
        cases h
        exact fwriteFrom_benign f w src count none hok hr

theorem fwriteAllFrom_benign (f : FuseW) (w : World) (src : Script) (count : Nat) (hok : f.ok)
    (hin : f.inMem w.mem) {e : IoErr} (h : (FuseW.writeAllFrom f w src count).res = .error e) : Benign e := by
  unfold FuseW.writeAllFrom at h
  cases hc : f.checkAvail count with
  | error e' => rw [hc] at h; cases h; exact fcheckAvail_benign hok hc
  | ok u => rw [hc] at h; exact fwriteAllLoop_benign _ f w src count hok hin h

/-! ### what a buffered operation appends is what it reports -/

theorem fwriterIn_reported (f : FuseW) (w : World) (hb : f.buffered = true) (hok : f.ok) (hin : f.inMem w.mem) (h : Nat) :
    (∀ data n, (FuseW.write f w data).res = .ok n → n = data.length ∧ fwriterIn f w (.fw h data) = data)
    ∧ (∀ data e, (FuseW.write f w data).res = .error e → fwriterIn f w (.fw h data) = [])
    ∧ (∀ datas n, (FuseW.writeVectored f w datas).res = .ok n →
        n = datas.flatten.length ∧ fwriterIn f w (.fv h datas) = datas.flatten)
    ∧ (∀ datas e, (FuseW.writeVectored f w datas).res = .error e → fwriterIn f w (.fv h datas) = [])
    ∧ (∀ count at_ sc n, (FuseW.writeFrom f w sc count at_).res = .ok n →
        fwriterIn f w (.ff h count at_ sc) = patBytes sc.seed (at_.getD sc.pos) n)
    ∧ (∀ count at_ sc e, (FuseW.writeFrom f w sc count at_).res = .error e → fwriterIn f w (.ff h count at_ sc) = []) := by
  refine ⟨?_, ?_, ?_, ?_, ?_, ?_⟩
  · intro data n hn
    obtain ⟨e1, e2⟩ := (fwrite_fwc f w data hb hok hin).2.1 n hn
    simp only [fwriterIn]
    rw [e2, e1, List.take_length]
    exact ⟨rfl, rfl⟩
  · intro data e he
    simp only [fwriterIn]
    rw [(fwrite_fwc f w data hb hok hin).2.2 e he, List.take_zero]
  · intro datas n hn
    obtain ⟨e1, e2⟩ := (fwriteVectored_fwc f w datas hb hok hin).2.1 n hn
    simp only [fwriterIn]
    rw [e2, e1, List.take_length]
    exact ⟨rfl, rfl⟩
  · intro datas e he
    simp only [fwriterIn]
    rw [(fwriteVectored_fwc f w datas hb hok hin).2.2 e he, List.take_zero]
  · intro count at_ sc n hn
    obtain ⟨_, _, _, _, _, dok, _⟩ := fwriteFrom_fws f w sc count at_ hok hin
    simp only [fwriterIn]
    rw [dok n hn]
  · intro count at_ sc e he
    obtain ⟨_, _, _, _, _, _, derr⟩ := fwriteFrom_fws f w sc count at_ hok hin
    simp only [fwriterIn]
    rw [derr e he]; rfl

/-- a 64-byte /dev/fuse buffer at offset 64 of region 2, one fresh writer, one reader over a
    request buffer in region 1 -/
def exampleFuse : St :=
  { w := { p := 4096, mem := ⟨[(1, List.replicate 40 7), (2, List.replicate 192 0)]⟩, dirty := [], log := [], fd := [] },
    readers := [{ segs := [⟨1, 0, 40⟩], consumed := 0 }],
    writers := [],
    fws := [FuseW.new 2 64 64] }

end Fbr.Xport
