/-
  Helper lemmas for C04: the fusedev theorems in the form used by `Fbr.Thm.C04`: start state of a
  /dev/fuse reply, invariant after any operation list, split header/data + commit = one record,
  and "no operation ever reallocates".
-/
import Fbr.Lemmas.XportFuseRun

namespace Fbr.Xport

/-- a /dev/fuse reply before the server touched it: one fresh `FuseDevWriter::new` over the
    buffer `[base, base+cap)` of region `R` (inside memory), no virtio-fs writer, nothing logged;
    any readers -/
def FStart (st : St) (R base cap : Nat) : Prop :=
  st.writers = [] ∧ st.fws = [FuseW.new R base cap] ∧ base + cap ≤ (st.w.mem.get R).length ∧ st.w.log = []

theorem fstart_finv {st : St} {R base cap : Nat} (h : FStart st R base cap) : FInv R base cap st := by
  obtain ⟨h1, h2, h3, h4⟩ := h
  refine ⟨h1, h3, ?_, ?_, by rw [h4]; intro a ha; cases ha⟩
  · intro f hf
    rw [h2] at hf
    simp only [List.mem_singleton] at hf
    subst hf
    exact ⟨Nat.zero_le _, rfl, Nat.le_refl _, Nat.le_refl _⟩
  · rw [h2]
    simp [fahead, ahead, FuseW.asBufs, FuseW.new, addrs]

theorem length_fahead (l : List FuseW) : (fahead l).length = (l.map FuseW.cap).sum := by
  induction l with
  | nil => rfl
  | cons f rest ih =>
    simp only [fahead, ahead, List.map_cons, List.flatMap_cons, List.length_append, List.sum_cons] at ih ⊢
    rw [ih]; simp [FuseW.asBufs, addrs]

/-- fresh writer, `split_at(k)`, then ANY operation list without further splits and commits, then
    `commit(second half)` on the first half -/
theorem fuse_split_commit_run {st : St} {R base cap : Nat} (h : FStart st R base cap) (k : Nat) (hk : k ≤ cap)
    (ops : List Op) (hns : ∀ i k', Op.fs i k' ∉ ops) (hnc : ∀ i o, Op.fc i o ∉ ops) :
    (exec (step st (.fs 0 k)).1 ops).w.fd = st.w.fd
    ∧ (step (exec (step st (.fs 0 k)).1 ops) (.fc 0 (some 1))).2.res
        = .ok (fplacedAll (step st (.fs 0 k)).1 0 ops ++ fplacedAll (step st (.fs 0 k)).1 1 ops).length
    ∧ (step (exec (step st (.fs 0 k)).1 ops) (.fc 0 (some 1))).1.w.fd
        = (if (fplacedAll (step st (.fs 0 k)).1 0 ops ++ fplacedAll (step st (.fs 0 k)).1 1 ops).isEmpty then st.w.fd
           else st.w.fd ++ [fplacedAll (step st (.fs 0 k)).1 0 ops ++ fplacedAll (step st (.fs 0 k)).1 1 ops]) := by
  have hf0 := fstart_finv h
  obtain ⟨h1, h2, h3, h4⟩ := h
  have hsp : (FuseW.new R base cap).splitAt k
      = .ok (⟨R, base, 0, k, true⟩, ⟨R, base + k, 0, cap - k, true⟩) := by
    unfold FuseW.splitAt FuseW.new
    have : ¬ (cap < k) := by omega
    simp [this]
  have e1 : (step st (.fs 0 k)).1 = { st with fws := [⟨R, base, 0, k, true⟩, ⟨R, base + k, 0, cap - k, true⟩] } := by
    simp only [step, h2, List.getElem?_cons_zero, hsp, setAt, List.set_cons_zero, List.cons_append, List.nil_append]
  have hf1 : FInv R base cap (step st (.fs 0 k)).1 := step_finv hf0 _
  have hb1 : AllBuf (step st (.fs 0 k)).1 := by
    rw [e1]; intro f hf
    simp only [List.mem_cons, List.mem_nil_iff, or_false] at hf
    rcases hf with rfl | rfl <;> rfl
  have hg0 : (step st (.fs 0 k)).1.fws[0]? = some ⟨R, base, 0, k, true⟩ := by rw [e1]; rfl
  have hg1 : (step st (.fs 0 k)).1.fws[1]? = some ⟨R, base + k, 0, cap - k, true⟩ := by rw [e1]; rfl
  have hw1 : (step st (.fs 0 k)).1.w = st.w := by rw [e1]
  obtain ⟨hbf, hfd⟩ := exec_allbuf ops hf1 hb1 hnc
  obtain ⟨ff0, hgf0, hbf0, _, s0⟩ := fuse_slice_run ops hf1 0 _ hg0 rfl (fun k' => hns 0 k')
  obtain ⟨ff1, hgf1, _, _, s1⟩ := fuse_slice_run ops hf1 1 _ hg1 rfl (fun k' => hns 1 k')
  rw [slice_len_zero ⟨R, base, 0, k, true⟩ _ rfl, List.nil_append] at s0
  rw [slice_len_zero ⟨R, base + k, 0, cap - k, true⟩ _ rfl, List.nil_append] at s1
  obtain ⟨r, hr, c1, c2, _⟩ := fcommit_spec ff0 (exec (step st (.fs 0 k)).1 ops).w (some ff1) hbf0
  simp only at hr
  rw [s0, s1] at hr
  subst hr
  rw [hfd, hw1] at c2 ⊢
  clear e1 hf1 hb1 hg0 hg1 hw1 hbf hfd s0 s1
  generalize (step st (.fs 0 k)).1 = s1 at *
  generalize exec s1 ops = sf at *
  refine ⟨rfl, ?_, ?_⟩
  · simp only [step, hgf0, Option.bind_some, hgf1]
    exact c1
  · simp only [step, hgf0, Option.bind_some, hgf1]
    exact c2

/-! ### no operation reallocates the borrowed buffer, `capacity - len` never underflows -/

/-- not one of the two outcomes that would mean the Vec left (or overran) the borrowed buffer -/
def Benign (e : IoErr) : Prop :=
  e ≠ .panic "realloc of borrowed buffer" ∧ e ≠ .panic "capacity - len underflow"

theorem fcheckAvail_benign {f : FuseW} {sz : Nat} (hok : f.ok) {e : IoErr} (h : f.checkAvail sz = .error e) : Benign e := by
  unfold FuseW.ok at hok
  unfold FuseW.checkAvail at h
  split at h
  · cases h; exact ⟨by decide, by decide⟩
  · have : ¬ f.len > f.cap := by omega
    simp only [this, if_false] at h
    split at h
    · cases h; exact ⟨by decide, by decide⟩
    · cases h

theorem readVectored_err (s : Script) (w : World) (bufs : List Seg) (at_ : Option Nat) {e : IoErr}
    (h : (s.readVectored w bufs at_).1 = .error e) : e = .other ∨ e = .interrupted := by
  have key : ∀ bufs', (s.sourceCall w bufs' at_).1 = .error e → e = .other ∨ e = .interrupted := by
    intro bufs'
    unfold Script.sourceCall Script.pop
    cases s.answers with
    | nil => intro h; cases h
    | cons a rest =>
      cases a with
      | err => intro h; cases h; exact Or.inl rfl
      | intr => intro h; cases h; exact Or.inr rfl
      | n k => intro h; cases h
  unfold Script.readVectored at h
  cases hk : s.kind with
  | full => rw [hk] at h; exact key _ h
  | dflt =>
    rw [hk] at h
    simp only at h
    cases at_ with
    | some o =>
      simp only at h
      cases bufs with
      | nil => cases h
      | cons b rest => exact key _ h
    | none =>
      simp only at h
      cases hf : bufs.find? (fun b => b.len ≠ 0) with
      | none => rw [hf] at h; cases h
      | some b => rw [hf] at h; exact key _ h

theorem benign_of_src {e : IoErr} (h : e = .other ∨ e = .interrupted) : Benign e := by
  rcases h with rfl | rfl <;> exact ⟨by decide, by decide⟩

theorem fwrite_benign (f : FuseW) (w : World) (data : Bytes) (hok : f.ok) {e : IoErr}
    (h : (FuseW.write f w data).res = .error e) : Benign e := by
  unfold FuseW.write at h
  cases hc : f.checkAvail data.length with
  | error e' => rw [hc] at h; cases h; exact fcheckAvail_benign hok hc
  | ok u =>
    rw [hc] at h
    have hfit := fcheckAvail_ok_any hc
    simp only at h
    split at h
    · obtain ⟨f1, w1, e1, _⟩ := extend_ok (f := f) (w := w) (data := data) hfit
      rw [e1] at h; cases h
    · cases h

theorem fwriteVectored_benign (f : FuseW) (w : World) (bufs : List Bytes) (hok : f.ok) {e : IoErr}
    (h : (FuseW.writeVectored f w bufs).res = .error e) : Benign e := by
  unfold FuseW.writeVectored at h
  cases hc : f.checkAvail (bufs.foldl (fun acc x => acc + x.length) 0) with
  | error e' => rw [hc] at h; cases h; exact fcheckAvail_benign hok hc
  | ok u =>
    rw [hc] at h
    have hfit := fcheckAvail_ok_any hc
    simp only at h
    split at h
    · obtain ⟨f1, w1, c, e1, _⟩ := extendAll_ok f w bufs 0 (by rw [foldl_len_eq_flatten] at hfit ⊢; omega)
      rw [e1] at h; cases h
    · split at h <;> cases h

theorem fwriteFrom_benign (f : FuseW) (w : World) (src : Script) (count : Nat) (at_ : Option Nat) (hok : f.ok) {e : IoErr}
    (h : (FuseW.writeFrom f w src count at_).res = .error e) : Benign e := by
  unfold FuseW.writeFrom at h
  cases hc : f.checkAvail count with
  | error e' => rw [hc] at h; cases h; exact fcheckAvail_benign hok hc
  | ok u =>
    rw [hc] at h
    simp only at h
    rcases hr : src.readVectored w [⟨f.region, f.base + f.len, count⟩] at_ with ⟨res, w1, s1⟩
    rw [hr] at h
    cases res with
    | error e' =>
      simp only at h; cases h
      exact benign_of_src (readVectored_err src w _ at_ (by rw [hr]))
    | ok cnt =>
      simp only at h
      split at h <;> cases h

theorem fwriteAllLoop_benign (fuel : Nat) (f : FuseW) (w : World) (src : Script) (count : Nat) (hok : f.ok)
    (hin : f.inMem w.mem) {e : IoErr} (h : (FuseW.writeAllLoop fuel f w src count).res = .error e) : Benign e := by
  induction fuel generalizing f w src count with
  | zero => simp only [FuseW.writeAllLoop] at h; cases h; exact ⟨by decide, by decide⟩
  | succ fuel ih =>
    unfold FuseW.writeAllLoop at h
    by_cases h0 : count = 0
    · simp only [h0, if_true] at h; cases h
    · simp only [h0, if_false] at h
      have hs := (fwriteFrom_fws f w src count none hok hin).1
      split at h
      · cases h; exact ⟨by decide, by decide⟩
      · exact ih _ _ _ _ hs.ok (hs.inMem hin) h
      · exact ih _ _ _ _ hs.ok (hs.inMem hin) h
      · rename_i e' _ hr
        cases h
        exact fwriteFrom_benign f w src count none hok hr

theorem fwriteAllFrom_benign (f : FuseW) (w : World) (src : Script) (count : Nat) (hok : f.ok)
    (hin : f.inMem w.mem) {e : IoErr} (h : (FuseW.writeAllFrom f w src count).res = .error e) : Benign e := by
  unfold FuseW.writeAllFrom at h
  cases hc : f.checkAvail count with
  | error e' => rw [hc] at h; cases h; exact fcheckAvail_benign hok hc
  | ok u => rw [hc] at h; exact fwriteAllLoop_benign _ f w src count hok hin h

/-! ### what a buffered operation appends is what it reports -/

theorem fwriterIn_reported (f : FuseW) (w : World) (hb : f.buffered = true) (hok : f.ok) (hin : f.inMem w.mem) (h : Nat) :
    (∀ data n, (FuseW.write f w data).res = .ok n → n = data.length ∧ fwriterIn f w (.fw h data) = data)
    ∧ (∀ data e, (FuseW.write f w data).res = .error e → fwriterIn f w (.fw h data) = [])
    ∧ (∀ datas n, (FuseW.writeVectored f w datas).res = .ok n →
        n = datas.flatten.length ∧ fwriterIn f w (.fv h datas) = datas.flatten)
    ∧ (∀ datas e, (FuseW.writeVectored f w datas).res = .error e → fwriterIn f w (.fv h datas) = [])
    ∧ (∀ count at_ sc n, (FuseW.writeFrom f w sc count at_).res = .ok n →
        fwriterIn f w (.ff h count at_ sc) = patBytes sc.seed (at_.getD sc.pos) n)
    ∧ (∀ count at_ sc e, (FuseW.writeFrom f w sc count at_).res = .error e → fwriterIn f w (.ff h count at_ sc) = []) := by
  refine ⟨?_, ?_, ?_, ?_, ?_, ?_⟩
  · intro data n hn
    obtain ⟨e1, e2⟩ := (fwrite_fwc f w data hb hok hin).2.1 n hn
    simp only [fwriterIn]
    rw [e2, e1, List.take_length]
    exact ⟨rfl, rfl⟩
  · intro data e he
    simp only [fwriterIn]
    rw [(fwrite_fwc f w data hb hok hin).2.2 e he, List.take_zero]
  · intro datas n hn
    obtain ⟨e1, e2⟩ := (fwriteVectored_fwc f w datas hb hok hin).2.1 n hn
    simp only [fwriterIn]
    rw [e2, e1, List.take_length]
    exact ⟨rfl, rfl⟩
  · intro datas e he
    simp only [fwriterIn]
    rw [(fwriteVectored_fwc f w datas hb hok hin).2.2 e he, List.take_zero]
  · intro count at_ sc n hn
    obtain ⟨_, _, _, _, _, dok, _⟩ := fwriteFrom_fws f w sc count at_ hok hin
    simp only [fwriterIn]
    rw [dok n hn]
  · intro count at_ sc e he
    obtain ⟨_, _, _, _, _, _, derr⟩ := fwriteFrom_fws f w sc count at_ hok hin
    simp only [fwriterIn]
    rw [derr e he]; rfl

/-! ### a request that does not fit is refused and nothing happens -/

theorem fcheckAvail_overflow {f : FuseW} {sz : Nat} (hok : f.ok) (hmode : f.buffered = true ∨ f.len = 0)
    (h : f.cap - f.len < sz) : f.checkAvail sz = .error .invalidData := by
  unfold FuseW.ok at hok
  unfold FuseW.checkAvail FuseW.availableBytes
  have h1 : ¬ ¬ (f.buffered = true ∨ f.len = 0) := by simp [hmode]
  have h2 : ¬ f.len > f.cap := by omega
  simp only [h1, h2, h, if_false, if_true]

theorem fuse_overflow (f : FuseW) (w : World) (hok : f.ok) (hmode : f.buffered = true ∨ f.len = 0) :
    (∀ data : Bytes, f.cap - f.len < data.length →
        (FuseW.write f w data).res = .error .invalidData ∧ (FuseW.write f w data).f = f ∧ (FuseW.write f w data).w = w)
    ∧ (∀ bufs : List Bytes, f.cap - f.len < bufs.flatten.length →
        (FuseW.writeVectored f w bufs).res = .error .invalidData ∧ (FuseW.writeVectored f w bufs).f = f
          ∧ (FuseW.writeVectored f w bufs).w = w)
    ∧ (∀ src count at_, f.cap - f.len < count →
        (FuseW.writeFrom f w src count at_).res = .error .invalidData ∧ (FuseW.writeFrom f w src count at_).f = f
          ∧ (FuseW.writeFrom f w src count at_).w = w ∧ (FuseW.writeFrom f w src count at_).aux = src)
    ∧ (∀ src count, f.cap - f.len < count →
        (FuseW.writeAllFrom f w src count).res = .error .invalidData ∧ (FuseW.writeAllFrom f w src count).f = f
          ∧ (FuseW.writeAllFrom f w src count).w = w ∧ (FuseW.writeAllFrom f w src count).aux = src) := by
  refine ⟨?_, ?_, ?_, ?_⟩
  · intro data h
    have hc := fcheckAvail_overflow hok hmode h
    unfold FuseW.write
    rw [hc]; exact ⟨rfl, rfl, rfl⟩
  · intro bufs h
    have hsz : bufs.foldl (fun acc x => acc + x.length) 0 = bufs.flatten.length := by
      rw [foldl_len_eq_flatten]; omega
    have hc := fcheckAvail_overflow (sz := bufs.foldl (fun acc x => acc + x.length) 0) hok hmode (by rw [hsz]; exact h)
    unfold FuseW.writeVectored
    rw [hc]; exact ⟨rfl, rfl, rfl⟩
  · intro src count at_ h
    have hc := fcheckAvail_overflow hok hmode h
    unfold FuseW.writeFrom
    rw [hc]; exact ⟨rfl, rfl, rfl, rfl⟩
  · intro src count h
    have hc := fcheckAvail_overflow hok hmode h
    unfold FuseW.writeAllFrom
    rw [hc]; exact ⟨rfl, rfl, rfl, rfl⟩

/-! ### an unbuffered (never split) writer sends each write straight to the descriptor -/

theorem fwriteFrom_unbuf_record (f : FuseW) (w : World) (src : Script) (count : Nat) (at_ : Option Nat)
    (hb : f.buffered = false) (n : Nat) (h : (FuseW.writeFrom f w src count at_).res = .ok n) :
    (FuseW.writeFrom f w src count at_).w.fd
      = w.fd ++ [readSeg (FuseW.writeFrom f w src count at_).w.mem ⟨f.region, f.base, n⟩] := by
  obtain ⟨n0, _, _, ffd, _⟩ := readVectored_fok src w [⟨f.region, f.base + f.len, count⟩] at_
  have hnb : ¬ (f.buffered = true) := by rw [hb]; simp
  unfold FuseW.writeFrom at h ⊢
  cases hc : f.checkAvail count with
  | error e => rw [hc] at h; cases h
  | ok u =>
    rw [hc] at h
    simp only at h ⊢
    rcases hr : src.readVectored w [⟨f.region, f.base + f.len, count⟩] at_ with ⟨res, w1, s1⟩
    rw [hr] at h ffd
    simp only at ffd
    cases res with
    | error e => cases h
    | ok cnt =>
      simp only at h ⊢
      rw [if_neg hnb] at h ⊢
      simp only [Except.ok.injEq] at h
      subst h
      simp only [World.fdWrite, ffd]

theorem fuse_unbuffered (f : FuseW) (w : World) (hb : f.buffered = false) (hl : f.len = 0) (hin : f.inMem w.mem) :
    (∀ data : Bytes, data.length ≤ f.cap →
        (FuseW.write f w data).res = .ok data.length ∧ (FuseW.write f w data).w.fd = w.fd ++ [data]
          ∧ (FuseW.write f w data).w.mem = w.mem)
    ∧ (∀ bufs : List Bytes, bufs ≠ [] → bufs.flatten.length ≤ f.cap →
        (FuseW.writeVectored f w bufs).res = .ok bufs.flatten.length
          ∧ (FuseW.writeVectored f w bufs).w.fd = (if bufs.flatten.isEmpty then w.fd else w.fd ++ [bufs.flatten])
          ∧ (FuseW.writeVectored f w bufs).w.mem = w.mem)
    ∧ (∀ src count at_ n, (FuseW.writeFrom f w src count at_).res = .ok n →
        (FuseW.writeFrom f w src count at_).w.fd = w.fd ++ [patBytes src.seed (at_.getD src.pos) n]) := by
  have hok : f.ok := by unfold FuseW.ok; omega
  have hnb : ¬ (f.buffered = true) := by rw [hb]; simp
  have hca : ∀ sz, sz ≤ f.cap → f.checkAvail sz = .ok () := by
    intro sz hsz
    unfold FuseW.checkAvail FuseW.availableBytes
    have h1 : ¬ ¬ (f.buffered = true ∨ f.len = 0) := by simp [hl]
    have h2 : ¬ f.len > f.cap := by omega
    have h3 : ¬ sz > f.cap - f.len := by omega
    simp only [h1, h2, h3, if_false]
  refine ⟨?_, ?_, ?_⟩
  · intro data hfit
    unfold FuseW.write
    rw [hca _ hfit]
    simp only []
    rw [if_neg hnb]
    exact ⟨rfl, rfl, rfl⟩
  · intro bufs hne hfit
    have hsz : bufs.foldl (fun acc x => acc + x.length) 0 = bufs.flatten.length := by
      rw [foldl_len_eq_flatten]; omega
    have hfl : ∀ (l : List Bytes) (acc : Bytes), l.foldl (· ++ ·) acc = acc ++ l.flatten := by
      intro l
      induction l with
      | nil => intro acc; simp
      | cons d rest ih => intro acc; simp only [List.foldl, ih, List.flatten_cons, List.append_assoc]
    have he : bufs.isEmpty = false := by cases bufs <;> simp_all
    unfold FuseW.writeVectored
    rw [hsz, hca _ hfit]
    simp only []
    rw [if_neg hnb]
    simp only [he, Bool.false_eq_true, if_false, hfl, List.nil_append]
    refine ⟨trivial, ?_, ?_⟩
    · unfold World.fdWritev; split <;> simp_all
    · unfold World.fdWritev; split <;> rfl
  · intro src count at_ n hn
    rw [fwriteFrom_unbuf_record f w src count at_ hb n hn]
    obtain ⟨hs, hc, _, _, _, dok, _⟩ := fwriteFrom_fws f w src count at_ hok hin
    have hd := dok n hn
    rw [hd, hl, Nat.add_zero] at hc
    have hfit := hs.fits
    rw [hd, hl] at hfit
    unfold FuseW.inMem at hin
    have i1 : InMem (FuseW.writeFrom f w src count at_).w.mem (segAddrs ⟨f.region, f.base, n⟩) := by
      intro a ha; rw [mem_segAddrs] at ha; rw [ha.1, hs.len]; simp only at ha ⊢; omega
    rw [readSeg_eq_map _ _ i1, hc]

/-- a 64-byte /dev/fuse buffer at offset 64 of region 2, one fresh writer, one reader over a
    request buffer in region 1 -/
def exampleFuse : St :=
  { w := { p := 4096, mem := ⟨[(1, List.replicate 40 7), (2, List.replicate 192 0)]⟩, dirty := [], log := [], fd := [] },
    readers := [{ segs := [⟨1, 0, 40⟩], consumed := 0 }],
    writers := [],
    fws := [FuseW.new 2 64 64] }

end Fbr.Xport
