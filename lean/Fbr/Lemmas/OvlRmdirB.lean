/-
  rmdir, part B: `rmDirPrep` (load, count, clear the upper whiteouts) and the rest of `do_rm` for a
  directory.  Between `empty_node_directory` and the removal of the directory itself the forest
  is NOT a valid cache of the disk (a lower entry may show through where an upper whiteout was
  just deleted); `RmReady` describes that window exactly, relative to the consistent state the
  clearing started from, and the end of `do_rm` re-establishes the invariant from it.
-/
import Fbr.Ovl
import Fbr.Lemmas.OvlHoare
import Fbr.Lemmas.OvlSim
import Fbr.Lemmas.OvlSimLookup
import Fbr.Lemmas.OvlSimRO
import Fbr.Lemmas.OvlLocal
import Fbr.Lemmas.OvlMut
import Fbr.Lemmas.OvlMutA
import Fbr.Lemmas.OvlMutB
import Fbr.Lemmas.OvlMutC
import Fbr.Lemmas.OvlMutP1
import Fbr.Lemmas.OvlMutP3
import Fbr.Lemmas.OvlMutP4
import Fbr.Lemmas.OvlEval
import Fbr.Lemmas.OvlCopyUp
import Fbr.Lemmas.OvlOps
import Fbr.Lemmas.OvlCreate
import Fbr.Lemmas.OvlRm
import Fbr.Lemmas.OvlRmdirA

namespace Fbr.Ovl

/-- `lower_entry_exists` only reads lower layers -/
theorem lowerEntryExists_congr {s : St} (hc : Consistent s) {p : Path} {pm : MNode} (hpm : s.mem p = some pm)
    (d' : Disk) (hlow : d'.lowers = s.disk.lowers) (n : Name) :
    lowerEntryExists d' pm n = lowerEntryExists s.disk pm n := by
  unfold lowerEntryExists
  have : (pm.reals.filter (!·.inUpper)).filterMap (lookupChild d' · n) =
      (pm.reals.filter (!·.inUpper)).filterMap (lookupChild s.disk · n) := by
    apply filterMap_congr'
    intro r hr
    obtain ⟨hrm, hru⟩ := List.mem_filter.1 hr
    have hsh := reals_shape hc hpm r hrm
    have hl : r.layer ≠ 0 := by
      intro h0
      have := hsh.2.1
      rw [h0] at this
      simp [this] at hru
    unfold lookupChild
    rw [nodeAt_of_lowers hlow hl]
  rw [this]

/-- scanning a node for a child only reads the upper layer at the node's path and at the child's -/
theorem localExp_setLayer_congr {s : St} (hc : Consistent s) {p : Path} {pm : MNode} (hpm : s.mem p = some pm)
    (n : Name) (A B : Layer) (h1 : A p = B p) (h2 : A (n :: p) = B (n :: p)) :
    localExp (s.disk.setLayer 0 A) pm n = localExp (s.disk.setLayer 0 B) pm n := by
  apply localExp_agree
  intro r hr
  have hp := (reals_shape hc hpm r hr).1
  rw [hp, nodeAt_setLayer0, nodeAt_setLayer0, nodeAt_setLayer0, nodeAt_setLayer0]
  split
  · rw [h1, h2]; exact ⟨sameShape_refl _, sameShape_refl _⟩
  · exact ⟨sameShape_refl _, sameShape_refl _⟩

/-- a node whose first real inode is a directory is not a whiteout node -/
theorem dir_not_whiteout {s : St} (hc : Consistent s) {p : Path} {m : MNode} (hm : s.mem p = some m)
    {r : Real} {rest : List Real} (hr : m.reals = r :: rest) (hd : (s.disk.statReal r).isDir = true) :
    m.whiteout = false := by
  have hw := hc.wh p m hm
  have hsh := reals_shape hc hm r (by simp [hr])
  rw [hw, hr]
  simp only [headWhiteout]
  rw [hsh.2.2]
  have : s.disk.statReal r = s.disk.nodeAt r.layer p := by simp [Disk.statReal, hsh.1]
  rw [← this]
  exact isWhiteout_not_dir hd

/-- a successful `load_directory` leaves the node loaded -/
theorem loadDirectory_ok_loaded {p : Path} {s s' : St} (h : loadDirectory p s = .ok () s') :
    ∃ m, s'.mem p = some m ∧ m.loaded = true := by
  unfold loadDirectory at h
  cases hm : s.mem p with
  | none => rw [bind_err (getNode_err hm)] at h; cases h
  | some m =>
    rw [bind_ok (getNode_ok hm)] at h
    by_cases hl : m.loaded = true
    · simp only [hl, if_true] at h
      cases h
      exact ⟨m, hm, hl⟩
    · simp only [hl, Bool.false_eq_true, if_false] at h
      cases hst : nodeStat m s with
      | err e s1 => rw [bind_err hst] at h; cases h
      | ok st s1 =>
        rw [bind_ok hst] at h
        by_cases hd : st.isDir = true
        · simp only [hd, Bool.not_true, Bool.false_eq_true, if_false] at h
          simp only [bind, M.bind, getSt, modifySt, setNode] at h
          cases h
          simp [Mem.set]
        · simp only [hd, Bool.not_false, if_true] at h
          cases h

/-- the state in which `do_rm` of a directory continues after `rmDirPrep`: `s0` is the (consistent)
    state after loading the directory; either nothing was touched (the directory has no upper
    real inode) or the upper directory has been emptied -/
def RmReady (d0 : Disk) (pp : Path) (n : Name) (s' : St) : Prop :=
  ∃ (s0 : St) (m : MNode) (r : Real) (rest : List Real),
    Consistent s0 ∧ s0.disk = d0 ∧ s0.mem (n :: pp) = some m ∧ m.loaded = true ∧ m.reals = r :: rest ∧
    (s0.disk.statReal r).isDir = true ∧
    ((m.inUpper = false ∧ s'.disk = s0.disk ∧ s'.mem = s0.mem) ∨
     (m.inUpper = true ∧ ∃ L Lt, s0.disk.upper = some L ∧ EmptyInv s0 L (n :: pp) m s' Lt ∧
        ∀ c, (Lt (c :: n :: pp)).isAbsent = true))

theorem countKids_eval {s : St} {p : Path} {m : MNode} (hm : s.mem p = some m) :
    countKids p s = .ok (((m.kids.filterMap fun n => s.mem (n :: p)).filter (!·.whiteout)).length,
      ((m.kids.filterMap fun n => s.mem (n :: p)).filter (·.whiteout)).length) s := by
  simp [countKids, hm]

theorem rmDirPrep_spec (pp : Path) (n : Name) (s : St) (hc : Consistent s) :
    Outcome (rmDirPrep (n :: pp) s) (fun _ s' => RmReady s.disk pp n s') (CD s.disk) := by
  unfold rmDirPrep
  have hld := loadDirectory_cd s.disk (n :: pp) s ⟨hc, rfl⟩
  cases hres : loadDirectory (n :: pp) s with
  | err e s1 => rw [bind_err hres]; exact hld.2 e s1 hres
  | ok u s1 =>
    have hcd1 : CD s.disk s1 := hld.1 u s1 hres
    have hc1 : Consistent s1 := hcd1.1
    have hd1 : s1.disk = s.disk := hcd1.2
    obtain ⟨m, hm, hlo⟩ := loadDirectory_ok_loaded hres
    rw [bind_ok hres, bind_ok (getNode_ok hm)]
    have hst := nodeStat_eq hc1 hm
    cases hr : m.reals with
    | nil => rw [hr] at hst; rw [bind_err hst]; exact hcd1
    | cons r rest =>
      rw [hr] at hst
      rw [bind_ok hst]
      by_cases hd : (s1.disk.statReal r).isDir = true
      rotate_left
      · simp only [hd, Bool.not_false, if_true]; exact hcd1
      simp only [hd, Bool.not_true, Bool.false_eq_true, if_false]
      rw [bind_ok (countKids_eval hm)]
      generalize hks : (m.kids.filterMap fun c => s1.mem (c :: n :: pp)) = ks
      by_cases hcnt : (ks.filter (!·.whiteout)).length > 0
      · simp only [hcnt, if_true]; exact hcd1
      simp only [hcnt, if_false]
      -- every child node is a whiteout
      have hallw : ∀ k ∈ ks, k.whiteout = true := by
        intro k hk
        have hnil : ks.filter (!·.whiteout) = [] := List.eq_nil_of_length_eq_zero (by omega)
        have := List.filter_eq_nil_iff.1 hnil k hk
        simpa using this
      have hwh : ∀ c cm, s1.mem (c :: n :: pp) = some cm → cm.whiteout = true := by
        intro c cm hcm
        obtain ⟨pm', hpm', hin⟩ := hc1.reach c (n :: pp) cm hcm
        rw [hm] at hpm'; cases hpm'
        apply hallw
        rw [← hks]
        exact List.mem_filterMap.2 ⟨c, hin, hcm⟩
      by_cases hmu : m.inUpper = true
      rotate_left
      · simp only [hmu, Bool.and_false, whenM_false]
        exact ⟨s1, m, r, rest, hc1, hd1, hm, hlo, hr, hd, Or.inl ⟨by simpa using hmu, rfl, rfl⟩⟩
      obtain ⟨L, hup⟩ : ∃ L, s1.disk.upper = some L := by
        cases h : s1.disk.upper with
        | none => have := no_upper_not_inUpper hc1 h hm; rw [this] at hmu; cases hmu
        | some L => exact ⟨L, rfl⟩
      by_cases hw2 : (ks.filter (·.whiteout)).length > 0
      · simp only [hw2, hmu, decide_true, Bool.and_self, whenM_true]
        obtain ⟨t, Lt, hrun, hi, hempty⟩ := emptyNodeDirectory_spec hc1 hup hm hmu hlo hr hd hwh
        rw [hrun]
        exact ⟨s1, m, r, rest, hc1, hd1, hm, hlo, hr, hd, Or.inr ⟨hmu, L, Lt, hup, hi, hempty⟩⟩
      · simp only [hw2, decide_false, Bool.false_and, whenM_false]
        refine ⟨s1, m, r, rest, hc1, hd1, hm, hlo, hr, hd, Or.inr ⟨hmu, L, L, hup, EmptyInv.start hc1 hup hm, fun c => ?_⟩⟩
        -- no child nodes at all, so the upper directory is empty
        have hksnil : ks = [] := by
          cases hk : ks with
          | nil => rfl
          | cons k rest' =>
            exfalso
            have hkw := hallw k (by rw [hk]; simp)
            apply hw2
            rw [hk, List.filter_cons, if_pos hkw]
            simp
        have hkids : m.kids = [] := by
          cases hk : m.kids with
          | nil => rfl
          | cons c cs =>
            exfalso
            obtain ⟨cm, hcm⟩ := hc1.kidsMem (n :: pp) m c hm (by rw [hk]; simp)
            have : cm ∈ ks := by
              rw [← hks]
              exact List.mem_filterMap.2 ⟨c, by rw [hk]; simp, hcm⟩
            rw [hksnil] at this; cases this
        obtain ⟨r0, _, hrl, hrp, _, _, rest0, hr0⟩ := upper_head hc1 hm hmu
        have hrr : r = r0 := by rw [hr] at hr0; injection hr0
        subst hrr
        have hdirL : (L (n :: pp)).isDir = true := by
          simpa [Disk.statReal, hrl, hrp, Disk.nodeAt, Disk.layer, hup] using hd
        cases ha : (L (c :: n :: pp)).isAbsent with
        | true => rfl
        | false =>
          exfalso
          obtain ⟨hin, _⟩ := upper_entry_has_node hc1 hup hm hmu hlo hdirL c ha
          rw [hkids] at hin; cases hin

theorem removedMem_congr {mem mem' : Mem} (n : Name) (pp : Path) (pm : MNode)
    (h : ∀ q, (n :: pp).isSuffixOf q = false → mem' q = mem q) :
    removedMem mem' n pp pm = removedMem mem n pp pm := by
  funext q
  rw [removedMem_apply, removedMem_apply]
  by_cases h1 : q = pp
  · simp [h1]
  · simp only [h1, if_false]
    cases h2 : (n :: pp).isSuffixOf q with
    | true => rfl
    | false => simp [h q h2]

/-- a whiteout takes the place of an entry whose (whole) upper subtree has just been removed -/
theorem whiteoutEnd_gen {s0 : St} (hc : Consistent s0) {L : Layer} (hup : s0.disk.upper = some L)
    (pp : Path) (n : Name) {pm : MNode} (hpm : s0.mem pp = some pm) (hpu : pm.inUpper = true)
    (hlo : pm.loaded = true) {pr : Real} (hprl : pr.layer = 0) (hprp : pr.path = pp) (hpru : pr.inUpper = true)
    (hpd : (L pp).isDir = true)
    (s3 : St) (L1 : Layer) (hd3 : s3.disk = s0.disk.setLayer 0 L1) (hm3 : s3.mem = removedMem s0.mem n pp pm)
    (hL1a : (L1 (n :: pp)).isAbsent = true)
    (hout : ∀ q, (n :: pp).isSuffixOf q = false → L1 q = L q) (htree : TreeOK L1)
    (hleaf : ∀ c, (L1 (c :: n :: pp)).isAbsent = true) :
    Outcome ((do
        let ri ← pr.createWhiteout n
        insertChild pp n (newNode ri)) s3) (fun _ s' => Consistent s' ∧ Gone pp n s' ∧ FrameX (n :: pp) s0 s')
      (fun _ => False) := by
  have hu : s0.disk.upper.isSome := by rw [hup]; rfl
  have hdir0 : (s0.disk.nodeAt 0 pp).isDir = true := by simpa [Disk.nodeAt, Disk.layer, hup] using hpd
  have hnpp : (n :: pp).isSuffixOf pp = false := not_below_parent n pp
  have hL1p : (L1 pp).isDir = true := by rw [hout pp hnpp]; exact hpd
  have hri : ({ childReal pr n with whiteout := true } : Real) =
      { layer := 0, inUpper := true, path := n :: pp, whiteout := true, opq := false } := by
    simp [childReal, hprl, hprp]
  have hcw : hCreateWhiteout L1 pr.path n = .ok (L1.set (n :: pp) .whiteout) := by
    rw [hprp]
    cases hx : L1 (n :: pp) <;> simp_all [hCreateWhiteout, Node.isAbsent]
    cases hy : L1 pp <;> simp_all [hMk, hParent, Node.isDir, Node.isAbsent]
  have hL3 : s3.disk.layer pr.layer = some L1 := by rw [hprl, hd3]; rfl
  obtain ⟨s4, h4, hd4, hm4⟩ := layerCall_ok' (f := fun L => hCreateWhiteout L pr.path n) Method.createWhiteout hL3 hcw
  have hcwok : pr.createWhiteout n s3 = .ok { childReal pr n with whiteout := true } s4 := by
    simp only [Real.createWhiteout, hpru, Bool.not_true, Bool.false_eq_true, if_false]
    rw [bind_ok h4]; rfl
  rw [bind_ok hcwok]
  have hpm4 : s4.mem pp = some { pm with kids := pm.kids.filter (· != n) } := by
    rw [hm4, hm3, removedMem_apply]; simp
  obtain ⟨s5, hins, hd5, hm5⟩ := insertChild_ok' (s := s4) n (newNode { childReal pr n with whiteout := true }) hpm4
  rw [hins]
  -- scanning the parent for the name reads the same entries as after a point update
  have hloc0 := newEntry_localExp hc hu n pp .whiteout hpm hpu hdir0 rfl (Or.inl rfl)
  have hsu : s0.disk.setUpper (n :: pp) .whiteout = s0.disk.setLayer 0 (L.set (n :: pp) .whiteout) := by
    simp [Disk.setUpper, hup]
  have hloc : localExp (s0.disk.setLayer 0 (L1.set (n :: pp) .whiteout)) pm n =
      [realOf (s0.disk.setUpper (n :: pp) .whiteout) (n :: pp) 0] := by
    rw [← hloc0, hsu]
    apply localExp_setLayer_congr hc hpm
    · simp only [Layer.set, if_neg (ne_cons_self n pp)]; exact hout pp hnpp
    · simp [Layer.set]
  have hreal : realOf (s0.disk.setUpper (n :: pp) .whiteout) (n :: pp) 0 = { childReal pr n with whiteout := true } := by
    have : (s0.disk.setUpper (n :: pp) .whiteout).nodeAt 0 (n :: pp) = .whiteout := by
      rw [nodeAt_setUpper _ _ _ hu]; simp
    simp [realOf, this, hri, Node.isWhiteout, Node.isOpaqueDir]
  have := consistent_insertChild_gen hc hup n pp (L' := L1.set (n :: pp) .whiteout)
    (m' := newNode { childReal pr n with whiteout := true }) hpm hlo ⟨rfl, rfl⟩
    (by
      intro q hq
      have : q ≠ n :: pp := by intro h; rw [h, below_self] at hq; cases hq
      simp only [Layer.set, if_neg this]
      exact hout q hq)
    ((hostStep_replace L1 pp n .whiteout hL1p hleaf).2 htree)
    (by rw [hloc, hreal]; exact Or.inl rfl)
    (by simp [newNode, headWhiteout])
    (by rw [hloc]; simp) []
  have hdisk5 : s5.disk = s0.disk.setLayer 0 (L1.set (n :: pp) .whiteout) := by rw [hd5, hd4, hd3, hprl]; rfl
  refine ⟨this.congr ?_ ?_, Or.inl ⟨newNode { childReal pr n with whiteout := true }, ?_, rfl⟩,
    FrameX.of_upper hup hdisk5 _ (fun q hq => by
      have : q ≠ n :: pp := by intro h; rw [h, below_self] at hq; cases hq
      simp only [Layer.set, if_neg this]
      exact hout q hq)⟩
  · exact hdisk5
  · rw [hm5, hm4, hm3, insertedMem_removedMem]
  · rw [hm5, hm4, hm3, insertedMem_removedMem, insertedMem_apply]
    simp [cons_ne_self]

/-- the rest of `do_rm` for a directory, from the state `rmDirPrep` leaves -/
theorem rmdirTail_cons (d0 : Disk) (pp : Path) (n : Name) (s' : St) (h : RmReady d0 pp n s') :
    Outcome ((do
        copyNodeUp pp
        let node ← getNode (n :: pp)
        let pm ← getNode pp
        let s ← getSt
        rmFinish pp n true node pm (!(node.upperLayerOnly && !lowerEntryExists s.disk pm n))) s')
      (fun _ s'' => Consistent s'' ∧ Gone pp n s'' ∧ FrameD d0 s''.disk (n :: pp))
      (fun s'' => Consistent s'' ∧ ViewD d0 s''.disk) := by
  obtain ⟨s0, m, r, rest, hc0, hd0, hm, hlo, hr, hd, hcase⟩ := h
  subst hd0
  obtain ⟨pm, hpm, hnk⟩ := hc0.reach n pp m hm
  have hplo : pm.loaded = true := by
    cases hx : pm.loaded with
    | true => rfl
    | false => have := hc0.unloaded pp pm hpm hx; rw [this] at hnk; cases hnk
  have hnw : m.whiteout = false := dir_not_whiteout hc0 hm hr hd
  rcases hcase with ⟨hmu, hd', hm'⟩ | ⟨hmu, L, Lt, hup, hi, hempty⟩
  · -- only lower layers have the directory: like unlink of a lower-only entry
    have hc' : Consistent s' := hc0.congr hd' hm'
    have hm1 : s'.mem (n :: pp) = some m := by rw [hm']; exact hm
    have hpm1 : s'.mem pp = some pm := by rw [hm']; exact hpm
    have hcp := copyNodeUp_spec pp s' hc'
    cases hres : copyNodeUp pp s' with
    | err e s2 => rw [hres] at hcp; rw [bind_err hres]; exact ⟨hcp.1, by rw [← hd']; exact hcp.2⟩
    | ok u s2 =>
      rw [hres] at hcp
      rw [bind_ok hres]
      have hdn : DirNode pp s' := by
        intro m0 r0 rest0 hm0 hr0
        cases hdd : (s'.disk.statReal r0).isDir with
        | true => rfl
        | false =>
          exfalso
          rw [hpm1] at hm0; cases hm0
          have hnk' := hnk
          rw [(nondir_no_kids hc' hpm1 hr0 hdd).1] at hnk'
          cases hnk'
      have hv := hcp.view hdn
      obtain ⟨pm2, hpm2, hpu2⟩ := hcp.up
      obtain ⟨pm2', hpm2', hlo2, _⟩ := hcp.keep pp pm hpm1
      rw [hpm2] at hpm2'; cases hpm2'
      have hq2 : s2.mem (n :: pp) = some m := by
        rw [hcp.frame _ (by simp [isSuffixOf_cons_self])]; exact hm1
      rw [bind_ok (getNode_ok hq2), bind_ok (getNode_ok hpm2), bind_ok (getSt_eval s2)]
      have hfin := rmFinish_cons hcp.cons pp n true hpm2 hpu2 (by rw [hlo2]; exact hplo) hq2 hnw (fun _ => hmu)
      cases hres3 : rmFinish pp n true m pm2 (!(m.upperLayerOnly && !lowerEntryExists s2.disk pm2 n)) s2 with
      | err e s3 => rw [hres3] at hfin; exact ⟨hfin.1, by rw [← hd']; exact hv.trans hfin.2⟩
      | ok u3 s3 =>
        rw [hres3] at hfin
        exact ⟨hfin.1, hfin.2.1, by rw [← hd']; exact (FrameX.after hv hfin.2.2).toD⟩
  · -- the upper directory is empty now: remove it, then decide about the whiteout
    have hu : s0.disk.upper.isSome := by rw [hup]; rfl
    have hpu := parent_inUpper hc0 hm hpm hmu
    obtain ⟨pr, hpr, hprl, hprp, hpru, _, prest, hpreals⟩ := upper_head hc0 hpm hpu
    obtain ⟨r0, _, hrl, hrp, _, _, rest0, hr0⟩ := upper_head hc0 hm hmu
    have hrr : r = r0 := by rw [hr] at hr0; injection hr0
    subst hrr
    have hnpp : (n :: pp).isSuffixOf pp = false := not_below_parent n pp
    have hpm' : s'.mem pp = some pm := by rw [hi.memOut pp hnpp]; exact hpm
    obtain ⟨mt, hmt, hmtr⟩ := hi.node
    have hmtu : mt.inUpper = true := by
      have : mt.inUpper = m.inUpper := by simp [MNode.inUpper, hmtr]
      rw [this]; exact hmu
    have hmtulo : mt.upperLayerOnly = m.upperLayerOnly := by simp [MNode.upperLayerOnly, hmtr]
    have hdirL : (L (n :: pp)).isDir = true := by
      simpa [Disk.statReal, hrl, hrp, Disk.nodeAt, Disk.layer, hup] using hd
    have hnk' := hnk
    have hdir0 := parent_isDir_of_kid hc0 hpm hpu hplo hnk
    have hpd : (L pp).isDir = true := by simpa [Disk.nodeAt, Disk.layer, hup] using hdir0
    -- copy_node_up(parent): nothing to do
    have hcp : copyNodeUp pp s' = .ok () s' := by
      unfold copyNodeUp
      rw [bind_ok (getNode_ok hpm')]
      simp only [hpu, if_true]
      rfl
    rw [bind_ok hcp, bind_ok (getNode_ok hmt), bind_ok (getNode_ok hpm'), bind_ok (getSt_eval s')]
    unfold rmFinish
    rw [hpr]
    simp only [hmtu, whenM_true, ↓reduceIte, Bool.true_and]
    -- rmdir of the (now empty) upper directory
    obtain ⟨dm, dop, dx, hLd⟩ : ∃ dm dop dx, Lt (n :: pp) = .dir dm dop dx := by
      rw [hi.self]
      cases hx : L (n :: pp) <;> simp_all [Node.isDir]
    have hnokids : Lt.hasKids (n :: pp) = false := by
      simp only [Layer.hasKids, List.any_eq_false]
      intro c _
      simp [hempty c]
    have hrmd : hRmdir Lt pr.path n = .ok (Lt.set (n :: pp) .absent) := by
      simp [hRmdir, hprp, hLd, hnokids]
    have hL0 : s'.disk.layer pr.layer = some Lt := by rw [hprl, hi.disk]; rfl
    obtain ⟨s3, h3, hd3, hm3⟩ := layerCall_ok' (f := fun L => hRmdir L pr.path n) Method.rmdir hL0 hrmd
    rw [bind_ok h3]
    obtain ⟨s4, h4, hd4, hm4⟩ := removeChild_ok' (s := s3) n (by rw [hm3]; exact hpm')
    rw [bind_ok h4]
    have hdisk4 : s4.disk = s0.disk.setLayer 0 (Lt.set (n :: pp) .absent) := by
      rw [hd4, hd3, hprl, hi.disk]; rfl
    have hmem4 : s4.mem = removedMem s0.mem n pp pm := by
      rw [hm4, hm3]; exact removedMem_congr n pp pm hi.memOut
    have hout1 : ∀ q, (n :: pp).isSuffixOf q = false → (Lt.set (n :: pp) .absent) q = L q := by
      intro q hq
      have : q ≠ n :: pp := by intro h; rw [h, below_self] at hq; cases hq
      simp only [Layer.set, if_neg this]
      exact hi.out q hq
    have htree1 : TreeOK (Lt.set (n :: pp) .absent) := (hostStep_rm Lt pp n hempty).2 hi.tree
    have hleaf1 : ∀ c, ((Lt.set (n :: pp) .absent) (c :: n :: pp)).isAbsent = true := by
      intro c
      simp only [Layer.set, if_neg (cons_ne_self c (n :: pp))]
      exact hempty c
    have hlee : lowerEntryExists s'.disk pm n = lowerEntryExists s0.disk pm n :=
      lowerEntryExists_congr hc0 hpm s'.disk (by rw [hi.disk]; rfl) n
    rw [hlee, hmtulo]
    by_cases hneed : (if pr.opq = true then false else !(m.upperLayerOnly && !lowerEntryExists s0.disk pm n)) = true
    · rw [if_pos hneed]
      have hwe := whiteoutEnd_gen hc0 hup pp n hpm hpu hplo hprl hprp hpru hpd s4 _ hdisk4 hmem4
        (by simp [Layer.set, Node.isAbsent]) hout1 htree1 hleaf1
      revert hwe
      generalize (do
        let ri ← pr.createWhiteout n
        insertChild pp n (newNode ri) : M Unit) s4 = res
      intro hwe
      cases res with
      | ok u s5 => exact ⟨hwe.1, hwe.2.1, hwe.2.2.toD⟩
      | err e s5 => exact hwe.elim
    · rw [if_neg hneed]
      have hcond : pr.opq = true ∨ lowerEntryExists s0.disk pm n = false := by
        by_cases ho : pr.opq = true
        · exact Or.inl ho
        · right
          simp only [ho, Bool.false_eq_true, if_false] at hneed
          cases hle : lowerEntryExists s0.disk pm n with
          | false => rfl
          | true => simp [hle] at hneed
      have hH0 := removed_needsNode hc0 hu n pp hpm hpreals hpru hcond
      have hsu : s0.disk.setUpper (n :: pp) .absent = s0.disk.setLayer 0 (L.set (n :: pp) .absent) := by
        simp [Disk.setUpper, hup]
      have hH : needsNode (localExp (s0.disk.setLayer 0 (Lt.set (n :: pp) .absent)) pm n) = false := by
        rw [← hH0, hsu]
        congr 1
        apply localExp_setLayer_congr hc0 hpm
        · simp only [Layer.set, if_neg (ne_cons_self n pp)]; exact hi.out pp hnpp
        · simp [Layer.set]
      have := consistent_removeChild_gen hc0 hup n pp hpm hout1 htree1 hH []
      refine ⟨this.congr hdisk4 hmem4, Or.inr ⟨{ pm with kids := pm.kids.filter (· != n) }, ?_, hplo, ?_⟩,
        (FrameX.of_upper hup hdisk4 _ hout1).toD⟩
      · rw [hmem4, removedMem_apply]; simp
      · simp [List.mem_filter]

/-- `do_rm` of a directory keeps the cache valid (also when it fails), and on success the name is
    gone -/
theorem doRm_rmdir_cons (pp : Path) (n : Name) :
    Triple Consistent (doRm pp n true) (fun _ s => Consistent s ∧ Gone pp n s) Consistent := by
  unfold doRm
  refine Triple.bind hasUpper_cons fun up => ?_
  refine Triple.ite' (fun _ => Triple.fail' fun _ h => h) fun _ => ?_
  refine Triple.bind (lookupSelf_ro loadDirectory_cons pp) fun _ => ?_
  refine Triple.bind (lookupNode_ro loadDirectory_cons pp n) fun node => ?_
  refine Triple.ite' (fun _ => Triple.fail' fun _ h => h) fun _ => ?_
  apply Triple.ofOutcome
  intro s hc
  simp only [whenM_true]
  have hprep := rmDirPrep_spec pp n s hc
  cases hres : rmDirPrep (n :: pp) s with
  | err e s1 => rw [hres] at hprep; rw [bind_err hres]; exact hprep.1
  | ok u s1 =>
    rw [hres] at hprep
    rw [bind_ok hres]
    have ht := rmdirTail_cons s.disk pp n s1 hprep
    revert ht
    generalize (do
        copyNodeUp pp
        let node ← getNode (n :: pp)
        let pm ← getNode pp
        let s ← getSt
        rmFinish pp n true node pm (!(node.upperLayerOnly && !lowerEntryExists s.disk pm n)) : M Unit) s1 = res
    intro ht
    cases res with
    | ok u s2 => exact ⟨ht.1, ht.2.1⟩
    | err e s2 => exact ht.1

/-- the frame of `do_rm` of a directory: success or failure, the union outside the subtree at the
    directory is what it was, up to xattrs of parent directories that had to be copied up -/
theorem doRm_rmdir_frame (d : Disk) (pp : Path) (n : Name) :
    Triple (CD d) (doRm pp n true) (fun _ s => Consistent s ∧ FrameD d s.disk (n :: pp))
      (fun s => Consistent s ∧ ViewD d s.disk) := by
  have hE : ∀ s, CD d s → Consistent s ∧ ViewD d s.disk :=
    fun s h => ⟨h.1, by rw [h.2]; exact ViewD.refl d⟩
  unfold doRm
  refine Triple.bind (Q := fun _ => CD d) ?_ fun up => ?_
  · intro s hs
    refine ⟨fun a s' h => ?_, fun e s' h => ?_⟩ <;> cases h
    exact hs
  refine Triple.ite' (fun _ => Triple.fail' hE) fun _ => ?_
  refine Triple.bind ((lookupSelf_ro (loadDirectory_cd d) pp).conseq (fun _ h => h) (fun _ _ h => h) hE) fun _ => ?_
  refine Triple.bind ((lookupNode_ro (loadDirectory_cd d) pp n).conseq (fun _ h => h) (fun _ _ h => h) hE) fun node => ?_
  refine Triple.ite' (fun _ => Triple.fail' hE) fun _ => ?_
  apply Triple.ofOutcome
  intro s ⟨hc, hd⟩
  simp only [whenM_true]
  have hprep := rmDirPrep_spec pp n s hc
  cases hres : rmDirPrep (n :: pp) s with
  | err e s1 => rw [hres] at hprep; rw [bind_err hres]; exact hE s1 (by rw [← hd]; exact hprep)
  | ok u s1 =>
    rw [hres] at hprep
    rw [bind_ok hres]
    have ht := rmdirTail_cons s.disk pp n s1 hprep
    revert ht
    generalize (do
        copyNodeUp pp
        let node ← getNode (n :: pp)
        let pm ← getNode pp
        let s ← getSt
        rmFinish pp n true node pm (!(node.upperLayerOnly && !lowerEntryExists s.disk pm n)) : M Unit) s1 = res
    intro ht
    rw [hd] at ht
    cases res with
    | ok u s2 => exact ⟨ht.1, ht.2.2⟩
    | err e s2 => exact ht

theorem runOp_rmdir_gone (p : List Name) :
    Triple Consistent (runOp (.rmdir p))
      (fun _ s => Consistent s ∧ specStat s.disk p.reverse = none) Consistent := by
  unfold runOp
  refine Triple.bind (resolveParent_spec' p) fun r => Triple.pure_pre fun hpath => ?_
  obtain ⟨pp, n⟩ := r
  refine Triple.bind ((doLookup_cons pp n).pre fun _ h => h.1) fun st => ?_
  refine Triple.ite' (fun _ => Triple.fail' fun _ h => h) fun _ => ?_
  refine Triple.bind (doRm_rmdir_cons pp n) fun _ => ?_
  refine Triple.pure' fun s h => ⟨h.1, ?_⟩
  have := gone_specStat h.1 h.2
  simp only at hpath
  rw [← hpath]; exact this

theorem runOp_rmdir_cons (p : List Name) :
    Triple Consistent (runOp (.rmdir p)) (fun _ => Consistent) Consistent :=
  (runOp_rmdir_gone p).post fun _ _ h => h.1

end Fbr.Ovl
