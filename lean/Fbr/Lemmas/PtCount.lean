/-
  Counting entries of the association maps of `Fbr.PtRefs`: distinct keys, and how `mput` / `mdel`
  change the number of entries that satisfy a predicate.
-/
import Fbr.PtRefs
import Fbr.Lemmas.PtMap

namespace Fbr.PtRefs
variable {κ α : Type} [DecidableEq κ]

/-- every key occurs at most once -/
def KeysNodup (m : List (κ × α)) : Prop := (m.map (·.1)).Nodup

/-- number of entries whose value satisfies `p` -/
def cnt (p : α → Bool) (m : List (κ × α)) : Nat := (m.filter fun x => p x.2).length

@[simp] theorem cnt_nil (p : α → Bool) : cnt p ([] : List (κ × α)) = 0 := rfl

theorem cnt_cons (p : α → Bool) (k : κ) (v : α) (m : List (κ × α)) :
    cnt p ((k, v) :: m) = (if p v then 1 else 0) + cnt p m := by
  unfold cnt
  by_cases h : p v <;> simp [List.filter, h] <;> omega

theorem mem_keys_of_mget {m : List (κ × α)} {k : κ} {v : α} (h : mget m k = some v) :
    k ∈ m.map (·.1) := by
  induction m with
  | nil => simp at h
  | cons p r ih =>
    obtain ⟨k', v'⟩ := p
    simp only [mget_cons] at h
    by_cases e : k' = k
    · subst e; simp
    · simp only [e, if_false] at h; simp [ih h]

theorem mget_none_of_not_mem {m : List (κ × α)} {k : κ} (h : k ∉ m.map (·.1)) : mget m k = none := by
  cases hm : mget m k with
  | none => rfl
  | some v => exact absurd (mem_keys_of_mget hm) h

theorem mdel_of_not_mem {m : List (κ × α)} {k : κ} (h : k ∉ m.map (·.1)) : mdel m k = m := by
  induction m with
  | nil => rfl
  | cons p r ih =>
    obtain ⟨k', v'⟩ := p
    simp only [List.map_cons, List.mem_cons, not_or] at h
    have : ¬ k' = k := fun e => h.1 e.symm
    have ih' := ih h.2
    unfold mdel at ih' ⊢
    simp only [List.filter, this, decide_false, Bool.not_false]
    rw [ih']

theorem keys_mdel_sub (m : List (κ × α)) (k : κ) : ∀ x, x ∈ (mdel m k).map (·.1) → x ∈ m.map (·.1) ∧ x ≠ k := by
  intro x hx
  simp only [mdel, List.mem_map, List.mem_filter] at hx
  obtain ⟨p, ⟨hp, hk⟩, e⟩ := hx
  subst e
  exact ⟨List.mem_map.mpr ⟨p, hp, rfl⟩, by simpa using hk⟩

theorem KeysNodup.mdel {m : List (κ × α)} (h : KeysNodup m) (k : κ) : KeysNodup (mdel m k) := by
  unfold KeysNodup at h ⊢
  induction m with
  | nil => simp [Fbr.PtRefs.mdel]
  | cons p r ih =>
    obtain ⟨k', v'⟩ := p
    simp only [List.map_cons, List.nodup_cons] at h
    by_cases e : k' = k
    · simp [Fbr.PtRefs.mdel, List.filter, e]; exact ih h.2
    · simp only [Fbr.PtRefs.mdel, List.filter, e, decide_false, Bool.not_false, List.map_cons,
        List.nodup_cons]
      refine ⟨?_, ih h.2⟩
      intro hx
      exact h.1 (keys_mdel_sub r k k' hx).1

theorem KeysNodup.mput {m : List (κ × α)} (h : KeysNodup m) (k : κ) (v : α) : KeysNodup (mput m k v) := by
  unfold KeysNodup Fbr.PtRefs.mput
  simp only [List.map_cons, List.nodup_cons]
  exact ⟨fun hx => (keys_mdel_sub m k k hx).2 rfl, h.mdel k⟩

/-- deleting a key removes exactly its entry -/
theorem cnt_mdel (p : α → Bool) {m : List (κ × α)} (h : KeysNodup m) (k : κ) :
    cnt p (mdel m k) + (match mget m k with
      | some v => if p v then 1 else 0
      | none => 0) = cnt p m := by
  induction m with
  | nil => simp [Fbr.PtRefs.mdel]
  | cons q r ih =>
    obtain ⟨k', v'⟩ := q
    unfold KeysNodup at h
    simp only [List.map_cons, List.nodup_cons] at h
    by_cases e : k' = k
    · subst e
      have hr : Fbr.PtRefs.mdel r k' = r := mdel_of_not_mem h.1
      have : Fbr.PtRefs.mdel ((k', v') :: r) k' = r := by
        unfold Fbr.PtRefs.mdel at hr ⊢
        simp only [List.filter, decide_true, Bool.not_true]
        exact hr
      rw [this, cnt_cons]
      simp [mget_cons]
      omega
    · have : Fbr.PtRefs.mdel ((k', v') :: r) k = (k', v') :: Fbr.PtRefs.mdel r k := by
        simp [Fbr.PtRefs.mdel, List.filter, e]
      rw [this, cnt_cons, cnt_cons]
      simp only [mget_cons, e, if_false]
      have := ih h.2
      omega

theorem cnt_mput (p : α → Bool) {m : List (κ × α)} (h : KeysNodup m) (k : κ) (v : α) :
    cnt p (mput m k v) + (match mget m k with
      | some v' => if p v' then 1 else 0
      | none => 0) = cnt p m + (if p v then 1 else 0) := by
  unfold Fbr.PtRefs.mput
  rw [cnt_cons]
  have := cnt_mdel p h k
  omega

theorem length_eq_cnt (m : List (κ × α)) : m.length = cnt (fun _ => true) m := by
  induction m with
  | nil => rfl
  | cons q r ih => obtain ⟨k, v⟩ := q; rw [cnt_cons]; simp [ih]; omega

end Fbr.PtRefs
