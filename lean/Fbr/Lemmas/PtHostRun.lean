/-
  Fbr.Lemmas.PtHostRun — running `Prog`s and request-monad actions against a host; the
  credential-preservation predicates `Inert` / `Neutral` and their composition lemmas.
-/
import Fbr.Host
import Fbr.PtHost

namespace Fbr.PtHost
open Fbr.Host

variable {σ : Type} {α β : Type}

/-! ### `Prog.run` -/

@[simp] theorem run_pure (H : HostOps σ) (a : α) (s : σ) : (Prog.pure a).run H s = (a, s, []) := rfl

theorem run_call (H : HostOps σ) (c : HCall) (k : HAns → Prog α) (s : σ) :
    (Prog.call c k).run H s =
      (((k (H.step s c).1).run H (H.step s c).2).1, ((k (H.step s c).1).run H (H.step s c).2).2.1,
       (c, (H.step s c).1) :: ((k (H.step s c).1).run H (H.step s c).2).2.2) := rfl

/-- final host state of a run -/
def fin (H : HostOps σ) (p : Prog α) (s : σ) : σ := (p.run H s).2.1
/-- value of a run -/
def val (H : HostOps σ) (p : Prog α) (s : σ) : α := (p.run H s).1

@[simp] theorem fin_pure (H : HostOps σ) (a : α) (s : σ) : fin H (Prog.pure a) s = s := rfl
@[simp] theorem val_pure (H : HostOps σ) (a : α) (s : σ) : val H (Prog.pure a) s = a := rfl
@[simp] theorem fin_call (H : HostOps σ) (c : HCall) (k : HAns → Prog α) (s : σ) :
    fin H (Prog.call c k) s = fin H (k (H.step s c).1) (H.step s c).2 := rfl
@[simp] theorem val_call (H : HostOps σ) (c : HCall) (k : HAns → Prog α) (s : σ) :
    val H (Prog.call c k) s = val H (k (H.step s c).1) (H.step s c).2 := rfl

theorem fin_bind (H : HostOps σ) (p : Prog α) (f : α → Prog β) (s : σ) :
    fin H (p.bind f) s = fin H (f (val H p s)) (fin H p s) := by
  induction p generalizing s with
  | pure a => rfl
  | call c k ih => simp only [Prog.bind, fin_call, val_call]; exact ih _ _

theorem val_bind (H : HostOps σ) (p : Prog α) (f : α → Prog β) (s : σ) :
    val H (p.bind f) s = val H (f (val H p s)) (fin H p s) := by
  induction p generalizing s with
  | pure a => rfl
  | call c k ih => simp only [Prog.bind, fin_call, val_call]; exact ih _ _

/-! ### credential predicates -/

/-- what may differ after a balanced block: effective CAP_FSETID may have been refreshed from the
    permitted set by a uid round trip -/
def CredsKept (c c' : Creds) : Prop :=
  c'.euid = c.euid ∧ c'.egid = c.egid ∧ c'.permFsetid = c.permFsetid ∧
  (c'.effFsetid = c.effFsetid ∨ c'.effFsetid = c.permFsetid)

/-- the serving thread between guarded blocks: effective ids 0, effective ⊆ permitted -/
def Base (c : Creds) : Prop := c.euid = 0 ∧ c.egid = 0 ∧ (c.effFsetid = true → c.permFsetid = true)

theorem CredsKept.refl (c : Creds) : CredsKept c c := ⟨rfl, rfl, rfl, Or.inl rfl⟩

theorem CredsKept.base {c c' : Creds} (h : CredsKept c c') (b : Base c) : Base c' := by
  obtain ⟨h1, h2, h3, h4⟩ := h
  obtain ⟨b1, b2, b3⟩ := b
  refine ⟨by omega, by omega, ?_⟩
  intro he
  rcases h4 with h4 | h4
  · rw [h3]; exact b3 (by rw [← h4]; exact he)
  · rw [h3, ← h4]; exact he

theorem CredsKept.trans {a b c : Creds} (h1 : CredsKept a b) (h2 : CredsKept b c) : CredsKept a c := by
  obtain ⟨a1, a2, a3, a4⟩ := h1
  obtain ⟨b1, b2, b3, b4⟩ := h2
  refine ⟨by omega, by omega, by rw [b3, a3], ?_⟩
  rcases b4 with b4 | b4
  · rcases a4 with a4 | a4
    · exact Or.inl (by rw [b4, a4])
    · exact Or.inr (by rw [b4, a4])
  · exact Or.inr (by rw [b4, a3])

theorem CredsKept.root {c c' : Creds} (h : CredsKept c c') (r : c.Root) : c' = c := by
  obtain ⟨h1, h2, h3, h4⟩ := h
  obtain ⟨_, _, r3⟩ := r
  have : c'.effFsetid = c.effFsetid := by
    rcases h4 with h4 | h4
    · exact h4
    · rw [h4, r3]
  cases c; cases c'; simp_all

/-- the program never changes the credentials, whatever state it starts from -/
def Inert (H : HostOps σ) (p : Prog α) : Prop := ∀ s, H.creds (fin H p s) = H.creds s

/-- started between guarded blocks, the program ends with the same credentials -/
def Neutral (H : HostOps σ) (p : Prog α) : Prop := ∀ s, Base (H.creds s) → CredsKept (H.creds s) (H.creds (fin H p s))

theorem Inert.neutral {H : HostOps σ} {p : Prog α} (h : Inert H p) : Neutral H p := by
  intro s _; rw [h s]; exact CredsKept.refl _

theorem inert_pure (H : HostOps σ) (a : α) : Inert H (Prog.pure a) := fun _ => rfl

theorem inert_bind {H : HostOps σ} {p : Prog α} {f : α → Prog β} (hp : Inert H p) (hf : ∀ a, Inert H (f a)) :
    Inert H (p.bind f) := by
  intro s; rw [fin_bind, hf, hp]

theorem neutral_bind {H : HostOps σ} {p : Prog α} {f : α → Prog β} (hp : Neutral H p) (hf : ∀ a, Neutral H (f a)) :
    Neutral H (p.bind f) := by
  intro s b
  rw [fin_bind]
  have h1 := hp s b
  exact h1.trans (hf _ _ (h1.base b))

theorem inert_call {H : HostOps σ} [L : HostLaws H] {c : HCall} {k : HAns → Prog α} (hc : c.isCred = false)
    (hk : ∀ a, Inert H (k a)) : Inert H (Prog.call c k) := by
  intro s; rw [fin_call, hk, L.creds_other s c hc]

/-! ### the request monad -/

/-- (structures, so that `intro` does not unfold them in proof automation) -/
structure InertM (H : HostOps σ) (m : M α) : Prop where
  h : ∀ s, Inert H (m s)
structure NeutralM (H : HostOps σ) (m : M α) : Prop where
  h : ∀ s, Neutral H (m s)

theorem InertM.neutral {H : HostOps σ} {m : M α} (h : InertM H m) : NeutralM H m := ⟨fun s => (h.h s).neutral⟩

theorem bind_def (m : M α) (f : α → M β) : (m >>= f) = M.bind' m f := rfl
theorem pure_def (a : α) : (pure a : M α) = M.pure' a := rfl

theorem inertM_pure (H : HostOps σ) (a : α) : InertM H (pure a : M α) := ⟨fun _ => inert_pure H _⟩
theorem inertM_pure' (H : HostOps σ) (a : α) : InertM H (M.pure' a : M α) := ⟨fun _ => inert_pure H _⟩
theorem inertM_throw (H : HostOps σ) (e : Nat) : InertM H (M.throw e : M α) := ⟨fun _ => inert_pure H _⟩
theorem inertM_get (H : HostOps σ) : InertM H M.get := ⟨fun _ => inert_pure H _⟩
theorem inertM_set (H : HostOps σ) (s : PtState) : InertM H (M.set s) := ⟨fun _ => inert_pure H _⟩
theorem inertM_modify (H : HostOps σ) (f : PtState → PtState) : InertM H (M.modify f) := ⟨fun _ => inert_pure H _⟩
theorem inertM_ofOption (H : HostOps σ) (e : Nat) (o : Option α) : InertM H (M.ofOption e o) := by
  cases o <;> exact ⟨fun _ => inert_pure H _⟩
theorem inertM_ofExcept (H : HostOps σ) (o : Except Nat α) : InertM H (M.ofExcept o) := by
  cases o <;> exact ⟨fun _ => inert_pure H _⟩

theorem inertM_sys {H : HostOps σ} [HostLaws H] {c : HCall} (hc : c.isCred = false) : InertM H (M.sys c) :=
  ⟨fun _ => inert_call hc (fun _ => inert_pure H _)⟩

theorem inertM_bind {H : HostOps σ} {m : M α} {f : α → M β} (hm : InertM H m) (hf : ∀ a, InertM H (f a)) :
    InertM H (m >>= f) := by
  refine ⟨fun s => ?_⟩
  show Inert H (M.bind' m f s)
  unfold M.bind'
  apply inert_bind (hm.h s)
  intro r
  cases h : r.1 with
  | ok a => simp only []; exact (hf a).h r.2
  | error e => simp only []; exact inert_pure H _

theorem neutralM_bind {H : HostOps σ} {m : M α} {f : α → M β} (hm : NeutralM H m) (hf : ∀ a, NeutralM H (f a)) :
    NeutralM H (m >>= f) := by
  refine ⟨fun s => ?_⟩
  show Neutral H (M.bind' m f s)
  unfold M.bind'
  apply neutral_bind (hm.h s)
  intro r
  cases h : r.1 with
  | ok a => simp only []; exact (hf a).h r.2
  | error e => simp only []; exact (inert_pure H _).neutral

theorem inertM_try {H : HostOps σ} {m : M α} (hm : InertM H m) : InertM H (M.try' m) := by
  refine ⟨fun s => ?_⟩
  unfold M.try'
  exact inert_bind (hm.h s) (fun _ => inert_pure H _)

theorem neutralM_try {H : HostOps σ} {m : M α} (hm : NeutralM H m) : NeutralM H (M.try' m) := by
  refine ⟨fun s => ?_⟩
  unfold M.try'
  exact neutral_bind (hm.h s) (fun _ => (inert_pure H _).neutral)

end Fbr.PtHost
