/-
  Fbr.Lemmas.HostRef — the reference FS satisfies `HostLaws` (so the hypotheses of the C05/C06
  theorems are satisfiable), plus the facts about it used by non-vacuity examples.
-/
import Fbr.HostRef

namespace Fbr.Host.Ref

theorem step_creds_other (s : State) (c : HCall) (h : c.isCred = false) : (step s c).2.creds = s.creds := by
  simp [step, h]

theorem step_cred (s : State) (c : HCall) (h : c.isCred = true) : step s c = stepCore s c := by
  simp [step, h]

theorem newFd_nodes (s : State) (o : Obj) (fl : Nat) : (newFd s o fl).2.nodes = s.nodes := rfl

theorem openObj_nodes (s : State) (o : Obj) (fl : Nat) (h : has fl O_TRUNC = false) : (openObj s o fl).2.nodes = s.nodes := by
  unfold openObj
  split
  · rfl
  · split
    · rfl
    · simp only [h, Bool.false_and, Bool.false_eq_true, if_false]; rfl

macro "ro_nodes" : tactic => `(tactic| (repeat' split) <;> (first | rfl | exact newFd_nodes _ _ _ | (apply openObj_nodes; assumption)))

/-- a call classified `readOnly` leaves every inode of the reference FS as it is -/
theorem stepCore_readOnly (s : State) (c : HCall) (h : c.readOnly = true) : (stepCore s c).2.nodes = s.nodes := by
  cases c <;> simp only [HCall.readOnly, Bool.and_eq_true, Bool.not_eq_true', Bool.false_eq_true] at h
  case openat d n fl m =>
    obtain ⟨h1, h2⟩ := h
    simp only [stepCore, h1, Bool.false_and, Bool.false_eq_true, if_false]
    ro_nodes
  case reopen f fl md => simp only [stepCore]; ro_nodes
  case openByHandle x fl md => simp only [stepCore]; ro_nodes
  all_goals (simp only [stepCore]; try ro_nodes)

theorem step_nodes (s : State) (c : HCall) : (step s c).2.nodes = (stepCore s c).2.nodes := by
  unfold step; split <;> rfl

instance hostLaws (sent : Obj → Bool) (root : Obj) : HostLaws (ops sent root) where
  view_readOnly := by
    intro s c h o
    show (step s c).2.nodes o = s.nodes o
    rw [step_nodes, stepCore_readOnly s c h]
  creds_other := fun s c h => step_creds_other s c h
  setresgid_spec := by
    intro s g
    simp only [ops, step_cred s (.setresgid g) rfl, stepCore]
    split
    · exact Or.inl ⟨rfl, rfl⟩
    · exact Or.inr ⟨⟨_, rfl⟩, rfl⟩
  setresgid_zero := by
    intro s
    show (step s (.setresgid 0)).1 = .ok
    rw [step_cred s _ rfl]
    simp [stepCore]
  setresuid_spec := by
    intro s u
    simp only [ops, step_cred s (.setresuid u) rfl, stepCore]
    split
    · exact Or.inl ⟨rfl, rfl⟩
    · exact Or.inr ⟨⟨_, rfl⟩, rfl⟩
  setresuid_zero := by
    intro s
    show (step s (.setresuid 0)).1 = .ok
    rw [step_cred s _ rfl]
    simp [stepCore]
  capset_spec := by
    intro s b
    simp only [ops, step_cred s (.capset b) rfl, stepCore]
    split
    · exact Or.inr ⟨⟨_, rfl⟩, rfl⟩
    · exact Or.inl ⟨rfl, rfl⟩
  capset_raise := by
    intro s hp _
    show (step s (.capset true)).1 = .ok
    rw [step_cred s _ rfl]
    have : s.creds.permFsetid = true := hp
    simp [stepCore, this]
  capget_spec := by
    intro s
    show (step s .capget).1 = .caps s.creds.effFsetid
    simp [step, stepCore, HCall.isCred]

end Fbr.Host.Ref
