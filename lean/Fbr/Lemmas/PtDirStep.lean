/-
  Helper lemmas for C16: the reply to a resume from a valid cookie, and the sequential walk.
-/
import Fbr.Lemmas.PtDirWalk

namespace Fbr.Lemmas.PtDir
open Fbr.PtDir Fbr.Wire

/-- what the reply to a resume from cookie `c` looks like -/
structure Reply (H : Host) (st st' : St) (plus : Bool) (size : Nat) (rest0 : Dir) (p : Dir) : Prop where
  /-- the delivered records are a prefix of the non-dot records that follow the cookie -/
  isPrefix : p <+: real rest0
  /-- …a non-empty one whenever something is left -/
  progress : real rest0 ≠ [] → p ≠ []
  /-- the accounted bytes fit the requested size -/
  within : (p.map (fun e => fuseLen plus (view e).name.length)).sum ≤ size
  /-- readdirplus keeps one lookup reference per delivered record, readdir none -/
  refs : st'.refs = (if plus then (p.map (·.ino)).reverse ++ st.refs else st.refs)
  kept : Kept st st'

theorem resume_step {H : Host} (wf : WF H.dir) (hq : H.eofQuirk = false) (st : St) (inv : Inv st)
    (plus : Bool) (h size c : Nat) (rest0 : Dir) (hp : Pos H.dir c rest0) (h24 : 24 ≤ size)
    (hnext : ∀ e r, real rest0 = e :: r → fuseLen plus e.name.length ≤ size)
    (hh : st.noOpendir = true ∨ ∃ fd, st.fds h = some fd)
    (hserve : Fits size rest0 → Serveable H size c rest0 (!st.noOpendir && st.cache h == some c)) :
    ∃ st' p, readReq H st plus h size c none = (st', .ok (p.map view)) ∧ Reply H st st' plus size rest0 p := by
  have hfits := fits_of_next wf hp size plus h24 hnext
  obtain ⟨st', out, hreq, hserved⟩ :=
    readReq_served wf hq st inv plus h size c rest0 hp (by omega) hh (hserve hfits)
  obtain ⟨⟨dots, b, t, hsplit, hdots, hbt, hnd, hout, hrefs⟩, hinv, hmode, hnext', hopen⟩ := hserved
  have hreal : real rest0 = real b ++ real t := by
    rw [hsplit, real_append, real_append, real_dots dots hdots]; simp
  refine ⟨st', accepted size plus (real b) 0, by rw [hreq, hout], ⟨?_, ?_, ?_, hrefs, ⟨hinv, hmode, hnext', hopen⟩⟩⟩
  · rw [hreal]
    exact List.IsPrefix.trans (accepted_prefix _ _ _ _) (List.prefix_append _ _)
  · intro hne
    have hbne : b ≠ [] := by
      intro hbe
      rw [hreal, hbe, hbt hbe] at hne
      simp [real] at hne
    have hrb := real_ne_nil b (hnd hbne)
    cases hrb' : real b with
    | nil => exact absurd hrb' hrb
    | cons e r =>
      have hin : e ∈ H.dir := by
        apply pos_sub hp
        have : e ∈ real b := by rw [hrb']; simp
        have : e ∈ b := (List.mem_filter.mp this).1
        rw [hsplit]; simp [this]
      apply accepted_ne_nil
      rw [view_name e (wf.nonul e hin)]
      exact hnext e (r ++ real t) (by rw [hreal, hrb']; rfl)
  · have := accepted_within size plus (real b) 0 (Nat.zero_le _)
    omega

/-! ### histories -/

inductive Op where
  | opendir
  | releasedir (h : Nat)
  | read (plus : Bool) (h size off : Nat) (errAt : Option Nat)
  deriving Repr, DecidableEq

def applyOp (H : Host) (st : St) : Op → St
  | .opendir => (opendir st).1
  | .releasedir h => (releasedir st h).1
  | .read plus h size off errAt => (readReq H st plus h size off errAt).1

def applyOps (H : Host) (st : St) (ops : List Op) : St := ops.foldl (applyOp H) st

theorem readReq_kept (H : Host) (st : St) (inv : Inv st) (plus : Bool) (h size off : Nat) (errAt : Option Nat) :
    Kept st (readReq H st plus h size off errAt).1 := by
  have := doReaddir_inv H st inv plus h size off (srvCb size plus errAt) ({} : Acc)
  unfold readReq
  cases hr : (doReaddir H st plus h size off (srvCb size plus errAt) ({} : Acc)).ret with
  | error e => simp only [hr]; exact this
  | ok u => simp only [hr]; exact this

/-- the handles in `W` are open -/
def Open (st : St) (W : List Nat) : Prop := ∀ h ∈ W, (st.fds h).isSome = true

theorem applyOp_keeps (H : Host) (st : St) (inv : Inv st) (W : List Nat) (hW : Open st W) (op : Op)
    (hop : ∀ h ∈ W, op ≠ .releasedir h) :
    Inv (applyOp H st op) ∧ (applyOp H st op).noOpendir = st.noOpendir ∧ Open (applyOp H st op) W := by
  cases op with
  | opendir =>
    obtain ⟨h1, h2, h3⟩ := opendir_inv st inv
    exact ⟨h1, h2, fun h hh => h3 h (hW h hh)⟩
  | releasedir h0 =>
    obtain ⟨h1, h2, h3⟩ := releasedir_inv st inv h0
    refine ⟨h1, h2, fun h hh => h3 h ?_ (hW h hh)⟩
    intro heq; subst heq; exact hop h hh rfl
  | read plus h size off errAt =>
    obtain ⟨h1, h2, _, h4⟩ := readReq_kept H st inv plus h size off errAt
    exact ⟨h1, h2, fun h' hh => by show ((readReq H st plus h size off errAt).1.fds h').isSome = true; rw [h4]; exact hW h' hh⟩

theorem applyOps_keeps (H : Host) (W : List Nat) (ops : List Op) (hops : ∀ op ∈ ops, ∀ h ∈ W, op ≠ .releasedir h) :
    ∀ (st : St), Inv st → Open st W →
      Inv (applyOps H st ops) ∧ (applyOps H st ops).noOpendir = st.noOpendir ∧ Open (applyOps H st ops) W := by
  induction ops with
  | nil => intro st inv hW; exact ⟨inv, rfl, hW⟩
  | cons op ops ih =>
    intro st inv hW
    obtain ⟨h1, h2, h3⟩ := applyOp_keeps H st inv W hW op (hops op (by simp))
    obtain ⟨k1, k2, k3⟩ := ih (fun o ho => hops o (by simp [ho])) (applyOp H st op) h1 h3
    exact ⟨k1, by rw [← h2]; exact k2, k3⟩

/-- one step of a sequential walk: arbitrary other requests first, then the walker's own -/
structure Step where
  noise : List Op
  plus : Bool
  h : Nat
  size : Nat

def lastOff (es : List Offer) (c : Nat) : Nat := (es.getLast?.map (·.off)).getD c

/-- the replies a sequential walk collects: it resumes from the offset of the last entry it got
    and stops at the first empty (or failed) reply -/
def walk (H : Host) : St → Nat → List Step → List (List Offer)
  | _, _, [] => []
  | st, c, s :: more =>
    match readReq H (applyOps H st s.noise) s.plus s.h s.size c none with
    | (_, .error _) => []
    | (st2, .ok es) => if es.isEmpty then [[]] else es :: walk H st2 (lastOff es c) more

/-- every request's buffer can hold at least the next entry (`rem` = the entries not delivered yet) -/
def Adequate (H : Host) : St → Nat → Dir → List Step → Prop
  | _, _, _, [] => True
  | st, c, rem, s :: more =>
    24 ≤ s.size ∧ (∀ e r, rem = e :: r → fuseLen s.plus e.name.length ≤ s.size) ∧
    match readReq H (applyOps H st s.noise) s.plus s.h s.size c none with
    | (_, .error _) => True
    | (st2, .ok es) => Adequate H st2 (lastOff es c) (rem.drop es.length) more

/-- a predicate on (step, state the walker's request is issued in, offset it resumes from), checked
    along the *actual* walk -/
def Along (H : Host) (P : Step → St → Nat → Prop) : St → Nat → List Step → Prop
  | _, _, [] => True
  | st, c, s :: more =>
    P s (applyOps H st s.noise) c ∧
    match readReq H (applyOps H st s.noise) s.plus s.h s.size c none with
    | (_, .error _) => True
    | (st2, .ok es) => Along H P st2 (lastOff es c) more

theorem along_of_forall (H : Host) (P : Step → St → Nat → Prop) (steps : List Step)
    (h : ∀ s ∈ steps, ∀ st c, P s st c) : ∀ (st : St) (c : Nat), Along H P st c steps := by
  induction steps with
  | nil => intro _ _; trivial
  | cons s more ih =>
    intro st c
    refine ⟨h s (by simp) _ _, ?_⟩
    rcases hr : readReq H (applyOps H st s.noise) s.plus s.h s.size c none with ⟨st2, res⟩
    cases res with
    | error e => trivial
    | ok es => exact ih (fun s' hs' => h s' (by simp [hs'])) _ _

theorem along_mono (H : Host) (P Q : Step → St → Nat → Prop) (hpq : ∀ s st c, P s st c → Q s st c) (steps : List Step) :
    ∀ (st : St) (c : Nat), Along H P st c steps → Along H Q st c steps := by
  induction steps with
  | nil => intro _ _ _; trivial
  | cons s more ih =>
    intro st c h
    obtain ⟨h1, h2⟩ := h
    refine ⟨hpq _ _ _ h1, ?_⟩
    rcases hr : readReq H (applyOps H st s.noise) s.plus s.h s.size c none with ⟨st2, res⟩
    rw [hr] at h2
    cases res with
    | error e => trivial
    | ok es => exact ih _ _ h2

/-- executable twin of `Along` (for concrete instances) -/
def alongB (H : Host) (PB : Step → St → Nat → Bool) : St → Nat → List Step → Bool
  | _, _, [] => true
  | st, c, s :: more =>
    PB s (applyOps H st s.noise) c &&
    match readReq H (applyOps H st s.noise) s.plus s.h s.size c none with
    | (_, .error _) => true
    | (st2, .ok es) => alongB H PB st2 (lastOff es c) more

theorem along_of_bool (H : Host) (P : Step → St → Nat → Prop) (PB : Step → St → Nat → Bool)
    (hpb : ∀ s st c, PB s st c = true → P s st c) (steps : List Step) :
    ∀ (st : St) (c : Nat), alongB H PB st c steps = true → Along H P st c steps := by
  induction steps with
  | nil => intro _ _ _; trivial
  | cons s more ih =>
    intro st c h
    simp only [alongB, Bool.and_eq_true] at h
    obtain ⟨h1, h2⟩ := h
    refine ⟨hpb _ _ _ h1, ?_⟩
    rcases hr : readReq H (applyOps H st s.noise) s.plus s.h s.size c none with ⟨st2, res⟩
    rw [hr] at h2
    cases res with
    | error e => trivial
    | ok es => exact ih _ _ h2

/-- was the cached cookie hit -/
def hitOf (st : St) (h c : Nat) : Bool := !st.noOpendir && st.cache h == some c

/-- the guard of the linear-scan fallback for the walker's request `s`, issued in state `st'` to
    resume from offset `c`: if the cached cookie does not hit and `lseek64` cannot take the cookie
    (above i64::MAX, or EINVAL), the scan re-reads the directory from the start with the request's
    size, so every record up to and including the one whose cookie is `c` must fit `s.size` -/
def ScanGuard (H : Host) : Step → St → Nat → Prop := fun s st' c =>
  hitOf st' s.h c = false → (c > I64_MAX ∨ H.seekErr c = some EINVAL) →
    ∀ pre e rest, H.dir = pre ++ e :: rest → e.cookie = c → ∀ x ∈ pre ++ [e], reclen x ≤ s.size

/-- a decidable sufficient condition for `ScanGuard`: the request resumes from 0 (never scanned
    when `lseek64(0)` works), or its buffer holds every record -/
def scanGuardB (H : Host) : Step → St → Nat → Bool := fun s _ c =>
  decide (c = 0) || H.dir.all (fun e => decide (reclen e ≤ s.size))

theorem scanGuard_of_bool (H : Host) (h0 : H.seekErr 0 = none) (s : Step) (st : St) (c : Nat)
    (h : scanGuardB H s st c = true) : ScanGuard H s st c := by
  intro _ hbad pre e rest hd _ x hx
  simp only [scanGuardB, Bool.or_eq_true, decide_eq_true_eq, List.all_eq_true] at h
  rcases h with h | h
  · subst h
    rcases hbad with hb | hb
    · simp [I64_MAX] at hb
    · rw [h0] at hb; cases hb
  · apply h x
    rw [hd]
    rcases List.mem_append.mp hx with h1 | h1
    · exact List.mem_append_left _ h1
    · rw [List.mem_singleton.mp h1]; simp

theorem walk_complete {H : Host} (wf : WF H.dir) (hq : H.eofQuirk = false) (W : List Nat) (nod : Bool) :
    ∀ (steps : List Step) (st : St) (c : Nat) (rest : Dir), Inv st → st.noOpendir = nod → Open st W →
      Pos H.dir c rest →
      (∀ s ∈ steps, (∀ op ∈ s.noise, ∀ h ∈ W, op ≠ .releasedir h) ∧ (nod = true ∨ s.h ∈ W)) →
      Along H (fun s st' c' => ∀ rest', Pos H.dir c' rest' → Fits s.size rest' →
        Serveable H s.size c' rest' (hitOf st' s.h c')) st c steps →
      Adequate H st c (real rest) steps → (real rest).length < steps.length →
      (walk H st c steps).flatten = (real rest).map view ∧ (walk H st c steps).getLast? = some [] := by
  intro steps
  induction steps with
  | nil => intro st c rest _ _ _ _ _ _ _ hlen; simp at hlen
  | cons s more ih =>
    intro st c rest inv hnod hW hp hsteps halong hadq hlen
    obtain ⟨hnoise, hh⟩ := hsteps s (by simp)
    obtain ⟨hserve, halong'⟩ := halong
    obtain ⟨inv1, hnod1, hW1⟩ := applyOps_keeps H W s.noise hnoise st inv hW
    obtain ⟨h24, hnext, hadq'⟩ := hadq
    have hh1 : (applyOps H st s.noise).noOpendir = true ∨ ∃ fd, (applyOps H st s.noise).fds s.h = some fd := by
      rcases hh with hn | hw
      · left; rw [hnod1, hnod, hn]
      · right; exact Option.isSome_iff_exists.mp (hW1 s.h hw)
    obtain ⟨st2, p, hreq, hreply⟩ :=
      resume_step wf hq (applyOps H st s.noise) inv1 s.plus s.h s.size c rest hp h24 hnext hh1 (hserve rest hp)
    simp only [walk, hreq]
    rw [hreq] at hadq' halong'
    simp only [List.length_map] at hadq'
    change Along H _ st2 (lastOff (p.map view) c) more at halong'
    by_cases hpe : p = []
    · -- nothing left: the walk ends with this empty reply
      subst hpe
      have hrem : real rest = [] := by
        by_cases hr : real rest = []
        · exact hr
        · exact absurd rfl (hreply.progress hr)
      simp [hrem]
    · have hne : (p.map view).isEmpty = false := by
        cases p with
        | nil => exact absurd rfl hpe
        | cons x xs => rfl
      simp only [hne, Bool.false_eq_true, if_false]
      -- where the walker stands now
      obtain ⟨A, B, e, hsplit, hlast, hrealB⟩ := split_at_real_prefix rest p hreply.isPrefix hpe
      have hoff : lastOff (p.map view) c = e.cookie := by
        simp [lastOff, List.getLast?_map, hlast, view]
      rw [hoff] at hadq' halong' ⊢
      have hp2 : Pos H.dir e.cookie B := by rw [hsplit] at hp; exact pos_skip hp
      obtain ⟨_, hnod2, _, hopen2⟩ := hreply.kept
      have hW2 : Open st2 W := fun h hh => by rw [hopen2]; exact hW1 h hh
      have hlenp : 1 ≤ p.length := List.length_pos_iff.mpr hpe
      have hpl : p.length ≤ (real rest).length := hreply.isPrefix.length_le
      obtain ⟨ih1, ih2⟩ := ih st2 e.cookie B hreply.kept.1 (by rw [hnod2, hnod1, hnod]) hW2 hp2
        (fun s' hs' => hsteps s' (by simp [hs'])) halong' (by rw [hrealB]; exact hadq')
        (by rw [hrealB]; simp only [List.length_drop, List.length_cons] at hlen ⊢; omega)
      refine ⟨?_, ?_⟩
      · simp only [List.flatten_cons, ih1, hrealB]
        obtain ⟨t, ht⟩ := hreply.isPrefix
        rw [← ht]
        simp
      · cases hw : walk H st2 e.cookie more with
        | nil => rw [hw] at ih2; simp at ih2
        | cons y ys => rw [hw] at ih2; simpa [List.getLast?_cons_cons] using ih2

/-- executable twin of `Adequate` (for concrete instances) -/
def adequateB (H : Host) : St → Nat → Dir → List Step → Bool
  | _, _, _, [] => true
  | st, c, rem, s :: more =>
    decide (24 ≤ s.size) &&
    (match rem with
     | [] => true
     | e :: _ => decide (fuseLen s.plus e.name.length ≤ s.size)) &&
    match readReq H (applyOps H st s.noise) s.plus s.h s.size c none with
    | (_, .error _) => true
    | (st2, .ok es) => adequateB H st2 (lastOff es c) (rem.drop es.length) more

theorem adequate_of_bool (H : Host) (steps : List Step) :
    ∀ (st : St) (c : Nat) (rem : Dir), adequateB H st c rem steps = true → Adequate H st c rem steps := by
  induction steps with
  | nil => intro _ _ _ _; trivial
  | cons s more ih =>
    intro st c rem h
    simp only [adequateB, Bool.and_eq_true, decide_eq_true_eq] at h
    obtain ⟨⟨h1, h2⟩, h3⟩ := h
    refine ⟨h1, ?_, ?_⟩
    · intro e r hr
      subst hr
      simpa using h2
    · rcases hr : readReq H (applyOps H st s.noise) s.plus s.h s.size c none with ⟨st2, res⟩
      rw [hr] at h3
      cases res with
      | error e => trivial
      | ok es => exact ih _ _ _ h3

end Fbr.Lemmas.PtDir
