/-
  C08: the inode table refines the client ledger (`Ref`), composed from the effects of
  `do_lookup` and `forget_one`.
-/
import Fbr.PtSpec
import Fbr.Lemmas.PtEffect

namespace Fbr.PtRefs

/-- stored counts never exceed the number of successful lookups (+2 for the root's initial count) -/
def Bnd (s : St) : Prop := ∀ i d, mget s.data i = some d → d.refs ≤ s.lookups + 2

structure Good (s : St) (sp : Spec) : Prop where
  ref : Ref s sp
  bnd : Bnd s

/-- what a theorem about a run assumes of its *final* state; both ghosts are monotone, so it
    carries back to every intermediate state -/
def OK (s : St) : Prop := s.clobbered = false ∧ s.lookups + 2 < U64_MAX

/-- `s'` is later than `s` as far as the monotone ghosts are concerned -/
def Mono (s s' : St) : Prop := (s'.clobbered = false → s.clobbered = false) ∧ s.lookups ≤ s'.lookups

theorem Mono.ok {s s' : St} (h : Mono s s') (ok : OK s') : OK s :=
  ⟨h.1 ok.1, by have := h.2; have := ok.2; omega⟩

theorem Mono.refl (s : St) : Mono s s := ⟨id, Nat.le_refl _⟩

theorem Mono.trans {a b c : St} (h1 : Mono a b) (h2 : Mono b c) : Mono a c :=
  ⟨fun h => h1.1 (h2.1 h), Nat.le_trans h1.2 h2.2⟩

theorem Mono.of_tables {s s' : St} (h : s'.tables = s.tables) : Mono s s' :=
  ⟨fun hc => by rw [← clob_of_tables h]; exact hc, by rw [lookups_of_tables h]; exact Nat.le_refl _⟩

theorem LkEff.mono {e : Env} {s s' : St} {r : Except Errno Ino} (h : LkEff e s s' r) : Mono s s' := by
  rcases h with ⟨er, _, _, c, l, _⟩ | ⟨ino, d, _, _, _, c, l, _⟩ | ⟨ino, d, _, _, _, c, l, _⟩
  · exact ⟨fun hc => by rw [← c]; exact hc, by omega⟩
  · exact ⟨fun hc => by rw [← c]; exact hc, by omega⟩
  · refine ⟨fun hc => ?_, by omega⟩
    rw [c] at hc
    cases hs : s.clobbered with
    | false => rfl
    | true => simp [hs] at hc

theorem forgetOne_ghost (e : Env) (s : St) (i : Ino) (n : Nat) :
    (forgetOne e s i n).clobbered = s.clobbered ∧ (forgetOne e s i n).lookups = s.lookups := by
  unfold forgetOne
  split
  · exact ⟨rfl, rfl⟩
  · split
    · exact ⟨rfl, rfl⟩
    · rename_i d _
      simp only
      split
      · unfold removeInode
        simp only
        rw [clob_of_tables (tables_dropIData _ d), lookups_of_tables (tables_dropIData _ d)]
        split <;> exact ⟨rfl, rfl⟩
      · exact ⟨rfl, rfl⟩

theorem Ref.of_data {s s' : St} {sp : Spec} (hd : s'.data = s.data) (h : Ref s sp) : Ref s' sp := by
  intro i hi; rw [hd]; exact h i hi

theorem Bnd.of_tables {s s' : St} (ht : s'.tables = s.tables) (h : Bnd s) : Bnd s' := by
  intro i d hd; rw [data_of_tables ht] at hd; rw [lookups_of_tables ht]; exact h i d hd

theorem Good.of_tables {s s' : St} {sp : Spec} (ht : s'.tables = s.tables) (h : Good s sp) : Good s' sp :=
  ⟨h.ref.of_data (data_of_tables ht), h.bnd.of_tables ht⟩

theorem satAdd_exact {a : Nat} (h : a + 1 ≤ U64_MAX) : satAdd a 1 = a + 1 := by
  unfold satAdd; omega

theorem deliver_held_self (sp : Spec) {i : Ino} (hi : i ≠ ROOT_ID) :
    (sp.deliver i).held i = sp.held i + 1 := by
  simp [Spec.deliver, hi]

theorem deliver_held_other (sp : Spec) {i j : Ino} (h : i ≠ j) (hj : j ≠ ROOT_ID) :
    (sp.deliver i).held j = sp.held j := by
  unfold Spec.deliver
  split
  · rfl
  · have : ¬ j = i := fun x => h x.symm
    simp [this]

/-- a `do_lookup` refines "the entry it returns is delivered" -/
theorem good_lookup {e : Env} {s s' : St} {sp : Spec} {r : Except Errno Ino} (g : Good s sp)
    (h : LkEff e s s' r) (ok : OK s') :
    Good s' (sp.afterLookup r) := by
  rcases h with ⟨er, hr, hd, c, l, _⟩ | ⟨ino, d, hr, hm, hd, c, l, _⟩ | ⟨ino, d0, hr, h1, hd, c, l, _⟩
  · subst hr
    exact ⟨g.ref.of_data hd, by intro i d hi; rw [hd] at hi; rw [l]; exact g.bnd i d hi⟩
  · subst hr
    have hb := g.bnd ino d hm
    have hsat : satAdd d.refs 1 = d.refs + 1 := satAdd_exact (by have := ok.2; omega)
    constructor
    · intro i hi
      rw [hd, mget_mput]
      show _ = if (sp.deliver ino).held i = 0 then none else some ((sp.deliver ino).held i)
      by_cases e : ino = i
      · subst e
        have := g.ref ino hi
        rw [hm] at this
        simp only [Option.map_some] at this
        rw [deliver_held_self sp hi]
        simp only [if_true, Option.map_some, hsat]
        by_cases hz : sp.held ino = 0
        · simp [hz] at this
        · simp [hz] at this; simp [this]
      · rw [if_neg e, deliver_held_other sp e hi]
        exact g.ref i hi
    · intro i d' hi
      rw [hd, mget_mput] at hi
      by_cases e : ino = i
      · simp only [e, if_true] at hi; cases hi; simp only [hsat, l]; omega
      · simp only [e, if_false] at hi; have := g.bnd i d' hi; omega
  · subst hr
    have hcl : s.clobbered = false ∧ (ino = ROOT_ID ∨ mget s.data ino = none) := by
      have := ok.1; rw [c] at this
      cases hs : s.clobbered with
      | true => simp [hs] at this
      | false =>
        refine ⟨rfl, ?_⟩
        simp [hs] at this
        by_cases e : ino = ROOT_ID
        · exact Or.inl e
        · exact Or.inr (by cases hm : mget s.data ino with
            | none => rfl
            | some x => have := this e; simp [hm] at this)
    constructor
    · intro i hi
      rw [hd, mget_mput]
      show _ = if (sp.deliver ino).held i = 0 then none else some ((sp.deliver ino).held i)
      by_cases e : ino = i
      · subst e
        rcases hcl.2 with x | x
        · exact absurd x hi
        · have := g.ref ino hi
          rw [x] at this
          have hz : sp.held ino = 0 := by
            by_cases hz : sp.held ino = 0
            · exact hz
            · simp [hz] at this
          rw [deliver_held_self sp hi]
          simp [hz, h1]
      · rw [if_neg e, deliver_held_other sp e hi]
        exact g.ref i hi
    · intro i d' hi
      rw [hd, mget_mput] at hi
      by_cases e : ino = i
      · simp only [e, if_true] at hi; cases hi; omega
      · simp only [e, if_false] at hi; have := g.bnd i d' hi; omega

/-- `forget_one` refines the client's saturating subtraction -/
theorem good_forget (e : Env) {s : St} {sp : Spec} (g : Good s sp) (i : Ino) (n : Nat) :
    Good (forgetOne e s i n) (sp.forget i n) := by
  have hg := forgetOne_ghost e s i n
  constructor
  · intro j hj
    unfold Spec.forget
    by_cases hr : i = ROOT_ID
    · subst hr; rw [forgetOne_root]; simp only [if_true]; exact g.ref j hj
    · simp only [hr, if_false]
      by_cases e2 : i = j
      · subst e2
        have := g.ref i hj
        cases hm : mget s.data i with
        | none =>
          rw [forgetOne_absent e s i n hm, hm]
          rw [hm] at this
          by_cases hz : sp.held i = 0
          · simp [hz]
          · simp [hz] at this
        | some d =>
          rw [forgetOne_data_self e s i n d hr hm]
          rw [hm] at this
          by_cases hz : sp.held i = 0
          · simp [hz] at this
          · simp [hz] at this
            rw [← this]
            by_cases hn : d.refs - n = 0 <;> simp [hn]
      · rw [forgetOne_data_other e s i j n e2]
        have e3 : ¬ j = i := fun x => e2 x.symm
        simp only [e3, if_false]
        exact g.ref j hj
  · intro j d hj
    rw [hg.2]
    by_cases e2 : i = j
    · subst e2
      by_cases hr : i = ROOT_ID
      · subst hr; rw [forgetOne_root] at hj; exact g.bnd _ d hj
      · cases hm : mget s.data i with
        | none => rw [forgetOne_absent e s i n hm] at hj; exact g.bnd _ d hj
        | some d0 =>
          rw [forgetOne_data_self e s i n d0 hr hm] at hj
          have := g.bnd i d0 hm
          split at hj
          · cases hj
          · cases hj; simp only; omega
    · rw [forgetOne_data_other e s i j n e2] at hj; exact g.bnd j d hj

end Fbr.PtRefs
