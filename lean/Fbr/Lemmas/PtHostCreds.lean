/-
  Fbr.Lemmas.PtHostCreds — Hoare triples over the thread's credentials for the guard
  combinators of the model (`set_creds`, `ScopedUid/ScopedGid` drop, `drop_cap_fsetid`,
  `CapFsetid` drop): a guarded block is `Neutral` whenever its body is.
-/
import Fbr.Lemmas.PtHostRun

namespace Fbr.PtHost
open Fbr.Host

variable {σ : Type} {α β : Type}

/-- `{P} p {Q}` over the credentials of the thread -/
def Hoare (H : HostOps σ) (P : Creds → Prop) (p : Prog α) (Q : α → Creds → Prop) : Prop :=
  ∀ s, P (H.creds s) → Q (val H p s) (H.creds (fin H p s))

theorem hoare_pure (H : HostOps σ) (P : Creds → Prop) (a : α) : Hoare H P (Prog.pure a) (fun x c => x = a ∧ P c) :=
  fun _ h => ⟨rfl, h⟩

theorem hoare_bind {H : HostOps σ} {P : Creds → Prop} {p : Prog α} {Q : α → Creds → Prop} {f : α → Prog β}
    {R : β → Creds → Prop} (hp : Hoare H P p Q) (hf : ∀ a, Hoare H (Q a) (f a) R) : Hoare H P (p.bind f) R := by
  intro s hP
  rw [fin_bind, val_bind]
  exact hf _ _ (hp s hP)

theorem hoare_conseq {H : HostOps σ} {P P' : Creds → Prop} {p : Prog α} {Q Q' : α → Creds → Prop}
    (h : Hoare H P p Q) (hP : ∀ c, P' c → P c) (hQ : ∀ a c, Q a c → Q' a c) : Hoare H P' p Q' :=
  fun s hp => hQ _ _ (h s (hP _ hp))

theorem Inert.hoare {H : HostOps σ} {p : Prog α} (h : Inert H p) (c0 : Creds) :
    Hoare H (· = c0) p (fun _ c => c = c0) := by
  intro s hs; rw [h s]; exact hs

theorem neutral_of_hoare {H : HostOps σ} {p : Prog α}
    (h : ∀ c0, Base c0 → Hoare H (· = c0) p (fun _ c => CredsKept c0 c)) : Neutral H p :=
  fun s b => h _ b s rfl

theorem Neutral.hoare {H : HostOps σ} {p : Prog α} (h : Neutral H p) (c0 : Creds) (b : Base c0) :
    Hoare H (· = c0) p (fun _ c => CredsKept c0 c) := by
  intro s hs; subst hs; exact h s b

/-- request-monad triples: the postcondition sees the `io::Result` -/
def HoareM (H : HostOps σ) (P : Creds → Prop) (m : M α) (Q : Except Nat α → Creds → Prop) : Prop :=
  ∀ st, Hoare H P (m st) (fun r c => Q r.1 c)

theorem hoareM_bind {H : HostOps σ} {P : Creds → Prop} {m : M α} {Q : Except Nat α → Creds → Prop} {f : α → M β}
    {R : Except Nat β → Creds → Prop} (hm : HoareM H P m Q) (hf : ∀ a, HoareM H (Q (.ok a)) (f a) R)
    (he : ∀ e c, Q (.error e) c → R (.error e) c) : HoareM H P (m >>= f) R := by
  intro st
  show Hoare H P (M.bind' m f st) _
  unfold M.bind'
  refine hoare_bind (hm st) ?_
  intro r
  rcases r with ⟨r1, r2⟩
  cases r1 with
  | ok a => exact hf a r2
  | error e => intro s h; exact he e _ h

theorem hoareM_conseq {H : HostOps σ} {P P' : Creds → Prop} {m : M α} {Q Q' : Except Nat α → Creds → Prop}
    (h : HoareM H P m Q) (hP : ∀ c, P' c → P c) (hQ : ∀ a c, Q a c → Q' a c) : HoareM H P' m Q' :=
  fun st => hoare_conseq (h st) hP (fun _ _ => hQ _ _)

theorem InertM.hoareM {H : HostOps σ} {m : M α} (h : InertM H m) (c0 : Creds) :
    HoareM H (· = c0) m (fun _ c => c = c0) := fun st => (h.h st).hoare c0

theorem NeutralM.hoareM {H : HostOps σ} {m : M α} (h : NeutralM H m) (c0 : Creds) (b : Base c0) :
    HoareM H (· = c0) m (fun _ c => CredsKept c0 c) := fun st => (h.h st).hoare c0 b

theorem neutralM_of_hoareM {H : HostOps σ} {m : M α}
    (h : ∀ c0, Base c0 → HoareM H (· = c0) m (fun _ c => CredsKept c0 c)) : NeutralM H m :=
  ⟨fun st => neutral_of_hoare (fun c0 b => h c0 b st)⟩

theorem hoareM_pure (H : HostOps σ) (P : Creds → Prop) (a : α) :
    HoareM H P (pure a : M α) (fun r c => r = .ok a ∧ P c) := fun _ _ h => ⟨rfl, h⟩

theorem hoareM_throw (H : HostOps σ) (P : Creds → Prop) (e : Nat) :
    HoareM H P (M.throw e : M α) (fun r c => r = .error e ∧ P c) := fun _ _ h => ⟨rfl, h⟩

theorem hoareM_try {H : HostOps σ} {P : Creds → Prop} {m : M α} {Q : Except Nat α → Creds → Prop}
    (h : HoareM H P m Q) : HoareM H P (M.try' m) (fun r c => ∃ x, r = .ok x ∧ Q x c) := by
  intro st
  unfold M.try'
  refine hoare_bind (h st) ?_
  intro r s hq
  exact ⟨r.1, rfl, hq⟩

theorem hoareM_ofExcept (H : HostOps σ) (P : Creds → Prop) (x : Except Nat α) :
    HoareM H P (M.ofExcept x) (fun r c => r = x ∧ P c) := by
  cases x <;> intro _ _ h <;> exact ⟨rfl, h⟩

/-! ### single credential calls -/

section calls
variable {H : HostOps σ} [L : HostLaws H]

theorem hoareM_unit_setresgid (c0 : Creds) (g : Nat) :
    HoareM H (· = c0) (unitCall (.setresgid g))
      (fun r c => (r = .ok () ∧ c = { c0 with egid := g }) ∨ ((∃ e, r = .error e) ∧ c = c0)) := by
  intro st s hs
  subst hs
  have sp := L.setresgid_spec s g
  simp only [unitCall, bind_def, M.bind', M.sys, Prog.bind, val_call, fin_call]
  rcases sp with ⟨h1, h2⟩ | ⟨⟨e, h1⟩, h2⟩
  · left; rw [h1]; exact ⟨rfl, h2⟩
  · right; rw [h1]; exact ⟨⟨e, rfl⟩, h2⟩

theorem hoareM_unit_setresuid (c0 : Creds) (u : Nat) :
    HoareM H (· = c0) (unitCall (.setresuid u))
      (fun r c => (r = .ok () ∧ c = c0.afterSetuid u) ∨ ((∃ e, r = .error e) ∧ c = c0)) := by
  intro st s hs
  subst hs
  have sp := L.setresuid_spec s u
  simp only [unitCall, bind_def, M.bind', M.sys, Prog.bind, val_call, fin_call]
  rcases sp with ⟨h1, h2⟩ | ⟨⟨e, h1⟩, h2⟩
  · left; rw [h1]; exact ⟨rfl, h2⟩
  · right; rw [h1]; exact ⟨⟨e, rfl⟩, h2⟩

/-- the guard drop `setresgid(-1, 0, -1)`: always succeeds -/
theorem hoareM_sys_setresgid0 (c0 : Creds) :
    HoareM H (· = c0) (M.sys (.setresgid 0)) (fun r c => (∃ a, r = .ok a) ∧ c = { c0 with egid := 0 }) := by
  intro st s hs
  subst hs
  have sp := L.setresgid_spec s 0
  have z := L.setresgid_zero s
  simp only [M.sys, val_call, fin_call]
  rcases sp with ⟨_, h2⟩ | ⟨⟨e, h1⟩, _⟩
  · exact ⟨⟨_, rfl⟩, h2⟩
  · rw [z] at h1; cases h1

theorem hoareM_sys_setresuid0 (c0 : Creds) :
    HoareM H (· = c0) (M.sys (.setresuid 0)) (fun r c => (∃ a, r = .ok a) ∧ c = c0.afterSetuid 0) := by
  intro st s hs
  subst hs
  have sp := L.setresuid_spec s 0
  have z := L.setresuid_zero s
  simp only [M.sys, val_call, fin_call]
  rcases sp with ⟨_, h2⟩ | ⟨⟨e, h1⟩, _⟩
  · exact ⟨⟨_, rfl⟩, h2⟩
  · rw [z] at h1; cases h1

end calls

end Fbr.PtHost

namespace Fbr.PtHost
open Fbr.Host

variable {σ : Type} {α β : Type} {H : HostOps σ} [L : HostLaws H]

omit L in
theorem hoareM_pre_pure {φ : Prop} {P : Creds → Prop} {m : M α} {Q : Except Nat α → Creds → Prop}
    (h : φ → HoareM H P m Q) : HoareM H (fun c => φ ∧ P c) m Q :=
  fun st s hp => h hp.1 st s hp.2

/-! ### `ScopedGid` / `ScopedUid` / `set_creds` -/

theorem hoareM_scopedGid (c0 : Creds) (gid : Nat) :
    HoareM H (· = c0) (scopedGid gid)
      (fun r c => (r = .ok (decide (gid ≠ 0)) ∧ c = (if gid = 0 then c0 else { c0 with egid := gid })) ∨
                  ((∃ e, r = .error e) ∧ c = c0)) := by
  unfold scopedGid
  by_cases hg : gid = 0
  · simp only [hg, if_true]
    exact hoareM_conseq (hoareM_pure H _ false) (fun _ h => h) (fun a c h => Or.inl (by simpa using h))
  · simp only [hg, if_false]
    refine hoareM_bind (hoareM_unit_setresgid c0 gid) ?_ ?_
    · intro a
      refine hoareM_conseq (hoareM_pure H _ true) (fun _ h => h) ?_
      intro r c ⟨h1, h2⟩
      rcases h2 with ⟨_, h2⟩ | ⟨⟨e, he⟩, _⟩
      · left; exact ⟨by simp [h1, hg], h2⟩
      · cases he
    · intro e c h
      rcases h with ⟨h1, _⟩ | ⟨_, h2⟩
      · cases h1
      · right; exact ⟨⟨e, rfl⟩, h2⟩

theorem hoareM_scopedUid (c0 : Creds) (uid : Nat) :
    HoareM H (· = c0) (scopedUid uid)
      (fun r c => (r = .ok (decide (uid ≠ 0)) ∧ c = (if uid = 0 then c0 else c0.afterSetuid uid)) ∨
                  ((∃ e, r = .error e) ∧ c = c0)) := by
  unfold scopedUid
  by_cases hg : uid = 0
  · simp only [hg, if_true]
    exact hoareM_conseq (hoareM_pure H _ false) (fun _ h => h) (fun a c h => Or.inl (by simpa using h))
  · simp only [hg, if_false]
    refine hoareM_bind (hoareM_unit_setresuid c0 uid) ?_ ?_
    · intro a
      refine hoareM_conseq (hoareM_pure H _ true) (fun _ h => h) ?_
      intro r c ⟨h1, h2⟩
      rcases h2 with ⟨_, h2⟩ | ⟨⟨e, he⟩, _⟩
      · left; exact ⟨by simp [h1, hg], h2⟩
      · cases he
    · intro e c h
      rcases h with ⟨h1, _⟩ | ⟨_, h2⟩
      · cases h1
      · right; exact ⟨⟨e, rfl⟩, h2⟩

/-- credentials inside a `set_creds(uid, gid)` scope entered from `c0` -/
def inScope (c0 : Creds) (uid gid : Nat) : Creds :=
  let c1 : Creds := if gid = 0 then c0 else { c0 with egid := gid }
  if uid = 0 then c1 else c1.afterSetuid uid

theorem hoareM_setCreds (c0 : Creds) (b : Base c0) (uid gid : Nat) :
    HoareM H (· = c0) (setCreds uid gid)
      (fun r c => (r = .ok (decide (uid ≠ 0), decide (gid ≠ 0)) ∧ c = inScope c0 uid gid) ∨
                  ((∃ e, r = .error e) ∧ c = c0)) := by
  unfold setCreds
  refine hoareM_bind (hoareM_scopedGid c0 gid) ?_ ?_
  · intro g
    -- the gid guard is alive (or gid = 0)
    refine hoareM_conseq (P := fun c => g = decide (gid ≠ 0) ∧ c = (if gid = 0 then c0 else { c0 with egid := gid })) ?_ ?_ (fun _ _ h => h)
    · refine hoareM_pre_pure (fun hg => ?_)
      refine hoareM_bind (hoareM_try (hoareM_scopedUid _ uid)) ?_ ?_
      · intro r
        cases r with
        | ok u =>
          refine hoareM_conseq (hoareM_pure H _ (u, g)) (fun _ h => h) ?_
          intro r c ⟨h1, x, hx, h2⟩
          cases hx
          rcases h2 with ⟨h2, h3⟩ | ⟨⟨e, he⟩, _⟩
          · left
            cases h2
            exact ⟨by rw [h1, hg], by simp only [inScope]; exact h3⟩
          · cases he
        | error e =>
          -- the uid switch failed: the gid guard is dropped, the error returned
          refine hoareM_bind (Q := fun _ c => c = c0) ?_ (fun _ => ?_) (fun e c h => ?_)
          · unfold dropGid
            by_cases hgz : gid = 0
            · have : g = false := by simp [hg, hgz]
              subst this
              simp only [Bool.false_eq_true, if_false]
              refine hoareM_conseq (hoareM_pure H _ ()) (fun _ h => h) ?_
              intro r c ⟨_, ⟨x, hx, h2⟩⟩
              cases hx
              rcases h2 with ⟨h2, _⟩ | ⟨_, h3⟩
              · cases h2
              · simpa [hgz] using h3
            · have : g = true := by simp [hg, hgz]
              subst this
              simp only [if_true]
              refine hoareM_conseq (P := fun c => c = ({ c0 with egid := gid } : Creds)) ?_ ?_ (fun _ _ h => h)
              · refine hoareM_bind (hoareM_sys_setresgid0 _) (fun _ => ?_) (fun e c h => by obtain ⟨⟨a, ha⟩, _⟩ := h; cases ha)
                refine hoareM_conseq (hoareM_pure H _ ()) (fun _ h => h) ?_
                intro r c ⟨_, _, h3⟩
                rw [h3]
                obtain ⟨_, b2, _⟩ := b
                cases c0; simp_all
              · intro c ⟨x, hx, h2⟩
                cases hx
                rcases h2 with ⟨h2, _⟩ | ⟨_, h3⟩
                · cases h2
                · simpa [hgz] using h3
          · refine hoareM_conseq (hoareM_throw H _ e) (fun _ h => h) ?_
            intro r c ⟨h1, h2⟩
            right; exact ⟨⟨e, h1⟩, h2⟩
          · right; exact ⟨⟨e, rfl⟩, h⟩
      · intro e c h
        obtain ⟨x, hx, _⟩ := h
        cases hx
    · intro c h
      rcases h with ⟨h1, h2⟩ | ⟨⟨e, he⟩, _⟩
      · cases h1; exact ⟨rfl, h2⟩
      · cases he
  · intro e c h
    rcases h with ⟨h1, _⟩ | ⟨_, h2⟩
    · cases h1
    · right; exact ⟨⟨e, rfl⟩, h2⟩

end Fbr.PtHost

namespace Fbr.PtHost
open Fbr.Host

variable {σ : Type} {α β : Type} {H : HostOps σ} [L : HostLaws H]

/-! ### guard drop and the guarded block -/

theorem hoareM_dropGid (c1 : Creds) (g : Bool) :
    HoareM H (· = c1) (dropGid g) (fun r c => (∃ a, r = .ok a) ∧ c = (if g then { c1 with egid := 0 } else c1)) := by
  unfold dropGid
  cases g with
  | false =>
    simp only [Bool.false_eq_true, if_false]
    exact hoareM_conseq (hoareM_pure H _ ()) (fun _ h => h) (fun r c h => ⟨⟨_, h.1⟩, h.2⟩)
  | true =>
    simp only [if_true]
    refine hoareM_bind (hoareM_sys_setresgid0 c1) (fun _ => ?_) (fun e c h => by obtain ⟨⟨a, ha⟩, _⟩ := h; cases ha)
    exact hoareM_conseq (hoareM_pure H _ ()) (fun _ h => h) (fun r c h => ⟨⟨_, h.1⟩, h.2.2⟩)

theorem hoareM_dropUid (c1 : Creds) (g : Bool) :
    HoareM H (· = c1) (dropUid g) (fun r c => (∃ a, r = .ok a) ∧ c = (if g then c1.afterSetuid 0 else c1)) := by
  unfold dropUid
  cases g with
  | false =>
    simp only [Bool.false_eq_true, if_false]
    exact hoareM_conseq (hoareM_pure H _ ()) (fun _ h => h) (fun r c h => ⟨⟨_, h.1⟩, h.2⟩)
  | true =>
    simp only [if_true]
    refine hoareM_bind (hoareM_sys_setresuid0 c1) (fun _ => ?_) (fun e c h => by obtain ⟨⟨a, ha⟩, _⟩ := h; cases ha)
    exact hoareM_conseq (hoareM_pure H _ ()) (fun _ h => h) (fun r c h => ⟨⟨_, h.1⟩, h.2.2⟩)

/-- leaving a `set_creds` scope entered from a `Base` state restores it (up to the refresh of the
    effective capability set by the uid round trip) -/
theorem inScope_dropped (c0 : Creds) (b : Base c0) (uid gid : Nat) :
    CredsKept c0
      (let c2 : Creds := if decide (gid ≠ 0) then { inScope c0 uid gid with egid := 0 } else inScope c0 uid gid
       if decide (uid ≠ 0) then c2.afterSetuid 0 else c2) := by
  obtain ⟨b1, b2, b3⟩ := b
  by_cases hu : uid = 0 <;> by_cases hg : gid = 0 <;>
    simp [inScope, Creds.afterSetuid, CredsKept, hu, hg, b1, b2]

theorem hoareM_dropCreds (c0 : Creds) (b : Base c0) (uid gid : Nat) :
    HoareM H (· = inScope c0 uid gid) (dropCreds (decide (uid ≠ 0), decide (gid ≠ 0)))
      (fun r c => (∃ a, r = .ok a) ∧ CredsKept c0 c) := by
  unfold dropCreds
  refine hoareM_bind (hoareM_dropGid _ _) (fun _ => ?_) (fun e c h => by obtain ⟨⟨a, ha⟩, _⟩ := h; cases ha)
  refine hoareM_conseq (P := fun c => c = (if decide (gid ≠ 0) then { inScope c0 uid gid with egid := 0 } else inScope c0 uid gid)) (hoareM_dropUid _ _) (fun c h => h.2) ?_
  intro r c ⟨h1, h2⟩
  refine ⟨h1, ?_⟩
  rw [h2]
  exact inScope_dropped c0 b uid gid

/-- `{ let (_uid, _gid) = set_creds(uid, gid)?; body }` is balanced when `body` does not touch the
    credentials: every exit path (gid switch fails, uid switch fails after the gid switch, body
    fails, body succeeds) ends with the credentials of the start -/
theorem neutralM_withCreds (uid gid : Nat) {body : M α} (hb : InertM H body) : NeutralM H (withCreds uid gid body) := by
  refine neutralM_of_hoareM (fun c0 b => ?_)
  unfold withCreds
  refine hoareM_bind (hoareM_setCreds c0 b uid gid) (fun g => ?_) ?_
  · refine hoareM_conseq (P := fun c => g = (decide (uid ≠ 0), decide (gid ≠ 0)) ∧ c = inScope c0 uid gid) ?_ ?_ (fun _ _ h => h)
    · refine hoareM_pre_pure (fun hg => ?_)
      subst hg
      refine hoareM_bind (hoareM_try (hb.hoareM _)) (fun r => ?_) (fun e c h => by obtain ⟨x, hx, _⟩ := h; cases hx)
      refine hoareM_conseq (P := fun c => c = inScope c0 uid gid) ?_ (fun c h => by obtain ⟨x, _, h2⟩ := h; exact h2) (fun _ _ h => h)
      refine hoareM_bind (hoareM_dropCreds c0 b uid gid) (fun _ => ?_) (fun e c h => by obtain ⟨⟨a, ha⟩, _⟩ := h; cases ha)
      exact hoareM_conseq (hoareM_ofExcept H _ r) (fun _ h => h) (fun _ _ h => h.2.2)
    · intro c h
      rcases h with ⟨h1, h2⟩ | ⟨⟨e, he⟩, _⟩
      · cases h1; exact ⟨rfl, h2⟩
      · cases he
  · intro e c h
    rcases h with ⟨h1, _⟩ | ⟨_, h2⟩
    · cases h1
    · rw [h2]; exact CredsKept.refl _

end Fbr.PtHost

namespace Fbr.PtHost
open Fbr.Host

variable {σ : Type} {α β : Type} {H : HostOps σ} [L : HostLaws H]

/-! ### `drop_cap_fsetid` / `CapFsetid` -/

theorem hoareM_sys_capget (c0 : Creds) :
    HoareM H (· = c0) (M.sys .capget) (fun r c => r = .ok (.caps c0.effFsetid) ∧ c = c0) := by
  intro st s hs
  subst hs
  simp only [M.sys, val_call, fin_call, val_pure, fin_pure]
  exact ⟨by rw [L.capget_spec s], L.creds_other s .capget rfl⟩

theorem hoareM_sys_capset (c0 : Creds) (b : Bool) :
    HoareM H (· = c0) (M.sys (.capset b))
      (fun r c => (r = .ok .ok ∧ c = { c0 with effFsetid := b }) ∨ ((∃ e, r = .ok (.err e)) ∧ c = c0)) := by
  intro st s hs
  subst hs
  simp only [M.sys, val_call, fin_call, val_pure, fin_pure]
  rcases L.capset_spec s b with ⟨h1, h2⟩ | ⟨⟨e, h1⟩, h2⟩
  · left; exact ⟨by rw [h1], h2⟩
  · right; exact ⟨⟨e, by rw [h1]⟩, h2⟩

/-- a `capget` whose answer is known, followed by `k` -/
theorem hoareM_capget_then (c0 : Creds) {k : HAns → M β} {R : Except Nat β → Creds → Prop}
    (hk : HoareM H (· = c0) (k (.caps c0.effFsetid)) R) : HoareM H (· = c0) (M.sys .capget >>= k) R := by
  refine hoareM_bind (hoareM_sys_capget c0) (fun a => ?_) (fun e c h => by cases h.1)
  refine hoareM_conseq (P := fun c => a = .caps c0.effFsetid ∧ c = c0) (hoareM_pre_pure (fun ha => ?_))
    (fun c h => ⟨by cases h.1; rfl, h.2⟩) (fun _ _ h => h)
  subst ha
  exact hk

theorem hoareM_dropCap (c0 : Creds) :
    HoareM H (· = c0) dropCapFsetid
      (fun r c => (r = .ok false ∧ c = c0) ∨ (r = .ok true ∧ c0.effFsetid = true ∧ c = { c0 with effFsetid := false }) ∨
                  ((∃ e, r = .error e) ∧ c = c0)) := by
  unfold dropCapFsetid
  refine hoareM_capget_then c0 ?_
  cases he : c0.effFsetid with
  | false =>
    simp only []
    exact hoareM_conseq (hoareM_pure H _ false) (fun _ h => h) (fun r c h => Or.inl h)
  | true =>
    simp only []
    refine hoareM_capget_then c0 ?_
    rw [he]; simp only []
    refine hoareM_capget_then c0 ?_
    rw [he]; simp only []
    refine hoareM_bind (hoareM_sys_capset c0 false) (fun a => ?_) (fun e c h => by rcases h with ⟨h, _⟩ | ⟨⟨_, h⟩, _⟩ <;> cases h)
    cases a with
    | ok =>
      simp only []
      refine hoareM_conseq (hoareM_pure H _ true) (fun _ h => h) ?_
      intro r c ⟨h1, h2⟩
      rcases h2 with ⟨_, h2⟩ | ⟨⟨e, h3⟩, _⟩
      · right; left; exact ⟨h1, trivial, h2⟩
      · cases h3
    | err e =>
      simp only []
      refine hoareM_conseq (hoareM_throw H _ E_KIND_PERM) (fun _ h => h) ?_
      intro r c ⟨h1, h2⟩
      rcases h2 with ⟨h3, _⟩ | ⟨_, h2⟩
      · cases h3
      · right; right; exact ⟨⟨_, h1⟩, h2⟩
    | _ =>
      simp only []
      refine hoareM_conseq (hoareM_throw H _ E_KIND_PERM) (fun _ h => h) ?_
      intro r c ⟨_, h2⟩
      rcases h2 with ⟨h3, _⟩ | ⟨⟨_, h3⟩, _⟩ <;> cases h3

theorem hoareM_sys_capset_raise (c0 : Creds) (hp : c0.permFsetid = true) (hu : c0.euid = 0) :
    HoareM H (· = c0) (M.sys (.capset true)) (fun r c => r = .ok .ok ∧ c = { c0 with effFsetid := true }) := by
  intro st s hs
  subst hs
  simp only [M.sys, val_call, fin_call, val_pure, fin_pure]
  have z := L.capset_raise s hp hu
  rcases L.capset_spec s true with ⟨h1, h2⟩ | ⟨⟨e, h1⟩, _⟩
  · exact ⟨by rw [h1], h2⟩
  · rw [z] at h1; cases h1

/-- `impl Drop for CapFsetid` from a root state whose permitted set has the capability: afterwards
    it is effective again -/
theorem hoareM_raiseCap (c1 : Creds) (hp : c1.permFsetid = true) (hu : c1.euid = 0) :
    HoareM H (· = c1) raiseCapFsetid (fun r c => (∃ a, r = .ok a) ∧ c = { c1 with effFsetid := true }) := by
  unfold raiseCapFsetid
  refine hoareM_capget_then c1 ?_
  cases he : c1.effFsetid with
  | true =>
    simp only []
    refine hoareM_conseq (hoareM_pure H _ ()) (fun _ h => h) ?_
    intro r c ⟨h1, h2⟩
    refine ⟨⟨_, h1⟩, ?_⟩
    rw [h2]; cases c1; simp_all
  | false =>
    simp only []
    refine hoareM_capget_then c1 ?_
    rw [he]; simp only []
    refine hoareM_bind (hoareM_sys_capset_raise c1 hp hu) (fun a => ?_) (fun e c h => by cases h.1)
    exact hoareM_conseq (hoareM_pure H _ ()) (fun _ h => h) (fun r c h => ⟨⟨_, h.1⟩, h.2.2⟩)

end Fbr.PtHost

namespace Fbr.PtHost
open Fbr.Host

variable {σ : Type} {α β : Type} {H : HostOps σ} [L : HostLaws H]

omit L in
theorem hoareM_of_points {P : Creds → Prop} {m : M α} {Q : Except Nat α → Creds → Prop}
    (h : ∀ c1, P c1 → HoareM H (· = c1) m Q) : HoareM H P m Q :=
  fun st s hp => h _ hp st s rfl

/-- `let _killpriv = if cond { drop_cap_fsetid()? } else { None }; body`: balanced when `body` is -/
theorem neutralM_withKillpriv (cond : Bool) {body : M α} (hb : NeutralM H body) : NeutralM H (withKillpriv cond body) := by
  refine neutralM_of_hoareM (fun c0 b => ?_)
  unfold withKillpriv
  have hfirst : HoareM H (· = c0) (if cond then dropCapFsetid else pure false : M Bool)
      (fun r c => (r = .ok false ∧ c = c0) ∨ (r = .ok true ∧ c0.effFsetid = true ∧ c = { c0 with effFsetid := false }) ∨
                  ((∃ e, r = .error e) ∧ c = c0)) := by
    cases cond with
    | true => simp only [if_true]; exact hoareM_dropCap c0
    | false =>
      simp only [Bool.false_eq_true, if_false]
      exact hoareM_conseq (hoareM_pure H _ false) (fun _ h => h) (fun r c h => Or.inl h)
  refine hoareM_bind hfirst (fun g => ?_) ?_
  · cases g with
    | false =>
      -- no guard: the body alone
      refine hoareM_conseq (P := fun c => c = c0) ?_ ?_ (fun _ _ h => h)
      · refine hoareM_bind (hoareM_try (hb.hoareM c0 b)) (fun r => ?_) (fun e c h => by obtain ⟨x, hx, _⟩ := h; cases hx)
        simp only [Bool.false_eq_true, if_false]
        refine hoareM_bind (hoareM_pure H _ ()) (fun _ => ?_) (fun e c h => by cases h.1)
        refine hoareM_conseq (hoareM_ofExcept H _ r) (fun _ h => h) ?_
        intro a c ⟨_, _, ⟨x, _, h3⟩⟩
        exact h3
      · intro c h
        rcases h with ⟨_, h2⟩ | ⟨h1, _⟩ | ⟨⟨e, he⟩, _⟩
        · exact h2
        · cases h1
        · cases he
    | true =>
      refine hoareM_conseq (P := fun c => c0.effFsetid = true ∧ c = { c0 with effFsetid := false }) (hoareM_pre_pure (fun he => ?_)) ?_ (fun _ _ h => h)
      · have b1 : Base ({ c0 with effFsetid := false } : Creds) := ⟨b.1, b.2.1, fun h => by cases h⟩
        refine hoareM_bind (hoareM_try (hb.hoareM _ b1)) (fun r => ?_) (fun e c h => by obtain ⟨x, hx, _⟩ := h; cases hx)
        simp only [if_true]
        refine hoareM_bind (Q := fun _ c => CredsKept c0 c) (hoareM_of_points (fun c2 h2 => ?_)) (fun _ => ?_) (fun e c h => h)
        · obtain ⟨x, _, k1, k2, k3, _⟩ := h2
          have hp : c2.permFsetid = true := by rw [k3]; exact b.2.2 he
          have hu : c2.euid = 0 := by rw [k1]; exact b.1
          refine hoareM_conseq (hoareM_raiseCap c2 hp hu) (fun _ h => h) ?_
          intro r c ⟨_, hc⟩
          rw [hc]
          exact ⟨k1, k2, k3, Or.inl (by simp [he])⟩
        · exact hoareM_conseq (hoareM_ofExcept H _ r) (fun _ h => h) (fun _ _ h => h.2)
      · intro c h
        rcases h with ⟨h1, _⟩ | ⟨_, h2, h3⟩ | ⟨⟨e, he⟩, _⟩
        · cases h1
        · exact ⟨h2, h3⟩
        · cases he
  · intro e c h
    rcases h with ⟨h1, _⟩ | ⟨h1, _⟩ | ⟨_, h2⟩
    · cases h1
    · cases h1
    · rw [h2]; exact CredsKept.refl _

end Fbr.PtHost
