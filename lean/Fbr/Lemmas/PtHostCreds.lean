/-
  Fbr.Lemmas.PtHostCreds — Hoare triples over the thread's credentials for the guard
  combinators of the model (`set_creds`, `ScopedUid/ScopedGid` drop, `drop_cap_fsetid`,
  `CapFsetid` drop): a guarded block is `Neutral` whenever its body is.
-/
import Fbr.Lemmas.PtHostRun

namespace Fbr.PtHost
open Fbr.Host

variable {σ : Type} {α β : Type}

/-- `{P} p {Q}` over the credentials of the thread -/
def Hoare (H : HostOps σ) (P : Creds → Prop) (p : Prog α) (Q : α → Creds → Prop) : Prop :=
  ∀ s, P (H.creds s) → Q (val H p s) (H.creds (fin H p s))

theorem hoare_pure (H : HostOps σ) (P : Creds → Prop) (a : α) : Hoare H P (Prog.pure a) (fun x c => x = a ∧ P c) :=
  fun _ h => ⟨rfl, h⟩

theorem hoare_bind {H : HostOps σ} {P : Creds → Prop} {p : Prog α} {Q : α → Creds → Prop} {f : α → Prog β}
    {R : β → Creds → Prop} (hp : Hoare H P p Q) (hf : ∀ a, Hoare H (Q a) (f a) R) : Hoare H P (p.bind f) R := by
  intro s hP
  rw [fin_bind, val_bind]
  exact hf _ _ (hp s hP)

theorem hoare_conseq {H : HostOps σ} {P P' : Creds → Prop} {p : Prog α} {Q Q' : α → Creds → Prop}
    (h : Hoare H P p Q) (hP : ∀ c, P' c → P c) (hQ : ∀ a c, Q a c → Q' a c) : Hoare H P' p Q' :=
  fun s hp => hQ _ _ (h s (hP _ hp))

theorem Inert.hoare {H : HostOps σ} {p : Prog α} (h : Inert H p) (c0 : Creds) :
    Hoare H (· = c0) p (fun _ c => c = c0) := by
  intro s hs; rw [h s]; exact hs

theorem neutral_of_hoare {H : HostOps σ} {p : Prog α}
    (h : ∀ c0, Base c0 → Hoare H (· = c0) p (fun _ c => CredsKept c0 c)) : Neutral H p :=
  fun s b => h _ b s rfl

theorem Neutral.hoare {H : HostOps σ} {p : Prog α} (h : Neutral H p) (c0 : Creds) (b : Base c0) :
    Hoare H (· = c0) p (fun _ c => CredsKept c0 c) := by
  intro s hs; subst hs; exact h s b

/-- request-monad triples: the postcondition sees the `io::Result` -/
def HoareM (H : HostOps σ) (P : Creds → Prop) (m : M α) (Q : Except Nat α → Creds → Prop) : Prop :=
  ∀ st, Hoare H P (m st) (fun r c => Q r.1 c)

theorem hoareM_bind {H : HostOps σ} {P : Creds → Prop} {m : M α} {Q : Except Nat α → Creds → Prop} {f : α → M β}
    {R : Except Nat β → Creds → Prop} (hm : HoareM H P m Q) (hf : ∀ a, HoareM H (Q (.ok a)) (f a) R)
    (he : ∀ e c, Q (.error e) c → R (.error e) c) : HoareM H P (m >>= f) R := by
  intro st
  show Hoare H P (M.bind' m f st) _
  unfold M.bind'
  refine hoare_bind (hm st) ?_
  intro r
  rcases r with ⟨r1, r2⟩
  cases r1 with
  | ok a => exact hf a r2
  | error e => intro s h; exact he e _ h

theorem hoareM_conseq {H : HostOps σ} {P P' : Creds → Prop} {m : M α} {Q Q' : Except Nat α → Creds → Prop}
    (h : HoareM H P m Q) (hP : ∀ c, P' c → P c) (hQ : ∀ a c, Q a c → Q' a c) : HoareM H P' m Q' :=
  fun st => hoare_conseq (h st) hP (fun _ _ => hQ _ _)

theorem InertM.hoareM {H : HostOps σ} {m : M α} (h : InertM H m) (c0 : Creds) :
    HoareM H (· = c0) m (fun _ c => c = c0) := fun st => (h st).hoare c0

theorem NeutralM.hoareM {H : HostOps σ} {m : M α} (h : NeutralM H m) (c0 : Creds) (b : Base c0) :
    HoareM H (· = c0) m (fun _ c => CredsKept c0 c) := fun st => (h st).hoare c0 b

theorem neutralM_of_hoareM {H : HostOps σ} {m : M α}
    (h : ∀ c0, Base c0 → HoareM H (· = c0) m (fun _ c => CredsKept c0 c)) : NeutralM H m :=
  fun st => neutral_of_hoare (fun c0 b => h c0 b st)

theorem hoareM_pure (H : HostOps σ) (P : Creds → Prop) (a : α) :
    HoareM H P (pure a : M α) (fun r c => r = .ok a ∧ P c) := fun _ _ h => ⟨rfl, h⟩

theorem hoareM_throw (H : HostOps σ) (P : Creds → Prop) (e : Nat) :
    HoareM H P (M.throw e : M α) (fun r c => r = .error e ∧ P c) := fun _ _ h => ⟨rfl, h⟩

theorem hoareM_try {H : HostOps σ} {P : Creds → Prop} {m : M α} {Q : Except Nat α → Creds → Prop}
    (h : HoareM H P m Q) : HoareM H P (M.try' m) (fun r c => ∃ x, r = .ok x ∧ Q x c) := by
  intro st
  unfold M.try'
  refine hoare_bind (h st) ?_
  intro r s hq
  exact ⟨r.1, rfl, hq⟩

theorem hoareM_ofExcept (H : HostOps σ) (P : Creds → Prop) (x : Except Nat α) :
    HoareM H P (M.ofExcept x) (fun r c => r = x ∧ P c) := by
  cases x <;> intro _ _ h <;> exact ⟨rfl, h⟩

/-! ### single credential calls -/

section calls
variable {H : HostOps σ} [L : HostLaws H]

theorem hoareM_unit_setresgid (c0 : Creds) (g : Nat) :
    HoareM H (· = c0) (unitCall (.setresgid g))
      (fun r c => (r = .ok () ∧ c = { c0 with egid := g }) ∨ ((∃ e, r = .error e) ∧ c = c0)) := by
  intro st s hs
  subst hs
  have sp := L.setresgid_spec s g
  simp only [unitCall, bind_def, M.bind', M.sys, Prog.bind, val_call, fin_call]
  rcases sp with ⟨h1, h2⟩ | ⟨⟨e, h1⟩, h2⟩
  · left; rw [h1]; exact ⟨rfl, h2⟩
  · right; rw [h1]; exact ⟨⟨e, rfl⟩, h2⟩

theorem hoareM_unit_setresuid (c0 : Creds) (u : Nat) :
    HoareM H (· = c0) (unitCall (.setresuid u))
      (fun r c => (r = .ok () ∧ c = c0.afterSetuid u) ∨ ((∃ e, r = .error e) ∧ c = c0)) := by
  intro st s hs
  subst hs
  have sp := L.setresuid_spec s u
  simp only [unitCall, bind_def, M.bind', M.sys, Prog.bind, val_call, fin_call]
  rcases sp with ⟨h1, h2⟩ | ⟨⟨e, h1⟩, h2⟩
  · left; rw [h1]; exact ⟨rfl, h2⟩
  · right; rw [h1]; exact ⟨⟨e, rfl⟩, h2⟩

/-- the guard drop `setresgid(-1, 0, -1)`: always succeeds -/
theorem hoareM_sys_setresgid0 (c0 : Creds) :
    HoareM H (· = c0) (M.sys (.setresgid 0)) (fun r c => (∃ a, r = .ok a) ∧ c = { c0 with egid := 0 }) := by
  intro st s hs
  subst hs
  have sp := L.setresgid_spec s 0
  have z := L.setresgid_zero s
  simp only [M.sys, val_call, fin_call]
  rcases sp with ⟨_, h2⟩ | ⟨⟨e, h1⟩, _⟩
  · exact ⟨⟨_, rfl⟩, h2⟩
  · rw [z] at h1; cases h1

theorem hoareM_sys_setresuid0 (c0 : Creds) :
    HoareM H (· = c0) (M.sys (.setresuid 0)) (fun r c => (∃ a, r = .ok a) ∧ c = c0.afterSetuid 0) := by
  intro st s hs
  subst hs
  have sp := L.setresuid_spec s 0
  have z := L.setresuid_zero s
  simp only [M.sys, val_call, fin_call]
  rcases sp with ⟨_, h2⟩ | ⟨⟨e, h1⟩, _⟩
  · exact ⟨⟨_, rfl⟩, h2⟩
  · rw [z] at h1; cases h1

end calls

end Fbr.PtHost
