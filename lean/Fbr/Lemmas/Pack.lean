/-
  Arithmetic of `UniqueInodeGenerator`'s packing `(unique_id << 47) | inode`, with the virtual-inode
  bit `1 << 55` (util.rs).
-/
import Fbr.PtRefs

namespace Fbr.PtRefs

theorem packIno_eq (uid ino : Nat) (h : ino < 2 ^ 47) : packIno uid ino = uid * 2 ^ 47 + ino := by
  unfold packIno
  rw [← Nat.shiftLeft_add_eq_or_of_lt h, Nat.shiftLeft_eq]

theorem virt_eq (v : Nat) (h : v < 2 ^ 55) : v ||| VIRTUAL_INODE_FLAG = 2 ^ 55 + v := by
  unfold VIRTUAL_INODE_FLAG
  have := Nat.two_pow_add_eq_or_of_lt h 1
  rw [Nat.or_comm]
  simpa using this.symm

theorem packIno_virt_eq (uid v : Nat) (hu : uid < 256) (hv : v < 2 ^ 47) :
    packIno uid (v ||| VIRTUAL_INODE_FLAG) = 2 ^ 55 + (uid * 2 ^ 47 + v) := by
  have hv55 : v < 2 ^ 55 := by omega
  have hx : uid * 2 ^ 47 + v < 2 ^ 55 := by omega
  have h1 : (uid <<< 47) ||| v = uid * 2 ^ 47 + v := by
    rw [← Nat.shiftLeft_add_eq_or_of_lt hv, Nat.shiftLeft_eq]
  have h2 := Nat.two_pow_add_eq_or_of_lt hx 1
  unfold packIno VIRTUAL_INODE_FLAG
  calc (uid <<< 47) ||| (v ||| 2 ^ 55)
      = 2 ^ 55 ||| ((uid <<< 47) ||| v) := by
        rw [Nat.or_comm v, ← Nat.or_assoc, Nat.or_comm (uid <<< 47), Nat.or_assoc]
    _ = 2 ^ 55 ||| (uid * 2 ^ 47 + v) := by rw [h1]
    _ = 2 ^ 55 + (uid * 2 ^ 47 + v) := by simpa using h2.symm

end Fbr.PtRefs
