/-
  Helper lemmas for C18: one request never changes the size of an existing file when sealed.
-/
import Fbr.PtSealSpec

namespace Fbr.Lemmas.PtSeal
open Fbr.PtSeal Fbr.PtSealSpec

theorem upd_same {α : Type} (f : Nat → α) (k : Nat) (v : α) : upd f k v k = v := by simp [upd]
theorem upd_other {α : Type} (f : Nat → α) (k x : Nat) (v : α) (h : x ≠ k) : upd f k v x = f x := by
  simp [upd, h]

/-- sizes that exist are kept -/
def Keeps (H H' : Host) : Prop := ∀ f n, H.size f = some n → H'.size f = some n

theorem Keeps.refl (H : Host) : Keeps H H := fun _ _ h => h
theorem Keeps.trans {A B C : Host} (h1 : Keeps A B) (h2 : Keeps B C) : Keeps A C :=
  fun f n h => h2 f n (h1 f n h)

theorem hostOpen_keeps (H : Host) (file : Nat) (fl : Flags) (ht : fl.trunc = false) :
    (hostOpen H file fl).1 = H := by
  unfold hostOpen
  split <;> simp [ht]

@[simp] theorem wbFlags_trunc (wb : Bool) (fl : Flags) : (wbFlags wb fl).trunc = fl.trunc := by
  unfold wbFlags; split <;> rfl

@[simp] theorem wbFlags_excl (wb : Bool) (fl : Flags) : (wbFlags wb fl).excl = fl.excl := by
  unfold wbFlags; split <;> rfl

@[simp] theorem wbFlags_direct (wb : Bool) (fl : Flags) : (wbFlags wb fl).direct = fl.direct := by
  unfold wbFlags; split <;> rfl

theorem openInode_host (cfg : Cfg) (st : St) (file : Nat) (fl : Flags) (ht : fl.trunc = false) :
    (openInode cfg st file fl).1.host = st.host := by
  unfold openInode
  have : (openFlags cfg fl).trunc = false := by simp [openFlags, ht]
  simp [hostOpen_keeps _ _ _ this]

theorem openInode_handles (cfg : Cfg) (st : St) (file : Nat) (fl : Flags) :
    (openInode cfg st file fl).1.handles = st.handles ∧ (openInode cfg st file fl).1.next = st.next := by
  unfold openInode; simp

theorem getData_host (cfg : Cfg) (st : St) (file h : Nat) : (getData cfg st file h).1.host = st.host := by
  unfold getData
  split
  · split
    · split <;> rfl
    · rfl
  · have h1 := openInode_host cfg st file rdwr (by rfl)
    split <;> simp_all

theorem keeps_upd_same (H : Host) (file sz v : Nat) (hsz : H.size file = some sz) (hv : v = sz) :
    Keeps H { H with size := upd H.size file (some v) } := by
  intro f n hf
  by_cases hff : f = file
  · subst hff; simp only [upd_same]; rw [hsz] at hf; cases hf; rw [hv]
  · simp only [upd_other _ _ _ _ hff]; exact hf

theorem pwrite_keeps (H : Host) (file : Nat) (fd : HFd) (len off sz : Nat)
    (hsz : H.size file = some sz) (hfit : (if fd.append then sz else off) + len ≤ sz) :
    Keeps H (hostPwrite H file fd len off).1 := by
  unfold hostPwrite
  simp only [hsz]
  repeat' split
  all_goals first | exact Keeps.refl H | skip
  all_goals apply keeps_upd_same H file sz _ hsz
  all_goals simp_all
  all_goals omega

theorem fallocate_keeps (H : Host) (file : Nat) (fd : HFd) (mode off len sz : Nat)
    (hsz : H.size file = some sz) (hop : fallocOp mode = 0 ∨ fallocOp mode = FL_PUNCH_HOLE ∨ fallocOp mode = FL_ZERO)
    (hfit : off + len ≤ sz) :
    Keeps H (hostFallocate H file fd mode off len).1 := by
  unfold hostFallocate
  simp only [hsz]
  have h8 : ¬ (fallocOp mode = FL_COLLAPSE) := by rcases hop with h | h | h <;> simp [h, FL_COLLAPSE, FL_PUNCH_HOLE, FL_ZERO]
  have h32 : ¬ (fallocOp mode = FL_INSERT) := by rcases hop with h | h | h <;> simp [h, FL_INSERT, FL_PUNCH_HOLE, FL_ZERO]
  repeat' split
  all_goals first | exact Keeps.refl H | contradiction | skip
  all_goals apply keeps_upd_same H file sz _ hsz
  all_goals omega

theorem putHnd_host (cfg : Cfg) (st : St) (h : Nat) (hd : Hnd) : (putHnd cfg st h hd).host = st.host := by
  unfold putHnd; split <;> rfl

theorem sealCheckWrite_ok (sz start len : Nat) (h : sealCheckWrite sz start len = .ok ()) : start + len ≤ sz := by
  unfold sealCheckWrite at h
  split at h
  · cases h
  · split at h
    · cases h
    · omega

theorem sealCheckFallocate_ok (sz off len mode : Nat) (h : sealCheckFallocate sz off len mode = .ok ()) :
    (fallocOp mode = 0 ∨ fallocOp mode = FL_PUNCH_HOLE ∨ fallocOp mode = FL_ZERO) ∧ off + len ≤ sz := by
  unfold sealCheckFallocate at h
  split at h
  · cases h
  · simp only at h
    split at h
    · split at h
      · cases h
      · rename_i h1 h2
        simp only [Bool.or_eq_true, decide_eq_true_eq] at h1
        refine ⟨?_, by omega⟩
        rcases h1 with (h1 | h1) | h1
        · exact Or.inl h1
        · exact Or.inr (Or.inl h1)
        · exact Or.inr (Or.inr h1)
    · split at h <;> cases h

theorem stepWrite_keeps (cfg : Cfg) (hs : cfg.sealed = true) (st : St) (file h : Nat) (fl : Flags) (len off : Nat) :
    Keeps st.host (stepWrite cfg st file h fl len off).st.host := by
  unfold stepWrite
  have hg := getData_host cfg st file h
  rcases hgd : getData cfg st file h with ⟨st1, r, c0⟩
  rw [hgd] at hg
  simp only at hg
  cases r with
  | error e => simp only; rw [hg]; exact Keeps.refl _
  | ok hd0 =>
    simp only [hs, if_true]
    rcases hck : checkFdFlags hd0 fl with ⟨hd, c1⟩
    simp only [putHnd_host, hg]
    cases hsz : st.host.size file with
    | none => simp only [putHnd_host]; rw [hg]; exact Keeps.refl _
    | some sz =>
      simp only
      cases hsc : sealCheckWrite sz (if hd.fd.append = true then sz else off) len with
      | error e => simp only [putHnd_host]; rw [hg]; exact Keeps.refl _
      | ok u =>
        simp only [putHnd_host, hg]
        exact pwrite_keeps st.host file hd.fd len off sz hsz (sealCheckWrite_ok _ _ _ hsc)

theorem stepFallocate_keeps (cfg : Cfg) (hs : cfg.sealed = true) (st : St) (file h mode off len : Nat) :
    Keeps st.host (stepFallocate cfg st file h mode off len).st.host := by
  unfold stepFallocate
  have hg := getData_host cfg st file h
  rcases hgd : getData cfg st file h with ⟨st1, r, c0⟩
  rw [hgd] at hg
  simp only at hg
  cases r with
  | error e => simp only; rw [hg]; exact Keeps.refl _
  | ok hd =>
    simp only [hs, if_true, hg]
    cases hsz : st.host.size file with
    | none => simp only; rw [hg]; exact Keeps.refl _
    | some sz =>
      simp only
      cases hsc : sealCheckFallocate sz off len mode with
      | error e => simp only; rw [hg]; exact Keeps.refl _
      | ok u =>
        simp only
        have ⟨hop, hfit⟩ := sealCheckFallocate_ok _ _ _ _ hsc
        have hk := fallocate_keeps st.host file hd.fd mode off len sz hsz hop hfit
        cases hr : hostFallocate st.host file hd.fd mode off len with
        | mk H r =>
          rw [hr] at hk
          cases r <;> exact hk

theorem doOpen_keeps (cfg : Cfg) (hs : cfg.sealed = true) (st : St) (file : Nat) (fl : Flags) :
    Keeps st.host (doOpen cfg st file fl).st.host := by
  unfold doOpen
  cases ht : fl.trunc with
  | true => simp [hs]; exact Keeps.refl _
  | false =>
    simp only [hs, Bool.and_false, Bool.false_eq_true, if_false]
    have ho := openInode_host cfg st file fl ht
    rcases hoi : openInode cfg st file fl with ⟨st', r, c⟩
    rw [hoi] at ho
    simp only at ho
    cases r <;> (simp only; rw [ho]; exact Keeps.refl _)

theorem stepOpen_keeps (cfg : Cfg) (hs : cfg.sealed = true) (st : St) (file : Nat) (fl : Flags) :
    Keeps st.host (stepOpen cfg st file fl).st.host := by
  unfold stepOpen
  split
  · exact Keeps.refl _
  · exact doOpen_keeps cfg hs st file fl

theorem keeps_upd_new (H : Host) (file v : Nat) (hnone : H.size file = none) :
    Keeps H { H with size := upd H.size file (some v) } := by
  intro f n hf
  by_cases hff : f = file
  · subst hff; rw [hnone] at hf; cases hf
  · simp only [upd_other _ _ _ _ hff]; exact hf

theorem stepCreate_keeps (cfg : Cfg) (hs : cfg.sealed = true) (st : St) (file : Nat) (fl : Flags) :
    Keeps st.host (stepCreate cfg st file fl).st.host := by
  unfold stepCreate
  cases hsz : st.host.size file with
  | none =>
    simp only
    split <;> exact keeps_upd_new st.host file 0 hsz
  | some sz =>
    simp only
    split
    · exact Keeps.refl _
    · cases ht : fl.trunc with
      | true => simp [hs]; exact Keeps.refl _
      | false =>
        simp only [hs, Bool.and_false, Bool.false_eq_true, if_false]
        have ho := openInode_host cfg st file fl ht
        rcases hoi : openInode cfg st file fl with ⟨st', r, c⟩
        rw [hoi] at ho
        simp only at ho
        cases r with
        | error e => simp only; rw [ho]; exact Keeps.refl _
        | ok fd => simp only; split <;> (simp only; rw [ho]; exact Keeps.refl _)

theorem stepSetattr_keeps (cfg : Cfg) (hs : cfg.sealed = true) (st : St) (file : Nat) (h : Option Nat)
    (setSize : Bool) (size : Nat) (setMode : Bool) :
    Keeps st.host (stepSetattr cfg st file h setSize size setMode).st.host := by
  unfold stepSetattr
  split
  · exact Keeps.refl _
  · split
    · exact Keeps.refl _
    · cases setSize with
      | true => simp [hs]; exact Keeps.refl _
      | false => simp; exact Keeps.refl _

theorem stepRelease_keeps (cfg : Cfg) (st : St) (file h : Nat) :
    Keeps st.host (stepRelease cfg st file h).st.host := by
  unfold stepRelease
  split
  · exact Keeps.refl _
  · split
    · split <;> exact Keeps.refl _
    · exact Keeps.refl _

theorem step_keeps (cfg : Cfg) (hs : cfg.sealed = true) (st : St) (r : Req) :
    Keeps st.host (step cfg st r).st.host := by
  cases r with
  | opn file fl => exact stepOpen_keeps cfg hs st file fl
  | create file fl => exact stepCreate_keeps cfg hs st file fl
  | write file h fl len off => exact stepWrite_keeps cfg hs st file h fl len off
  | setattr file h ss size sm => exact stepSetattr_keeps cfg hs st file h ss size sm
  | fallocate file h mode off len => exact stepFallocate_keeps cfg hs st file h mode off len
  | release file h => exact stepRelease_keeps cfg st file h

theorem run_keeps (cfg : Cfg) (hs : cfg.sealed = true) (reqs : List Req) (st : St) :
    Keeps st.host (run cfg st reqs).host := by
  induction reqs generalizing st with
  | nil => exact Keeps.refl _
  | cons r rs ih => exact Keeps.trans (step_keeps cfg hs st r) (ih _)

end Fbr.Lemmas.PtSeal
