/-
  Helper lemmas for C18: one request never changes the size of an existing file when sealed.
-/
import Fbr.PtSealSpec

namespace Fbr.Lemmas.PtSeal
open Fbr.PtSeal Fbr.PtSealSpec

theorem upd_same {α : Type} (f : Nat → α) (k : Nat) (v : α) : upd f k v k = v := by simp [upd]
theorem upd_other {α : Type} (f : Nat → α) (k x : Nat) (v : α) (h : x ≠ k) : upd f k v x = f x := by
  simp [upd, h]

/-- sizes that exist are kept -/
def Keeps (H H' : Host) : Prop := ∀ f n, H.size f = some n → H'.size f = some n

theorem Keeps.refl (H : Host) : Keeps H H := fun _ _ h => h
theorem Keeps.trans {A B C : Host} (h1 : Keeps A B) (h2 : Keeps B C) : Keeps A C :=
  fun f n h => h2 f n (h1 f n h)

theorem hostOpen_keeps (H : Host) (file : Nat) (fl : Flags) (ht : fl.trunc = false) :
    (hostOpen H file fl).1 = H := by
  unfold hostOpen
  split <;> simp [ht]

theorem openInode_host (cfg : Cfg) (st : St) (file : Nat) (fl : Flags) (ht : fl.trunc = false) :
    (openInode cfg st file fl).1.host = st.host := by
  unfold openInode
  have : (openFlags cfg fl).trunc = false := by simp [openFlags, ht]
  simp [hostOpen_keeps _ _ _ this]

theorem openInode_handles (cfg : Cfg) (st : St) (file : Nat) (fl : Flags) :
    (openInode cfg st file fl).1.handles = st.handles ∧ (openInode cfg st file fl).1.next = st.next := by
  unfold openInode; simp

theorem getData_host (cfg : Cfg) (st : St) (file h : Nat) : (getData cfg st file h).1.host = st.host := by
  unfold getData
  split
  · split
    · split <;> rfl
    · rfl
  · have h1 := openInode_host cfg st file rdwr (by rfl)
    split <;> simp_all

theorem keeps_upd_same (H : Host) (file sz v : Nat) (hsz : H.size file = some sz) (hv : v = sz) :
    Keeps H { H with size := upd H.size file (some v) } := by
  intro f n hf
  by_cases hff : f = file
  · subst hff; simp only [upd_same]; rw [hsz] at hf; cases hf; rw [hv]
  · simp only [upd_other _ _ _ _ hff]; exact hf

theorem pwrite_keeps (H : Host) (file : Nat) (fd : HFd) (len off sz : Nat)
    (hsz : H.size file = some sz) (hfit : (if fd.append then sz else off) + len ≤ sz) :
    Keeps H (hostPwrite H file fd len off).1 := by
  unfold hostPwrite
  simp only [hsz]
  repeat' split
  all_goals first | exact Keeps.refl H | skip
  all_goals apply keeps_upd_same H file sz _ hsz
  all_goals simp_all
  all_goals omega

theorem fallocate_keeps (H : Host) (file : Nat) (fd : HFd) (mode off len sz : Nat)
    (hsz : H.size file = some sz) (hop : fallocOp mode = 0 ∨ fallocOp mode = FL_PUNCH_HOLE ∨ fallocOp mode = FL_ZERO)
    (hfit : off + len ≤ sz) :
    Keeps H (hostFallocate H file fd mode off len).1 := by
  unfold hostFallocate
  simp only [hsz]
  have h8 : ¬ (fallocOp mode = FL_COLLAPSE) := by rcases hop with h | h | h <;> simp [h, FL_COLLAPSE, FL_PUNCH_HOLE, FL_ZERO]
  have h32 : ¬ (fallocOp mode = FL_INSERT) := by rcases hop with h | h | h <;> simp [h, FL_INSERT, FL_PUNCH_HOLE, FL_ZERO]
  repeat' split
  all_goals first | exact Keeps.refl H | contradiction | skip
  all_goals apply keeps_upd_same H file sz _ hsz
  all_goals omega

end Fbr.Lemmas.PtSeal
