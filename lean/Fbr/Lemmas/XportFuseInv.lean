/-
  Helper lemmas for C04: the invariant of a fusedev handle table under ANY operation list.
-/
import Fbr.Lemmas.XportFuseSys

namespace Fbr.Xport

/-- the window `[base, base+cap)` of a FuseDevWriter as a one-buffer cursor -/
def FuseW.asBufs (f : FuseW) : IoBufs := ⟨[⟨f.region, f.base, f.cap⟩], 0⟩

/-- the addresses of the windows of all writers -/
def fahead (l : List FuseW) : List Addr := ahead (l.map FuseW.asBufs)

theorem addrs_asBufs (f : FuseW) : addrs f.asBufs.segs = segAddrs ⟨f.region, f.base, f.cap⟩ := by
  simp [FuseW.asBufs, addrs]

theorem set_self {α : Type} (l : List α) (i : Nat) (x : α) (h : l[i]? = some x) : l.set i x = l := by
  induction l generalizing i with
  | nil => rfl
  | cons y rest ih =>
    cases i with
    | zero => simp at h; subst h; rfl
    | succ i => simp only [List.getElem?_cons_succ] at h; simp [List.set, ih i h]

structure FInv (R base0 cap0 : Nat) (s : St) : Prop where
  nowr : s.writers = []
  reg : base0 + cap0 ≤ (s.w.mem.get R).length
  each : ∀ f ∈ s.fws, f.ok ∧ f.region = R ∧ base0 ≤ f.base ∧ f.base + f.cap ≤ base0 + cap0
  part : (fahead s.fws).Perm (segAddrs ⟨R, base0, cap0⟩)
  wrin : ∀ a ∈ wrAddrs s.w.log, a ∈ segAddrs ⟨R, base0, cap0⟩

theorem FInv.all {R base0 cap0 : Nat} {s : St} (h : FInv R base0 cap0 s) : ∀ f ∈ s.fws, f.ok ∧ f.inMem s.w.mem := by
  intro f hf
  obtain ⟨h1, h2, h3, h4⟩ := h.each f hf
  refine ⟨h1, ?_⟩
  unfold FuseW.inMem
  rw [h2]
  have := h.reg
  omega

theorem step_finv {R base0 cap0 : Nat} {s : St} (h : FInv R base0 cap0 s) (op : Op) :
    FInv R base0 cap0 (step s op).1 := by
  rcases fstep_view s op h.nowr h.all with ⟨e1, e2, ek, _⟩ | ⟨i, f, f', w', _, _, hg, e, hs, _⟩
      | ⟨i, k, f, a, o, _, hg, hsp, e⟩ | ⟨i, o, f, _, hg, e⟩
  · exact ⟨e2, by rw [ek.1]; exact h.reg, by rw [e1]; exact h.each, by rw [e1]; exact h.part,
      by rw [ek.2.2]; exact h.wrin⟩
  · rw [e]
    obtain ⟨f1, f2, f3, f4⟩ := h.each f (mem_of_getElem? hg)
    have he := hs.eq
    have hw : f'.asBufs = f.asBufs := by rw [he]; rfl
    refine ⟨h.nowr, by simp only; rw [hs.len]; exact h.reg, ?_, ?_, ?_⟩
    · apply forall_set h.each
      refine ⟨hs.ok, ?_, ?_, ?_⟩ <;> (rw [he]; assumption)
    · simp only [fahead]
      rw [List.map_set, hw, set_self _ _ _ (by rw [List.getElem?_map, hg]; rfl)]
      exact h.part
    · intro a ha
      rcases hs.wr a ha with h1 | h1
      · exact h.wrin a h1
      · rw [mem_segAddrs] at h1 ⊢
        have hfit := hs.fits
        unfold FuseW.ok at f1
        simp only at h1 ⊢
        rw [f2] at h1
        omega
  · rw [e]
    obtain ⟨f1, f2, f3, f4⟩ := h.each f (mem_of_getElem? hg)
    obtain ⟨aok, ook, hcap, hab, hob, _, _, _, _, _⟩ := fsplit_ok f a o k f1 hsp
    obtain ⟨har, hor⟩ := fsplit_region f a o k hsp
    refine ⟨h.nowr, h.reg, ?_, ?_, h.wrin⟩
    · intro y hy
      rcases List.mem_append.mp hy with hy | hy
      · exact forall_set h.each ⟨aok, by rw [har]; exact f2, by omega, by omega⟩ y hy
      · simp only [List.mem_singleton] at hy
        rw [hy]; exact ⟨ook, by rw [hor]; exact f2, by omega, by omega⟩
    · simp only [fahead, List.map_append, List.map_set, List.map_cons, List.map_nil]
      refine (perm_split (s.fws.map FuseW.asBufs) i f.asBufs a.asBufs o.asBufs (by rw [List.getElem?_map, hg]; rfl) ?_).trans h.part
      rw [addrs_asBufs, addrs_asBufs, addrs_asBufs, har, hor, hab, hob, ← hcap, segAddrs_split]
  · rw [e]
    obtain ⟨cm, cl⟩ := fcommit_world f s.w (o.bind fun i => s.fws[i]?)
    exact ⟨h.nowr, by simp only; rw [cm]; exact h.reg, h.each, h.part, by simp only; rw [cl]; exact h.wrin⟩

theorem exec_finv {R base0 cap0 : Nat} (ops : List Op) {s : St} (h : FInv R base0 cap0 s) :
    FInv R base0 cap0 (exec s ops) := by
  induction ops generalizing s with
  | nil => exact h
  | cons op rest ih => exact ih (step_finv h op)

/-! ### all writers buffered: nothing reaches the descriptor before a commit -/

def AllBuf (s : St) : Prop := ∀ f ∈ s.fws, f.buffered = true

theorem step_allbuf {R base0 cap0 : Nat} {s : St} (h : FInv R base0 cap0 s) (hb : AllBuf s) (op : Op) :
    AllBuf (step s op).1 ∧ ((∀ i o, op ≠ .fc i o) → (step s op).1.w.fd = s.w.fd) := by
  rcases fstep_view s op h.nowr h.all with ⟨e1, e2, ek, _⟩ | ⟨i, f, f', w', _, _, hg, e, hs, hc⟩
      | ⟨i, k, f, a, o, _, hg, hsp, e⟩ | ⟨i, o, f, eop, hg, e⟩
  · exact ⟨by unfold AllBuf; rw [e1]; exact hb, fun _ => ek.2.1⟩
  · rw [e]
    have hfb := hb f (mem_of_getElem? hg)
    refine ⟨?_, fun _ => (hc hfb).fd⟩
    apply forall_set hb
    rw [hs.eq]; exact hfb
  · rw [e]
    obtain ⟨_, _, _, _, _, _, hab, hob, _, _⟩ := fsplit_ok f a o k (h.each f (mem_of_getElem? hg)).1 hsp
    refine ⟨?_, fun _ => rfl⟩
    intro y hy
    rcases List.mem_append.mp hy with hy | hy
    · exact forall_set hb hab y hy
    · simp only [List.mem_singleton] at hy
      rw [hy]; exact hob
  · rw [e]
    exact ⟨hb, fun hn => absurd eop (hn i o)⟩

theorem exec_allbuf {R base0 cap0 : Nat} (ops : List Op) {s : St} (h : FInv R base0 cap0 s) (hb : AllBuf s)
    (hnc : ∀ i o, Op.fc i o ∉ ops) : AllBuf (exec s ops) ∧ (exec s ops).w.fd = s.w.fd := by
  induction ops generalizing s with
  | nil => exact ⟨hb, rfl⟩
  | cons op rest ih =>
    obtain ⟨h1, h2⟩ := step_allbuf h hb op
    obtain ⟨i1, i2⟩ := ih (step_finv h op) h1 (fun i o hm => hnc i o (List.mem_cons_of_mem _ hm))
    refine ⟨i1, ?_⟩
    show (exec (step s op).1 rest).w.fd = s.w.fd
    rw [i2, h2 (fun i o e => hnc i o (by rw [e]; exact List.mem_cons_self))]

end Fbr.Xport
