/-
  The generic invariant `GInv I` (Fbr.Lemmas.OvlHoare) is preserved by every function of the
  overlay model, on success and on failure.
-/
import Fbr.Ovl
import Fbr.Lemmas.OvlHoare

namespace Fbr.Ovl
variable {I : InvSpec}

local notation "INV" => GInv I

theorem loadDirectory_inv (p : Path) : Triple INV (loadDirectory p) (fun _ => INV) INV := by
  unfold loadDirectory
  refine Triple.bind (getNode_inv' p) fun m => Triple.pure_pre fun hm => ?_
  refine Triple.ite' (fun _ => Triple.pure' fun _ h => h) fun _ => ?_
  refine Triple.bind (nodeStat_inv m) fun st => ?_
  refine Triple.ite' (fun _ => Triple.fail' fun _ h => h) fun _ => ?_
  refine Triple.bind (Q := fun s0 s => s0 = s ∧ INV s) (Triple.getSt' fun s h => ⟨rfl, h⟩) fun s0 => ?_
  refine Triple.bind (Q := fun _ => INV) (Triple.modifySt' fun s hs => ?_) fun _ => ?_
  · exact insertKids_ok hs.2 (scanKids_ok hm)
  · exact setNode_inv p _ hm

theorem lookupSelf_inv (p : Path) :
    Triple INV (lookupSelf p) (fun m s => (MOK I m ∧ s.mem p = some m) ∧ INV s) INV := by
  unfold lookupSelf
  refine Triple.bind (getNode_inv' p) fun m => Triple.pure_pre fun _ => ?_
  refine Triple.ite' (fun _ => Triple.fail' fun _ h => h) fun _ => ?_
  refine Triple.bind (nodeStat_inv m) fun st => ?_
  refine Triple.bind (Q := fun _ => INV) (Triple.whenM' (fun _ => loadDirectory_inv p) fun _ _ h => h) fun _ => ?_
  exact getNode_inv p

theorem lookupSelf_inv' (p : Path) : Triple INV (lookupSelf p) (fun m s => MOK I m ∧ INV s) INV :=
  (lookupSelf_inv p).post fun _ _ h => ⟨h.1.1, h.2⟩

theorem lookupNode_inv (pp : Path) (n : Name) :
    Triple INV (lookupNode pp n) (fun m s => MOK I m ∧ INV s) INV := by
  unfold lookupNode
  refine Triple.bind (lookupSelf_inv' pp) fun pm => Triple.pure_pre fun _ => ?_
  exact Triple.ite' (fun _ => getNode_inv' _) (fun _ => Triple.fail' fun _ h => h)

theorem doLookup_inv (pp : Path) (n : Name) : Triple INV (doLookup pp n) (fun _ => INV) INV := by
  unfold doLookup
  refine Triple.bind (lookupNode_inv pp n) fun m => Triple.pure_pre fun _ => ?_
  refine Triple.ite' (fun _ => Triple.fail' fun _ h => h) fun _ => ?_
  refine Triple.bind (nodeStat_inv m) fun st => ?_
  refine Triple.bind (Q := fun _ => INV) (Triple.whenM' (fun _ => loadDirectory_inv _) fun _ _ h => h) fun _ => ?_
  exact Triple.pure' fun _ h => h

theorem upperReal_ok {m : MNode} {r : Real} (hm : MOK I m) (h : m.upperReal = some r) :
    I.φ r ∧ r.inUpper = true := by
  unfold MNode.upperReal at h
  cases hr : m.reals with
  | nil => simp [hr] at h
  | cons r' rest =>
    simp only [hr] at h
    split at h
    · cases h; exact ⟨hm _ (by simp [hr]), ‹_›⟩
    · cases h

theorem getUpperReal_inv (p : Path) :
    Triple INV (getUpperReal p) (fun r s => (I.φ r ∧ r.inUpper = true) ∧ INV s) INV := by
  unfold getUpperReal
  refine Triple.bind (getNode_inv' p) fun m => Triple.pure_pre fun hm => ?_
  split
  · rename_i r hr
    exact Triple.pure' fun _ h => ⟨upperReal_ok hm hr, h⟩
  · exact Triple.fail' fun _ h => h

theorem addUpperInode_inv (p : Path) (ri : Real) (b : Bool) (hri : I.φ ri) (hu : ri.inUpper = true) :
    Triple INV (addUpperInode p ri b) (fun _ s => UpAt p s ∧ INV s) INV := by
  unfold addUpperInode
  refine Triple.bind (getNode_inv' p) fun m => Triple.pure_pre fun hm => ?_
  unfold setNode
  have hok : MOK I { m with whiteout := ri.whiteout, reals := if b then [ri] else ri :: m.reals } := by
    intro r hr
    cases b <;> simp at hr
    · rcases hr with hr | hr
      · subst hr; exact hri
      · exact hm r hr
    · subst hr; exact hri
  refine Triple.modifySt' fun s hs => ⟨⟨{ m with whiteout := ri.whiteout, reals := if b then [ri] else ri :: m.reals }, ?_, ?_⟩, hs.mem_set hok⟩
  · simp [Mem.set]
  · cases b <;> simp [MNode.inUpper, hu]

theorem createUpperDir_inv : ∀ p : Path,
    Triple INV (createUpperDir p) (fun _ s => UpAt p s ∧ INV s) INV
  | [] => by
    unfold createUpperDir
    refine Triple.bind (getNode_inv []) fun m => ?_
    refine Triple.bind (Q := fun _ s => s.mem [] = some m ∧ INV s) ?_ fun st => ?_
    · intro s hs
      have h := nodeStat_inv (I := I) m s hs.2
      refine ⟨fun a s' h' => ?_, fun e s' h' => h.2 e s' h'⟩
      have hs' : s' = s := by unfold nodeStat at h'; split at h' <;> cases h'; rfl
      subst hs'; exact ⟨hs.1.2, hs.2⟩
    · refine Triple.ite' (fun _ => Triple.fail' fun _ h => h.2) fun _ => ?_
      refine Triple.ite' (fun hu => Triple.pure' fun s h => ⟨⟨m, h.1, hu⟩, h.2⟩) fun _ => ?_
      exact Triple.fail' fun _ h => h.2
  | n :: pp => by
    unfold createUpperDir
    refine Triple.bind (getNode_inv (n :: pp)) fun m => ?_
    refine Triple.bind (Q := fun _ s => s.mem (n :: pp) = some m ∧ INV s) ?_ fun st => ?_
    · intro s hs
      have h := nodeStat_inv (I := I) m s hs.2
      refine ⟨fun a s' h' => ?_, fun e s' h' => h.2 e s' h'⟩
      have hs' : s' = s := by unfold nodeStat at h'; split at h' <;> cases h'; rfl
      subst hs'; exact ⟨hs.1.2, hs.2⟩
    · refine Triple.ite' (fun _ => Triple.fail' fun _ h => h.2) fun _ => ?_
      refine Triple.ite' (fun hu => Triple.pure' fun s h => ⟨⟨m, h.1, hu⟩, h.2⟩) fun _ => ?_
      refine Triple.pre (P := INV) ?_ fun _ h => h.2
      refine Triple.bind (getNode_inv' pp) fun pm => Triple.pure_pre fun _ => ?_
      refine Triple.bind (Q := fun _ => INV)
        (Triple.whenM' (fun _ => (createUpperDir_inv pp).post fun _ _ h => h.2) fun _ _ h => h) fun _ => ?_
      refine Triple.bind (getUpperReal_inv pp) fun pr => Triple.pure_pre fun hpr => ?_
      refine Triple.bind (mkNode_inv pr _ n _ hpr.1) fun ri => Triple.pure_pre fun hri => ?_
      exact addUpperInode_inv _ ri false hri.1 hri.2

theorem parentUpperReal_inv (pp : Path) :
    Triple INV (parentUpperReal pp) (fun r s => (I.φ r ∧ r.inUpper = true) ∧ INV s) INV := by
  unfold parentUpperReal
  refine Triple.bind (getNode_inv' pp) fun pm => Triple.pure_pre fun _ => ?_
  refine Triple.bind (Q := fun _ => INV)
    (Triple.whenM' (fun _ => (createUpperDir_inv pp).post fun _ _ h => h.2) fun _ _ h => h) fun _ => ?_
  exact getUpperReal_inv pp

theorem copyContent_inv (st : Node) (ri : Real) (hri : I.φ ri ∧ ri.inUpper = true) :
    Triple INV (copyContent st ri) (fun _ => INV) INV := by
  unfold copyContent
  split
  · exact layerCall_inv ri _ _ hri.1 hri.2 (by keeproot)
  · exact Triple.pure' fun _ h => h

theorem copyFileUp_inv (st : Node) (pp : Path) (n : Name) :
    Triple INV (copyFileUp st pp n) (fun _ s => UpAt (n :: pp) s ∧ INV s) INV := by
  unfold copyFileUp
  refine Triple.bind (parentUpperReal_inv pp) fun pr => Triple.pure_pre fun hpr => ?_
  refine Triple.bind freshId_inv fun id => ?_
  refine Triple.bind (mkNode_inv pr _ n _ hpr.1) fun ri => Triple.pure_pre fun hri => ?_
  refine Triple.bind (copyContent_inv st ri hri) fun _ => ?_
  exact addUpperInode_inv _ ri true hri.1 hri.2

theorem copyNodeUp_inv (p : Path) :
    Triple INV (copyNodeUp p) (fun _ s => UpAt p s ∧ INV s) INV := by
  unfold copyNodeUp
  refine Triple.bind (getNode_inv p) fun m => ?_
  refine Triple.ite' (fun hu => Triple.pure' fun s h => ⟨⟨m, h.1.2, hu⟩, h.2⟩) fun _ => ?_
  refine Triple.pre (P := INV) ?_ fun _ h => h.2
  refine Triple.bind (nodeStat_inv m) fun st => ?_
  refine Triple.ite' (fun _ => createUpperDir_inv p) fun _ => ?_
  split
  · exact Triple.fail' fun _ h => h
  · exact copyFileUp_inv st _ _

theorem copyNodeUp_inv' (p : Path) : Triple INV (copyNodeUp p) (fun _ => INV) INV :=
  (copyNodeUp_inv p).post fun _ _ h => h.2

theorem removeSubtree_ok {s : St} (p : Path) (h : INV s) :
    INV { s with mem := removeSubtree s.mem p } := by
  refine h.of_mem fun q m hq => ?_
  unfold removeSubtree at hq
  split at hq
  · cases hq
  · exact h.1 q m hq

theorem insertChild_inv (pp : Path) (n : Name) (m : MNode) (hm : MOK I m) :
    Triple INV (insertChild pp n m) (fun _ => INV) INV := by
  unfold insertChild
  refine Triple.bind (getNode_inv' pp) fun pm => Triple.pure_pre fun hpm => ?_
  refine Triple.bind (Q := fun _ => INV) (Triple.modifySt' fun s hs => ?_) fun _ => ?_
  · exact (removeSubtree_ok (n :: pp) hs).mem_set hm
  · exact setNode_inv pp _ hpm

theorem removeChild_inv (pp : Path) (n : Name) : Triple INV (removeChild pp n) (fun _ => INV) INV := by
  unfold removeChild
  refine Triple.bind (getNode_inv' pp) fun pm => Triple.pure_pre fun hpm => ?_
  refine Triple.bind (Q := fun _ => INV) (Triple.modifySt' fun s hs => removeSubtree_ok _ hs) fun _ => ?_
  exact setNode_inv pp _ hpm

theorem newNode_ok {ri : Real} (h : I.φ ri) : MOK I (newNode ri) := by
  intro r hr
  simp [newNode] at hr
  subst hr; exact h

theorem checkOld_inv (old : Option MNode) : Triple INV (checkOld old) (fun _ => INV) INV := by
  unfold checkOld
  split
  · exact Triple.ite' (fun _ => Triple.fail' fun _ h => h) (fun _ => Triple.pure' fun _ h => h)
  · exact Triple.pure' fun _ h => h

theorem tryDeleteWhiteout_inv (pr : Real) (n : Name) (hr : I.φ pr) (hu : pr.inUpper = true) :
    Triple INV (tryDeleteWhiteout pr n) (fun _ => INV) INV :=
  Triple.ignoreErr' (layerCall_inv pr _ _ hr hu (by keeproot))

theorem installChild_inv (pp : Path) (n : Name) (b : Bool) (old : Option MNode) (pr ri : Real)
    (hpr : I.φ pr ∧ pr.inUpper = true) (hri : I.φ ri ∧ ri.inUpper = true) :
    Triple INV (installChild pp n b old pr ri) (fun _ => INV) INV := by
  unfold installChild
  split
  · refine Triple.ite' (fun _ => ?_) (fun _ => (addUpperInode_inv _ ri true hri.1 hri.2).post fun _ _ h => h.2)
    refine Triple.bind (layerCall_inv pr _ _ hpr.1 hpr.2 (by keeproot)) fun _ => ?_
    exact insertChild_inv pp n _ (newNode_ok hri.1)
  · exact insertChild_inv pp n _ (newNode_ok hri.1)

/-- what `doCreateLike` needs from the function that creates the real inode -/
def MkOK (I : InvSpec) (mk : Real → M Real) : Prop :=
  ∀ pr, I.φ pr → Triple (GInv I) (mk pr) (fun ri s => (I.φ ri ∧ ri.inUpper = true) ∧ GInv I s) (GInv I)

theorem mkChildOf_ok (m : Method) (n : Name) (node : Node) : MkOK I (mkChildOf m n node) :=
  fun pr hpr => mkNode_inv pr m n node hpr

theorem doCreateLike_inv (pp : Path) (n : Name) (b : Bool) (mk : Real → M Real) (hmk : MkOK I mk) :
    Triple INV (doCreateLike pp n b mk) (fun _ => INV) INV := by
  unfold doCreateLike
  refine Triple.bind hasUpper_inv fun up => ?_
  refine Triple.pre (P := INV) ?_ fun _ h => h.2
  refine Triple.ite' (fun _ => Triple.fail' fun _ h => h) fun _ => ?_
  refine Triple.bind (getNode_inv' pp) fun pm => Triple.pure_pre fun _ => ?_
  refine Triple.ite' (fun _ => Triple.fail' fun _ h => h) fun _ => ?_
  refine Triple.bind (Q := fun _ => INV) (Triple.catchEnoent' ?_) fun old => ?_
  · exact (lookupNode_inv pp n).conseq (fun _ h => h) (fun _ _ h => h.2) (fun _ h => ⟨h, h⟩)
  refine Triple.bind (checkOld_inv old) fun _ => ?_
  refine Triple.bind (copyNodeUp_inv' pp) fun _ => ?_
  refine Triple.bind (getUpperReal_inv pp) fun pr => Triple.pure_pre fun hpr => ?_
  refine Triple.bind (Q := fun _ => INV)
    (Triple.whenM' (fun _ => tryDeleteWhiteout_inv pr n hpr.1 hpr.2) fun _ _ h => h) fun _ => ?_
  refine Triple.bind (hmk pr hpr.1) fun ri => Triple.pure_pre fun hri => ?_
  exact installChild_inv pp n b old pr ri hpr hri

theorem doLink_inv (src pp : Path) (n : Name) : Triple INV (doLink src pp n) (fun _ => INV) INV := by
  unfold doLink
  refine Triple.bind hasUpper_inv fun up => ?_
  refine Triple.pre (P := INV) ?_ fun _ h => h.2
  refine Triple.ite' (fun _ => Triple.fail' fun _ h => h) fun _ => ?_
  refine Triple.bind (getNode_inv' src) fun sm => Triple.pure_pre fun _ => ?_
  refine Triple.bind (getNode_inv' pp) fun pm => Triple.pure_pre fun _ => ?_
  refine Triple.ite' (fun _ => Triple.fail' fun _ h => h) fun _ => ?_
  refine Triple.bind (nodeStat_inv sm) fun st => ?_
  refine Triple.ite' (fun _ => Triple.fail' fun _ h => h) fun _ => ?_
  refine Triple.bind (copyNodeUp_inv' src) fun _ => ?_
  refine Triple.bind (copyNodeUp_inv' pp) fun _ => ?_
  refine Triple.bind (getNode_inv' src) fun sm' => Triple.pure_pre fun _ => ?_
  split
  · exact Triple.fail' fun _ h => h
  · refine Triple.bind (Q := fun _ => INV) (Triple.catchEnoent' ?_) fun old => ?_
    · exact (lookupNode_inv pp n).conseq (fun _ h => h) (fun _ _ h => h.2) (fun _ h => ⟨h, h⟩)
    refine Triple.bind (checkOld_inv old) fun _ => ?_
    refine Triple.bind (getUpperReal_inv pp) fun pr => Triple.pure_pre fun hpr => ?_
    refine Triple.bind (Q := fun _ => INV)
      (Triple.whenM' (fun _ => tryDeleteWhiteout_inv pr n hpr.1 hpr.2) fun _ _ h => h) fun _ => ?_
    refine Triple.bind (link_inv pr _ n hpr.1) fun ri => Triple.pure_pre fun hri => ?_
    exact installChild_inv pp n false old pr ri hpr hri

theorem countKids_inv (p : Path) : Triple INV (countKids p) (fun _ => INV) INV := by
  intro s hs
  refine ⟨fun a s' h => ?_, fun e s' h => ?_⟩ <;> unfold countKids at h <;> split at h <;> cases h <;> exact hs

theorem emptyOne_inv (p : Path) (r : Real) (n : Name) (hr : I.φ r ∧ r.inUpper = true) :
    Triple INV (emptyOne p r n) (fun _ => INV) INV := by
  unfold emptyOne
  refine Triple.bind (Q := fun _ => INV) (Triple.getSt' fun _ h => h) fun s0 => ?_
  split
  · exact Triple.pure' fun _ h => h
  · rename_i c _
    refine Triple.ite' (fun _ => ?_) (fun _ => Triple.pure' fun _ h => h)
    refine Triple.bind (Q := fun _ => INV) ?_ fun _ => removeChild_inv p n
    refine Triple.ite' (fun _ => layerCall_inv r _ _ hr.1 hr.2 (by keeproot)) fun _ => ?_
    refine Triple.bind (nodeStat_inv c) fun cs => ?_
    exact Triple.ite' (fun _ => layerCall_inv r _ _ hr.1 hr.2 (by keeproot)) (fun _ => layerCall_inv r _ _ hr.1 hr.2 (by keeproot))

theorem emptyNodeDirectory_inv (p : Path) : Triple INV (emptyNodeDirectory p) (fun _ => INV) INV := by
  unfold emptyNodeDirectory
  refine Triple.bind (getNode_inv' p) fun m => Triple.pure_pre fun hm => ?_
  refine Triple.bind (nodeStat_inv m) fun st => ?_
  refine Triple.ite' (fun _ => Triple.fail' fun _ h => h) fun _ => ?_
  split
  · exact Triple.pure' fun _ h => h
  · rename_i r hr
    exact Triple.forNames' (fun n => emptyOne_inv p r n (upperReal_ok hm hr)) _

theorem rmDirPrep_inv (p : Path) : Triple INV (rmDirPrep p) (fun _ => INV) INV := by
  unfold rmDirPrep
  refine Triple.bind (loadDirectory_inv p) fun _ => ?_
  refine Triple.bind (getNode_inv' p) fun node => Triple.pure_pre fun _ => ?_
  refine Triple.bind (nodeStat_inv node) fun st => ?_
  refine Triple.ite' (fun _ => Triple.fail' fun _ h => h) fun _ => ?_
  refine Triple.bind (countKids_inv p) fun cw => ?_
  refine Triple.ite' (fun _ => Triple.fail' fun _ h => h) fun _ => ?_
  exact Triple.whenM' (fun _ => emptyNodeDirectory_inv p) fun _ _ h => h

theorem rmFinish_inv (pp : Path) (n : Name) (dir : Bool) (node pm : MNode) (nw : Bool) (hpm : MOK I pm) :
    Triple INV (rmFinish pp n dir node pm nw) (fun _ => INV) INV := by
  unfold rmFinish
  split
  · exact Triple.ite' (fun _ => Triple.fail' fun _ h => h) (fun _ => removeChild_inv pp n)
  · rename_i pr hpr
    have hr := upperReal_ok hpm hpr
    refine Triple.bind (Q := fun _ => INV) (Triple.whenM' (fun _ => ?_) fun _ _ h => h) fun _ => ?_
    · exact Triple.ite' (fun _ => layerCall_inv pr _ _ hr.1 hr.2 (by keeproot)) (fun _ => layerCall_inv pr _ _ hr.1 hr.2 (by keeproot))
    refine Triple.bind (removeChild_inv pp n) fun _ => ?_
    refine Triple.ite' (fun _ => ?_) (fun _ => Triple.pure' fun _ h => h)
    refine Triple.bind (createWhiteout_inv pr n hr.1) fun ri => Triple.pure_pre fun hri => ?_
    exact insertChild_inv pp n _ (newNode_ok hri.1)

theorem doRm_inv (pp : Path) (n : Name) (dir : Bool) : Triple INV (doRm pp n dir) (fun _ => INV) INV := by
  unfold doRm
  refine Triple.bind hasUpper_inv fun up => ?_
  refine Triple.pre (P := INV) ?_ fun _ h => h.2
  refine Triple.ite' (fun _ => Triple.fail' fun _ h => h) fun _ => ?_
  refine Triple.bind (lookupSelf_inv' pp) fun _ => Triple.pure_pre fun _ => ?_
  refine Triple.bind (lookupNode_inv pp n) fun node => Triple.pure_pre fun _ => ?_
  refine Triple.ite' (fun _ => Triple.fail' fun _ h => h) fun _ => ?_
  refine Triple.bind (Q := fun _ => INV) (Triple.whenM' (fun _ => rmDirPrep_inv _) fun _ _ h => h) fun _ => ?_
  refine Triple.bind (copyNodeUp_inv' pp) fun _ => ?_
  refine Triple.bind (getNode_inv' (n :: pp)) fun node' => Triple.pure_pre fun _ => ?_
  refine Triple.bind (getNode_inv' pp) fun pm => Triple.pure_pre fun hpm => ?_
  refine Triple.bind (Q := fun _ => INV) (Triple.getSt' fun _ h => h) fun s0 => ?_
  exact rmFinish_inv pp n dir node' pm _ hpm

theorem firstReal_inv (p : Path) :
    Triple INV (firstReal p) (fun r s => I.φ r ∧ INV s) INV := by
  unfold firstReal
  refine Triple.bind (getNode_inv' p) fun m => Triple.pure_pre fun hm => ?_
  split
  · rename_i r rest hr
    exact Triple.pure' fun _ h => ⟨hm r (by simp [hr]), h⟩
  · exact Triple.fail' fun _ h => h

/-- with the node known to be in the upper layer, its first real inode is an upper one -/
theorem firstReal_up (p : Path) :
    Triple (fun s => UpAt p s ∧ INV s) (firstReal p) (fun r s => (I.φ r ∧ r.inUpper = true) ∧ INV s) INV := by
  unfold firstReal
  refine Triple.bind (Q := fun m s => (MOK I m ∧ m.inUpper = true) ∧ INV s) ?_ fun m => Triple.pure_pre fun hm => ?_
  · intro s hs
    obtain ⟨⟨m, hm, hu⟩, hinv⟩ := hs
    refine ⟨fun a s' h => ?_, fun e s' h => ?_⟩
    · simp [getNode, hm] at h
      obtain ⟨rfl, rfl⟩ := h
      exact ⟨⟨hinv.1 p _ hm, hu⟩, hinv⟩
    · simp [getNode, hm] at h
  · cases hr : m.reals with
    | nil => exact Triple.fail' fun _ h => h
    | cons r rest =>
      refine Triple.pure' fun _ h => ⟨⟨hm.1 r (by simp [hr]), ?_⟩, h⟩
      simpa [MNode.inUpper, hr] using hm.2

theorem doOpen_inv (p : Path) (write trunc : Bool) :
    Triple INV (doOpen p write trunc)
      (fun r s => (I.φ r ∧ (write = true → r.inUpper = true)) ∧ INV s) INV := by
  unfold doOpen
  refine Triple.bind (lookupSelf_inv' p) fun m => Triple.pure_pre fun _ => ?_
  refine Triple.ite' (fun _ => Triple.fail' fun _ h => h) fun _ => ?_
  cases write with
  | false =>
    simp only [whenM, Bool.false_eq_true, if_false]
    refine Triple.bind (Q := fun _ => INV) (Triple.pure' fun _ h => h) fun _ => ?_
    refine Triple.bind (firstReal_inv p) fun r => Triple.pure_pre fun hr => ?_
    refine Triple.bind (Q := fun _ => INV) (Triple.pure' fun _ h => h) fun _ => ?_
    exact Triple.pure' fun _ h => ⟨⟨hr, fun h => by cases h⟩, h⟩
  | true =>
    simp only [whenM, if_true]
    refine Triple.bind (copyNodeUp_inv p) fun _ => ?_
    refine Triple.bind (firstReal_up p) fun r => Triple.pure_pre fun hr => ?_
    refine Triple.bind (layerCall_inv r _ _ hr.1 hr.2 (by keeproot)) fun _ => ?_
    exact Triple.pure' fun _ h => ⟨⟨hr.1, fun _ => hr.2⟩, h⟩

theorem doWrite_inv (p : Path) (trunc append : Bool) (off : Nat) (data : List Nat) :
    Triple INV (doWrite p trunc append off data) (fun _ => INV) INV := by
  unfold doWrite
  refine Triple.bind (doOpen_inv p true trunc) fun r => Triple.pure_pre fun hr => ?_
  refine Triple.bind (Q := fun _ => INV) (Triple.getSt' fun _ h => h) fun s0 => ?_
  exact layerCall_inv r _ _ hr.1 (hr.2 rfl) (by keeproot)

/-- after `if !m.inUpper { copy_node_up }` the node is in the upper layer -/
theorem ensureUp (p : Path) (m : MNode) :
    Triple (fun s => s.mem p = some m ∧ INV s) (whenM (!m.inUpper) (copyNodeUp p))
      (fun _ s => UpAt p s ∧ INV s) INV := by
  refine Triple.whenM' (fun _ => (copyNodeUp_inv p).pre fun _ h => h.2) fun hc s hs => ?_
  refine ⟨⟨m, hs.1, ?_⟩, hs.2⟩
  simpa using hc

theorem doSetattr_inv (p : Path) (f : Path → Layer → Except Nat Layer) (hf : ∀ rp, KeepRoot (f rp)) :
    Triple INV (doSetattr p f) (fun _ => INV) INV := by
  unfold doSetattr
  refine Triple.bind hasUpper_inv fun up => ?_
  refine Triple.pre (P := INV) ?_ fun _ h => h.2
  refine Triple.ite' (fun _ => Triple.fail' fun _ h => h) fun _ => ?_
  refine Triple.bind (lookupSelf_inv p) fun m => ?_
  refine Triple.bind ((ensureUp p m).pre fun _ h => ⟨h.1.2, h.2⟩) fun _ => ?_
  refine Triple.bind (firstReal_up p) fun r => Triple.pure_pre fun hr => ?_
  exact layerCall_inv r _ _ hr.1 hr.2 (hf _)

theorem doXattr_inv (p : Path) (meth : Method) (f : Path → Layer → Except Nat Layer)
    (hf : ∀ rp, KeepRoot (f rp)) :
    Triple INV (doXattr p meth f) (fun _ => INV) INV := by
  unfold doXattr
  refine Triple.bind (lookupSelf_inv p) fun m => ?_
  refine Triple.ite' (fun _ => Triple.fail' fun _ h => h.2) fun _ => ?_
  refine Triple.bind ((ensureUp p m).pre fun _ h => ⟨h.1.2, h.2⟩) fun _ => ?_
  refine Triple.bind (firstReal_up p) fun r => Triple.pure_pre fun hr => ?_
  exact layerCall_inv r _ _ hr.1 hr.2 (hf _)

/-! ### the client side -/

theorem rootStat_inv : Triple INV rootStat (fun _ => INV) INV := by
  unfold rootStat
  refine Triple.bind (lookupSelf_inv' []) fun m => Triple.pure_pre fun _ => ?_
  exact nodeStat_inv m

theorem resolveFrom_inv : ∀ (l : List Name) (cur : Path) (st : Node),
    Triple INV (resolveFrom cur st l) (fun _ => INV) INV
  | [], cur, st => by
    unfold resolveFrom
    exact Triple.pure' fun _ h => h
  | n :: rest, cur, st => by
    unfold resolveFrom
    refine Triple.ite' (fun _ => Triple.fail' fun _ h => h) fun _ => ?_
    refine Triple.bind (doLookup_inv cur n) fun st' => ?_
    exact resolveFrom_inv rest (n :: cur) st'

theorem resolve_inv (p : List Name) : Triple INV (resolve p) (fun _ => INV) INV := by
  unfold resolve
  refine Triple.bind rootStat_inv fun st => ?_
  exact resolveFrom_inv p [] st

theorem resolveParent_inv (p : List Name) : Triple INV (resolveParent p) (fun _ => INV) INV := by
  unfold resolveParent
  split
  · exact Triple.fail' fun _ h => h
  · refine Triple.bind (resolve_inv _) fun r => ?_
    exact Triple.ite' (fun _ => Triple.fail' fun _ h => h) (fun _ => Triple.pure' fun _ h => h)

theorem listDir_inv (p : Path) : Triple INV (listDir p) (fun _ => INV) INV := by
  unfold listDir
  refine Triple.bind (lookupSelf_inv' p) fun m => Triple.pure_pre fun _ => ?_
  refine Triple.ite' (fun _ => Triple.fail' fun _ h => h) fun _ => ?_
  refine Triple.bind (nodeStat_inv m) fun st => ?_
  refine Triple.ite' (fun _ => Triple.fail' fun _ h => h) fun _ => ?_
  refine Triple.bind (Q := fun _ => INV) (Triple.getSt' fun _ h => h) fun s0 => ?_
  exact Triple.pure' fun _ h => h

theorem viewOf_inv (p : Path) : Triple INV (viewOf p) (fun _ => INV) INV := by
  unfold viewOf
  refine Triple.bind (firstReal_inv p) fun r => Triple.pure_pre fun _ => ?_
  refine Triple.bind (Q := fun _ => INV) (Triple.getSt' fun _ h => h) fun s0 => ?_
  exact Triple.pure' fun _ h => h

theorem walkFrom_inv : ∀ (fuel : Nat) (p : Path), Triple INV (walkFrom fuel p) (fun _ => INV) INV
  | 0, p => by
    unfold walkFrom
    refine Triple.bind (viewOf_inv p) fun v => ?_
    exact Triple.pure' fun _ h => h
  | fuel + 1, p => by
    unfold walkFrom
    refine Triple.bind (viewOf_inv p) fun v => ?_
    split
    · refine Triple.bind (listDir_inv p) fun ns => ?_
      refine Triple.bind (Triple.mapNames' (fun n => ?_) ns) fun subs => ?_
      · refine Triple.bind (doLookup_inv p n) fun _ => ?_
        exact walkFrom_inv fuel (n :: p)
      · exact Triple.pure' fun _ h => h
    · exact Triple.pure' fun _ h => h

theorem Triple.false_pre {α : Type} {f : M α} {Q : α → St → Prop} {E : St → Prop} :
    Triple (fun _ => False) f Q E := fun _ h => h.elim

/-- the outcome state of a triple whose two postconditions agree -/
theorem Triple.st {α : Type} {P R : St → Prop} {f : M α} (h : Triple P f (fun _ => R) R) {s : St}
    (hs : P s) : R (f s).st := by
  have h1 := h s hs
  cases hfs : f s with
  | ok a s' => exact h1.1 a s' hfs
  | err e s' => exact h1.2 e s' hfs

/-- a file-kind guard: `match st.kind with | .d => fail .. | .l => fail .. | .o => fail .. | .f => body` -/
theorem kindGuard_inv {α : Type} (k : Kind) (e1 e2 e3 : Nat) (body : M α)
    (hb : Triple INV body (fun _ => INV) INV) :
    Triple INV (match k with | .d => fail e1 | .l => fail e2 | .o => fail e3 | .f => body) (fun _ => INV) INV := by
  cases k
  · exact Triple.fail' fun _ h => h
  · exact hb
  · exact Triple.fail' fun _ h => h
  · exact Triple.fail' fun _ h => h

theorem runOp_inv (op : Op) : Triple INV (runOp op) (fun _ => INV) INV := by
  cases op with
  | lookup p =>
    unfold runOp
    refine Triple.bind (resolve_inv p) fun r => ?_
    exact Triple.pure' fun _ h => h
  | readdir p =>
    unfold runOp
    refine Triple.bind (resolve_inv p) fun r => ?_
    obtain ⟨path, st⟩ := r
    refine Triple.ite' (fun _ => Triple.fail' fun _ h => h) fun _ => ?_
    refine Triple.bind (listDir_inv path) fun _ => ?_
    exact Triple.pure' fun _ h => h
  | create p mode =>
    unfold runOp
    refine Triple.bind (resolveParent_inv p) fun r => ?_
    obtain ⟨pp, n⟩ := r
    refine Triple.bind (lookupSelf_inv' pp) fun _ => Triple.pure_pre fun _ => ?_
    refine Triple.bind freshId_inv fun id => ?_
    refine Triple.bind (doCreateLike_inv pp n false _ (mkChildOf_ok _ _ _)) fun _ => ?_
    refine Triple.bind (doLookup_inv pp n) fun _ => ?_
    exact Triple.pure' fun _ h => h
  | mkdir p mode =>
    unfold runOp
    refine Triple.bind (resolveParent_inv p) fun r => ?_
    obtain ⟨pp, n⟩ := r
    refine Triple.bind (lookupSelf_inv' pp) fun _ => Triple.pure_pre fun _ => ?_
    refine Triple.bind (doCreateLike_inv pp n true _ (mkChildOf_ok _ _ _)) fun _ => ?_
    refine Triple.bind (doLookup_inv pp n) fun _ => ?_
    exact Triple.pure' fun _ h => h
  | mknod p mode =>
    unfold runOp
    refine Triple.bind (resolveParent_inv p) fun r => ?_
    obtain ⟨pp, n⟩ := r
    refine Triple.bind (lookupSelf_inv' pp) fun _ => Triple.pure_pre fun _ => ?_
    refine Triple.bind freshId_inv fun id => ?_
    refine Triple.bind (doCreateLike_inv pp n false _ (mkChildOf_ok _ _ _)) fun _ => ?_
    refine Triple.bind (doLookup_inv pp n) fun _ => ?_
    exact Triple.pure' fun _ h => h
  | symlink p t =>
    unfold runOp
    refine Triple.bind (resolveParent_inv p) fun r => ?_
    obtain ⟨pp, n⟩ := r
    refine Triple.bind (lookupSelf_inv' pp) fun _ => Triple.pure_pre fun _ => ?_
    refine Triple.bind (doCreateLike_inv pp n false _ (mkChildOf_ok _ _ _)) fun _ => ?_
    refine Triple.bind (doLookup_inv pp n) fun _ => ?_
    exact Triple.pure' fun _ h => h
  | link src dst =>
    unfold runOp
    refine Triple.bind (resolve_inv src) fun r => ?_
    obtain ⟨sp, st⟩ := r
    refine Triple.ite' (fun _ => Triple.fail' fun _ h => h) fun _ => ?_
    refine Triple.bind (resolveParent_inv dst) fun r => ?_
    obtain ⟨pp, n⟩ := r
    refine Triple.bind (lookupSelf_inv' sp) fun sm => Triple.pure_pre fun _ => ?_
    refine Triple.ite' (fun _ => Triple.fail' fun _ h => h) fun _ => ?_
    refine Triple.bind (lookupSelf_inv' pp) fun pm => Triple.pure_pre fun _ => ?_
    refine Triple.ite' (fun _ => Triple.fail' fun _ h => h) fun _ => ?_
    refine Triple.bind (doLink_inv sp pp n) fun _ => ?_
    refine Triple.bind (doLookup_inv pp n) fun _ => ?_
    exact Triple.pure' fun _ h => h
  | unlink p =>
    unfold runOp
    refine Triple.bind (resolveParent_inv p) fun r => ?_
    obtain ⟨pp, n⟩ := r
    refine Triple.bind (doLookup_inv pp n) fun st => ?_
    refine Triple.ite' (fun _ => Triple.fail' fun _ h => h) fun _ => ?_
    refine Triple.bind (doRm_inv pp n false) fun _ => ?_
    exact Triple.pure' fun _ h => h
  | rmdir p =>
    unfold runOp
    refine Triple.bind (resolveParent_inv p) fun r => ?_
    obtain ⟨pp, n⟩ := r
    refine Triple.bind (doLookup_inv pp n) fun st => ?_
    refine Triple.ite' (fun _ => Triple.fail' fun _ h => h) fun _ => ?_
    refine Triple.bind (doRm_inv pp n true) fun _ => ?_
    exact Triple.pure' fun _ h => h
  | «open» p fl =>
    unfold runOp
    refine Triple.bind (resolve_inv p) fun r => ?_
    obtain ⟨path, st⟩ := r
    refine kindGuard_inv _ _ _ _ _ ?_
    refine Triple.bind (doOpen_inv path _ _) fun _ => ?_
    exact Triple.pure' fun _ h => h.2
  | write p fl off data =>
    unfold runOp
    refine Triple.bind (resolve_inv p) fun r => ?_
    obtain ⟨path, st⟩ := r
    refine kindGuard_inv _ _ _ _ _ ?_
    refine Triple.bind (doWrite_inv path _ _ off data) fun _ => ?_
    exact Triple.pure' fun _ h => h
  | read p =>
    unfold runOp
    refine Triple.bind (resolve_inv p) fun r => ?_
    obtain ⟨path, st⟩ := r
    refine kindGuard_inv _ _ _ _ _ ?_
    refine Triple.bind (doOpen_inv path false false) fun r => ?_
    refine Triple.bind (Q := fun _ => INV) (Triple.getSt' fun _ h => h.2) fun s0 => ?_
    split
    · exact Triple.pure' fun _ h => h
    · exact Triple.fail' fun _ h => h
  | readlink p =>
    unfold runOp
    refine Triple.bind (resolve_inv p) fun r => ?_
    obtain ⟨path, st⟩ := r
    refine Triple.ite' (fun _ => Triple.fail' fun _ h => h) fun _ => ?_
    refine Triple.bind (lookupSelf_inv' path) fun m => Triple.pure_pre fun _ => ?_
    refine Triple.ite' (fun _ => Triple.fail' fun _ h => h) fun _ => ?_
    refine Triple.bind (firstReal_inv path) fun r => Triple.pure_pre fun _ => ?_
    refine Triple.bind (Q := fun _ => INV) (Triple.getSt' fun _ h => h) fun s0 => ?_
    split
    · exact Triple.pure' fun _ h => h
    · exact Triple.fail' fun _ h => h
  | chmod p mode =>
    unfold runOp
    refine Triple.bind (resolve_inv p) fun r => ?_
    obtain ⟨path, st⟩ := r
    refine Triple.ite' (fun _ => Triple.fail' fun _ h => h) fun _ => ?_
    refine Triple.bind (doSetattr_inv path _ (fun _ => by keeproot)) fun _ => ?_
    exact Triple.pure' fun _ h => h
  | truncate p n =>
    unfold runOp
    refine Triple.bind (resolve_inv p) fun r => ?_
    obtain ⟨path, st⟩ := r
    refine kindGuard_inv _ _ _ _ _ ?_
    refine Triple.bind (doSetattr_inv path _ (fun _ => by keeproot)) fun _ => ?_
    exact Triple.pure' fun _ h => h
  | setx p v =>
    unfold runOp
    refine Triple.bind (resolve_inv p) fun r => ?_
    obtain ⟨path, st⟩ := r
    refine Triple.ite' (fun _ => Triple.fail' fun _ h => h) fun _ => ?_
    refine Triple.bind (doXattr_inv path _ _ (fun _ => by keeproot)) fun _ => ?_
    exact Triple.pure' fun _ h => h
  | rmx p =>
    unfold runOp
    refine Triple.bind (resolve_inv p) fun r => ?_
    obtain ⟨path, st⟩ := r
    refine Triple.ite' (fun _ => Triple.fail' fun _ h => h) fun _ => ?_
    refine Triple.bind (doXattr_inv path _ _ (fun _ => by keeproot)) fun _ => ?_
    exact Triple.pure' fun _ h => h
  | getx p =>
    unfold runOp
    refine Triple.bind (resolve_inv p) fun r => ?_
    obtain ⟨path, st⟩ := r
    refine Triple.ite' (fun _ => Triple.fail' fun _ h => h) fun _ => ?_
    refine Triple.bind (lookupSelf_inv' path) fun m => Triple.pure_pre fun _ => ?_
    refine Triple.ite' (fun _ => Triple.fail' fun _ h => h) fun _ => ?_
    refine Triple.bind (firstReal_inv path) fun r => Triple.pure_pre fun _ => ?_
    refine Triple.bind (Q := fun _ => INV) (Triple.getSt' fun _ h => h) fun s0 => ?_
    exact Triple.pure' fun _ h => h
  | walk =>
    unfold runOp
    refine Triple.bind rootStat_inv fun _ => ?_
    refine Triple.bind (walkFrom_inv _ _) fun _ => ?_
    exact Triple.pure' fun _ h => h

/-- the invariant holds along every history -/
theorem run_inv (ops : List Op) : ∀ s, INV s → INV (run s ops) := by
  induction ops with
  | nil => exact fun _ h => h
  | cons op rest ih =>
    intro s hs
    exact ih _ ((runOp_inv op).st hs)

/-! ## instance 1: mutating calls only ever reach the upper layer -/

/-- real inodes flagged `in_upper_layer` belong to layer 0; logged calls are on layer 0; the
    lower layers are the ones the history started with -/
def upperSpec (L0 : List Layer) : InvSpec where
  φ r := r.inUpper = true → r.layer = 0
  ψ c := c.layer = 0
  D d := d.lowers = L0
  child r c h hl hu := by intro hc; rw [hl]; exact h (hu ▸ hc)
  call r _ h hu := h hu
  disk r L L' d h hu hd _ _ := by
    have : r.layer = 0 := h hu
    rw [this]; simpa [Disk.setLayer] using hd

/-- the state right after `import` -/
def importSt0 (d : Disk) : St :=
  { disk := d, log := [], nextId := 1000000,
    mem := fun q => if q = [] then
      some { reals := d.indices.map (rootReal d), whiteout := false, loaded := false, kids := [] } else none }

theorem importFs_eq (d : Disk) : importFs d = (loadDirectory [] (importSt0 d)).st := rfl

theorem import_inv (J : InvSpec) (d : Disk) (hφ : ∀ i ∈ d.indices, J.φ (rootReal d i)) (hD : J.D d) :
    GInv J (importFs d) := by
  rw [importFs_eq]
  refine (loadDirectory_inv []).st ⟨?_, ?_, hD⟩
  · intro p m hm
    simp only [importSt0] at hm
    split at hm
    · cases hm
      intro r hr
      simp only [List.mem_map] at hr
      obtain ⟨i, hi, rfl⟩ := hr
      exact hφ i hi
    · cases hm
  · intro c hc
    simp [importSt0] at hc

theorem import_upper (d : Disk) : GInv (upperSpec d.lowers) (importFs d) := by
  refine import_inv _ d (fun i _ => ?_) rfl
  intro h
  simpa [rootReal] using h

/-! ## instance 2: no upper layer -/

/-- without an upper layer no real inode is flagged `in_upper_layer`, nothing is ever logged,
    the disk is the one the history started with -/
def noUpperSpec (d0 : Disk) : InvSpec where
  φ r := r.inUpper = false
  ψ _ := False
  D d := d = d0
  child r c h _ hu := by rw [hu]; exact h
  call r _ h hu := by rw [h] at hu; cases hu
  disk r L L' d h hu _ _ _ := by rw [h] at hu; cases hu

theorem mem_indices_pos {d : Disk} (hd : d.upper = none) : ∀ i ∈ d.indices, i ≠ 0 := by
  intro i hi
  simp [Disk.indices, hd] at hi
  obtain ⟨a, _, rfl⟩ := hi
  omega

theorem import_noUpper (d : Disk) (hd : d.upper = none) : GInv (noUpperSpec d) (importFs d) := by
  refine import_inv _ d (fun i hi => ?_) rfl
  have := mem_indices_pos hd i hi
  show (rootReal d i).inUpper = false
  simp [rootReal, this]

/-- nothing is in the upper layer when there is none -/
theorem noUpper_not_upAt {d0 : Disk} {s : St} {p : Path} (h : GInv (noUpperSpec d0) s) (hu : UpAt p s) : False := by
  obtain ⟨m, hm, hup⟩ := hu
  have hok := h.1 p m hm
  unfold MNode.inUpper at hup
  split at hup
  · rename_i r rest hr
    have : r.inUpper = false := hok r (by simp [hr])
    rw [this] at hup; cases hup
  · cases hup

end Fbr.Ovl
