/-
  Fbr.Lemmas.PtHostNames — name-check lemmas of the passthrough model and lookup helpers over the
  generated source tables.
-/
import Fbr.Host
import Fbr.PtHost

namespace Fbr.PtHost
open Fbr.Host

/-- `<tag>Lead` row of a function: its first statements -/
def leadOf (tbl : List (String × String × String × List String)) (impl tr fn : String) : Option (List String) :=
  (tbl.find? fun r => r.1 == impl && r.2.1 == tr && r.2.2.1 == fn).map (·.2.2.2)

theorem startsWith_dot (n : Name) (h0 : (0 : UInt8) ∉ n) : startsWith (withNul n) CURRENT_DIR_CSTR = true ↔ n = [46] := by
  cases n with
  | nil => simp [startsWith, withNul, CURRENT_DIR_CSTR]
  | cons a t =>
    cases t with
    | nil => simp [startsWith, withNul, CURRENT_DIR_CSTR]
    | cons b t' =>
      have hb : b ≠ 0 := by intro h; apply h0; simp [h]
      simp [startsWith, withNul, CURRENT_DIR_CSTR, hb]

theorem startsWith_dotdot (n : Name) (h0 : (0 : UInt8) ∉ n) : startsWith (withNul n) PARENT_DIR_CSTR = true ↔ n = [46, 46] := by
  cases n with
  | nil => simp [startsWith, withNul, PARENT_DIR_CSTR]
  | cons a t =>
    cases t with
    | nil => simp [startsWith, withNul, PARENT_DIR_CSTR]
    | cons b t' =>
      cases t' with
      | nil => simp [startsWith, withNul, PARENT_DIR_CSTR]
      | cons c t'' =>
        have hc : c ≠ 0 := by intro h; apply h0; simp [h]
        simp [startsWith, withNul, PARENT_DIR_CSTR, hc]

theorem contains_slash (n : Name) : (withNul n).contains SLASH = true ↔ SLASH ∈ n := by
  simp [withNul, SLASH]

variable {α β : Type}

theorem bind_throw (m : M α) (f : α → M β) (s : PtState) (e : Nat) (h : m s = .pure (.error e, s)) :
    (m >>= f) s = .pure (.error e, s) := by
  show M.bind' m f s = _
  simp [M.bind', h, Prog.bind]

theorem bind_ok (m : M α) (f : α → M β) (s s' : PtState) (a : α) (h : m s = .pure (.ok a, s')) :
    (m >>= f) s = f a s' := by
  show M.bind' m f s = _
  simp [M.bind', h, Prog.bind]

theorem validateName_bad (cfg : Cfg) (n : Name) (hc : cfg.doImport = true) (hb : validatePathComponent n = some EINVAL)
    (s : PtState) : validateName cfg n s = .pure (.error EINVAL, s) := by
  simp [validateName, hc, hb, M.throw]

theorem validateName_ok (cfg : Cfg) (n : Name) (hb : validatePathComponent n = none) (s : PtState) :
    validateName cfg n s = .pure (.ok (), s) := by
  unfold validateName
  split
  · rfl
  · simp [hb]; rfl

end Fbr.PtHost
