/-
  Helper lemmas for C04/C17: the address-level refinement of the IoBuffers loops
  (`allocate`, `mark_dirty`, `mark_used`, `split_at`) to `take`/`drop` on the flat address list.
-/
import Fbr.XportSpec

namespace Fbr.Xport

/-! ### segAddrs / addrs basics -/

@[simp] theorem length_segAddrs (s : Seg) : (segAddrs s).length = s.len := by
  simp [segAddrs]

@[simp] theorem length_addrs (segs : List Seg) : (addrs segs).length = total segs := by
  induction segs with
  | nil => rfl
  | cons s rest ih => simp [addrs, total, ih]

theorem segAddrs_zero (s : Seg) (h : s.len = 0) : segAddrs s = [] := by
  simp [segAddrs, h]

theorem mem_segAddrs {s : Seg} {a : Addr} :
    a ∈ segAddrs s ↔ a.1 = s.region ∧ s.off ≤ a.2 ∧ a.2 < s.off + s.len := by
  obtain ⟨r, i⟩ := a
  simp only [segAddrs, List.mem_map, List.mem_range, Prod.mk.injEq]
  constructor
  · rintro ⟨j, hj, rfl, rfl⟩; omega
  · rintro ⟨rfl, h1, h2⟩; exact ⟨i - s.off, by omega, rfl, by omega⟩

/-- the first `n` addresses of a buffer = the buffer truncated to `n` -/
theorem segAddrs_take (s : Seg) (n : Nat) (h : n ≤ s.len) :
    (segAddrs s).take n = segAddrs { s with len := n } := by
  simp only [segAddrs, ← List.map_take, List.take_range]
  congr 2; omega

/-- dropping `n` addresses of a buffer = the buffer advanced by `n` -/
theorem segAddrs_drop (s : Seg) (n : Nat) (h : n ≤ s.len) :
    (segAddrs s).drop n = segAddrs { s with off := s.off + n, len := s.len - n } := by
  apply List.ext_getElem
  · simp
  · intro i h1 h2
    simp [segAddrs] at h1 h2 ⊢
    omega

/-! ### allocate / dirtyRanges / markUsedSegs / splitSegs on the flat list -/

theorem dirtyRanges_eq_allocate (segs : List Seg) (n : Nat) : dirtyRanges segs n = allocate segs n := by
  induction segs generalizing n with
  | nil => rfl
  | cons s rest ih => simp only [dirtyRanges, allocate, ih]

theorem addrs_allocate (segs : List Seg) (n : Nat) : addrs (allocate segs n) = (addrs segs).take n := by
  induction segs generalizing n with
  | nil => simp [allocate, addrs]
  | cons s rest ih =>
    simp only [allocate]
    by_cases h0 : n = 0
    · simp [h0, addrs]
    · simp only [h0, if_false, addrs, ih]
      by_cases h : s.len > n
      · simp only [h, if_true]
        rw [List.take_append_of_le_length (by simp; omega)]
        simp [segAddrs_take s n (by omega)]
      · simp only [h, if_false]
        rw [List.take_append]
        simp only [length_segAddrs]
        rw [List.take_of_length_le (l := segAddrs s) (by simp; omega)]

theorem addrs_markUsed (segs : List Seg) (n : Nat) : addrs (markUsedSegs segs n) = (addrs segs).drop n := by
  induction segs generalizing n with
  | nil => simp [markUsedSegs, addrs]
  | cons s rest ih =>
    simp only [markUsedSegs]
    by_cases h : n < s.len
    · simp only [h, if_true, addrs]
      rw [List.drop_append_of_le_length (by simp; omega)]
      rw [segAddrs_drop s n (by omega)]
    · simp only [h, if_false, addrs, ih]
      rw [List.drop_append]
      simp only [length_segAddrs]
      rw [List.drop_of_length_le (l := segAddrs s) (by simp; omega)]
      simp

theorem splitSegs_spec (segs : List Seg) (k : Nat) :
    (k ≤ total segs → ∃ a o, splitSegs segs k = some (a, o) ∧ addrs a = (addrs segs).take k ∧ addrs o = (addrs segs).drop k)
    ∧ (total segs < k → splitSegs segs k = none) := by
  induction segs generalizing k with
  | nil =>
    simp only [total, splitSegs, addrs]
    constructor
    · intro h; have : k = 0 := by omega
      subst this; exact ⟨[], [], rfl, by simp [addrs], by simp [addrs]⟩
    · intro h; simp; omega
  | cons s rest ih =>
    simp only [total, splitSegs, addrs]
    by_cases h : k < s.len
    · simp only [h, if_true]
      constructor
      · intro _
        by_cases hk : k > 0
        · simp only [hk, if_true]
          refine ⟨_, _, rfl, ?_, ?_⟩
          · simp only [addrs, List.append_nil]
            rw [List.take_append_of_le_length (by simp; omega)]
            exact (segAddrs_take s k (by omega)).symm
          · simp only [addrs]
            rw [List.drop_append_of_le_length (by simp; omega)]
            rw [segAddrs_drop s k (by omega)]
        · have : k = 0 := by omega
          subst this
          simp only [Nat.lt_irrefl, if_false]
          exact ⟨_, _, rfl, by simp [addrs], by simp [addrs]⟩
      · intro h2; omega
    · simp only [h, if_false]
      obtain ⟨ih1, ih2⟩ := ih (k - s.len)
      constructor
      · intro hk
        obtain ⟨a, o, e, ha, ho⟩ := ih1 (by omega)
        refine ⟨s :: a, o, by simp [e], ?_, ?_⟩
        · simp only [addrs, ha]
          rw [List.take_append]
          simp only [length_segAddrs]
          rw [List.take_of_length_le (l := segAddrs s) (by simp; omega)]
        · rw [ho, List.drop_append]
          simp only [length_segAddrs]
          rw [List.drop_of_length_le (l := segAddrs s) (by simp; omega)]
          simp
      · intro hk
        simp [ih2 (by omega)]

theorem available_eq_total (b : IoBufs) : b.available = total b.segs := by
  unfold IoBufs.available
  suffices h : ∀ (l : List Seg) (c : Nat), l.foldl (fun c s => c + s.len) c = c + total l by
    simpa using h b.segs 0
  intro l
  induction l with
  | nil => intro c; simp [total]
  | cons s rest ih => intro c; simp [List.foldl, total, ih]; omega

theorem total_allocate (segs : List Seg) (n : Nat) : total (allocate segs n) = min n (total segs) := by
  have := congrArg List.length (addrs_allocate segs n)
  simpa using this

theorem total_markUsed (segs : List Seg) (n : Nat) : total (markUsedSegs segs n) = total segs - n := by
  have := congrArg List.length (addrs_markUsed segs n)
  simpa using this

end Fbr.Xport
