/-
  Helper lemmas for C16: PseudoFs::do_readdir (index offsets) under the server's accounting.
-/
import Fbr.Lemmas.PtDirAcct

namespace Fbr.Lemmas.PtDir
open Fbr.PtDir Fbr.Wire

/-- the entries a pseudo directory offers from index `k` on: offset of the `i`-th child is `i + 1` -/
def pOffers : List PChild → Nat → List Offer
  | [], _ => []
  | c :: r, k => { ino := c.ino, off := k + 1, type := 0, name := c.name } :: pOffers r (k + 1)

/-- the offers the accounting accepts -/
def acceptedO (size : Nat) (plus : Bool) : List Offer → Nat → List Offer
  | [], _ => []
  | o :: r, written =>
    if size - written < fuseLen plus o.name.length then []
    else o :: acceptedO size plus r (written + fuseLen plus o.name.length)

theorem acceptedO_prefix (size : Nat) (plus : Bool) (l : List Offer) (w : Nat) : acceptedO size plus l w <+: l := by
  induction l generalizing w with
  | nil => simp [acceptedO]
  | cons e r ih =>
    simp only [acceptedO]
    split
    · exact List.nil_prefix
    · exact List.cons_prefix_cons.mpr ⟨rfl, ih _⟩

theorem acceptedO_within (size : Nat) (plus : Bool) (l : List Offer) (w : Nat) (hw : w ≤ size) :
    w + ((acceptedO size plus l w).map (fun o => fuseLen plus o.name.length)).sum ≤ size := by
  induction l generalizing w with
  | nil => simp [acceptedO]; exact hw
  | cons e r ih =>
    simp only [acceptedO]
    split
    · simp; exact hw
    · have := ih (w + fuseLen plus e.name.length) (by omega)
      simp only [List.map_cons, List.sum_cons]
      omega

theorem pseudoLoop_srvCb (size : Nat) (plus : Bool) (cs : List PChild) (k : Nat) (a : Acc) :
    (pseudoLoop (srvCb size plus none) cs (k + 1) a).1.out = a.out ++ acceptedO size plus (pOffers cs k) a.written ∧
    (pseudoLoop (srvCb size plus none) cs (k + 1) a).2 = .ok () := by
  induction cs generalizing k a with
  | nil => simp [pseudoLoop, pOffers, acceptedO]
  | cons c r ih =>
    unfold pseudoLoop
    have hstep := srvCb_step size plus a { ino := c.ino, off := k + 1, type := 0, name := c.name }
    simp only at hstep
    rw [hstep]
    by_cases hlt : size - a.written < fuseLen plus c.name.length
    · simp [hlt, pOffers, acceptedO]
    · simp only [hlt, if_false]
      have hp := fuseLen_pos plus c.name.length
      cases hf : fuseLen plus c.name.length with
      | zero => omega
      | succ n =>
        simp only
        rw [← hf]
        let o : Offer := { ino := c.ino, off := k + 1, type := 0, name := c.name }
        let a' : Acc := { written := a.written + fuseLen plus c.name.length, out := a.out ++ [o], offered := a.offered + 1 }
        obtain ⟨h1, h2⟩ := ih (k + 1) a'
        refine ⟨?_, h2⟩
        show (pseudoLoop (srvCb size plus none) r (k + 1 + 1) a').1.out = _
        rw [h1]
        simp [a', o, pOffers, acceptedO, hlt]

/-- the reply of a pseudo directory to any request -/
theorem pseudoRead_spec (children : List PChild) (plus : Bool) (size offset : Nat) (hs : size ≠ 0) :
    pseudoRead children plus size offset none =
      .ok (acceptedO size plus (pOffers (children.drop offset) offset) 0) := by
  unfold pseudoRead pseudoReaddir
  simp only [hs, if_false]
  by_cases hlen : offset ≥ children.length
  · simp only [hlen, if_true]
    rw [List.drop_eq_nil_of_le hlen]
    simp [pOffers, acceptedO]
  · simp only [hlen, if_false]
    obtain ⟨h2, h3⟩ := pseudoLoop_srvCb size plus (children.drop offset) offset ({} : Acc)
    rcases hl : pseudoLoop (srvCb size plus none) (children.drop offset) (offset + 1) ({} : Acc) with ⟨a, r⟩
    rw [hl] at h2 h3
    simp only at h2 h3
    subst h3
    simp only
    rw [h2]; simp

theorem pOffers_drop (cs : List PChild) (k n : Nat) :
    (pOffers cs k).drop n = pOffers (cs.drop n) (k + n) := by
  induction n generalizing cs k with
  | zero => simp
  | succ n ih =>
    cases cs with
    | nil => simp [pOffers]
    | cons c r =>
      simp only [pOffers, List.drop_succ_cons]
      rw [ih r (k + 1)]
      congr 1; omega

theorem pOffers_length (cs : List PChild) (k : Nat) : (pOffers cs k).length = cs.length := by
  induction cs generalizing k with
  | nil => rfl
  | cons c r ih => simp [pOffers, ih]

theorem pOffers_last_off (cs : List PChild) (k : Nat) (p : List Offer) (hp : p <+: pOffers cs k) (hne : p ≠ []) :
    (p.getLast hne).off = k + p.length := by
  induction cs generalizing k p with
  | nil => simp only [pOffers, List.prefix_nil] at hp; exact absurd hp hne
  | cons c r ih =>
    cases p with
    | nil => exact absurd rfl hne
    | cons x xs =>
      simp only [pOffers] at hp
      obtain ⟨hx, hxs⟩ := List.cons_prefix_cons.mp hp
      cases xs with
      | nil => subst hx; simp
      | cons y ys =>
        have := ih (k + 1) (y :: ys) hxs (by simp)
        simp only [List.getLast_cons_cons, List.length_cons] at this ⊢
        rw [this]; omega

/-- a sequential walk over a pseudo directory: `(plus, size)` per request -/
def pwalk (children : List PChild) : Nat → List (Bool × Nat) → List (List Offer)
  | _, [] => []
  | c, (plus, size) :: more =>
    match pseudoRead children plus size c none with
    | .ok es => if es.isEmpty then [[]] else es :: pwalk children (lastOff' es c) more
    | .error _ => []
where lastOff' (es : List Offer) (c : Nat) : Nat := (es.getLast?.map (·.off)).getD c

theorem pwalk_complete (children : List PChild) :
    ∀ (steps : List (Bool × Nat)) (c : Nat), c ≤ children.length →
      (∀ s ∈ steps, s.2 ≠ 0 ∧ ∀ ch ∈ children, fuseLen s.1 ch.name.length ≤ s.2) →
      children.length - c < steps.length →
      (pwalk children c steps).flatten = pOffers (children.drop c) c ∧ (pwalk children c steps).getLast? = some [] := by
  intro steps
  induction steps with
  | nil => intro c _ _ h; simp at h
  | cons s more ih =>
    intro c hc hsteps hl
    obtain ⟨plus, size⟩ := s
    obtain ⟨hs, hfit⟩ := hsteps (plus, size) (by simp)
    simp only at hs hfit
    simp only [pwalk, pseudoRead_spec children plus size c hs]
    have hpre := acceptedO_prefix size plus (pOffers (children.drop c) c) 0
    by_cases hpe : acceptedO size plus (pOffers (children.drop c) c) 0 = []
    · -- nothing accepted: nothing left (the first child would fit)
      have hnil : children.drop c = [] := by
        cases hd : children.drop c with
        | nil => rfl
        | cons ch r =>
          rw [hd] at hpe
          simp only [pOffers, acceptedO] at hpe
          have hin : ch ∈ children := List.mem_of_mem_drop (by rw [hd]; simp)
          have := hfit ch hin
          have hlt : ¬ (size - 0 < fuseLen plus ch.name.length) := by omega
          simp [hlt] at hpe
          omega
      rw [hnil]
      simp [pOffers, acceptedO]
    · have hne : (acceptedO size plus (pOffers (children.drop c) c) 0).isEmpty = false := by
        cases h : acceptedO size plus (pOffers (children.drop c) c) 0 with
        | nil => exact absurd h hpe
        | cons x xs => rfl
      simp only [hne, Bool.false_eq_true, if_false]
      generalize hp : acceptedO size plus (pOffers (children.drop c) c) 0 = p at hpre hpe hne
      have hoff : pwalk.lastOff' p c = c + p.length := by
        simp only [pwalk.lastOff', List.getLast?_eq_some_getLast hpe, Option.map_some, Option.getD_some]
        exact pOffers_last_off (children.drop c) c p hpre hpe
      rw [hoff]
      have hplen : p.length ≤ children.length - c := by
        have := hpre.length_le
        rw [pOffers_length, List.length_drop] at this
        exact this
      have hp1 : 1 ≤ p.length := List.length_pos_iff.mpr hpe
      obtain ⟨ih1, ih2⟩ := ih (c + p.length) (by omega) (fun s hs' => hsteps s (by simp [hs']))
        (by simp only [List.length_cons] at hl; omega)
      refine ⟨?_, ?_⟩
      · simp only [List.flatten_cons, ih1]
        obtain ⟨t, ht⟩ := hpre
        have : t = (pOffers (children.drop c) c).drop p.length := by
          rw [← ht]; simp
        rw [pOffers_drop, List.drop_drop] at this
        rw [← ht, this]
      · cases hw : pwalk children (c + p.length) more with
        | nil => rw [hw] at ih2; simp at ih2
        | cons y ys => rw [hw] at ih2; simpa [List.getLast?_cons_cons] using ih2

end Fbr.Lemmas.PtDir
