/-
  Helper lemmas for C04: the GLOBAL content statements, for ANY operation list including splits of
  every handle: the bytes delivered by all reader operations, in operation order, are the bytes
  (of the original memory) at the addresses read, in order of reading; the addresses written, in
  order of writing, hold the bytes stored by all writer operations, in operation order.
-/
import Fbr.Lemmas.XportCThm

namespace Fbr.Xport

/-- the bytes an operation delivers (through the reader handle it acts on) -/
def deliveredOp (s : St) (op : Op) : Bytes :=
  match op.rh with
  | some h => delivered s h op
  | none => []

/-- the bytes an operation stores (through the writer handle it acts on) -/
def placedOp (s : St) (op : Op) : Bytes :=
  match op.wh with
  | some h => placed s h op
  | none => []

def deliveredLog (s : St) : List Op → Bytes
  | [] => []
  | op :: rest => deliveredOp s op ++ deliveredLog (step s op).1 rest

def placedLog (s : St) : List Op → Bytes
  | [] => []
  | op :: rest => placedOp s op ++ placedLog (step s op).1 rest

theorem deliveredOp_nil {s : St} {op : Op} (h : ∀ i, delivered s i op = []) : deliveredOp s op = [] := by
  unfold deliveredOp; split
  · exact h _
  · rfl

theorem placedOp_nil {s : St} {op : Op} (h : ∀ i, placed s i op = []) : placedOp s op = [] := by
  unfold placedOp; split
  · exact h _
  · rfl

theorem step_rdlog {m0 : Mem} {s : St} (hc : CInv m0 s) (hr : RInv m0 s) (op : Op) :
    (rdAddrs (step s op).1.w.log).map m0.byteAt = (rdAddrs s.w.log).map m0.byteAt ++ deliveredOp s op := by
  rcases step_view s op hc.ready with ⟨e, hd, _⟩ | ⟨h, b, b', w', hrh, _, hg, e, hrc⟩ | ⟨h, k, b, a, o, eop, hg, hs, e⟩
      | ⟨h, b, b', w', hwh, _, hg, e, hw⟩ | ⟨h, k, b, a, o, eop, hg, hs, e⟩
  · rw [e, deliveredOp_nil hd]; simp
  · rw [e]
    have h4 := hrc.1.2.2.2.1
    simp only [sel, Bool.false_eq_true, if_false] at h4
    simp only
    rw [h4, List.map_append]
    congr 1
    have hdv : deliveredOp s op = readerOut b s.w op := by
      unfold deliveredOp; rw [hrh]; simp only; rw [delivered_eq hrh hg h]; simp
    rw [hdv]
    refine Eq.trans ?_ hrc.2.2.symm
    apply List.map_congr_left
    intro a ha
    exact (hr.agree a (mem_ahead.mpr ⟨b, mem_of_getElem? hg, List.mem_of_mem_take ha⟩)).symm
  · rw [e]
    have : deliveredOp s op = [] := by
      unfold deliveredOp; rw [eop]; simp only [Op.rh]; rw [delivered_eq (op := .rs h k) rfl hg h]; simp [readerOut]
    rw [this]; simp
  · rw [e]
    have h5 := hw.adv.2.2.2.2.1
    simp only [sel, Bool.not_true, Bool.false_eq_true, if_false] at h5
    have : deliveredOp s op = [] := by unfold deliveredOp; rw [wh_rh hwh]
    simp only
    rw [this, h5]; simp
  · rw [e]
    have : deliveredOp s op = [] := by unfold deliveredOp; rw [eop]; rfl
    rw [this]; simp

theorem exec_rdlog {m0 : Mem} (ops : List Op) {s : St} (hc : CInv m0 s) (hr : RInv m0 s) :
    (rdAddrs (exec s ops).w.log).map m0.byteAt = (rdAddrs s.w.log).map m0.byteAt ++ deliveredLog s ops := by
  induction ops generalizing s with
  | nil => simp [exec, deliveredLog]
  | cons op rest ih =>
    show (rdAddrs (exec (step s op).1 rest).w.log).map m0.byteAt = _
    rw [ih (step_cinv hc op) (step_rinv hc hr op), step_rdlog hc hr op, deliveredLog, List.append_assoc]

/-- written addresses and the addresses writers still hold are pairwise distinct, and the
    written ones hold `P` -/
def WL (s : St) (P : Bytes) : Prop :=
  (wrAddrs s.w.log ++ ahead s.writers).Nodup ∧ (wrAddrs s.w.log).map s.w.mem.byteAt = P

theorem step_wl {m0 : Mem} {s : St} (hc : CInv m0 s) {P : Bytes} (h : WL s P) (op : Op) :
    WL (step s op).1 (P ++ placedOp s op) := by
  obtain ⟨hnd, hP⟩ := h
  rcases step_view s op hc.ready with ⟨e, _, hd⟩ | ⟨i, b, b', w', hrh, _, hg, e, hrc⟩ | ⟨i, k, b, a, o, eop, hg, hs, e⟩
      | ⟨i, b, b', w', hwh, _, hg, e, hw⟩ | ⟨i, k, b, a, o, eop, hg, hs, e⟩
  · rw [e, placedOp_nil hd]; exact ⟨hnd, by simpa using hP⟩
  · rw [e]
    have h5 := hrc.1.2.2.2.2.1
    simp only [sel, Bool.not_false, if_true] at h5
    have : placedOp s op = [] := by unfold placedOp; rw [rh_wh hrh]
    show (wrAddrs w'.log ++ ahead s.writers).Nodup ∧ (wrAddrs w'.log).map w'.mem.byteAt = P ++ placedOp s op
    rw [this, h5, hrc.2.1]
    exact ⟨hnd, by simpa using hP⟩
  · rw [e]
    have : placedOp s op = [] := by unfold placedOp; rw [eop]; rfl
    rw [this]; exact ⟨hnd, by simpa using hP⟩
  · rw [e]
    have h4 := hw.adv.2.2.2.1
    simp only [sel, if_true] at h4
    have hpo : placedOp s op = writerIn b s.w op := by
      unfold placedOp; rw [hwh]; simp only; rw [placed_eq hwh hg i]; simp
    have hperm := perm_ahead_set s.writers i b b' ((addrs b.segs).take (writerIn b s.w op).length) hg
      (by rw [hw.addrs', List.take_append_drop])
    show (wrAddrs w'.log ++ ahead (s.writers.set i b')).Nodup
      ∧ (wrAddrs w'.log).map w'.mem.byteAt = P ++ placedOp s op
    rw [h4, hpo]
    constructor
    · rw [List.append_assoc]
      exact ((List.Perm.append_left _ hperm).nodup_iff).mpr hnd
    · rw [List.map_append]
      have hndb : (addrs b.segs).Nodup := by
        have := (List.nodup_append.mp hnd).2.1
        exact nodup_of_mem_ahead this hg
      rw [hw.content hndb]
      congr 1
      rw [← hP]
      apply List.map_congr_left
      intro a ha
      apply hw.frame
      intro hm
      exact (List.nodup_append.mp hnd).2.2 a ha a
        (mem_ahead.mpr ⟨b, mem_of_getElem? hg, List.mem_of_mem_take hm⟩) rfl
  · rw [e]
    have : placedOp s op = [] := by
      unfold placedOp; rw [eop]; simp only [Op.wh]; rw [placed_eq (op := .ws i k) rfl hg i]; simp [writerIn]
    rw [this]
    obtain ⟨_, _, _, _, f5⟩ := split_facts hs (hc.wov b (mem_of_getElem? hg))
    refine ⟨?_, by simpa using hP⟩
    simp only
    exact ((List.Perm.append_left _ (perm_split s.writers i b a o hg f5)).nodup_iff).mpr hnd

theorem exec_wl {m0 : Mem} (ops : List Op) {s : St} (hc : CInv m0 s) {P : Bytes} (h : WL s P) :
    WL (exec s ops) (P ++ placedLog s ops) := by
  induction ops generalizing s P with
  | nil => simpa [exec, placedLog] using h
  | cons op rest ih =>
    have := ih (step_cinv hc op) (step_wl hc h op)
    rw [List.append_assoc] at this
    exact this

end Fbr.Xport
