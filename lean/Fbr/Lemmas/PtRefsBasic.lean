/-
  Basic facts about `forgetOne` / `removeInode` / `setRefs` / `insertInode` of `Fbr.PtRefs`.
-/
import Fbr.PtRefs
import Fbr.Lemmas.PtMap
import Fbr.Lemmas.PtProj

namespace Fbr.PtRefs

@[simp] theorem removeInode_data (s : St) (i : Ino) (d : IData) (k : Bool) :
    (removeInode s i d k).data = mdel s.data i := by
  unfold removeInode
  simp only
  rw [data_of_tables (tables_dropIData _ d)]
  split <;> rfl

@[simp] theorem setRefs_data (s : St) (i : Ino) (d : IData) (r : Nat) :
    (setRefs s i d r).data = mput s.data i { d with refs := r } := rfl

theorem forgetOne_root (e : Env) (s : St) (n : Nat) : forgetOne e s ROOT_ID n = s := by
  simp [forgetOne]

theorem forgetOne_absent (e : Env) (s : St) (i : Ino) (n : Nat) (h : mget s.data i = none) :
    forgetOne e s i n = s := by
  unfold forgetOne
  split
  · rfl
  · simp [h]

/-- what `forget_one` does to the entry it is aimed at -/
theorem forgetOne_data_self (e : Env) (s : St) (i : Ino) (n : Nat) (d : IData)
    (hi : i ≠ ROOT_ID) (hd : mget s.data i = some d) :
    mget (forgetOne e s i n).data i =
      if d.refs - n = 0 then none else some { d with refs := d.refs - n } := by
  unfold forgetOne
  simp only [hi, if_false, hd]
  split <;> simp

/-- … and to every other entry: nothing -/
theorem forgetOne_data_other (e : Env) (s : St) (i j : Ino) (n : Nat) (h : i ≠ j) :
    mget (forgetOne e s i n).data j = mget s.data j := by
  unfold forgetOne
  split
  · rfl
  · split
    · rfl
    · simp only
      split
      · simp [mget_mdel_ne _ h]
      · simp [mget_mput_ne _ _ h]

theorem batchForget_root (e : Env) (l : List (Ino × Nat)) (s : St) :
    mget (batchForget e s l).data ROOT_ID = mget s.data ROOT_ID := by
  induction l generalizing s with
  | nil => rfl
  | cons p r ih =>
    obtain ⟨i, n⟩ := p
    simp only [batchForget]
    rw [ih]
    by_cases h : i = ROOT_ID
    · subst h; rw [forgetOne_root]
    · exact forgetOne_data_other e s i ROOT_ID n h

end Fbr.PtRefs
