/-
  Fbr.Lemmas.PtHostCalls — host-independent call invariants: `Prog.OnlyCalls P p` says that every
  call `p` can ever make (whatever the host answers) satisfies `P`.  Instantiated with `IoSafe`:
  the only opens without `O_PATH` are (a) re-opens of an inode whose recorded type is regular file
  or directory and (b) `O_CREAT|O_EXCL` creations of a new regular file.
-/
import Fbr.Host
import Fbr.PtHost

namespace Fbr.PtHost
open Fbr.Host

variable {α β : Type}

theorem onlyCalls_bind {P : HCall → Prop} {p : Prog α} {f : α → Prog β}
    (hp : p.OnlyCalls P) (hf : ∀ a, (f a).OnlyCalls P) : (p.bind f).OnlyCalls P := by
  induction p with
  | pure a => exact hf a
  | call c k ih => exact ⟨hp.1, fun a => ih a (hp.2 a)⟩

structure OnlyM (P : HCall → Prop) (m : M α) : Prop where
  h : ∀ st, (m st).OnlyCalls P

variable {P : HCall → Prop}

theorem onlyM_pure (a : α) : OnlyM P (pure a : M α) := ⟨fun _ => trivial⟩
theorem onlyM_pure' (a : α) : OnlyM P (M.pure' a : M α) := ⟨fun _ => trivial⟩
theorem onlyM_throw (e : Nat) : OnlyM P (M.throw e : M α) := ⟨fun _ => trivial⟩
theorem onlyM_get : OnlyM P M.get := ⟨fun _ => trivial⟩
theorem onlyM_set (s : PtState) : OnlyM P (M.set s) := ⟨fun _ => trivial⟩
theorem onlyM_modify (f : PtState → PtState) : OnlyM P (M.modify f) := ⟨fun _ => trivial⟩
theorem onlyM_ofOption (e : Nat) (o : Option α) : OnlyM P (M.ofOption e o) := by
  cases o <;> exact ⟨fun _ => trivial⟩
theorem onlyM_ofExcept (o : Except Nat α) : OnlyM P (M.ofExcept o) := by
  cases o <;> exact ⟨fun _ => trivial⟩
theorem onlyM_sys {c : HCall} (h : P c) : OnlyM P (M.sys c) := ⟨fun _ => ⟨h, fun _ => trivial⟩⟩

theorem onlyM_bind {m : M α} {f : α → M β} (hm : OnlyM P m) (hf : ∀ a, OnlyM P (f a)) : OnlyM P (m >>= f) := by
  refine ⟨fun s => ?_⟩
  show (M.bind' m f s).OnlyCalls P
  unfold M.bind'
  refine onlyCalls_bind (hm.h s) ?_
  intro r
  cases h : r.1 with
  | ok a => simp only []; exact (hf a).h r.2
  | error e => simp only []; trivial

theorem onlyM_try {m : M α} (hm : OnlyM P m) : OnlyM P (M.try' m) := by
  refine ⟨fun s => ?_⟩
  unfold M.try'
  exact onlyCalls_bind (hm.h s) (fun _ => trivial)

/-! ### bit facts -/

theorem ne_zero_of_testBit {x i : Nat} (h : x.testBit i = true) : x ≠ 0 := by
  intro hx; simp [hx] at h

theorem has_or_right (x k : Nat) : has (x ||| 2 ^ k) (2 ^ k) = true := by
  unfold has
  have : ((x ||| 2 ^ k) &&& 2 ^ k).testBit k = true := by
    simp [Nat.testBit_and, Nat.testBit_or, Nat.testBit_two_pow_self]
  simpa using ne_zero_of_testBit this

theorem has_or_left {x b : Nat} (y : Nat) (h : has x b = true) : has (x ||| y) b = true := by
  unfold has at *
  simp only [bne_iff_ne, ne_eq] at *
  intro h0
  apply h
  apply Nat.eq_of_testBit_eq
  intro i
  have := congrArg (fun n => n.testBit i) h0
  simp only [Nat.testBit_and, Nat.testBit_or, Nat.zero_testBit] at this ⊢
  cases hx : x.testBit i <;> cases hb : b.testBit i <;> simp_all

/-! ### the I/O-open invariant -/

/-- the recorded mode says regular file or directory; plain `openat` is a lookup
    (`O_PATH|O_NOFOLLOW`) or the exclusive creation of a new file -/
def IoSafe : HCall → Prop
  | .reopen _ _ m => isSafeInode m = true
  | .openByHandle _ fl m => has fl O_PATH = true ∨ isSafeInode m = true
  | .openat _ _ fl _ => (has fl O_PATH = true ∧ has fl O_NOFOLLOW = true) ∨ (has fl O_CREAT = true ∧ has fl O_EXCL = true)
  | _ => True

-- unification of a lemma about one model function against a goal about another must fail fast
attribute [local irreducible] unitCall getFile statOf fdOf statFd statInode openInode fileHandleFromFd
  openFileAndHandle doLookup validateName inodeData newHandle getData checkFdFlags createFileExcl doRelease
  doGetattr doUnlink dropGid dropUid scopedGid scopedUid setCreds dropCreds withCreds dropCapFsetid raiseCapFsetid
  withKillpriv setattrMode setattrOwner setattrSize setattrUtimens setattrData doOpen createOpenExisting createHandle
  lookup forget setattr readlink symlink mknod mkdir unlink rmdir rename link open_ opendir create read write flush
  fsync release releasedir fallocate lseek statfs setxattr getxattr listxattr removexattr

syntax "only_leaf" : tactic
macro_rules | `(tactic| only_leaf) => `(tactic| assumption)
macro_rules | `(tactic| only_leaf) => `(tactic| exact onlyM_sys (by simp [IoSafe]))
macro_rules | `(tactic| only_leaf) => `(tactic| exact onlyM_sys trivial)
macro_rules | `(tactic| only_leaf) => `(tactic| exact onlyM_ofExcept _)
macro_rules | `(tactic| only_leaf) => `(tactic| exact onlyM_ofOption _ _)
macro_rules | `(tactic| only_leaf) => `(tactic| exact onlyM_modify _)
macro_rules | `(tactic| only_leaf) => `(tactic| exact onlyM_set _)
macro_rules | `(tactic| only_leaf) => `(tactic| exact onlyM_get)
macro_rules | `(tactic| only_leaf) => `(tactic| exact onlyM_throw _)
macro_rules | `(tactic| only_leaf) => `(tactic| exact onlyM_pure' _)
macro_rules | `(tactic| only_leaf) => `(tactic| exact onlyM_pure _)

macro "only" : tactic =>
  `(tactic| repeat (first | only_leaf | refine onlyM_try ?_ | refine onlyM_bind ?_ ?_ | intro _ | split | dsimp only))

theorem ioSafe_unitCall (c : HCall) (hc : IoSafe c) : OnlyM IoSafe (unitCall c) := by
  unfold unitCall
  refine onlyM_bind (onlyM_sys hc) ?_
  only
macro_rules | `(tactic| only_leaf) => `(tactic| exact ioSafe_unitCall _ trivial)

theorem ioSafe_getFile (d : InodeData) : OnlyM IoSafe (getFile d) := by
  unfold getFile
  split
  · only
  · refine onlyM_bind (onlyM_sys (Or.inl (by decide))) ?_
    only
macro_rules | `(tactic| only_leaf) => `(tactic| exact ioSafe_getFile _)

theorem ioSafe_statOf (a : HAns) : OnlyM IoSafe (statOf a) := by unfold statOf; only
macro_rules | `(tactic| only_leaf) => `(tactic| exact ioSafe_statOf _)
theorem ioSafe_fdOf (a : HAns) : OnlyM IoSafe (fdOf a) := by unfold fdOf; only
macro_rules | `(tactic| only_leaf) => `(tactic| exact ioSafe_fdOf _)
theorem ioSafe_statFd (f : Fd) : OnlyM IoSafe (statFd f) := by unfold statFd; only
macro_rules | `(tactic| only_leaf) => `(tactic| exact ioSafe_statFd _)
theorem ioSafe_statInode (d : InodeData) : OnlyM IoSafe (statInode d) := by unfold statInode; only
macro_rules | `(tactic| only_leaf) => `(tactic| exact ioSafe_statInode _)

/-- `open_inode`: the re-open is guarded by `is_safe_inode(data.mode)` -/
theorem ioSafe_openInode (cfg : Cfg) (i f : Nat) : OnlyM IoSafe (openInode cfg i f) := by
  unfold openInode
  refine onlyM_bind onlyM_get (fun s => ?_)
  refine onlyM_bind (onlyM_ofOption _ _) (fun d => ?_)
  split
  · exact onlyM_throw _
  · rename_i hsafe
    have hs : isSafeInode d.mode = true := by simpa using hsafe
    dsimp only
    split
    · exact onlyM_bind (onlyM_sys hs) (fun a => ioSafe_fdOf a)
    · exact onlyM_bind (onlyM_sys (Or.inr hs)) (fun a => ioSafe_fdOf a)
macro_rules | `(tactic| only_leaf) => `(tactic| exact ioSafe_openInode _ _ _)

theorem ioSafe_fileHandleFromFd (f : Fd) : OnlyM IoSafe (fileHandleFromFd f) := by
  unfold fileHandleFromFd; only
macro_rules | `(tactic| only_leaf) => `(tactic| exact ioSafe_fileHandleFromFd _)

theorem ioSafe_openFileAndHandle (cfg : Cfg) (d : Fd) (n : Name) : OnlyM IoSafe (openFileAndHandle cfg d n) := by
  unfold openFileAndHandle
  refine onlyM_bind (onlyM_sys (Or.inl ⟨by decide, by decide⟩)) (fun a => ?_)
  only
macro_rules | `(tactic| only_leaf) => `(tactic| exact ioSafe_openFileAndHandle _ _ _)

theorem ioSafe_doLookup (cfg : Cfg) (p : Nat) (n : Name) : OnlyM IoSafe (doLookup cfg p n) := by
  unfold doLookup; only
macro_rules | `(tactic| only_leaf) => `(tactic| exact ioSafe_doLookup _ _ _)
theorem ioSafe_validateName (cfg : Cfg) (n : Name) : OnlyM IoSafe (validateName cfg n) := by
  unfold validateName; only
macro_rules | `(tactic| only_leaf) => `(tactic| exact ioSafe_validateName _ _)
theorem ioSafe_inodeData (i : Nat) : OnlyM IoSafe (inodeData i) := by unfold inodeData; only
macro_rules | `(tactic| only_leaf) => `(tactic| exact ioSafe_inodeData _)
theorem ioSafe_newHandle (i : Nat) (f : Fd) (fl : Nat) : OnlyM IoSafe (newHandle i f fl) := by
  unfold newHandle; only
macro_rules | `(tactic| only_leaf) => `(tactic| exact ioSafe_newHandle _ _ _)
theorem ioSafe_getData (cfg : Cfg) (d : Bool) (h i f : Nat) : OnlyM IoSafe (getData cfg d h i f) := by
  unfold getData; only
macro_rules | `(tactic| only_leaf) => `(tactic| exact ioSafe_getData _ _ _ _ _)
theorem ioSafe_checkFdFlags (cfg : Cfg) (h : Nat) (hd : HandleData) (f : Nat) : OnlyM IoSafe (checkFdFlags cfg h hd f) := by
  unfold checkFdFlags; only
macro_rules | `(tactic| only_leaf) => `(tactic| exact ioSafe_checkFdFlags _ _ _ _)

/-- `create_file_excl`: the only `openat` without `O_PATH`, always with `O_CREAT|O_EXCL` -/
theorem ioSafe_createFileExcl (d : Fd) (n : Name) (f m : Nat) : OnlyM IoSafe (createFileExcl d n f m) := by
  unfold createFileExcl
  have h1 : has (f ||| O_CREAT ||| O_EXCL) O_CREAT = true := has_or_left _ (has_or_right f 6)
  have h2 : has (f ||| O_CREAT ||| O_EXCL) O_EXCL = true := has_or_right (f ||| O_CREAT) 7
  refine onlyM_bind (onlyM_sys (Or.inr ⟨h1, h2⟩)) ?_
  only
macro_rules | `(tactic| only_leaf) => `(tactic| exact ioSafe_createFileExcl _ _ _ _)

theorem ioSafe_doRelease (i h : Nat) : OnlyM IoSafe (doRelease i h) := by unfold doRelease; only
macro_rules | `(tactic| only_leaf) => `(tactic| exact ioSafe_doRelease _ _)
theorem ioSafe_doGetattr (cfg : Cfg) (i : Nat) (h : Option Nat) : OnlyM IoSafe (doGetattr cfg i h) := by
  unfold doGetattr; only
macro_rules | `(tactic| only_leaf) => `(tactic| exact ioSafe_doGetattr _ _ _)
theorem ioSafe_doUnlink (p : Nat) (n : Name) (f : Nat) : OnlyM IoSafe (doUnlink p n f) := by
  unfold doUnlink; only
macro_rules | `(tactic| only_leaf) => `(tactic| exact ioSafe_doUnlink _ _ _)

theorem ioSafe_dropGid (g : Bool) : OnlyM IoSafe (dropGid g) := by unfold dropGid; only
macro_rules | `(tactic| only_leaf) => `(tactic| exact ioSafe_dropGid _)
theorem ioSafe_dropUid (g : Bool) : OnlyM IoSafe (dropUid g) := by unfold dropUid; only
macro_rules | `(tactic| only_leaf) => `(tactic| exact ioSafe_dropUid _)
theorem ioSafe_scopedGid (g : Nat) : OnlyM IoSafe (scopedGid g) := by unfold scopedGid; only
macro_rules | `(tactic| only_leaf) => `(tactic| exact ioSafe_scopedGid _)
theorem ioSafe_scopedUid (g : Nat) : OnlyM IoSafe (scopedUid g) := by unfold scopedUid; only
macro_rules | `(tactic| only_leaf) => `(tactic| exact ioSafe_scopedUid _)
theorem ioSafe_setCreds (u g : Nat) : OnlyM IoSafe (setCreds u g) := by unfold setCreds; only
macro_rules | `(tactic| only_leaf) => `(tactic| exact ioSafe_setCreds _ _)
theorem ioSafe_dropCreds (g : CredGuards) : OnlyM IoSafe (dropCreds g) := by unfold dropCreds; only
macro_rules | `(tactic| only_leaf) => `(tactic| exact ioSafe_dropCreds _)
theorem ioSafe_withCreds (u g : Nat) {body : M α} (hb : OnlyM IoSafe body) : OnlyM IoSafe (withCreds u g body) := by
  unfold withCreds; only
theorem ioSafe_dropCap : OnlyM IoSafe dropCapFsetid := by unfold dropCapFsetid; only
macro_rules | `(tactic| only_leaf) => `(tactic| exact ioSafe_dropCap)
theorem ioSafe_raiseCap : OnlyM IoSafe raiseCapFsetid := by unfold raiseCapFsetid; only
macro_rules | `(tactic| only_leaf) => `(tactic| exact ioSafe_raiseCap)
theorem ioSafe_withKillpriv (c : Bool) {body : M α} (hb : OnlyM IoSafe body) : OnlyM IoSafe (withKillpriv c body) := by
  unfold withKillpriv; only

macro "only'" : tactic =>
  `(tactic| repeat (first | only_leaf | refine ioSafe_withCreds _ _ ?_ | refine ioSafe_withKillpriv _ ?_ | refine onlyM_try ?_ | refine onlyM_bind ?_ ?_ | intro _ | split | dsimp only))

theorem ioSafe_setattrMode (d : SetattrData) (v m : Nat) : OnlyM IoSafe (setattrMode d v m) := by
  unfold setattrMode; only'
macro_rules | `(tactic| only_leaf) => `(tactic| exact ioSafe_setattrMode _ _ _)
theorem ioSafe_setattrOwner (f : Fd) (v u g : Nat) : OnlyM IoSafe (setattrOwner f v u g) := by
  unfold setattrOwner; only'
macro_rules | `(tactic| only_leaf) => `(tactic| exact ioSafe_setattrOwner _ _ _ _)
theorem ioSafe_setattrSize (cfg : Cfg) (i : Nat) (d : SetattrData) (v sz : Nat) : OnlyM IoSafe (setattrSize cfg i d v sz) := by
  unfold setattrSize; only'
macro_rules | `(tactic| only_leaf) => `(tactic| exact ioSafe_setattrSize _ _ _ _ _)
theorem ioSafe_setattrUtimens (d : SetattrData) (v a an m mn : Nat) : OnlyM IoSafe (setattrUtimens d v a an m mn) := by
  unfold setattrUtimens; only'
macro_rules | `(tactic| only_leaf) => `(tactic| exact ioSafe_setattrUtimens _ _ _ _ _ _)
theorem ioSafe_setattrData (cfg : Cfg) (i : Nat) (h : Option Nat) (f : Fd) : OnlyM IoSafe (setattrData cfg i h f) := by
  unfold setattrData; only'
macro_rules | `(tactic| only_leaf) => `(tactic| exact ioSafe_setattrData _ _ _ _)
theorem ioSafe_doOpen (cfg : Cfg) (i f ff : Nat) : OnlyM IoSafe (doOpen cfg i f ff) := by
  unfold doOpen; only'
macro_rules | `(tactic| only_leaf) => `(tactic| exact ioSafe_doOpen _ _ _ _)

theorem ioSafe_createOpenExisting (cfg : Cfg) (c : Ctx) (e : Entry) (f ff : Nat) : OnlyM IoSafe (createOpenExisting cfg c e f ff) := by
  unfold createOpenExisting; only'
macro_rules | `(tactic| only_leaf) => `(tactic| exact ioSafe_createOpenExisting _ _ _ _ _)
theorem ioSafe_createHandle (cfg : Cfg) (i : Nat) (f : Fd) (fl : Nat) : OnlyM IoSafe (createHandle cfg i f fl) := by
  unfold createHandle; only'
macro_rules | `(tactic| only_leaf) => `(tactic| exact ioSafe_createHandle _ _ _ _)

theorem ioSafe_create (cfg : Cfg) (c : Ctx) (p : Nat) (n : Name) (f m u ff : Nat) : OnlyM IoSafe (create cfg c p n f m u ff) := by
  unfold create
  refine onlyM_bind (ioSafe_validateName _ _) (fun _ => ?_)
  refine onlyM_bind (ioSafe_inodeData _) (fun d => ?_)
  refine onlyM_bind (ioSafe_getFile _) (fun df => ?_)
  refine onlyM_bind (ioSafe_withCreds _ _ (ioSafe_createFileExcl _ _ _ _)) (fun nf => ?_)
  refine onlyM_bind (ioSafe_doLookup _ _ _) (fun e => ?_)
  refine onlyM_bind ?_ (fun file => ?_)
  · split
    · exact onlyM_pure _
    · exact ioSafe_createOpenExisting _ _ _ _ _
  · exact onlyM_bind (ioSafe_createHandle _ _ _ _) (fun _ => onlyM_pure _)

/-- every request: all opens without `O_PATH` are guarded -/
theorem ioSafe_handle (cfg : Cfg) (r : Req) : OnlyM IoSafe (handle cfg r) := by
  cases r <;> simp only [handle]
  · unfold lookup; only'
  · unfold forget; only'
  · only'
  · unfold setattr; only'
  · unfold readlink; only'
  · unfold symlink; only'
  · unfold mknod; only'
  · unfold mkdir; only'
  · unfold unlink; only'
  · unfold rmdir; only'
  · unfold rename; only'
  · unfold link; only'
  · unfold open_; only'
  · unfold opendir; only'
  · exact ioSafe_create ..
  · unfold read; only'
  · unfold write; only'
  · unfold flush; only'
  · unfold fsync; only'
  · unfold fsync; only'
  · unfold release; only'
  · unfold releasedir; only'
  · unfold fallocate; only'
  · unfold lseek; only'
  · unfold statfs; only'
  · unfold setxattr; only'
  · unfold getxattr; only'
  · unfold listxattr; only'
  · unfold removexattr; only'

end Fbr.PtHost
