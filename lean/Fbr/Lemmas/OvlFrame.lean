/-
  Frame lemmas for the SPEC union on the level of disks:
  (F1) the union at a path only depends on the layers' entries at that path and its ancestors;
  (F2) putting an empty, non-opaque directory into the upper layer where lower directories merge
       (what `create_upper_dir` does) changes the union nowhere, except that the merged directory
       now shows the new directory's mode and xattr.
-/
import Fbr.Ovl
import Fbr.Lemmas.OvlMerge
import Fbr.Lemmas.OvlSpecLink
import Fbr.Lemmas.OvlExp
import Fbr.Lemmas.OvlMut
import Fbr.Lemmas.OvlMutA
import Fbr.Lemmas.OvlMutP1

namespace Fbr.Ovl

/-- a visible node without its `user.x` xattr (which copy-up does not copy: known finding) -/
def VNode.dropX : VNode → VNode
  | .file m c _ => .file m c 0
  | .dir m _ => .dir m 0
  | v => v

theorem suffix_trans_isSuffixOf {a b c : Path} (h1 : a.isSuffixOf b = true) (h2 : b.isSuffixOf c = true) :
    a.isSuffixOf c = true :=
  List.isSuffixOf_iff_suffix.2 ((List.isSuffixOf_iff_suffix.1 h1).trans (List.isSuffixOf_iff_suffix.1 h2))

theorem isSuffixOf_refl (q : Path) : q.isSuffixOf q = true := List.isSuffixOf_iff_suffix.2 (List.suffix_refl q)

theorem isSuffixOf_cons' (n : Name) (q : Path) : q.isSuffixOf (n :: q) = true :=
  List.isSuffixOf_iff_suffix.2 (List.suffix_cons n q)

/-- (F1) the kept stack at a path only reads the entries at the path and at its ancestors -/
theorem expIdx_frame (d d' : Disk) (hidx : d'.indices = d.indices) : ∀ q : Path,
    (∀ i q', q'.isSuffixOf q = true → d'.nodeAt i q' = d.nodeAt i q') → expIdx d' q = expIdx d q
  | [], _ => by rw [expIdx, expIdx, hidx]
  | n :: pp, h => by
    have ih := expIdx_frame d d' hidx pp (fun i q' hq' => h i q' (suffix_trans_isSuffixOf hq' (isSuffixOf_cons' n pp)))
    have hpp : ∀ i, d'.nodeAt i pp = d.nodeAt i pp := fun i => h i pp (isSuffixOf_cons' n pp)
    have hq : ∀ i, d'.nodeAt i (n :: pp) = d.nodeAt i (n :: pp) := fun i => h i (n :: pp) (isSuffixOf_refl _)
    rw [expIdx, expIdx, ih, dirsIdx_congr d d' pp _ (fun i _ => hpp i), cutW_congr d d' (n :: pp) _ (fun i _ => hq i)]
    congr 1
    apply List.filter_congr
    intro i _
    rw [hq i]

theorem merge_frame (d d' : Disk) (hidx : d'.indices = d.indices) (q : Path)
    (h : ∀ i q', q'.isSuffixOf q = true → d'.nodeAt i q' = d.nodeAt i q') : merge d' q = merge d q := by
  rw [merge_eq_head, merge_eq_head, expIdx_frame d d' hidx q h]
  cases expIdx d q with
  | nil => rfl
  | cons i rest => simp only []; rw [h i q (isSuffixOf_refl q)]

/-- two disks with the same lower layers whose upper layers agree outside the subtree at `q0` show
    the same union outside that subtree -/
theorem merge_outside {d d' : Disk} {L L' : Layer} (hup : d.upper = some L) (hd' : d' = d.setLayer 0 L')
    (q0 : Path) (hout : ∀ q, q0.isSuffixOf q = false → L' q = L q) (q : Path) (hq : q0.isSuffixOf q = false) :
    merge d' q = merge d q := by
  apply merge_frame d d' (by rw [hd']; simp [Disk.setLayer, Disk.indices, hup])
  intro i q' hq'
  have hq0 : q0.isSuffixOf q' = false := by
    cases hb : q0.isSuffixOf q' with
    | false => rfl
    | true => rw [suffix_trans_isSuffixOf hb hq'] at hq; cases hq
  rw [hd', nodeAt_setLayer0]
  split
  · rename_i hi
    rw [hi, hout q' hq0]
    simp [Disk.nodeAt, Disk.layer, hup]
  · rfl

/-! ### (F2) an empty upper directory over merged lower directories -/

theorem append_ne_self {l q : Path} (hl : l ≠ []) : l ++ q ≠ q := fun h => hl (List.append_left_eq_self.1 h)

theorem expIdx_cons (d : Disk) (n : Name) (pp : Path) :
    expIdx d (n :: pp) = cutW d (n :: pp) ((dirsIdx d pp (expIdx d pp)).filter fun i => !(d.nodeAt i (n :: pp)).isAbsent) :=
  rfl

theorem expIdx_upperDir_self {d : Disk} (hu : d.upper.isSome) {n : Name} {pp : Path} (mode : Nat)
    {tl : List Nat} (hpd : dirsIdx d pp (expIdx d pp) = 0 :: tl) (htl : ∀ i ∈ tl, i ≠ 0)
    (habs : (d.nodeAt 0 (n :: pp)).isAbsent = true)
    {j : Nat} {t : List Nat} (hst : expIdx d (n :: pp) = j :: t) (hjd : (d.nodeAt j (n :: pp)).isDir = true) :
    expIdx (d.setUpper (n :: pp) (.dir mode 0 0)) (n :: pp) = 0 :: expIdx d (n :: pp) := by
  generalize hd' : d.setUpper (n :: pp) (.dir mode 0 0) = d'
  have hnode : ∀ i p, d'.nodeAt i p = if i = 0 ∧ p = n :: pp then .dir mode 0 0 else d.nodeAt i p := by
    intro i p; rw [← hd']; exact nodeAt_setUpper _ _ _ hu i p
  have hq0 : d'.nodeAt 0 (n :: pp) = .dir mode 0 0 := by rw [hnode]; simp
  have hidx : d'.indices = d.indices := by rw [← hd']; exact indices_setUpper _ _ _
  -- the parent's stack is unchanged
  have hpar : expIdx d' pp = expIdx d pp :=
    expIdx_frame d d' hidx pp (fun i q' hq' => by
      rw [hnode, if_neg]
      intro h
      rw [h.2] at hq'
      rw [not_below_parent'] at hq'
      cases hq')
  -- the old candidates
  have hcands : ((dirsIdx d pp (expIdx d pp)).filter fun i => !(d.nodeAt i (n :: pp)).isAbsent) =
      tl.filter fun i => !(d.nodeAt i (n :: pp)).isAbsent := by
    rw [hpd, List.filter_cons]; simp [habs]
  have hexp : expIdx d (n :: pp) = cutW d (n :: pp)
      ((dirsIdx d pp (expIdx d pp)).filter fun i => !(d.nodeAt i (n :: pp)).isAbsent) := rfl
  rw [hcands, hst] at hexp
  obtain ⟨c', hc'⟩ := cutW_head hexp.symm
  have hcpos : ∀ i ∈ j :: c', i ≠ 0 := by
    intro i hi
    have : i ∈ tl.filter fun i => !(d.nodeAt i (n :: pp)).isAbsent := by rw [hc']; exact hi
    exact htl i (List.mem_filter.1 this).1
  have heq_dirs : dirsIdx d (n :: pp) (j :: c') = j :: t := by
    rw [← cutW_of_dir hjd, ← hc']; exact hexp.symm
  -- the new stack
  show expIdx d' (n :: pp) = _
  rw [expIdx_cons d' n pp, hpar, dirsIdx_congr d d' pp _ (fun i _ => by rw [hnode, if_neg (fun h => ne_cons_self n pp h.2)]), hpd,
    List.filter_cons]
  have hkeep : (!(d'.nodeAt 0 (n :: pp)).isAbsent) = true := by rw [hq0]; rfl
  rw [if_pos hkeep]
  have e2 : (tl.filter fun i => !(d'.nodeAt i (n :: pp)).isAbsent) = j :: c' := by
    rw [← hc']
    apply List.filter_congr
    intro i hi
    rw [hnode, if_neg (fun h => htl i hi h.1)]
  rw [e2, cutW]
  have : ((d'.nodeAt 0 (n :: pp)).isDir && !(d'.nodeAt 0 (n :: pp)).isOpaqueDir) = true := by rw [hq0]; rfl
  rw [if_pos this,
    dirsIdx_congr d d' (n :: pp) (j :: c') (fun i hi => by rw [hnode, if_neg (fun h => hcpos i hi h.1)]),
    heq_dirs, hst]
where
  not_below_parent' : (n :: pp).isSuffixOf pp = false := by
    cases h : (n :: pp).isSuffixOf pp with
    | false => rfl
    | true =>
      have hl := (List.isSuffixOf_iff_suffix.1 h).length_le
      simp at hl
      omega

/-- below the new upper directory the kept stacks are the old ones -/
theorem expIdx_upperDir_below {d : Disk} (hu : d.upper.isSome) {n : Name} {pp : Path} (mode : Nat)
    (hself : expIdx (d.setUpper (n :: pp) (.dir mode 0 0)) (n :: pp) = 0 :: expIdx d (n :: pp))
    (hpos : ∀ i ∈ expIdx d (n :: pp), i ≠ 0)
    (hbelow : ∀ c, (d.nodeAt 0 (c :: n :: pp)).isAbsent = true) :
    ∀ (l : List Name), l ≠ [] →
      expIdx (d.setUpper (n :: pp) (.dir mode 0 0)) (l ++ n :: pp) = expIdx d (l ++ n :: pp)
  | [], h => absurd rfl h
  | [c], _ => by
    generalize hd' : d.setUpper (n :: pp) (.dir mode 0 0) = d' at hself ⊢
    have hnode : ∀ i p, d'.nodeAt i p = if i = 0 ∧ p = n :: pp then .dir mode 0 0 else d.nodeAt i p := by
      intro i p; rw [← hd']; exact nodeAt_setUpper _ _ _ hu i p
    have hq0 : d'.nodeAt 0 (n :: pp) = .dir mode 0 0 := by rw [hnode]; simp
    have hne : ∀ i, d'.nodeAt i (c :: n :: pp) = d.nodeAt i (c :: n :: pp) := fun i => by
      rw [hnode, if_neg (fun h => cons_ne_self c (n :: pp) h.2)]
    show expIdx d' (c :: n :: pp) = expIdx d (c :: n :: pp)
    rw [expIdx_cons d' c (n :: pp), expIdx_cons d c (n :: pp), hself, dirsIdx]
    have h1 : (d'.nodeAt 0 (n :: pp)).isDir = true := by rw [hq0]; rfl
    have h2 : (d'.nodeAt 0 (n :: pp)).isOpaqueDir = false := by rw [hq0]; rfl
    rw [if_pos h1, h2]
    simp only [Bool.false_eq_true, if_false]
    rw [dirsIdx_congr d d' (n :: pp) _ (fun i hi => by rw [hnode, if_neg (fun h => hpos i hi h.1)]),
      List.filter_cons]
    have : (!(d'.nodeAt 0 (c :: n :: pp)).isAbsent) = false := by rw [hne, hbelow c]; rfl
    rw [this]
    simp only [Bool.false_eq_true, if_false]
    rw [cutW_congr d d' (c :: n :: pp) _ (fun i _ => hne i)]
    congr 1
    apply List.filter_congr
    intro i _
    rw [hne]
  | c :: c' :: l, _ => by
    have ih := expIdx_upperDir_below hu mode hself hpos hbelow (c' :: l) (by simp)
    generalize hd' : d.setUpper (n :: pp) (.dir mode 0 0) = d' at ih ⊢
    have hnode : ∀ i p, d'.nodeAt i p = if i = 0 ∧ p = n :: pp then .dir mode 0 0 else d.nodeAt i p := by
      intro i p; rw [← hd']; exact nodeAt_setUpper _ _ _ hu i p
    have hlen : ∀ (l' : List Name), l' ≠ [] → l' ++ n :: pp ≠ n :: pp :=
      fun l' hl' h => hl' (by simpa using h)
    have hne1 : ∀ i, d'.nodeAt i ((c' :: l) ++ n :: pp) = d.nodeAt i ((c' :: l) ++ n :: pp) := fun i => by
      rw [hnode, if_neg (fun h => hlen (c' :: l) (by simp) h.2)]
    have hne2 : ∀ i, d'.nodeAt i (c :: ((c' :: l) ++ n :: pp)) = d.nodeAt i (c :: ((c' :: l) ++ n :: pp)) := fun i => by
      rw [hnode, if_neg (fun h => hlen (c :: c' :: l) (by simp) h.2)]
    show expIdx d' (c :: ((c' :: l) ++ n :: pp)) = expIdx d (c :: ((c' :: l) ++ n :: pp))
    rw [expIdx_cons d' c _, expIdx_cons d c _, ih, dirsIdx_congr d d' _ _ (fun i _ => hne1 i),
      cutW_congr d d' _ _ (fun i _ => hne2 i)]
    congr 1
    apply List.filter_congr
    intro i _
    rw [hne2]

/-- (F2) -/
theorem merge_upperDir {d : Disk} (hu : d.upper.isSome) {n : Name} {pp : Path} (mode : Nat)
    {tl : List Nat} (hpd : dirsIdx d pp (expIdx d pp) = 0 :: tl) (htl : ∀ i ∈ tl, i ≠ 0)
    (habs : (d.nodeAt 0 (n :: pp)).isAbsent = true)
    (hbelow : ∀ c, (d.nodeAt 0 (c :: n :: pp)).isAbsent = true)
    {j : Nat} {t : List Nat} (hst : expIdx d (n :: pp) = j :: t) (hjd : (d.nodeAt j (n :: pp)).isDir = true)
    (hmode : mode = (d.nodeAt j (n :: pp)).mode) (q : Path) :
    (merge (d.setUpper (n :: pp) (.dir mode 0 0)) q).dropX = (merge d q).dropX := by
  have hself := expIdx_upperDir_self hu mode hpd htl habs hst hjd
  have hpos : ∀ i ∈ expIdx d (n :: pp), i ≠ 0 := by
    intro i hi h0
    rw [h0] at hi
    have := expIdx_present d n pp 0 hi
    rw [habs] at this; cases this
  by_cases hq : (n :: pp).isSuffixOf q = true
  · obtain ⟨l, hl⟩ := List.isSuffixOf_iff_suffix.1 hq
    subst hl
    cases l with
    | nil =>
      simp only [List.nil_append]
      rw [merge_eq_head, merge_eq_head, hself, hst]
      simp only []
      rw [nodeAt_setUpper _ _ _ hu, if_pos ⟨rfl, rfl⟩, hmode]
      cases hx : d.nodeAt j (n :: pp) <;> simp_all [Node.isDir, Node.view, VNode.dropX, Node.mode]
    | cons c l' =>
      have hb := expIdx_upperDir_below hu mode hself hpos hbelow (c :: l') (by simp)
      rw [merge_eq_head, merge_eq_head, hb]
      cases expIdx d (c :: l' ++ n :: pp) with
      | nil => rfl
      | cons i rest =>
        simp only []
        rw [nodeAt_setUpper_ne _ _ _ hu]
        intro h
        exact append_ne_self (l := c :: l') (by simp) h.2
  · simp only [Bool.not_eq_true] at hq
    have : merge (d.setUpper (n :: pp) (.dir mode 0 0)) q = merge d q := by
      apply merge_frame d _ (indices_setUpper _ _ _)
      intro i q' hq'
      rw [nodeAt_setUpper_ne _ _ _ hu]
      intro h
      rw [h.2] at hq'
      rw [hq'] at hq; cases hq
    rw [this]

end Fbr.Ovl
