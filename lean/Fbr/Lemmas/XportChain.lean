/-
  Helper lemmas for C04: the constructors `Reader::from_descriptor_chain` / `VirtioFsWriter::new`
  yield cursors that lie inside the guest memory regions and cannot overflow.
-/
import Fbr.Lemmas.XportAddr

namespace Fbr.Xport

theorem total_append (a b : List Seg) : total (a ++ b) = total a + total b := by
  induction a with
  | nil => simp [total]
  | cons s rest ih => simp [total, ih]; omega

theorem total_reverse (a : List Seg) : total a.reverse = total a := by
  induction a with
  | nil => rfl
  | cons s rest ih => simp [total_append, total, ih]; omega

/-- the buffer lies inside a region of the layout -/
def Fits (lay : Layout) (s : Seg) : Prop := ∃ e ∈ lay, e.1 = s.region ∧ s.off + s.len ≤ e.2.2

theorem fromChainAux_spec (lay : Layout) (ds : List Desc) (tot : Nat) (acc res : List Seg)
    (h : fromChainAux lay ds tot acc = .ok res) (ht : total acc = tot) (hu : tot < USIZE)
    (hf : ∀ s ∈ acc, Fits lay s) :
    total res < USIZE ∧ (∀ s ∈ res, Fits lay s)
      ∧ res.map (·.len) = (acc.reverse.map (·.len)) ++ ds.map (·.len) := by
  induction ds generalizing tot acc with
  | nil =>
    simp only [fromChainAux, Except.ok.injEq] at h
    subst h
    exact ⟨by rw [total_reverse, ht]; exact hu, fun s hs => hf s (List.mem_reverse.mp hs), by simp⟩
  | cons d rest ih =>
    simp only [fromChainAux] at h
    by_cases h1 : tot + d.len ≥ USIZE
    · simp [h1] at h
    · simp only [h1, if_false] at h
      cases hfr : findRegion lay d.addr with
      | none => simp [hfr] at h
      | some e =>
        obtain ⟨r, base, size⟩ := e
        simp only [hfr] at h
        by_cases h2 : d.addr - base + d.len > size
        · simp [h2] at h
        · simp only [h2, if_false] at h
          have hmem : (r, base, size) ∈ lay := by
            unfold findRegion at hfr; exact List.mem_of_find?_eq_some hfr
          obtain ⟨i1, i2, i3⟩ := ih (tot + d.len) _ h (by simp [total, ht]; omega) (by omega) (by
            intro s hs
            rcases List.mem_cons.mp hs with rfl | hs
            · exact ⟨(r, base, size), hmem, rfl, by simp only; omega⟩
            · exact hf s hs)
          refine ⟨i1, i2, ?_⟩
          rw [i3]; simp

/-- what the constructors guarantee -/
theorem fromChain_spec (lay : Layout) (chain : List Desc) (wr : Bool) (b : IoBufs)
    (h : fromChain lay chain wr = .ok b) :
    b.consumed = 0 ∧ b.consumed + total b.segs < USIZE ∧ (∀ s ∈ b.segs, Fits lay s)
      ∧ b.segs.map (·.len) = (chain.filter (·.writable == wr)).map (·.len) := by
  unfold fromChain at h
  cases hc : fromChainAux lay (chain.filter (·.writable == wr)) 0 [] with
  | error e => simp [hc] at h
  | ok segs =>
    simp only [hc, Except.ok.injEq] at h
    subst h
    obtain ⟨i1, i2, i3⟩ := fromChainAux_spec lay _ 0 [] segs hc rfl (by simp [USIZE]) (by simp)
    exact ⟨rfl, by simpa using i1, i2, by simpa using i3⟩

end Fbr.Xport
