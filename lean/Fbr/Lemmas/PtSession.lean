/-
  C08: facts that hold between two (re-)imports of the root, i.e. along `Tr e false`:
  the root stays, remembered numbers stay, live entries have distinct host files.
-/
import Fbr.Lemmas.PtFresh

namespace Fbr.PtRefs

variable {nf : Bool}

/-- the root entry survives everything except `destroy` -/
theorem Tr.rootLive {e : Env} {b : Bool} {s s' : St} {sp sp' : Spec} (h : Tr e nf b s sp s' sp')
    (hb : b = false) (hr : (mget s.data ROOT_ID).isSome = true) :
    (mget s'.data ROOT_ID).isSome = true := by
  induction h with
  | frame hd => rw [hd]; exact hr
  | lookup h =>
    rcases h with ⟨er, _, hd, _⟩ | ⟨ino, d, _, hm, hd, _⟩ | ⟨ino, d0, _, _, hd, _⟩
    · rw [hd]; exact hr
    · rw [hd, mget_mput]; split <;> simp [hr]
    · rw [hd, mget_mput]; split <;> simp [hr]
  | @forget s0 _ i n =>
    by_cases e1 : i = ROOT_ID
    · subst e1; rw [forgetOne_root]; exact hr
    · rw [forgetOne_data_other e s0 i ROOT_ID n e1]; exact hr
  | hnds _ => exact hr
  | setRoot => cases hb
  | clear => cases hb
  | @trans b1 b2 a0 b0 c0 _ _ _ h1 h2 ih1 ih2 =>
    cases b1 <;> cases b2 <;> simp at hb
    exact ih2 rfl (ih1 rfl hr)
  | relax => cases hb

/-- without `use_host_ino`, the handle → number map never changes an entry (between imports) -/
theorem Tr.hStable {e : Env} (hk : e.useHostIno = false) {b : Bool} {s s' : St} {sp sp' : Spec}
    (h : Tr e nf b s sp s' sp') (hb : b = false) :
    ∀ k i, mget s.byHandle k = some i → mget s'.byHandle k = some i := by
  induction h with
  | frame _ _ _ _ hy => intro k i hm; rw [hy]; exact hm
  | lookup h =>
    intro k i hm
    rcases h with ⟨er, _, _, _, _, _, hy, _⟩ | ⟨ino, d, _, _, _, _, _, _, hy, _⟩
      | ⟨ino, d0, _, _, _, _, _, _, hy, _, hz⟩
    · rw [hy]; exact hm
    · rw [hy]; exact hm
    · rw [hy]
      cases hfh : d0.fh with
      | none => exact hm
      | some h' =>
        simp only [mget_mput]
        split
        · rename_i e1; subst e1
          rcases hz hk with ⟨hg, _⟩ | ⟨hg, _⟩
          · rw [hfh] at hg; simp only [getInodeLocked] at hg; rw [hm] at hg; exact hg.symm ▸ rfl
          · rw [hfh] at hg; simp only [getInodeLocked] at hg; rw [hm] at hg; cases hg
        · exact hm
  | @forget s0 _ i n => intro k j hm; rw [(forgetOne_keep e hk s0 i n).2.1]; exact hm
  | hnds _ => intro k i hm; exact hm
  | setRoot => cases hb
  | clear => cases hb
  | @trans b1 b2 a0 b0 c0 _ _ _ h1 h2 ih1 ih2 =>
    cases b1 <;> cases b2 <;> simp at hb
    intro k i hm; exact ih2 rfl k i (ih1 rfl k i hm)
  | relax => cases hb

/-- without `use_host_ino` and without file handles, the id → number map never changes an entry -/
theorem Tr.idStable {e : Env} (hk : e.useHostIno = false) {b : Bool} {s s' : St} {sp sp' : Spec}
    (h : Tr e nf b s sp s' sp') (hb : b = false) (hnh : s'.byHandle = []) :
    ∀ k i, mget s.byId k = some i → mget s'.byId k = some i := by
  induction h with
  | frame _ _ _ hbi => intro k i hm; rw [hbi]; exact hm
  | lookup h =>
    intro k i hm
    rcases h with ⟨er, _, _, _, _, hbi, _⟩ | ⟨ino, d, _, _, _, _, _, hbi, _⟩
      | ⟨ino, d0, _, _, _, _, _, hbi, hy, _, hz⟩
    · rw [hbi]; exact hm
    · rw [hbi]; exact hm
    · rw [hbi]
      have hfh : d0.fh = none := by
        cases hf : d0.fh with
        | none => rfl
        | some h' => rw [hf] at hy; rw [hy] at hnh; simp [mput] at hnh
      simp only [mget_mput]
      split
      · rename_i e1; subst e1
        rcases hz hk with ⟨hg, _⟩ | ⟨hg, _⟩
        · rw [hfh] at hg; simp only [getInodeLocked] at hg; rw [hm] at hg; exact hg.symm ▸ rfl
        · rw [hfh] at hg; simp only [getInodeLocked] at hg; rw [hm] at hg; cases hg
      · exact hm
  | @forget s0 _ i n => intro k j hm; rw [(forgetOne_keep e hk s0 i n).1]; exact hm
  | hnds _ => intro k i hm; exact hm
  | setRoot => cases hb
  | clear => cases hb
  | @trans b1 b2 a0 b0 c0 _ _ _ h1 h2 ih1 ih2 =>
    cases b1 <;> cases b2 <;> simp at hb
    have hmid : b0.byHandle = [] := by
      cases hbh : b0.byHandle with
      | nil => rfl
      | cons p r =>
        obtain ⟨k, i⟩ := p
        have := h2.hStable hk rfl k i (by rw [hbh]; simp [mget_cons])
        rw [hnh] at this; simp at this
    intro k i hm; exact ih2 rfl hnh k i (ih1 rfl hmid k i hm)
  | relax => cases hb

/-- live entries are reachable through the id / handle maps -/
structure Inj (s : St) : Prop where
  i1 : ∀ i d, mget s.data i = some d → d.fh = none → mget s.byId d.id = some i
  i2 : ∀ i d h, mget s.data i = some d → d.fh = some h → mget s.byHandle h = some i

theorem getAlt_none_id {s : St} {id : InodeId} {fh : Option FhId} (hg : getAlt s id fh = none)
    {j : Ino} {dj : IData} (hb : mget s.byId id = some j) (hd : mget s.data j = some dj)
    (hf : dj.fh = none) : False := by
  unfold getAlt at hg
  split at hg
  · cases hg
  · simp [getById, hb, hd, hf] at hg

theorem getAlt_none_handle {s : St} {id : InodeId} {h : FhId} (hg : getAlt s id (some h) = none)
    {j : Ino} {dj : IData} (hb : mget s.byHandle h = some j) (hd : mget s.data j = some dj) : False := by
  unfold getAlt at hg
  simp [getByHandle, hb, hd] at hg

theorem Tr.inj {e : Env} (hk : e.useHostIno = false) {b : Bool} {s s' : St} {sp sp' : Spec}
    (h : Tr e nf b s sp s' sp') (hb : b = false) (inj : Inj s) : Inj s' := by
  induction h with
  | frame hd _ _ hbi hy =>
    exact ⟨by rw [hd, hbi]; exact inj.i1, by rw [hd, hy]; exact inj.i2⟩
  | lookup h =>
    rcases h with ⟨er, _, hd, _, _, hbi, hy, _⟩ | ⟨ino, d, _, hm, hd, _, _, hbi, hy, _⟩
      | ⟨ino, d0, _, _, hd, _, _, hbi, hy, hg, _⟩
    · exact ⟨by rw [hd, hbi]; exact inj.i1, by rw [hd, hy]; exact inj.i2⟩
    · constructor
      · intro i d' hi hf
        rw [hd, mget_mput] at hi
        rw [hbi]
        split at hi
        · rename_i e1; subst e1; cases hi; exact inj.i1 _ d hm hf
        · exact inj.i1 i d' hi hf
      · intro i d' h' hi hf
        rw [hd, mget_mput] at hi
        rw [hy]
        split at hi
        · rename_i e1; subst e1; cases hi; exact inj.i2 _ d h' hm hf
        · exact inj.i2 i d' h' hi hf
    · constructor
      · intro i d' hi hf
        rw [hd, mget_mput] at hi
        rw [hbi, mget_mput]
        split at hi
        · rename_i e1; subst e1; cases hi; simp
        · have hold := inj.i1 i d' hi hf
          split
          · rename_i e2
            rw [← e2] at hold
            exact (getAlt_none_id hg hold hi hf).elim
          · exact hold
      · intro i d' h' hi hf
        rw [hd, mget_mput] at hi
        rw [hy]
        split at hi
        · rename_i e1; subst e1; cases hi; rw [hf]; simp
        · have hold := inj.i2 i d' h' hi hf
          cases hfh : d0.fh with
          | none => exact hold
          | some h0 =>
            simp only [mget_mput]
            split
            · rename_i e2; subst e2
              rw [hfh] at hg
              exact (getAlt_none_handle hg hold hi).elim
            · exact hold
  | @forget s0 _ i n =>
    obtain ⟨hbi, hy, _, hsub⟩ := forgetOne_keep e hk s0 i n
    constructor
    · intro j d' hj hf
      obtain ⟨d, hd, e1, e2⟩ := hsub j d' hj
      rw [hbi, ← e1]; exact inj.i1 j d hd (by rw [e2]; exact hf)
    · intro j d' h' hj hf
      obtain ⟨d, hd, e1, e2⟩ := hsub j d' hj
      rw [hy]; exact inj.i2 j d h' hd (by rw [e2]; exact hf)
  | hnds _ => exact inj
  | setRoot => cases hb
  | clear => cases hb
  | @trans b1 b2 a0 b0 c0 _ _ _ h1 h2 ih1 ih2 =>
    cases b1 <;> cases b2 <;> simp at hb
    exact ih2 rfl (ih1 rfl inj)
  | relax => cases hb

/-- two live numbers with the same host identity (id and handle) are the same number -/
theorem Inj.injective {s : St} (inj : Inj s) {i j : Ino} {di dj : IData}
    (hi : mget s.data i = some di) (hj : mget s.data j = some dj)
    (hid : di.id = dj.id) (hfh : di.fh = dj.fh) : i = j := by
  cases hf : di.fh with
  | none =>
    have a := inj.i1 i di hi hf
    have b := inj.i1 j dj hj (by rw [← hfh]; exact hf)
    rw [hid, b] at a; exact (Option.some.inj a).symm
  | some h =>
    have a := inj.i2 i di h hi hf
    have b := inj.i2 j dj h hj (by rw [← hfh]; exact hf)
    rw [b] at a; exact (Option.some.inj a).symm

/-- what `import()` does to the inode store -/
theorem importRoot_cases (e : Env) (s : St) (root : HAns) :
    ((importRoot e s root).1.data = s.data ∧ (importRoot e s root).1.byId = s.byId
      ∧ (importRoot e s root).1.byHandle = s.byHandle)
    ∨ (∃ f, root = .ok f
      ∧ (importRoot e s root).1.data = mput s.data ROOT_ID { id := f.id, fh := f.fh, refs := 2, safe := f.safe }
      ∧ (importRoot e s root).1.byId = mput s.byId f.id ROOT_ID
      ∧ (importRoot e s root).1.byHandle = (match f.fh with
          | some h => mput s.byHandle h ROOT_ID
          | none => s.byHandle)) := by
  unfold importRoot
  have h1 := tables_allocFd e s
  split
  · rename_i heq; rw [heq] at h1
    exact Or.inl ⟨data_of_tables h1, byId_of_tables h1, byHandle_of_tables h1⟩
  · rename_i s1 heq; rw [heq] at h1
    split
    · have : (freeFd s1).tables = s.tables := by rw [tables_freeFd]; exact h1
      exact Or.inl ⟨data_of_tables this, byId_of_tables this, byHandle_of_tables this⟩
    · rename_i f
      have h2 := tables_toOpenable e s1 f.fh
      split
      · rename_i s2 er heq2; rw [heq2] at h2
        have : (freeFd s2).tables = s.tables := by rw [tables_freeFd, h2]; exact h1
        exact Or.inl ⟨data_of_tables this, byId_of_tables this, byHandle_of_tables this⟩
      · rename_i s2 heq2; rw [heq2] at h2
        have hm := insertInode_maps s2 ROOT_ID { id := f.id, fh := f.fh, refs := 2, safe := f.safe }
        refine Or.inr ⟨f, rfl, ?_, ?_, ?_⟩
        · rw [data_of_tables (tables_settlePath _ _), insertInode_data, data_of_tables h2, data_of_tables h1]
        · rw [byId_of_tables (tables_settlePath _ _), hm.1, byId_of_tables h2, byId_of_tables h1]
        · rw [byHandle_of_tables (tables_settlePath _ _), hm.2.1, byHandle_of_tables h2,
            byHandle_of_tables h1]
          rfl

/-- the state a session starts from: a fresh server after INIT (which may have failed) -/
def afterInit (e : Env) (root : HAns) : St := (opInit e St.fresh root).1

theorem afterInit_eq (e : Env) (root : HAns) : afterInit e root = (importRoot e St.fresh root).1 := by
  unfold afterInit opInit
  split <;> (rename_i heq; rw [heq])

theorem inj_afterInit (e : Env) (root : HAns) : Inj (afterInit e root) := by
  rw [afterInit_eq]
  rcases importRoot_cases e St.fresh root with ⟨hd, hb, hy⟩ | ⟨f, _, hd, hb, hy⟩
  · constructor
    · intro i d h; rw [hd] at h; simp [St.fresh] at h
    · intro i d h' h; rw [hd] at h; simp [St.fresh] at h
  · constructor
    · intro i d h hf
      rw [hd] at h
      simp only [St.fresh, mget_mput, mget_nil] at h
      split at h
      · rename_i e1; subst e1; cases h; rw [hb]; simp
      · cases h
    · intro i d h' h hf
      rw [hd] at h
      simp only [St.fresh, mget_mput, mget_nil] at h
      split at h
      · rename_i e1; subst e1; cases h
        simp only at hf
        rw [hy, hf]; simp
      · cases h

theorem fresh_afterInit (e : Env) (hk : e.useHostIno = false) (root : HAns) :
    Fresh (afterInit e root) ∧ (afterInit e root).clobbered = false := by
  rw [afterInit_eq]
  exact (importRoot_tr (nf := false) e St.fresh Spec.init root (fun x => by cases x)).fresh hk fresh_fresh rfl

theorem getAlt_fd_byId {s : St} {id : InodeId} {i : Ino} {d : IData}
    (hg : getAlt s id none = some (i, d)) : mget s.byId id = some i := by
  unfold getAlt at hg
  simp only [Option.bind_none] at hg
  unfold getById at hg
  cases hb : mget s.byId id with
  | none => simp [hb] at hg
  | some j =>
    cases hm : mget s.data j with
    | none => simp [hb, hm] at hg
    | some d' => simp [hb, hm] at hg; rw [hg.1]

/-- a successful `do_lookup` of a file kept by descriptor leaves its number in the id map -/
theorem lookupCore_records_fd (e : Env) (s : St) (f : HFile) (hf : f.fh = none) {ino : Ino}
    (h : (lookupCore e s f).2 = .ok ino) : mget (lookupCore e s f).1.byId f.id = some ino := by
  unfold lookupCore at h ⊢
  split
  · rename_i i d hg
    rw [hg] at h
    simp only at h
    have e2 : i = ino := by cases h; rfl
    subst e2
    rw [hf] at hg
    show mget s.byId f.id = some i
    exact getAlt_fd_byId hg
  · rename_i hg
    rw [hg] at h
    simp only at h
    unfold lookupInsert at h ⊢
    have h1 := tables_toOpenable e s f.fh
    split
    · rename_i s1 er heq; rw [heq] at h; cases h
    · rename_i s1 heq
      rw [heq] at h h1
      simp only at h
      split
      · rename_i s2 er heq2; rw [heq2] at h; cases h
      · rename_i s2 ino2 heq2
        rw [heq2] at h
        simp only at h
        split
        · rename_i hgt; rw [if_pos hgt] at h; cases h
        · rename_i hgt
          rw [if_neg hgt] at h
          have e2 : ino2 = ino := by cases h; rfl
          subst e2
          rw [byId_of_tables (tables_settlePath _ _)]
          show mget (insertInode s2 ino2 { id := f.id, fh := f.fh, refs := 1, safe := f.safe }).byId f.id = _
          rw [(insertInode_maps s2 ino2 _).1]
          simp

theorem doLookup_records_fd (e : Env) (s : St) (p : Ino) (pst : Bool) (f : HFile) (hf : f.fh = none)
    {ino : Ino} (h : (doLookup e s p pst (.ok f)).2 = .ok ino) :
    mget (doLookup e s p pst (.ok f)).1.byId f.id = some ino := by
  unfold doLookup at h ⊢
  split
  · rename_i heq; rw [heq] at h; cases h
  · rename_i dir heq
    rw [heq] at h
    simp only at h
    split
    · rename_i s1 er heq1; rw [heq1] at h; cases h
    · rename_i s1 heq1
      rw [heq1] at h
      simp only at h
      split
      · rename_i s2 heq2; rw [heq2] at h; cases h
      · rename_i s2 heq2
        rw [heq2] at h
        simp only at h ⊢
        rw [byId_of_tables (tables_closeTemp _ _)]
        exact lookupCore_records_fd e s2 f hf h

/-- without `use_host_ino`, the insert path numbers a file by its remembered number, else freshly -/
theorem lookupInsert_number_keep (e : Env) (hk : e.useHostIno = false) (s : St) (f : HFile)
    {s' : St} {ino : Ino} (h : lookupInsert e s f = (s', .ok ino)) :
    getInodeLocked s f.id f.fh = some ino ∨ (getInodeLocked s f.id f.fh = none ∧ ino = s.next) := by
  unfold lookupInsert at h
  have h1 := tables_toOpenable e s f.fh
  split at h
  · cases h
  · rename_i s1 heq
    rw [heq] at h1
    have hkeep := allocateInode_keep e hk s1 f.id f.fh
    split at h
    · cases h
    · rename_i s2 ino2 heq2
      split at h
      · cases h
      · have e2 : ino2 = ino := by have := (Prod.mk.inj h).2; cases this; rfl
        subst e2
        rw [← getInodeLocked_of_tables h1, ← next_of_tables h1]
        rcases hkeep with ⟨i, a, b⟩ | ⟨a, b⟩
        · rw [heq2] at b
          have : ino2 = i := by have := (Prod.mk.inj b).2; cases this; rfl
          subst this
          exact Or.inl a
        · rw [heq2] at b
          have : ino2 = s1.next := by have := (Prod.mk.inj b).2; cases this; rfl
          exact Or.inr ⟨a, this⟩

/-- … and the next `do_lookup` of that file returns the remembered number -/
theorem lookupCore_uses_fd (e : Env) (hk : e.useHostIno = false) (s : St) (f : HFile) (hf : f.fh = none)
    {i : Ino} (hm : mget s.byId f.id = some i) {ino : Ino}
    (h : (lookupCore e s f).2 = .ok ino) : ino = i := by
  unfold lookupCore at h
  split at h
  · rename_i j d' hg
    simp only at h
    have e2 : j = ino := by cases h; rfl
    subst e2
    rw [hf] at hg
    have := getAlt_fd_byId hg
    rw [hm] at this; exact (Option.some.inj this).symm
  · have hx : lookupInsert e s f = ((lookupInsert e s f).1, .ok ino) := by rw [← h]
    rcases lookupInsert_number_keep e hk s f hx with a | ⟨a, _⟩
    · rw [hf] at a; simp only [getInodeLocked] at a; rw [hm] at a; exact (Option.some.inj a).symm
    · rw [hf] at a; simp only [getInodeLocked] at a; rw [hm] at a; cases a

theorem doLookup_uses_fd (e : Env) (hk : e.useHostIno = false) (s : St) (p : Ino) (pst : Bool)
    (f : HFile) (hf : f.fh = none) {i : Ino} (hm : mget s.byId f.id = some i) {ino : Ino}
    (h : (doLookup e s p pst (.ok f)).2 = .ok ino) : ino = i := by
  unfold doLookup at h
  split at h
  · cases h
  · rename_i dir _
    have h1 := tables_getFile e s dir pst
    split at h
    · cases h
    · rename_i s1 heq; rw [heq] at h1
      have h2 := tables_allocFd e s1
      split at h
      · cases h
      · rename_i s2 heq2; rw [heq2] at h2
        simp only at h
        exact lookupCore_uses_fd e hk s2 f hf
          (by rw [byId_of_tables (show s2.tables = s.tables by rw [h2]; exact h1)]; exact hm) h

theorem tables_opRename (e : Env) (s : St) (p1 : Ino) (st1 : Bool) (p2 : Ino) (st2 : Bool) (hr : Errno) :
    (opRename e s p1 st1 p2 st2 hr).1.tables = s.tables := by
  unfold opRename
  split
  · rename_i d1 d2 _ _
    have h1 := tables_getFile e s d1 st1
    split
    · rename_i heq; rw [heq] at h1; exact h1
    · rename_i s1 heq; rw [heq] at h1
      have h2 := tables_getFile e s1 d2 st2
      split
      · rename_i heq2; rw [heq2] at h2; rw [tables_closeTemp, h2]; exact h1
      · rename_i heq2; rw [heq2] at h2
        simp only [tables_closeTemp, h2]; exact h1
  · rfl

theorem tables_opUnlink (e : Env) (s : St) (p : Ino) (pst : Bool) (hr : Errno) :
    (opUnlink e s p pst hr).1.tables = s.tables := by
  unfold opUnlink
  split
  · rfl
  · rename_i d _
    have h1 := tables_getFile e s d pst
    split
    · rename_i heq; rw [heq] at h1; exact h1
    · rename_i heq; rw [heq] at h1; simp only [tables_closeTemp]; exact h1

end Fbr.PtRefs
