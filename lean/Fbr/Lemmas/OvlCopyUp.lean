/-
  `create_upper_dir` / `copy_node_up` keep the forest a valid cache of the disk.
-/
import Fbr.Ovl
import Fbr.Lemmas.OvlExp
import Fbr.Lemmas.OvlSim
import Fbr.Lemmas.OvlSimLookup
import Fbr.Lemmas.OvlLocal
import Fbr.Lemmas.OvlMut
import Fbr.Lemmas.OvlMutA
import Fbr.Lemmas.OvlMutP1
import Fbr.Lemmas.OvlMutP2
import Fbr.Lemmas.OvlEval
import Fbr.Lemmas.OvlFrame

namespace Fbr.Ovl

theorem nodeAt_of_lowers {d d' : Disk} (h : d'.lowers = d.lowers) {i : Nat} (hi : i ≠ 0) (p : Path) :
    d'.nodeAt i p = d.nodeAt i p := by
  cases i with
  | zero => exact absurd rfl hi
  | succ j => simp [Disk.nodeAt, Disk.layer, h]

/-- every node keeps a first real inode of the same kind: a directory stays one, a non-directory
    stays one, and what was not a whiteout does not become one -/
def StatKept (s s' : St) : Prop := ∀ p' m0 r0 rest0, s.mem p' = some m0 → m0.reals = r0 :: rest0 →
  ∃ m1 r1 rest1, s'.mem p' = some m1 ∧ m1.reals = r1 :: rest1 ∧
    (s'.disk.statReal r1).isDir = (s.disk.statReal r0).isDir ∧
    ((s.disk.statReal r0).isWhiteout = false → (s'.disk.statReal r1).isWhiteout = false)

theorem StatKept.refl (s : St) : StatKept s s :=
  fun _ m0 r0 rest0 h hr => ⟨m0, r0, rest0, h, hr, rfl, fun h => h⟩

theorem StatKept.trans {s s1 s2 : St} (h1 : StatKept s s1) (h2 : StatKept s1 s2) : StatKept s s2 := by
  intro p' m0 r0 rest0 hm hr
  obtain ⟨m1, r1, rest1, hm1, hr1, hd1, hw1⟩ := h1 p' m0 r0 rest0 hm hr
  obtain ⟨m2, r2, rest2, hm2, hr2, hd2, hw2⟩ := h2 p' m1 r1 rest1 hm1 hr1
  exact ⟨m2, r2, rest2, hm2, hr2, by rw [hd2, hd1], fun h => hw2 (hw1 h)⟩

/-- the upper entry at `p` afterwards shows what the node's first real inode showed before, up to
    the xattr -/
def ImgKept (p : Path) (s s' : St) : Prop := ∀ m0 r0 rest0, s.mem p = some m0 → m0.reals = r0 :: rest0 →
  m0.whiteout = false → (s'.disk.nodeAt 0 p).view.dropX = (s.disk.statReal r0).view.dropX

theorem ImgKept.refl {s : St} (hc : Consistent s) {p : Path} {m : MNode} (hm : s.mem p = some m)
    (hmu : m.inUpper = true) : ImgKept p s s := by
  intro m0 r0 rest0 hm0 hr0 _
  rw [hm] at hm0; cases hm0
  have hsh := reals_shape hc hm r0 (by simp [hr0])
  have hu : r0.inUpper = true := by simpa [MNode.inUpper, hr0] using hmu
  have hl : r0.layer = 0 := by have := hsh.2.1; rw [hu] at this; simpa using this.symm
  simp [Disk.statReal, hl, hsh.1]

theorem dir_not_absent {n : Node} (h : n.isDir = true) : n.isAbsent = false := by
  cases n <;> simp_all [Node.isDir, Node.isAbsent]

theorem updFile_dir (L : Layer) (id : Nat) (f : Node → Node) (q : Path) (h : (L q).isDir = true) :
    (L.updFile id f) q = L q := by
  unfold Layer.updFile
  cases hx : L q <;> simp_all [Node.isDir]

theorem ImgKept.refl_anc {s : St} (hc : Consistent s) {p : Path} {m : MNode} (hm : s.mem p = some m)
    (hmu : m.inUpper = true) (q : Path) (hq : q.isSuffixOf p = true) : ImgKept q s s := by
  intro m0 r0 rest0 hm0 hr0 hw0
  obtain ⟨t, ht⟩ := List.isSuffixOf_iff_suffix.1 hq
  have hmqu := ancestors_inUpper hc t q m m0 (by rw [ht]; exact hm) hmu hm0
  exact ImgKept.refl hc hm0 hmqu m0 r0 rest0 hm0 hr0 hw0

theorem suffix_of_cons {q pp : Path} {n : Name} (h : q.isSuffixOf (n :: pp) = true) (hne : q ≠ n :: pp) :
    q.isSuffixOf pp = true := by
  rcases List.suffix_cons_iff.1 (List.isSuffixOf_iff_suffix.1 h) with h1 | h1
  · exact absurd h1 hne
  · exact List.isSuffixOf_iff_suffix.2 h1

/-- the union shows the same at every path, up to xattrs -/
def ViewX (s s' : St) : Prop := ∀ q, (merge s'.disk q).dropX = (merge s.disk q).dropX

theorem ViewX.refl (s : St) : ViewX s s := fun _ => rfl

theorem ViewX.trans {s s1 s2 : St} (h1 : ViewX s s1) (h2 : ViewX s1 s2) : ViewX s s2 :=
  fun q => (h2 q).trans (h1 q)

theorem ViewX.of_disk {s s' : St} (h : s'.disk = s.disk) : ViewX s s' := fun q => by rw [h]

/-- ... at every path outside the subtree at `q0` -/
def FrameX (q0 : Path) (s s' : St) : Prop :=
  ∀ q, q0.isSuffixOf q = false → (merge s'.disk q).dropX = (merge s.disk q).dropX

theorem ViewX.frame {s s' : St} (h : ViewX s s') (q0 : Path) : FrameX q0 s s' := fun q _ => h q

theorem FrameX.after {s s1 s2 : St} {q0 : Path} (h1 : ViewX s s1) (h2 : FrameX q0 s1 s2) : FrameX q0 s s2 :=
  fun q hq => (h2 q hq).trans (h1 q)

/-- the upper layer changed only inside the subtree at `q0` -/
theorem FrameX.of_upper {s s' : St} {L L' : Layer} (hup : s.disk.upper = some L) (hd : s'.disk = s.disk.setLayer 0 L')
    (q0 : Path) (hout : ∀ q, q0.isSuffixOf q = false → L' q = L q) : FrameX q0 s s' :=
  fun q hq => by rw [merge_outside hup hd q0 hout q hq]

/-- the union of `d'` shows outside the subtree at `q0` what the union of `d` shows, up to xattrs -/
def FrameD (d d' : Disk) (q0 : Path) : Prop :=
  ∀ q, q0.isSuffixOf q = false → (merge d' q).dropX = (merge d q).dropX

theorem FrameD.refl (d : Disk) (q0 : Path) : FrameD d d q0 := fun _ _ => rfl

/-- the union of `d'` shows everywhere what the union of `d` shows, up to xattrs -/
def ViewD (d d' : Disk) : Prop := ∀ q, (merge d' q).dropX = (merge d q).dropX

theorem ViewD.refl (d : Disk) : ViewD d d := fun _ => rfl

theorem ViewD.frame {d d' : Disk} (h : ViewD d d') (q0 : Path) : FrameD d d' q0 := fun q _ => h q

theorem FrameX.toD {q0 : Path} {s s' : St} (h : FrameX q0 s s') : FrameD s.disk s'.disk q0 := h

theorem ViewX.toD {s s' : St} (h : ViewX s s') (q0 : Path) : FrameD s.disk s'.disk q0 := fun q _ => h q

/-- the node at `p` is a directory -/
def DirNode (p : Path) (s : St) : Prop :=
  ∀ m0 r0 rest0, s.mem p = some m0 → m0.reals = r0 :: rest0 → (s.disk.statReal r0).isDir = true

/-- what `create_upper_dir(p)` guarantees when it succeeds from `s` -/
structure CUD (p : Path) (s s' : St) : Prop where
  cons : Consistent s'
  up : UpAt p s'
  lowers : s'.disk.lowers = s.disk.lowers
  upper : s'.disk.upper.isSome
  frame : ∀ p', ¬ p'.isSuffixOf p → s'.mem p' = s.mem p'
  keep : ∀ p' m0, s.mem p' = some m0 → ∃ m1, s'.mem p' = some m1 ∧ m1.loaded = m0.loaded ∧ m1.kids = m0.kids
  stat : StatKept s s'
  /-- the node itself and every ancestor directory: what the upper entry shows afterwards is
      what the node showed before (type, mode, content, target), up to the xattr -/
  anc : ∀ q, q.isSuffixOf p = true → ImgKept q s s'
  /-- copying a DIRECTORY up changes the union nowhere (up to xattrs) -/
  view : DirNode p s → ViewX s s'

theorem CUD.img {p : Path} {s s' : St} (h : CUD p s s') : ImgKept p s s' :=
  h.anc p (List.isSuffixOf_iff_suffix.2 (List.suffix_refl p))

/-- on failure -/
structure CUDE (s s' : St) : Prop where
  cons : Consistent s'
  lowers : s'.disk.lowers = s.disk.lowers
  upper : s'.disk.upper.isSome
  view : ViewX s s'

theorem isSuffixOf_cons_self (n : Name) (pp : Path) : (n :: pp).isSuffixOf pp = false := by
  cases h : (n :: pp).isSuffixOf pp with
  | false => rfl
  | true =>
    have := List.isSuffixOf_iff_suffix.1 h
    have hl := this.length_le
    simp at hl
    omega

theorem isSuffixOf_trans_cons {p' pp : Path} (n : Name) (h : p'.isSuffixOf pp = true) :
    p'.isSuffixOf (n :: pp) = true := by
  have := List.isSuffixOf_iff_suffix.1 h
  exact List.isSuffixOf_iff_suffix.2 (this.trans (List.suffix_cons n pp))

/-- the last three statements of `create_upper_dir` for `n :: pp`, once the parent is in the upper layer -/
def cudStep (n : Name) (pp : Path) (mode : Nat) : M Unit := do
  let pr ← getUpperReal pp
  let ri ← pr.mkNode .mkdir n (.dir mode 0 0)
  addUpperInode (n :: pp) ri false

theorem cudStep_spec {s : St} (hc : Consistent s) (hu : s.disk.upper.isSome) (n : Name) (pp : Path)
    {pm m : MNode} (hpm : s.mem pp = some pm) (hm : s.mem (n :: pp) = some m)
    (hpu : pm.inUpper = true) (hmu : m.inUpper = false)
    {r : Real} {rest : List Real} (hr : m.reals = r :: rest) (hdir : (s.disk.statReal r).isDir = true)
    (mode : Nat) (hmode : mode = (s.disk.statReal r).mode) :
    ∃ s', cudStep n pp mode s = .ok () s' ∧ CUD (n :: pp) s s' ∧
      (∀ p', p' ≠ n :: pp → s'.mem p' = s.mem p') ∧
      (∀ q, q ≠ n :: pp → s'.disk.nodeAt 0 q = s.disk.nodeAt 0 q) ∧ ViewX s s' := by
  obtain ⟨L, hup⟩ : ∃ L, s.disk.upper = some L := by
    cases h : s.disk.upper with
    | none => rw [h] at hu; cases hu
    | some L => exact ⟨L, rfl⟩
  obtain ⟨⟨t0, ht0, hpex⟩, ⟨j, t, hej, hj0, hrj, hmex⟩, hdir0, habs, ⟨tl, htl⟩⟩ :=
    lowerDir_facts hc n pp hpm hm hpu hmu hr
  -- the union is unchanged up to the xattr of the merged directory
  have hview : ∀ q, (merge (s.disk.setUpper (n :: pp) (.dir mode 0 0)) q).dropX = (merge s.disk q).dropX := by
    have htl_pos : ∀ i ∈ tl, i ≠ 0 := by
      have hsub : (0 :: tl).Sublist (0 :: t0) := by rw [← htl, ← ht0]; exact dirsIdx_sublist _ _ _
      have hs2 : (0 :: tl).Pairwise (· < ·) := (ht0 ▸ expIdx_sorted s.disk pp).sublist hsub
      intro i hi
      have := (List.pairwise_cons.1 hs2).1 i hi
      omega
    have hbelow : ∀ c, (s.disk.nodeAt 0 (c :: n :: pp)).isAbsent = true := by
      intro c
      have ht := hc.trees 0 L hup
      have h3 : (L (n :: pp)).isDir = false := by
        have : (L (n :: pp)).isAbsent = true := by simpa [Disk.nodeAt, Disk.layer, hup] using habs
        cases hx : L (n :: pp) <;> simp_all [Node.isDir, Node.isAbsent]
      have := leaf_of_nondir ht h3 c
      simpa [Disk.nodeAt, Disk.layer, hup] using this
    have hjd : (s.disk.nodeAt j (n :: pp)).isDir = true := by rw [hrj] at hdir; exact hdir
    have hmode' : mode = (s.disk.nodeAt j (n :: pp)).mode := by rw [hmode, hrj]; rfl
    exact fun q => merge_upperDir hu mode htl htl_pos habs hbelow hej hjd hmode' q
  -- the parent's upper real inode
  have hpr : pm.upperReal = some (realOf s.disk pp 0) := by
    simp [MNode.upperReal, hpex, ht0, realOf]
  have hL0 : s.disk.layer 0 = some L := hup
  have hmk : hMk L pp n (.dir mode 0 0) = .ok (L.set (n :: pp) (.dir mode 0 0)) := by
    have h1 : (L pp).isDir = true := by simpa [Disk.nodeAt, Disk.layer, hup] using hdir0
    have h2 : (L (n :: pp)).isAbsent = true := by simpa [Disk.nodeAt, Disk.layer, hup] using habs
    cases hx : L pp <;> simp_all [hMk, hParent, Node.isDir]
  have hset : s.disk.setLayer 0 (L.set (n :: pp) (.dir mode 0 0)) = s.disk.setUpper (n :: pp) (.dir mode 0 0) := by
    simp [Disk.setUpper, hup]
  have hri : childReal (realOf s.disk pp 0) n = realOf (s.disk.setUpper (n :: pp) (.dir mode 0 0)) (n :: pp) 0 := by
    simp [childReal, realOf, nodeAt_setUpper _ _ _ hu, Node.isWhiteout, Node.isOpaqueDir]
  have hcons := upperDir_consistent hc hup n pp hpm hm hpu hmu hr hdir mode
    (s.log ++ [⟨0, Method.mkdir⟩])
  refine ⟨_, ?_, ⟨hcons, ?_, ?_, ?_, ?_, ?_, ?_, ?_, fun _ => hview⟩, ?_, ?_, hview⟩
  · have hq : realOf (s.disk.setUpper (n :: pp) (.dir mode 0 0)) (n :: pp) 0 =
        { layer := 0, inUpper := true, path := n :: pp, whiteout := false, opq := false } := by
      simp [realOf, nodeAt_setUpper _ _ _ hu, Node.isWhiteout, Node.isOpaqueDir]
    rw [hq]
    simp [cudStep, bind, M.bind, getUpperReal, getNode, hpm, hpr, pure, M.pure, Real.mkNode, realOf,
      layerCall, hL0, hmk, addUpperInode, hm, setNode, modifySt, hset, childReal]
  · exact ⟨{ m with whiteout := false, reals := realOf (s.disk.setUpper (n :: pp) (.dir mode 0 0)) (n :: pp) 0 :: m.reals },
      by simp [Mem.set], by simp [MNode.inUpper, realOf]⟩
  · exact lowers_setUpper _ _ _
  · simp [Disk.setUpper, hup, Disk.setLayer]
  · intro p' hp'
    have : p' ≠ n :: pp := by
      intro h; subst h
      simp at hp'
    simp [Mem.set, this]
  · intro p' m0 hm0
    by_cases hp' : p' = n :: pp
    · subst hp'
      rw [hm] at hm0; cases hm0
      exact ⟨{ m with whiteout := false, reals := realOf (s.disk.setUpper (n :: pp) (.dir mode 0 0)) (n :: pp) 0 :: m.reals },
        by simp [Mem.set], rfl, rfl⟩
    · exact ⟨m0, by simp [Mem.set, hp', hm0], rfl, rfl⟩
  · intro p' m0 r0 rest0 hm0 hr0
    by_cases hp' : p' = n :: pp
    · subst hp'
      rw [hm] at hm0; cases hm0
      rw [hr] at hr0; cases hr0
      refine ⟨{ m with whiteout := false, reals := realOf (s.disk.setUpper (n :: pp) (.dir mode 0 0)) (n :: pp) 0 :: m.reals },
        realOf (s.disk.setUpper (n :: pp) (.dir mode 0 0)) (n :: pp) 0, m.reals, by simp [Mem.set], rfl, ?_, ?_⟩
      · show ((s.disk.setUpper (n :: pp) (.dir mode 0 0)).statReal _).isDir = _
        rw [statReal_realOf, nodeAt_setUpper _ _ _ hu, hdir]; simp [Node.isDir]
      · intro _
        show ((s.disk.setUpper (n :: pp) (.dir mode 0 0)).statReal _).isWhiteout = false
        rw [statReal_realOf, nodeAt_setUpper _ _ _ hu]; simp [Node.isWhiteout]
    · have hrp := (reals_shape hc hm0 r0 (by simp [hr0])).1
      refine ⟨m0, r0, rest0, by simp [Mem.set, hp', hm0], hr0, ?_, ?_⟩
      · show ((s.disk.setUpper (n :: pp) (.dir mode 0 0)).nodeAt r0.layer r0.path).isDir = _
        rw [nodeAt_setUpper_ne _ _ _ hu _ _ (fun h => hp' (hrp ▸ h.2))]; rfl
      · intro h
        show ((s.disk.setUpper (n :: pp) (.dir mode 0 0)).nodeAt r0.layer r0.path).isWhiteout = false
        rw [nodeAt_setUpper_ne _ _ _ hu _ _ (fun h => hp' (hrp ▸ h.2))]; exact h
  · intro q hq
    by_cases hqe : q = n :: pp
    · subst hqe
      intro m0 r0 rest0 hm0 hr0 _
      rw [hm] at hm0; cases hm0
      rw [hr] at hr0; cases hr0
      show ((s.disk.setUpper (n :: pp) (.dir mode 0 0)).nodeAt 0 (n :: pp)).view.dropX = _
      rw [nodeAt_setUpper _ _ _ hu, hmode]
      cases hx : s.disk.statReal r <;> simp_all [Node.isDir, Node.view, VNode.dropX, Node.mode]
    · intro m0 r0 rest0 hm0 hr0 hw0
      show ((s.disk.setUpper (n :: pp) (.dir mode 0 0)).nodeAt 0 q).view.dropX = _
      rw [nodeAt_setUpper_ne _ _ _ hu _ _ (fun h => hqe h.2)]
      exact ImgKept.refl_anc hc hpm hpu q (suffix_of_cons hq hqe) m0 r0 rest0 hm0 hr0 hw0
  · intro p' hp'
    simp [Mem.set, hp']
  · intro q hq
    show (s.disk.setUpper (n :: pp) (.dir mode 0 0)).nodeAt 0 q = _
    rw [nodeAt_setUpper_ne _ _ _ hu _ _ (fun h => hq h.2)]

/-- outcome of a function that keeps the cache valid: success with `Q`, failure with `E` -/
def Outcome {α : Type} (r : Res α) (Q : α → St → Prop) (E : St → Prop) : Prop :=
  match r with
  | .ok a s' => Q a s'
  | .err _ s' => E s'

theorem createUpperDir_tail (n : Name) (pp : Path) :
    createUpperDir (n :: pp) = (do
      let m ← getNode (n :: pp)
      let st ← nodeStat m
      if !st.isDir then fail ENOTDIR else
      if m.inUpper then pure () else do
        let pm ← getNode pp
        whenM (!pm.inUpper) (createUpperDir pp)
        cudStep n pp st.mode) := by
  rw [createUpperDir]
  rfl

theorem real_lower {s : St} (hc : Consistent s) {p : Path} {m : MNode} (hm : s.mem p = some m)
    {r : Real} {rest : List Real} (hr : m.reals = r :: rest) (hmu : m.inUpper = false) : r.layer ≠ 0 := by
  have h1 := (reals_shape hc hm r (by simp [hr])).2.1
  have h2 : r.inUpper = false := by simpa [MNode.inUpper, hr] using hmu
  rw [h2] at h1
  intro h0
  rw [h0] at h1
  simp at h1

theorem createUpperDir_spec : ∀ (p : Path) (s : St), Consistent s → s.disk.upper.isSome →
    Outcome (createUpperDir p s) (fun _ s' => CUD p s s') (fun s' => CUDE s s')
  | [], s, hc, hu => by
    obtain ⟨m, hm⟩ := hc.root
    have hst := nodeStat_eq hc hm
    unfold createUpperDir
    cases hr : m.reals with
    | nil =>
      rw [hr] at hst
      simp [Outcome, bind, M.bind, getNode, hm, hst]
      exact ⟨hc, rfl, hu, ViewX.refl s⟩
    | cons r rest =>
      rw [hr] at hst
      by_cases hd : (s.disk.statReal r).isDir = true
      · by_cases hmu : m.inUpper = true
        · simp [Outcome, bind, M.bind, getNode, hm, hst, hd, hmu, pure, M.pure]
          exact ⟨hc, ⟨m, hm, hmu⟩, rfl, hu, fun _ _ => rfl, fun p' m0 h => ⟨m0, h, rfl, rfl⟩, StatKept.refl s,
            ImgKept.refl_anc hc hm hmu, fun _ => ViewX.refl s⟩
        · simp [Outcome, bind, M.bind, getNode, hm, hst, hd, hmu, fail]
          exact ⟨hc, rfl, hu, ViewX.refl s⟩
      · simp [Outcome, bind, M.bind, getNode, hm, hst, hd, fail]
        exact ⟨hc, rfl, hu, ViewX.refl s⟩
  | n :: pp, s, hc, hu => by
    rw [createUpperDir_tail]
    cases hm : s.mem (n :: pp) with
    | none =>
      simp [Outcome, bind, M.bind, getNode, hm]
      exact ⟨hc, rfl, hu, ViewX.refl s⟩
    | some m =>
      have hst := nodeStat_eq hc hm
      cases hr : m.reals with
      | nil =>
        rw [hr] at hst
        simp [Outcome, bind, M.bind, getNode, hm, hst]
        exact ⟨hc, rfl, hu, ViewX.refl s⟩
      | cons r rest =>
        rw [hr] at hst
        by_cases hd : (s.disk.statReal r).isDir = true
        · by_cases hmu : m.inUpper = true
          · simp [Outcome, bind, M.bind, getNode, hm, hst, hd, hmu, pure, M.pure]
            exact ⟨hc, ⟨m, hm, hmu⟩, rfl, hu, fun _ _ => rfl, fun p' m0 h => ⟨m0, h, rfl, rfl⟩, StatKept.refl s,
            ImgKept.refl_anc hc hm hmu, fun _ => ViewX.refl s⟩
          · simp only [Bool.not_eq_true] at hmu
            obtain ⟨pm, hpm, _⟩ := hc.reach n pp m hm
            have hrl := real_lower hc hm hr hmu
            have hrp := (reals_shape hc hm r (by simp [hr])).1
            -- after the (possible) recursive call
            have key : ∀ s1, CUD pp s s1 ∨ (s1 = s ∧ pm.inUpper = true) →
                Outcome (cudStep n pp (s.disk.statReal r).mode s1) (fun _ s' => CUD (n :: pp) s s')
                  (fun s' => CUDE s s') := by
              intro s1 h1
              have hc1 : Consistent s1 := by
                rcases h1 with h | ⟨h, _⟩
                · exact h.cons
                · rw [h]; exact hc
              have hu1 : s1.disk.upper.isSome := by
                rcases h1 with h | ⟨h, _⟩
                · exact h.upper
                · rw [h]; exact hu
              have hlow : s1.disk.lowers = s.disk.lowers := by
                rcases h1 with h | ⟨h, _⟩
                · exact h.lowers
                · rw [h]
              have hm1 : s1.mem (n :: pp) = some m := by
                rcases h1 with h | ⟨h, _⟩
                · rw [h.frame _ (by simp [isSuffixOf_cons_self])]; exact hm
                · rw [h]; exact hm
              obtain ⟨pm1, hpm1, hpu1⟩ : ∃ pm1, s1.mem pp = some pm1 ∧ pm1.inUpper = true := by
                rcases h1 with h | ⟨h, hpu⟩
                · exact h.up
                · exact ⟨pm, by rw [h]; exact hpm, hpu⟩
              have hdir1 : (s1.disk.statReal r).isDir = true := by
                simp only [Disk.statReal] at hd ⊢
                rw [nodeAt_of_lowers hlow hrl]; exact hd
              have hst1 : s1.disk.statReal r = s.disk.statReal r := by
                simp only [Disk.statReal]; exact nodeAt_of_lowers hlow hrl _
              obtain ⟨s2, hs2, hcud, hfr, hfrd, hview2⟩ := cudStep_spec hc1 hu1 n pp hpm1 hm1 hpu1 hmu hr hdir1 (s.disk.statReal r).mode
                (by rw [hst1])
              rw [hs2]
              have hstat1 : StatKept s s1 := by
                rcases h1 with h | ⟨h, _⟩
                · exact h.stat
                · rw [h]; exact StatKept.refl s
              have hview1 : ViewX s s1 := by
                rcases h1 with h | ⟨h, _⟩
                · apply h.view
                  intro m0 r0 rest0 hm0 hr0
                  cases hdd : (s.disk.statReal r0).isDir with
                  | true => rfl
                  | false =>
                    exfalso
                    obtain ⟨pm', hpm', hnk⟩ := hc.reach n pp m hm
                    rw [hm0] at hpm'; cases hpm'
                    rw [(nondir_no_kids hc hm0 hr0 hdd).1] at hnk
                    cases hnk
                · rw [h]; exact ViewX.refl s
              refine ⟨hcud.cons, hcud.up, by rw [hcud.lowers, hlow], hcud.upper, ?_, ?_, hstat1.trans hcud.stat, ?_,
                fun _ => hview1.trans hview2⟩
              rotate_left 2
              · intro q hq
                by_cases hqe : q = n :: pp
                · subst hqe
                  intro m0 r0 rest0 hm0 hr0 hw0
                  rw [hm] at hm0; cases hm0
                  rw [hr] at hr0; cases hr0
                  rw [hcud.img m r rest hm1 hr hw0, hst1]
                · have hq' := suffix_of_cons hq hqe
                  intro m0 r0 rest0 hm0 hr0 hw0
                  rw [hfrd q hqe]
                  rcases h1 with h | ⟨h, hpu⟩
                  · exact h.anc q hq' m0 r0 rest0 hm0 hr0 hw0
                  · rw [h]; exact ImgKept.refl_anc hc hpm hpu q hq' m0 r0 rest0 hm0 hr0 hw0
              · intro p' hp'
                have hne : p' ≠ n :: pp := by
                  intro h; subst h; simp at hp'
                rw [hfr p' hne]
                rcases h1 with h | ⟨h, _⟩
                · apply h.frame
                  intro hsuf
                  exact hp' (isSuffixOf_trans_cons n hsuf)
                · rw [h]
              · intro p' m0 hm0
                have : ∃ m1, s1.mem p' = some m1 ∧ m1.loaded = m0.loaded ∧ m1.kids = m0.kids := by
                  rcases h1 with h | ⟨h, _⟩
                  · exact h.keep p' m0 hm0
                  · exact ⟨m0, by rw [h]; exact hm0, rfl, rfl⟩
                obtain ⟨m1, hm1', hl1, hk1⟩ := this
                obtain ⟨m2, hm2', hl2, hk2⟩ := hcud.keep p' m1 hm1'
                exact ⟨m2, hm2', by rw [hl2, hl1], by rw [hk2, hk1]⟩
            by_cases hpu : pm.inUpper = true
            · have := key s (Or.inr ⟨rfl, hpu⟩)
              simpa [Outcome, bind, M.bind, getNode, hm, hst, hd, hmu, hpm, whenM, hpu, pure, M.pure] using this
            · simp only [Bool.not_eq_true] at hpu
              have ih := createUpperDir_spec pp s hc hu
              cases hrec : createUpperDir pp s with
              | ok u s1 =>
                rw [hrec] at ih
                have := key s1 (Or.inl ih)
                simpa [Outcome, bind, M.bind, getNode, hm, hst, hd, hmu, hpm, whenM, hpu, hrec] using this
              | err e s1 =>
                rw [hrec] at ih
                simpa [Outcome, bind, M.bind, getNode, hm, hst, hd, hmu, hpm, whenM, hpu, hrec] using ih
        · simp [Outcome, bind, M.bind, getNode, hm, hst, hd, fail]
          exact ⟨hc, rfl, hu, ViewX.refl s⟩

/-- the invariant only talks about the disk and the forest -/
theorem Consistent.congr {s s' : St} (h : Consistent s) (hd : s'.disk = s.disk) (hm : s'.mem = s.mem) :
    Consistent s' := by
  obtain ⟨h1, h2, h3, h4, h5, h6, h7, h8, h9⟩ := h
  exact ⟨hd ▸ h1, hd ▸ h2, hm ▸ h3, by rw [hd, hm]; exact h4, hm ▸ h5, by rw [hd, hm]; exact h6,
    by rw [hm]; exact h7, hm ▸ h8, by rw [hm]; exact h9⟩

theorem upperCopy_shape (st : Node) (id : Nat) :
    (upperCopy st id).isDir = false ∧ (upperCopy st id).isWhiteout = false ∧ (upperCopy st id).isAbsent = false := by
  cases st <;> simp [upperCopy, Node.isDir, Node.isWhiteout, Node.isAbsent]

/-- `parentUpperReal`: afterwards the parent is in the upper layer -/
theorem parentUpperReal_spec {s : St} (hc : Consistent s) (hu : s.disk.upper.isSome) (pp : Path)
    {pm : MNode} (hpm : s.mem pp = some pm) :
    Outcome (parentUpperReal pp s)
      (fun pr s1 => (CUD pp s s1 ∨ (s1 = s ∧ pm.inUpper = true)) ∧
        ∃ pm1, s1.mem pp = some pm1 ∧ pm1.inUpper = true ∧ pm1.upperReal = some pr)
      (fun s1 => CUDE s s1) := by
  unfold parentUpperReal
  rw [bind_ok (getNode_ok hpm)]
  by_cases hpu : pm.inUpper = true
  · obtain ⟨pr, _, _, _, hpr⟩ := upperReal_of_inUpper hpu
    rw [show (!pm.inUpper) = false by simp [hpu], whenM_false]
    rw [bind_ok (pure_eval () s), getUpperReal_ok hpm hpr]
    exact ⟨Or.inr ⟨rfl, hpu⟩, pm, hpm, hpu, hpr⟩
  · simp only [Bool.not_eq_true] at hpu
    rw [show (!pm.inUpper) = true by simp [hpu], whenM_true]
    have ih := createUpperDir_spec pp s hc hu
    cases hrec : createUpperDir pp s with
    | ok u s1 =>
      rw [hrec] at ih
      obtain ⟨pm1, hpm1, hpu1⟩ := ih.up
      obtain ⟨pr, _, _, _, hpr⟩ := upperReal_of_inUpper hpu1
      rw [bind_ok hrec, getUpperReal_ok hpm1 hpr]
      exact ⟨Or.inl ih, pm1, hpm1, hpu1, hpr⟩
    | err e s1 =>
      rw [hrec] at ih
      rw [bind_err hrec]
      exact ih

theorem copyFileUp_spec {s : St} (hc : Consistent s) (hu : s.disk.upper.isSome) (n : Name) (pp : Path)
    {m : MNode} (hm : s.mem (n :: pp) = some m) (hmu : m.inUpper = false)
    {r : Real} {rest : List Real} (hr : m.reals = r :: rest) (hnd : (s.disk.statReal r).isDir = false) :
    Outcome (copyFileUp (s.disk.statReal r) pp n s) (fun _ s' => CUD (n :: pp) s s') (fun s' => CUDE s s') := by
  obtain ⟨pm, hpm, _⟩ := hc.reach n pp m hm
  have hrl := real_lower hc hm hr hmu
  unfold copyFileUp
  have hpar := parentUpperReal_spec hc hu pp hpm
  cases hp : parentUpperReal pp s with
  | err e s1 =>
    rw [hp] at hpar
    rw [bind_err hp]
    exact hpar
  | ok pr s1 =>
    rw [hp] at hpar
    obtain ⟨h1, pm1, hpm1, hpu1, hpr1⟩ := hpar
    have hc1 : Consistent s1 := by
      rcases h1 with h | ⟨h, _⟩
      · exact h.cons
      · rw [h]; exact hc
    have hu1 : s1.disk.upper.isSome := by
      rcases h1 with h | ⟨h, _⟩
      · exact h.upper
      · rw [h]; exact hu
    have hlow : s1.disk.lowers = s.disk.lowers := by
      rcases h1 with h | ⟨h, _⟩
      · exact h.lowers
      · rw [h]
    have hm1 : s1.mem (n :: pp) = some m := by
      rcases h1 with h | ⟨h, _⟩
      · rw [h.frame _ (by simp [isSuffixOf_cons_self])]; exact hm
      · rw [h]; exact hm
    have hframe1 : ∀ p', ¬ p'.isSuffixOf (n :: pp) → s1.mem p' = s.mem p' := by
      intro p' hp'
      rcases h1 with h | ⟨h, _⟩
      · exact h.frame p' (fun hsuf => hp' (isSuffixOf_trans_cons n hsuf))
      · rw [h]
    have hst1 : s1.disk.statReal r = s.disk.statReal r := by
      simp only [Disk.statReal]; exact nodeAt_of_lowers hlow hrl _
    have hnd1 : (s1.disk.statReal r).isDir = false := by rw [hst1]; exact hnd
    obtain ⟨L, hup⟩ : ∃ L, s1.disk.upper = some L := by
      cases h : s1.disk.upper with
      | none => rw [h] at hu1; cases hu1
      | some L => exact ⟨L, rfl⟩
    obtain ⟨⟨t0, ht0, hpex⟩, _, hdir0, habs, _⟩ := lowerDir_facts hc1 n pp hpm1 hm1 hpu1 hmu hr
    have hpr : pr = realOf s1.disk pp 0 := by
      have : pm1.upperReal = some (realOf s1.disk pp 0) := by simp [MNode.upperReal, hpex, ht0, realOf]
      rw [this] at hpr1; cases hpr1; rfl
    -- the node created in the upper layer
    generalize hX : upperCopy (s.disk.statReal r) s1.nextId = X
    obtain ⟨hXd, hXw, hXa⟩ : X.isDir = false ∧ X.isWhiteout = false ∧ X.isAbsent = false := by
      rw [← hX]; exact upperCopy_shape _ _
    have hmk : hMk L pp n X = .ok (L.set (n :: pp) X) := by
      have h1 : (L pp).isDir = true := by simpa [Disk.nodeAt, Disk.layer, hup] using hdir0
      have h2 : (L (n :: pp)).isAbsent = true := by simpa [Disk.nodeAt, Disk.layer, hup] using habs
      cases hx : L pp <;> simp_all [hMk, hParent, Node.isDir]
    have hset : s1.disk.setLayer 0 (L.set (n :: pp) X) = s1.disk.setUpper (n :: pp) X := by
      simp [Disk.setUpper, hup]
    have hq : realOf (s1.disk.setUpper (n :: pp) X) (n :: pp) 0 = childReal pr n := by
      have : (s1.disk.setUpper (n :: pp) X).nodeAt 0 (n :: pp) = X := by
        rw [nodeAt_setUpper _ _ _ hu1]; simp
      have ho : X.isOpaqueDir = false := by cases X <;> simp_all [Node.isOpaqueDir, Node.isDir]
      simp [realOf, this, hXw, ho, childReal, hpr]
    -- evaluate: freshId, mkNode
    obtain ⟨s1', hfresh, hd1', hm1'⟩ := freshId_ok' s1
    rw [bind_ok hp, bind_ok hfresh, hX]
    obtain ⟨s2, hmkn, hd2, hm2⟩ := mkNode_ok' (s := s1') (r := pr) (copyMethod (s.disk.statReal r)) n X
      (by rw [hpr]; rfl) (by rw [hpr, hd1']; exact hup) (by rw [hpr]; exact hmk)
    rw [bind_ok hmkn]
    have hprl : pr.layer = 0 := by rw [hpr]; rfl
    have hcp : (childReal pr n).path = n :: pp := by simp [childReal, hpr, realOf]
    have hcl : (childReal pr n).layer = 0 := by simp [childReal, hprl]
    have hdisk2 : s2.disk = s1.disk.setUpper (n :: pp) X := by rw [hd2, hd1', hprl, hset]
    have hmem2 : s2.mem = s1.mem := by rw [hm2, hm1']
    -- the state A after create + add_upper_inode (content not yet written)
    have hA := upperFile_consistent hc1 hup n pp hpm1 hm1 hpu1 hmu hr hnd1 X hXd hXw hXa []
    rw [hq] at hA
    have hnodeEq : addUpperNode m (childReal pr n) true =
        { m with whiteout := false, reals := [childReal pr n] } := by
      simp [addUpperNode, childReal]
    have hupAt : (addUpperNode m (childReal pr n) true).inUpper = true := by
      simp [addUpperNode, MNode.inUpper, childReal]
    -- what remains to be shown about the final state, from its disk and forest
    have hwst : m.whiteout = false → (s.disk.statReal r).isWhiteout = false := by
      intro hmw
      have hw := hc.wh _ m hm
      have hsh := reals_shape hc hm r (by simp [hr])
      rw [hmw, hr] at hw
      simp only [headWhiteout] at hw
      have : s.disk.statReal r = s.disk.nodeAt r.layer (n :: pp) := by simp [Disk.statReal, hsh.1]
      rw [this, ← hsh.2.2]; exact hw.symm
    have hpres : (s.disk.statReal r).isAbsent = false := head_present hc hm hr
    have finish : ∀ s3 : St, (∃ L3, s3.disk = s2.disk.setLayer 0 L3 ∧
          ((∀ p, sameShape (L3 p) ((L.set (n :: pp) X) p)) ∧ HostStep (L.set (n :: pp) X) L3) ∧
          (m.whiteout = false → (L3 (n :: pp)).view.dropX = (s.disk.statReal r).view.dropX) ∧
          (∀ q, (L q).isDir = true → q ≠ n :: pp → L3 q = L q)) →
        s3.mem = s2.mem.set (n :: pp) (some (addUpperNode m (childReal pr n) true)) → CUD (n :: pp) s s3 := by
      intro s3 ⟨L3, hd3, ⟨hsh, hstp⟩, himg, hdirs⟩ hm3
      have hfinal := consistent_sameShape hA (L := L.set (n :: pp) X) (L' := L3)
        (by simp [Disk.setUpper, hup, Disk.setLayer]) hsh hstp []
      have hstat1 : StatKept s s1 := by
        rcases h1 with h | ⟨h, _⟩
        · exact h.stat
        · rw [h]; exact StatKept.refl s
      have hstat3 : StatKept s1 s3 := by
        intro p' m0 r0 rest0 hm0 hr0
        by_cases hp' : p' = n :: pp
        · subst hp'
          rw [hm1] at hm0; cases hm0
          rw [hr] at hr0; cases hr0
          refine ⟨addUpperNode m (childReal pr n) true, childReal pr n, [], by rw [hm3]; simp [Mem.set],
            by simp [addUpperNode], ?_, fun _ => ?_⟩
          · have h1' := (hsh (n :: pp)).2.2.1
            simp only [Layer.set, if_true] at h1'
            simp only [Disk.statReal, hcl, hcp, hd3, nodeAt_setLayer0, if_true] at hnd1 ⊢
            rw [h1', hXd, hnd1]
          · have h1' := (hsh (n :: pp)).2.1
            simp only [Layer.set, if_true] at h1'
            simp only [Disk.statReal, hcl, hcp, hd3, nodeAt_setLayer0, if_true]
            rw [h1', hXw]
        · have hrp := (reals_shape hc1 hm0 r0 (by simp [hr0])).1
          have hsame : sameShape (s3.disk.nodeAt r0.layer p') (s1.disk.nodeAt r0.layer p') := by
            rw [hd3, nodeAt_setLayer0]
            split
            · rename_i h0
              have := hsh p'
              simp only [Layer.set, if_neg hp'] at this
              rw [h0]
              simpa [Disk.nodeAt, Disk.layer, hup] using this
            · rw [hdisk2, nodeAt_setUpper_ne _ _ _ hu1 _ _ (fun h => hp' h.2)]
              exact sameShape_refl _
          refine ⟨m0, r0, rest0, by rw [hm3, hmem2]; simp [Mem.set, hp', hm0], hr0, ?_, fun h => ?_⟩
          · simp only [Disk.statReal, hrp]; exact hsame.2.2.1
          · simp only [Disk.statReal, hrp] at h ⊢; rw [hsame.2.1]; exact h
      refine ⟨hfinal.congr ?_ ?_, ?_, ?_, ?_, ?_, ?_, hstat1.trans hstat3, ?_,
        fun hdn => absurd (hdn m r rest hm hr) (by rw [hnd]; simp)⟩
      rotate_right 1
      · intro q hq
        by_cases hqe : q = n :: pp
        · subst hqe
          intro m0 r0 rest0 hm0 hr0 hw0
          rw [hm] at hm0; cases hm0
          rw [hr] at hr0; cases hr0
          rw [hd3, nodeAt_setLayer0, if_pos rfl]
          exact himg hw0
        · have hq' := suffix_of_cons hq hqe
          have hLq : (L q).isDir = true := by
            obtain ⟨t, ht⟩ := List.isSuffixOf_iff_suffix.1 hq'
            have hpd : (L pp).isDir = true := by simpa [Disk.nodeAt, Disk.layer, hup] using hdir0
            cases t with
            | nil => simp at ht; rw [ht]; exact hpd
            | cons c t' =>
              refine tree_ancestors_dir (hc1.trees 0 L hup) (c :: t') q ?_ (by simp)
              rw [ht]
              exact dir_not_absent hpd
          intro m0 r0 rest0 hm0 hr0 hw0
          have hnode : s3.disk.nodeAt 0 q = s1.disk.nodeAt 0 q := by
            rw [hd3, nodeAt_setLayer0, if_pos rfl, hdirs q hLq hqe]
            simp [Disk.nodeAt, Disk.layer, hup]
          rw [hnode]
          rcases h1 with h | ⟨h, hpu⟩
          · exact h.anc q hq' m0 r0 rest0 hm0 hr0 hw0
          · rw [h]; exact ImgKept.refl_anc hc hpm hpu q hq' m0 r0 rest0 hm0 hr0 hw0
      · rw [hd3, hdisk2]
      · rw [hm3, hmem2, hnodeEq]
      · exact ⟨_, by rw [hm3]; simp [Mem.set], hupAt⟩
      · rw [hd3, hdisk2]; simp [Disk.setUpper, hup, Disk.setLayer, hlow]
      · rw [hd3]; simp [Disk.setLayer]
      · intro p' hp'
        have hne : p' ≠ n :: pp := by intro h; subst h; simp at hp'
        rw [hm3, hmem2]
        simp only [Mem.set, if_neg hne]
        exact hframe1 p' hp'
      · intro p' m0 hm0
        have h1' : ∃ m1, s1.mem p' = some m1 ∧ m1.loaded = m0.loaded ∧ m1.kids = m0.kids := by
          rcases h1 with h | ⟨h, _⟩
          · exact h.keep p' m0 hm0
          · exact ⟨m0, by rw [h]; exact hm0, rfl, rfl⟩
        obtain ⟨m1, hm1', hl1, hk1⟩ := h1'
        rw [hm3, hmem2]
        by_cases hp' : p' = n :: pp
        · subst hp'
          rw [hm1] at hm1'; cases hm1'
          exact ⟨addUpperNode m (childReal pr n) true, by simp [Mem.set], hl1, hk1⟩
        · exact ⟨m1, by simp [Mem.set, hp', hm1'], hl1, hk1⟩
    have hL2 : s2.disk.layer 0 = some (L.set (n :: pp) X) := by
      rw [hdisk2]; simp [Disk.setUpper, hup, Disk.layer, Disk.setLayer]
    have hm2q : s2.mem (n :: pp) = some m := by rw [hmem2]; exact hm1
    -- no content to copy: the upper layer is as `mkNode` left it
    have nocontent : copyContent (s.disk.statReal r) (childReal pr n) = pure () →
        (m.whiteout = false → X.view.dropX = (s.disk.statReal r).view.dropX) →
        Outcome ((copyContent (s.disk.statReal r) (childReal pr n) >>= fun _ =>
          addUpperInode (n :: pp) (childReal pr n) true) s2) (fun _ s' => CUD (n :: pp) s s') (fun s' => CUDE s s') := by
      intro hcc hXimg
      rw [hcc, bind_ok (pure_eval () s2)]
      obtain ⟨s3, hadd, hd3, hm3⟩ := addUpperInode_ok' (childReal pr n) true hm2q
      rw [hadd]
      refine finish s3 ⟨L.set (n :: pp) X, ?_, ⟨fun _ => sameShape_refl _, hostStep_refl _⟩, ?_, ?_⟩ hm3
      · rw [hd3, hdisk2]; simp [Disk.setUpper, hup, Disk.setLayer]
      · intro hmw
        simp only [Layer.set, if_true]
        exact hXimg hmw
      · intro q _ hqe
        simp [Layer.set, hqe]
    cases hstk : s.disk.statReal r with
    | file fid fmode fc fx =>
      have hXf : X = .file s1.nextId fmode [] 0 := by rw [← hX, hstk]; rfl
      obtain ⟨L3, hwr⟩ : ∃ L3, hWrite (L.set (n :: pp) X) (n :: pp) 0 fc = .ok L3 := by
        simp [hWrite, Layer.set, hXf]
      simp only [copyContent, hcl, hcp]
      obtain ⟨s3, hw3, hd3, hm3⟩ := layerCall_ok' (f := fun L => hWrite L (n :: pp) 0 fc) Method.write hL2 hwr
      rw [bind_ok hw3]
      obtain ⟨s4, hadd, hd4, hm4⟩ := addUpperInode_ok' (childReal pr n) true (s := s3) (by rw [hm3]; exact hm2q)
      rw [hadd]
      have hL3q : L3 (n :: pp) = .file s1.nextId fmode fc 0 := by
        simp only [hWrite, Layer.set, if_true, hXf] at hwr
        cases hwr
        simp [Layer.updFile, Layer.set, pwrite]
      have hL3d : ∀ q, (L q).isDir = true → q ≠ n :: pp → L3 q = L q := by
        intro q hqd hqe
        simp only [hWrite, Layer.set, if_true, hXf] at hwr
        cases hwr
        rw [updFile_dir _ _ _ q (by simp only [Layer.set, if_neg hqe]; exact hqd)]
        simp only [Layer.set, if_neg hqe]
      exact finish s4 ⟨_, by rw [hd4, hd3], ⟨keepShape_hWrite (n :: pp) 0 fc _ _ hwr,
        keepRoot_hWrite (n :: pp) 0 fc _ _ hwr⟩, fun _ => by rw [hL3q, hstk]; rfl, hL3d⟩ (by rw [hm4, hm3])
    | symlink t => rw [hstk] at nocontent hX; exact nocontent rfl (fun _ => by rw [← hX]; rfl)
    | other oid omode => rw [hstk] at nocontent hX; exact nocontent rfl (fun _ => by rw [← hX]; rfl)
    | whiteout =>
      rw [hstk] at nocontent
      exact nocontent rfl (fun hmw => by have := hwst hmw; rw [hstk] at this; cases this)
    | absent => rw [hstk] at hpres; cases hpres
    | dir dm dop dx => rw [hstk] at hnd; cases hnd

end Fbr.Ovl
