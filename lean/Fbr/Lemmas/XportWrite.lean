/-
  Helper lemmas for C04: what `VirtioFsWriter::write` leaves in memory, as flat content.
-/
import Fbr.Lemmas.XportScatter

namespace Fbr.Xport

theorem nodup_not_mem_take {α : Type} (A : List α) (hnd : A.Nodup) (n j : Nat) (hn : n ≤ j) (hj : j < A.length) :
    A[j] ∉ A.take n := by
  have hsplit : A = A.take n ++ A.drop n := (List.take_append_drop n A).symm
  rw [hsplit] at hnd
  have hdis := (List.nodup_append.mp hnd).2.2
  intro hm
  have hd : A[j] ∈ A.drop n := by
    rw [List.mem_iff_getElem]
    exact ⟨j - n, by simp; omega, by simp [List.getElem_drop]; congr 1; omega⟩
  exact hdis _ hm _ hd rfl

/-- memory after a `write` that fits: region sizes kept; the first `data.length` addresses of the
    writer hold `data`; every other address keeps its byte -/
theorem vwrite_mem (b : IoBufs) (w : World) (data : Bytes)
    (hnd : (addrs b.segs).Nodup) (hin : InMem w.mem (addrs b.segs)) :
    (∀ x, ((VirtioW.write b w data).w.mem.get x).length = (w.mem.get x).length)
    ∧ (∀ a, a ∉ (addrs b.segs).take data.length → (VirtioW.write b w data).w.mem.byteAt a = w.mem.byteAt a)
    ∧ ((VirtioW.write b w data).res = .ok data.length →
        ∀ j (h1 : j < data.length) (h2 : j < (addrs b.segs).length),
          (VirtioW.write b w data).w.mem.byteAt ((addrs b.segs)[j]) = data[j]) := by
  unfold VirtioW.write
  cases hc : VirtioW.checkAvail b data.length 0 0 with
  | error e => exact ⟨fun _ => rfl, fun _ _ => rfl, fun h => by cases h⟩
  | ok u =>
    cases u
    simp only
    unfold consume
    by_cases he : (allocate b.segs data.length).isEmpty = true
    · simp only [he, if_true]
      refine ⟨fun _ => trivial, fun _ _ => trivial, ?_⟩
      intro hr j h1 h2
      have h0 := allocate_isEmpty_total _ _ he
      simp only [Except.ok.injEq] at hr
      omega
    · simp only [he, Bool.false_eq_true, if_false]
      have hA : addrs (allocate b.segs data.length) = (addrs b.segs).take data.length := addrs_allocate _ _
      have hm := copyIn_mem w (allocate b.segs data.length) data
        (by rw [hA]; exact (List.take_sublist _ _).nodup hnd) (by rw [hA]; exact hin.take _)
      rcases hci : copyIn w (allocate b.segs data.length) data with ⟨w1, t⟩
      rw [hci] at hm
      simp only at hm ⊢
      obtain ⟨m1, m2, m3⟩ := hm
      rw [hA, List.take_take, Nat.min_self] at m2
      have key : (∀ x, (w1.mem.get x).length = (w.mem.get x).length)
          ∧ (∀ a, a ∉ (addrs b.segs).take data.length → w1.mem.byteAt a = w.mem.byteAt a)
          ∧ (∀ j (h1 : j < data.length) (h2 : j < (addrs b.segs).length), w1.mem.byteAt ((addrs b.segs)[j]) = data[j]) := by
        refine ⟨m1, m2, ?_⟩
        intro j h1 h2
        have h3 : j < (addrs (allocate b.segs data.length)).length := by
          rw [hA, List.length_take]; omega
        have := m3 j h1 h3
        simp only [hA, List.getElem_take] at this
        exact this
      cases hmu : b.markUsed t with
      | error e => exact ⟨key.1, key.2.1, fun h => by cases h⟩
      | ok b' => exact ⟨key.1, key.2.1, fun _ => key.2.2⟩

/-- the same as one equation on the flat content of the writer's buffers -/
theorem vwrite_flat (b : IoBufs) (w : World) (data : Bytes)
    (hnd : (addrs b.segs).Nodup) (hin : InMem w.mem (addrs b.segs))
    (hov : b.consumed + total b.segs < USIZE) (hfit : data.length ≤ total b.segs) :
    flat (VirtioW.write b w data).w.mem b.segs = data ++ (flat w.mem b.segs).drop data.length := by
  obtain ⟨m1, m2, m3⟩ := vwrite_mem b w data hnd hin
  have m3' := m3 (vwrite_res_ok b w data hov hfit)
  have hin' : InMem (VirtioW.write b w data).w.mem (addrs b.segs) := by
    intro a ha; rw [m1]; exact hin a ha
  rw [flat_eq_map _ _ hin', flat_eq_map _ _ hin]
  apply List.ext_getElem
  · simp; omega
  · intro j h1 h2
    simp only [List.length_map, length_addrs] at h1
    simp only [List.getElem_map]
    by_cases hj : j < data.length
    · rw [List.getElem_append_left hj]
      exact m3' j hj (by simpa using h1)
    · rw [List.getElem_append_right (by omega)]
      simp only [List.getElem_drop, List.getElem_map]
      rw [m2 _ (nodup_not_mem_take _ hnd _ _ (by omega) (by simpa using h1))]
      congr 2; omega

end Fbr.Xport
