/-
  Fbr.Lemmas.HostRefDemo — a small concrete reference-FS state used by the non-vacuity examples
  of C06: host root 0 = { "secret" ↦ 1 (file), "export" ↦ 2 }, export root 2 = { "lnk" ↦ 3
  (symlink to "../secret"), "a" ↦ 4 (directory) }; objects 0 and 1 are the sentinel tree;
  descriptor 0 is an O_PATH descriptor of the export root.
-/
import Fbr.Lemmas.HostRefGood

namespace Fbr.Host.Ref

def sExport : Name := [101, 120, 112, 111, 114, 116]
def sSecret : Name := [115, 101, 99, 114, 101, 116]
def sLnk : Name := [108, 110, 107]
def sA : Name := [97]
def sUpSecret : Name := [46, 46, 47, 115, 101, 99, 114, 101, 116]

def demoNodes : Obj → Option Node
  | 0 => some { kind := .dir, perm := 0o755, uid := 0, gid := 0, entries := [(sSecret, 1), (sExport, 2)], parent := 0, nlink := 3 }
  | 1 => some { kind := .reg, perm := 0o644, uid := 0, gid := 0, data := [120] }
  | 2 => some { kind := .dir, perm := 0o755, uid := 0, gid := 0, entries := [(sLnk, 3), (sA, 4)], parent := 0, nlink := 3 }
  | 3 => some { kind := .lnk, perm := 0o777, uid := 0, gid := 0, data := sUpSecret }
  | 4 => some { kind := .dir, perm := 0o755, uid := 0, gid := 0, parent := 2, nlink := 2 }
  | _ => none

def demoSent : Obj → Bool
  | 0 | 1 => true
  | _ => false

def demo : State where
  nodes := demoNodes
  next := 5
  hostRoot := 0
  exportRoot := 2
  sent := demoSent
  fds := fun f => if f = 0 then some { obj := 2, flags := O_PATH } else none
  nextFd := 1
  handles := fun _ => none
  nextHandle := 0
  creds := { euid := 0, egid := 0, effFsetid := true, permFsetid := true }

theorem demo_good : Good demo := by
  constructor
  · intro d n nm c hd hs hl
    match d, hd, hs with
    | 2, hd, _ =>
      simp only [demo, demoNodes] at hd; cases hd
      simp only [List.lookup] at hl
      repeat' split at hl
      all_goals first | (cases hl; rfl) | cases hl
    | 3, hd, _ => simp only [demo, demoNodes] at hd; cases hd; simp at hl
    | 4, hd, _ => simp only [demo, demoNodes] at hd; cases hd; simp at hl
    | 0, _, hs => simp [demo, demoSent] at hs
    | 1, _, hs => simp [demo, demoSent] at hs
    | (n + 5), hd, _ => simp [demo, demoNodes] at hd
  · intro d n hd hs hk hne
    match d, hd, hs, hne with
    | 2, _, _, hne => exact absurd rfl hne
    | 3, hd, _, _ => simp only [demo, demoNodes] at hd; cases hd; cases hk
    | 4, hd, _, _ => simp only [demo, demoNodes] at hd; cases hd; rfl
    | 0, _, hs, _ => simp [demo, demoSent] at hs
    | 1, _, hs, _ => simp [demo, demoSent] at hs
    | (n + 5), hd, _, _ => simp [demo, demoNodes] at hd
  · decide
  · rfl
  · intro o ho
    match o, ho with
    | (n + 5), _ => exact ⟨rfl, rfl⟩
    | 0, ho => simp [demo] at ho
    | 1, ho => simp [demo] at ho
    | 2, ho => simp [demo] at ho
    | 3, ho => simp [demo] at ho
    | 4, ho => simp [demo] at ho
  · intro f e he
    simp only [demo] at he
    split at he
    · cases he; rfl
    · cases he
  · intro h o hh; simp [demo] at hh

end Fbr.Host.Ref
