/-
  (β) One upper-layer entry `q = n :: pp` changes, the subtree of the forest at `q` is replaced by
  one fresh (unloaded, childless) node and the loaded parent lists the name.
  (γ) ... or the subtree is dropped and the parent forgets the name.
-/
import Fbr.Ovl
import Fbr.Lemmas.OvlExp
import Fbr.Lemmas.OvlSim
import Fbr.Lemmas.OvlLocal
import Fbr.Lemmas.OvlMut
import Fbr.Lemmas.OvlMutA
import Fbr.Lemmas.OvlEval

namespace Fbr.Ovl

theorem below_cons {q p' : Path} {n' : Name} (h : q.isSuffixOf (n' :: p') = true) (hne : n' :: p' ≠ q) :
    q.isSuffixOf p' = true := by
  have := List.isSuffixOf_iff_suffix.1 h
  rcases List.suffix_cons_iff.1 this with h1 | h1
  · exact absurd h1.symm hne
  · exact List.isSuffixOf_iff_suffix.2 h1

theorem below_of_below {q p' : Path} (n' : Name) (h : q.isSuffixOf p' = true) : q.isSuffixOf (n' :: p') = true :=
  List.isSuffixOf_iff_suffix.2 ((List.isSuffixOf_iff_suffix.1 h).trans (List.suffix_cons n' p'))

theorem not_below_parent (n : Name) (pp : Path) : (n :: pp).isSuffixOf pp = false := by
  cases h : (n :: pp).isSuffixOf pp with
  | false => rfl
  | true =>
    have hl := (List.isSuffixOf_iff_suffix.1 h).length_le
    simp at hl
    omega

theorem below_self (q : Path) : q.isSuffixOf q = true := List.isSuffixOf_iff_suffix.2 (List.suffix_refl q)

theorem insertedMem_apply (mem : Mem) (n : Name) (pp : Path) (pm m' : MNode) (p : Path) :
    insertedMem mem n pp pm m' p =
      if p = pp then some { pm with kids := addNames pm.kids [n] }
      else if p = n :: pp then some m'
      else if (n :: pp).isSuffixOf p then none else mem p := by
  simp only [insertedMem, Mem.set, removeSubtree]

theorem mem_addNames {old : List Name} {n x : Name} : x ∈ addNames old [n] ↔ x ∈ old ∨ x = n := by
  simp only [addNames, List.mem_append, List.mem_filter, List.mem_singleton]
  constructor
  · rintro (⟨h, _⟩ | h)
    · exact Or.inl h
    · exact Or.inr h
  · rintro (h | h)
    · by_cases hx : x = n
      · exact Or.inr hx
      · exact Or.inl ⟨h, by simpa using hx⟩
    · exact Or.inr h

theorem not_below_child {q p : Path} {n' : Name} (h : q.isSuffixOf p = false) (hne : n' :: p ≠ q) :
    q.isSuffixOf (n' :: p) = false := by
  cases hb : q.isSuffixOf (n' :: p) with
  | false => rfl
  | true => rw [below_cons hb hne] at h; cases h

/-- (β) generic re-establishment of the invariant; the upper layer may change anywhere inside the
    subtree at `n :: pp` (which leaves the forest) -/
theorem consistent_insertChild_gen {s : St} (hc : Consistent s) {L L' : Layer} (hup : s.disk.upper = some L)
    (n : Name) (pp : Path) {pm m' : MNode}
    (hpm : s.mem pp = some pm) (hploaded : pm.loaded = true)
    (hfresh : m'.loaded = false ∧ m'.kids = [])
    (hout : ∀ p, (n :: pp).isSuffixOf p = false → L' p = L p) (htree : TreeOK L')
    (H1 : RealsLike m'.reals (localExp (s.disk.setLayer 0 L') pm n))
    (H4 : m'.whiteout = headWhiteout m'.reals)
    (H5 : localExp (s.disk.setLayer 0 L') pm n ≠ [])
    (log' : List Call) :
    Consistent { s with disk := s.disk.setLayer 0 L', mem := insertedMem s.mem n pp pm m', log := log' } := by
  have hl := hc.toLocal
  have hroot0 : ∀ i, (s.disk.setLayer 0 L').nodeAt i [] = s.disk.nodeAt i [] := by
    intro i
    rw [nodeAt_setLayer0]
    split
    · rename_i hi
      rw [hi, hout [] (by simp [List.isSuffixOf])]
      simp [Disk.nodeAt, Disk.layer, hup]
    · rfl
  have hidx : (s.disk.setLayer 0 L').indices = s.disk.indices := by
    simp [Disk.setLayer, Disk.indices, hup]
  have hnpp : (n :: pp).isSuffixOf pp = false := not_below_parent n pp
  have hq_ne_pp : n :: pp ≠ pp := cons_ne_self n pp
  -- reading the new forest
  have hget : ∀ p m0, insertedMem s.mem n pp pm m' p = some m0 →
      (p = pp ∧ m0 = { pm with kids := addNames pm.kids [n] }) ∨ (p = n :: pp ∧ m0 = m') ∨
      (p ≠ pp ∧ p ≠ n :: pp ∧ (n :: pp).isSuffixOf p = false ∧ s.mem p = some m0) := by
    intro p m0 h
    rw [insertedMem_apply] at h
    by_cases h1 : p = pp
    · rw [if_pos h1] at h; cases h; exact Or.inl ⟨h1, rfl⟩
    · rw [if_neg h1] at h
      by_cases h2 : p = n :: pp
      · rw [if_pos h2] at h; cases h; exact Or.inr (Or.inl ⟨h2, rfl⟩)
      · rw [if_neg h2] at h
        cases h3 : (n :: pp).isSuffixOf p with
        | true => rw [h3] at h; simp at h
        | false => rw [h3] at h; simp at h; exact Or.inr (Or.inr ⟨h1, h2, rfl, h⟩)
  apply LConsistent.toConsistent
  refine ⟨?_, ?_, ?_, ?_, ?_, ?_, ?_, ?_, ?_⟩
  · intro i hi
    show ((s.disk.setLayer 0 L').nodeAt i []).isDir = true
    rw [hroot0]
    exact hl.roots i (by rw [← hidx]; exact hi)
  · intro i Li hLi
    show TreeOK Li
    cases i with
    | zero =>
      simp only [Disk.layer, Disk.setLayer, Option.some.injEq] at hLi
      subst hLi
      exact htree
    | succ j => exact hl.trees (j + 1) Li (by simpa [Disk.layer, Disk.setLayer] using hLi)
  · -- root
    obtain ⟨m0, hm0, hr0⟩ := hl.root
    have hrr : (s.disk.setLayer 0 L').indices.map (rootReal (s.disk.setLayer 0 L')) =
        s.disk.indices.map (rootReal s.disk) := by
      rw [hidx]
      apply List.map_congr_left
      intro i _
      simp [rootReal, hroot0]
    by_cases hpp : pp = []
    · subst hpp
      rw [hpm] at hm0; cases hm0
      refine ⟨{ pm with kids := addNames pm.kids [n] }, ?_, ?_⟩
      · show insertedMem s.mem n [] pm m' [] = _
        rw [insertedMem_apply]; simp
      · show RealsLike pm.reals _
        rw [hrr]; exact hr0
    · refine ⟨m0, ?_, ?_⟩
      · show insertedMem s.mem n pp pm m' [] = some m0
        rw [insertedMem_apply, if_neg (Ne.symm hpp), if_neg (by simp)]
        simp [List.isSuffixOf, hm0]
      · show RealsLike m0.reals _
        rw [hrr]; exact hr0
  · -- child
    intro p' pm' n' c hpm' hc'
    show RealsLike c.reals (localExp (s.disk.setLayer 0 L') pm' n')
    rcases hget _ _ hc' with ⟨h1, h2⟩ | ⟨h1, h2⟩ | ⟨h1, h2, h3, h4⟩
    · -- the child is the parent node `pp` (so pp = n' :: p')
      rcases hget _ _ hpm' with ⟨g1, _⟩ | ⟨g1, _⟩ | ⟨g1, g2, g3, g4⟩
      · exact absurd (h1.trans g1.symm) (cons_ne_self n' p')
      · rw [g1] at h1; exact absurd h1 (by intro h; have := congrArg List.length h; simp at this; omega)
      · rw [h2]
        show RealsLike pm.reals _
        rw [localExp_agree s.disk _ pm' n' (agree_outside hc hup _ hout g4 n' g3 (by rw [h1]; exact hnpp))]
        exact hl.child p' pm' n' pm g4 (by rw [h1]; exact hpm)
    · -- the child is the new node
      have hp' : p' = pp := by injection h1
      have hn' : n' = n := by injection h1
      subst hp' hn'
      rcases hget _ _ hpm' with ⟨_, g2⟩ | ⟨g1, _⟩ | ⟨g1, _, _, _⟩
      · rw [h2, g2]
        exact H1
      · exact absurd g1 hq_ne_pp.symm
      · exact absurd rfl g1
    · -- an old child, outside the replaced subtree
      rcases hget _ _ hpm' with ⟨g1, g2⟩ | ⟨g1, _⟩ | ⟨g1, g2, g3, g4⟩
      · -- its parent is `pp`
        subst g1
        rw [g2]
        have hne : n' :: p' ≠ n :: p' := h2
        show RealsLike c.reals (localExp (s.disk.setLayer 0 L') pm n')
        rw [localExp_agree s.disk _ pm n' (agree_outside hc hup _ hout hpm n' hnpp h3)]
        exact hl.child p' pm n' c hpm h4
      · -- its parent would be the new node: then the child is in the subtree
        subst g1
        have := below_of_below n' (below_self (n :: pp))
        rw [this] at h3; cases h3
      · rw [localExp_agree s.disk _ pm' n' (agree_outside hc hup _ hout g4 n' g3 h3)]
        exact hl.child p' pm' n' c g4 h4
  · -- wh
    intro p m0 hm0
    rcases hget _ _ hm0 with ⟨_, h2⟩ | ⟨_, h2⟩ | ⟨_, _, _, h4⟩
    · rw [h2]; exact hl.wh pp pm hpm
    · rw [h2]; exact H4
    · exact hl.wh p m0 h4
  · -- kidsLoaded
    intro p m0 hm0 hlo n'
    show (n' ∈ m0.kids → localExp (s.disk.setLayer 0 L') m0 n' ≠ []) ∧
      (needsNode (localExp (s.disk.setLayer 0 L') m0 n') = true → n' ∈ m0.kids)
    rcases hget _ _ hm0 with ⟨h1, h2⟩ | ⟨_, h2⟩ | ⟨h1, h2, h3, h4⟩
    · subst h1
      rw [h2]
      show (n' ∈ addNames pm.kids [n] → localExp (s.disk.setLayer 0 L') pm n' ≠ []) ∧
        (needsNode (localExp (s.disk.setLayer 0 L') pm n') = true →
          n' ∈ addNames pm.kids [n])
      by_cases hn : n' = n
      · subst hn
        exact ⟨fun _ => H5, fun _ => mem_addNames.2 (Or.inr rfl)⟩
      · have hne : n' :: p ≠ n :: p := by intro h; injection h with h; exact hn h
        rw [localExp_agree s.disk _ pm n' (agree_outside hc hup _ hout hpm n' hnpp (not_below_child hnpp hne))]
        have := hl.kidsLoaded p pm hpm hploaded n'
        refine ⟨fun h => this.1 ?_, fun h => mem_addNames.2 (Or.inl (this.2 h))⟩
        rcases mem_addNames.1 h with h | h
        · exact h
        · exact absurd h hn
    · rw [h2] at hlo; rw [hfresh.1] at hlo; cases hlo
    · have hne : n' :: p ≠ n :: pp := by
        intro h
        have : p = pp := by injection h
        exact h1 this
      rw [localExp_agree s.disk _ m0 n' (agree_outside hc hup _ hout h4 n' h3 (not_below_child h3 hne))]
      exact hl.kidsLoaded p m0 h4 hlo n'
  · -- kidsMem
    intro p m0 n' hm0 hn'
    show ∃ c, insertedMem s.mem n pp pm m' (n' :: p) = some c
    rcases hget _ _ hm0 with ⟨h1, h2⟩ | ⟨_, h2⟩ | ⟨h1, h2, h3, h4⟩
    · subst h1
      rw [h2] at hn'
      rw [insertedMem_apply, if_neg (cons_ne_self n' p)]
      by_cases hn : n' = n
      · subst hn; exact ⟨m', by simp⟩
      · have hne : n' :: p ≠ n :: p := by intro h; injection h with h; exact hn h
        rw [if_neg hne]
        have hin : n' ∈ pm.kids := by
          rcases mem_addNames.1 hn' with h | h
          · exact h
          · exact absurd h hn
        obtain ⟨c, hcm⟩ := hl.kidsMem p pm n' hpm hin
        have : (n :: p).isSuffixOf (n' :: p) = false := by
          cases hb : (n :: p).isSuffixOf (n' :: p) with
          | false => rfl
          | true =>
            have := below_cons hb hne
            rw [not_below_parent] at this; cases this
        rw [this]; exact ⟨c, by simpa using hcm⟩
    · rw [h2, hfresh.2] at hn'; cases hn'
    · obtain ⟨c, hcm⟩ := hl.kidsMem p m0 n' h4 hn'
      rw [insertedMem_apply]
      by_cases g1 : n' :: p = pp
      · rw [if_pos g1]; exact ⟨_, rfl⟩
      · rw [if_neg g1]
        have g2 : n' :: p ≠ n :: pp := by
          intro h
          have : p = pp := by injection h
          exact h1 this
        rw [if_neg g2]
        have : (n :: pp).isSuffixOf (n' :: p) = false := by
          cases hb : (n :: pp).isSuffixOf (n' :: p) with
          | false => rfl
          | true =>
            have := below_cons hb g2
            rw [h3] at this; cases this
        rw [this]; exact ⟨c, by simpa using hcm⟩
  · -- unloaded
    intro p m0 hm0 hlo
    rcases hget _ _ hm0 with ⟨_, h2⟩ | ⟨_, h2⟩ | ⟨_, _, _, h4⟩
    · rw [h2] at hlo; rw [hploaded] at hlo; cases hlo
    · rw [h2]; exact hfresh.2
    · exact hl.unloaded p m0 h4 hlo
  · -- reach
    intro n' p c hc'
    show ∃ pm', insertedMem s.mem n pp pm m' p = some pm' ∧ n' ∈ pm'.kids
    rcases hget _ _ hc' with ⟨h1, _⟩ | ⟨h1, _⟩ | ⟨h1, h2, h3, h4⟩
    · -- the child is `pp` itself
      obtain ⟨pm2, hpm2, hn2⟩ := hl.reach n' p pm (by rw [h1]; exact hpm)
      refine ⟨pm2, ?_, hn2⟩
      rw [insertedMem_apply]
      have g1 : p ≠ pp := by intro h; rw [h] at h1; exact cons_ne_self n' pp h1
      have g2 : p ≠ n :: pp := by
        intro h; rw [h] at h1
        have := congrArg List.length h1
        simp at this
        omega
      rw [if_neg g1, if_neg g2]
      have : (n :: pp).isSuffixOf p = false := by
        cases hb : (n :: pp).isSuffixOf p with
        | false => rfl
        | true =>
          have := below_of_below n' hb
          rw [h1, not_below_parent] at this; cases this
      rw [this]; simpa using hpm2
    · have hp' : p = pp := by injection h1
      have hn' : n' = n := by injection h1
      subst hp' hn'
      exact ⟨{ pm with kids := addNames pm.kids [n'] }, by rw [insertedMem_apply]; simp, mem_addNames.2 (Or.inr rfl)⟩
    · obtain ⟨pm2, hpm2, hn2⟩ := hl.reach n' p c h4
      by_cases g1 : p = pp
      · subst g1
        rw [hpm] at hpm2; cases hpm2
        exact ⟨{ pm with kids := addNames pm.kids [n] }, by rw [insertedMem_apply]; simp, mem_addNames.2 (Or.inl hn2)⟩
      · refine ⟨pm2, ?_, hn2⟩
        rw [insertedMem_apply, if_neg g1]
        have g2 : p ≠ n :: pp := by
          intro h
          rw [h] at h3
          rw [below_of_below n' (below_self (n :: pp))] at h3; cases h3
        rw [if_neg g2]
        have : (n :: pp).isSuffixOf p = false := by
          cases hb : (n :: pp).isSuffixOf p with
          | false => rfl
          | true => rw [below_of_below n' hb] at h3; cases h3
        rw [this]; simpa using hpm2

/-- (β) for a point update of the upper layer -/
theorem consistent_insertChild {s : St} (hc : Consistent s) {L : Layer} (hup : s.disk.upper = some L)
    (n : Name) (pp : Path) (X : Node) {pm m' : MNode}
    (hpm : s.mem pp = some pm) (hploaded : pm.loaded = true)
    (hfresh : m'.loaded = false ∧ m'.kids = [])
    (hstep : HostStep L (L.set (n :: pp) X))
    (H1 : RealsLike m'.reals (localExp (s.disk.setUpper (n :: pp) X) pm n))
    (H4 : m'.whiteout = headWhiteout m'.reals)
    (H5 : localExp (s.disk.setUpper (n :: pp) X) pm n ≠ [])
    (log' : List Call) :
    Consistent { s with disk := s.disk.setUpper (n :: pp) X, mem := insertedMem s.mem n pp pm m', log := log' } := by
  have hd' : s.disk.setUpper (n :: pp) X = s.disk.setLayer 0 (L.set (n :: pp) X) := by
    simp [Disk.setUpper, hup]
  rw [hd'] at H1 H5 ⊢
  refine consistent_insertChild_gen hc hup n pp hpm hploaded hfresh (fun p hp => ?_)
    (hstep.2 (hc.trees 0 L hup)) H1 H4 H5 log'
  simp only [Layer.set]
  rw [if_neg]
  intro h
  rw [h, below_self] at hp
  cases hp

end Fbr.Ovl
