/-
  The mount-table invariant of the VFS model and its preservation by every operation.
-/
import Fbr.Vfs
import Fbr.Persist
import Fbr.Lemmas.VfsAlloc

namespace Fbr.Lemmas.VfsInv
open Fbr.Vfs Fbr.Persist Fbr.Lemmas.VfsAlloc

/-- the invariant on (superblocks, mountpoints, next_super) -/
structure InvT (supers : Nat → Option Bk) (mnts : Nat → Option Mnt) (next : Nat) : Prop where
  next : next < 256
  /-- slot 0 (the pseudo fs index) is never used -/
  zero : supers 0 = none
  range : ∀ i b, supers i = some b → i < 256
  /-- each mount point's slot holds exactly its backend -/
  slot : ∀ p m, mnts p = some m → ∃ b, supers m.idx = some b ∧ b.id = m.bk
  /-- distinct mount points have distinct slots -/
  inj : ∀ p q m n, mnts p = some m → mnts q = some n → m.idx = n.idx → p = q
  /-- every occupied slot belongs to a mount point -/
  occ : ∀ i b, supers i = some b → ∃ p m, mnts p = some m ∧ m.idx = i
  /-- recorded root inode numbers fit 56 bits (`VfsInode::new` cannot panic) -/
  inoOk : ∀ p m, mnts p = some m → m.ino ≤ VFS_MAX_INO

def Inv (s : State) : Prop := InvT s.supers s.mnts s.nextSuper

theorem inv_new (opts : Opts) (rm : Bool) : Inv (State.new opts rm) := by
  refine ⟨by simp [State.new], rfl, ?_, ?_, ?_, ?_, ?_⟩ <;> simp [State.new]

theorem InvT.idx_ne_zero {supers mnts next} (h : InvT supers mnts next) {p m} (hm : mnts p = some m) : m.idx ≠ 0 := by
  obtain ⟨b, hb, _⟩ := h.slot p m hm
  intro h0
  rw [h0, h.zero] at hb
  cases hb

theorem InvT.idx_lt {supers mnts next} (h : InvT supers mnts next) {p m} (hm : mnts p = some m) : m.idx < 256 := by
  obtain ⟨b, hb, _⟩ := h.slot p m hm
  exact h.range _ _ hb

/-- inserting a mount at a vacant non-zero slot (clearing the slot of an over-mounted one) -/
theorem insert_invT {supers mnts next} (h : InvT supers mnts next) (inode idx : Nat) (b : Bk) (m : Mnt)
    (hmi : m.idx = idx) (hmb : m.bk = b.id) (hino : m.ino ≤ VFS_MAX_INO)
    (hvac : supers idx = none) (h0 : idx ≠ 0) (h256 : idx < 256) :
    InvT (upd (match mnts inode with
               | some o => upd supers o.idx none
               | none => supers) idx (some b))
         (upd mnts inode (some m)) next := by
  -- the table after the old occupant of this mount point was dropped
  have hs1 : ∀ i, (match mnts inode with
               | some o => upd supers o.idx none
               | none => supers) i = (if (∃ o, mnts inode = some o ∧ o.idx = i) then none else supers i) := by
    intro i
    cases ho : mnts inode with
    | none => simp
    | some o =>
      simp only [upd]
      by_cases hi : i = o.idx
      · subst hi; simp
      · have : ¬ o.idx = i := fun h => hi h.symm
        simp [hi, this]
  refine ⟨h.next, ?_, ?_, ?_, ?_, ?_, ?_⟩
  · -- zero
    simp only [upd, hs1]
    have : ¬ (0 = idx) := fun h => h0 h.symm
    simp only [this, if_false]
    split
    · rfl
    · exact h.zero
  · -- range
    intro i b' hb'
    simp only [upd, hs1] at hb'
    by_cases hi : i = idx
    · omega
    · simp only [hi, if_false] at hb'
      split at hb'
      · cases hb'
      · exact h.range _ _ hb'
  · -- slot
    intro p m' hm'
    simp only [upd] at hm'
    by_cases hp : p = inode
    · simp only [hp, if_true] at hm'
      cases hm'
      exact ⟨b, by simp [upd, hmi], hmb.symm⟩
    · simp only [hp, if_false] at hm'
      obtain ⟨b', hb', hid⟩ := h.slot p m' hm'
      refine ⟨b', ?_, hid⟩
      have hne : m'.idx ≠ idx := by
        intro he; rw [he, hvac] at hb'; cases hb'
      simp only [upd, hne, if_false, hs1]
      have : ¬ ∃ o, mnts inode = some o ∧ o.idx = m'.idx := by
        rintro ⟨o, ho, hoi⟩
        exact hp (h.inj p inode m' o hm' ho hoi.symm)
      simp only [this, if_false]
      exact hb'
  · -- inj
    intro p q m1 m2 h1 h2 he
    simp only [upd] at h1 h2
    by_cases hp : p = inode <;> by_cases hq : q = inode
    · rw [hp, hq]
    · simp only [hp, if_true] at h1
      simp only [hq, if_false] at h2
      cases h1
      obtain ⟨b', hb', _⟩ := h.slot q m2 h2
      rw [← he, hmi, hvac] at hb'; cases hb'
    · simp only [hq, if_true] at h2
      simp only [hp, if_false] at h1
      cases h2
      obtain ⟨b', hb', _⟩ := h.slot p m1 h1
      rw [he, hmi, hvac] at hb'; cases hb'
    · simp only [hp, if_false] at h1
      simp only [hq, if_false] at h2
      exact h.inj p q m1 m2 h1 h2 he
  · -- occ
    intro i b' hb'
    simp only [upd, hs1] at hb'
    by_cases hi : i = idx
    · exact ⟨inode, m, by simp [upd], by rw [hmi, hi]⟩
    · simp only [hi, if_false] at hb'
      split at hb'
      · cases hb'
      · rename_i hno
        obtain ⟨p, m', hm', hmi'⟩ := h.occ i b' hb'
        have hp : p ≠ inode := by
          intro hp
          exact hno ⟨m', hp ▸ hm', hmi'⟩
        exact ⟨p, m', by simp [upd, hp, hm'], hmi'⟩
  · -- inoOk
    intro p m' hm'
    simp only [upd] at hm'
    by_cases hp : p = inode
    · simp only [hp, if_true] at hm'
      cases hm'; exact hino
    · simp only [hp, if_false] at hm'
      exact h.inoOk p m' hm'

/-- removing a mount point together with its slot -/
theorem remove_invT {supers mnts next} (h : InvT supers mnts next) (inode : Nat) (m : Mnt)
    (hm : mnts inode = some m) :
    InvT (upd supers m.idx none) (upd mnts inode none) next := by
  refine ⟨h.next, ?_, ?_, ?_, ?_, ?_, ?_⟩
  · simp only [upd]; split
    · rfl
    · exact h.zero
  · intro i b hb
    simp only [upd] at hb
    split at hb
    · cases hb
    · exact h.range _ _ hb
  · intro p m' hm'
    simp only [upd] at hm'
    by_cases hp : p = inode
    · simp [hp] at hm'
    · simp only [hp, if_false] at hm'
      obtain ⟨b, hb, hid⟩ := h.slot p m' hm'
      have hne : m'.idx ≠ m.idx := fun he => hp (h.inj p inode m' m hm' hm he)
      exact ⟨b, by simp [upd, hne, hb], hid⟩
  · intro p q m1 m2 h1 h2 he
    simp only [upd] at h1 h2
    by_cases hp : p = inode
    · simp [hp] at h1
    · by_cases hq : q = inode
      · simp [hq] at h2
      · simp only [hp, if_false] at h1
        simp only [hq, if_false] at h2
        exact h.inj p q m1 m2 h1 h2 he
  · intro i b hb
    simp only [upd] at hb
    by_cases hi : i = m.idx
    · simp [hi] at hb
    · simp only [hi, if_false] at hb
      obtain ⟨p, m', hm', hmi'⟩ := h.occ i b hb
      have hp : p ≠ inode := by
        intro hp; rw [hp, hm] at hm'; cases hm'; exact hi hmi'.symm
      exact ⟨p, m', by simp [upd, hp, hm'], hmi'⟩
  · intro p m' hm'
    simp only [upd] at hm'
    by_cases hp : p = inode
    · simp [hp] at hm'
    · simp only [hp, if_false] at hm'
      exact h.inoOk p m' hm'

theorem convertInode_ok_le {idx ino v : Nat} (h : convertInode idx ino = .ok v) : ino ≤ VFS_MAX_INO := by
  unfold convertInode at h
  split at h
  · omega
  · split at h
    · cases h
    · omega

theorem convertEntry_ok_le {s : State} {idx ino : Nat} {e ent : Ent}
    (h : s.convertEntry idx ino e = some (.ok ent)) : ino ≤ VFS_MAX_INO := by
  unfold State.convertEntry at h
  split at h
  · cases h
  · rename_i v hv
    exact convertInode_ok_le hv

/-- `insert_mount_locked` at a vacant non-zero slot preserves the invariant (whatever it returns) -/
theorem insertMountLocked_inv {s s' : State} {b : Bk} {idx : Nat} {path : Name} {r : Except Nat Unit}
    (h : Inv s) (hvac : s.supers idx = none) (h0 : idx ≠ 0) (h256 : idx < 256)
    (hi : s.insertMountLocked b idx path = some (s', r)) : Inv s' := by
  unfold State.insertMountLocked at hi
  split at hi
  · cases hi; exact h
  · split at hi
    · cases hi
    · rename_i p' inode hw
      simp only at hi
      split at hi
      · cases hi
      · cases hi; exact h
      · rename_i ent hce
        cases hi
        exact insert_invT h inode idx b _ rfl rfl (convertEntry_ok_le hce) hvac h0 h256

/-- a successful `insert_mount_locked` leaves the backend in the slot it was given -/
theorem insertMountLocked_ok_supers {s s' : State} {b : Bk} {idx : Nat} {path : Name}
    (hi : s.insertMountLocked b idx path = some (s', .ok ())) : s'.supers idx = some b := by
  unfold State.insertMountLocked at hi
  split at hi
  · cases hi
  · split at hi
    · cases hi
    · simp only at hi
      split at hi
      · cases hi
      · cases hi
      · cases hi
        simp [upd]

/-- a successful `insert_mount_locked` records the slot, the backend and the mapping in force -/
theorem insertMountLocked_ok_record {s s' : State} {b : Bk} {idx : Nat} {path : Name}
    (hi : s.insertMountLocked b idx path = some (s', .ok ())) :
    ∃ p m, s'.mnts p = some m ∧ m.idx = idx ∧ m.bk = b.id ∧ m.map = s.mountMaps idx := by
  unfold State.insertMountLocked at hi
  split at hi
  · cases hi
  · split at hi
    · cases hi
    · rename_i p' inode hw
      simp only at hi
      split at hi
      · cases hi
      · cases hi
      · cases hi
        rename_i ent _
        exact ⟨inode, { idx := idx, ino := b.rootIno, rootEntry := ent, path := path, bk := b.id, map := s.mountMaps idx },
          by simp [upd], rfl, rfl, rfl⟩

theorem inv_of_eq {s t : State} (h : Inv s) (h1 : t.supers = s.supers) (h2 : t.mnts = s.mnts)
    (h3 : t.nextSuper < 256) : Inv t := by
  unfold Inv
  rw [h1, h2]
  exact ⟨h3, h.zero, h.range, h.slot, h.inj, h.occ, h.inoOk⟩

theorem mount_inv {s : State} (h : Inv s) (b : Bk) (path : Name) (map : Option Map) :
    Inv (s.mount b path map).1 := by
  have ha := allocate_spec s h.next
  unfold State.mount
  generalize s.allocateFsIdx = al at ha ⊢
  obtain ⟨s1, r⟩ := al
  obtain ⟨ha1, ha2, ha3, ha4, _⟩ := ha
  simp only at ha1 ha2 ha3 ha4
  have hinv1 : Inv s1 := inv_of_eq h ha2 ha3 ha1
  cases r with
  | none =>
    dsimp only
    repeat' split
    all_goals first | exact h | exact hinv1
  | some idx =>
    obtain ⟨hne, hlt, hvac⟩ := ha4 idx rfl
    have hinv2 : Inv { s1 with mountMaps := upd s1.mountMaps idx map } := hinv1
    have hvac2 : ({ s1 with mountMaps := upd s1.mountMaps idx map } : State).supers idx = none := by
      show s1.supers idx = none; rw [ha2]; exact hvac
    dsimp only
    repeat' split
    all_goals first
      | exact h
      | exact hinv1
      | exact hinv2
      | (apply insertMountLocked_inv hinv2 hvac2 hne hlt; assumption)

/-- the four ways a `mount` can end, as far as the state goes -/
theorem mount_cases (s : State) (hn : s.nextSuper < 256) (b : Bk) (path : Name) (map : Option Map) :
    ((s.mount b path map).1 = s ∧ ∀ i, (s.mount b path map).2.1 ≠ .mounted i) ∨
    (∃ next, next < 256 ∧ (s.mount b path map).1 = { s with nextSuper := next } ∧
        ∀ i, (s.mount b path map).2.1 ≠ .mounted i) ∨
    (∃ next idx, next < 256 ∧ idx ≠ 0 ∧ idx < 256 ∧ s.supers idx = none ∧
        (((s.mount b path map).1 = { s with nextSuper := next, mountMaps := upd s.mountMaps idx map } ∧
            ∀ i, (s.mount b path map).2.1 ≠ .mounted i) ∨
         ∃ s3 r, State.insertMountLocked { s with nextSuper := next, mountMaps := upd s.mountMaps idx map } b idx path = some (s3, r) ∧
           (s.mount b path map).1 = s3 ∧ (∀ i, (s.mount b path map).2.1 = .mounted i ↔ (r = .ok () ∧ i = idx)))) := by
  have ha := allocate_spec s hn
  obtain ⟨next, r, hal⟩ := allocate_eq s
  rw [hal] at ha
  obtain ⟨ha1, _, _, ha4, _⟩ := ha
  simp only at ha1 ha4
  unfold State.mount
  cases hme : b.mountErr with
  | some e => exact Or.inl ⟨rfl, by intro i; simp⟩
  | none =>
    dsimp only
    by_cases hmax : b.maxIno > VFS_MAX_INO
    · rw [if_pos hmax]; exact Or.inl ⟨rfl, by intro i; simp⟩
    · rw [if_neg hmax]
      by_cases hie : s.initialized = true ∧ b.ie ≠ 0
      · rw [if_pos hie]; exact Or.inl ⟨rfl, by intro i; simp⟩
      · rw [if_neg hie, hal]
        cases r with
        | none => exact Or.inr (Or.inl ⟨next, ha1, rfl, by intro i; simp⟩)
        | some idx =>
          obtain ⟨hne, hlt, hvac⟩ := ha4 idx rfl
          refine Or.inr (Or.inr ⟨next, idx, ha1, hne, hlt, hvac, ?_⟩)
          dsimp only
          generalize hins : State.insertMountLocked _ b idx path = ins
          cases ins with
          | none => exact Or.inl ⟨rfl, by intro i; simp⟩
          | some x =>
            obtain ⟨s3, er⟩ := x
            cases er with
            | error n =>
              refine Or.inr ⟨s3, .error n, rfl, rfl, ?_⟩
              intro i; simp
            | ok u =>
              refine Or.inr ⟨s3, .ok u, rfl, rfl, ?_⟩
              intro i
              simp only [Res.mounted.injEq, true_and]
              exact ⟨fun h => h.symm, fun h => h.symm⟩

/-- the two ways a `umount` can end, as far as the state goes -/
theorem umount_cases (s : State) (path : Name) :
    (s.umount path).1 = s ∨
    ∃ inode m pseudo, s.mnts inode = some m ∧
      (s.rmRoot = false → pseudo = s.pseudo) ∧
      (s.umount path).1 = { s with pseudo := pseudo, mnts := upd s.mnts inode none,
                                   supers := upd s.supers m.idx none, mountMaps := upd s.mountMaps m.idx none } := by
  unfold State.umount
  dsimp only
  repeat' split
  all_goals first
    | exact Or.inl rfl
    | (refine Or.inr ⟨_, _, _, ?_, ?_, rfl⟩
       · assumption
       · intro hr; simp_all)

theorem umount_inv {s : State} (h : Inv s) (path : Name) : Inv (s.umount path).1 := by
  unfold State.umount
  dsimp only
  repeat' split
  all_goals first
    | exact h
    | (apply remove_invT h; assumption)

theorem init_inv {s : State} (h : Inv s) (opts : Nat) : Inv (s.init opts).1 := by
  unfold State.init
  split
  · exact h
  · simp only
    split <;> exact h

theorem destroy_inv {s : State} (h : Inv s) : Inv (s.destroy).1 := by
  unfold State.destroy
  split <;> exact h

end Fbr.Lemmas.VfsInv
