/-
  (B) `import` gives a consistent forest, and every non-modifying operation (lookup, readdir,
  read, readlink, getxattr, walk) keeps it consistent and leaves the disk alone.
-/
import Fbr.Ovl
import Fbr.Lemmas.OvlHoare
import Fbr.Lemmas.OvlInv
import Fbr.Lemmas.OvlSim
import Fbr.Lemmas.OvlSimLookup

namespace Fbr.Ovl

theorem importSt0_consistent (d : Disk) (hr : d.RootsOK) (ht : d.TreesOK) : Consistent (importSt0 d) := by
  refine ⟨hr, ht, ⟨{ reals := d.indices.map (rootReal d), whiteout := false, loaded := false, kids := [] }, by simp [importSt0]⟩, ?_, ?_, ?_, ?_, ?_, ?_⟩
  · intro p m hm
    simp only [importSt0] at hm
    split at hm
    · rename_i hp; subst hp; cases hm; exact Or.inl rfl
    · cases hm
  · intro p m hm
    simp only [importSt0] at hm
    split at hm
    · cases hm
      cases h : d.indices <;> simp [headWhiteout, rootReal]
    · cases hm
  · intro p m hm hl
    simp only [importSt0] at hm
    split at hm
    · cases hm; cases hl
    · cases hm
  · intro p m n hm hn
    simp only [importSt0] at hm
    split at hm
    · cases hm; cases hn
    · cases hm
  · intro p m hm _
    simp only [importSt0] at hm
    split at hm
    · cases hm; rfl
    · cases hm
  · intro n p c hm
    simp [importSt0] at hm

/-- loading keeps the forest consistent and the disk unchanged, whether it succeeds or not -/
theorem loadDirectory_cd (d : Disk) (p : Path) : Triple (CD d) (loadDirectory p) (fun _ => CD d) (CD d) := by
  intro s hs
  obtain ⟨hc, rfl⟩ := hs
  cases hm : s.mem p with
  | none =>
    refine ⟨fun a s' h => ?_, fun e s' h => ?_⟩ <;> simp [loadDirectory, bind, M.bind, getNode, hm] at h
    obtain ⟨_, rfl⟩ := h; exact ⟨hc, rfl⟩
  | some m =>
    by_cases hl : m.loaded = true
    · refine ⟨fun a s' h => ?_, fun e s' h => ?_⟩ <;>
        simp [loadDirectory, bind, M.bind, getNode, hm, hl, pure, M.pure] at h
      subst h; exact ⟨hc, rfl⟩
    · simp only [Bool.not_eq_true] at hl
      have hst := nodeStat_eq hc hm
      cases hr : m.reals with
      | nil =>
        rw [hr] at hst
        refine ⟨fun a s' h => ?_, fun e s' h => ?_⟩ <;>
          simp [loadDirectory, bind, M.bind, getNode, hm, hl, hst] at h
        obtain ⟨_, rfl⟩ := h; exact ⟨hc, rfl⟩
      | cons r rest =>
        by_cases hd : (s.disk.statReal r).isDir = true
        · obtain ⟨s', hld, hc', hd', _⟩ := loadDirectory_ok hc hm hr hd
          refine ⟨fun a s'' h => ?_, fun e s'' h => ?_⟩ <;> rw [hld] at h <;> cases h
          exact ⟨hc', hd'⟩
        · simp only [Bool.not_eq_true] at hd
          rw [hr] at hst
          refine ⟨fun a s' h => ?_, fun e s' h => ?_⟩ <;>
            simp [loadDirectory, bind, M.bind, getNode, hm, hl, hst, hd, fail] at h
          obtain ⟨_, rfl⟩ := h; exact ⟨hc, rfl⟩

/-- `import` gives a consistent forest over the same disk -/
theorem import_consistent (d : Disk) (hr : d.RootsOK) (ht : d.TreesOK) :
    Consistent (importFs d) ∧ (importFs d).disk = d := by
  rw [importFs_eq]
  exact (loadDirectory_cd d []).st (s := importSt0 d) ⟨importSt0_consistent d hr ht, rfl⟩

/-! ### read-only functions keep any predicate that loading keeps -/

section ReadOnly
variable {P : St → Prop} (hload : ∀ p, Triple P (loadDirectory p) (fun _ => P) P)
include hload

omit hload in
theorem getNode_ro (p : Path) : Triple P (getNode p) (fun _ => P) P := by
  intro s hs
  refine ⟨fun a s' h => ?_, fun e s' h => ?_⟩ <;> unfold getNode at h <;> split at h <;> cases h <;> exact hs

omit hload in
theorem nodeStat_ro (m : MNode) : Triple P (nodeStat m) (fun _ => P) P := by
  intro s hs
  refine ⟨fun a s' h => ?_, fun e s' h => ?_⟩ <;> unfold nodeStat at h <;> split at h <;> cases h <;> exact hs

theorem lookupSelf_ro (p : Path) : Triple P (lookupSelf p) (fun _ => P) P := by
  unfold lookupSelf
  refine Triple.bind (getNode_ro p) fun m => ?_
  refine Triple.ite' (fun _ => Triple.fail' fun _ h => h) fun _ => ?_
  refine Triple.bind (nodeStat_ro m) fun st => ?_
  refine Triple.bind (Q := fun _ => P) (Triple.whenM' (fun _ => hload p) fun _ _ h => h) fun _ => ?_
  exact getNode_ro p

theorem lookupNode_ro (pp : Path) (n : Name) : Triple P (lookupNode pp n) (fun _ => P) P := by
  unfold lookupNode
  refine Triple.bind (lookupSelf_ro hload pp) fun pm => ?_
  exact Triple.ite' (fun _ => getNode_ro _) (fun _ => Triple.fail' fun _ h => h)

theorem doLookup_ro (pp : Path) (n : Name) : Triple P (doLookup pp n) (fun _ => P) P := by
  unfold doLookup
  refine Triple.bind (lookupNode_ro hload pp n) fun m => ?_
  refine Triple.ite' (fun _ => Triple.fail' fun _ h => h) fun _ => ?_
  refine Triple.bind (nodeStat_ro m) fun st => ?_
  refine Triple.bind (Q := fun _ => P) (Triple.whenM' (fun _ => hload _) fun _ _ h => h) fun _ => ?_
  exact Triple.pure' fun _ h => h

theorem rootStat_ro : Triple P rootStat (fun _ => P) P := by
  unfold rootStat
  refine Triple.bind (lookupSelf_ro hload []) fun m => ?_
  exact nodeStat_ro m

theorem resolveFrom_ro : ∀ (l : List Name) (cur : Path) (st : Node),
    Triple P (resolveFrom cur st l) (fun _ => P) P
  | [], cur, st => by
    unfold resolveFrom
    exact Triple.pure' fun _ h => h
  | n :: rest, cur, st => by
    unfold resolveFrom
    refine Triple.ite' (fun _ => Triple.fail' fun _ h => h) fun _ => ?_
    refine Triple.bind (doLookup_ro hload cur n) fun st' => ?_
    exact resolveFrom_ro rest (n :: cur) st'

theorem resolve_ro (p : List Name) : Triple P (resolve p) (fun _ => P) P := by
  unfold resolve
  refine Triple.bind (rootStat_ro hload) fun st => ?_
  exact resolveFrom_ro hload p [] st

theorem firstReal_ro (p : Path) : Triple P (firstReal p) (fun _ => P) P := by
  unfold firstReal
  refine Triple.bind (getNode_ro p) fun m => ?_
  split
  · exact Triple.pure' fun _ h => h
  · exact Triple.fail' fun _ h => h

theorem listDir_ro (p : Path) : Triple P (listDir p) (fun _ => P) P := by
  unfold listDir
  refine Triple.bind (lookupSelf_ro hload p) fun m => ?_
  refine Triple.ite' (fun _ => Triple.fail' fun _ h => h) fun _ => ?_
  refine Triple.bind (nodeStat_ro m) fun st => ?_
  refine Triple.ite' (fun _ => Triple.fail' fun _ h => h) fun _ => ?_
  refine Triple.bind (Q := fun _ => P) (Triple.getSt' fun _ h => h) fun s0 => ?_
  exact Triple.pure' fun _ h => h

theorem viewOf_ro (p : Path) : Triple P (viewOf p) (fun _ => P) P := by
  unfold viewOf
  refine Triple.bind (firstReal_ro hload p) fun r => ?_
  refine Triple.bind (Q := fun _ => P) (Triple.getSt' fun _ h => h) fun s0 => ?_
  exact Triple.pure' fun _ h => h

theorem walkFrom_ro : ∀ (fuel : Nat) (p : Path), Triple P (walkFrom fuel p) (fun _ => P) P
  | 0, p => by
    unfold walkFrom
    refine Triple.bind (viewOf_ro hload p) fun v => ?_
    exact Triple.pure' fun _ h => h
  | fuel + 1, p => by
    unfold walkFrom
    refine Triple.bind (viewOf_ro hload p) fun v => ?_
    split
    · refine Triple.bind (listDir_ro hload p) fun ns => ?_
      refine Triple.bind (Triple.mapNames' (fun n => ?_) ns) fun subs => ?_
      · refine Triple.bind (doLookup_ro hload p n) fun _ => ?_
        exact walkFrom_ro fuel (n :: p)
      · exact Triple.pure' fun _ h => h
    · exact Triple.pure' fun _ h => h

theorem doOpen_ro (p : Path) : Triple P (doOpen p false false) (fun _ => P) P := by
  unfold doOpen
  refine Triple.bind (lookupSelf_ro hload p) fun m => ?_
  refine Triple.ite' (fun _ => Triple.fail' fun _ h => h) fun _ => ?_
  simp only [whenM, Bool.false_eq_true, if_false]
  refine Triple.bind (Q := fun _ => P) (Triple.pure' fun _ h => h) fun _ => ?_
  refine Triple.bind (firstReal_ro hload p) fun r => ?_
  refine Triple.bind (Q := fun _ => P) (Triple.pure' fun _ h => h) fun _ => ?_
  exact Triple.pure' fun _ h => h

omit hload in
theorem kindGuard_ro {α : Type} (k : Kind) (e1 e2 e3 : Nat) (body : M α)
    (hb : Triple P body (fun _ => P) P) :
    Triple P (match k with | .d => fail e1 | .l => fail e2 | .o => fail e3 | .f => body) (fun _ => P) P := by
  cases k
  · exact Triple.fail' fun _ h => h
  · exact hb
  · exact Triple.fail' fun _ h => h
  · exact Triple.fail' fun _ h => h

/-- every non-modifying operation keeps `P` -/
theorem runOp_ro (op : Op) (hm : op.isModifying = false) : Triple P (runOp op) (fun _ => P) P := by
  cases op with
  | lookup p =>
    unfold runOp
    refine Triple.bind (resolve_ro hload p) fun r => ?_
    exact Triple.pure' fun _ h => h
  | readdir p =>
    unfold runOp
    refine Triple.bind (resolve_ro hload p) fun r => ?_
    obtain ⟨path, st⟩ := r
    refine Triple.ite' (fun _ => Triple.fail' fun _ h => h) fun _ => ?_
    refine Triple.bind (listDir_ro hload path) fun _ => ?_
    exact Triple.pure' fun _ h => h
  | read p =>
    unfold runOp
    refine Triple.bind (resolve_ro hload p) fun r => ?_
    obtain ⟨path, st⟩ := r
    refine kindGuard_ro _ _ _ _ _ ?_
    refine Triple.bind (doOpen_ro hload path) fun r => ?_
    refine Triple.bind (Q := fun _ => P) (Triple.getSt' fun _ h => h) fun s0 => ?_
    split
    · exact Triple.pure' fun _ h => h
    · exact Triple.fail' fun _ h => h
  | readlink p =>
    unfold runOp
    refine Triple.bind (resolve_ro hload p) fun r => ?_
    obtain ⟨path, st⟩ := r
    refine Triple.ite' (fun _ => Triple.fail' fun _ h => h) fun _ => ?_
    refine Triple.bind (lookupSelf_ro hload path) fun m => ?_
    refine Triple.ite' (fun _ => Triple.fail' fun _ h => h) fun _ => ?_
    refine Triple.bind (firstReal_ro hload path) fun r => ?_
    refine Triple.bind (Q := fun _ => P) (Triple.getSt' fun _ h => h) fun s0 => ?_
    split
    · exact Triple.pure' fun _ h => h
    · exact Triple.fail' fun _ h => h
  | getx p =>
    unfold runOp
    refine Triple.bind (resolve_ro hload p) fun r => ?_
    obtain ⟨path, st⟩ := r
    refine Triple.ite' (fun _ => Triple.fail' fun _ h => h) fun _ => ?_
    refine Triple.bind (lookupSelf_ro hload path) fun m => ?_
    refine Triple.ite' (fun _ => Triple.fail' fun _ h => h) fun _ => ?_
    refine Triple.bind (firstReal_ro hload path) fun r => ?_
    refine Triple.bind (Q := fun _ => P) (Triple.getSt' fun _ h => h) fun s0 => ?_
    exact Triple.pure' fun _ h => h
  | walk =>
    unfold runOp
    refine Triple.bind (rootStat_ro hload) fun _ => ?_
    refine Triple.bind (walkFrom_ro hload _ _) fun _ => ?_
    exact Triple.pure' fun _ h => h
  | «open» p fl =>
    have hfl : fl = .r := by cases fl <;> simp_all [Op.isModifying, OFlag.isWrite]
    subst hfl
    unfold runOp
    refine Triple.bind (resolve_ro hload p) fun r => ?_
    obtain ⟨path, st⟩ := r
    refine kindGuard_ro _ _ _ _ _ ?_
    refine Triple.bind (doOpen_ro hload path) fun r => ?_
    exact Triple.pure' fun _ h => h
  | create p mode => simp [Op.isModifying] at hm
  | mkdir p mode => simp [Op.isModifying] at hm
  | mknod p mode => simp [Op.isModifying] at hm
  | symlink p t => simp [Op.isModifying] at hm
  | link src dst => simp [Op.isModifying] at hm
  | unlink p => simp [Op.isModifying] at hm
  | rmdir p => simp [Op.isModifying] at hm
  | write p fl off data => simp [Op.isModifying] at hm
  | chmod p mode => simp [Op.isModifying] at hm
  | truncate p n => simp [Op.isModifying] at hm
  | setx p v => simp [Op.isModifying] at hm
  | rmx p => simp [Op.isModifying] at hm

end ReadOnly

/-- non-modifying operations keep the forest consistent over the same disk -/
theorem runOp_ro_cd (d : Disk) (op : Op) (hm : op.isModifying = false) :
    Triple (CD d) (runOp op) (fun _ => CD d) (CD d) :=
  runOp_ro (loadDirectory_cd d) op hm

theorem run_ro_cd (d : Disk) (ops : List Op) (hops : ∀ op ∈ ops, op.isModifying = false) :
    ∀ s, CD d s → CD d (run s ops) := by
  induction ops with
  | nil => exact fun _ h => h
  | cons op rest ih =>
    intro s hs
    exact ih (fun o ho => hops o (List.mem_cons_of_mem _ ho)) _
      ((runOp_ro_cd d op (hops op (by simp))).st hs)

/-! ### layer roots stay directories along every history -/

theorem indices_setLayer0 {d : Disk} {L L' : Layer} (h : d.upper = some L) :
    (d.setLayer 0 L').indices = d.indices := by
  simp [Disk.setLayer, Disk.indices, h]

def rootsSpec : InvSpec where
  φ r := r.inUpper = true → r.layer = 0
  ψ _ := True
  D d := d.RootsOK ∧ d.TreesOK
  child r c h hl hu := by intro hc; rw [hl]; exact h (hu ▸ hc)
  call _ _ _ _ := trivial
  disk r L L' d h hu hd hL hk := by
    have h0 : r.layer = 0 := h hu
    rw [h0] at hL ⊢
    have hup : d.upper = some L := hL
    refine ⟨?_, ?_⟩
    · intro i hi
      rw [indices_setLayer0 hup] at hi
      cases i with
      | zero =>
        have := hd.1 0 hi
        simp only [Disk.nodeAt, Disk.layer, hup] at this
        simpa [Disk.nodeAt, Disk.layer, Disk.setLayer] using hk.1 this
      | succ j =>
        have := hd.1 (j + 1) hi
        simpa [Disk.nodeAt, Disk.layer, Disk.setLayer] using this
    · intro i Li hLi
      cases i with
      | zero =>
        simp only [Disk.layer, Disk.setLayer, Option.some.injEq] at hLi
        subst hLi
        exact hk.2 (hd.2 0 L hL)
      | succ j =>
        exact hd.2 (j + 1) Li (by simpa [Disk.layer, Disk.setLayer] using hLi)

/-- the layers stay well-formed (roots are directories, every layer is a tree) after every history -/
theorem run_wf (d : Disk) (hr : d.RootsOK) (ht : d.TreesOK) (ops : List Op) :
    (run (importFs d) ops).disk.RootsOK ∧ (run (importFs d) ops).disk.TreesOK := by
  have h0 : GInv rootsSpec (importFs d) := by
    refine import_inv _ d (fun i _ => ?_) ⟨hr, ht⟩
    intro h
    simpa [rootReal] using h
  exact (run_inv (I := rootsSpec) ops _ h0).2.2

end Fbr.Ovl
