/-
  Helper lemmas for C04: reader operations never modify memory, never touch the fuse descriptor
  and never write — unconditionally (no hypothesis on the cursor).  Used for the FuseDevWriter
  invariants, where a `Reader` over the request buffer lives next to the writers.
-/
import Fbr.Lemmas.XportLog

namespace Fbr.Xport

/-- the world afterwards has the same memory, descriptor records and write log -/
def KeepW (w w' : World) : Prop := w'.mem = w.mem ∧ w'.fd = w.fd ∧ wrAddrs w'.log = wrAddrs w.log

theorem KeepW.refl (w : World) : KeepW w w := ⟨rfl, rfl, rfl⟩

theorem KeepW.trans {a b c : World} (h1 : KeepW a b) (h2 : KeepW b c) : KeepW a c :=
  ⟨h2.1.trans h1.1, h2.2.1.trans h1.2.1, h2.2.2.trans h1.2.2⟩

theorem copyOut_keep (w : World) (bufs : List Seg) (n : Nat) : KeepW w (copyOut w bufs n).1 := by
  have h := copyOut_spec w bufs n
  exact ⟨h.2.1, h.1.fd, h.2.2.1⟩

theorem sinkCall_keep (s : Script) (w : World) (bufs : List Seg) : KeepW w (s.sinkCall w bufs).2.1 := by
  unfold Script.sinkCall Script.pop
  cases s.answers with
  | nil => exact copyOut_keep _ _ _
  | cons a rest =>
    cases a with
    | err => exact KeepW.refl w
    | intr => exact KeepW.refl w
    | n k => exact copyOut_keep _ _ _

theorem writeVectored_keep (s : Script) (w : World) (bufs : List Seg) (at_ : Bool) :
    KeepW w (s.writeVectored w bufs at_).2.1 := by
  unfold Script.writeVectored
  cases s.kind with
  | full => exact sinkCall_keep s w bufs
  | dflt =>
    simp only
    cases at_ with
    | true =>
      simp only [if_true]
      cases bufs with
      | nil => exact KeepW.refl w
      | cons b rest => exact sinkCall_keep s w [b]
    | false =>
      simp only [Bool.false_eq_true, if_false]
      cases bufs.find? (fun b => b.len ≠ 0) with
      | none => exact KeepW.refl w
      | some b => exact sinkCall_keep s w [b]

theorem consume_keep {β : Type} (b : IoBufs) (w : World) (md : Bool) (count : Nat) (aux0 : β)
    (f : World → List Seg → Except IoErr Nat × World × β)
    (hf : KeepW w (f w (allocate b.segs count)).2.1) : KeepW w (consume b w md count aux0 f).w := by
  unfold consume
  by_cases he : (allocate b.segs count).isEmpty = true
  · simp only [he, if_true]; exact KeepW.refl w
  · simp only [he, Bool.false_eq_true, if_false]
    generalize f w (allocate b.segs count) = r at hf
    obtain ⟨res, w1, a⟩ := r
    simp only at hf
    cases res with
    | error e => exact hf
    | ok n =>
      simp only
      have hk : KeepW w (if md = true then markDirty w1 b.segs n else w1) := by
        cases md
        · exact hf
        · exact hf
      cases b.markUsed n <;> exact hk

theorem read_keep (b : IoBufs) (w : World) (n : Nat) : KeepW w (Reader.read b w n).w := by
  unfold Reader.read
  exact consume_keep b w false n [] _ (copyOut_keep _ _ _)

theorem readExact_keep (fuel : Nat) (b : IoBufs) (w : World) (n : Nat) (acc : Bytes) :
    KeepW w (Reader.readExact fuel b w n acc).w := by
  induction fuel generalizing b w n acc with
  | zero => exact KeepW.refl w
  | succ fuel ih =>
    unfold Reader.readExact
    by_cases h0 : n = 0
    · simp only [h0, if_true]; exact KeepW.refl w
    · simp only [h0, if_false]
      have h1 := read_keep b w n
      split
      · exact h1
      · exact h1.trans (ih _ _ _ _)
      · exact h1.trans (ih _ _ _ _)
      · exact h1

theorem readObj_keep (b : IoBufs) (w : World) (n : Nat) : KeepW w (Reader.readObj b w n).w :=
  readExact_keep _ b w n []

theorem readTo_keep (b : IoBufs) (w : World) (dst : Script) (count : Nat) (at_ : Bool) :
    KeepW w (Reader.readTo b w dst count at_).w := by
  unfold Reader.readTo
  exact consume_keep b w false count dst _ (writeVectored_keep dst w _ at_)

theorem readExactTo_keep (fuel : Nat) (b : IoBufs) (w : World) (dst : Script) (count : Nat) :
    KeepW w (Reader.readExactTo fuel b w dst count).w := by
  induction fuel generalizing b w dst count with
  | zero => exact KeepW.refl w
  | succ fuel ih =>
    unfold Reader.readExactTo
    by_cases h0 : count = 0
    · simp only [h0, if_true]; exact KeepW.refl w
    · simp only [h0, if_false]
      have h1 := readTo_keep b w dst count false
      split
      · exact h1
      · exact h1.trans (ih _ _ _ _)
      · exact h1.trans (ih _ _ _ _)
      · exact h1

end Fbr.Xport
