/-
  Fbr.Lemmas.SrvDirty — the dirty-page prediction of the srv stage (`Fbr.SrvShow.dirtyPages`)
  is exactly "the pages holding the first `n` byte addresses of the writable descriptors".
-/
import Fbr.SrvShow

namespace Fbr.SrvShow

/-- byte addresses of one descriptor `(address, length)` -/
def descAddrs (d : Nat × Nat) : List Nat := (List.range d.2).map (d.1 + ·)

/-- byte addresses of the reply area, in the order the writer fills them -/
def areaAddrs (segs : List (Nat × Nat)) : List Nat := segs.flatMap descAddrs

/-- the fold of `dirtyPages`, as a recursion -/
def pagesGo : Nat → List (Nat × Nat) → List Nat
  | _, [] => []
  | rem, (a, l) :: rest =>
    let k := min rem l
    if k == 0 then pagesGo rem rest
    else (List.range ((a + k - 1) / 4096 - a / 4096 + 1)).map (· + a / 4096) ++ pagesGo (rem - k) rest

theorem foldl_pages_eq (segs : List (Nat × Nat)) (rem : Nat) (ps : List Nat) :
    (segs.foldl (fun (acc : Nat × List Nat) (x : Nat × Nat) =>
      match x with
      | (a, l) =>
        match acc with
        | (rem, ps) =>
          let k := min rem l
          if k == 0 then (rem, ps)
          else (rem - k, ps ++ (List.range ((a + k - 1) / 4096 - a / 4096 + 1)).map (· + a / 4096))) (rem, ps)).2
      = ps ++ pagesGo rem segs := by
  induction segs generalizing rem ps with
  | nil => simp [pagesGo]
  | cons s rest ih =>
    obtain ⟨a, l⟩ := s
    simp only [List.foldl_cons, pagesGo]
    by_cases h : (min rem l == 0) = true
    · rw [if_pos h, if_pos h]; exact ih rem ps
    · rw [if_neg h, if_neg h, ih]; simp [List.append_assoc]

theorem mem_dedupe (ps init : List Nat) (x : Nat) :
    x ∈ ps.foldl (fun acc p => if acc.contains p then acc else acc ++ [p]) init ↔ x ∈ init ∨ x ∈ ps := by
  induction ps generalizing init with
  | nil => simp
  | cons p rest ih =>
    simp only [List.foldl_cons]
    rw [ih]
    by_cases hc : init.contains p = true
    · rw [if_pos hc]
      simp only [List.mem_cons]
      have : p ∈ init := by simpa using hc
      constructor
      · rintro (h | h)
        · exact Or.inl h
        · exact Or.inr (Or.inr h)
      · rintro (h | h | h)
        · exact Or.inl h
        · exact Or.inl (h ▸ this)
        · exact Or.inr h
    · rw [if_neg hc]
      simp only [List.mem_append, List.mem_cons, List.not_mem_nil, or_false]
      constructor
      · rintro ((h | h) | h)
        · exact Or.inl h
        · exact Or.inr (Or.inl h)
        · exact Or.inr (Or.inr h)
      · rintro (h | h | h)
        · exact Or.inl (Or.inl h)
        · exact Or.inl (Or.inr h)
        · exact Or.inr h

/-- the page range of `k > 0` bytes at `a` is exactly the set of pages of those bytes -/
theorem mem_pageRange (a k x : Nat) (hk : 0 < k) :
    x ∈ (List.range ((a + k - 1) / 4096 - a / 4096 + 1)).map (· + a / 4096) ↔
      ∃ i, i < k ∧ (a + i) / 4096 = x := by
  simp only [List.mem_map, List.mem_range]
  constructor
  · rintro ⟨j, hj, rfl⟩
    by_cases h0 : j = 0
    · exact ⟨0, hk, by subst h0; omega⟩
    · exact ⟨(j + a / 4096) * 4096 - a, by omega, by omega⟩
  · rintro ⟨i, hi, rfl⟩
    exact ⟨(a + i) / 4096 - a / 4096, by omega, by omega⟩

theorem take_areaAddrs_cons (a l n : Nat) (rest : List (Nat × Nat)) :
    (areaAddrs ((a, l) :: rest)).take n =
      (List.range (min n l)).map (a + ·) ++ (areaAddrs rest).take (n - min n l) := by
  unfold areaAddrs
  rw [List.flatMap_cons, List.take_append]
  have hlen : (descAddrs (a, l)).length = l := by simp [descAddrs]
  rw [hlen]
  have h1 : (descAddrs (a, l)).take n = (List.range (min n l)).map (a + ·) := by
    simp [descAddrs, ← List.map_take, List.take_range]
  have h2 : n - l = n - min n l := by omega
  rw [h1, h2]

theorem mem_pagesGo (segs : List (Nat × Nat)) (n x : Nat) :
    x ∈ pagesGo n segs ↔ ∃ a ∈ (areaAddrs segs).take n, a / 4096 = x := by
  induction segs generalizing n with
  | nil => simp [pagesGo, areaAddrs]
  | cons s rest ih =>
    obtain ⟨a, l⟩ := s
    rw [take_areaAddrs_cons]
    simp only [pagesGo]
    by_cases h : (min n l == 0) = true
    · have h0 : min n l = 0 := by simpa using h
      rw [if_pos h]
      simp only [h0, List.range_zero, List.map_nil, List.nil_append, Nat.sub_zero]
      exact ih n
    · have hpos : 0 < min n l := by
        have : min n l ≠ 0 := by simpa using h
        omega
      rw [if_neg h]
      simp only [List.mem_append]
      rw [mem_pageRange a (min n l) x hpos, ih]
      constructor
      · rintro (⟨i, hi, e⟩ | ⟨b, hb, e⟩)
        · exact ⟨a + i, Or.inl (by simp only [List.mem_map, List.mem_range]; exact ⟨i, hi, rfl⟩), e⟩
        · exact ⟨b, Or.inr hb, e⟩
      · rintro ⟨b, hb | hb, e⟩
        · simp only [List.mem_map, List.mem_range] at hb
          obtain ⟨i, hi, rfl⟩ := hb
          exact Or.inl ⟨i, hi, e⟩
        · exact Or.inr ⟨b, hb, e⟩

/-- **what the srv stage predicts as dirty is exactly the set of 4 KiB pages holding the first
    `n` byte addresses of the writable descriptors, in chain order** -/
theorem mem_dirtyPages (segs : List (Nat × Nat)) (n x : Nat) :
    x ∈ dirtyPages segs n ↔ ∃ a ∈ (areaAddrs segs).take n, a / 4096 = x := by
  unfold dirtyPages
  simp only [List.mem_mergeSort]
  rw [mem_dedupe]
  simp only [List.not_mem_nil, false_or]
  have := foldl_pages_eq segs n []
  simp only [List.nil_append] at this
  rw [← mem_pagesGo]
  rw [← this]

end Fbr.SrvShow
