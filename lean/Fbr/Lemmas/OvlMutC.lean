/-
  (γ) One upper-layer entry `q = n :: pp` changes (or not), the subtree of the forest at `q` is
  dropped and the parent forgets the name — allowed when nothing that needs a node is left there.
-/
import Fbr.Ovl
import Fbr.Lemmas.OvlExp
import Fbr.Lemmas.OvlSim
import Fbr.Lemmas.OvlLocal
import Fbr.Lemmas.OvlMut
import Fbr.Lemmas.OvlMutA
import Fbr.Lemmas.OvlMutB
import Fbr.Lemmas.OvlEval

namespace Fbr.Ovl

theorem removedMem_apply (mem : Mem) (n : Name) (pp : Path) (pm : MNode) (p : Path) :
    removedMem mem n pp pm p =
      if p = pp then some { pm with kids := pm.kids.filter (· != n) }
      else if (n :: pp).isSuffixOf p then none else mem p := by
  simp only [removedMem, Mem.set, removeSubtree]

theorem mem_filter_ne {l : List Name} {n x : Name} : x ∈ l.filter (· != n) ↔ x ∈ l ∧ x ≠ n := by
  simp [List.mem_filter]

/-- (γ) generic re-establishment of the invariant; the upper layer may change anywhere inside the
    subtree at `n :: pp` (which leaves the forest) -/
theorem consistent_removeChild_gen {s : St} (hc : Consistent s) {L L' : Layer} (hup : s.disk.upper = some L)
    (n : Name) (pp : Path) {pm : MNode} (hpm : s.mem pp = some pm)
    (hout : ∀ p, (n :: pp).isSuffixOf p = false → L' p = L p) (htree : TreeOK L')
    (H : needsNode (localExp (s.disk.setLayer 0 L') pm n) = false)
    (log' : List Call) :
    Consistent { s with disk := s.disk.setLayer 0 L', mem := removedMem s.mem n pp pm, log := log' } := by
  have hl := hc.toLocal
  have hroot0 : ∀ i, (s.disk.setLayer 0 L').nodeAt i [] = s.disk.nodeAt i [] := by
    intro i
    rw [nodeAt_setLayer0]
    split
    · rename_i hi
      rw [hi, hout [] (by simp [List.isSuffixOf])]
      simp [Disk.nodeAt, Disk.layer, hup]
    · rfl
  have hidx : (s.disk.setLayer 0 L').indices = s.disk.indices := by
    simp [Disk.setLayer, Disk.indices, hup]
  have hnpp : (n :: pp).isSuffixOf pp = false := not_below_parent n pp
  have hq_ne_pp : n :: pp ≠ pp := cons_ne_self n pp
  have hget : ∀ p m0, removedMem s.mem n pp pm p = some m0 →
      (p = pp ∧ m0 = { pm with kids := pm.kids.filter (· != n) }) ∨
      (p ≠ pp ∧ (n :: pp).isSuffixOf p = false ∧ s.mem p = some m0) := by
    intro p m0 h
    rw [removedMem_apply] at h
    by_cases h1 : p = pp
    · rw [if_pos h1] at h; cases h; exact Or.inl ⟨h1, rfl⟩
    · rw [if_neg h1] at h
      cases h3 : (n :: pp).isSuffixOf p with
      | true => rw [h3] at h; simp at h
      | false => rw [h3] at h; simp at h; exact Or.inr ⟨h1, rfl, h⟩
  apply LConsistent.toConsistent
  refine ⟨?_, ?_, ?_, ?_, ?_, ?_, ?_, ?_, ?_⟩
  · intro i hi
    show ((s.disk.setLayer 0 L').nodeAt i []).isDir = true
    rw [hroot0]
    exact hl.roots i (by rw [← hidx]; exact hi)
  · intro i Li hLi
    show TreeOK Li
    cases i with
    | zero =>
      simp only [Disk.layer, Disk.setLayer, Option.some.injEq] at hLi
      subst hLi
      exact htree
    | succ j => exact hl.trees (j + 1) Li (by simpa [Disk.layer, Disk.setLayer] using hLi)
  · -- root
    obtain ⟨m0, hm0, hr0⟩ := hl.root
    have hrr : (s.disk.setLayer 0 L').indices.map (rootReal (s.disk.setLayer 0 L')) =
        s.disk.indices.map (rootReal s.disk) := by
      rw [hidx]
      apply List.map_congr_left
      intro i _
      simp [rootReal, hroot0]
    by_cases hpp : pp = []
    · subst hpp
      rw [hpm] at hm0; cases hm0
      refine ⟨{ pm with kids := pm.kids.filter (· != n) }, ?_, ?_⟩
      · show removedMem s.mem n [] pm [] = _
        rw [removedMem_apply]; simp
      · show RealsLike pm.reals _
        rw [hrr]; exact hr0
    · refine ⟨m0, ?_, ?_⟩
      · show removedMem s.mem n pp pm [] = some m0
        rw [removedMem_apply, if_neg (Ne.symm hpp)]
        simp [List.isSuffixOf, hm0]
      · show RealsLike m0.reals _
        rw [hrr]; exact hr0
  · -- child
    intro p' pm' n' c hpm' hc'
    show RealsLike c.reals (localExp (s.disk.setLayer 0 L') pm' n')
    rcases hget _ _ hc' with ⟨h1, h2⟩ | ⟨h1, h3, h4⟩
    · -- the child is the parent node `pp`
      rcases hget _ _ hpm' with ⟨g1, _⟩ | ⟨g1, g3, g4⟩
      · exact absurd (h1.trans g1.symm) (cons_ne_self n' p')
      · rw [h2]
        show RealsLike pm.reals _
        have g2 : p' ≠ n :: pp := by
          intro h; rw [h] at h1
          have := congrArg List.length h1
          simp at this
          omega
        rw [localExp_agree s.disk _ pm' n' (agree_outside hc hup _ hout g4 n' g3 (by rw [h1]; exact hnpp))]
        exact hl.child p' pm' n' pm g4 (by rw [h1]; exact hpm)
    · have h2 : n' :: p' ≠ n :: pp := by
        intro h; rw [h, below_self] at h3; cases h3
      rcases hget _ _ hpm' with ⟨g1, g2⟩ | ⟨g1, g3, g4⟩
      · subst g1
        rw [g2]
        show RealsLike c.reals (localExp (s.disk.setLayer 0 L') pm n')
        rw [localExp_agree s.disk _ pm n' (agree_outside hc hup _ hout hpm n' hnpp h3)]
        exact hl.child p' pm n' c hpm h4
      · have g2 : p' ≠ n :: pp := by
          intro h
          rw [h] at h3
          rw [below_of_below n' (below_self (n :: pp))] at h3; cases h3
        rw [localExp_agree s.disk _ pm' n' (agree_outside hc hup _ hout g4 n' g3 h3)]
        exact hl.child p' pm' n' c g4 h4
  · -- wh
    intro p m0 hm0
    rcases hget _ _ hm0 with ⟨_, h2⟩ | ⟨_, _, h4⟩
    · rw [h2]; exact hl.wh pp pm hpm
    · exact hl.wh p m0 h4
  · -- kidsLoaded
    intro p m0 hm0 hlo n'
    show (n' ∈ m0.kids → localExp (s.disk.setLayer 0 L') m0 n' ≠ []) ∧
      (needsNode (localExp (s.disk.setLayer 0 L') m0 n') = true → n' ∈ m0.kids)
    rcases hget _ _ hm0 with ⟨h1, h2⟩ | ⟨h1, h3, h4⟩
    · subst h1
      rw [h2]
      have hlo' : pm.loaded = true := by rw [h2] at hlo; exact hlo
      show (n' ∈ pm.kids.filter (· != n) → localExp (s.disk.setLayer 0 L') pm n' ≠ []) ∧
        (needsNode (localExp (s.disk.setLayer 0 L') pm n') = true → n' ∈ pm.kids.filter (· != n))
      by_cases hn : n' = n
      · subst hn
        refine ⟨fun h => ?_, fun h => ?_⟩
        · exact absurd rfl (mem_filter_ne.1 h).2
        · rw [H] at h; cases h
      · have hne : n' :: p ≠ n :: p := by intro h; injection h with h; exact hn h
        rw [localExp_agree s.disk _ pm n' (agree_outside hc hup _ hout hpm n' hnpp (not_below_child hnpp hne))]
        have := hl.kidsLoaded p pm hpm hlo' n'
        exact ⟨fun h => this.1 (mem_filter_ne.1 h).1, fun h => mem_filter_ne.2 ⟨this.2 h, hn⟩⟩
    · have hne : n' :: p ≠ n :: pp := by
        intro h
        have : p = pp := by injection h
        exact h1 this
      have g2 : p ≠ n :: pp := by
        intro h; rw [h, below_self] at h3; cases h3
      rw [localExp_agree s.disk _ m0 n' (agree_outside hc hup _ hout h4 n' h3 (not_below_child h3 hne))]
      exact hl.kidsLoaded p m0 h4 hlo n'
  · -- kidsMem
    intro p m0 n' hm0 hn'
    show ∃ c, removedMem s.mem n pp pm (n' :: p) = some c
    rcases hget _ _ hm0 with ⟨h1, h2⟩ | ⟨h1, h3, h4⟩
    · subst h1
      rw [h2] at hn'
      obtain ⟨hin, hnn⟩ := mem_filter_ne.1 hn'
      obtain ⟨c, hcm⟩ := hl.kidsMem p pm n' hpm hin
      rw [removedMem_apply, if_neg (cons_ne_self n' p)]
      have hne : n' :: p ≠ n :: p := by intro h; injection h with h; exact hnn h
      have : (n :: p).isSuffixOf (n' :: p) = false := by
        cases hb : (n :: p).isSuffixOf (n' :: p) with
        | false => rfl
        | true =>
          have := below_cons hb hne
          rw [not_below_parent] at this; cases this
      rw [this]; exact ⟨c, by simpa using hcm⟩
    · obtain ⟨c, hcm⟩ := hl.kidsMem p m0 n' h4 hn'
      rw [removedMem_apply]
      by_cases g1 : n' :: p = pp
      · rw [if_pos g1]; exact ⟨_, rfl⟩
      · rw [if_neg g1]
        have g2 : n' :: p ≠ n :: pp := by
          intro h
          have : p = pp := by injection h
          exact h1 this
        have : (n :: pp).isSuffixOf (n' :: p) = false := by
          cases hb : (n :: pp).isSuffixOf (n' :: p) with
          | false => rfl
          | true =>
            have := below_cons hb g2
            rw [h3] at this; cases this
        rw [this]; exact ⟨c, by simpa using hcm⟩
  · -- unloaded
    intro p m0 hm0 hlo
    rcases hget _ _ hm0 with ⟨_, h2⟩ | ⟨_, _, h4⟩
    · rw [h2] at hlo ⊢
      have := hl.unloaded pp pm hpm hlo
      show pm.kids.filter (· != n) = []
      rw [this]; rfl
    · exact hl.unloaded p m0 h4 hlo
  · -- reach
    intro n' p c hc'
    show ∃ pm', removedMem s.mem n pp pm p = some pm' ∧ n' ∈ pm'.kids
    rcases hget _ _ hc' with ⟨h1, _⟩ | ⟨h1, h3, h4⟩
    · obtain ⟨pm2, hpm2, hn2⟩ := hl.reach n' p pm (by rw [h1]; exact hpm)
      refine ⟨pm2, ?_, hn2⟩
      rw [removedMem_apply]
      have g1 : p ≠ pp := by intro h; rw [h] at h1; exact cons_ne_self n' pp h1
      rw [if_neg g1]
      have : (n :: pp).isSuffixOf p = false := by
        cases hb : (n :: pp).isSuffixOf p with
        | false => rfl
        | true =>
          have := below_of_below n' hb
          rw [h1, not_below_parent] at this; cases this
      rw [this]; simpa using hpm2
    · obtain ⟨pm2, hpm2, hn2⟩ := hl.reach n' p c h4
      have h2 : n' :: p ≠ n :: pp := by
        intro h; rw [h, below_self] at h3; cases h3
      by_cases g1 : p = pp
      · subst g1
        rw [hpm] at hpm2; cases hpm2
        refine ⟨{ pm with kids := pm.kids.filter (· != n) }, by rw [removedMem_apply]; simp, ?_⟩
        show n' ∈ pm.kids.filter (· != n)
        exact mem_filter_ne.2 ⟨hn2, fun h => h2 (by rw [h])⟩
      · refine ⟨pm2, ?_, hn2⟩
        rw [removedMem_apply, if_neg g1]
        have : (n :: pp).isSuffixOf p = false := by
          cases hb : (n :: pp).isSuffixOf p with
          | false => rfl
          | true => rw [below_of_below n' hb] at h3; cases h3
        rw [this]; simpa using hpm2

/-- (γ) for a point update of the upper layer -/
theorem consistent_removeChild {s : St} (hc : Consistent s) {L : Layer} (hup : s.disk.upper = some L)
    (n : Name) (pp : Path) (X : Node) {pm : MNode} (hpm : s.mem pp = some pm)
    (hstep : HostStep L (L.set (n :: pp) X))
    (H : needsNode (localExp (s.disk.setUpper (n :: pp) X) pm n) = false)
    (log' : List Call) :
    Consistent { s with disk := s.disk.setUpper (n :: pp) X, mem := removedMem s.mem n pp pm, log := log' } := by
  have hd' : s.disk.setUpper (n :: pp) X = s.disk.setLayer 0 (L.set (n :: pp) X) := by
    simp [Disk.setUpper, hup]
  rw [hd'] at H ⊢
  refine consistent_removeChild_gen hc hup n pp hpm (fun p hp => ?_) (hstep.2 (hc.trees 0 L hup)) H log'
  simp only [Layer.set]
  rw [if_neg]
  intro h
  rw [h, below_self] at hp
  cases hp

end Fbr.Ovl
