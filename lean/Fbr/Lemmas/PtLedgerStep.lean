/-
  C15: `step` keeps the ledger invariant `LInv · 0 0` — after every request, whatever failed
  inside it, the process holds exactly the descriptors its tables account for.
-/
import Fbr.Lemmas.PtLedgerOps
import Fbr.Lemmas.PtStepTr

namespace Fbr.PtRefs

theorem handles_length_mput {s : St} (nh : KeysNodup s.handles) (h : Hnd) (ino : Ino)
    (hm : mget s.handles h = none) : (mput s.handles h ino).length = s.handles.length + 1 := by
  have := cnt_mput (fun _ : Ino => true) nh h ino
  rw [hm] at this
  simp only [if_true] at this
  rw [length_eq_cnt, length_eq_cnt]; omega

theorem handles_length_mdel {s : St} (nh : KeysNodup s.handles) (h : Hnd) (ino : Ino)
    (hm : mget s.handles h = some ino) : (mdel s.handles h).length + 1 = s.handles.length := by
  have := cnt_mdel (fun _ : Ino => true) nh h
  rw [hm] at this
  simp only [if_true] at this
  rw [length_eq_cnt, length_eq_cnt]; omega

/-- a descriptor opened by the request becomes a new handle -/
theorem addHandle_linv {s : St} {t m : Nat} (ino : Ino) (h : LInv s (t + 1) m) :
    LInv { s with handles := mput s.handles s.nextHandle ino, nextHandle := s.nextHandle + 1 } t m := by
  have hnone : mget s.handles s.nextHandle = none := by
    cases hm : mget s.handles s.nextHandle with
    | none => rfl
    | some i => exact absurd (h.hk _ _ hm) (Nat.lt_irrefl _)
  refine ⟨h.nd, h.nh.mput _ _, ?_, h.mr, ?_, ?_⟩
  · show s.fds = 2 + nFile s + mfd s + (mput s.handles s.nextHandle ino).length + t
    rw [handles_length_mput h.nh _ _ hnone]
    have := h.fds; omega
  · intro h' i hm
    show h' < s.nextHandle + 1
    simp only [mget_mput] at hm
    split at hm
    · rename_i e1; subst e1; exact Nat.lt_succ_self _
    · exact Nat.lt_succ_of_lt (h.hk h' i hm)
  · intro h' hc
    show (mget (mput s.handles s.nextHandle ino) h').isSome = true
    simp only [mget_mput]
    split
    · rfl
    · exact h.ck h' hc

theorem handleGet_some {s : St} {h : Hnd} {ino : Ino} (hg : handleGet s h ino = true) :
    mget s.handles h = some ino := by
  unfold handleGet at hg
  split at hg
  · rename_i i hm; have : i = ino := by simpa using hg
    subst this; exact hm
  · cases hg

theorem doRelease_linv {s : St} (h : LInv s 0 0) (ino : Ino) (hd : Hnd) : LInv (doRelease s ino hd).1 0 0 := by
  unfold doRelease
  split
  · rename_i hg
    have hm := handleGet_some hg
    have hl := handles_length_mdel h.nh hd ino hm
    refine ⟨h.nd, h.nh.mdel hd, ?_, h.mr, ?_, ?_⟩
    · show s.fds - 1 = 2 + nFile s + mfd s + (mdel s.handles hd).length + 0
      have := h.fds; omega
    · intro h' i hm'
      show h' < s.nextHandle
      simp only [mget_mdel] at hm'
      split at hm'
      · cases hm'
      · exact h.hk h' i hm'
    · intro h' hc
      show (mget (mdel s.handles hd) h').isSome = true
      have hc' : h' ∈ s.cookies.filter (· ≠ hd) := hc
      simp only [List.mem_filter, decide_eq_true_eq] at hc'
      rw [mget_mdel_ne _ (fun e => hc'.2 e.symm)]
      exact h.ck h' hc'.1
  · exact h

theorem consumeCookie_linv (e : Env) {s : St} {t m : Nat} (h : LInv s t m) (hd : Hnd) :
    LInv (consumeCookie e s hd) t m := by
  unfold consumeCookie
  split
  · refine ⟨h.nd, h.nh, h.fds, h.mr, h.hk, ?_⟩
    intro h' hc
    have hc' : h' ∈ s.cookies.filter (· ≠ hd) := hc
    simp only [List.mem_filter] at hc'
    exact h.ck h' hc'.1
  · exact h

theorem cacheCookie_linv (e : Env) {s : St} {t m : Nat} (h : LInv s t m) (hd : Hnd) (l : List DEnt)
    (hlive : e.noOpendir = false → (mget s.handles hd).isSome = true) :
    LInv (cacheCookie e s hd l) t m := by
  unfold cacheCookie
  split
  · rename_i hc
    refine ⟨h.nd, h.nh, h.fds, h.mr, h.hk, ?_⟩
    intro h' hm
    have hm' : h' ∈ hd :: s.cookies := hm
    simp only [List.mem_cons] at hm'
    rcases hm' with e1 | e1
    · subst e1
      apply hlive
      cases hn : e.noOpendir <;> simp [hn] at hc ⊢
    · exact h.ck h' e1
  · exact h

theorem opMknod_linv (e : Env) {s : St} (h : LInv s 0 0) (p : Ino) (pst : Bool) (hr : Errno) (a : HAns) :
    LInv (opMknod e s p pst hr a).1 0 0 := by
  unfold opMknod
  split
  · exact h
  · rename_i dir _
    split
    · rename_i s1 er heq; exact getFile_err dir pst h heq
    · rename_i s1 heq
      have h1 := getFile_linv dir pst h heq
      split
      · exact closeTemp_linv _ h1
      · have h2 := doLookup_linv e h1 p pst a
        split
        rename_i s2 r heq2
        have : (entryRes (doLookup e s1 p pst a)).1 = (doLookup e s1 p pst a).1 := by
          cases hx : doLookup e s1 p pst a with
          | mk x y => cases y <;> rfl
        rw [heq2] at this
        simp only at this
        rw [← this] at h2
        exact closeTemp_linv _ h2

theorem opLink_linv (e : Env) {s : St} (h : LInv s 0 0) (ino : Ino) (ist : Bool) (p : Ino) (pst : Bool)
    (hr : Errno) (a : HAns) : LInv (opLink e s ino ist p pst hr a).1 0 0 := by
  unfold opLink
  split
  · exact h
  · rename_i d _
    split
    · exact h
    · rename_i dir _
      split
      · rename_i s1 er heq; exact getFile_err d ist h heq
      · rename_i s1 heq
        have h1 := getFile_linv d ist h heq
        split
        · rename_i s2 er heq2; exact closeTemp_linv _ (getFile_err dir pst h1 heq2)
        · rename_i s2 heq2
          have h2 := getFile_linv dir pst h1 heq2
          split
          · exact closeTemp_linv _ (closeTemp_linv _ h2)
          · have h3 := doLookup_linv e h2 p pst a
            split
            rename_i s3 r heq3
            have : (entryRes (doLookup e s2 p pst a)).1 = (doLookup e s2 p pst a).1 := by
              cases hx : doLookup e s2 p pst a with
              | mk x y => cases y <;> rfl
            rw [heq3] at this
            simp only at this
            rw [← this] at h3
            exact closeTemp_linv _ (closeTemp_linv _ h3)

theorem finishCreate_linv (e : Env) {s : St} {t m : Nat} (h : LInv s (t + 1) m) (ino : Ino) :
    LInv (finishCreate e s ino).1 t m := by
  unfold finishCreate
  split
  · exact addHandle_linv ino h
  · exact freeFd_linv h

theorem createTail_linv (e : Env) {s : St} {t m : Nat} (p : Ino) (pst : Bool) (haveNew : Bool) (a : HAns)
    (ohr : Errno) (h : LInv s (t + (if haveNew then 1 else 0)) m) :
    LInv (createTail e s p pst haveNew a ohr).1 t m := by
  unfold createTail
  have h1 := doLookup_linv e h p pst a
  split
  · rename_i s1 er heq; rw [heq] at h1; exact closeTemp_linv _ h1
  · rename_i s1 ino heq
    rw [heq] at h1
    simp only at h1
    split
    · rename_i hn; simp only [hn, if_true] at h1; exact finishCreate_linv e h1 ino
    · rename_i hn
      have hn' : haveNew = false := by simpa using hn
      simp only [hn', Bool.false_eq_true, if_false, Nat.add_zero] at h1
      split
      · exact forgetOne_linv e h1 ino 1
      · split
        · rename_i s2 er heq2; exact forgetOne_linv e (openInode_err ino ohr h1 heq2) ino 1
        · rename_i s2 heq2; exact finishCreate_linv e (openInode_ok ino ohr h1 heq2) ino

theorem opCreate_linv (e : Env) {s : St} (h : LInv s 0 0) (p : Ino) (pst : Bool) (excl : Bool)
    (cr : CreateAns) (a : HAns) (ohr : Errno) : LInv (opCreate e s p pst excl cr a ohr).1 0 0 := by
  unfold opCreate
  split
  · exact h
  · rename_i dir _
    split
    · rename_i s1 er heq; exact getFile_err dir pst h heq
    · rename_i s1 heq
      have h1 := getFile_linv dir pst h heq
      split
      · rename_i s2 heq2; exact closeTemp_linv _ (allocFd_fail h1 heq2)
      · rename_i s2 heq2
        have h2 := allocFd_ok h1 heq2
        split
        · exact closeTemp_linv _ (freeFd_linv h2)
        · simp only
          split
          · exact closeTemp_linv _ (freeFd_linv h2)
          · exact closeTemp_linv _ (createTail_linv e p pst false a ohr (by simpa using freeFd_linv h2))
        · exact closeTemp_linv _ (createTail_linv e p pst true a ohr (by simpa using h2))

theorem rdpLoop_linv (e : Env) (dir : Ino) (tl : Tail) :
    ∀ (ents : List DEnt) (s : St) (t m : Nat) (fit : Nat) (first : Bool) (acc : List (Ino × Bool)),
      LInv s t m → LInv (rdpLoop e s dir fit tl ents first acc).1 t m := by
  intro ents
  induction ents with
  | nil => intro s t m fit first acc h; exact h
  | cons d r ih =>
    intro s t m fit first acc h
    cases d with
    | dot => simp only [rdpLoop]; exact ih s t m fit false acc h
    | name a =>
      simp only [rdpLoop]
      have h1 := doLookup_linv e h dir false a
      split
      · rename_i s1 er heq; rw [heq] at h1; exact h1
      · rename_i s1 ino heq
        rw [heq] at h1
        cases fit with
        | succ k => simp only; exact ih s1 t m k false _ h1
        | zero =>
          simp only
          have h2 := forgetOne_linv e h1 ino 1
          cases tl <;> exact h2

theorem opReaddirplus_linv (e : Env) {s : St} (h : LInv s 0 0) (ino : Ino) (hd : Hnd) (dhr : Errno)
    (lst : Except Errno (List DEnt)) (fit : Nat) (tl : Tail) :
    LInv (opReaddirplus e s ino hd dhr lst fit tl).1 0 0 := by
  unfold opReaddirplus
  -- get_dirdata
  have hgd : ∀ s1 r tmp, getDirdata e s ino hd dhr = (s1, r, tmp) →
      (r.isSome = true → LInv s1 0 0)
      ∧ (r = none → LInv s1 (0 + (if tmp then 1 else 0)) 0
          ∧ (e.noOpendir = false → (mget s1.handles hd).isSome = true)) := by
    intro s1 r tmp hg
    unfold getDirdata at hg
    split at hg
    · split at hg
      · rename_i hget
        have e1 := (Prod.mk.inj hg).1
        have e2 := Prod.mk.inj (Prod.mk.inj hg).2
        subst e1
        constructor
        · intro hr; rw [← e2.1] at hr; cases hr
        · intro _
          constructor
          · rw [← e2.2]; simpa using h
          · intro _; rw [handleGet_some hget]; rfl
      · have e1 := (Prod.mk.inj hg).1
        have e2 := Prod.mk.inj (Prod.mk.inj hg).2
        subst e1
        constructor
        · intro _; exact h
        · intro hr; rw [← e2.1] at hr; cases hr
    · rename_i hno
      have hno' : e.noOpendir = true := by simpa using hno
      split at hg
      · rename_i s2 er heq
        have e1 := (Prod.mk.inj hg).1
        have e2 := Prod.mk.inj (Prod.mk.inj hg).2
        subst e1
        constructor
        · intro _; exact openInode_err ino dhr h heq
        · intro hr; rw [← e2.1] at hr; cases hr
      · rename_i s2 heq
        have e1 := (Prod.mk.inj hg).1
        have e2 := Prod.mk.inj (Prod.mk.inj hg).2
        subst e1
        constructor
        · intro hr; rw [← e2.1] at hr; cases hr
        · intro _
          constructor
          · rw [← e2.2]; simpa using openInode_ok ino dhr h heq
          · intro hc; rw [hno'] at hc; cases hc
  split
  · rename_i s1 er tmp heq
    exact (hgd s1 (some er) tmp heq).1 rfl
  · rename_i s1 tmp heq
    obtain ⟨h1, hlive⟩ := (hgd s1 none tmp heq).2 rfl
    have h2 := consumeCookie_linv e h1 hd
    have hl2 : e.noOpendir = false → (mget (consumeCookie e s1 hd).handles hd).isSome = true := by
      intro hc
      have : (consumeCookie e s1 hd).handles = s1.handles := by unfold consumeCookie; split <;> rfl
      rw [this]; exact hlive hc
    split
    · exact closeTemp_linv _ h2
    · rename_i l
      have h3 := cacheCookie_linv e h2 hd l hl2
      have h4 := rdpLoop_linv e ino tl l _ _ _ fit true [] h3
      split
      rename_i s2 acc er heq2
      rw [heq2] at h4
      exact closeTemp_linv _ h4

theorem opGetattr_linv (e : Env) {s : St} (h : LInv s 0 0) (ino : Ino) (hd : Option Hnd) (hr : Errno) :
    LInv (opGetattr e s ino hd hr).1 0 0 := by
  unfold opGetattr
  split
  · exact h
  · split
    · split <;> exact h
    · split
      · exact h
      · split
        · exact h
        · split
          · rename_i s1 heq; exact allocFd_fail h heq
          · rename_i s1 heq; exact freeFd_linv (allocFd_ok h heq)

theorem opRename_linv (e : Env) {s : St} (h : LInv s 0 0) (p1 : Ino) (st1 : Bool) (p2 : Ino) (st2 : Bool)
    (hr : Errno) : LInv (opRename e s p1 st1 p2 st2 hr).1 0 0 := by
  unfold opRename
  split
  · rename_i d1 d2 _ _
    split
    · rename_i s1 er heq; exact getFile_err d1 st1 h heq
    · rename_i s1 heq
      have h1 := getFile_linv d1 st1 h heq
      split
      · rename_i s2 er heq2; exact closeTemp_linv _ (getFile_err d2 st2 h1 heq2)
      · rename_i s2 heq2
        exact closeTemp_linv _ (closeTemp_linv _ (getFile_linv d2 st2 h1 heq2))
  · exact h

theorem opUnlink_linv (e : Env) {s : St} (h : LInv s 0 0) (p : Ino) (pst : Bool) (hr : Errno) :
    LInv (opUnlink e s p pst hr).1 0 0 := by
  unfold opUnlink
  split
  · exact h
  · rename_i d _
    split
    · rename_i s1 er heq; exact getFile_err d pst h heq
    · rename_i s1 heq; exact closeTemp_linv _ (getFile_linv d pst h heq)

theorem doOpen_linv (e : Env) {s : St} (h : LInv s 0 0) (ino : Ino) (hr : Errno) :
    LInv (doOpen e s ino hr).1 0 0 := by
  unfold doOpen
  split
  · rename_i s1 er heq; exact openInode_err ino hr h heq
  · rename_i s1 heq; exact addHandle_linv ino (openInode_ok ino hr h heq)

theorem dropAll_withData (l : List (Ino × IData)) (x : St) (y : List (Ino × IData)) :
    dropAll (withData x y) l = withData (dropAll x l) y := by
  induction l generalizing x with
  | nil => rfl
  | cons p r ih => obtain ⟨i, d⟩ := p; simp only [dropAll]; rw [dropIData_withData, ih]

/-- dropping every `InodeData` of a store: all their descriptors and mount-fd references go -/
theorem dropAll_linv (l : List (Ino × IData)) (x : St) (h : LInv (withData x l) 0 0) :
    LInv (withData (dropAll x l) []) 0 0 := by
  induction l generalizing x with
  | nil => exact h
  | cons p r ih =>
    obtain ⟨i, d⟩ := p
    simp only [dropAll]
    apply ih
    have hnd : KeysNodup ((i, d) :: r) := h.nd
    have hni : i ∉ r.map (·.1) := by
      unfold KeysNodup at hnd; simp only [List.map_cons, List.nodup_cons] at hnd; exact hnd.1
    have hm : mget (withData x ((i, d) :: r)).data i = some d := by simp [withData, mget_cons]
    have h1 := delEntry_linv h hm
    have e1 : mdel (withData x ((i, d) :: r)).data i = r := by
      show mdel ((i, d) :: r) i = r
      have : mdel ((i, d) :: r) i = mdel r i := by simp [mdel, List.filter]
      rw [this]; exact mdel_of_not_mem hni
    rw [e1] at h1
    have h2 := dropIData_linv (s := withData (withData x ((i, d) :: r)) r) (t := 0) (m := 0) d
      (by simpa using h1)
    rw [dropIData_withData, dropIData_withData] at h2
    exact h2.of_eq ⟨rfl, rfl, rfl, rfl, rfl, rfl⟩

theorem clearAll_linv {s : St} (h : LInv s 0 0) : LInv (clearAll s) 0 0 := by
  unfold clearAll
  simp only
  have h0 : LInv (withData { { s with fds := s.fds - s.handles.length, handles := [], cookies := [] } with
      data := [], byId := [], byHandle := [] } s.data) 0 0 := by
    refine ⟨h.nd, List.nodup_nil, ?_, h.mr, ?_, ?_⟩
    · show s.fds - s.handles.length = 2 + nFile s + mfd s + 0 + 0
      have := h.fds; omega
    · intro hd i hm; simp [withData] at hm
    · intro hd hc; simp [withData] at hc
  have h1 := dropAll_linv s.data _ h0
  refine h1.of_eq ⟨?_, rfl, rfl, rfl, rfl, rfl⟩
  show (dropAll _ s.data).data = []
  rw [data_of_tables (dropAll_tables _ _)]

theorem importRoot_linv (e : Env) {s : St} (h : LInv s 0 0) (root : HAns) :
    LInv (importRoot e s root).1 0 0 := by
  unfold importRoot
  split
  · rename_i s1 heq; exact allocFd_fail h heq
  · rename_i s1 heq
    have h1 := allocFd_ok h heq
    split
    · exact freeFd_linv h1
    · rename_i f
      split
      · rename_i s2 er heq2; exact freeFd_linv (toOpenable_err f.fh h1 heq2)
      · rename_i s2 heq2
        have h2 := toOpenable_ok f.fh h1 heq2
        apply settlePath_linv
        apply insertInode_linv
        simp only
        cases hf : f.fh with
        | none => rw [hf] at h2; simpa using h2
        | some x => rw [hf] at h2; simpa using h2

/-- **every request leaves the descriptor ledger balanced**, whatever fails inside it -/
theorem step_linv (e : Env) {s : St} (h : LInv s 0 0) (op : Op) : LInv (step e s op).1 0 0 := by
  cases op with
  | lookup p pst a =>
    simp only [step]
    have := doLookup_linv e h p pst a
    cases hx : doLookup e s p pst a with
    | mk x y => rw [hx] at this; cases y <;> exact this
  | forget i n => exact forgetOne_linv e h i n
  | batchForget l => exact batchForget_linv e l h
  | mkdir p pst hr a => exact opMknod_linv e h p pst hr a
  | mknod p pst hr a => exact opMknod_linv e h p pst hr a
  | link i ist p pst hr a => exact opLink_linv e h i ist p pst hr a
  | create p pst x cr a ohr => exact opCreate_linv e h p pst x cr a ohr
  | «open» i hr =>
    simp only [step, opOpen]
    split
    · exact h
    · exact doOpen_linv e h i hr
  | opendir i hr =>
    simp only [step, opOpendir]
    split
    · exact h
    · exact doOpen_linv e h i hr
  | release i hd =>
    simp only [step, opRelease]
    split
    · exact h
    · exact doRelease_linv h i hd
  | releasedir i hd =>
    simp only [step, opReleasedir]
    split
    · exact h
    · exact doRelease_linv h i hd
  | readdirplus i hd dhr lst fit tl => exact opReaddirplus_linv e h i hd dhr lst fit tl
  | getattr i hd hr => exact opGetattr_linv e h i hd hr
  | rename p1 st1 p2 st2 hr => exact opRename_linv e h p1 st1 p2 st2 hr
  | unlink p pst hr => exact opUnlink_linv e h p pst hr
  | destroy root =>
    simp only [step, opDestroy]
    exact importRoot_linv e (clearAll_linv h) root
  | init root =>
    simp only [step, opInit]
    have := importRoot_linv e h root
    split
    · rename_i heq; rw [heq] at this; exact this
    · rename_i heq; rw [heq] at this; exact this

theorem linv_fresh : LInv St.fresh 0 0 := by
  refine ⟨List.nodup_nil, List.nodup_nil, ?_, ?_, ?_, ?_⟩
  · simp [St.fresh, nFile, mfd]
  · simp [St.fresh, nHand]
  · intro h i hm; simp [St.fresh] at hm
  · intro h hc; simp [St.fresh] at hc

theorem run_linv (e : Env) (h : List (Option Nat × Op)) {s : St} (hl : LInv s 0 0) :
    LInv (run e s h).1 0 0 := by
  induction h generalizing s with
  | nil => exact hl
  | cons x r ih =>
    obtain ⟨hd, op⟩ := x
    simp only [run]
    apply ih
    unfold stepCap
    have h0 : LInv { s with cap := hd.map (s.fds + ·) } 0 0 := hl.of_eq ⟨rfl, rfl, rfl, rfl, rfl, rfl⟩
    have := step_linv e h0 op
    split
    rename_i s1 r1 heq
    rw [heq] at this
    exact this.of_eq ⟨rfl, rfl, rfl, rfl, rfl, rfl⟩

end Fbr.PtRefs
