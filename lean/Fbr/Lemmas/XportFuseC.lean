/-
  Helper lemmas for C04: FuseDevWriter operations, shape and content.
  `FwS n f w f' w'`: only `len` of the writer moved (by `n`, staying within `cap` — the Vec never
  reallocates), region sizes are kept, memory changed at most inside `[base+len, base+len+n)`, every
  write access lies there, nothing was read.
  `FwC D f w f' w'` (buffered writers): in addition nothing reached the descriptor and the new
  part of the buffer holds exactly `D`.
-/
import Fbr.Lemmas.XportFuse2
import Fbr.Lemmas.XportWrOps

namespace Fbr.Xport

structure FwS (n : Nat) (f : FuseW) (w : World) (f' : FuseW) (w' : World) : Prop where
  eq : f' = { f with len := f.len + n }
  fits : f.len + n ≤ f.cap
  len : ∀ x, (w'.mem.get x).length = (w.mem.get x).length
  frame : ∀ a : Addr, a ∉ segAddrs ⟨f.region, f.base + f.len, n⟩ → w'.mem.byteAt a = w.mem.byteAt a
  wr : ∀ a ∈ wrAddrs w'.log, a ∈ wrAddrs w.log ∨ a ∈ segAddrs ⟨f.region, f.base + f.len, n⟩
  rd : rdAddrs w'.log = rdAddrs w.log

structure FwC (D : Bytes) (f : FuseW) (w : World) (f' : FuseW) (w' : World) : Prop where
  s : FwS D.length f w f' w'
  fd : w'.fd = w.fd
  content : (segAddrs ⟨f.region, f.base + f.len, D.length⟩).map w'.mem.byteAt = D

theorem FuseW.with_len_self (f : FuseW) : { f with len := f.len + 0 } = f := by cases f; rfl

theorem FwS.refl (f : FuseW) (w : World) (hok : f.ok) : FwS 0 f w f w :=
  ⟨(f.with_len_self).symm, hok, fun _ => rfl, fun _ _ => rfl, fun _ h => Or.inl h, rfl⟩

/-- the world may differ in fields the predicates do not mention (`fd`) -/
theorem FwS.refl' (f : FuseW) (w w' : World) (hok : f.ok) (hm : w'.mem = w.mem) (hl : w'.log = w.log) : FwS 0 f w f w' :=
  ⟨(f.with_len_self).symm, hok, fun _ => by rw [hm], fun _ _ => by rw [hm], fun _ h => Or.inl (by rw [← hl]; exact h),
   by rw [hl]⟩

theorem FwC.refl (f : FuseW) (w : World) (hok : f.ok) : FwC [] f w f w :=
  ⟨FwS.refl f w hok, rfl, by simp [segAddrs]⟩

theorem FwS.trans {n1 n2 : Nat} {f f1 f2 : FuseW} {w w1 w2 : World}
    (h1 : FwS n1 f w f1 w1) (h2 : FwS n2 f1 w1 f2 w2) : FwS (n1 + n2) f w f2 w2 := by
  have e1 := h1.eq
  subst e1
  have hsplit := segAddrs_split f.region (f.base + f.len) n1 n2
  refine ⟨by rw [h2.eq]; simp only [Nat.add_assoc], by have := h2.fits; simp only at this; omega,
    fun x => by rw [h2.len, h1.len], ?_, ?_, by rw [h2.rd, h1.rd]⟩
  · intro a ha
    rw [hsplit, List.mem_append, not_or] at ha
    rw [h2.frame a (by simpa [Nat.add_assoc] using ha.2), h1.frame a ha.1]
  · intro a ha
    rw [hsplit, List.mem_append]
    rcases h2.wr a ha with h | h
    · rcases h1.wr a h with h | h
      · exact Or.inl h
      · exact Or.inr (Or.inl h)
    · exact Or.inr (Or.inr (by simpa [Nat.add_assoc] using h))

theorem seg_disjoint (r off a b : Nat) : ∀ x ∈ segAddrs ⟨r, off, a⟩, x ∉ segAddrs ⟨r, off + a, b⟩ := by
  intro x hx hy
  rw [mem_segAddrs] at hx hy
  simp only at hx hy
  omega

theorem FwC.trans {D1 D2 : Bytes} {f f1 f2 : FuseW} {w w1 w2 : World}
    (h1 : FwC D1 f w f1 w1) (h2 : FwC D2 f1 w1 f2 w2) : FwC (D1 ++ D2) f w f2 w2 := by
  have hs := h1.s.trans h2.s
  have e1 := h1.s.eq
  subst e1
  refine ⟨by rw [List.length_append]; exact hs, by rw [h2.fd, h1.fd], ?_⟩
  rw [List.length_append, segAddrs_split, List.map_append]
  have c2 := h2.content
  simp only [Nat.add_assoc] at c2 ⊢
  rw [c2]
  congr 1
  refine Eq.trans ?_ h1.content
  apply List.map_congr_left
  intro a ha
  apply h2.s.frame
  intro hy
  rw [mem_segAddrs] at ha hy
  simp only at ha hy
  omega

theorem FwS.inMem {n : Nat} {f f' : FuseW} {w w' : World} (h : FwS n f w f' w') (hin : f.inMem w.mem) :
    f'.inMem w'.mem := by
  unfold FuseW.inMem at *
  rw [h.eq, h.len]; exact hin

theorem FwS.ok {n : Nat} {f f' : FuseW} {w w' : World} (h : FwS n f w f' w') : f'.ok := by
  unfold FuseW.ok; rw [h.eq]; exact h.fits

/-- the buffer of a buffered writer afterwards: the old buffer followed by `D` -/
theorem FwC.slice {D : Bytes} {f f' : FuseW} {w w' : World} (h : FwC D f w f' w') (hin : f.inMem w.mem) :
    f'.slice w'.mem = f.slice w.mem ++ D := by
  have hfit := h.s.fits
  unfold FuseW.inMem at hin
  simp only [FuseW.slice]
  rw [h.s.eq]
  simp only
  have i2 : InMem w'.mem (segAddrs ⟨f.region, f.base, f.len + D.length⟩) := by
    intro a ha; rw [mem_segAddrs] at ha; rw [ha.1, h.s.len]; simp only at ha ⊢; omega
  have i1 : InMem w.mem (segAddrs ⟨f.region, f.base, f.len⟩) := by
    intro a ha; rw [mem_segAddrs] at ha; rw [ha.1]; simp only at ha ⊢; omega
  rw [readSeg_eq_map _ _ i2, readSeg_eq_map _ _ i1, segAddrs_split, List.map_append, h.content]
  congr 1
  apply List.map_congr_left
  intro a ha
  exact h.s.frame a (seg_disjoint _ _ _ _ a ha)

/-! ### `extend_from_slice` -/

theorem wrAddrs_snoc (log : List Access) (a : Access) (h : a.write = true) :
    wrAddrs (log ++ [a]) = wrAddrs log ++ segAddrs a.seg := by
  rw [wrAddrs_append]; simp [wrAddrs, h]

theorem rdAddrs_snoc_write (log : List Access) (a : Access) (h : a.write = true) :
    rdAddrs (log ++ [a]) = rdAddrs log := by
  rw [rdAddrs_append]; simp [rdAddrs, h]

theorem extend_fwc (f : FuseW) (w : World) (data : Bytes) (hin : f.inMem w.mem) (hfit : f.len + data.length ≤ f.cap) :
    ∃ f1 w1, f.extend w data = .ok (f1, w1) ∧ FwC data f w f1 w1 := by
  unfold FuseW.inMem at hin
  have hnot : ¬ (f.len + data.length > f.cap) := by omega
  have hw : f.base + f.len + data.length ≤ (w.mem.get f.region).length := by omega
  unfold FuseW.extend
  simp only [hnot, if_false]
  refine ⟨_, _, rfl, ⟨⟨rfl, hfit, fun x => length_get_write _ _ _ _ hw x, ?_, ?_, ?_⟩, rfl, ?_⟩⟩
  · intro a ha
    simp only
    rw [byteAt_write _ _ _ _ hw]
    have : ¬ (a.1 = f.region ∧ f.base + f.len ≤ a.2 ∧ a.2 < f.base + f.len + data.length) := by
      intro hc; apply ha; rw [mem_segAddrs]; exact hc
    simp only [this, if_false]
  · intro a ha
    simp only at ha
    rw [wrAddrs_snoc _ _ rfl, List.mem_append] at ha
    exact ha
  · simp only
    exact rdAddrs_snoc_write _ _ rfl
  · simp only
    exact map_byteAt_written _ _ _ _ hw

/-! ### `write` -/

theorem fcheckAvail_buffered {f : FuseW} {sz : Nat} (hb : f.buffered = true) (hok : f.ok) :
    (sz ≤ f.cap - f.len → f.checkAvail sz = .ok ()) ∧ (f.cap - f.len < sz → f.checkAvail sz = .error .invalidData) := by
  unfold FuseW.ok at hok
  unfold FuseW.checkAvail FuseW.availableBytes
  have h1 : ¬ ¬ (f.buffered = true ∨ f.len = 0) := by simp [hb]
  have h2 : ¬ f.len > f.cap := by omega
  constructor
  · intro h
    have h3 : ¬ sz > f.cap - f.len := by omega
    simp only [h1, h2, h3, if_false]
  · intro h
    simp only [h1, h2, h, if_false, if_true]

/-- a buffered `write`: appends the whole buffer or (no room) refuses and changes nothing -/
theorem fwrite_fwc (f : FuseW) (w : World) (data : Bytes) (hb : f.buffered = true) (hok : f.ok) (hin : f.inMem w.mem) :
    FwC (data.take ((FuseW.write f w data).f.len - f.len)) f w (FuseW.write f w data).f (FuseW.write f w data).w
    ∧ (∀ n, (FuseW.write f w data).res = .ok n → n = data.length ∧ (FuseW.write f w data).f.len - f.len = n)
    ∧ (∀ e, (FuseW.write f w data).res = .error e → (FuseW.write f w data).f.len - f.len = 0) := by
  by_cases hfit : data.length ≤ f.cap - f.len
  · have hc := (fcheckAvail_buffered (sz := data.length) hb hok).1 hfit
    unfold FuseW.ok at hok
    obtain ⟨f1, w1, e, hcw⟩ := extend_fwc f w data hin (by omega)
    have hl : f1.len - f.len = data.length := by rw [hcw.s.eq]; simp
    unfold FuseW.write
    simp only [hc, hb, if_true, e]
    rw [hl, List.take_length]
    refine ⟨hcw, ?_, ?_⟩
    · intro n hn; cases hn; exact ⟨rfl, rfl⟩
    · intro e he; cases he
  · have hc := (fcheckAvail_buffered (sz := data.length) hb hok).2 (by omega)
    unfold FuseW.write
    simp only [hc, Nat.sub_self, List.take_zero]
    refine ⟨FwC.refl f w hok, ?_, ?_⟩
    · intro n hn; cases hn
    · intro _ _; trivial

/-! ### `write_vectored` -/

theorem foldl_len_eq_flatten (bufs : List Bytes) (n : Nat) :
    bufs.foldl (fun a x => a + x.length) n = n + bufs.flatten.length := by
  induction bufs generalizing n with
  | nil => simp
  | cons d rest ih => simp only [List.foldl, List.flatten_cons, List.length_append, ih]; omega

theorem extendAll_fwc (f : FuseW) (w : World) (bufs : List Bytes) (count : Nat) (hok : f.ok) (hin : f.inMem w.mem)
    (hfit : f.len + bufs.flatten.length ≤ f.cap) :
    ∃ f1 w1, FuseW.extendAll f w bufs count = .ok (f1, w1, count + bufs.flatten.length) ∧ FwC bufs.flatten f w f1 w1 := by
  induction bufs generalizing f w count with
  | nil => exact ⟨f, w, by simp [FuseW.extendAll], by simpa using FwC.refl f w hok⟩
  | cons d rest ih =>
    simp only [List.flatten_cons, List.length_append] at hfit ⊢
    unfold FuseW.extendAll
    by_cases hd : d.isEmpty = true
    · rw [if_pos hd]
      have hd' := isEmpty_eq_nil hd
      subst hd'
      simp only [List.length_nil, Nat.zero_add, List.nil_append] at hfit ⊢
      exact ih f w count hok hin hfit
    · rw [if_neg hd]
      obtain ⟨f1, w1, e, h1⟩ := extend_fwc f w d hin (by omega)
      rw [e]
      simp only
      have hl : f1.len = f.len + d.length := by rw [h1.s.eq]
      obtain ⟨f2, w2, e2, h2⟩ := ih f1 w1 (count + d.length) h1.s.ok (h1.s.inMem hin)
        (by rw [hl, show f1.cap = f.cap by rw [h1.s.eq]]; omega)
      exact ⟨f2, w2, by rw [e2, Nat.add_assoc], h1.trans h2⟩

theorem fwriteVectored_fwc (f : FuseW) (w : World) (bufs : List Bytes) (hb : f.buffered = true) (hok : f.ok)
    (hin : f.inMem w.mem) :
    FwC (bufs.flatten.take ((FuseW.writeVectored f w bufs).f.len - f.len)) f w
      (FuseW.writeVectored f w bufs).f (FuseW.writeVectored f w bufs).w
    ∧ (∀ n, (FuseW.writeVectored f w bufs).res = .ok n →
        n = bufs.flatten.length ∧ (FuseW.writeVectored f w bufs).f.len - f.len = n)
    ∧ (∀ e, (FuseW.writeVectored f w bufs).res = .error e → (FuseW.writeVectored f w bufs).f.len - f.len = 0) := by
  have hsz : bufs.foldl (fun acc x => acc + x.length) 0 = bufs.flatten.length := by
    rw [foldl_len_eq_flatten]; omega
  by_cases hfit : bufs.flatten.length ≤ f.cap - f.len
  · have hc := (fcheckAvail_buffered (sz := bufs.flatten.length) hb hok).1 hfit
    have hok' := hok
    unfold FuseW.ok at hok'
    obtain ⟨f1, w1, e, hcw⟩ := extendAll_fwc f w bufs 0 hok hin (by omega)
    have hl : f1.len - f.len = bufs.flatten.length := by rw [hcw.s.eq]; simp
    unfold FuseW.writeVectored
    simp only [hsz, hc, hb, if_true, e]
    rw [hl, List.take_length]
    refine ⟨hcw, ?_, ?_⟩
    · intro n hn; simp only [Nat.zero_add, Except.ok.injEq] at hn; exact ⟨hn.symm, hn⟩
    · intro e he; cases he
  · have hc := (fcheckAvail_buffered (sz := bufs.flatten.length) hb hok).2 (by omega)
    unfold FuseW.writeVectored
    simp only [hsz, hc, Nat.sub_self, List.take_zero]
    refine ⟨FwC.refl f w hok, ?_, ?_⟩
    · intro n hn; cases hn
    · intro _ _; trivial

end Fbr.Xport
