/-
  Fbr.Lemmas.SrvAsyncGood — the reply-stream invariant `Good` for the asynchronous request path
  (`Fbr.SrvAsync.handle`), for EVERY request: unlike the equivalence of C20 it needs neither the
  "no passthrough id" hypothesis nor the exclusion of oversize WRITEs.
-/
import Fbr.Lemmas.SrvGood
import Fbr.Lemmas.SrvAsyncEq

namespace Fbr.SrvAsync
open Fbr.Srv Fbr.Wire

theorem good_aWithObj (cfg : Cfg) (u : Nat) (calls0 : List Call) (r : Bytes) (n : Nat) (k : Bytes → ARes)
    (hk : ∀ b, Good cfg u (forget (k b))) : Good cfg u (forget (aWithObj cfg calls0 r n k)) := by
  rw [forget_aWithObj cfg calls0 r n k (fun b => forget (k b)) (fun _ => rfl)]
  exact good_withObj _ _ _ _ _ _ hk

theorem good_aNamed (cfg : Cfg) (u : Nat) (calls0 : List Call) (hdrLen : Nat) (r : Bytes) (sub : Nat)
    (k : Bytes → List Nat → ARes) (hu : u < 2 ^ 64) (hk : ∀ nm al, Good cfg u (forget (k nm al))) :
    Good cfg u (forget (aNamed cfg u calls0 hdrLen r sub k)) := by
  rw [forget_aNamed cfg u calls0 hdrLen r sub k (fun nm al => forget (k nm al)) (fun _ _ => rfl)]
  exact good_named _ _ _ _ _ _ _ hu hk

theorem good_aSimple (cfg : Cfg) (fs : Call → Ans) (u : Nat) (calls0 : List Call) (c : Call)
    (al : List Nat) (okb : Ans → Option (Bytes × Bytes)) (hu : u < 2 ^ 64) (hcap : cfg.cap < 2 ^ 32)
    (hfs : FsSane fs) : Good cfg u (forget (aSimple cfg fs u calls0 c al okb)) := by
  rw [forget_aSimple]
  exact good_simple _ _ _ _ _ _ _ hu hcap hfs

theorem good_aErrRes (cfg : Cfg) (u : Nat) (calls : List Call) (al : List Nat) (e : IoErr)
    (hu : u < 2 ^ 64) (he : e.Sane) : Good cfg u (forget (aErrRes cfg u calls al e)) := by
  rw [forget_aErrRes]
  exact good_errRes _ _ _ _ _ hu he

theorem good_aBail (cfg : Cfg) (u : Nat) (calls : List Call) (al : List Nat) (e : SrvErr) :
    Good cfg u (forget (aBail cfg calls al e)) := by
  rw [forget_aBail]
  exact good_bail _ _ _ _ _

/-- every asynchronous handler keeps the invariant -/
theorem good_handleBodyA (cfg : Cfg) (fs : Call → Ans) (ctx : Ctx) (calls0 : List Call)
    (hdrLen op u nodeid : Nat) (r : Bytes) (hu : u < 2 ^ 64) (hcap : cfg.cap < 2 ^ 32)
    (hfs : FsSane fs) : Good cfg u (forget (handleBodyA cfg fs ctx calls0 hdrLen op u nodeid r)) := by
  unfold handleBodyA
  split
  · -- LOOKUP
    refine good_aNamed _ _ _ _ _ _ _ hu (fun nm al => ?_)
    rw [forget_aLookupReply]
    exact good_lookupReply _ _ _ _ _ hu hcap (fun e h => hfs _ e h)
  · exact good_aWithObj _ _ _ _ _ _ (fun b => good_aSimple _ _ _ _ _ _ _ hu hcap hfs)
  · exact good_aWithObj _ _ _ _ _ _ (fun b => good_aSimple _ _ _ _ _ _ _ hu hcap hfs)
  · exact good_aWithObj _ _ _ _ _ _ (fun b => good_aSimple _ _ _ _ _ _ _ hu hcap hfs)
  · -- READ
    refine good_aWithObj _ _ _ _ _ _ (fun b => ?_)
    split
    · exact good_aBail _ _ _ _ _
    · next h16 =>
      rw [forget_aReadReply]
      exact good_readReply _ _ _ _ hu hcap (by unfold OUT_HDR at h16; omega) (fun e h => hfs _ e h)
  · -- WRITE (including the size > 1 MiB refusal)
    refine good_aWithObj _ _ _ _ _ _ (fun b => ?_)
    split
    · exact good_aErrRes _ _ _ _ _ hu (sane_os _ (by decide) (by decide))
    · exact good_aSimple _ _ _ _ _ _ _ hu hcap hfs
  · exact good_aWithObj _ _ _ _ _ _ (fun b => good_aSimple _ _ _ _ _ _ _ hu hcap hfs)
  · exact good_aWithObj _ _ _ _ _ _ (fun b => good_aSimple _ _ _ _ _ _ _ hu hcap hfs)
  · -- CREATE
    refine good_aWithObj _ _ _ _ _ _ (fun b => ?_)
    exact good_aNamed _ _ _ _ _ _ _ hu (fun nm al => good_aSimple _ _ _ _ _ _ _ hu hcap hfs)
  · exact good_aWithObj _ _ _ _ _ _ (fun b => good_aSimple _ _ _ _ _ _ _ hu hcap hfs)
  · rw [forget_ofSync]
    exact good_handleBody _ _ _ _ _ _ _ _ _ hu hcap hfs

/-- **the reply-stream invariant for the asynchronous path, every request** -/
theorem good_handleA (cfg : Cfg) (fs : Call → Ans) (req : Bytes) (hcap : cfg.cap < 2 ^ 32)
    (hfs : FsSane fs) : Good cfg (uniqueOf req) (forget (SrvAsync.handle cfg fs req)) := by
  have hu : uniqueOf req < 2 ^ 64 := u64At_lt req 8
  unfold SrvAsync.handle
  split
  · exact good_silent _ _ _ rfl (by intro s; simp [forget]) (by intro n h; simp [forget] at h)
  · cases hr : fs (remapCall req) with
    | err e => exact good_silent _ _ _ rfl (by intro s; simp [forget]) (by intro n h; simp [forget] at h)
    | _ =>
      all_goals (
        simp only
        unfold afterRemapA
        split
        · split
          · exact good_silent _ _ _ rfl (by intro s; simp [forget]) (by intro n h; simp [forget] at h)
          · exact good_aErrRes _ _ _ _ _ hu (sane_os _ (by decide) (by decide))
        · split
          · exact good_handleBodyA _ _ _ _ _ _ _ _ _ hu hcap hfs
          · exact good_aErrRes _ _ _ _ _ hu (sane_os _ (by decide) (by decide)))

end Fbr.SrvAsync
